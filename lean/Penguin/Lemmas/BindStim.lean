/-
The stimuli of the correspondence harness are runs of the bind pair (`Model/BindPair`).  The harness
drives each real endpoint one stimulus at a time — one application call, or one message moved from
the wire into the endpoint — and then lets the connection task run until nothing is left to do; that
is `Mux.applyOp` (`opStep` followed by `settle`), the function the harness compares with the real
code.  Here: on a connection that carries bind traffic, the endpoint state and the wire contents
after such a stimulus are those after the fine-grained actions `call; unpark; xmit*` (resp.
`recv; unpark; xmit*`), so everything proved for all runs of the pair holds after every history the
harness can execute.  Core Lean only.
-/
import Penguin.Lemmas.BindPair

namespace Penguin.BindPair
open Penguin.Mux

/-- The messages handed to the sink, in order. -/
def wiresOf : List Ev → List Msg
  | [] => []
  | .wire m :: rest => m :: wiresOf rest
  | _ :: rest => wiresOf rest

theorem wiresOf_append (a b : List Ev) : wiresOf (a ++ b) = wiresOf a ++ wiresOf b := by
  induction a with
  | nil => rfl
  | cons x xs ih => cases x <;> simp [wiresOf, ih]

theorem wiresOf_map_wire (l : List Msg) : wiresOf (l.map Ev.wire) = l := by
  induction l with
  | nil => rfl
  | cons m ms ih => simp [wiresOf, ih]

/-- Left actions in sequence; `none` if one is not enabled. -/
def runL (p : PS) : List Act → Option PS
  | [] => some p
  | a :: rest => (stepL p a).bind (fun q => runL q rest)

theorem run_of_runL (p q : PS) (l : List Act) (h : runL p l = some q) : run p (l.map (fun a => (Side.A, a))) = q := by
  induction l generalizing p with
  | nil => simp [runL] at h; simp [run, h]
  | cons a rest ih =>
    simp only [runL, Option.bind_eq_some_iff] at h
    obtain ⟨q1, h1, h2⟩ := h
    simp only [List.map_cons, run, step, h1, Option.getD_some]
    exact ih q1 h2

/-- The send loop hands the whole queue to the transport, one message at a time. -/
theorem runL_xmits (l : List Msg) (p : PS) (hq : p.a.outq = l) :
    runL p (List.replicate l.length .xmit) = some { p with a := { p.a with outq := [] }, ab := p.ab ++ l } := by
  induction l generalizing p with
  | nil =>
    simp only [List.length_nil, List.replicate_zero, runL, List.append_nil]
    congr 1
    cases p with
    | mk a b ab ba ga gb =>
      cases a
      simp_all
  | cons m rest ih =>
    simp only [List.length_cons, List.replicate_succ, runL, stepL, hq, Option.bind_some]
    rw [ih _ rfl]
    simp

/-! ### `settle` on an idle endpoint -/

theorem idleB_spec {e : EP} (h : idleB e = true) :
    e.inbox = [] ∧ e.droppedq = [] ∧ e.doneq = [] ∧ e.retryq = [] ∧ e.closing = none ∧ e.draining = none ∧
    e.dead = false ∧ e.sinkRoom = none ∧ e.srcEnded = false := by
  simp only [idleB, Bool.and_eq_true, List.isEmpty_iff, Option.isNone_iff_eq_none, Bool.not_eq_eq_eq_not,
    Bool.not_true] at h
  obtain ⟨⟨⟨⟨⟨⟨⟨⟨h1, h2⟩, h3⟩, h4⟩, h5⟩, h6⟩, h7⟩, h8⟩, h9⟩ := h
  exact ⟨h1, h2, h3, h4, h5, h6, h7, h8, h9⟩

/-- `unpark` of a running endpoint of the fragment: a parked request moves into the bind queue if
    there is room. -/
theorem unpark_run {e : EP} (h : Run e) :
    Mux.unpark e = e ∨ ∃ b, e.park = some (.bind b) ∧ Mux.unpark e = { e with bindq := e.bindq ++ [b], park := none } := by
  cases hpk : e.park with
  | none => left; unfold Mux.unpark; rw [hpk]
  | some pk =>
    cases pk with
    | accept i => exact absurd hpk (h.park i)
    | bind b =>
      by_cases hroom : e.bindq.length < e.opts.bindCap
      · right; exact ⟨b, rfl, by unfold Mux.unpark; rw [hpk]; simp [h.alive, hroom]⟩
      · left; unfold Mux.unpark; rw [hpk]; simp [h.alive, hroom]

theorem unpark_keeps {e : EP} (h : Run e) :
    (Mux.unpark e).inbox = e.inbox ∧ (Mux.unpark e).droppedq = e.droppedq ∧ (Mux.unpark e).doneq = e.doneq ∧
    (Mux.unpark e).retryq = e.retryq ∧ (Mux.unpark e).closing = e.closing ∧ (Mux.unpark e).draining = e.draining ∧
    (Mux.unpark e).dead = e.dead ∧ (Mux.unpark e).sinkRoom = e.sinkRoom ∧ (Mux.unpark e).outq = e.outq := by
  rcases unpark_run h with hu | ⟨b, _, hu⟩ <;> rw [hu] <;> simp

theorem set_done_retry_self (e : EP) (h1 : e.doneq = []) (h2 : e.retryq = []) :
    ({ e with doneq := [], retryq := [] } : EP) = e := by
  cases e; simp_all

theorem sendSome_none (e : EP) (h : e.sinkRoom = none) : sendSome e = ({ e with outq := [] }, e.outq.map .wire) := by
  unfold sendSome; rw [h]

/-- The task's loop on an idle endpoint completes a parked hand-over if it can, and nothing else. -/
theorem settleLoop_idle {e : EP} (h : Run e) (n : Nat) (acc : List Ev) :
    settleLoop (n + 1) e acc = (Mux.unpark e, acc) := by
  obtain ⟨i1, i2, i3, i4, i5, i6, i7, i8, _⟩ := idleB_spec h.idle
  obtain ⟨u1, u2, u3, u4, u5, u6, u7, u8, _⟩ := unpark_keeps h
  unfold settleLoop
  simp only [i7, Bool.false_eq_true, if_false, i6, i5, u1, u2, i1, i2]
  split <;> first | rfl | simp_all

/-- What `settle` does after its loop, when the loop leaves a running endpoint whose futures have
    nothing to do: the queue goes to the transport. -/
theorem settle_tail (e0 e : EP) (acc : List Ev)
    (hl : settleLoop (2 * e0.inbox.length + e0.droppedq.length + 2) e0 [] = (e, acc))
    (h7 : e.dead = false) (h6 : e.draining = none) (h8 : e.sinkRoom = none) (h3 : e.doneq = []) (h4 : e.retryq = []) :
    settle e0 = ({ e with outq := [] }, acc ++ e.outq.map .wire) := by
  unfold settle
  simp only [hl, h7, h6, Option.isSome_none, Bool.or_self, Bool.false_eq_true, if_false]
  simp only [sendSome_none, h8, h3, h4, List.foldr_nil, Mux.runDone, sortNat, Mux.runRetries, h7, h6,
    Option.isSome_none, Bool.or_self, Bool.false_eq_true, if_false, List.map_nil, List.append_nil]

/-- With nothing to receive and nothing to notify, the task completes a parked hand-over if it can
    and hands its queue to the transport. -/
theorem settle_idle {e : EP} (h : Run e) :
    settle e = ({ Mux.unpark e with outq := [] }, (Mux.unpark e).outq.map .wire) := by
  obtain ⟨i1, i2, i3, i4, i5, i6, i7, i8, _⟩ := idleB_spec h.idle
  obtain ⟨u1, u2, u3, u4, u5, u6, u7, u8, _⟩ := unpark_keeps h
  have hl : settleLoop (2 * e.inbox.length + e.droppedq.length + 2) e [] = (Mux.unpark e, []) := by
    rw [i1, i2]; exact settleLoop_idle h 1 []
  rw [settle_tail e (Mux.unpark e) [] hl (by rw [u7, i7]) (by rw [u6, i6]) (by rw [u8, i8]) (by rw [u3, i3]) (by rw [u4, i4])]
  simp

/-- After `unpark` and handing the queue over: the pair state the harness sees after the task ran. -/
theorem unpark_xmits {oa ob : Opts} {p : PS} (h : PInv oa ob p) :
    runL p (.unpark :: List.replicate (Mux.unpark p.a).outq.length .xmit) =
      some { p with a := (settle p.a).1, ab := p.ab ++ wiresOf (settle p.a).2 } := by
  simp only [runL, stepL, Option.bind_some]
  rw [runL_xmits (Mux.unpark p.a).outq _ rfl, settle_idle h.ra, wiresOf_map_wire]

/-- The application calls of the fragment. -/
def opOf : Act → Option Mux.Op
  | .bindReq req bt host port => some (.bindReq req bt host port)
  | .bindNext => some .bindNext
  | .bindReply k acc => some (.bindReply k acc)
  | .bindDrop k => some (.bindDrop k)
  | _ => none

/-- A call at the left endpoint, as the pair sees it: the state right after the call. -/
theorem call_step {p q : PS} {a : Act} {op : Mux.Op} (ho : opOf a = some op) (hs : stepL p a = some q) :
    q.a = (opStep p.a op).1 ∧ wiresOf (opStep p.a op).2.2 = [] ∧ q.ab = p.ab ∧ q.b = p.b ∧ q.ba = p.ba := by
  cases a with
  | bindReq req bt host port =>
    simp only [opOf, Option.some.injEq] at ho; subst ho
    simp only [stepL] at hs
    split at hs
    · cases hs
    · cases hs
      refine ⟨rfl, ?_, rfl, rfl, rfl⟩
      simp only [opStep, appBindReq]
      split
      · simp [wiresOf]
      · split <;> simp [wiresOf]
  | bindNext =>
    simp only [opOf, Option.some.injEq] at ho; subst ho
    simp only [stepL] at hs
    cases hs
    exact ⟨rfl, rfl, rfl, rfl, rfl⟩
  | bindReply k acc =>
    simp only [opOf, Option.some.injEq] at ho; subst ho
    simp only [stepL] at hs
    split at hs
    · cases hs
    · split at hs
      · cases hs
      · cases hs
        exact ⟨rfl, rfl, rfl, rfl, rfl⟩
  | bindDrop k =>
    simp only [opOf, Option.some.injEq] at ho; subst ho
    simp only [stepL] at hs
    split at hs
    · cases hs
    · split at hs
      · cases hs
      · cases hs
        exact ⟨rfl, rfl, rfl, rfl, rfl⟩
  | xmit => simp [opOf] at ho
  | recv => simp [opOf] at ho
  | unpark => simp [opOf] at ho

theorem applyOp_eq (e : EP) (op : Mux.Op) :
    (applyOp e op).1 = (settle (opStep e op).1).1 ∧
    (applyOp e op).2.2 = (opStep e op).2.2 ++ (settle (opStep e op).1).2 := by
  unfold applyOp; exact ⟨rfl, rfl⟩

/-- An application call of the harness (`request_bind`, `next_bind_request`, `reply`, dropping a
    `BindRequest`, each followed by the task's run to quiescence) is a run of the pair: the call, the
    completion of a parked hand-over, and the queue handed to the transport message by message. -/
theorem call_is_a_run {oa ob : Opts} {p q1 : PS} (h : PInv oa ob p) {a : Act} {op : Mux.Op}
    (ho : opOf a = some op) (hs : stepL p a = some q1) :
    ∃ n q, runL p (a :: .unpark :: List.replicate n .xmit) = some q ∧
      q.a = (applyOp p.a op).1 ∧ q.ab = p.ab ++ wiresOf (applyOp p.a op).2.2 ∧ q.b = p.b ∧ q.ba = p.ba := by
  obtain ⟨c1, c2, c3, c4, c5⟩ := call_step ho hs
  have h1 := stepL_inv h a hs
  refine ⟨(Mux.unpark q1.a).outq.length, { q1 with a := (settle q1.a).1, ab := q1.ab ++ wiresOf (settle q1.a).2 }, ?_, ?_, ?_, ?_, ?_⟩
  · simp only [runL, hs, Option.bind_some]
    exact unpark_xmits h1
  · simp only [(applyOp_eq p.a op).1, ← c1]
  · simp only [(applyOp_eq p.a op).2, wiresOf_append, c2, List.nil_append, ← c1, c3]
  · exact c4
  · exact c5

/-- A frame of the fragment never ends the connection. -/
theorem processFrame_bf_exit (e : EP) (f : Frame) (hbf : isBF (.frame f) = true) : (processFrame e f false).2.2 = none := by
  cases f with
  | bind x bt port host =>
    simp only [processFrame]
    split
    · rfl
    · simp only [Bool.false_eq_true, if_false]
      split <;> rfl
  | finish x => simp only [processFrame]; split <;> rfl
  | reset x => simp only [processFrame]
  | connect _ _ _ _ => simp [isBF] at hbf
  | acknowledge _ _ => simp [isBF] at hbf
  | push _ _ => simp [isBF] at hbf
  | datagram _ _ _ _ => simp [isBF] at hbf

theorem closeFlow_no_wires (e : EP) (fid : Nat) (inh : Bool) : wiresOf (closeFlow e fid inh).2 = [] := by
  unfold closeFlow
  split
  · rfl
  · rename_i s _
    cases s with
    | established i =>
      simp only [closeLocal]
      split <;> rfl
    | requested req =>
      simp only [closeLocal, openRejected]
      repeat' split
      all_goals rfl
    | bindRequested req => rfl

/-- Processing a frame of the fragment hands nothing to the transport directly (answers are queued). -/
theorem processFrame_bf_no_wires (e : EP) (f : Frame) (hbf : isBF (.frame f) = true) :
    wiresOf (processFrame e f false).2.1 = [] := by
  cases f with
  | bind x bt port host =>
    simp only [processFrame]
    split
    · rfl
    · simp only [Bool.false_eq_true, if_false]
      split <;> rfl
  | finish x =>
    simp only [processFrame]
    split
    · rfl
    · rfl
    · simp only; split <;> rfl
    · rfl
  | reset x => simp only [processFrame]; exact closeFlow_no_wires e x true
  | connect _ _ _ _ => simp [isBF] at hbf
  | acknowledge _ _ => simp [isBF] at hbf
  | push _ _ => simp [isBF] at hbf
  | datagram _ _ _ _ => simp [isBF] at hbf

theorem set_inbox_self (e : EP) (h : e.inbox = []) : ({ e with inbox := [] } : EP) = e := by
  cases e; simp_all

/-- The receive loop is enabled for the oldest message in transit when it is not parked. -/
theorem recv_enabled {oa ob : Opts} {p : PS} (h : PInv oa ob p) (f : Frame) (rest : List Msg)
    (hba : p.ba = .frame f :: rest) (hp : p.a.park = none) :
    stepL p .recv = some { p with a := (processFrame p.a f false).1, ba := rest,
                                  ga := { p.ga with results := p.ga.results ++ resultsOf (processFrame p.a f false).2.1 } } := by
  have hbf : isBF (.frame f) = true := h.wb _ (by rw [hba]; simp)
  have hex := processFrame_bf_exit p.a f hbf
  have hpf : processFrame p.a f false = ((processFrame p.a f false).1, (processFrame p.a f false).2.1, none) := by
    rw [← hex]
  simp only [stepL, hp, Option.isSome_none, Bool.false_eq_true, if_false, hba]
  rw [hpf]

theorem unpark_none (e : EP) (h : e.park = none) : Mux.unpark e = e := by
  unfold Mux.unpark; rw [h]

/-- One round of the task's loop: the receive loop, not parked, takes the oldest item. -/
theorem settleLoop_recv (n : Nat) (e : EP) (w : WsIn) (rest : List WsIn) (acc : List Ev)
    (hd : e.dead = false) (hdr : e.draining = none) (hc : e.closing = none) (hp : e.park = none)
    (hin : e.inbox = w :: rest) (hex : (recvOne e w rest).2.2 = none) :
    settleLoop (n + 1) e acc = settleLoop n (recvOne e w rest).1 (acc ++ (recvOne e w rest).2.1) := by
  have hu := unpark_none e hp
  conv => lhs; unfold settleLoop
  simp only [hd, Bool.false_eq_true, if_false, hdr, hc, hu, hp, hin, hex]

theorem recvOne_frame (e : EP) (f : Frame) (h : e.inbox = []) :
    recvOne { e with inbox := [.msg (.frame f)] } (.msg (.frame f)) [] = processFrame e f false := by
  simp only [recvOne, processIn, reduceCtorEq, or_self, if_false]
  rw [set_inbox_self e h]

/-- A delivery of the harness (the oldest message in transit is handed to an endpoint whose receive
    loop is not parked; then the task runs to quiescence) is a run of the pair. -/
theorem deliver_is_a_run {oa ob : Opts} {p : PS} (h : PInv oa ob p) (f : Frame) (rest : List Msg)
    (hba : p.ba = .frame f :: rest) (hp : p.a.park = none) :
    ∃ n q, runL p (.recv :: .unpark :: List.replicate n .xmit) = some q ∧
      q.a = (applyOp p.a (.deliver (.msg (.frame f)))).1 ∧
      q.ab = p.ab ++ wiresOf (applyOp p.a (.deliver (.msg (.frame f)))).2.2 ∧ q.b = p.b ∧ q.ba = rest := by
  obtain ⟨q1, hs1, c1, c3, c4, c5⟩ : ∃ q1, stepL p .recv = some q1 ∧ q1.a = (processFrame p.a f false).1 ∧
      q1.ab = p.ab ∧ q1.b = p.b ∧ q1.ba = rest := ⟨_, recv_enabled h f rest hba hp, rfl, rfl, rfl, rfl⟩
  have h1 := stepL_inv h .recv hs1
  have hr1 : Run (processFrame p.a f false).1 := c1 ▸ h1.ra
  obtain ⟨i1, i2, i3, i4, i5, i6, i7, i8, i9⟩ := idleB_spec h.ra.idle
  have hex := processFrame_bf_exit p.a f (h.wb _ (by rw [hba]; simp))
  -- the stimulus: the frame is put into the inbox, the loop takes it, then the endpoint is idle again
  have hop : opStep p.a (.deliver (.msg (.frame f))) = ({ p.a with inbox := [.msg (.frame f)] }, .unit, []) := by
    simp [opStep, i9, i1]
  have hl : settleLoop (2 * ({ p.a with inbox := [WsIn.msg (.frame f)] } : EP).inbox.length +
        ({ p.a with inbox := [WsIn.msg (.frame f)] } : EP).droppedq.length + 2) { p.a with inbox := [.msg (.frame f)] } [] =
      (Mux.unpark (processFrame p.a f false).1, (processFrame p.a f false).2.1) := by
    have hfuel : 2 * ({ p.a with inbox := [WsIn.msg (.frame f)] } : EP).inbox.length +
        ({ p.a with inbox := [WsIn.msg (.frame f)] } : EP).droppedq.length + 2 = 3 + 1 := by simp [i2]
    rw [hfuel, settleLoop_recv 3 ({ p.a with inbox := [WsIn.msg (.frame f)] }) (.msg (.frame f)) [] [] i7 i6 i5 hp rfl (by rw [recvOne_frame p.a f i1]; exact hex),
      recvOne_frame p.a f i1, List.nil_append]
    exact settleLoop_idle hr1 2 _
  obtain ⟨j1, j2, j3, j4, j5, j6, j7, j8, _⟩ := idleB_spec hr1.idle
  obtain ⟨u1, u2, u3, u4, u5, u6, u7, u8, _⟩ := unpark_keeps hr1
  have hst := settle_tail _ _ _ hl (by rw [u7]; exact j7) (by rw [u6]; exact j6) (by rw [u8]; exact j8)
    (by rw [u3]; exact j3) (by rw [u4]; exact j4)
  have hsi := settle_idle hr1
  refine ⟨(Mux.unpark q1.a).outq.length, { q1 with a := (settle q1.a).1, ab := q1.ab ++ wiresOf (settle q1.a).2 }, ?_, ?_, ?_, c4, c5⟩
  · simp only [runL, hs1, Option.bind_some]
    exact unpark_xmits h1
  · simp only [(applyOp_eq _ _).1, hop, hst, c1, hsi]
  · simp only [(applyOp_eq _ _).2, hop, hst, c1, c3, hsi, List.nil_append, wiresOf_append, wiresOf_map_wire]
    rw [processFrame_bf_no_wires p.a f (h.wb _ (by rw [hba]; simp)), List.nil_append]

end Penguin.BindPair
