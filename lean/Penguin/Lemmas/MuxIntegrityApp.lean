/-
Stream integrity on the RECEIVING side — part 2: the application calls, the ghost record of a history
(`runOpsG`) and the invariant that ties the record to the state, for every history of one endpoint and
ANY peer (wind-down, dropped `Multiplexor`, transport errors, invalid frames, overruns, reused ids).

The ghost record is made of observables only: `accepted` — the frames `process_frame` accepted into a
stream object, decided on the state BEFORE each frame is processed (`acceptedInto`, `settleLog`);
`returned` — the bytes the `read` calls returned, attributed to the object behind the handle used;
`discarded` — the frames that were queued, unread, when the application dropped the stream's handle;
`wrote` — the payloads of the write calls that returned `wrote n`; `evs` — everything the endpoint emitted.
Core Lean only.
-/
import Penguin.Lemmas.MuxIntegrity
import Penguin.Lemmas.MuxOnce

namespace Penguin.Mux

/-! ### Application calls that neither read nor drop a stream leave every stream's bytes alone -/

theorem RxT.appWrite (e : EP) (h : Nat) (d : Bytes) : RxT e (appWrite e h d).1 [] := by
  unfold Mux.appWrite
  split
  · exact RxT.refl e
  · split
    · exact RxT.modObj e _ _ (by rx_side)
    · split
      · exact RxT.modObj e _ _ (by rx_side)
      · split
        · exact RxT.modObj e _ _ (by rx_side)
        · split
          · exact RxT.modObj e _ _ (by rx_side)
          · exact (RxT.modObj e _ _ (by rx_side)).trans0 (RxT.enqFrame _ _)

theorem RxT.ackStep (e : EP) (i : Nat) (o : Obj) : RxT e (ackStep e i o) [] := by
  unfold Mux.ackStep
  split
  · exact (RxT.modObj e _ _ (by rx_side)).trans0 (RxT.enqFrame _ _)
  · exact RxT.modObj e _ _ (by rx_side)

/-- `poll_fill_buf` moves the oldest queued frame into the (empty) buffer: the readable bytes stay. -/
theorem RxT.fillBuf (fuel : Nat) (e : EP) (i : Nat) : RxT e (fillBuf fuel e i).1 [] := by
  induction fuel generalizing e with
  | zero => exact RxT.refl e
  | succ n ih =>
    unfold Mux.fillBuf
    split
    · exact RxT.refl e
    · split
      · exact RxT.refl e
      · split
        · rename_i _ o ho hb _ f rest hq
          have s := (RxT.modObj e i (fun o => { o with rxq := rest, buf := f }) (by
              intro o' ho'
              rw [ho] at ho'; cases ho'
              refine ⟨?_, fun _ h2 => ?_⟩
              · have hbe : o.buf = [] := by simpa using hb
                simp [Obj.stream, hq, hbe]
              · rw [hq] at h2; cases h2)).trans0
            (RxT.ackStep _ i { o with rxq := rest, buf := f })
          simp only
          split
          · exact s.trans0 (ih _)
          · exact s
        · split
          · exact RxT.refl e
          · exact RxT.modObj e _ _ (by rx_side)

theorem RxT.appShutdown (e : EP) (h : Nat) : RxT e (appShutdown e h).1 [] := by
  unfold Mux.appShutdown
  split
  · exact RxT.refl e
  · split
    · exact RxT.modObj e _ _ (by rx_side)
    · exact (RxT.modObj e _ _ (by rx_side)).trans0 (RxT.enqFrame _ _)

theorem RxT.appAccept (e : EP) : RxT e (appAccept e).1 [] := by
  unfold Mux.appAccept
  split
  · split
    · rx_same
    · exact RxT.refl e
  · split <;> exact RxT.refl e

theorem RxT.appSendDgram (e : EP) (d : Dgram) : RxT e (appSendDgram e d).1 [] := by
  unfold Mux.appSendDgram
  split
  · exact RxT.refl e
  · split
    · exact RxT.refl e
    · exact RxT.enqFrame _ _

theorem RxT.appRecvDgram (e : EP) : RxT e (appRecvDgram e).1 [] := by
  unfold Mux.appRecvDgram
  split
  · rx_same
  · split <;> exact RxT.refl e

theorem RxT.appBindReq (e : EP) (req : Nat) (bt : BindType) (host : Bytes) (port : Nat) :
    RxT e (appBindReq e req bt host port).1 [] := by
  unfold Mux.appBindReq
  split
  · exact RxT.refl e
  · split
    · rx_same
    · exact RxT.enqFrame' _ rfl

theorem RxT.appBindNext (e : EP) : RxT e (appBindNext e).1 [] := by
  unfold Mux.appBindNext
  split
  · exact RxT.refl e
  · split
    · rx_same
    · split <;> exact RxT.refl e

theorem RxT.appBindReply (e : EP) (k : Nat) (a : Bool) : RxT e (appBindReply e k a).1 [] := by
  unfold Mux.appBindReply
  split
  · exact RxT.refl e
  · split
    · exact RxT.refl e
    · split
      · exact RxT.refl e
      · exact (RxT.enqFrame e _).trans0 (RxT.same rfl)

theorem RxT.appBindDrop (e : EP) (k : Nat) : RxT e (appBindDrop e k).1 [] := by
  unfold Mux.appBindDrop
  split
  · exact RxT.refl e
  · split
    · exact RxT.refl e
    · simp only
      split
      · rx_same
      · exact RxT.enqFrame' _ rfl

theorem RxT.foldEnq (l : List BindIn) (e : EP) :
    RxT e (l.foldl (fun e b => e.enqFrame (.reset b.fid)) e) [] := by
  induction l generalizing e with
  | nil => exact RxT.refl e
  | cons b rest ih => exact (RxT.enqFrame e _).trans0 (ih _)

theorem RxT.appDropMux (e : EP) : RxT e (appDropMux e).1 [] := by
  unfold Mux.appDropMux
  simp only
  have s1 : RxT e { e with muxAlive := false, droppedq := if e.dead then e.droppedq else e.droppedq ++ [0] } [] := by rx_same
  exact (s1.trans0 (RxT.foldEnq e.bindq _)).trans0 (RxT.same rfl)

/-! ### The two calls that take bytes out of a stream -/

/-- An application step: `R` is what reads returned, `D` what a handle drop threw away. -/
structure RxA (e e' : EP) (R D : Log) : Prop where
  str : ∀ i, str e i = chunks R i ++ str e' i ++ chunks D i
  shut : ∀ i, rxShut e i → rxShut e' i ∧ chunks D i = []
  drop : ∀ i, chunks D i ≠ [] → rxShut e' i

theorem RxA.ofT {e e' : EP} (s : RxT e e' []) : RxA e e' [] [] :=
  ⟨fun i => by have := s.str i; simp only [chunks_nil, List.append_nil] at this; simp [Mux.str, this],
   fun i h => ⟨(s.shut i h).1, rfl⟩, fun i h => absurd rfl h⟩

theorem RxA.afterT {a b c : EP} {R D : Log} (s : RxT a b []) (t : RxA b c R D) : RxA a c R D :=
  ⟨fun i => by
    have h1 := s.str i
    simp only [chunks_nil, List.append_nil] at h1
    have h2 := t.str i
    unfold Mux.str at h2 ⊢
    rw [← h1]; exact h2,
   fun i h => t.shut i (s.shut i h).1, t.drop⟩

theorem ackStep_buf (e : EP) (i : Nat) (x o : Obj) (ho : e.objs[i]? = some o) :
    ∃ o', (ackStep e i x).objs[i]? = some o' ∧ o'.buf = o.buf := by
  unfold Mux.ackStep
  split
  · refine ⟨{ o with recvdSince := 0 }, ?_, rfl⟩
    simp only [EP.enqFrame, enq_objs]
    rw [modObj_get_self, ho]; rfl
  · refine ⟨{ o with recvdSince := x.recvdSince + 1 }, ?_, rfl⟩
    rw [modObj_get_self, ho]; rfl

/-- `poll_fill_buf` answers `data b` only with `b` in the handle's buffer. -/
theorem fillBuf_data (fuel : Nat) (e : EP) (i : Nat) (e' : EP) (b : Bytes) (h : fillBuf fuel e i = (e', .data b)) :
    ∃ o', e'.objs[i]? = some o' ∧ o'.buf = b := by
  induction fuel generalizing e with
  | zero => simp [Mux.fillBuf] at h
  | succ n ih =>
    unfold Mux.fillBuf at h
    split at h
    · simp at h
    · rename_i o ho
      split at h
      · simp only [Prod.mk.injEq, Res.data.injEq] at h
        obtain ⟨h1, h2⟩ := h
        subst h1; exact ⟨o, ho, h2⟩
      · split at h
        · rename_i f rest hq
          simp only at h
          split at h
          · exact ih _ h
          · simp only [Prod.mk.injEq, Res.data.injEq] at h
            obtain ⟨h1, h2⟩ := h
            subst h1 h2
            have hm : (e.modObj i (fun o => { o with rxq := rest, buf := f })).objs[i]? = some { o with rxq := rest, buf := f } := by
              rw [modObj_get_self, ho]; rfl
            exact ackStep_buf _ i _ _ hm
        · split at h <;> simp at h

/-- The bytes a `read` call returned, attributed to the object behind the handle it used (looked up
    BEFORE the call). Every other call, and a read that does not answer `data`, returns no bytes. -/
def returnedBy (e : EP) (op : Op) (r : Res) : Log :=
  match op, r with
  | .read h _, .data bs =>
    match e.handleObj h with
    | some (i, _) => [(i, bs)]
    | none => []
  | _, _ => []

/-- The frames that were queued, unread, in a stream's channel when the application dropped its handle
    (`Drop for MuxStream`: the `Receiver` goes away with its contents). -/
def discardedBy (e : EP) (op : Op) : Log :=
  match op with
  | .dropStream h =>
    match e.handleObj h with
    | some (i, o) => [(i, o.rxq.flatten)]
    | none => []
  | _ => []

/-- A read takes a prefix of the handle's buffer. -/
theorem RxA.take (e : EP) (i n : Nat) (o : Obj) (ho : e.objs[i]? = some o) :
    RxA e (e.modObj i (fun x => { x with buf := o.buf.drop n })) [(i, o.buf.take n)] [] := by
  refine ⟨fun j => ?_, fun j hs => ⟨?_, rfl⟩, fun j h => absurd rfl h⟩
  · simp only [Mux.str, EP.modObj, setObj, chunks_nil, List.append_nil]
    by_cases hij : i = j
    · subst hij
      rw [strO_modify_self _ _ _ _ ho, chunks_single_self]
      simp only [strO, ho, Obj.stream]
      rw [← List.append_assoc, List.take_append_drop]
    · rw [strO_modify_ne _ _ _ _ hij, chunks_single_ne _ _ _ hij, List.nil_append]
  · obtain ⟨o', ho', hc, hq⟩ := hs
    simp only [rxShut, EP.modObj, setObj, shutO, List.getElem?_modify]
    by_cases hij : i = j
    · subst hij; rw [ho] at ho'; cases ho'
      exact ⟨{ o with buf := o.buf.drop n }, by simp [ho], hc, hq⟩
    · exact ⟨o', by simp [hij, ho'], hc, hq⟩

theorem RxA.appRead (e : EP) (h n : Nat) :
    RxA e (appRead e h n).1 (returnedBy e (.read h n) (appRead e h n).2) [] := by
  unfold Mux.appRead
  cases hh : e.handleObj h with
  | none => exact RxA.ofT (RxT.refl e)
  | some p =>
    obtain ⟨i, o⟩ := p
    simp only
    have s := RxT.fillBuf (o.rxq.length + 2) e i
    split
    · rename_i e' b heq
      rw [heq] at s
      obtain ⟨o', ho', hb⟩ := fillBuf_data _ _ _ _ _ heq
      subst hb
      simp only [returnedBy, hh]
      exact RxA.afterT s (RxA.take e' i n o' ho')
    · rename_i hne
      have hr : returnedBy e (.read h n) (Mux.fillBuf (o.rxq.length + 2) e i).2 = [] := by
        cases hf : Mux.fillBuf (o.rxq.length + 2) e i with
        | mk e2 res =>
          cases res <;> first | rfl | exact absurd hf (hne _ _)
      rw [hr]
      exact RxA.ofT s

/-- Dropping the handle throws the queued frames away; the handle's own buffer stays. -/
theorem RxA.appDropStream (e : EP) (h : Nat) :
    RxA e (appDropStream e h).1 [] (discardedBy e (.dropStream h)) := by
  unfold Mux.appDropStream
  cases hh : e.handleObj h with
  | none => simp only [discardedBy, hh]; exact RxA.ofT (RxT.refl e)
  | some p =>
    obtain ⟨i, o⟩ := p
    have ho := handleObj_some hh
    simp only [discardedBy, hh]
    have g : RxA e (e.modObj i (fun o => { o with rxOpen := false, rxq := [], parked := false })) [] [(i, o.rxq.flatten)] := by
      refine ⟨fun j => ?_, fun j hs => ?_, fun j hd => ?_⟩
      · simp only [Mux.str, EP.modObj, setObj, chunks_nil, List.nil_append]
        by_cases hij : i = j
        · subst hij
          rw [strO_modify_self _ _ _ _ ho, chunks_single_self]
          simp [strO, ho, Obj.stream]
        · rw [strO_modify_ne _ _ _ _ hij, chunks_single_ne _ _ _ hij, List.append_nil]
      · obtain ⟨o', ho', hc, hq⟩ := hs
        simp only [rxShut, EP.modObj, setObj, shutO, List.getElem?_modify]
        by_cases hij : i = j
        · subst hij; rw [ho] at ho'; cases ho'
          exact ⟨⟨{ o with rxOpen := false, rxq := [], parked := false }, by simp [ho], rfl, rfl⟩,
            by rw [chunks_single_self, hq]; rfl⟩
        · exact ⟨⟨o', by simp [hij, ho'], hc, hq⟩, chunks_single_ne _ _ _ hij⟩
      · by_cases hij : i = j
        · subst hij
          exact ⟨{ o with rxOpen := false, rxq := [], parked := false }, by simp [EP.modObj, setObj, ho], rfl, rfl⟩
        · exact absurd (chunks_single_ne _ _ _ hij) hd
    split
    · exact g
    · exact ⟨g.str, g.shut, g.drop⟩

/-- Every application call: the readable bytes of every stream shrink by exactly what a read
    returned from it (at the front) and what a handle drop threw away (at the back). -/
theorem RxA.opStep (e : EP) (op : Op) :
    RxA e (opStep e op).1 (returnedBy e op (opStep e op).2.1) (discardedBy e op) := by
  cases op with
  | «open» req host port =>
    simp only [Mux.opStep]
    split
    · exact RxA.ofT (RxT.refl e)
    · exact RxA.ofT (RxT.openRound e _)
  | accept => exact RxA.ofT (RxT.appAccept e)
  | write h d => exact RxA.ofT (RxT.appWrite e h d)
  | read h n => exact RxA.appRead e h n
  | shutdown h => exact RxA.ofT (RxT.appShutdown e h)
  | dropStream h => exact RxA.appDropStream e h
  | sendDgram d => exact RxA.ofT (RxT.appSendDgram e d)
  | recvDgram => exact RxA.ofT (RxT.appRecvDgram e)
  | bindReq req bt host port => exact RxA.ofT (RxT.appBindReq e req bt host port)
  | bindNext => exact RxA.ofT (RxT.appBindNext e)
  | bindReply k a => exact RxA.ofT (RxT.appBindReply e k a)
  | bindDrop k => exact RxA.ofT (RxT.appBindDrop e k)
  | dropMux => exact RxA.ofT (RxT.appDropMux e)
  | sinkRoom n => exact RxA.ofT (RxT.same rfl)
  | cancelOpen req => exact RxA.ofT (RxT.same rfl)
  | deliver w =>
    simp only [Mux.opStep]
    split
    · exact RxA.ofT (RxT.refl e)
    · split <;> exact RxA.ofT (RxT.same rfl)

end Penguin.Mux
