/-
The byte part of the invariant of the pair of views, for the direction left → right and one stream object
`j` of the right side: the payloads accepted into `j` (`R`), followed by the `Push x` payloads delivered and
not yet processed and those on the wire, are exactly the `Push x` payloads the left side's sink has taken
(`S`) — as long as `j` accepts and the wire is intact; a prefix of them otherwise.
Core Lean only.
-/
import Penguin.Lemmas.PairAllCoreStep

namespace Penguin.PairAll
open Penguin.Mux

variable {x j : Nat}

/-! ### Wires and deafness -/

structure Wires (c : PC) : Prop where
  deafA : deaf c.a = true → c.baOpen = false
  deafB : deaf c.b = true → c.abOpen = false
  closedAB : c.abOpen = false → c.ab = []
  closedBA : c.baOpen = false → c.ba = []

theorem Wires.swap {c : PC} (h : Wires c) : Wires c.swap := ⟨h.deafB, h.deafA, h.closedBA, h.closedAB⟩

theorem AStep.deaf_mono {v v' : View} {ws : List Msg} {acc : List Bytes} {xl : List XL} (h : AStep x j v v' ws acc xl)
    (hd : deaf v' = true) : deaf v = true := by
  cases h <;> simp_all [deaf] <;> (try (rcases hd with hd | hd <;> simp_all)) <;> grind

theorem Wires.stepL {c c' : PC} {ws : List Msg} {acc : List Bytes} {xl : List XL} (h : Wires c) (st : CStepL x j c c' ws acc xl) :
    Wires c' := by
  cases st with
  | act v ws acc xl hs =>
    refine ⟨fun hd => h.deafA (hs.deaf_mono hd), h.deafB, fun ho => ?_, h.closedBA⟩
    simp only at ho ⊢
    rw [ho]; simp [h.closedAB ho]
  | dlv m rest hb hm =>
    refine ⟨fun hd => ?_, h.deafB, h.closedAB, fun ho => ?_⟩
    · apply h.deafA
      by_cases hdf : deaf c.a = true
      · exact hdf
      · rw [if_neg hdf] at hd
        simp only [deaf] at hd ⊢
        simpa [isEnd] using hd
    · have := h.closedBA ho; rw [hb] at this; cases this
  | dlvClose rest hb => exact ⟨fun _ => rfl, h.deafB, h.closedAB, fun _ => rfl⟩
  | cut w hw => exact ⟨fun _ => rfl, h.deafB, h.closedAB, fun _ => rfl⟩

/-! ### Lists and the numeric summary -/

theorem hasConn_iff (x : Nat) (l : List Msg) : hasConn x l = true ↔ 1 ≤ cC x l := by
  simp [hasConn, cC]

theorem hasPush_le (x : Nat) (l : List Msg) (h : hasPush x l = true) : 1 ≤ cAP x l := by
  simp only [hasPush, List.any_eq_true] at h
  obtain ⟨m, hm, hp⟩ := h
  exact List.countP_pos_iff.mpr ⟨m, hm, by simp [isAP, hp]⟩

theorem hasAck_le (x : Nat) (l : List Msg) (h : hasAck x l = true) : 1 ≤ cAP x l := by
  simp only [hasAck, List.any_eq_true] at h
  obtain ⟨m, hm, hp⟩ := h
  exact List.countP_pos_iff.mpr ⟨m, hm, by simp [isAP, hp]⟩

theorem noPush_of_cAP (x : Nat) (l : List Msg) (h : cAP x l = 0) : hasPush x l = false := by
  cases hp : hasPush x l with
  | false => rfl
  | true => have := hasPush_le x l hp; omega

theorem noAck_of_cAP (x : Nat) (l : List Msg) (h : cAP x l = 0) : hasAck x l = false := by
  cases hp : hasAck x l with
  | false => rfl
  | true => have := hasAck_le x l hp; omega

theorem pX_of_cAP (x : Nat) (l : List Msg) (h : cAP x l = 0) : pX x l = [] := pX_of_noPush x l (noPush_of_cAP x l h)

theorem guarded_of_noAP (x : Nat) (l : List Msg) (h1 : hasAck x l = false) (h2 : hasPush x l = false) : guarded x l = true := by
  induction l with
  | nil => rfl
  | cons m r ih =>
    simp only [hasAck, hasPush, List.any_cons, Bool.or_eq_false_iff] at h1 h2
    simp only [guarded, h1.1, h2.1, Bool.false_eq_true, if_false]
    exact ih (by simpa [hasAck] using h1.2) (by simpa [hasPush] using h2.2)

theorem guarded_of_cAP (x : Nat) (l : List Msg) (h : cAP x l = 0) : guarded x l = true :=
  guarded_of_noAP x l (noAck_of_cAP x l h) (noPush_of_cAP x l h)

/-- A guarded list stays guarded when a message that is not a `Push x` is appended, or any message once
    an `Acknowledge x` is in it. -/
theorem guarded_snoc (x : Nat) (l : List Msg) (m : Msg) (h : guarded x l = true)
    (hm : isPush x m = false ∨ hasAck x l = true) : guarded x (l ++ [m]) = true := by
  rw [guarded_append]
  split
  · exact h
  · rename_i hn
    simp only [Bool.or_eq_true, not_or, Bool.not_eq_true] at hn
    rcases hm with hm | hm
    · simp [guarded, hm]
    · rw [hn.1] at hm; cases hm

theorem guarded_prefix (x : Nat) (l r : List Msg) (h : guarded x (l ++ r) = true) : guarded x l = true := by
  rw [guarded_append] at h
  split at h
  · exact h
  · rename_i hn
    simp only [Bool.or_eq_true, not_or, Bool.not_eq_true] at hn
    exact guarded_of_noAP x l hn.1 hn.2

theorem hasAck_append (x : Nat) (a b : List Msg) : hasAck x (a ++ b) = (hasAck x a || hasAck x b) := by simp [hasAck]
theorem hasConn_append (x : Nat) (a b : List Msg) : hasConn x (a ++ b) = (hasConn x a || hasConn x b) := by simp [hasConn]
theorem hasPush_append (x : Nat) (a b : List Msg) : hasPush x (a ++ b) = (hasPush x a || hasPush x b) := by simp [hasPush]

/-! ### What the id discipline gives, in the form used below -/

section
variable {ownA ownB : Prop}

theorem core_push (hex : ¬(ownA ∧ ownB)) {s : Sm} (h : CoreS ownA ownB s) (hp : 1 ≤ s.aP) :
    s.ca = 0 ∧ s.cb = 0 ∧ s.cP = 0 ∧ 1 ≤ s.na := by
  obtain ⟨⟨l1, l2, l3, l4, l5, l6, l7, l8, l9⟩, ⟨r1, r2, r3, r4, r5, r6, r7, r8, r9⟩⟩ := h
  simp only [Sm.swap] at r1 r2 r3 r4 r5 r6 r7 r8 r9
  grind

theorem core_fresh {s : Sm} (h : CoreS ownA ownB s) (hp : 1 ≤ s.ca ∨ 1 ≤ s.cb) :
    s.aP = 0 ∧ s.cP = 0 ∧ s.na = 0 ∧ s.sb = 0 ∧ s.sa = 0 := by
  obtain ⟨⟨l1, l2, l3, l4, l5, l6, l7, l8, l9⟩, ⟨r1, r2, r3, r4, r5, r6, r7, r8, r9⟩⟩ := h
  simp only [Sm.swap] at r1 r2 r3 r4 r5 r6 r7 r8 r9
  grind

theorem core_conn {s : Sm} (h : CoreS ownA ownB s) (hp : 1 ≤ s.cP) : s.aP = 0 ∧ s.na = 0 ∧ s.sb ≠ 1 ∨ (ownA ∧ ownB) := by
  obtain ⟨⟨l1, l2, l3, l4, l5, l6, l7, l8, l9⟩, ⟨r1, r2, r3, r4, r5, r6, r7, r8, r9⟩⟩ := h
  simp only [Sm.swap] at r1 r2 r3 r4 r5 r6 r7 r8 r9
  by_cases hb : s.sb = 1
  · exact Or.inr ⟨l4 hp, r3 (Or.inl hb)⟩
  · exact Or.inl ⟨l6 (l9 (l4 hp) (l8 hp)), l9 (l4 hp) (l8 hp), hb⟩

theorem core_req (hex : ¬(ownA ∧ ownB)) {s : Sm} (h : CoreS ownA ownB s) (ha : s.sa = 1) (hb : s.sb = 1) : False :=
  hex ⟨h.l.ownSlot (Or.inl ha), h.r.ownSlot (Or.inl hb)⟩

end

/-! ### The byte invariant -/

/-- The right side may still create a stream object for `x`. -/
def Pot (x : Nat) (c : PC) : Prop :=
  1 ≤ c.a.cnt ∨ 1 ≤ c.b.cnt ∨ (∃ q, c.b.slot = some (.requested q)) ∨ hasConn x c.path = true

/-- `S`: the `Push x` payloads the left sink has taken; `R`: the payloads accepted into object `j` on the right. -/
structure Dir (x j : Nat) (c : PC) (S R : List Bytes) : Prop where
  d0 : c.a.nobj = 0 → S = []
  d1 : c.b.len ≤ j → R = [] ∧ c.b.canJ = false
  d2 : c.b.len ≤ j → Pot x c →
    (c.abOpen = true → pX x (inMsgs c.b.inbox) ++ pX x c.ab = S) ∧ (c.abOpen = false → pX x (inMsgs c.b.inbox) <+: S)
  d3 : ∀ q, c.b.slot = some (.requested q) →
    guarded x c.live = true ∧ (1 ≤ c.a.nobj → c.abOpen = true → c.a.outClosed = false → hasAck x c.live = true)
  d4 : c.b.canJ = true →
    (c.abOpen = true → R ++ pX x (inMsgs c.b.inbox) ++ pX x c.ab = S) ∧ (c.abOpen = false → R ++ pX x (inMsgs c.b.inbox) <+: S)
  d5 : R <+: S

/-- Only these components matter. -/
theorem Dir.of_eq {c c' : PC} {S R : List Bytes} (h : Dir x j c S R)
    (e1 : c'.a.nobj = c.a.nobj) (e2 : c'.a.cnt = c.a.cnt) (e3 : c'.a.outq = c.a.outq) (e4 : c'.a.outClosed = c.a.outClosed)
    (e5 : c'.b.len = c.b.len) (e6 : c'.b.canJ = c.b.canJ) (e7 : c'.b.cnt = c.b.cnt) (e8 : c'.b.slot = c.b.slot)
    (e9 : c'.b.inbox = c.b.inbox) (e10 : c'.ab = c.ab) (e11 : c'.abOpen = c.abOpen) : Dir x j c' S R := by
  have hp : c'.path = c.path := by simp only [PC.path, e3, e9, e10]
  have hl : c'.live = c.live := by simp only [PC.live, e3, e9, e10, e11]
  have hpot : Pot x c' ↔ Pot x c := by simp only [Pot, e2, e7, e8, hp]
  refine ⟨?_, ?_, ?_, ?_, ?_, h.d5⟩
  · rw [e1]; exact h.d0
  · rw [e5, e6]; exact h.d1
  · rw [e5, hpot, e11, e9, e10]; exact h.d2
  · rw [e8, hl, e1, e11, e4]; exact h.d3
  · rw [e6, e11, e9, e10]; exact h.d4

theorem Pot.mono {c c' : PC} (h1 : c'.a.cnt ≤ c.a.cnt) (h2 : c'.b.cnt ≤ c.b.cnt)
    (h3 : ∀ q, c'.b.slot = some (.requested q) → ∃ q', c.b.slot = some (.requested q'))
    (h4 : hasConn x c'.path = true → hasConn x c.path = true) (h : Pot x c') : Pot x c := by
  rcases h with h | h | ⟨q, h⟩ | h
  · exact Or.inl (Nat.le_trans h h1)
  · exact Or.inr (Or.inl (Nat.le_trans h h2))
  · exact Or.inr (Or.inr (Or.inl (h3 q h)))
  · exact Or.inr (Or.inr (Or.inr (h4 h)))

/-- A step of the left side that sends nothing and leaves the right side and the wire alone. -/
theorem Dir.silentA {c c' : PC} {S R : List Bytes} (d : Dir x j c S R) (eb : c'.b = c.b) (eab : c'.ab = c.ab)
    (eo : c'.abOpen = c.abOpen) (h0 : c'.a.nobj = 0 → c.a.nobj = 0) (hpot : Pot x c' → Pot x c)
    (h3 : ∀ q, c.b.slot = some (.requested q) →
      guarded x c.live = true ∧ (1 ≤ c.a.nobj → c.abOpen = true → c.a.outClosed = false → hasAck x c.live = true) →
      guarded x c'.live = true ∧ (1 ≤ c'.a.nobj → c.abOpen = true → c'.a.outClosed = false → hasAck x c'.live = true)) :
    Dir x j c' S R := by
  refine ⟨fun h => d.d0 (h0 h), ?_, ?_, ?_, ?_, d.d5⟩
  · rw [eb]; exact d.d1
  · rw [eb, eab, eo]; exact fun hl hp => d.d2 hl (hpot hp)
  · rw [eb, eo]; exact fun q hq => h3 q hq (d.d3 q hq)
  · rw [eb, eab, eo]; exact d.d4

theorem ab_nil (c : PC) : (if c.abOpen = true then c.ab ++ [] else c.ab) = c.ab := by simp


/-! ### The end of a stream: `Finish x` -/

def hasFin (x : Nat) (l : List Msg) : Bool := l.any (isFin x)

/-- No `Push x` follows a `Finish x`. -/
def finLast (x : Nat) : List Msg → Bool
  | [] => true
  | m :: r => (if isFin x m then !hasPush x r else true) && finLast x r

theorem hasFin_append (x : Nat) (a b : List Msg) : hasFin x (a ++ b) = (hasFin x a || hasFin x b) := by simp [hasFin]

/-- Dead for streams stays dead: a step of the left side … -/
theorem dead_stepL {ownA ownB : Prop} {jj : Nat} {c c' : PC} {ws : List Msg} {acc : List Bytes} {xl : List XL}
    (hc : CoreS ownA ownB (sm x c)) (hd : (sm x c).dead) (st : CStepL x jj c c' ws acc xl) (hn : c'.a.rngNil = false) :
    (sm x c').dead :=
  Sm.dead_stepL hc hd (sm_stepL st hn)

/-- … and of the right side. -/
theorem dead_stepR {ownA ownB : Prop} {jj : Nat} {c c'' : PC} {ws : List Msg} {acc : List Bytes} {xl : List XL}
    (hc : CoreS ownA ownB (sm x c)) (hd : (sm x c).dead) (st : CStepL x jj c.swap c'' ws acc xl)
    (hn : c''.a.rngNil = false) : (sm x c''.swap).dead := by
  have h1 : (sm x c'').dead :=
    Sm.dead_stepL (s := sm x c.swap) (by simpa [sm_swap] using hc.swap) (by simpa [sm_swap] using Sm.dead_swap hd)
      (sm_stepL st hn)
  simpa [sm_swap] using Sm.dead_swap h1

/-- The part of the invariant about the END of the direction left → right, for object `j` of the right side.
    `S`: the `Push x` payloads the left sink has taken; `R`: those accepted into `j`; `W`: the payloads the left
    side's writes queued as `Push x`; `P`: how many `Finish x` the right side processed while its slot of `x`
    was `Established j`. -/
structure Fin (x j : Nat) (c : PC) (S R W : List Bytes) (P : Nat) : Prop where
  /-- what was sent or is queued was written … -/
  f0 : S ++ pX x c.a.outq <+: W
  /-- … and is everything written, unless the queue was dropped -/
  f1 : S ++ pX x c.a.outq = W ∨ (c.a.outClosed = true ∧ c.a.outq = [])
  /-- a `Finish x` under way comes from a shut-down stream (or `x` is the id of a bind request): nothing can be
      written on `x` any more, and no `Push x` follows it -/
  f2 : hasFin x c.path = true → (sm x c).dead ∨ (1 ≤ c.a.nobj ∧ c.a.nw = 0 ∧ finLast x c.path = true)
  /-- once the `Finish x` has left the sender, everything written has -/
  f3 : hasFin x (inMsgs c.b.inbox ++ c.ab) = true → (sm x c).dead ∨ S = W
  /-- a cut after the `Finish x` was delivered lost no `Push x` -/
  f4 : c.abOpen = false → c.b.canJ = true → hasFin x (inMsgs c.b.inbox) = true →
    (sm x c).dead ∨ R ++ pX x (inMsgs c.b.inbox) = S
  /-- … also if object `j` does not exist yet -/
  f4p : c.abOpen = false → c.b.len ≤ j → Pot x c → hasFin x (inMsgs c.b.inbox) = true →
    (sm x c).dead ∨ pX x (inMsgs c.b.inbox) = S
  /-- object `j` holds the slot with an open receiver but no sender: a `Finish x` was processed for it -/
  f5 : c.b.slot = some (.established j) → c.b.rxJ = true → c.b.canJ = false → 1 ≤ P
  /-- after a `Finish x` processed for `j` (receiver still open): everything written was accepted -/
  f6 : 1 ≤ P → c.b.rxJ = true → R = W ∧ 1 ≤ c.a.nobj ∧ c.a.nw = 0 ∧ hasPush x c.path = false
  f7 : ∀ i, c.b.slot = some (.established i) → i < c.b.len
  f8 : 1 ≤ P → j < c.b.len

end Penguin.PairAll
