/-
`BSim` (see `Lemmas/BindAllView.lean`) for the functions that open, close and process flows: `openRejected`,
`openRound`, `closeFlow`, `processFrame`, `processIn`.  The inbox is an argument of `BSim`: the item being
processed is its head before, and gone after.  The bind events of every function are the `bindDone` events it
emits (`doneEvs`).
Core Lean only.
-/
import Penguin.Lemmas.BindAllSimBase
import Penguin.Lemmas.MuxStep

namespace Penguin.BindAll
open Penguin.Mux
open Penguin.PairAll (wireMsgs isEnd)

/-! ### Composition when every label is `doneEvs` of the events -/

theorem BSim.tr {la lb lc : List WsIn} {a b c : EP} {ev1 ev2 : List Ev}
    (s : BSim la a lb b ev1 (doneEvs ev1)) (t : BSim lb b lc c ev2 (doneEvs ev2)) :
    BSim la a lc c (ev1 ++ ev2) (doneEvs (ev1 ++ ev2)) :=
  (s.trans t).gs (doneEvs_append _ _)

/-! ### Drawing an id -/

theorem drawScript_suffix (flows : List (Nat × Slot)) (s : List Nat) (k : Nat) (rest : List Nat)
    (h : drawScript flows s = some (k, rest)) : (k :: rest) <:+ s := by
  induction s with
  | nil => simp [drawScript] at h
  | cons a r ih =>
    unfold drawScript at h
    split at h
    · simp only [Option.some.injEq, Prod.mk.injEq] at h
      obtain ⟨rfl, rfl⟩ := h
      exact List.suffix_refl _
    · exact (ih h).trans (List.suffix_cons a r)

/-- The id drawn is followed in the script by what remains of the script (or the script is exhausted); in
    every case what remains is a suffix of the script. -/
theorem drawId_suffix (flows : List (Nat × Slot)) (s : List Nat) (fb fuel k : Nat) (rest : List Nat) (fb' : Nat)
    (h : drawId flows s fb fuel = some (k, rest, fb')) : ((k :: rest) <:+ s ∨ rest = []) ∧ rest <:+ s := by
  unfold drawId at h
  split at h
  · rename_i k' rest' hs
    simp only [Option.some.injEq, Prod.mk.injEq] at h
    obtain ⟨rfl, rfl, rfl⟩ := h
    have hsuf := drawScript_suffix flows s _ _ hs
    exact ⟨Or.inl hsuf, (List.suffix_cons _ _).trans hsuf⟩
  · simp only [Option.map_eq_some_iff] at h
    obtain ⟨r, _, hr⟩ := h
    simp only [Prod.mk.injEq] at hr
    obtain ⟨_, rfl, _⟩ := hr
    exact ⟨Or.inr rfl, List.nil_suffix⟩

/-! ### Building blocks -/

/-- Guard of `BSim.pop` for an item that is neither a `Finish` nor a `Reset` frame. -/
macro "pop_other" : tactic => `(tactic| exact PopOk.other (by intro m hm y; cases hm <;> rfl))

/-- A `Reset y` answers the stream frame of `y` at the head of the inbox (which may be taken silently). -/
theorem BSim.rstHead {l : List WsIn} (e : EP) (f : Frame) (y : Nat) (hs : streamFrame f y = true)
    (hg : PopOk e.flows (.msg (.frame f))) :
    BSim (.msg (.frame f) :: l) e l (e.enqFrame (.reset y)) [] [] :=
  (BSim.enqFrame (l := .msg (.frame f) :: l) e (.reset y) (Or.inr (Or.inl ⟨f, l, rfl, hs⟩))).tr0
    (BSim.pop _ _ (by rw [EP.enqFrame, enq_flows]; exact hg))

/-- After `close_flow`, the slot of `fid` is no pending bind request. -/
theorem closeFlow_lookup_self (e : EP) (fid : Nat) (inh : Bool) (r : Nat) :
    lookup (Mux.closeFlow e fid inh).1.flows fid ≠ some (.bindRequested r) := by
  unfold Mux.closeFlow
  cases hl : lookup e.flows fid with
  | none => simp [hl]
  | some s =>
    have hf : (closeLocal { e with flows := Mux.erase e.flows fid } s fid inh false).1.flows = Mux.erase e.flows fid := by
      unfold Mux.closeLocal
      cases s with
      | established i =>
        simp only
        cases EP.obj? { e with flows := Mux.erase e.flows fid } i with
        | none => rfl
        | some o => simp only; split <;> simp [EP.modObj, EP.enqFrame]
      | requested req =>
        simp only [Mux.openRejected]
        repeat' split
        all_goals rfl
      | bindRequested req => rfl
    simp only [hf, lookup_erase_self]
    simp

/-- A `Reset y` for a flow with an `Established` slot. -/
theorem BSim.rstEst {l : List WsIn} (e : EP) (y i : Nat) (h : lookup e.flows y = some (.established i)) :
    BSim l e l (e.enqFrame (.reset y)) [] [] :=
  BSim.enqFrame e (.reset y) (Or.inl ⟨i, lookup_mem _ _ _ h⟩)

/-- A stream object's handle is dropped: its id is notified. -/
theorem BSim.dropNote {l : List WsIn} (e : EP) (y : Nat) (hy : y ∈ e.objs.map (·.fid)) :
    BSim l e l { e with droppedq := e.droppedq ++ [y] } [] [] := by
  refine BSim.shrink { Shrinks.refl (bview e l) with dq := ?_ } rfl
  intro z hz
  rcases List.mem_append.mp hz with h | h
  · exact Or.inr (Or.inl h)
  · simp only [List.mem_singleton] at h
    subst h
    exact Or.inr (Or.inr hy)

/-- A parked hand-over is abandoned (or a stream hand-over is parked: the view shows no parked bind then). -/
theorem BSim.parkGone {l : List WsIn} (e : EP) (p : Option Park) (hp : bindPark p = none) :
    BSim l e l { e with park := p } [] [] :=
  BSim.shrink { Shrinks.refl (bview e l) with park := Or.inr hp } rfl

@[simp] theorem newObj_fid (o : Opts) (fid r : Nat) (h : Bytes) (p : Nat) : (newObj o fid r h p).fid = fid := rfl

/-! ### Open requests -/

theorem BSim.openRejected {l : List WsIn} (e : EP) (req : Nat) (final : Bool) :
    BSim l e l (openRejected e req final).1 (openRejected e req final).2 (doneEvs (openRejected e req final).2) := by
  unfold Mux.openRejected
  repeat' split
  all_goals exact BSim.same rfl rfl

theorem BSim.openRound {l : List WsIn} (e : EP) (r : OpenReq) :
    BSim l e l (openRound e r).1 (openRound e r).2 (doneEvs (openRound e r).2) := by
  unfold Mux.openRound
  split
  · exact BSim.same rfl rfl
  · split
    · exact BSim.same rfl rfl
    · rename_i fid rng' fb' hd
      obtain ⟨hs1, hs2⟩ := drawId_suffix _ _ _ _ _ _ _ hd
      obtain ⟨_, hfree⟩ := drawId_spec _ _ _ _ _ _ _ hd
      simp only
      split
      · exact BSim.shrink { Shrinks.refl (bview e l) with rng := hs2 } rfl
      · rename_i hoc
        have hoc' : e.outClosed = false := by simpa using hoc
        refine BSim.one (BStep.drawOpen (bview e l) fid r.req rng' e.opts.rwnd r.port r.host hs1
          (not_mem_of_lookup_none hfree) hoc') ?_ rfl
        simp [bview, EP.enqFrame, EP.enq, hoc']

/-! ### Closing a flow -/

/-- `close_flow_local` at the end of the wind-down changes nothing the view sees. -/
theorem bview_closeLocal_final (e : EP) (s : Slot) (fid : Nat) (l : List WsIn) :
    bview (closeLocal e s fid true true).1 l = bview e l := by
  unfold Mux.closeLocal
  cases s with
  | established i =>
    simp only
    cases e.obj? i with
    | none => rfl
    | some o =>
      simp only [Bool.not_true, Bool.and_false, Bool.false_eq_true, if_false]
      exact bview_modObj e l i _ (by bsim_fid)
  | requested req =>
    simp only [Mux.openRejected]
    repeat' split
    all_goals rfl
  | bindRequested req => rfl

theorem BSim.closeFlow {l : List WsIn} (e : EP) (fid : Nat) (inh : Bool)
    (hwhy : ∀ req, lookup e.flows fid = some (.bindRequested req) →
      (∃ r, l = .msg (.frame (.reset fid)) :: r) ∨ (fid ≠ 0 ∧ fid ∈ e.droppedq)) :
    BSim l e l (closeFlow e fid inh).1 (closeFlow e fid inh).2 (doneEvs (closeFlow e fid inh).2) := by
  unfold Mux.closeFlow
  cases hl : lookup e.flows fid with
  | none => exact BSim.refl l e
  | some s =>
    cases s with
    | requested req =>
      simp only [Mux.closeLocal]
      exact (BSim.erase e fid).tr0 (BSim.openRejected _ req false)
    | bindRequested req =>
      simp only [Mux.closeLocal]
      have g : BSim l e l e [Ev.bindDone req .refused] [BEv.done req .refused] :=
        BSim.one (BStep.refuse (bview e l) fid req (lookup_mem _ _ _ hl) (hwhy req hl)) rfl rfl
      exact g.tr1 (BSim.erase e fid)
    | established i =>
      simp only [Mux.closeLocal]
      cases ho : EP.obj? { e with flows := Mux.erase e.flows fid } i with
      | none => exact BSim.erase e fid
      | some o =>
        simp only
        split
        · refine (((BSim.rstEst e fid i hl).tr0 (BSim.erase _ fid)).tr0
            (BSim.modObj _ i (fun o => { o.disallowWrite with senderAlive := false }) (by bsim_fid))).congr rfl ?_
          cases hoc : e.outClosed <;> simp [bview, EP.enqFrame, EP.enq, EP.modObj, hoc]
        · exact (BSim.erase e fid).tr0 (BSim.modObj _ i _ (by bsim_fid))

/-! ### `process_frame` -/

theorem BSim.offerAccept {l : List WsIn} (e : EP) (i : Nat) : BSim l e l (offerAccept e i) [] [] := by
  unfold Mux.offerAccept
  split
  · exact BSim.same rfl rfl
  · exact BSim.parkGone e _ rfl

/-- `process_frame`: the frame is the head of the inbox before, and gone after. -/
theorem BSim.processFrame {l : List WsIn} (e : EP) (f : Frame) (ig : Bool) :
    BSim (.msg (.frame f) :: l) e l (processFrame e f ig).1 (processFrame e f ig).2.1
      (doneEvs (processFrame e f ig).2.1) := by
  cases f with
  | connect fid rwnd port host =>
    simp only [Mux.processFrame]
    split
    · exact BSim.rstHead e _ fid (by simp [streamFrame]) (by pop_other)
    · rename_i hc
      have hfree : lookup e.flows fid = none := by
        cases hl : lookup e.flows fid with
        | none => rfl
        | some s => simp [hl] at hc
      have g1 : BSim (.msg (.frame (.connect fid rwnd port host)) :: l) e l
          { e with objs := e.objs ++ [newObj e.opts fid rwnd host port],
                   flows := Mux.insert e.flows fid (.established e.objs.length) } [] [] :=
        BSim.one (BStep.connNew (bview e (_ :: l)) fid rwnd port host l rfl (not_mem_of_lookup_none hfree))
          (by simp [bview]) rfl
      split
      · exact g1
      · have g2 := g1.tr0 (BSim.enqFrame _ (.acknowledge fid e.opts.rwnd) (by simp [OkEnq, bview]))
        split
        · exact (g2.tr0 (BSim.dropNote _ fid (by simp [EP.enqFrame]))).tr0
            (BSim.modObj _ e.objs.length (fun o => { o with rxOpen := false }) (by bsim_fid))
        · exact g2.tr0 (BSim.offerAccept _ _)
  | acknowledge fid n =>
    simp only [Mux.processFrame]
    split
    · exact (BSim.pop e _ (by pop_other)).tr0 (BSim.modObj _ _ _ (by bsim_fid))
    · rename_i req hl
      have g1 : BSim (.msg (.frame (.acknowledge fid n)) :: l) e l
          { e with objs := e.objs ++ [newObj e.opts fid n [] 0],
                   flows := Mux.insert e.flows fid (.established e.objs.length) } [] [] :=
        BSim.one (BStep.ackNew (bview e (_ :: l)) fid n req l rfl (lookup_mem _ _ _ hl)) (by simp [bview]) rfl
      split
      · exact g1.tr0 (BSim.same rfl rfl)
      · exact (g1.tr0 (BSim.dropNote _ fid (by simp))).tr0
          (BSim.modObj _ e.objs.length (fun o => { o with rxOpen := false }) (by bsim_fid))
    · exact BSim.rstHead e _ fid (by simp [streamFrame]) (by pop_other)
    · exact BSim.rstHead e _ fid (by simp [streamFrame]) (by pop_other)
  | finish fid =>
    simp only [Mux.processFrame]
    split
    · rename_i hl
      exact BSim.rstHead e _ fid (by simp [streamFrame]) (PopOk.finish (by simp [hl]))
    · rename_i req hl
      have g : BSim (.msg (.frame (.finish fid)) :: l) e (.msg (.frame (.finish fid)) :: l) e
          [Ev.bindDone req .accepted] [BEv.done req .accepted] :=
        BSim.one (BStep.finBind (bview e (_ :: l)) fid req l rfl (lookup_mem _ _ _ hl)) rfl rfl
      exact (g.tr1 (BSim.erase e fid)).tr1 (BSim.pop _ _ (PopOk.finish (by simp [lookup_erase_self])))
    · rename_i req hl
      refine (((BSim.rstHead (l := l) e (.finish fid) fid (by simp [streamFrame])
        (PopOk.finish (by simp [hl]))).tr0 (BSim.erase _ fid)).congr rfl ?_).lbl ?_ ?_
      · cases hoc : e.outClosed <;> simp [bview, EP.enqFrame, EP.enq, hoc]
      · split <;> rfl
      · split <;> rfl
    · rename_i i hl
      exact (BSim.pop e _ (PopOk.finish (by simp [hl]))).tr0 (BSim.modObj _ _ _ (by bsim_fid))
  | reset fid =>
    simp only [Mux.processFrame]
    exact (BSim.closeFlow (l := .msg (.frame (.reset fid)) :: l) e fid true (fun _ _ => Or.inl ⟨l, rfl⟩)).tr1
      (BSim.pop _ _ (PopOk.reset (closeFlow_lookup_self e fid true)))
  | push fid d =>
    simp only [Mux.processFrame]
    split
    · rename_i i hl
      split
      · exact BSim.pop e _ (by pop_other)
      · split
        · exact BSim.rstHead e _ fid (by simp [streamFrame]) (by pop_other)
        · split
          · exact BSim.pop e _ (by pop_other)
          · split
            · exact (BSim.pop e _ (by pop_other)).tr0 (BSim.modObj _ _ _ (by bsim_fid))
            · exact (BSim.closeFlow (l := .msg (.frame (.push fid d)) :: l) e fid false
                (fun req h => by rw [hl] at h; cases h)).tr1 (BSim.pop _ _ (by pop_other))
    · exact BSim.rstHead e _ fid (by simp [streamFrame]) (by pop_other)
  | bind fid bt port host =>
    simp only [Mux.processFrame]
    split
    · rename_i hcap
      exact (BSim.enqFrame (l := .msg (.frame (.bind fid bt port host)) :: l) e (.reset fid)
        (Or.inr (Or.inr (Or.inl ⟨bt, port, host, l, rfl, Or.inl hcap⟩)))).tr0 (BSim.pop _ _ (by pop_other))
    · split
      · exact BSim.pop e _ (by pop_other)
      · split
        · rename_i hma
          have hma' : e.muxAlive = false := by simpa using hma
          exact (BSim.enqFrame (l := .msg (.frame (.bind fid bt port host)) :: l) e (.reset fid)
            (Or.inr (Or.inr (Or.inl ⟨bt, port, host, l, rfl, Or.inr hma'⟩)))).tr0 (BSim.pop _ _ (by pop_other))
        · unfold Mux.offerBind
          split
          · exact BSim.one (BStep.offerQ (bview e (_ :: l)) { fid := fid, bt := bt, host := host, port := port } l rfl)
              rfl rfl
          · exact BSim.one (BStep.offerPark (bview e (_ :: l)) { fid := fid, bt := bt, host := host, port := port } l rfl)
              rfl rfl
  | datagram fid port host d =>
    simp only [Mux.processFrame]
    repeat' split
    all_goals first | exact BSim.pop e _ (by pop_other) | exact (BSim.pop e _ (by pop_other)).tr0 (BSim.same rfl rfl)

/-- `process_message`: the item is the head of the inbox before, and gone after (an item that ends the
    source is taken by `recvOne` / left in place by the wind-down). -/
theorem BSim.processIn {l : List WsIn} (e : EP) (w : WsIn) (ig : Bool) (hend : isEnd w = false) :
    BSim (w :: l) e l (processIn e w ig).1 (processIn e w ig).2.1 (doneEvs (processIn e w ig).2.1) := by
  cases w with
  | msg m =>
    cases m with
    | frame f => exact BSim.processFrame e f ig
    | ping => exact BSim.pop e _ (by pop_other)
    | pong => exact BSim.pop e _ (by pop_other)
    | close => exact BSim.pop e _ (by pop_other)
  | bad b => exact BSim.pop e _ (by pop_other)
  | err => simp [isEnd] at hend
  | eof => simp [isEnd] at hend

end Penguin.BindAll
