/-
Definitions used by the C20 theorems (abstraction to a plain byte vector, the invariant, the
reference run) and the helper lemmas about the loops of `Penguin.Model.Chain`.
-/
import Penguin.Model.Chain
import Penguin.Spec.Vec

namespace Penguin.C20
open Penguin Penguin.Chain

/-! ### Abstraction and invariant -/

/-- The concatenation of the segments. -/
def flat : List Seg → Bytes
  | [] => []
  | s :: r => s.bytes ++ flat r

/-- The number of bytes the segments hold. -/
def total : List Seg → Nat
  | [] => 0
  | s :: r => s.bytes.length + total r

/-- The plain byte vector a chain stands for. -/
def abs (c : Chain) : Bytes := flat c.segs

def NoEmpty (l : List Seg) : Prop := ∀ s ∈ l, s.bytes ≠ []

/-- The cached total is the number of bytes held, and no segment is empty. -/
def Inv (c : Chain) : Prop := c.cachedLen = total c.segs ∧ NoEmpty c.segs

/-- `Inv` as a `Bool` (evaluated by `decide` in the examples). -/
def invB (c : Chain) : Bool := (c.cachedLen == total c.segs) && c.segs.all (fun s => !s.bytes.isEmpty)

theorem invB_iff (c : Chain) : invB c = true ↔ Inv c := by
  simp [invB, Inv, NoEmpty]

instance (c : Chain) : Decidable (Inv c) := decidable_of_iff _ (invB_iff c)

/-! ### Segment accessors are the bytes -/

@[simp] theorem seg_len (s : Seg) : s.len = s.bytes.length := by
  cases s with | mk t b => cases t <;> rfl
@[simp] theorem seg_remaining (s : Seg) : s.remaining = s.bytes.length := by
  cases s with | mk t b => cases t <;> rfl
@[simp] theorem seg_isEmpty (s : Seg) : s.isEmpty = s.bytes.isEmpty := by
  cases s with | mk t b => cases t <;> rfl
@[simp] theorem seg_chunk (s : Seg) : s.chunk = s.bytes := by
  cases s with | mk t b => cases t <;> rfl
@[simp] theorem seg_asRef (s : Seg) : s.asRef = s.bytes := by
  cases s with | mk t b => cases t <;> rfl
@[simp] theorem seg_intoStatic (s : Seg) : s.intoStatic = s.bytes := by
  cases s with | mk t b => cases t <;> rfl

theorem seg_splitOff_ok (s : Seg) (n : Nat) (h : n ≤ s.bytes.length) :
    s.splitOff n = .ok (⟨s.tag, s.bytes.take n⟩, ⟨s.tag, s.bytes.drop n⟩) := by
  cases s with | mk t b => cases t <;> simp [Seg.splitOff, Nat.not_lt.mpr h]

theorem seg_splitOff_err (s : Seg) (n : Nat) (h : s.bytes.length < n) : s.splitOff n = .error ⟨s⟩ := by
  cases s with | mk t b => cases t <;> simp [Seg.splitOff, h]

theorem seg_splitTo_ok (s : Seg) (n : Nat) (h : n ≤ s.bytes.length) :
    s.splitTo n = .ok (⟨s.tag, s.bytes.drop n⟩, ⟨s.tag, s.bytes.take n⟩) := by
  cases s with | mk t b => cases t <;> simp [Seg.splitTo, Nat.not_lt.mpr h]

theorem seg_splitTo_err (s : Seg) (n : Nat) (h : s.bytes.length < n) : s.splitTo n = .error ⟨s⟩ := by
  cases s with | mk t b => cases t <;> simp [Seg.splitTo, h]

theorem seg_advance_ok (s : Seg) (n : Nat) (h : n ≤ s.bytes.length) :
    s.advance n = .ok (⟨s.tag, s.bytes.drop n⟩, ()) := by
  cases s with | mk t b => cases t <;> simp [Seg.advance, Nat.not_lt.mpr h]

theorem seg_advance_err (s : Seg) (n : Nat) (h : s.bytes.length < n) : s.advance n = .error ⟨s⟩ := by
  cases s with | mk t b => cases t <;> simp [Seg.advance, h]

theorem seg_truncate_lt (s : Seg) (n : Nat) (h : n < s.bytes.length) :
    s.truncate n = .ok (⟨s.tag, s.bytes.take n⟩, ()) := by
  cases s with
  | mk t b => cases t <;> simp [Seg.truncate, h, Nat.not_lt.mpr (Nat.le_of_lt h)]

/-! ### `flat`, `total`, `NoEmpty` -/

@[simp] theorem flat_nil : flat [] = [] := rfl
@[simp] theorem flat_cons (s : Seg) (r : List Seg) : flat (s :: r) = s.bytes ++ flat r := rfl
@[simp] theorem total_nil : total [] = 0 := rfl
@[simp] theorem total_cons (s : Seg) (r : List Seg) : total (s :: r) = s.bytes.length + total r := rfl

@[simp] theorem flat_append (a b : List Seg) : flat (a ++ b) = flat a ++ flat b := by
  induction a with
  | nil => rfl
  | cons s r ih => simp [ih, List.append_assoc]

@[simp] theorem total_append (a b : List Seg) : total (a ++ b) = total a + total b := by
  induction a with
  | nil => simp
  | cons s r ih => simp [ih, Nat.add_assoc]

@[simp] theorem length_flat (l : List Seg) : (flat l).length = total l := by
  induction l with
  | nil => rfl
  | cons s r ih => simp [ih]

@[simp] theorem noEmpty_nil : NoEmpty [] := by simp [NoEmpty]
@[simp] theorem noEmpty_cons (s : Seg) (r : List Seg) : NoEmpty (s :: r) ↔ s.bytes ≠ [] ∧ NoEmpty r := by
  simp [NoEmpty]
@[simp] theorem noEmpty_append (a b : List Seg) : NoEmpty (a ++ b) ↔ NoEmpty a ∧ NoEmpty b := by
  simp only [NoEmpty, List.mem_append]
  constructor
  · intro h; exact ⟨fun s hs => h s (Or.inl hs), fun s hs => h s (Or.inr hs)⟩
  · rintro ⟨h1, h2⟩ s (hs | hs)
    · exact h1 s hs
    · exact h2 s hs

theorem total_pos_of_noEmpty {s : Seg} {r : List Seg} (h : NoEmpty (s :: r)) : 0 < total (s :: r) := by
  have := (noEmpty_cons s r).mp h
  have : 0 < s.bytes.length := List.length_pos_iff.mpr this.1
  simp; omega

theorem noEmpty_take (l : List Seg) (i : Nat) (h : NoEmpty l) : NoEmpty (l.take i) :=
  fun s hs => h s (List.mem_of_mem_take hs)

theorem noEmpty_drop (l : List Seg) (i : Nat) (h : NoEmpty l) : NoEmpty (l.drop i) :=
  fun s hs => h s (List.mem_of_mem_drop hs)

/-- A vector split as `a ++ b` with `a` of length `n` is `take n` / `drop n`. -/
theorem take_drop_of_append {v a b : Bytes} {n : Nat} (h : v = a ++ b) (hn : a.length = n) :
    v.take n = a ∧ v.drop n = b := by
  subst h; exact ⟨List.take_left' hn, List.drop_left' hn⟩

/-! ### The `split_off` loop -/

theorem splitScan_spec (l : List Seg) (n : Nat) :
    ∀ f b r, splitScan l n = (f, b, r) →
      l = f ++ b ∧ n = total f + r ∧ (∀ s rest, b = s :: rest → r < s.bytes.length) := by
  induction l generalizing n with
  | nil =>
    intro f b r h
    simp [splitScan] at h
    obtain ⟨rfl, rfl, rfl⟩ := h
    simp
  | cons s rest ih =>
    intro f b r h
    simp only [splitScan, seg_len] at h
    split at h
    · rename_i hlt
      simp at h
      obtain ⟨rfl, rfl, rfl⟩ := h
      refine ⟨by simp, by simp, ?_⟩
      intro s' rest' hb
      simp at hb
      obtain ⟨rfl, _⟩ := hb
      exact hlt
    · rename_i hge
      generalize hsc : splitScan rest (n - s.bytes.length) = res at h
      obtain ⟨f', b', r'⟩ := res
      simp at h
      obtain ⟨rfl, rfl, rfl⟩ := h
      obtain ⟨h1, h2, h3⟩ := ih _ _ _ _ hsc
      refine ⟨by simp [h1], by simp; omega, h3⟩

/-! ### The `truncate` loop -/

theorem truncScan_spec (l : List Seg) (n : Nat) (hl : NoEmpty l) (hn : n ≤ total l) :
    ∃ k, truncScan l n = some k ∧ NoEmpty k ∧ total k = n ∧ flat k = (flat l).take n := by
  induction l generalizing n with
  | nil =>
    simp at hn; subst hn
    exact ⟨[], by simp [truncScan]⟩
  | cons s rest ih =>
    have hne := (noEmpty_cons s rest).mp hl
    simp only [truncScan, seg_len]
    by_cases h0 : n = 0
    · subst h0; exact ⟨[], by simp⟩
    · simp only [h0, if_false]
      by_cases hlt : n < s.bytes.length
      · simp only [hlt, if_true, seg_truncate_lt s n hlt]
        refine ⟨[⟨s.tag, s.bytes.take n⟩], rfl, ?_, ?_, ?_⟩
        · simp; exact ⟨h0, hne.1⟩
        · simp; omega
        · simp [List.take_append_of_le_length (Nat.le_of_lt hlt)]
      · simp only [hlt, if_false]
        have hge : s.bytes.length ≤ n := Nat.le_of_not_lt hlt
        simp at hn
        obtain ⟨k, hk, hk1, hk2, hk3⟩ := ih (n - s.bytes.length) hne.2 (by omega)
        refine ⟨s :: k, by simp [hk], by simp [hne.1, hk1], by simp [hk2]; omega, ?_⟩
        simp [hk3, List.take_append, List.take_of_length_le hge]

/-! ### The `advance` loop -/

theorem advLoop_zero (l : List Seg) (len : Nat) : advLoop l 0 len = .ok ⟨l, len⟩ := by
  cases l <;> simp [advLoop]

/-- One iteration of the loop, with the (never failing) `CowBytes::advance` resolved. -/
theorem advLoop_cons (s : Seg) (rest : List Seg) (m len : Nat) :
    advLoop (s :: rest) (m + 1) len =
      if s.bytes.length ≤ m + 1 then advLoop rest (m + 1 - s.bytes.length) (len - s.bytes.length)
      else .ok ⟨⟨s.tag, s.bytes.drop (m + 1)⟩ :: rest, len - (m + 1)⟩ := by
  rw [advLoop]
  simp only [seg_remaining]
  have hmin : min s.bytes.length (m + 1) ≤ s.bytes.length := Nat.min_le_left _ _
  split
  · rename_i p heq
    rw [seg_remaining, seg_advance_ok s _ hmin] at heq
    cases heq
  · rename_i s' u heq
    rw [seg_remaining, seg_advance_ok s _ hmin] at heq
    injection heq with heq
    injection heq with h1 h2
    subst h1
    by_cases hle : s.bytes.length ≤ m + 1
    · have hm : min s.bytes.length (m + 1) = s.bytes.length := Nat.min_eq_left hle
      simp [hm, hle]
    · have hm := Nat.min_eq_right (Nat.le_of_lt (Nat.lt_of_not_le hle))
      have h0 : ¬ (s.bytes.length - (m + 1) = 0) := by omega
      simp [hm, hle, h0, advLoop_zero]

theorem advLoop_nil_succ (m len : Nat) : advLoop [] (m + 1) len = .error ⟨⟨[], len⟩⟩ := by
  rw [advLoop]

theorem advLoop_spec (l : List Seg) (n len : Nat) (hl : NoEmpty l) (hn : n ≤ total l) :
    ∃ k, advLoop l n len = .ok ⟨k, len - n⟩ ∧ NoEmpty k ∧ total k = total l - n ∧
      flat k = (flat l).drop n := by
  induction l generalizing n len with
  | nil =>
    simp at hn; subst hn
    exact ⟨[], by simp [advLoop_zero]⟩
  | cons s rest ih =>
    have hne := (noEmpty_cons s rest).mp hl
    have hpos : 0 < s.bytes.length := List.length_pos_iff.mpr hne.1
    cases n with
    | zero => exact ⟨s :: rest, by simp [advLoop_zero, hl]⟩
    | succ m =>
      rw [advLoop_cons]
      by_cases hle : s.bytes.length ≤ m + 1
      · simp only [hle, if_true]
        simp at hn
        obtain ⟨k, hk, hk1, hk2, hk3⟩ := ih (m + 1 - s.bytes.length) (len - s.bytes.length) hne.2 (by omega)
        refine ⟨k, ?_, hk1, by simp [hk2]; omega, ?_⟩
        · rw [hk]; congr 2; omega
        · simp [hk3, List.drop_append, List.drop_of_length_le hle]
      · have hlt : m + 1 < s.bytes.length := Nat.lt_of_not_le hle
        simp only [hle, if_false]
        refine ⟨⟨s.tag, s.bytes.drop (m + 1)⟩ :: rest, rfl, ?_, ?_, ?_⟩
        · simp [hne.2]; omega
        · simp; omega
        · simp [List.drop_append_of_le_length (Nat.le_of_lt hlt)]

/-! ### Complete characterisation of the byte-indexed operations under the invariant -/

theorem splitOff_spec (c : Chain) (n : Nat) (hi : Inv c) :
    (n ≤ total c.segs → ∃ c' p, c.splitOff n = .ok (c', p) ∧ Inv c' ∧ Inv p ∧
        abs c = abs c' ++ abs p ∧ total c'.segs = n) ∧
    (total c.segs < n → c.splitOff n = .error ⟨c⟩) := by
  obtain ⟨h1, h2⟩ := hi
  unfold Chain.splitOff
  generalize hsc : splitScan c.segs n = res
  obtain ⟨f, b, r⟩ := res
  obtain ⟨e1, e2, e3⟩ := splitScan_spec _ _ _ _ _ hsc
  have hne : NoEmpty f ∧ NoEmpty b := by rw [e1] at h2; exact (noEmpty_append f b).mp h2
  have ht : total c.segs = total f + total b := by rw [e1]; simp
  simp only
  by_cases hr : r = 0
  · subst hr
    simp only [if_true]
    constructor
    · intro _
      refine ⟨_, _, rfl, ⟨by simp [e2], hne.1⟩, ⟨by simp; omega, hne.2⟩, by simp [abs, e1], by simp [e2]⟩
    · intro hlt; omega
  · simp only [hr, if_false]
    cases b with
    | nil =>
      simp at ht
      exact ⟨fun hle => by omega, fun _ => rfl⟩
    | cons s rest =>
      have hlt := e3 s rest rfl
      have hs := (noEmpty_cons s rest).mp hne.2
      simp only [seg_splitOff_ok s r (Nat.le_of_lt hlt)]
      constructor
      · intro _
        refine ⟨_, _, rfl, ⟨?_, ?_⟩, ⟨?_, ?_⟩, ?_, ?_⟩
        · simp [List.length_take]; omega
        · simp [hne.1]; exact ⟨hr, hs.1⟩
        · simp at ht; simp [List.length_drop]; omega
        · simp [hs.2]; omega
        · simp [abs, e1]
          rw [← List.append_assoc (List.take r s.bytes), List.take_append_drop]
        · simp [List.length_take]; omega
      · intro hgt; simp at ht; omega

theorem truncate_spec (c : Chain) (n : Nat) (hi : Inv c) :
    (n < total c.segs → ∃ c', c.truncate n = .ok (c', ()) ∧ Inv c' ∧ abs c' = (abs c).take n) ∧
    (total c.segs ≤ n → c.truncate n = .ok (c, ())) := by
  obtain ⟨h1, h2⟩ := hi
  unfold Chain.truncate
  constructor
  · intro hlt
    obtain ⟨k, hk, hk1, hk2, hk3⟩ := truncScan_spec c.segs n h2 (Nat.le_of_lt hlt)
    have : ¬ n ≥ c.cachedLen := by omega
    simp only [this, if_false, hk]
    exact ⟨_, rfl, ⟨by simp [hk2], hk1⟩, by simp [abs, hk3]⟩
  · intro hle
    have : n ≥ c.cachedLen := by omega
    simp [this]

theorem advance_spec (c : Chain) (n : Nat) (hi : Inv c) :
    (n ≤ total c.segs → ∃ c', c.advance n = .ok (c', ()) ∧ Inv c' ∧ abs c' = (abs c).drop n) ∧
    (total c.segs < n → c.advance n = .error ⟨c⟩) := by
  obtain ⟨h1, h2⟩ := hi
  unfold Chain.advance
  constructor
  · intro hle
    obtain ⟨k, hk, hk1, hk2, hk3⟩ := advLoop_spec c.segs n c.cachedLen h2 hle
    have : ¬ n > c.cachedLen := by omega
    simp only [this, if_false, hk]
    exact ⟨_, rfl, ⟨by simp [hk2, h1], hk1⟩, by simp [abs, hk3]⟩
  · intro hlt
    have : n > c.cachedLen := by omega
    simp [this]

/-! ### Ranges, the reference step and the reference run -/

/-- Byte offset of segment `i`. -/
def offset (c : Chain) (i : Nat) : Nat := total (c.segs.take i)

/-- Length of segment `i` (0 when there is none). -/
def segLen (c : Chain) (i : Nat) : Nat :=
  match c.segs[i]? with
  | some s => s.bytes.length
  | none => 0

/-- Length of the last segment (0 when there is none). -/
def lastLen (c : Chain) : Nat :=
  match c.segs.getLast? with
  | some s => s.bytes.length
  | none => 0

/-- The arguments the property calls in range: an index within the segments, a length within the
    bytes, a non-empty segment. -/
def InRange (c : Chain) : Op → Prop
  | .push s => s.bytes ≠ []
  | .insert i s => i ≤ c.segs.length ∧ s.bytes ≠ []
  | .pop => True
  | .remove i => i < c.segs.length
  | .splitTo n => n ≤ (abs c).length
  | .splitOff n => n ≤ (abs c).length
  | .truncate n => n ≤ (abs c).length
  | .advance n => n ≤ (abs c).length
  | .clear => True
  | .copyToBytes n => n ≤ (abs c).length
  | .copyToSlice n => n ≤ (abs c).length
  | .getU8 => 1 ≤ (abs c).length
  | .getU16 => 2 ≤ (abs c).length
  | .getU32 => 4 ≤ (abs c).length

instance (c : Chain) (op : Op) : Decidable (InRange c op) := by
  cases op <;> unfold InRange <;> infer_instance

/-- What an operation returns, as plain bytes. -/
inductive RefOut where
  | unit
  | bytes (b : Option Bytes)
  | part (b : Bytes)
  | copied (b : Bytes)
  | num (n : Nat)
deriving DecidableEq, Repr

def outAbs : Out → RefOut
  | .unit => .unit
  | .popped s => .bytes (s.map Seg.bytes)
  | .removed s => .bytes (some s.bytes)
  | .part c => .part (abs c)
  | .copied b => .copied b
  | .u8 v => .num v.toNat
  | .u16 v => .num v.toNat
  | .u32 v => .num v.toNat

/-- One operation on the plain byte vector `v` run alongside the chain `c`; `c` is consulted only to
    turn the segment indices of `insert` / `pop` / `remove` into byte ranges. -/
def refStep (c : Chain) (v : Bytes) : Op → Bytes × RefOut
  | .push s => (Spec.Vec.append v s.bytes, .unit)
  | .insert i s => (Spec.Vec.insertAt v (offset c i) s.bytes, .unit)
  | .pop =>
    (Spec.Vec.truncate v (v.length - lastLen c),
      .bytes (if c.segs = [] then none else some (Spec.Vec.tail v (lastLen c))))
  | .remove i =>
    (Spec.Vec.removeRange v (offset c i) (segLen c i), .bytes (some (Spec.Vec.slice v (offset c i) (segLen c i))))
  | .splitTo n => ((Spec.Vec.splitTo v n).1, .part (Spec.Vec.splitTo v n).2)
  | .splitOff n => ((Spec.Vec.splitOff v n).1, .part (Spec.Vec.splitOff v n).2)
  | .truncate n => (Spec.Vec.truncate v n, .unit)
  | .advance n => (Spec.Vec.advance v n, .unit)
  | .clear => (Spec.Vec.clear v, .unit)
  | .copyToBytes n => ((Spec.Vec.copyOut v n).1, .copied (Spec.Vec.copyOut v n).2)
  | .copyToSlice n => ((Spec.Vec.copyOut v n).1, .copied (Spec.Vec.copyOut v n).2)
  | .getU8 => ((Spec.Vec.getBe v 1).1, .num (Spec.Vec.getBe v 1).2)
  | .getU16 => ((Spec.Vec.getBe v 2).1, .num (Spec.Vec.getBe v 2).2)
  | .getU32 => ((Spec.Vec.getBe v 4).1, .num (Spec.Vec.getBe v 4).2)

/-- The plain byte vector subjected to the same operations as the chain (until the chain panics). -/
def refRun (c : Chain) (v : Bytes) : List Op → Bytes × List RefOut
  | [] => (v, [])
  | op :: ops =>
    match c.step op with
    | .error _ => (v, [])
    | .ok (c', _) =>
      ((refRun c' (refStep c v op).1 ops).1, (refStep c v op).2 :: (refRun c' (refStep c v op).1 ops).2)

/-- Every value a caller can get hold of: the new chain, what an operation leaves in place, what a
    split returns, and what a panicking operation leaves behind (seen after catching the unwind). -/
inductive Reachable : Chain → Prop where
  | new : Reachable Chain.new
  | step {c c' : Chain} {op : Op} {o : Out} : Reachable c → c.step op = .ok (c', o) → Reachable c'
  | part {c c' p : Chain} {op : Op} : Reachable c → c.step op = .ok (c', .part p) → Reachable p
  | left {c : Chain} {op : Op} {p : Panic Chain} : Reachable c → c.step op = .error p → Reachable p.left

/-! ### Changing the variants (borrowed / owned) of the segments -/

def retagSeg (f : Tag → Tag) (s : Seg) : Seg := ⟨f s.tag, s.bytes⟩

def retagChain (f : Tag → Tag) (c : Chain) : Chain := ⟨c.segs.map (retagSeg f), c.cachedLen⟩

def retagOp (f : Tag → Tag) : Op → Op
  | .push s => .push (retagSeg f s)
  | .insert i s => .insert i (retagSeg f s)
  | op => op

def retagOut (f : Tag → Tag) : Out → Out
  | .unit => .unit
  | .popped s => .popped (s.map (retagSeg f))
  | .removed s => .removed (retagSeg f s)
  | .part c => .part (retagChain f c)
  | .copied b => .copied b
  | .u8 v => .u8 v
  | .u16 v => .u16 v
  | .u32 v => .u32 v

def retagRes (f : Tag → Tag) : Res Chain Out → Res Chain Out
  | .error p => .error ⟨retagChain f p.left⟩
  | .ok (c, o) => .ok (retagChain f c, retagOut f o)

@[simp] theorem retagSeg_bytes (f : Tag → Tag) (s : Seg) : (retagSeg f s).bytes = s.bytes := rfl
@[simp] theorem retagSeg_tag (f : Tag → Tag) (s : Seg) : (retagSeg f s).tag = f s.tag := rfl

theorem splitScan_retag (f : Tag → Tag) (l : List Seg) (n : Nat) :
    splitScan (l.map (retagSeg f)) n =
      (((splitScan l n).1).map (retagSeg f), ((splitScan l n).2.1).map (retagSeg f), (splitScan l n).2.2) := by
  induction l generalizing n with
  | nil => simp [splitScan]
  | cons s rest ih =>
    simp only [List.map_cons, splitScan, seg_len, retagSeg_bytes]
    split
    · simp
    · rw [ih]; simp

theorem truncScan_retag (f : Tag → Tag) (l : List Seg) (n : Nat) :
    truncScan (l.map (retagSeg f)) n = (truncScan l n).map (List.map (retagSeg f)) := by
  induction l generalizing n with
  | nil => simp [truncScan]
  | cons s rest ih =>
    simp only [List.map_cons, truncScan, seg_len, retagSeg_bytes]
    split
    · simp
    · split
      · rename_i hlt
        rw [seg_truncate_lt _ n (by simpa using hlt), seg_truncate_lt s n hlt]
        simp [retagSeg]
      · rw [ih]
        cases truncScan rest (n - s.bytes.length) <;> simp

theorem advLoop_retag (f : Tag → Tag) (l : List Seg) (n len : Nat) :
    advLoop (l.map (retagSeg f)) n len =
      match advLoop l n len with
      | .error p => .error ⟨retagChain f p.left⟩
      | .ok c => .ok (retagChain f c) := by
  induction l generalizing n len with
  | nil =>
    cases n with
    | zero => simp [advLoop_zero, retagChain]
    | succ m => simp [advLoop_nil_succ, retagChain]
  | cons s rest ih =>
    cases n with
    | zero => simp [advLoop_zero, retagChain]
    | succ m =>
      simp only [List.map_cons, advLoop_cons, retagSeg_bytes]
      by_cases hle : s.bytes.length ≤ m + 1
      · simp only [hle, if_true]; exact ih _ _
      · simp [hle, retagChain, retagSeg]

theorem seg_splitOff_retag (f : Tag → Tag) (s : Seg) (n : Nat) :
    (retagSeg f s).splitOff n =
      match s.splitOff n with
      | .error _ => .error ⟨retagSeg f s⟩
      | .ok (a, b) => .ok (retagSeg f a, retagSeg f b) := by
  by_cases h : n ≤ s.bytes.length
  · rw [seg_splitOff_ok s n h, seg_splitOff_ok _ n (by simpa using h)]; rfl
  · have h' := Nat.lt_of_not_le h
    rw [seg_splitOff_err s n h', seg_splitOff_err _ n (by simpa using h')]

theorem splitOff_retag (f : Tag → Tag) (c : Chain) (n : Nat) :
    (retagChain f c).splitOff n =
      match c.splitOff n with
      | .error p => .error ⟨retagChain f p.left⟩
      | .ok (a, b) => .ok (retagChain f a, retagChain f b) := by
  unfold Chain.splitOff
  simp only [retagChain, splitScan_retag]
  generalize splitScan c.segs n = res
  obtain ⟨fr, b, r⟩ := res
  simp only
  by_cases hr : r = 0
  · simp [hr]
  · simp only [hr, if_false]
    cases b with
    | nil => simp
    | cons s rest =>
      simp only [List.map_cons, seg_splitOff_retag]
      cases s.splitOff r with
      | error e => simp
      | ok v => obtain ⟨a, b⟩ := v; simp

theorem truncate_retag (f : Tag → Tag) (c : Chain) (n : Nat) :
    (retagChain f c).truncate n =
      match c.truncate n with
      | .error p => .error ⟨retagChain f p.left⟩
      | .ok (a, _) => .ok (retagChain f a, ()) := by
  unfold Chain.truncate
  simp only [retagChain, truncScan_retag]
  split
  · simp
  · cases truncScan c.segs n <;> simp

theorem advance_retag (f : Tag → Tag) (c : Chain) (n : Nat) :
    (retagChain f c).advance n =
      match c.advance n with
      | .error p => .error ⟨retagChain f p.left⟩
      | .ok (a, _) => .ok (retagChain f a, ()) := by
  unfold Chain.advance
  simp only [retagChain, advLoop_retag]
  split
  · simp
  · cases advLoop c.segs n c.cachedLen <;> simp

end Penguin.C20
