/-
Every small step of the pair of bind views changes the numeric summary in one of the eight ways of
`Lemmas/BindAllAbs.lean`; so the id discipline `Num` is preserved.
Core Lean only.
-/
import Penguin.Lemmas.BindAllNum

namespace Penguin.BindAll
open Penguin.Mux
open Penguin.PairAll (inMsgs inMsgs_append)

theorem rightSame_act (x : Nat) (c : BC) (v : BV) (ab : List Msg) (g : List BEv) (ba : List Msg) (bo : Bool) :
    RightSame (sm x c) (sm x { c with a := v, ab := ab, ga := g, ba := ba, baOpen := bo }) :=
  ⟨rfl, rfl, rfl, rfl, rfl, rfl, rfl, rfl, rfl⟩

macro "num_simp" : tactic =>
  `(tactic| simp [sm, BC.path, BC.swap, List.countP_append, List.countP_cons, enX, parkX, inMsgs])

/-- The pair after a step of the left view. -/
def BC.actL (c : BC) (v : BV) (ws : List Msg) (gs : List BEv) : BC :=
  { c with a := v, ab := if c.abOpen then c.ab ++ ws else c.ab, ga := c.ga ++ gs }

theorem okEnq_not_conn {v : BV} {m : Msg} (ok : OkEnq v m) (x : Nat) : isConnX x m = false ∧ isBindX x m = false := by
  cases m with
  | frame f => cases f <;> simp_all [OkEnq]
  | _ => simp

theorem okEnq_stream {v : BV} {m : Msg} (ok : OkEnq v m) {x : Nat} (h : isFinX x m = true ∨ isAPX x m = true) : x ∈ v.fids := by
  cases m with
  | frame f => cases f <;> simp_all [OkEnq]
  | _ => simp at h

theorem countP_resets (P : Msg → Bool) (hP : ∀ f, P (.frame (.reset f)) = false) (l : List BindIn) :
    (l.map (fun b => Msg.frame (.reset b.fid))).countP P = 0 := by
  rw [List.countP_eq_zero]
  intro m hm
  simp only [List.mem_map] at hm
  obtain ⟨b, _, rfl⟩ := hm
  simp [hP]

theorem countP_refusals (P : BEv → Bool) (hP : ∀ r a, P (.done r a) = false) (fl : List (Nat × Slot)) :
    (fl.filterMap (fun p => match p.2 with | .bindRequested r => some (BEv.done r .refused) | _ => none)).countP P = 0 := by
  rw [List.countP_eq_zero]
  intro m hm
  simp only [List.mem_filterMap] at hm
  obtain ⟨p, _, hp⟩ := hm
  split at hp
  · cases hp; simp [hP]
  · cases hp

variable {x : Nat} {c : BC}

theorem Num.emit (h : Num (sm x c)) (m : Msg) (r : List Msg) (ho : c.a.outq = m :: r) :
    Num (sm x (c.actL { c.a with outq := r } [m] [])) := by
  refine Num.shrink h (rightSame_act x c _ _ _ c.ba c.baOpen) ?_ ?_ ?_ ?_ ?_ ?_ ?_ ?_ ?_ ?_ ?_ ?_ ?_ ?_ ?_ ?_ ?_ <;>
    simp only [BC.actL] <;> cases hab : c.abOpen <;> num_simp <;> (try simp [ho, List.countP_cons]) <;> omega

theorem Num.sendClose (h : Num (sm x c)) : Num (sm x (c.actL c.a [.close] [])) := by
  refine Num.shrink h (rightSame_act x c _ _ _ c.ba c.baOpen) ?_ ?_ ?_ ?_ ?_ ?_ ?_ ?_ ?_ ?_ ?_ ?_ ?_ ?_ ?_ ?_ ?_ <;>
    simp only [BC.actL] <;> cases hab : c.abOpen <;> num_simp

theorem Num.shrinks (h : Num (sm x c)) {v : BV} (hs : Shrinks c.a v) : Num (sm x (c.actL v [] [])) := by
  have ho : ∀ P : Msg → Bool, v.outq.countP P ≤ c.a.outq.countP P := by
    intro P
    rcases hs.outq with h1 | ⟨h1, _⟩ <;> simp [h1]
  have hp : parkX x v.park ≤ parkX x c.a.park := by
    rcases hs.park with h1 | h1 <;> simp [h1, parkX]
  have hb := hs.bindq.countP_le (p := fun b : BindIn => b.fid == x)
  have hi := fun P => countP_inMsgs_suffix hs.inbox P
  refine Num.shrink h (rightSame_act x c _ _ _ c.ba c.baOpen) ?_ ?_ ?_ ?_ ?_ ?_ ?_ ?_ ?_ ?_ ?_ ?_ ?_ ?_ ?_ ?_ ?_ <;>
    simp only [BC.actL]
  · exact count_le_of_suffix hs.rng x
  · exact hs.flows.countP_le
  · exact hs.flows.countP_le
  · exact hs.flows.countP_le
  · simp [sm, hs.fids]
  · simp [sm]
  · simp [sm]
  · simp only [sm, enX]; omega
  · simp [sm, hs.held]
  all_goals cases hab : c.abOpen <;> num_simp
  all_goals first | exact ho _ | exact hi _

theorem Num.enq (h : Num (sm x c)) (m : Msg) (ok : OkEnq c.a m) :
    Num (sm x (c.actL { c.a with outq := c.a.outq ++ [m] } [] [])) := by
  obtain ⟨n1, n2⟩ := okEnq_not_conn ok x
  by_cases hS : isFinX x m = true ∨ isAPX x m = true
  · have hf : 1 ≤ c.a.fids.count x := List.count_pos_iff.mpr (okEnq_stream ok hS)
    refine Num.enqS h (rightSame_act x c _ _ _ c.ba c.baOpen) (Or.inl hf) ?_ ?_ ?_ ?_ ?_ ?_ ?_ ?_ ?_ ?_ ?_ ?_ ?_ ?_ ?_ ?_ ?_ <;>
      simp only [BC.actL] <;> cases hab : c.abOpen <;> num_simp <;> (try simp [n1, n2]) <;> (try split) <;> omega
  · have h1 : isFinX x m = false := by cases hh : isFinX x m <;> simp_all
    have h2 : isAPX x m = false := by cases hh : isAPX x m <;> simp_all
    refine Num.shrink h (rightSame_act x c _ _ _ c.ba c.baOpen) ?_ ?_ ?_ ?_ ?_ ?_ ?_ ?_ ?_ ?_ ?_ ?_ ?_ ?_ ?_ ?_ ?_ <;>
      simp only [BC.actL] <;> cases hab : c.abOpen <;> num_simp <;> simp [n1, n2, h1, h2]

end Penguin.BindAll
