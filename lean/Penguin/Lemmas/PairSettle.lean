/-
The stimulus level is a special case of the fine-grained level: one application-call stimulus of the
correspondence harness (`Mux.applyOp` = the call, then the task and the open futures run to
quiescence) is a run of the pair model's actions — the call, then `unpark`/`notif` until no
notification is left, `xmit` for every queued message, `runDone`, `runRetries`, `xmit` again.
Likewise a delivery stimulus is `recv` followed by the same tail.  Hence every theorem about all
runs of `Penguin.Pair` applies to every sequence of stimuli the harness can produce.
-/
import Penguin.Model.Pair
import Penguin.Lemmas.MuxBasic
import Penguin.Lemmas.MuxStep
import Penguin.Lemmas.PairEff

namespace Penguin.Mux

/-- The connection-level control fields, which no action of the running phase touches. -/
structure Ctl (e e' : EP) : Prop where
  inbox : e'.inbox = e.inbox
  dead : e'.dead = e.dead
  draining : e'.draining = e.draining
  closing : e'.closing = e.closing
  sinkRoom : e'.sinkRoom = e.sinkRoom
  muxAlive : e'.muxAlive = e.muxAlive
  outClosed : e'.outClosed = e.outClosed
  srcEnded : e'.srcEnded = e.srcEnded

theorem Ctl.refl (e : EP) : Ctl e e := ⟨rfl, rfl, rfl, rfl, rfl, rfl, rfl, rfl⟩
theorem Ctl.trans {a b c : EP} (s : Ctl a b) (t : Ctl b c) : Ctl a c :=
  ⟨by rw [t.inbox, s.inbox], by rw [t.dead, s.dead], by rw [t.draining, s.draining], by rw [t.closing, s.closing],
   by rw [t.sinkRoom, s.sinkRoom], by rw [t.muxAlive, s.muxAlive], by rw [t.outClosed, s.outClosed],
   by rw [t.srcEnded, s.srcEnded]⟩

theorem Ctl.enq (e : EP) (m : Msg) : Ctl e (e.enq m) := by
  unfold EP.enq; split <;> exact ⟨rfl, rfl, rfl, rfl, rfl, rfl, rfl, rfl⟩
theorem Ctl.enqFrame (e : EP) (f : Frame) : Ctl e (e.enqFrame f) := Ctl.enq e _
theorem Ctl.modObj (e : EP) (i : Nat) (f : Obj → Obj) : Ctl e (e.modObj i f) := ⟨rfl, rfl, rfl, rfl, rfl, rfl, rfl, rfl⟩

theorem Ctl.openRejected (e : EP) (req : Nat) (final : Bool) : Ctl e (openRejected e req final).1 := by
  unfold Mux.openRejected
  repeat' split
  all_goals exact ⟨rfl, rfl, rfl, rfl, rfl, rfl, rfl, rfl⟩

theorem Ctl.closeLocal (e : EP) (s : Slot) (fid : Nat) (inh final : Bool) : Ctl e (closeLocal e s fid inh final).1 := by
  unfold Mux.closeLocal
  cases s with
  | established i =>
    simp only
    cases e.obj? i with
    | none => exact Ctl.refl e
    | some o =>
      simp only
      split
      · exact (Ctl.modObj e i _).trans (Ctl.enqFrame _ _)
      · exact Ctl.modObj e i _
  | requested req => exact Ctl.openRejected e req final
  | bindRequested req => exact Ctl.refl e

theorem Ctl.closeFlow (e : EP) (fid : Nat) (inh : Bool) : Ctl e (closeFlow e fid inh).1 := by
  unfold Mux.closeFlow
  cases lookup e.flows fid with
  | none => exact Ctl.refl e
  | some s =>
    exact (⟨rfl, rfl, rfl, rfl, rfl, rfl, rfl, rfl⟩ : Ctl e { e with flows := erase e.flows fid }).trans (Ctl.closeLocal _ s fid inh false)

theorem Ctl.unpark (e : EP) : Ctl e (unpark e) := by
  unfold Mux.unpark
  repeat' split
  all_goals first
    | exact Ctl.refl e
    | exact ⟨rfl, rfl, rfl, rfl, rfl, rfl, rfl, rfl⟩
    | exact (⟨rfl, rfl, rfl, rfl, rfl, rfl, rfl, rfl⟩ : Ctl e { e with park := none }).trans (Ctl.enqFrame _ _)

theorem closeLocal_droppedq (e : EP) (s : Slot) (fid : Nat) (inh final : Bool) :
    (closeLocal e s fid inh final).1.droppedq = e.droppedq := by
  unfold closeLocal
  cases s with
  | established i =>
    simp only
    cases e.obj? i with
    | none => rfl
    | some o => simp only; split <;> simp [EP.enqFrame]
  | requested req =>
    simp only; unfold openRejected
    repeat' split
    all_goals rfl
  | bindRequested req => rfl

theorem closeFlow_droppedq (e : EP) (fid : Nat) (inh : Bool) : (closeFlow e fid inh).1.droppedq = e.droppedq := by
  unfold closeFlow
  cases lookup e.flows fid with
  | none => rfl
  | some s => simp only; rw [closeLocal_droppedq]

theorem unpark_droppedq (e : EP) (hm : e.muxAlive = true) : (unpark e).droppedq = e.droppedq := by
  unfold unpark
  repeat' split
  all_goals first | rfl | simp_all

end Penguin.Mux

namespace Penguin.Pair
open Penguin.Mux

/-- Run a list of actions of the left endpoint; `none` if one of them is not enabled. -/
def runL (p : PS) : List Act → Option PS
  | [] => some p
  | a :: rest => (stepL p a).bind (fun p' => runL p' rest)

theorem runL_append (p : PS) (l1 l2 : List Act) : runL p (l1 ++ l2) = (runL p l1).bind (fun p' => runL p' l2) := by
  induction l1 generalizing p with
  | nil => rfl
  | cons a rest ih =>
    simp only [List.cons_append, runL]
    cases stepL p a with
    | none => rfl
    | some p' => simp [ih]

/-- An enabled run of left actions is a run of the pair. -/
theorem run_of_runL (p p' : PS) (l : List Act) (h : runL p l = some p') : run p (l.map (fun a => (Side.A, a))) = p' := by
  induction l generalizing p with
  | nil => simp [runL] at h; simp [run, h]
  | cons a rest ih =>
    simp only [runL] at h
    cases hs : stepL p a with
    | none => rw [hs] at h; cases h
    | some q =>
      rw [hs] at h
      simp only [List.map_cons, run, step, hs, Option.getD_some]
      exact ih q h

@[simp] theorem wiresOf_nil : wiresOf [] = [] := rfl
theorem wiresOf_append (a b : List Ev) : wiresOf (a ++ b) = wiresOf a ++ wiresOf b := by
  induction a with
  | nil => rfl
  | cons x xs ih => cases x <;> simp [wiresOf, ih]
theorem wiresOf_map_wire (l : List Msg) : wiresOf (l.map Ev.wire) = l := by
  induction l with
  | nil => rfl
  | cons x xs ih => simp [wiresOf, ih]

theorem closeLocal_no_wires (e : EP) (s : Slot) (fid : Nat) (inh final : Bool) : wiresOf (closeLocal e s fid inh final).2 = [] := by
  unfold closeLocal
  cases s with
  | established i =>
    simp only
    cases e.obj? i with
    | none => rfl
    | some o => rfl
  | requested req =>
    simp only; unfold openRejected
    repeat' split
    all_goals rfl
  | bindRequested req => rfl

theorem closeFlow_no_wires (e : EP) (fid : Nat) (inh : Bool) : wiresOf (closeFlow e fid inh).2 = [] := by
  unfold closeFlow
  cases lookup e.flows fid with
  | none => rfl
  | some s => exact closeLocal_no_wires _ s fid inh false

/-- The task has nothing to read and is in its running phase: its loop only handles notifications. -/
structure Idle (e : EP) : Prop where
  inbox : e.inbox = []
  dead : e.dead = false
  draining : e.draining = none
  closing : e.closing = none
  muxAlive : e.muxAlive = true
  nozero : ¬ 0 ∈ e.droppedq

theorem Idle.of_ctl {e e' : EP} (h : Idle e) (c : Ctl e e') (hd : ¬ 0 ∈ e'.droppedq) : Idle e' :=
  ⟨by rw [c.inbox]; exact h.inbox, by rw [c.dead]; exact h.dead, by rw [c.draining]; exact h.draining,
   by rw [c.closing]; exact h.closing, by rw [c.muxAlive]; exact h.muxAlive, hd⟩

def notifActs : Nat → List Act
  | 0 => [.unpark]
  | n + 1 => .unpark :: .notif :: notifActs n

/-- With an empty inbox the task's loop is `unpark`, `notif`, `unpark`, `notif`, …, `unpark`. -/
theorem settleLoop_idle (fuel : Nat) (p : PS) (acc : List Ev) (h : Idle p.a) (hf : p.a.droppedq.length < fuel) :
    ∃ e' evs, settleLoop fuel p.a acc = (e', acc ++ evs) ∧ wiresOf evs = [] ∧
      runL p (notifActs p.a.droppedq.length) = some { p with a := e' } ∧ Idle e' ∧ e'.droppedq = [] ∧ Ctl p.a e' := by
  induction fuel generalizing p acc with
  | zero => omega
  | succ n ih =>
    have cu := Ctl.unpark p.a
    have hud : (unpark p.a).droppedq = p.a.droppedq := unpark_droppedq p.a h.muxAlive
    have hui : (unpark p.a).inbox = [] := by rw [cu.inbox]; exact h.inbox
    have hstep1 : stepL p .unpark = some { p with a := unpark p.a } := rfl
    unfold settleLoop
    simp only [h.dead, Bool.false_eq_true, if_false, h.draining, h.closing]
    split
    · rename_i w rest hp hi
      rw [hui] at hi; cases hi
    · cases hq : p.a.droppedq with
      | nil =>
        simp only [hud, hq]
        refine ⟨unpark p.a, [], by simp, rfl, ?_, h.of_ctl cu (by rw [hud]; exact h.nozero), by rw [hud, hq], cu⟩
        simp [notifActs, runL, hstep1]
      | cons fid rest =>
        have hf0 : fid ≠ 0 := by
          intro h0; apply h.nozero; rw [hq, h0]; simp
        cases fid with
        | zero => exact absurd rfl hf0
        | succ k =>
          simp only [hud, hq]
          let e2 := (closeFlow { unpark p.a with droppedq := rest } (k + 1) false).1
          have c2 : Ctl p.a e2 :=
            (cu.trans (⟨rfl, rfl, rfl, rfl, rfl, rfl, rfl, rfl⟩ : Ctl (unpark p.a) { unpark p.a with droppedq := rest })).trans
              (Ctl.closeFlow _ _ _)
          have hd2 : e2.droppedq = rest := closeFlow_droppedq _ _ _
          have hi2 : Idle e2 := h.of_ctl c2 (by
            rw [hd2]; intro h0; apply h.nozero; rw [hq]; exact List.mem_cons_of_mem _ h0)
          have hlen : ({ p with a := e2 } : PS).a.droppedq.length < n := by
            show e2.droppedq.length < n
            rw [hd2]; rw [hq] at hf; simp at hf; omega
          obtain ⟨e', evs, h1, h2, h3, h4, h5, h6⟩ := ih { p with a := e2 } (acc ++ (closeFlow { unpark p.a with droppedq := rest } (k + 1) false).2) hi2 hlen
          refine ⟨e', (closeFlow { unpark p.a with droppedq := rest } (k + 1) false).2 ++ evs, ?_, ?_, ?_, h4, h5, c2.trans h6⟩
          · rw [← List.append_assoc]; exact h1
          · rw [wiresOf_append, closeFlow_no_wires, h2]; rfl
          · have hstep2 : stepL { p with a := unpark p.a } .notif = some { p with a := e2 } := by
              simp only [stepL, hud, hq]
              simp
              rfl
            show runL p (notifActs (rest.length + 1)) = _
            simp only [notifActs, runL, hstep1, Option.bind_some, hstep2]
            have : ({ p with a := e2 } : PS).a.droppedq.length = rest.length := by show e2.droppedq.length = _; rw [hd2]
            rw [← this]
            exact h3

end Penguin.Pair

namespace Penguin.Mux

theorem Ctl.silent {e e' : EP} (h1 : e'.inbox = e.inbox) (h2 : e'.dead = e.dead) (h3 : e'.draining = e.draining)
    (h4 : e'.closing = e.closing) (h5 : e'.sinkRoom = e.sinkRoom) (h6 : e'.muxAlive = e.muxAlive)
    (h7 : e'.outClosed = e.outClosed) (h8 : e'.srcEnded = e.srcEnded) : Ctl e e' := ⟨h1, h2, h3, h4, h5, h6, h7, h8⟩

theorem Ctl.after {a b c : EP} (t : Ctl b c) (s : Ctl a b) : Ctl a c := s.trans t

theorem Ctl.openRound (e : EP) (r : OpenReq) : Ctl e (openRound e r).1 := by
  unfold Mux.openRound
  split
  · exact Ctl.silent rfl rfl rfl rfl rfl rfl rfl rfl
  · split
    · exact Ctl.silent rfl rfl rfl rfl rfl rfl rfl rfl
    · simp only
      split
      · exact Ctl.silent rfl rfl rfl rfl rfl rfl rfl rfl
      · exact Ctl.after (Ctl.enqFrame _ _) (Ctl.silent rfl rfl rfl rfl rfl rfl rfl rfl)

theorem Ctl.runRetries (e : EP) (l : List Nat) : Ctl e (runRetries e l).1 := by
  induction l generalizing e with
  | nil => exact Ctl.refl e
  | cons req rest ih =>
    rw [Mux.runRetries]
    split
    · exact ih e
    · exact (Ctl.openRound e _).trans (ih _)

theorem Ctl.runDone (e : EP) (l : List (Nat × Nat)) : Ctl e (runDone e l).1 := by
  induction l generalizing e with
  | nil => exact Ctl.refl e
  | cons x rest ih =>
    obtain ⟨req, i⟩ := x
    rw [Mux.runDone]
    exact (Ctl.silent rfl rfl rfl rfl rfl rfl rfl rfl : Ctl e { e with handles := e.handles ++ [i] }).trans (ih _)

theorem Ctl.offerAccept (e : EP) (i : Nat) : Ctl e (offerAccept e i) := by
  unfold Mux.offerAccept; split <;> exact Ctl.silent rfl rfl rfl rfl rfl rfl rfl rfl
theorem Ctl.offerBind (e : EP) (b : BindIn) : Ctl e (offerBind e b) := by
  unfold Mux.offerBind; split <;> exact Ctl.silent rfl rfl rfl rfl rfl rfl rfl rfl

theorem Ctl.processFrame (e : EP) (f : Frame) (ig : Bool) : Ctl e (processFrame e f ig).1 := by
  cases f with
  | connect fid rwnd port host =>
    simp only [Mux.processFrame]
    split
    · exact Ctl.enqFrame _ _
    · split
      · exact Ctl.silent rfl rfl rfl rfl rfl rfl rfl rfl
      · split
        · have c1 : Ctl e (({ e with objs := e.objs ++ [newObj e.opts fid rwnd host port],
                                      flows := insert e.flows fid (.established e.objs.length) } : EP).enqFrame
                              (.acknowledge fid e.opts.rwnd)) :=
            Ctl.after (Ctl.enqFrame _ _) (Ctl.silent rfl rfl rfl rfl rfl rfl rfl rfl)
          exact c1.trans (Ctl.silent rfl rfl rfl rfl rfl rfl rfl rfl)
        · exact Ctl.after (Ctl.offerAccept _ _) (Ctl.after (Ctl.enqFrame _ _) (Ctl.silent rfl rfl rfl rfl rfl rfl rfl rfl))
  | acknowledge fid n =>
    simp only [Mux.processFrame]
    split
    · exact Ctl.modObj _ _ _
    · split <;> exact Ctl.silent rfl rfl rfl rfl rfl rfl rfl rfl
    · exact Ctl.enqFrame _ _
    · exact Ctl.enqFrame _ _
  | finish fid =>
    simp only [Mux.processFrame]
    split
    · exact Ctl.enqFrame _ _
    · exact Ctl.silent rfl rfl rfl rfl rfl rfl rfl rfl
    · exact Ctl.after (Ctl.enqFrame _ _) (Ctl.silent rfl rfl rfl rfl rfl rfl rfl rfl)
    · exact Ctl.modObj _ _ _
  | reset fid => simp only [Mux.processFrame]; exact Ctl.closeFlow _ _ _
  | push fid d =>
    simp only [Mux.processFrame]
    split
    · split
      · exact Ctl.refl e
      · split
        · exact Ctl.enqFrame _ _
        · split
          · exact Ctl.refl e
          · split
            · exact Ctl.modObj _ _ _
            · exact Ctl.closeFlow _ _ _
    · exact Ctl.enqFrame _ _
  | bind fid bt port host =>
    simp only [Mux.processFrame]
    split
    · exact Ctl.enqFrame _ _
    · split
      · exact Ctl.refl e
      · split
        · exact Ctl.enqFrame _ _
        · exact Ctl.offerBind _ _
  | datagram fid port host d =>
    simp only [Mux.processFrame]
    repeat' split
    all_goals first | exact Ctl.refl e | exact Ctl.silent rfl rfl rfl rfl rfl rfl rfl rfl

end Penguin.Mux

namespace Penguin.Pair
open Penguin.Mux

theorem runL_xmits (l : List Msg) (p : PS) (hq : p.a.outq = l) :
    runL p (List.replicate l.length .xmit) = some { p with a := { p.a with outq := [] }, ab := p.ab ++ l } := by
  induction l generalizing p with
  | nil =>
    obtain ⟨a, b, ab, ba, ga, gb⟩ := p
    simp only at hq
    simp only [List.length_nil, List.replicate_zero, runL, List.append_nil, Option.some.injEq]
    cases a
    simp_all
  | cons m rest ih =>
    have hstep : stepL p .xmit = some { p with a := { p.a with outq := rest }, ab := p.ab ++ [m] } := by
      simp [stepL, hq]
    simp only [List.length_cons, List.replicate_succ, runL, hstep, Option.bind_some]
    rw [ih _ rfl]
    simp

theorem runDone_no_wires (e : EP) (l : List (Nat × Nat)) : wiresOf (Mux.runDone e l).2 = [] := by
  induction l generalizing e with
  | nil => rfl
  | cons x rest ih =>
    obtain ⟨req, i⟩ := x
    rw [Mux.runDone]
    simp only [wiresOf]
    exact ih _

theorem openRound_no_wires (e : EP) (r : OpenReq) : wiresOf (openRound e r).2 = [] := by
  unfold openRound
  split
  · rfl
  · split
    · rfl
    · simp only
      split <;> rfl

theorem runRetries_no_wires (e : EP) (l : List Nat) : wiresOf (Mux.runRetries e l).2 = [] := by
  induction l generalizing e with
  | nil => rfl
  | cons req rest ih =>
    rw [Mux.runRetries]
    split
    · exact ih e
    · simp only
      rw [wiresOf_append, openRound_no_wires, ih]; rfl

theorem sendSome_none (e : EP) (h : e.sinkRoom = none) : sendSome e = ({ e with outq := [] }, e.outq.map .wire) := by
  unfold sendSome; rw [h]

/-- The task's run to quiescence from an idle state, as fine-grained actions. -/
def settleActs (n k1 k2 : Nat) : List Act :=
  notifActs n ++ List.replicate k1 .xmit ++ [.runDone, .runRetries] ++ List.replicate k2 .xmit

/-- The answered open futures return (as in `settle`). -/
def stage3 (e : EP) : EP × List Ev := Mux.runDone { e with doneq := [] } (e.doneq.foldr insertDone [])
/-- The rejected open futures run their next round (as in `settle`). -/
def stage4 (e : EP) : EP × List Ev := Mux.runRetries { e with retryq := [] } (sortNat e.retryq)

/-- `settle` after the task's loop. -/
def settleTail (e1 : EP) (evs1 : List Ev) : EP × List Ev :=
  let s1 := if (e1.dead || e1.draining.isSome) = true then (e1, []) else sendSome e1
  let r3 := stage3 s1.1
  let r4 := stage4 r3.1
  let s2 := if (r4.1.dead || r4.1.draining.isSome) = true then (r4.1, []) else sendSome r4.1
  (s2.1, evs1 ++ s1.2 ++ (r3.2 ++ r4.2) ++ s2.2)

theorem settle_eq (e : EP) :
    settle e = settleTail (settleLoop (2 * e.inbox.length + e.droppedq.length + 2) e []).1
                          (settleLoop (2 * e.inbox.length + e.droppedq.length + 2) e []).2 := rfl

theorem settleTail_running (e1 : EP) (evs1 : List Ev) (hd : e1.dead = false) (hg : e1.draining = none)
    (hs : e1.sinkRoom = none) :
    settleTail e1 evs1 =
      ({ (stage4 (stage3 { e1 with outq := [] }).1).1 with outq := [] },
       evs1 ++ e1.outq.map Ev.wire ++ ((stage3 { e1 with outq := [] }).2 ++ (stage4 (stage3 { e1 with outq := [] }).1).2) ++
         (stage4 (stage3 { e1 with outq := [] }).1).1.outq.map Ev.wire) := by
  have hh1 : (e1.dead || e1.draining.isSome) = false := by rw [hd, hg]; rfl
  have c3 : Ctl e1 (stage3 { e1 with outq := [] }).1 :=
    (Ctl.silent rfl rfl rfl rfl rfl rfl rfl rfl : Ctl e1 { { e1 with outq := [] } with doneq := [] }).trans (Ctl.runDone _ _)
  have c4 : Ctl e1 (stage4 (stage3 { e1 with outq := [] }).1).1 :=
    c3.trans ((Ctl.silent rfl rfl rfl rfl rfl rfl rfl rfl :
      Ctl (stage3 { e1 with outq := [] }).1 { (stage3 { e1 with outq := [] }).1 with retryq := [] }).trans (Ctl.runRetries _ _))
  have hh2 : ((stage4 (stage3 { e1 with outq := [] }).1).1.dead || (stage4 (stage3 { e1 with outq := [] }).1).1.draining.isSome) = false := by
    rw [c4.dead, c4.draining, hd, hg]; rfl
  have hs4 : (stage4 (stage3 { e1 with outq := [] }).1).1.sinkRoom = none := by rw [c4.sinkRoom]; exact hs
  unfold settleTail
  simp only [hh1, Bool.false_eq_true, if_false, sendSome_none e1 hs]
  simp only [hh2, Bool.false_eq_true, if_false, sendSome_none _ hs4]

theorem settle_fine (p : PS) (h : Idle p.a) (hs : p.a.sinkRoom = none) (hr : (settle p.a).1.rng ≠ []) :
    ∃ acts, runL p acts = some { p with a := (settle p.a).1, ab := p.ab ++ wiresOf (settle p.a).2 } := by
  have hfuel : p.a.droppedq.length < 2 * p.a.inbox.length + p.a.droppedq.length + 2 := by omega
  obtain ⟨e1, evs1, h1, h2, h3, h4, h5, c1⟩ := settleLoop_idle _ p [] h hfuel
  have hs1 : e1.sinkRoom = none := by rw [c1.sinkRoom]; exact hs
  have hE : settle p.a = settleTail e1 ([] ++ evs1) := by rw [settle_eq, h1]
  rw [settleTail_running e1 _ h4.dead h4.draining hs1] at hE
  rw [hE] at hr ⊢
  simp only at hr ⊢
  -- the fine run
  refine ⟨settleActs p.a.droppedq.length e1.outq.length (stage4 (stage3 { e1 with outq := [] }).1).1.outq.length, ?_⟩
  unfold settleActs
  rw [runL_append, runL_append, runL_append, h3]
  simp only [Option.bind_some]
  rw [runL_xmits e1.outq _ rfl]
  simp only [Option.bind_some]
  have hstepD : stepL { p with a := { e1 with outq := [] }, ab := p.ab ++ e1.outq } .runDone =
      some { p with a := (stage3 { e1 with outq := [] }).1, ab := p.ab ++ e1.outq } := rfl
  have hstepR : stepL { p with a := (stage3 { e1 with outq := [] }).1, ab := p.ab ++ e1.outq } .runRetries =
      some { p with a := (stage4 (stage3 { e1 with outq := [] }).1).1, ab := p.ab ++ e1.outq } := by
    simp only [stepL]
    have : ¬ (stage4 (stage3 { e1 with outq := [] }).1).1.rng.isEmpty = true := by
      intro hh; apply hr; simpa using hh
    show (if (stage4 (stage3 { e1 with outq := [] }).1).1.rng.isEmpty = true then none else some _) = _
    rw [if_neg this]
    rfl
  simp only [runL, hstepD, Option.bind_some, hstepR]
  rw [runL_xmits _ _ rfl]
  simp only [Option.some.injEq]
  congr 1
  simp only [wiresOf_append, wiresOf_map_wire, h2, runDone_no_wires, runRetries_no_wires, stage3, stage4, wiresOf_nil,
    List.nil_append, List.append_nil, List.append_assoc]

end Penguin.Pair

namespace Penguin.Pair
open Penguin.Mux

/-- The pair action that corresponds to an application-call stimulus. -/
def actOf : Mux.Op → Option Act
  | .open req host port => some (.open req host port)
  | .accept => some .accept
  | .write h d => some (.write h d)
  | .read h n => some (.read h n)
  | .shutdown h => some (.shutdown h)
  | .dropStream h => some (.dropStream h)
  | .sendDgram d => some (.sendDgram d)
  | .recvDgram => some .recvDgram
  | .cancelOpen req => some (.cancelOpen req)
  | .bindReq req bt host port => some (.bindReq req bt host port)
  | .bindNext => some .bindNext
  | .bindReply k a => some (.bindReply k a)
  | .bindDrop k => some (.bindDrop k)
  | _ => none

/-- An enabled action does exactly what the stimulus's application call does. -/
theorem stepL_of_op (p q : PS) (op : Mux.Op) (a : Act) (ha : actOf op = some a) (hq : stepL p a = some q) :
    q = { p with a := (opStep p.a op).1, ga := ghostOf p.a p.ga op (opStep p.a op).2.1 } ∧
    wiresOf (opStep p.a op).2.2 = [] := by
  cases op with
  | «open» req host port =>
    simp only [actOf, Option.some.injEq] at ha; subst ha
    simp only [stepL] at hq
    split at hq
    · cases hq
    · rename_i hany
      split at hq
      · cases hq
      · cases hq
        have ho : opStep p.a (.open req host port) = ((appOpen p.a req host port).1, .started, (appOpen p.a req host port).2) := by
          simp only [opStep, hany, Bool.false_eq_true, if_false]
        rw [ho]
        exact ⟨rfl, openRound_no_wires _ _⟩
  | accept => simp only [actOf, Option.some.injEq] at ha; subst ha; simp only [stepL] at hq; cases hq; exact ⟨rfl, rfl⟩
  | write h d =>
    simp only [actOf, Option.some.injEq] at ha; subst ha
    simp only [stepL] at hq
    split at hq
    · cases hq
    · cases hq
      refine ⟨?_, rfl⟩
      simp only [opStep]
      congr 1
      cases (appWrite p.a h d).2 <;> simp only [ghostOf] <;> (cases p.a.handles[h]? <;> rfl)
  | read h n =>
    simp only [actOf, Option.some.injEq] at ha; subst ha
    simp only [stepL] at hq
    split at hq
    · cases hq
    · cases hq
      refine ⟨?_, rfl⟩
      simp only [opStep]
      congr 1
      cases (appRead p.a h n).2 <;> simp only [ghostOf] <;> (cases p.a.handles[h]? <;> rfl)
  | shutdown h =>
    simp only [actOf, Option.some.injEq] at ha; subst ha
    simp only [stepL] at hq
    split at hq
    · cases hq
    · cases hq; exact ⟨rfl, rfl⟩
  | dropStream h =>
    simp only [actOf, Option.some.injEq] at ha; subst ha
    simp only [stepL] at hq
    split at hq
    · cases hq
    · cases hq; exact ⟨rfl, rfl⟩
  | sendDgram d =>
    simp only [actOf, Option.some.injEq] at ha; subst ha; simp only [stepL] at hq; cases hq
    refine ⟨?_, rfl⟩
    simp only [opStep]
    congr 1
    cases (appSendDgram p.a d).2 <;> simp only [ghostOf]
  | recvDgram =>
    simp only [actOf, Option.some.injEq] at ha; subst ha; simp only [stepL] at hq; cases hq
    refine ⟨?_, rfl⟩
    simp only [opStep]
    congr 1
    cases (appRecvDgram p.a).2 <;> simp only [ghostOf]
  | cancelOpen req => simp only [actOf, Option.some.injEq] at ha; subst ha; simp only [stepL] at hq; cases hq; exact ⟨rfl, rfl⟩
  | bindReq req bt host port =>
    simp only [actOf, Option.some.injEq] at ha; subst ha
    simp only [stepL] at hq
    split at hq
    · cases hq
    · cases hq
      refine ⟨rfl, ?_⟩
      simp only [opStep, appBindReq]
      repeat' split
      all_goals rfl
  | bindNext =>
    simp only [actOf, Option.some.injEq] at ha; subst ha; simp only [stepL] at hq; cases hq
    refine ⟨?_, rfl⟩
    simp only [opStep]
    congr 1
  | bindReply k acc =>
    simp only [actOf, Option.some.injEq] at ha; subst ha; simp only [stepL] at hq; cases hq
    refine ⟨?_, rfl⟩
    simp only [opStep]
    congr 1
  | bindDrop k =>
    simp only [actOf, Option.some.injEq] at ha; subst ha; simp only [stepL] at hq; cases hq
    refine ⟨?_, rfl⟩
    simp only [opStep]
    congr 1
  | dropMux => simp [actOf] at ha
  | deliver _ => simp [actOf] at ha
  | sinkRoom _ => simp [actOf] at ha

/-- **Every application-call stimulus of the harness is a run of fine-grained actions.**  If the
    call is enabled in the pair model, the endpoint is idle afterwards (nothing unread, running, no
    notification for id 0), its sink takes everything and the scripts do not run out, then the state
    after the stimulus (`stimL`, i.e. `Mux.applyOp`) is reached by the call followed by
    `unpark`/`notif`…, `xmit`…, `runDone`, `runRetries`, `xmit`…. -/
theorem stimL_fine (p : PS) (op : Mux.Op) (a : Act) (ha : actOf op = some a) (hen : (stepL p a).isSome)
    (hidle : Idle (opStep p.a op).1) (hs : (opStep p.a op).1.sinkRoom = none)
    (hr : (applyOp p.a op).1.rng ≠ []) :
    ∃ acts, runL p (a :: acts) = some (stimL p op) := by
  obtain ⟨q, hq⟩ := Option.isSome_iff_exists.mp hen
  obtain ⟨hqe, hw⟩ := stepL_of_op p q op a ha hq
  have happ : applyOp p.a op = ((settle (opStep p.a op).1).1, (opStep p.a op).2.1,
      (opStep p.a op).2.2 ++ (settle (opStep p.a op).1).2) := rfl
  have hqa : q.a = (opStep p.a op).1 := by rw [hqe]
  obtain ⟨acts, hacts⟩ := settle_fine q (by rw [hqa]; exact hidle) (by rw [hqa]; exact hs)
    (by rw [hqa]; rw [happ] at hr; exact hr)
  refine ⟨acts, ?_⟩
  simp only [runL, hq, Option.bind_some, hacts, Option.some.injEq]
  unfold stimL
  rw [happ]
  simp only [wiresOf_append, hw, List.nil_append]
  rw [hqe]

end Penguin.Pair

namespace Penguin.Mux

theorem unpark_inbox (e : EP) (ib : List WsIn) (hm : e.muxAlive = true) :
    unpark { e with inbox := ib } = { unpark e with inbox := ib } := by
  unfold unpark
  simp only [hm]
  repeat' split
  all_goals first | rfl | simp_all

theorem set_inbox_self (e : EP) (ib : List WsIn) (h : e.inbox = ib) : { e with inbox := ib } = e := by
  cases e; simp_all

theorem closeFlow_droppedq_len (e : EP) (fid : Nat) (inh : Bool) : (closeFlow e fid inh).1.droppedq.length = e.droppedq.length := by
  rw [closeFlow_droppedq]

/-- Processing one frame queues at most one notification. -/
theorem processFrame_droppedq_le (e : EP) (f : Frame) (ig : Bool) :
    (processFrame e f ig).1.droppedq.length ≤ e.droppedq.length + 1 := by
  cases f with
  | connect fid rwnd port host =>
    simp only [processFrame]
    repeat' split
    all_goals simp [EP.enqFrame, offerAccept]
    all_goals try split
    all_goals simp
  | acknowledge fid n =>
    simp only [processFrame]
    repeat' split
    all_goals simp [EP.enqFrame]
  | finish fid =>
    simp only [processFrame]
    repeat' split
    all_goals simp [EP.enqFrame]
  | reset fid => simp only [processFrame]; rw [closeFlow_droppedq]; omega
  | push fid d =>
    simp only [processFrame]
    repeat' split
    all_goals first | (rw [closeFlow_droppedq]; omega) | simp [EP.enqFrame]
  | bind fid bt port host =>
    simp only [processFrame]
    repeat' split
    all_goals simp [EP.enqFrame, offerBind]
    all_goals try split
    all_goals simp
  | datagram fid port host d =>
    simp only [processFrame]
    repeat' split
    all_goals simp

theorem processFrame_no_wires (e : EP) (f : Frame) (ig : Bool) : Penguin.Pair.wiresOf (processFrame e f ig).2.1 = [] := by
  cases f with
  | connect fid rwnd port host => simp only [processFrame]; repeat' split
                                  all_goals rfl
  | acknowledge fid n => simp only [processFrame]; repeat' split
                         all_goals rfl
  | finish fid =>
    simp only [processFrame]
    repeat' split
    all_goals first | rfl | (simp only; split <;> rfl)
  | reset fid => simp only [processFrame]; exact Penguin.Pair.closeFlow_no_wires _ _ _
  | push fid d =>
    simp only [processFrame]
    repeat' split
    all_goals first | rfl | exact Penguin.Pair.closeFlow_no_wires _ _ _
  | bind fid bt port host => simp only [processFrame]; repeat' split
                             all_goals rfl
  | datagram fid port host d => simp only [processFrame]; repeat' split
                                all_goals rfl

end Penguin.Mux

namespace Penguin.Pair
open Penguin.Mux

theorem stepL_recv_eq (p : PS) (f : Frame) (rest : List Msg) (hba : p.ba = .frame f :: rest)
    (hpark : p.a.park = none) (hcont : (processFrame p.a f false).2.2 = none) :
    stepL p .recv = some { p with a := (processFrame p.a f false).1, ba := rest, linked := (match completes p f with | some x => x :: p.linked | none => p.linked) } := by
  generalize hpf : processFrame p.a f false = r at hcont
  obtain ⟨e, evs, res⟩ := r
  simp only at hcont
  subst hcont
  cases f with
  | _ => simp [stepL, hpark, hba, hpf] <;> (split <;> simp_all)

theorem deliverL_eq (p : PS) (f : Frame) (rest : List Msg) (hba : p.ba = .frame f :: rest) :
    deliverL p = some { p with a := (applyOp p.a (.deliver (.msg (.frame f)))).1, ba := rest, ab := p.ab ++ wiresOf (applyOp p.a (.deliver (.msg (.frame f)))).2.2, linked := (match completes { p with a := unpark p.a } f with | some x => x :: p.linked | none => p.linked) } := by
  cases f with
  | _ => simp [deliverL, hba] <;> (split <;> simp_all)

/-- **Every delivery stimulus of the harness is a run of fine-grained actions**: `unpark`, `recv`,
    then the same tail as for an application call.  Conditions: the endpoint has nothing unread and is
    running, the receive loop is not parked after `unpark`, the frame does not end the connection
    (between two running endpoints it never does: `processFrame_continues`), no notification for id 0,
    the sink takes everything, the scripts do not run out. -/
theorem deliverL_fine (p q : PS) (f : Frame) (rest : List Msg) (hba : p.ba = .frame f :: rest)
    (hd : deliverL p = some q)
    (hidle : Idle p.a) (hsrc : p.a.srcEnded = false) (hpark : (unpark p.a).park = none)
    (hcont : (processFrame (unpark p.a) f false).2.2 = none)
    (hz : ¬ 0 ∈ (processFrame (unpark p.a) f false).1.droppedq)
    (hs : p.a.sinkRoom = none) (hr : q.a.rng ≠ []) :
    ∃ acts, runL p (.unpark :: .recv :: acts) = some q := by
  have cu := Ctl.unpark p.a
  have cp := Ctl.processFrame (unpark p.a) f false
  -- the state after `unpark` and `recv`
  let e2 := (processFrame (unpark p.a) f false).1
  have hi2 : Idle e2 := (hidle.of_ctl (cu.trans cp) hz)
  have hstepU : stepL p .unpark = some { p with a := unpark p.a } := rfl
  let lk' : List Nat := match completes { p with a := unpark p.a } f with | some x => x :: p.linked | none => p.linked
  have hstepR : stepL { p with a := unpark p.a } .recv = some { p with a := e2, ba := rest, linked := lk' } :=
    stepL_recv_eq { p with a := unpark p.a } f rest hba hpark hcont
  -- what `applyOp` computes
  have hop : opStep p.a (.deliver (.msg (.frame f))) = ({ p.a with inbox := [.msg (.frame f)] }, .unit, []) := by
    simp [opStep, hsrc, hidle.inbox]
  have hloop : settleLoop (2 * 1 + p.a.droppedq.length + 2) { p.a with inbox := [.msg (.frame f)] } [] =
      settleLoop (2 * 1 + p.a.droppedq.length + 1) e2 ([] ++ (processFrame (unpark p.a) f false).2.1) := by
    have hu : unpark { p.a with inbox := [.msg (.frame f)] } = { unpark p.a with inbox := [.msg (.frame f)] } :=
      unpark_inbox _ _ hidle.muxAlive
    have hrecv : recvOne { unpark p.a with inbox := [WsIn.msg (Msg.frame f)] } (.msg (.frame f)) [] =
        processFrame (unpark p.a) f false := by
      simp only [recvOne, processIn]
      have : ({ unpark p.a with inbox := [WsIn.msg (Msg.frame f)] } : EP) = { unpark p.a with inbox := [WsIn.msg (Msg.frame f)] } := rfl
      simp only [reduceCtorEq, or_self, if_false]
      have heq : ({ ({ unpark p.a with inbox := [WsIn.msg (Msg.frame f)] } : EP) with inbox := [] } : EP) = unpark p.a := by
        have : (unpark p.a).inbox = [] := by rw [cu.inbox]; exact hidle.inbox
        exact set_inbox_self (unpark p.a) [] this
      rw [heq]
    rw [show 2 * 1 + p.a.droppedq.length + 2 = (2 * 1 + p.a.droppedq.length + 1) + 1 by omega]
    have hd0 : ({ p.a with inbox := [WsIn.msg (Msg.frame f)] } : EP).dead = false := hidle.dead
    have hg0 : ({ p.a with inbox := [WsIn.msg (Msg.frame f)] } : EP).draining = none := hidle.draining
    have hc0 : ({ p.a with inbox := [WsIn.msg (Msg.frame f)] } : EP).closing = none := hidle.closing
    have hp1 : ({ unpark p.a with inbox := [WsIn.msg (Msg.frame f)] } : EP).park = none := hpark
    have hi1 : ({ unpark p.a with inbox := [WsIn.msg (Msg.frame f)] } : EP).inbox = [WsIn.msg (Msg.frame f)] := rfl
    generalize ({ unpark p.a with inbox := [WsIn.msg (Msg.frame f)] } : EP) = e1 at hu hp1 hi1 hrecv
    generalize ({ p.a with inbox := [WsIn.msg (Msg.frame f)] } : EP) = e0 at hu hd0 hg0 hc0 ⊢
    rw [settleLoop]
    simp only [hd0, Bool.false_eq_true, if_false, hg0, hc0, hu, hp1, hi1]
    rw [hrecv, hcont]
  have happ : applyOp p.a (.deliver (.msg (.frame f))) =
      ((settleTail (settleLoop (2 * 1 + p.a.droppedq.length + 1) e2 ([] ++ (processFrame (unpark p.a) f false).2.1)).1
                   (settleLoop (2 * 1 + p.a.droppedq.length + 1) e2 ([] ++ (processFrame (unpark p.a) f false).2.1)).2).1,
       .unit,
       [] ++ (settleTail (settleLoop (2 * 1 + p.a.droppedq.length + 1) e2 ([] ++ (processFrame (unpark p.a) f false).2.1)).1
                   (settleLoop (2 * 1 + p.a.droppedq.length + 1) e2 ([] ++ (processFrame (unpark p.a) f false).2.1)).2).2) := by
    simp only [applyOp, hop]
    rw [settle_eq]
    simp only [List.length_cons, List.length_nil]
    rw [hloop]
  -- the loop from `e2` on is the idle loop
  have hfuel : ({ p with a := e2, ba := rest, linked := lk' } : PS).a.droppedq.length < 2 * 1 + p.a.droppedq.length + 1 := by
    have := processFrame_droppedq_le (unpark p.a) f false
    rw [unpark_droppedq p.a hidle.muxAlive] at this
    show (processFrame (unpark p.a) f false).1.droppedq.length < _
    omega
  obtain ⟨e3, evs3, h1, h2, h3, h4, h5, c3⟩ :=
    settleLoop_idle _ { p with a := e2, ba := rest, linked := lk' } ([] ++ (processFrame (unpark p.a) f false).2.1) hi2 hfuel
  have hs3 : e3.sinkRoom = none := by
    rw [c3.sinkRoom]; show e2.sinkRoom = none; rw [cp.sinkRoom, cu.sinkRoom]; exact hs
  simp only at h1
  rw [h1] at happ
  rw [settleTail_running e3 _ h4.dead h4.draining hs3] at happ
  -- `q` is what `deliverL` built from `applyOp`
  have hd' := deliverL_eq p f rest hba
  rw [hd'] at hd
  rw [happ] at hd
  simp only [Option.some.injEq] at hd
  subst hd
  simp only at hr
  refine ⟨notifActs e2.droppedq.length ++ List.replicate e3.outq.length .xmit ++ [.runDone, .runRetries] ++
      List.replicate (stage4 (stage3 { e3 with outq := [] }).1).1.outq.length .xmit, ?_⟩
  simp only [runL, hstepU, Option.bind_some, hstepR]
  rw [runL_append, runL_append, runL_append, h3]
  simp only [Option.bind_some]
  rw [runL_xmits e3.outq _ rfl]
  simp only [Option.bind_some]
  have hstepD : stepL { p with a := { e3 with outq := [] }, ba := rest, ab := p.ab ++ e3.outq, linked := lk' } .runDone =
      some { p with a := (stage3 { e3 with outq := [] }).1, ba := rest, ab := p.ab ++ e3.outq, linked := lk' } := rfl
  have hstepRR : stepL { p with a := (stage3 { e3 with outq := [] }).1, ba := rest, ab := p.ab ++ e3.outq, linked := lk' } .runRetries =
      some { p with a := (stage4 (stage3 { e3 with outq := [] }).1).1, ba := rest, ab := p.ab ++ e3.outq, linked := lk' } := by
    simp only [stepL]
    have : ¬ (stage4 (stage3 { e3 with outq := [] }).1).1.rng.isEmpty = true := by
      intro hh; apply hr; simpa using hh
    show (if (stage4 (stage3 { e3 with outq := [] }).1).1.rng.isEmpty = true then none else some _) = _
    rw [if_neg this]
    rfl
  simp only [runL, hstepD, Option.bind_some, hstepRR]
  rw [runL_xmits _ _ rfl]
  simp only [Option.some.injEq]
  congr 1
  simp only [wiresOf_append, wiresOf_map_wire, h2, processFrame_no_wires, runDone_no_wires, runRetries_no_wires, stage3, stage4,
    wiresOf_nil, List.nil_append, List.append_nil, List.append_assoc]

end Penguin.Pair

namespace Penguin.Pair
open Penguin.Mux

/-- The side conditions of `stimL_fine` / `deliverL_fine`, as a decidable check on the endpoint after
    the application call (or before the delivery): nothing unread, running, no notification for the
    reserved id 0, the sink takes everything. -/
def idleB (e : EP) : Bool :=
  e.inbox.isEmpty && !e.dead && e.draining.isNone && e.closing.isNone && e.muxAlive && !e.droppedq.contains 0 &&
  e.sinkRoom.isNone

theorem idleB_spec {e : EP} (h : idleB e = true) : Idle e ∧ e.sinkRoom = none := by
  simp only [idleB, Bool.and_eq_true, List.isEmpty_iff, Bool.not_eq_true', Option.isNone_iff_eq_none,
    List.contains_eq_mem, decide_eq_false_iff_not] at h
  obtain ⟨⟨⟨⟨⟨⟨h1, h2⟩, h3⟩, h4⟩, h5⟩, h6⟩, h7⟩ := h
  exact ⟨⟨h1, h2, h3, h4, h5, by simpa using h6⟩, h7⟩

/-- One harness stimulus at the left endpoint, with its side conditions checked (`none` = a side
    condition fails: the stimulus is outside the fragment the pair model covers). -/
def stimStepL (p : PS) : Stim → Option PS
  | .call op =>
    match actOf op with
    | none => none
    | some a =>
      if (stepL p a).isSome && idleB (opStep p.a op).1 && !(applyOp p.a op).1.rng.isEmpty then some (stimL p op) else none
  | .deliver =>
    match p.ba with
    | .frame f :: _ =>
      if idleB p.a && !p.a.srcEnded && (unpark p.a).park.isNone && (processFrame (unpark p.a) f false).2.2.isNone &&
         !(processFrame (unpark p.a) f false).1.droppedq.contains 0 then
        match deliverL p with
        | some q => if q.a.rng.isEmpty then none else some q
        | none => none
      else none
    | _ => none

def stimStep (p : PS) (s : Side) (st : Stim) : Option PS :=
  match s with
  | .A => stimStepL p st
  | .B => (stimStepL p.swap st).map PS.swap

/-- A harness-level history: a list of stimuli, each of which satisfies its side conditions. -/
def stimRun (p : PS) : List (Side × Stim) → Option PS
  | [] => some p
  | (s, st) :: rest => (stimStep p s st).bind (fun q => stimRun q rest)

/-- One checked stimulus is a fine-grained run of the same side. -/
theorem stimStepL_fine (p q : PS) (st : Stim) (h : stimStepL p st = some q) : ∃ acts, runL p acts = some q := by
  cases st with
  | call op =>
    simp only [stimStepL] at h
    cases ha : actOf op with
    | none => rw [ha] at h; cases h
    | some a =>
      rw [ha] at h
      simp only at h
      split at h
      · rename_i hc
        cases h
        simp only [Bool.and_eq_true, Bool.not_eq_true'] at hc
        obtain ⟨⟨h1, h2⟩, h3⟩ := hc
        obtain ⟨hi, hs⟩ := idleB_spec h2
        obtain ⟨acts, hacts⟩ := stimL_fine p op a ha h1 hi hs (by intro hh; rw [hh] at h3; cases h3)
        exact ⟨_, hacts⟩
      · cases h
  | deliver =>
    simp only [stimStepL] at h
    split at h
    · rename_i f rest hba
      split at h
      · rename_i hc
        simp only [Bool.and_eq_true, Bool.not_eq_true', Option.isNone_iff_eq_none, List.contains_eq_mem,
          decide_eq_false_iff_not] at hc
        obtain ⟨⟨⟨⟨h1, h2⟩, h3⟩, h4⟩, h5⟩ := hc
        obtain ⟨hi, hs⟩ := idleB_spec h1
        cases hd : deliverL p with
        | none => rw [hd] at h; cases h
        | some q' =>
          rw [hd] at h
          simp only at h
          split at h
          · cases h
          · rename_i hr
            cases h
            obtain ⟨acts, hacts⟩ := deliverL_fine p q f rest hba hd hi h2 h3 h4 (by simpa using h5) hs
              (by intro hh; apply hr; rw [hh]; rfl)
            exact ⟨_, hacts⟩
      · cases h
    · cases h

theorem run_swap (p : PS) (l : List Act) : run p.swap (l.map (fun a => (Side.A, a))) = (run p (l.map (fun a => (Side.B, a)))).swap := by
  induction l generalizing p with
  | nil => rfl
  | cons a rest ih =>
    simp only [List.map_cons, run, step]
    cases hs : stepL p.swap a with
    | none => simp only [Option.map_none, Option.getD_none]; exact ih p
    | some q =>
      simp only [Option.map_some, Option.getD_some]
      have := ih q.swap
      rw [swap_swap'] at this
      exact this
where swap_swap' {q : PS} : q.swap.swap = q := rfl

theorem run_append (p : PS) (l1 l2 : List (Side × Act)) : run p (l1 ++ l2) = run (run p l1) l2 := by
  induction l1 generalizing p with
  | nil => rfl
  | cons x xs ih => obtain ⟨s, a⟩ := x; simp only [List.cons_append, run]; exact ih _

/-- **Every harness-level history is a fine-grained run of the pair model.** -/
theorem stimRun_is_run (p q : PS) (l : List (Side × Stim)) (h : stimRun p l = some q) :
    ∃ as : List (Side × Act), run p as = q := by
  induction l generalizing p with
  | nil => simp only [stimRun, Option.some.injEq] at h; exact ⟨[], by rw [← h]; rfl⟩
  | cons x rest ih =>
    obtain ⟨s, st⟩ := x
    simp only [stimRun] at h
    cases hs : stimStep p s st with
    | none => rw [hs] at h; cases h
    | some p1 =>
      rw [hs] at h
      simp only [Option.bind_some] at h
      obtain ⟨as2, h2⟩ := ih p1 h
      cases s with
      | A =>
        obtain ⟨acts, hacts⟩ := stimStepL_fine p p1 st hs
        refine ⟨acts.map (fun a => (Side.A, a)) ++ as2, ?_⟩
        rw [run_append, run_of_runL p p1 acts hacts]; exact h2
      | B =>
        simp only [stimStep, Option.map_eq_some_iff] at hs
        obtain ⟨q1, hq1, rfl⟩ := hs
        obtain ⟨acts, hacts⟩ := stimStepL_fine p.swap q1 st hq1
        refine ⟨acts.map (fun a => (Side.B, a)) ++ as2, ?_⟩
        have h3 := run_of_runL p.swap q1 acts hacts
        rw [run_swap] at h3
        rw [run_append]
        have : run p (acts.map (fun a => (Side.B, a))) = q1.swap := by
          have := congrArg PS.swap h3
          exact this
        rw [this]; exact h2

end Penguin.Pair
