/-
The receive loop processes the oldest message in transit: the step preserves the invariant of the
pair model.  This is where the handshake is established: `Connect` takes a flow from *requested* to
*half-open* (the accepting side creates its object, the link model starts at `Link.init`),
`Acknowledge` from *half-open* to *linked*.  On a linked flow `Push`, `Finish` and `Acknowledge` are
the link model's `deliver` / `deliverAck` steps.
-/
import Penguin.Lemmas.PairApp

namespace Penguin.Mux

theorem thresholdFor_le (o : Opts) (w : Nat) : thresholdFor o w ≤ o.rwnd := by
  unfold thresholdFor; omega

@[simp] theorem offerAccept_droppedq (e : EP) (i : Nat) : (offerAccept e i).droppedq = e.droppedq := by
  unfold offerAccept; split <;> rfl
@[simp] theorem offerAccept_rng (e : EP) (i : Nat) : (offerAccept e i).rng = e.rng := by
  unfold offerAccept; split <;> rfl
@[simp] theorem offerAccept_opts (e : EP) (i : Nat) : (offerAccept e i).opts = e.opts := by
  unfold offerAccept; split <;> rfl

/-- `Connect` on a free non-zero id at a running endpoint: everything the flow's view depends on. -/
theorem processFrame_connect_spec (e : EP) (fid rwnd port : Nat) (host : Bytes) (ig : Bool)
    (h0 : fid ≠ 0) (hfree : lookup e.flows fid = none) (hoc : e.outClosed = false) (hm : e.muxAlive = true) :
    let e' := (processFrame e (.connect fid rwnd port host) ig).1
    e'.objs = e.objs ++ [newObj e.opts fid rwnd host port] ∧
    lookup e'.flows fid = some (.established e.objs.length) ∧
    e'.outq = e.outq ++ [.frame (.acknowledge fid e.opts.rwnd)] ∧
    e'.droppedq = e.droppedq ∧ e'.rng = e.rng ∧ e'.opts = e.opts := by
  have hnot : ¬ (fid = 0 ∨ (lookup e.flows fid).isSome = true) := by simp [h0, hfree]
  simp only [processFrame, hnot, if_false, hoc, hm, EP.enqFrame, enq_outq, enq_muxAlive]
  simp [offerAccept_objs, offerAccept_flows, offerAccept_outq, lookup_insert_self, enq_outq, hoc]

theorem modify_append_last {α : Type} (l : List α) (a : α) (f : α → α) :
    (l ++ [a]).modify l.length f = l ++ [f a] := by
  induction l with
  | nil => rfl
  | cons x xs ih => simp [List.modify_cons, ih]

/-- `Acknowledge` on a requested slot: the object is created; if the requester has given up it is
    dropped at once (its notification is queued). -/
theorem processFrame_ack_spec (e : EP) (fid n req : Nat) (ig : Bool)
    (hs : lookup e.flows fid = some (.requested req)) :
    let e' := (processFrame e (.acknowledge fid n) ig).1
    lookup e'.flows fid = some (.established e.objs.length) ∧ e'.outq = e.outq ∧ e'.rng = e.rng ∧ e'.opts = e.opts ∧
    ((e'.objs = e.objs ++ [newObj e.opts fid n [] 0] ∧ e'.droppedq = e.droppedq) ∨
     (e'.objs = e.objs ++ [{ newObj e.opts fid n [] 0 with rxOpen := false }] ∧ e'.droppedq = e.droppedq ++ [fid])) := by
  simp only [processFrame, hs]
  cases hf : e.opens.find? (·.req = req) with
  | some r => simp [lookup_insert_self]
  | none =>
    simp only
    refine ⟨?_, rfl, rfl, rfl, Or.inr ⟨?_, trivial⟩⟩
    · show lookup (insert e.flows fid (Slot.established e.objs.length)) fid = _
      exact lookup_insert_self _ _ _
    · show setObj (e.objs ++ [newObj e.opts fid n [] 0]) e.objs.length _ = _
      exact modify_append_last _ _ _

theorem processFrame_dgram_eff (e : EP) (fid port : Nat) (host d : Bytes) (ig : Bool) :
    Eff (fun _ => False) e (processFrame e (.datagram fid port host d) ig).1 := by
  simp only [processFrame]
  repeat' split
  all_goals first | exact Eff.refl _ e | exact Eff.silent rfl rfl rfl rfl rfl rfl rfl rfl rfl

end Penguin.Mux

namespace Penguin.Pair
open Penguin.Mux

theorem filterMap_ackOf_nil (l : List Msg) (h : ∀ m ∈ l, ackOf m = none) : l.filterMap ackOf = [] := by
  induction l with
  | nil => rfl
  | cons m rest ih =>
    rw [List.filterMap_cons, h m (by simp)]
    exact ih (fun m' hm' => h m' (List.mem_cons_of_mem _ hm'))

theorem objView_append_new (x : Nat) (e e' : EP) (o' : Obj) (h : e'.objs = e.objs ++ [o']) (hf : o'.fid = x) (k : Nat) :
    objView x e' k = if k = e.objs.length then some o' else objView x e k := by
  unfold objView
  rw [h]
  by_cases hk : k = e.objs.length
  · subst hk; simp [hf]
  · rw [if_neg hk]
    rcases Nat.lt_or_ge k e.objs.length with h1 | h1
    · rw [List.getElem?_append_left h1]
    · have h2 : e.objs.length < k := by omega
      have : (e.objs ++ [o'])[k]? = none := by
        rw [List.getElem?_eq_none]; simp; omega
      rw [this, List.getElem?_eq_none h1]

/-- A dead flow stays dead under any step of `a` that does not hand it a slot. -/
theorem dead_step {x : Nat} {p : PS} {e' : EP} {g' : Ghost} {ba' : List Msg} {hd : List Msg}
    (d : Dead x (ev x p.a p.ga) (ev x p.b p.gb) (fl x (pathAB p)) (fl x (pathBA p)))
    (s : Eff (· = x) p.a e') (hba : fl x (pathBA p) = hd ++ fl x (ba' ++ p.b.outq))
    (hslot : lookup p.a.flows x = none → lookup e'.flows x = none) :
    Phase x { p with a := e', ga := g', ba := ba' } := by
  obtain ⟨em, he, hm⟩ := s.outq
  have hra : ¬ x ∈ p.a.rng := d.ra
  refine Or.inr (Or.inr (Or.inr (Or.inr (Or.inr (Or.inr ⟨?_, d.rb, ?_, ?_, ?_⟩)))))
  · show ¬ x ∈ e'.rng
    exact fun hh => hra (s.rngSub.subset hh)
  · show noConnect (fl x (p.ab ++ e'.outq))
    rw [he, ← List.append_assoc, fl_append]
    intro m hmm
    rcases List.mem_append.mp hmm with h1 | h1
    · exact d.nab m h1
    · have hmem : m ∈ em := (List.mem_filter.mp h1).1
      have hfl : isFl x m = true := (List.mem_filter.mp h1).2
      have hflow : Msg.flow? m = some x := by simpa [isFl] using hfl
      cases hc : m.isConnect with
      | false => rfl
      | true => exact absurd ((hm m hmem x hflow).2 hc) hra
  · show noConnect (fl x (ba' ++ p.b.outq))
    intro m hmm
    exact d.nba m (by rw [hba]; exact List.mem_append_right _ hmm)
  · rcases d.gone with g | g
    · exact Or.inl (hslot g)
    · exact Or.inr g

end Penguin.Pair

namespace Penguin.Pair
open Penguin.Mux

theorem ev_wlog_some {x : Nat} {e : EP} {g : Ghost} {k : Nat} {o : Obj} (h : objView x e k = some o) :
    (ev x e g).wlog k = g.wlog k ∧ (ev x e g).rlog k = g.rlog k ∧ (ev x e g).eof k = g.eof k := by
  simp [ev, h]

/-- `Connect` reaches the accepting side: requested → half-open.  The accepting side's sending
    direction starts in `Link.init` (credit = the window the requester advertised). -/
theorem phase_connect {p : PS} (h : Inv p) (x W port : Nat) (host : Bytes) (rest : List Msg)
    (hba : p.ba = .frame (.connect x W port host) :: rest)
    (r : Requested x (ev x p.b p.gb) (ev x p.a p.ga) (fl x (pathBA p)) (fl x (pathAB p))) :
    Phase x { p with a := (processFrame p.a (.connect x W port host) false).1, ba := rest } := by
  have hsb : lookup p.a.flows x = none := r.sb
  obtain ⟨s1, s2, s3, s4, s5, s6⟩ := processFrame_connect_spec p.a x W port host false r.x0 hsb h.runA.outClosed h.runA.muxAlive
  generalize (processFrame p.a (.connect x W port host) false).1 = e' at *
  -- the connect in the path is the one that was consumed
  obtain ⟨port', host', hfab⟩ := r.fab
  have hhead : fl x (pathBA p) = .frame (.connect x W port host) :: fl x (rest ++ p.b.outq) := by
    show fl x (p.ba ++ p.b.outq) = _
    rw [hba, List.cons_append, fl_cons]
    simp [isFl, Msg.flow?, Frame.id]
  rw [hhead] at hfab
  have hW : W = p.b.opts.rwnd := by
    have := (List.cons.inj hfab).1
    simp only [Msg.frame.injEq, Frame.connect.injEq] at this
    exact this.2.1
  have hT : fl x (rest ++ p.b.outq) = [] := (List.cons.inj hfab).2
  have hov : ∀ k, objView x e' k = if k = p.a.objs.length then some (newObj p.a.opts x W host port) else objView x p.a k :=
    objView_append_new x p.a e' _ s1 rfl
  have hovj : objView x e' p.a.objs.length = some (newObj p.a.opts x W host port) := by rw [hov]; simp
  have hgf := h.ghA p.a.objs.length (Nat.le_refl _)
  apply Or.inr; apply Or.inr; apply Or.inr; apply Or.inr; apply Or.inl
  show HalfOpen x (ev x p.b p.gb) (ev x e' p.ga) (fl x (rest ++ p.b.outq)) (fl x (p.ab ++ e'.outq))
  refine ⟨r.ra, by show ¬ x ∈ e'.rng; rw [s5]; exact r.rb, r.sa, r.oa, r.da, hT,
    ⟨p.a.objs.length, newObj p.a.opts x W host port, [], Link.init p.b.opts.rwnd (thresholdFor p.b.opts p.a.opts.rwnd),
      s2, hovj, ?_, ?_, by simp, ?_, ?_, rfl, rfl, rfl, rfl, ?_, ?_, ?_, fun _ => rfl⟩⟩
  · intro k hk
    show objView x e' k = none
    rw [hov, if_neg hk]; exact r.ob k
  · rw [s3, ← List.append_assoc, fl_append]
    have h0 : fl x (p.ab ++ p.a.outq) = [] := r.fba
    rw [h0]
    show fl x [Msg.frame (Frame.acknowledge x p.a.opts.rwnd)] = [Msg.frame (Frame.acknowledge x e'.opts.rwnd)]
    rw [s6]; simp [fl, isFl, Msg.flow?, Frame.id]
  · show (newObj p.a.opts x W host port).cap = e'.opts.rwnd; rw [s6]; rfl
  · show (newObj p.a.opts x W host port).threshold = thresholdFor e'.opts p.b.opts.rwnd; rw [s6, hW]; rfl
  · rw [(ev_wlog_some hovj).1, hgf.1]
    show DirRel _ (newObj p.b.opts x e'.opts.rwnd [] 0) [] [] [] [] false _
    rw [s6]
    exact ⟨Link.init_inv _ _ h.runB.rwndPos (thresholdFor_le _ _), rfl, h.runB.rwndU32, rfl, by rw [hW]; rfl, rfl, rfl, rfl, rfl,
      rfl, rfl, rfl, rfl, rfl, rfl, fun hh => by cases hh⟩
  · rw [(ev_wlog_some hovj).2.1, hgf.2.1]
  · rw [(ev_wlog_some hovj).2.2, hgf.2.2]

end Penguin.Pair

namespace Penguin.Pair
open Penguin.Mux

/-- `Acknowledge` reaches the requesting side: half-open → linked.  The requester's sending
    direction starts in `Link.init` with the acceptor's window as credit; the acceptor's direction
    continues from where it is. -/
theorem phase_ack {p : PS} (h : Inv p) (x n : Nat) (rest : List Msg)
    (hba : p.ba = .frame (.acknowledge x n) :: rest)
    (r : HalfOpen x (ev x p.a p.ga) (ev x p.b p.gb) (fl x (pathAB p)) (fl x (pathBA p))) :
    Phase x { p with a := (processFrame p.a (.acknowledge x n) false).1, ba := rest } := by
  obtain ⟨req, hsa⟩ := r.sa
  have hsa' : lookup p.a.flows x = some (.requested req) := hsa
  obtain ⟨s1, s2, s3, s4, s5⟩ := processFrame_ack_spec p.a x n req false hsa'
  generalize (processFrame p.a (.acknowledge x n) false).1 = e' at *
  obtain ⟨j, oP, rest', l, h1, h2, h3, h4, h5, h6, h7, h8, h9, h10, h11, h12, h13, h14, h15⟩ := r.body
  have hhead : fl x (pathBA p) = .frame (.acknowledge x n) :: fl x (rest ++ p.b.outq) := by
    show fl x (p.ba ++ p.b.outq) = _
    rw [hba, List.cons_append, fl_cons]
    simp [isFl, Msg.flow?, Frame.id]
  rw [hhead] at h4
  have hn : n = p.b.opts.rwnd := by
    have := (List.cons.inj h4).1
    simp only [Msg.frame.injEq, Frame.acknowledge.injEq] at this
    exact this.2
  have hT : fl x (rest ++ p.b.outq) = rest' := (List.cons.inj h4).2
  have hgf := h.ghA p.a.objs.length (Nat.le_refl _)
  have hfab : fl x (p.ab ++ e'.outq) = [] := by rw [s2]; exact r.fab
  have hopts : (ev x p.b p.gb).opts = p.b.opts := rfl
  have hoptsA : (ev x p.a p.ga).opts = p.a.opts := rfl
  rw [hopts] at h6 h7 h12
  rw [hoptsA] at h7 h12
  apply Or.inr; apply Or.inr; apply Or.inr; apply Or.inr; apply Or.inr; apply Or.inl
  show Linked x (ev x e' p.ga) (ev x p.b p.gb) (fl x (p.ab ++ e'.outq)) (fl x (rest ++ p.b.outq))
  rw [hfab, hT]
  have hacks : rest'.filterMap ackOf = [] := filterMap_ackOf_nil _ (fun m hm => (h5 m hm).2)
  rcases s5 with ⟨so, sd⟩ | ⟨so, sd⟩
  · -- the requester is still waiting: the stream is handed to it
    have hov := objView_append_new x p.a e' _ so rfl
    have hovi : objView x e' p.a.objs.length = some (newObj p.a.opts x n [] 0) := by rw [hov]; simp
    refine ⟨(by show ¬ x ∈ e'.rng; rw [s3]; exact r.ra), r.rb, (by intro m hm; cases hm), fun m hm => (h5 m hm).1,
      ⟨p.a.objs.length, j, newObj p.a.opts x n [] 0, oP, s1, h1, hovi, h2, ?_, h3, by show _ = e'.opts.rwnd; rw [s4]; rfl, h6, ?_⟩⟩
    · intro k hk
      show objView x e' k = none
      rw [hov, if_neg hk]; exact r.oa k
    · intro _ hdb
      rw [(ev_wlog_some hovi).1, (ev_wlog_some hovi).2.1, (ev_wlog_some hovi).2.2, hgf.1, hgf.2.1, hgf.2.2, h13, h14]
      constructor
      · refine ⟨Link.init oP.cap oP.threshold, Link.init_inv _ _ (by rw [h6]; exact h.runB.rwndPos)
          (by rw [h6, h7]; exact thresholdFor_le _ _), rfl, by rw [h6]; exact h.runB.rwndU32, rfl, ?_, rfl, rfl, by rw [h11]; rfl,
          by rw [h8]; rfl, by rw [h9]; rfl, by rw [h10]; rfl, by rw [hacks]; rfl, rfl, rfl, rfl, ?_⟩
        · show oP.cap = n; rw [h6, hn]
        · intro hh; have := h15 hdb; rw [hh] at this; cases this
      · rw [hn]; exact ⟨l, h12⟩
  · -- the requester has given up: the stream is dropped at once (its notification is queued)
    have hov := objView_append_new x p.a e' _ so rfl
    have hovi : objView x e' p.a.objs.length = some { newObj p.a.opts x n [] 0 with rxOpen := false } := by rw [hov]; simp
    refine ⟨(by show ¬ x ∈ e'.rng; rw [s3]; exact r.ra), r.rb, (by intro m hm; cases hm), fun m hm => (h5 m hm).1,
      ⟨p.a.objs.length, j, _, oP, s1, h1, hovi, h2, ?_, h3, by show _ = e'.opts.rwnd; rw [s4]; rfl, h6, ?_⟩⟩
    · intro k hk
      show objView x e' k = none
      rw [hov, if_neg hk]; exact r.oa k
    · intro hda _
      exfalso; apply hda
      show x ∈ e'.droppedq
      rw [sd]; simp

end Penguin.Pair

namespace Penguin.Pair
open Penguin.Mux

theorem noConnect_eff {x : Nat} {p : PS} {e' : EP} (s : Eff (· = x) p.a e') (hra : ¬ x ∈ p.a.rng)
    (hn : noConnect (fl x (pathAB p))) : noConnect (fl x (p.ab ++ e'.outq)) := by
  obtain ⟨em, he, hm⟩ := s.outq
  rw [he, ← List.append_assoc, fl_append]
  intro m hmm
  rcases List.mem_append.mp hmm with h1 | h1
  · exact hn m h1
  · have hmem : m ∈ em := (List.mem_filter.mp h1).1
    have hfl : isFl x m = true := (List.mem_filter.mp h1).2
    have hflow : Msg.flow? m = some x := by simpa [isFl] using hfl
    cases hc : m.isConnect with
    | false => rfl
    | true => exact absurd ((hm m hmem x hflow).2 hc) hra

theorem resets_facts {x : Nat} {em : List Msg} (h : ResetsOf x em) :
    (∀ m ∈ em, Msg.flow? m = some x ∧ m.isConnect = false) ∧ em.filterMap toItem = [] ∧ em.filterMap ackOf = [] := by
  refine ⟨fun m hm => by rw [h m hm]; exact ⟨rfl, rfl⟩, ?_, ?_⟩
  · induction em with
    | nil => rfl
    | cons m rest ih =>
      rw [List.filterMap_cons, h m (by simp)]
      exact ih (fun m' hm' => h m' (List.mem_cons_of_mem _ hm'))
  · induction em with
    | nil => rfl
    | cons m rest ih =>
      rw [List.filterMap_cons, h m (by simp)]
      exact ih (fun m' hm' => h m' (List.mem_cons_of_mem _ hm'))

/-- A frame for a linked flow: the link model's `deliver` / `deliverAck`, or the flow dies. -/
theorem phase_linked_recv {p : PS} (h : Inv p) (f : Frame) (x : Nat) (hid : f.id = x)
    (hflow : Msg.flow? (.frame f) = some x) (rest : List Msg) (hba : p.ba = .frame f :: rest)
    (r : Linked x (ev x p.a p.ga) (ev x p.b p.gb) (fl x (pathAB p)) (fl x (pathBA p))) :
    Phase x { p with a := (processFrame p.a f false).1, ba := rest } := by
  obtain ⟨i, j, oA, oB, h1, h2, h3, h4, h5, h6, _, _, h7⟩ := r.body
  obtain ⟨ho, hfid⟩ := objView_some h3
  have hs : lookup p.a.flows x = some (.established i) := h1
  have hhead : fl x (pathBA p) = [.frame f] ++ fl x (rest ++ p.b.outq) := by
    show fl x (p.ba ++ p.b.outq) = _
    rw [hba, List.cons_append, fl_cons]
    simp [isFl, hflow]
  have hnc : (Msg.frame f).isConnect = false := r.nba _ (by rw [hhead]; simp)
  have s := processFrame_eff p.a f false h.sfA
  rw [hid] at s
  rcases processFrame_est p.a f false x i oA hs ho hid hnc h.runA.outClosed with hnone | ⟨o', em, u, hres, hcls⟩
  · exact Or.inr (Or.inr (Or.inr (Or.inr (Or.inr (Or.inr ⟨fun hh => r.ra (s.rngSub.subset hh), r.rb,
      noConnect_eff (p := p) s r.ra r.nab, fun m hm => r.nba m (by rw [hhead]; exact List.mem_append_right _ hm), Or.inl hnone⟩)))))
  · obtain ⟨hem, hemI, hemA⟩ := resets_facts hres
    have hsame : o'.fid = oA.fid ∧ o'.cap = oA.cap ∧ o'.threshold = oA.threshold := by
      rcases hcls with ⟨n, _, ho', _⟩ | ⟨_, ho', _⟩ | ⟨d, _, ⟨_, _, _, ho', _⟩ | ⟨_, ho'⟩⟩ | ⟨_, ho'⟩
      · subst ho'; unfold Obj.wake; split <;> exact ⟨rfl, rfl, rfl⟩
      all_goals subst ho'; exact ⟨rfl, rfl, rfl⟩
    refine phase_upd (g' := p.ga) (ba' := rest) (hd := [.frame f]) (h.phase x) u ho hfid (by rw [hsame.1, hfid]) hem
      hhead rfl ?_ ?_ (fun hd0 => by cases hd0) ⟨hsame.2.1, hsame.2.2⟩ (by simp)
    · -- `a` in the sending role: only an `Acknowledge` matters
      intro oR fwd bwd rr eof l dr
      rcases hcls with ⟨n, hf, ho', hem0⟩ | ⟨hf, ho', hem0⟩ | ⟨d, hf, ⟨_, _, _, ho', hem0⟩ | ⟨_, ho'⟩⟩ | ⟨hf, ho'⟩
      · subst hf; subst ho'; subst hem0
        rw [List.append_nil]
        exact ⟨_, dr.deliverAck x n⟩
      · subst hf; subst ho'; subst hem0
        exact ⟨l, dr.congr rfl rfl rfl rfl rfl rfl rfl rfl (by simp [List.filterMap_cons]) (by simp [List.filterMap_cons]) rfl rfl rfl rfl⟩
      · subst hf; subst ho'; subst hem0
        exact ⟨l, dr.congr rfl rfl rfl rfl rfl rfl rfl rfl (by simp [List.filterMap_cons]) (by simp [List.filterMap_cons]) rfl rfl rfl rfl⟩
      · subst hf; subst ho'
        exact ⟨l, dr.congr rfl rfl rfl rfl rfl rfl rfl rfl (by rw [List.filterMap_append, hemI]; simp) (by simp [List.filterMap_cons]) rfl rfl rfl rfl⟩
      · subst ho'
        refine ⟨l, dr.congr rfl rfl rfl rfl rfl rfl rfl rfl (by rw [List.filterMap_append, hemI]; simp) ?_ rfl rfl rfl rfl⟩
        rcases hf with ⟨bt, port, host, hf⟩ | ⟨port, host, d, hf⟩ <;> subst hf <;> simp [ackOf, List.filterMap_cons]
    · -- `a` in the receiving role: `Push` and `Finish` matter
      intro _ oS fwd bwd w l dr
      rcases hcls with ⟨n, hf, ho', hem0⟩ | ⟨hf, ho', hem0⟩ | ⟨d, hf, ⟨_, _, _, ho', hem0⟩ | ⟨hnot, ho'⟩⟩ | ⟨hf, ho'⟩
      · subst hf; subst ho'; subst hem0
        refine ⟨l, dr.congr rfl rfl ?_ ?_ ?_ ?_ ?_ ?_ (by simp [List.filterMap_cons]) (by simp) rfl rfl rfl ?_⟩
        all_goals (unfold Obj.wake; split <;> rfl)
      · subst hf; subst ho'; subst hem0
        rw [List.append_nil]
        exact ⟨_, dr.deliverFinish x⟩
      · subst hf; subst ho'; subst hem0
        rw [List.append_nil]
        exact ⟨_, (dr.deliverPush x d).2.2⟩
      · subst hf
        exfalso; apply hnot
        have ha := (dr.deliverPush x d).1
        refine ⟨ha, ?_⟩
        cases hr : oA.rxOpen with
        | true => rfl
        | false => have := dr.hrx hr; rw [ha] at this; cases this
      · subst ho'
        refine ⟨l, dr.congr rfl rfl rfl rfl rfl rfl rfl rfl ?_ (by rw [List.filterMap_append, hemA]; simp) rfl rfl rfl rfl⟩
        rcases hf with ⟨bt, port, host, hf⟩ | ⟨port, host, d, hf⟩ <;> subst hf <;> simp [toItem, List.filterMap_cons]

/-- The receive loop processes one frame. -/
theorem inv_recv {p : PS} (h : Inv p) (f : Frame) (rest : List Msg) (hba : p.ba = .frame f :: rest) :
    Inv { p with a := (processFrame p.a f false).1, ba := rest } := by
  have hgf : ∀ {Y : Nat → Prop}, Eff Y p.a (processFrame p.a f false).1 → GhostFresh (processFrame p.a f false).1 p.ga :=
    fun s k hk => h.ghA k (Nat.le_trans s.len hk)
  cases hfl : Msg.flow? (.frame f) with
  | none =>
    have s : Eff (fun _ => False) p.a (processFrame p.a f false).1 := by
      cases f with
      | datagram fid port host d => exact processFrame_dgram_eff _ _ _ _ _ _
      | _ => simp [Msg.flow?] at hfl
    exact inv_of_eff (g' := p.ga) (ba' := rest) h s (Or.inr ⟨_, hba, fun y hy => by rw [hfl] at hy; cases hy⟩)
      (fun x _ => GhostAgree.refl x _ _) (hgf s) (fun x hx => absurd hx id)
  | some x =>
    have hid : f.id = x := (flow_eq hfl).symm
    have s := processFrame_eff p.a f false h.sfA
    rw [hid] at s
    refine inv_of_eff (g' := p.ga) (ba' := rest) h s (Or.inr ⟨_, hba, fun y hy => by rw [hfl] at hy; cases hy; rfl⟩)
      (fun x _ => GhostAgree.refl x _ _) (hgf s) ?_
    intro x' hx'
    subst hx'
    have hhead : fl x' (pathBA p) = .frame f :: fl x' (rest ++ p.b.outq) := by
      show fl x' (p.ba ++ p.b.outq) = _
      rw [hba, List.cons_append, fl_cons]
      simp [isFl, hfl]
    rcases h.phase x' with r | r | r | r | r | r | r
    · have := r.fba; rw [hhead] at this; cases this
    · have := r.fba; rw [hhead] at this; cases this
    · obtain ⟨port, host, hc⟩ := r.fab
      rw [hhead] at hc
      have hf : f = .connect x' p.b.opts.rwnd port host := by
        have := (List.cons.inj hc).1; simpa [ev] using this
      subst hf
      exact phase_connect h x' _ port host rest hba r
    · obtain ⟨j, oP, rest', l, _, _, _, h4, _⟩ := r.body
      rw [hhead] at h4
      have hf : f = .acknowledge x' p.b.opts.rwnd := by
        have := (List.cons.inj h4).1; simpa [ev] using this
      subst hf
      exact phase_ack h x' _ rest hba r
    · have := r.fab; rw [hhead] at this; cases this
    · exact phase_linked_recv h f x' hid hfl rest hba r
    · have hnc : (Msg.frame f).isConnect = false := r.nba _ (by rw [hhead]; simp)
      exact dead_step (hd := [.frame f]) r s (by rw [hhead]; rfl)
        (fun hn => processFrame_none_stays p.a f false x' hn hid hnc)

end Penguin.Pair
