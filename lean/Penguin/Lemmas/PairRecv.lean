/-
The receive loop processes the oldest message in transit: the step preserves the invariant of the
pair model.  This is where the handshake is established: `Connect` takes a flow from *requested* to
*half-open* (the accepting side creates its object, the link model starts at `Link.init`),
`Acknowledge` from *half-open* to *linked*.  On a linked flow `Push`, `Finish` and `Acknowledge` are
the link model's `deliver` / `deliverAck` steps.
-/
import Penguin.Lemmas.PairApp

namespace Penguin.Mux

theorem thresholdFor_le (o : Opts) (w : Nat) : thresholdFor o w ≤ o.rwnd := by
  unfold thresholdFor; omega

@[simp] theorem offerAccept_droppedq (e : EP) (i : Nat) : (offerAccept e i).droppedq = e.droppedq := by
  unfold offerAccept; split <;> rfl
@[simp] theorem offerAccept_rng (e : EP) (i : Nat) : (offerAccept e i).rng = e.rng := by
  unfold offerAccept; split <;> rfl
@[simp] theorem offerAccept_opts (e : EP) (i : Nat) : (offerAccept e i).opts = e.opts := by
  unfold offerAccept; split <;> rfl

/-- `Connect` on a free non-zero id at a running endpoint: everything the flow's view depends on. -/
theorem processFrame_connect_spec (e : EP) (fid rwnd port : Nat) (host : Bytes) (ig : Bool)
    (h0 : fid ≠ 0) (hfree : lookup e.flows fid = none) (hoc : e.outClosed = false) (hm : e.muxAlive = true) :
    let e' := (processFrame e (.connect fid rwnd port host) ig).1
    e'.objs = e.objs ++ [newObj e.opts fid rwnd host port] ∧
    lookup e'.flows fid = some (.established e.objs.length) ∧
    e'.outq = e.outq ++ [.frame (.acknowledge fid e.opts.rwnd)] ∧
    e'.droppedq = e.droppedq ∧ e'.rng = e.rng ∧ e'.opts = e.opts := by
  have hnot : ¬ (fid = 0 ∨ (lookup e.flows fid).isSome = true) := by simp [h0, hfree]
  simp only [processFrame, hnot, if_false, hoc, hm, EP.enqFrame, enq_outq, enq_muxAlive]
  simp [offerAccept_objs, offerAccept_flows, offerAccept_outq, lookup_insert_self, enq_outq, hoc]

theorem modify_append_last {α : Type} (l : List α) (a : α) (f : α → α) :
    (l ++ [a]).modify l.length f = l ++ [f a] := by
  induction l with
  | nil => rfl
  | cons x xs ih => simp [List.modify_cons, ih]

/-- `Acknowledge` on a requested slot: the object is created; if the requester has given up it is
    dropped at once (its notification is queued). -/
theorem processFrame_ack_spec (e : EP) (fid n req : Nat) (ig : Bool)
    (hs : lookup e.flows fid = some (.requested req)) :
    let e' := (processFrame e (.acknowledge fid n) ig).1
    lookup e'.flows fid = some (.established e.objs.length) ∧ e'.outq = e.outq ∧ e'.rng = e.rng ∧ e'.opts = e.opts ∧
    ((e'.objs = e.objs ++ [newObj e.opts fid n [] 0] ∧ e'.droppedq = e.droppedq) ∨
     (e'.objs = e.objs ++ [{ newObj e.opts fid n [] 0 with rxOpen := false }] ∧ e'.droppedq = e.droppedq ++ [fid])) := by
  simp only [processFrame, hs]
  cases hf : e.opens.find? (·.req = req) with
  | some r => simp [lookup_insert_self]
  | none =>
    simp only
    refine ⟨?_, rfl, rfl, rfl, Or.inr ⟨?_, trivial⟩⟩
    · show lookup (insert e.flows fid (Slot.established e.objs.length)) fid = _
      exact lookup_insert_self _ _ _
    · show setObj (e.objs ++ [newObj e.opts fid n [] 0]) e.objs.length _ = _
      exact modify_append_last _ _ _

theorem processFrame_dgram_eff (e : EP) (fid port : Nat) (host d : Bytes) (ig : Bool) :
    Eff (fun _ => False) e (processFrame e (.datagram fid port host d) ig).1 := by
  simp only [processFrame]
  repeat' split
  all_goals first | exact Eff.refl _ e | exact Eff.silent rfl rfl rfl rfl rfl rfl rfl rfl rfl

end Penguin.Mux

namespace Penguin.Pair
open Penguin.Mux

theorem filterMap_ackOf_nil (l : List Msg) (h : ∀ m ∈ l, ackOf m = none) : l.filterMap ackOf = [] := by
  induction l with
  | nil => rfl
  | cons m rest ih =>
    rw [List.filterMap_cons, h m (by simp)]
    exact ih (fun m' hm' => h m' (List.mem_cons_of_mem _ hm'))

theorem objView_append_new (x : Nat) (e e' : EP) (o' : Obj) (h : e'.objs = e.objs ++ [o']) (hf : o'.fid = x) (k : Nat) :
    objView x e' k = if k = e.objs.length then some o' else objView x e k := by
  unfold objView
  rw [h]
  by_cases hk : k = e.objs.length
  · subst hk; simp [hf]
  · rw [if_neg hk]
    rcases Nat.lt_or_ge k e.objs.length with h1 | h1
    · rw [List.getElem?_append_left h1]
    · have h2 : e.objs.length < k := by omega
      have : (e.objs ++ [o'])[k]? = none := by
        rw [List.getElem?_eq_none]; simp; omega
      rw [this, List.getElem?_eq_none h1]

/-- A dead flow stays dead under any step of `a` that does not hand it a slot. -/
theorem dead_step {x : Nat} {p : PS} {e' : EP} {g' : Ghost} {ba' : List Msg} {hd : List Msg} {lk' : List Nat}
    (d : Dead x (ev x p.a p.ga) (ev x p.b p.gb) (fl x (pathAB p)) (fl x (pathBA p)))
    (s : Eff (· = x) p.a e') (hba : fl x (pathBA p) = hd ++ fl x (ba' ++ p.b.outq))
    (hslot : lookup p.a.flows x = none → lookup e'.flows x = none)
    (hrst : ¬ noReset hd → lookup e'.flows x = none) :
    Phase x { p with a := e', ga := g', ba := ba', linked := lk' } := by
  obtain ⟨em, he, hm⟩ := s.outq
  have hra : ¬ x ∈ p.a.rng := d.ra
  refine Or.inr (Or.inr (Or.inr (Or.inr (Or.inr (Or.inr ⟨?_, d.rb, ?_, ?_, ?_⟩)))))
  · show ¬ x ∈ e'.rng
    exact fun hh => hra (s.rngSub.subset hh)
  · show noConnect (fl x (p.ab ++ e'.outq))
    rw [he, ← List.append_assoc, fl_append]
    intro m hmm
    rcases List.mem_append.mp hmm with h1 | h1
    · exact d.nab m h1
    · have hmem : m ∈ em := (List.mem_filter.mp h1).1
      have hfl : isFl x m = true := (List.mem_filter.mp h1).2
      have hflow : Msg.flow? m = some x := by simpa [isFl] using hfl
      cases hc : m.isConnect with
      | false => rfl
      | true => exact absurd ((hm m hmem x hflow).2 hc) hra
  · show noConnect (fl x (ba' ++ p.b.outq))
    intro m hmm
    exact d.nba m (by rw [hba]; exact List.mem_append_right _ hmm)
  · rcases d.gone with g | g | g | g
    · exact Or.inl (hslot g)
    · exact Or.inr (Or.inl g)
    · right; right; left
      show ¬ noReset (fl x (p.ab ++ e'.outq))
      intro hh; apply g
      intro m hmm
      apply hh m
      rw [he, ← List.append_assoc, fl_append]
      exact List.mem_append_left _ hmm
    · by_cases hh : noReset hd
      · right; right; right
        show ¬ noReset (fl x (ba' ++ p.b.outq))
        intro h2; apply g
        rw [hba]
        intro m hmm
        rcases List.mem_append.mp hmm with h1 | h1
        · exact hh m h1
        · exact h2 m h1
      · exact Or.inl (hrst hh)

theorem ev_wlog_some {x : Nat} {e : EP} {g : Ghost} {k : Nat} {o : Obj} (h : objView x e k = some o) :
    (ev x e g).wlog k = g.wlog k ∧ (ev x e g).rlog k = g.rlog k ∧ (ev x e g).eof k = g.eof k := by
  simp [ev, h]

/-- `Connect` reaches the accepting side: requested → half-open.  The accepting side's sending
    direction starts in `Link.init` (credit = the window the requester advertised). -/
theorem phase_connect {p : PS} (h : InvCore p) (x W port : Nat) (host : Bytes) (rest : List Msg) {lk' : List Nat}
    (hba : p.ba = .frame (.connect x W port host) :: rest)
    (r : Requested x (ev x p.b p.gb) (ev x p.a p.ga) (fl x (pathBA p)) (fl x (pathAB p))) :
    Phase x { p with a := (processFrame p.a (.connect x W port host) false).1, ba := rest, linked := lk' } := by
  have hsb : lookup p.a.flows x = none := r.sb
  obtain ⟨s1, s2, s3, s4, s5, s6⟩ := processFrame_connect_spec p.a x W port host false r.x0 hsb h.runA.outClosed h.runA.muxAlive
  generalize (processFrame p.a (.connect x W port host) false).1 = e' at *
  obtain ⟨port', host', hfab⟩ := r.fab
  have hhead : fl x (pathBA p) = .frame (.connect x W port host) :: fl x (rest ++ p.b.outq) := by
    show fl x (p.ba ++ p.b.outq) = _
    rw [hba, List.cons_append, fl_cons]
    simp [isFl, Msg.flow?, Frame.id]
  rw [hhead] at hfab
  have hW : W = p.b.opts.rwnd := by
    have := (List.cons.inj hfab).1
    simp only [Msg.frame.injEq, Frame.connect.injEq] at this
    exact this.2.1
  have hT : fl x (rest ++ p.b.outq) = [] := (List.cons.inj hfab).2
  have hov : ∀ k, objView x e' k = if k = p.a.objs.length then some (newObj p.a.opts x W host port) else objView x p.a k :=
    objView_append_new x p.a e' _ s1 rfl
  have hovj : objView x e' p.a.objs.length = some (newObj p.a.opts x W host port) := by rw [hov]; simp
  have hgf := h.ghA p.a.objs.length (Nat.le_refl _)
  have hndq : ¬ x ∈ e'.droppedq := by rw [s4]; exact r.db
  apply Or.inr; apply Or.inr; apply Or.inr; apply Or.inr; apply Or.inl
  show HalfOpen x (ev x p.b p.gb) (ev x e' p.ga) (fl x (rest ++ p.b.outq)) (fl x (p.ab ++ e'.outq))
  refine ⟨r.ra, by show ¬ x ∈ e'.rng; rw [s5]; exact r.rb, r.sa, r.oa, r.da, hT,
    ⟨p.a.objs.length, newObj p.a.opts x W host port, [], Link.init p.b.opts.rwnd (thresholdFor p.b.opts p.a.opts.rwnd),
      s2, hovj, ?_, ?_, by simp, ?_, ?_, rfl, rfl, rfl, rfl, ?_, ?_, ?_, fun _ => rfl, (by intro m hm; cases hm), rfl,
      (fun hh => by cases hh), fun hh => absurd hh hndq⟩⟩
  · intro k hk
    show objView x e' k = none
    rw [hov, if_neg hk]; exact r.ob k
  · rw [s3, ← List.append_assoc, fl_append]
    have h0 : fl x (p.ab ++ p.a.outq) = [] := r.fba
    rw [h0]
    show fl x [Msg.frame (Frame.acknowledge x p.a.opts.rwnd)] = [Msg.frame (Frame.acknowledge x e'.opts.rwnd)]
    rw [s6]; simp [fl, isFl, Msg.flow?, Frame.id]
  · show (newObj p.a.opts x W host port).cap = e'.opts.rwnd; rw [s6]; rfl
  · show (newObj p.a.opts x W host port).threshold = thresholdFor e'.opts p.b.opts.rwnd; rw [s6, hW]; rfl
  · rw [(ev_wlog_some hovj).1, hgf.1]
    show DirRel _ (newObj p.b.opts x e'.opts.rwnd [] 0) [] [] [] [] false _
    rw [s6]
    exact ⟨Link.init_inv _ _ h.runB.rwndPos (thresholdFor_le _ _), rfl, h.runB.rwndU32, rfl, by rw [hW]; rfl, rfl, rfl, rfl, rfl,
      rfl, rfl, rfl, rfl, rfl, rfl, fun hh => by cases hh⟩
  · rw [(ev_wlog_some hovj).2.1, hgf.2.1]
  · rw [(ev_wlog_some hovj).2.2, hgf.2.2]

/-- `Acknowledge` reaches the requesting side: half-open → linked.  The requester's sending
    direction starts in `Link.init` with the acceptor's window as credit; the acceptor's direction
    continues from where it is. -/
theorem phase_ack {p : PS} (h : InvCore p) (x n : Nat) (rest : List Msg)
    (hba : p.ba = .frame (.acknowledge x n) :: rest)
    (r : HalfOpen x (ev x p.a p.ga) (ev x p.b p.gb) (fl x (pathAB p)) (fl x (pathBA p))) :
    Linked x (ev x (processFrame p.a (.acknowledge x n) false).1 p.ga) (ev x p.b p.gb)
      (fl x (p.ab ++ (processFrame p.a (.acknowledge x n) false).1.outq)) (fl x (rest ++ p.b.outq)) := by
  obtain ⟨req, hsa⟩ := r.sa
  have hsa' : lookup p.a.flows x = some (.requested req) := hsa
  obtain ⟨s1, s2, s3, s4, s5⟩ := processFrame_ack_spec p.a x n req false hsa'
  generalize (processFrame p.a (.acknowledge x n) false).1 = e' at *
  obtain ⟨j, oP, rest', l, h1, h2, h3, h4, h5, h6, h7, h8, h9, h10, h11, h12, h13, h14, h15, h16, h17, h18, h19⟩ := r.body
  have hhead : fl x (pathBA p) = .frame (.acknowledge x n) :: fl x (rest ++ p.b.outq) := by
    show fl x (p.ba ++ p.b.outq) = _
    rw [hba, List.cons_append, fl_cons]
    simp [isFl, Msg.flow?, Frame.id]
  rw [hhead] at h4
  have hn : n = p.b.opts.rwnd := by
    have := (List.cons.inj h4).1
    simp only [Msg.frame.injEq, Frame.acknowledge.injEq] at this
    exact this.2
  have hT : fl x (rest ++ p.b.outq) = rest' := (List.cons.inj h4).2
  have hgf := h.ghA p.a.objs.length (Nat.le_refl _)
  have hfab : fl x (p.ab ++ e'.outq) = [] := by rw [s2]; exact r.fab
  have hopts : (ev x p.b p.gb).opts = p.b.opts := rfl
  have hoptsA : (ev x p.a p.ga).opts = p.a.opts := rfl
  rw [hopts] at h6 h7 h12
  rw [hoptsA] at h7 h12
  rw [hfab, hT]
  have hacks : rest'.filterMap ackOf = [] := filterMap_ackOf_nil _ (fun m hm => (h5 m hm).2)
  have hslA : (ev x e' p.ga).slot = some (.established p.a.objs.length) := s1
  have hneA : (ev x e' p.ga).slot ≠ none := by rw [hslA]; intro hh; cases hh
  have hneB : (ev x p.b p.gb).slot ≠ none := by rw [h1]; intro hh; cases hh
  -- the claim for the requester's sending direction, for either shape of the new object
  have claimAB : ∀ oA : Obj, oA.credit = n → oA.finishSent = false →
      Claim (ev x e' p.ga).slot oA oP [] rest' [] ((ev x p.b p.gb).rlog j) ((ev x p.b p.gb).eof j) := by
    intro oA hc hf hrok
    refine ⟨fun _ => ?_, fun hh => absurd hh hneA⟩
    have hrx : oP.rxOpen = true := by
      rcases hrok with hh | hh
      · exact hh
      · rw [h14] at hh; cases hh
    rw [h13, h14]
    refine ⟨Link.init oP.cap oP.threshold, Link.init_inv _ _ (by rw [h6]; exact h.runB.rwndPos)
      (by rw [h6, h7]; exact thresholdFor_le _ _), rfl, by rw [h6]; exact h.runB.rwndU32, rfl, ?_, by rw [hf]; rfl, rfl,
      by rw [h11]; rfl, by rw [h8]; rfl, by rw [h9]; rfl, by rw [h10]; rfl, by rw [hacks]; rfl, rfl, rfl, rfl, ?_⟩
    · show oP.cap = oA.credit; rw [hc, h6, hn]
    · intro hh; rw [hrx] at hh; cases hh
  have wireAB : ∀ oA : Obj, Wire oA oP (ev x p.b p.gb).slot [] :=
    fun oA => ⟨rfl, fun hh => (by cases hh), fun _ hal => (by rw [h11] at hal; cases hal)⟩
  rcases s5 with ⟨so, sd⟩ | ⟨so, sd⟩
  · -- the requester is still waiting: the stream is handed to it
    have hov := objView_append_new x p.a e' _ so rfl
    have hovi : objView x e' p.a.objs.length = some (newObj p.a.opts x n [] 0) := by rw [hov]; simp
    have hndq : ¬ x ∈ e'.droppedq := by rw [sd]; exact r.da
    refine ⟨(by show ¬ x ∈ e'.rng; rw [s3]; exact r.ra), r.rb, (by intro m hm; cases hm), fun m hm => (h5 m hm).1,
      ⟨p.a.objs.length, j, newObj p.a.opts x n [] 0, oP, hovi, h2, ?_, h3, by show _ = e'.opts.rwnd; rw [s4]; rfl, h6,
        Or.inl s1, Or.inl h1, fun _ => (by intro m hm; cases hm), fun _ => h16, wireAB _, ?_,
        fun hh => absurd hh hndq, h19, ?_, ?_⟩⟩
    · intro k hk
      show objView x e' k = none
      rw [hov, if_neg hk]; exact r.oa k
    · exact ⟨h17, h18, fun _ hal => (by cases hal)⟩
    · rw [(ev_wlog_some hovi).1, hgf.1]; exact claimAB _ rfl rfl
    · intro _
      rw [(ev_wlog_some hovi).2.1, (ev_wlog_some hovi).2.2, hgf.2.1, hgf.2.2]
      refine ⟨fun _ => ?_, fun hh => absurd hh hneB⟩
      rw [hn]; exact ⟨l, h12⟩
  · -- the requester has given up: the stream is dropped at once (its notification is queued)
    have hov := objView_append_new x p.a e' _ so rfl
    have hovi : objView x e' p.a.objs.length = some { newObj p.a.opts x n [] 0 with rxOpen := false } := by rw [hov]; simp
    refine ⟨(by show ¬ x ∈ e'.rng; rw [s3]; exact r.ra), r.rb, (by intro m hm; cases hm), fun m hm => (h5 m hm).1,
      ⟨p.a.objs.length, j, _, oP, hovi, h2, ?_, h3, by show _ = e'.opts.rwnd; rw [s4]; rfl, h6,
        Or.inl s1, Or.inl h1, fun _ => (by intro m hm; cases hm), fun _ => h16, wireAB _, ?_,
        fun _ => rfl, h19, ?_, ?_⟩⟩
    · intro k hk
      show objView x e' k = none
      rw [hov, if_neg hk]; exact r.oa k
    · exact ⟨h17, h18, fun _ hal => (by cases hal)⟩
    · rw [(ev_wlog_some hovi).1, hgf.1]; exact claimAB _ rfl rfl
    · intro hrok
      rw [(ev_wlog_some hovi).2.2, hgf.2.2] at hrok
      rcases hrok with hh | hh <;> cases hh

theorem noConnect_eff {x : Nat} {p : PS} {e' : EP} (s : Eff (· = x) p.a e') (hra : ¬ x ∈ p.a.rng)
    (hn : noConnect (fl x (pathAB p))) : noConnect (fl x (p.ab ++ e'.outq)) := by
  obtain ⟨em, he, hm⟩ := s.outq
  rw [he, ← List.append_assoc, fl_append]
  intro m hmm
  rcases List.mem_append.mp hmm with h1 | h1
  · exact hn m h1
  · have hmem : m ∈ em := (List.mem_filter.mp h1).1
    have hfl : isFl x m = true := (List.mem_filter.mp h1).2
    have hflow : Msg.flow? m = some x := by simpa [isFl] using hfl
    cases hc : m.isConnect with
    | false => rfl
    | true => exact absurd ((hm m hmem x hflow).2 hc) hra

theorem resets_facts {x : Nat} {em : List Msg} (h : ResetsOf x em) :
    (∀ m ∈ em, Msg.flow? m = some x ∧ m.isConnect = false) ∧ em.filterMap ackOf = [] ∧
    Link.pushes (em.filterMap toItem) = [] := by
  refine ⟨fun m hm => by rw [h m hm]; exact ⟨rfl, rfl⟩, ?_, ?_⟩
  · induction em with
    | nil => rfl
    | cons m rest ih =>
      rw [List.filterMap_cons, h m (by simp)]
      exact ih (fun m' hm' => h m' (List.mem_cons_of_mem _ hm'))
  · induction em with
    | nil => rfl
    | cons m rest ih =>
      rw [List.filterMap_cons, h m (by simp)]
      simp only [toItem_reset, Link.pushes_rst]
      exact ih (fun m' hm' => h m' (List.mem_cons_of_mem _ hm'))

end Penguin.Pair

namespace Penguin.Pair
open Penguin.Mux

theorem disallowWrite_fields (o : Obj) :
    o.disallowWrite.finishSent = true ∧ o.disallowWrite.fid = o.fid ∧ o.disallowWrite.cap = o.cap ∧
    o.disallowWrite.threshold = o.threshold ∧ o.disallowWrite.rxq = o.rxq ∧ o.disallowWrite.buf = o.buf ∧
    o.disallowWrite.recvdSince = o.recvdSince ∧ o.disallowWrite.rxOpen = o.rxOpen ∧
    o.disallowWrite.senderAlive = o.senderAlive ∧ o.disallowWrite.credit = o.credit := by
  unfold Obj.disallowWrite Obj.wake
  split <;> exact ⟨rfl, rfl, rfl, rfl, rfl, rfl, rfl, rfl, rfl, rfl⟩

/-- What was consumed from the incoming path when endpoint `a` released the flow. -/
inductive RelCase (y : Nat) (o : Obj) (em hd : List Msg) : Prop where
  | notif (h1 : hd = []) (h2 : o.rxOpen = false) (h3 : o.finishSent = false → em = [.frame (.reset y)])
  | reset (h1 : hd = [.frame (.reset y)]) (h2 : em = [])
  | overrun (d : Bytes) (h1 : hd = [.frame (.push y d)]) (h2 : o.senderAlive = true) (h3 : o.rxOpen = true)
      (h4 : ¬ o.rxq.length < o.cap) (h5 : o.finishSent = false → em = [.frame (.reset y)])

/-- Endpoint `a` releases a live flow (its handle was dropped, the peer's `Reset` arrived, or — never,
    between conforming endpoints — the window was overrun): the flow stays live; `a`'s sending
    direction continues as the frozen-sender relation (`Link.step .abort` if a `Reset` goes out). -/
theorem linked_release {p : PS} {e' : EP} {i y : Nat} {o : Obj} {em hd fbaT ba' : List Msg}
    (r : Linked y (ev y p.a p.ga) (ev y p.b p.gb) (fl y (pathAB p)) (hd ++ fbaT))
    (hs : lookup p.a.flows y = some (.established i)) (ho : p.a.objs[i]? = some o) (hoy : o.fid = y)
    (hflows : lookup e'.flows y = none) (hrng : e'.rng = p.a.rng) (hopts : e'.opts = p.a.opts)
    (hothers : ∀ k, k ≠ i → e'.objs[k]? = p.a.objs[k]?)
    (hself : e'.objs[i]? = some { o.disallowWrite with senderAlive := false })
    (houtq : e'.outq = p.a.outq ++ em) (hdq : y ∈ e'.droppedq → y ∈ p.a.droppedq)
    (hem : em = [] ∨ (em = [.frame (.reset y)] ∧ o.finishSent = false))
    (hcase : RelCase y o em hd) (hba2 : fl y (ba' ++ p.b.outq) = fbaT) :
    Linked y (ev y e' p.ga) (ev y p.b p.gb) (fl y (p.ab ++ e'.outq)) (fl y (ba' ++ p.b.outq)) := by
  obtain ⟨f1, f2, f3, f4, f5, f6, f7, f8, f9, f10⟩ := disallowWrite_fields o
  obtain ⟨i0, j, oA, oB, h3, h4, h5, h6, c1, c2, s1, s2, n1, n2, w1, w2, q1, q2, k1, k2⟩ := r.body
  have hov := objView_self ho hoy
  have hi0 : i0 = i := by
    rcases Nat.decEq i i0 with hne | he
    · have := h5 i hne; rw [show (ev y p.a p.ga).objs i = objView y p.a i from rfl, hov] at this; cases this
    · exact he.symm
  subst hi0
  have hoA : oA = o := by
    rw [show (ev y p.a p.ga).objs i0 = objView y p.a i0 from rfl, hov] at h3; cases h3; rfl
  subst hoA
  have hslA : (ev y p.a p.ga).slot = some (.established i0) := hs
  have hneA : (ev y p.a p.ga).slot ≠ none := by rw [hslA]; intro hh; cases hh
  have hslA' : (ev y e' p.ga).slot = none := hflows
  have hov' : objView y e' i0 = some { oA.disallowWrite with senderAlive := false } := objView_self hself (by show oA.disallowWrite.fid = y; rw [f2]; exact hoy)
  have honly' : OnlyObj (ev y e' p.ga) i0 := by
    intro k hk
    show objView y e' k = none
    have := h5 k hk
    simp only [objView, hothers k hk]
    exact this
  have hemfl : ∀ m ∈ em, Msg.flow? m = some y := by
    intro m hm
    rcases hem with he | ⟨he, _⟩ <;> rw [he] at hm
    · cases hm
    · simp at hm; subst hm; rfl
  have hfl : fl y (p.ab ++ e'.outq) = fl y (pathAB p) ++ em := by
    rw [houtq, ← List.append_assoc, fl_append, fl_self y em hemfl]; rfl
  have hitems : (fl y (pathAB p) ++ em).filterMap toItem =
      (fl y (pathAB p)).filterMap toItem ++ (if em = [] then [] else [.rst]) := by
    rw [List.filterMap_append]
    rcases hem with he | ⟨he, _⟩ <;> rw [he] <;> simp
  have hwl : (ev y e' p.ga).wlog i0 = p.ga.wlog i0 := by simp [ev, hov']
  have hrl : (ev y e' p.ga).rlog i0 = p.ga.rlog i0 := by simp [ev, hov']
  have hel : (ev y e' p.ga).eof i0 = p.ga.eof i0 := by simp [ev, hov']
  have hwl0 : (ev y p.a p.ga).wlog i0 = p.ga.wlog i0 := by simp [ev, hov]
  have hrl0 : (ev y p.a p.ga).rlog i0 = p.ga.rlog i0 := by simp [ev, hov]
  have hel0 : (ev y p.a p.ga).eof i0 = p.ga.eof i0 := by simp [ev, hov]
  have hsplit : (hd ++ fbaT).filterMap toItem = hd.filterMap toItem ++ fbaT.filterMap toItem := List.filterMap_append
  have hbnone_reset : (∃ y', Msg.frame (Frame.reset y') ∈ hd) → (ev y p.b p.gb).slot = none := by
    intro ⟨y', hm⟩
    cases hb : (ev y p.b p.gb).slot with
    | none => rfl
    | some sb =>
      have := n2 (by rw [hb]; intro hh; cases hh) (.frame (.reset y')) (List.mem_append_left _ hm) y'
      exact absurd rfl this
  rw [hfl, hba2]
  refine ⟨by show ¬ y ∈ e'.rng; rw [hrng]; exact r.ra, r.rb, ?_, fun m hm => r.nba m (List.mem_append_right _ hm),
    ⟨i0, j, _, oB, hov', h4, honly', h6, by show oA.disallowWrite.cap = e'.opts.rwnd; rw [f3, hopts]; exact c1, c2,
      Or.inr ⟨hslA', f1, rfl⟩, s2, fun hne => absurd hslA' hne,
      fun hne m hm => n2 hne m (List.mem_append_right _ hm), ?_, ?_, ?_, q2, ?_, ?_⟩⟩
  · -- no Connect
    intro m hm
    rcases List.mem_append.mp hm with h1 | h1
    · exact r.nab m h1
    · rcases hem with he | ⟨he, _⟩ <;> rw [he] at h1
      · cases h1
      · simp at h1; subst h1; rfl
  · -- wire a → b
    refine ⟨?_, fun _ => f1, fun hne hal => ?_⟩
    · rw [hitems]
      refine npae_append _ _ w1.shape (by split <;> rfl) (fun _ => by split <;> rfl)
    · obtain ⟨z1, _⟩ := w1.quiet hne hal
      rw [hitems, Link.pushes_append, z1]
      exact ⟨by split <;> rfl, f1⟩
  · -- wire b → a (the receiving slot is gone)
    refine ⟨?_, ?_, fun hne => absurd hslA' hne⟩
    · have := w2.shape; rw [hsplit] at this; exact npae_suffix _ _ this
    · intro he; apply w2.ended; rw [hsplit, Link.hasEnd_append, he]; simp
  · intro hh; rw [show oA.disallowWrite.rxOpen = oA.rxOpen from f8]; exact q1 (hdq hh)
  · -- direction a → b: the sender is released
    intro hrok
    obtain ⟨ka, _⟩ := k1 hrok
    obtain ⟨l1, d1⟩ := ka hneA
    rw [hwl0] at d1
    rw [hwl]
    refine ⟨fun hne => absurd hslA' hne, fun _ => ?_⟩
    rcases hem with he | ⟨he, hf⟩
    · subst he
      rw [List.append_nil]
      by_cases hf : oA.finishSent = true
      · exact ⟨l1, d1.release_quiet hf⟩
      · have hf' : oA.finishSent = false := by simpa using hf
        -- nothing was emitted although the sender was still open: the peer's Reset was consumed
        cases hcase with
        | notif _ _ e3 => have := e3 hf'; cases this
        | overrun d _ _ _ _ e5 => have := e5 hf'; cases this
        | reset e1 _ =>
          have hbn := hbnone_reset ⟨y, by rw [e1]; simp⟩
          have hal : oB.senderAlive = false := by
            rcases s2 with s2 | ⟨_, _, s2⟩
            · rw [hbn] at s2; cases s2
            · exact s2
          exact d1.release_inhibit hal
    · subst he
      exact ⟨_, d1.release_reset y hf⟩
  · -- direction b → a: the receiver's slot is gone, its object is closed
    intro hrok
    rw [hel] at hrok
    rw [hrl, hel]
    have hrok0 : ReaderOk oA ((ev y p.a p.ga).eof i0) := by
      rw [hel0]; rcases hrok with hh | hh
      · left; rw [← f8]; exact hh
      · right; exact hh
    obtain ⟨ka, kb⟩ := k2 hrok0
    -- an end marker consumed, or end-of-stream already seen: the receiver's side was (or now is) over
    have hcongrA : ∀ {fw : List Msg} {w : Bytes} {l : Link.St},
        DirRelA { oA with senderAlive := false } fw w (p.ga.rlog i0) (p.ga.eof i0) l →
        DirRelA { oA.disallowWrite with senderAlive := false } fw w (p.ga.rlog i0) (p.ga.eof i0) l :=
      fun d => d.congr f3 f4 rfl f5 f6 f7 (fun _ => rfl) rfl rfl rfl f8
    constructor
    · intro hne
      obtain ⟨l2, d2⟩ := ka hne
      rw [hrl0, hel0] at d2
      cases hcase with
      | notif e1 e2 _ =>
        subst e1
        have heof : p.ga.eof i0 = true := by
          rcases hrok with hh | hh
          · have h' : oA.disallowWrite.rxOpen = true := hh
            rw [f8, e2] at h'; cases h'
          · exact hh
        have hal : oA.senderAlive = false := by
          have := (d2.inv.heof (by rw [d2.heof]; exact heof)).1
          rw [d2.halive] at this; exact this
        refine ⟨l2, d2.congr rfl rfl f3 f4 (by show false = oA.senderAlive; rw [hal]) f5 f6 f7 rfl ?_ rfl rfl rfl f8⟩
        rcases hem with he | ⟨he, _⟩ <;> rw [he] <;> simp [List.filterMap_append, List.filterMap_cons]
      | reset e1 _ =>
        have hbn := hbnone_reset ⟨y, by rw [e1]; simp⟩
        exact absurd hbn hne
      | overrun d e1 e2 e3 e4 _ =>
        subst e1
        exact absurd (d2.deliverPush y d).2.1 e4
    · intro hnone
      obtain ⟨l2, d2⟩ := kb hnone
      rw [hrl0, hel0] at d2
      cases hcase with
      | notif e1 e2 _ =>
        subst e1
        have heof : p.ga.eof i0 = true := by
          rcases hrok with hh | hh
          · have h' : oA.disallowWrite.rxOpen = true := hh
            rw [f8, e2] at h'; cases h'
          · exact hh
        have hal : oA.senderAlive = false := by
          have := (d2.inv.heof (by rw [d2.heof]; exact heof)).1
          rw [d2.halive] at this; exact this
        exact ⟨l2, d2.congr f3 f4 (by show false = oA.senderAlive; rw [hal]) f5 f6 f7 (fun _ => rfl) rfl rfl rfl f8⟩
      | reset e1 _ =>
        subst e1
        obtain ⟨l', d'⟩ := d2.deliverEnd (.frame (.reset y)) (Or.inr rfl)
        exact ⟨l', hcongrA d'⟩
      | overrun d e1 e2 e3 e4 _ =>
        subst e1
        exact absurd (d2.deliverPush y d e2).1 e4

end Penguin.Pair

namespace Penguin.Pair
open Penguin.Mux

theorem wake_fields (o : Obj) :
    o.wake.finishSent = o.finishSent ∧ o.wake.fid = o.fid ∧ o.wake.cap = o.cap ∧ o.wake.threshold = o.threshold ∧
    o.wake.rxq = o.rxq ∧ o.wake.buf = o.buf ∧ o.wake.recvdSince = o.recvdSince ∧ o.wake.rxOpen = o.rxOpen ∧
    o.wake.senderAlive = o.senderAlive ∧ o.wake.credit = o.credit := by
  unfold Obj.wake
  split <;> exact ⟨rfl, rfl, rfl, rfl, rfl, rfl, rfl, rfl, rfl, rfl⟩

/-- A frame for a live flow at an endpoint that holds it (the object-local cases): the link model's
    `deliver` / `deliverAck`. -/
theorem live_recv_est {p : PS} (h : InvCore p) (f : Frame) (x i : Nat) (oA : Obj) (rest : List Msg) {lk' : List Nat}
    (hid : f.id = x) (hflow : Msg.flow? (.frame f) = some x) (hba : p.ba = .frame f :: rest)
    (hnb : ∀ a b c d, f ≠ .bind a b c d)
    (hs : lookup p.a.flows x = some (.established i)) (ho : p.a.objs[i]? = some oA) (hfid : oA.fid = x)
    (r : Linked x (ev x p.a p.ga) (ev x p.b p.gb) (fl x (pathAB p)) (fl x (pathBA p)))
    (o' : Obj) (em : List Msg) (u : LocalUpd p.a (processFrame p.a f false).1 i o' em [])
    (hcls : (∃ n, f = .acknowledge x n ∧ o' = { oA.wake with credit := (oA.credit + n) % 4294967296 } ∧ em = []) ∨
       (f = .finish x ∧ o' = { oA with senderAlive := false } ∧ em = []) ∨
       (∃ d, f = .push x d ∧
          ((oA.senderAlive = true ∧ oA.rxOpen = true ∧ oA.rxq.length < oA.cap ∧ o' = { oA with rxq := oA.rxq ++ [d] } ∧ em = []) ∨
           (oA.senderAlive = false ∧ o' = oA ∧ em = [.frame (.reset x)]) ∨
           (oA.senderAlive = true ∧ oA.rxOpen = false ∧ o' = oA ∧ em = []))) ∨
       ((∃ bt port host, f = .bind x bt port host) ∨ (∃ port host d, f = .datagram x port host d))) :
    Phase x { p with a := (processFrame p.a f false).1, ba := rest, linked := lk' } ∧
    (Linked x (ev x p.a p.ga) (ev x p.b p.gb) (fl x (pathAB p)) (fl x (pathBA p)) →
      Linked x (ev x (processFrame p.a f false).1 p.ga) (ev x p.b p.gb) (fl x (p.ab ++ (processFrame p.a f false).1.outq))
        (fl x (rest ++ p.b.outq))) := by
  have hhead : fl x (pathBA p) = [.frame f] ++ fl x (rest ++ p.b.outq) := by
    show fl x (p.ba ++ p.b.outq) = _
    rw [hba, List.cons_append, fl_cons]
    simp [isFl, hflow]
  have hest : lookup p.a.flows x ≠ none := by rw [hs]; intro hh; cases hh
  -- the wire-level fact for the incoming path
  obtain ⟨i0, j, oA0, oB, h3, h4, h5, h6, c1, c2, s1, s2, n1, n2, w1, w2, q1, q2, k1, k2⟩ := r.body
  have hov := objView_self ho hfid
  have hi0 : i0 = i := by
    rcases Nat.decEq i i0 with hne | he
    · have := h5 i hne; rw [show (ev x p.a p.ga).objs i = objView x p.a i from rfl, hov] at this; cases this
    · exact he.symm
  subst hi0
  have hoA : oA0 = oA := by
    rw [show (ev x p.a p.ga).objs i0 = objView x p.a i0 from rfl, hov] at h3; cases h3; rfl
  subst hoA
  have hslA : (ev x p.a p.ga).slot ≠ none := hest
  obtain ⟨wk1, wk2, wk3, wk4, wk5, wk6, wk7, wk8, wk9, wk10⟩ := wake_fields oA0
  have hnrhd : ∀ g : Frame, (∀ y', g ≠ .reset y') → noReset [Msg.frame g] := by
    intro g hg m hm y' he
    simp at hm; subst hm
    injection he with he; exact hg y' he
  -- the cases
  rcases hcls with ⟨n, hf, ho', hem0⟩ | ⟨hf, ho', hem0⟩ | ⟨d, hf, hcase⟩ | hbd
  · -- Acknowledge: `deliverAck` for the direction in which `a` sends
    subst hf; subst ho'; subst hem0
    refine phase_upd (g' := p.ga) (ba' := rest) (hd := [.frame (.acknowledge x n)]) (h.phase x) u ho hfid (by show oA0.wake.fid = x; rw [wk2]; exact hfid)
      (by simp) hhead rfl ?_ ?_ ?_ (fun hk => by unfold ReaderOk at *; rw [show ({ oA0.wake with credit := _ } : Obj).rxOpen = oA0.rxOpen from wk8] at hk; exact hk)
      ⟨fun hh => ⟨by show oA0.wake.finishSent = true; rw [wk1]; exact hh, rfl⟩, fun hh => by show oA0.wake.senderAlive = false; rw [wk9]; exact hh⟩
      (fun _ => noReset_nil) (fun _ => hnrhd _ (by intro y' hh; cases hh))
      ⟨rfl, fun _ => rfl, fun hh => (by cases hh), fun hh => Or.inl (by have : oA0.wake.senderAlive = false := hh; rw [wk9] at this; exact this)⟩
      ⟨fun hh => by show oA0.wake.rxOpen = false; rw [wk8]; exact hh, fun hh => by cases hh⟩
      (fun hd0 => by cases hd0) ⟨wk3, wk4⟩ (by simp)
    · intro _ oR fwd bwd rr eof l dr
      rw [List.append_nil]
      exact ⟨_, dr.deliverAck x n⟩
    · intro _ oS fwd bwd w l dr
      exact ⟨l, dr.congr rfl rfl wk3 wk4 wk9 wk5 wk6 wk7 (by simp [List.filterMap_cons]) (by simp) rfl rfl rfl wk8⟩
    · intro _ fwd w l dr
      exact ⟨l, (dr.skip _ rfl).congr wk3 wk4 wk9 wk5 wk6 wk7 (fun _ => rfl) rfl rfl rfl wk8⟩
  · -- Finish: `deliver` for the direction in which `a` receives
    subst hf; subst ho'; subst hem0
    refine phase_upd (g' := p.ga) (ba' := rest) (hd := [.frame (.finish x)]) (h.phase x) u ho hfid hfid
      (by simp) hhead rfl ?_ ?_ ?_ id ⟨fun hh => ⟨hh, rfl⟩, fun _ => rfl⟩
      (fun _ => noReset_nil) (fun _ => hnrhd _ (by intro y' hh; cases hh))
      ⟨rfl, fun _ => rfl, fun hh => (by cases hh), fun _ => Or.inr rfl⟩ ⟨id, fun hh => by cases hh⟩
      (fun hd0 => by cases hd0) ⟨rfl, rfl⟩ (by simp)
    · intro _ oR fwd bwd rr eof l dr
      exact ⟨l, dr.congr rfl rfl rfl rfl rfl rfl rfl rfl (by simp) (by simp [List.filterMap_cons]) rfl rfl rfl rfl⟩
    · intro _ oS fwd bwd w l dr
      rw [List.append_nil]
      exact ⟨_, dr.deliverFinish x⟩
    · intro _ fwd w l dr
      exact dr.deliverEnd (.frame (.finish x)) (Or.inl rfl)
  · -- Push
    subst hf
    have hpush_dead : oA0.senderAlive = false → False := by
      intro hal
      have := (w2.quiet hslA hal).1
      rw [hhead] at this
      simp [List.filterMap_cons, Link.pushes] at this
    rcases hcase with ⟨ha, hr, hroom, ho', hem0⟩ | ⟨ha, _, _⟩ | ⟨ha, hr, ho', hem0⟩
    · subst ho'; subst hem0
      refine phase_upd (g' := p.ga) (ba' := rest) (hd := [.frame (.push x d)]) (h.phase x) u ho hfid hfid
        (by simp) hhead rfl ?_ ?_ ?_ id ⟨fun hh => ⟨hh, rfl⟩, id⟩
        (fun _ => noReset_nil) (fun _ => hnrhd _ (by intro y' hh; cases hh))
        ⟨rfl, fun _ => rfl, fun hh => (by cases hh), fun hh => Or.inl hh⟩ ⟨id, fun hh => by cases hh⟩
        (fun hd0 => by cases hd0) ⟨rfl, rfl⟩ (by simp)
      · intro _ oR fwd bwd rr eof l dr
        exact ⟨l, dr.congr rfl rfl rfl rfl rfl rfl rfl rfl (by simp) (by simp [List.filterMap_cons]) rfl rfl rfl rfl⟩
      · intro _ oS fwd bwd w l dr
        rw [List.append_nil]
        exact ⟨_, (dr.deliverPush x d).2.2⟩
      · intro _ fwd w l dr
        exact ⟨_, (dr.deliverPush x d ha).2⟩
    · exact absurd ha hpush_dead
    · subst ho'; subst hem0
      refine phase_upd (g' := p.ga) (ba' := rest) (hd := [.frame (.push x d)]) (h.phase x) u ho hfid hfid
        (by simp) hhead rfl ?_ ?_ ?_ id ⟨fun hh => ⟨hh, rfl⟩, id⟩
        (fun _ => noReset_nil) (fun _ => hnrhd _ (by intro y' hh; cases hh))
        ⟨rfl, fun _ => rfl, fun hh => (by cases hh), fun hh => Or.inl hh⟩ ⟨id, fun hh => by cases hh⟩
        (fun hd0 => by cases hd0) ⟨rfl, rfl⟩ (by simp)
      · intro _ oR fwd bwd rr eof l dr
        exact ⟨l, dr.congr rfl rfl rfl rfl rfl rfl rfl rfl (by simp) (by simp [List.filterMap_cons]) rfl rfl rfl rfl⟩
      · intro _ oS fwd bwd w l dr
        have := dr.hrx hr; rw [ha] at this; cases this
      · intro _ fwd w l dr
        have := dr.hrx hr; rw [ha] at this; cases this
  · rcases hbd with ⟨bt, port, host, hf⟩ | ⟨port, host, d, hf⟩
    · exact absurd hf (hnb _ _ _ _)
    · subst hf; simp [Msg.flow?] at hflow

/-- A frame for a live flow at an endpoint that has released it: nothing but a `Reset` reply. -/
theorem live_recv_none {p : PS} (h : InvCore p) (f : Frame) (x i : Nat) (oA : Obj) (rest : List Msg) {lk' : List Nat}
    (hid : f.id = x) (hflow : Msg.flow? (.frame f) = some x) (hba : p.ba = .frame f :: rest)
    (hs : lookup p.a.flows x = none) (ho : p.a.objs[i]? = some oA) (hfid : oA.fid = x)
    (hclosedA : oA.finishSent = true ∧ oA.senderAlive = false)
    (em : List Msg) (u : LocalUpd p.a (processFrame p.a f false).1 i oA em []) (hres : ResetsOf x em) :
    Phase x { p with a := (processFrame p.a f false).1, ba := rest, linked := lk' } ∧
    (Linked x (ev x p.a p.ga) (ev x p.b p.gb) (fl x (pathAB p)) (fl x (pathBA p)) →
      Linked x (ev x (processFrame p.a f false).1 p.ga) (ev x p.b p.gb) (fl x (p.ab ++ (processFrame p.a f false).1.outq))
        (fl x (rest ++ p.b.outq))) := by
  have hhead : fl x (pathBA p) = [.frame f] ++ fl x (rest ++ p.b.outq) := by
    show fl x (p.ba ++ p.b.outq) = _
    rw [hba, List.cons_append, fl_cons]
    simp [isFl, hflow]
  obtain ⟨hem, hemA, hemP⟩ := resets_facts hres
  have hnone : ¬ lookup p.a.flows x ≠ none := fun hh => hh hs
  have hshape : noPushAfterEnd (em.filterMap toItem) = true := npae_pushes_nil _ hemP
  refine phase_upd (g' := p.ga) (ba' := rest) (hd := [.frame f]) (h.phase x) u ho hfid hfid hem hhead rfl
    (fun hh => absurd hh hnone) ?_ ?_ id ⟨fun hh => ⟨hh, rfl⟩, id⟩ (fun hh => absurd hh hnone) (fun hh => absurd hh hnone)
    ⟨hshape, fun _ => hemP, fun _ => hclosedA.1, fun hh => Or.inl hh⟩ ⟨id, fun hh => by cases hh⟩
    (fun hd0 => by cases hd0) ⟨rfl, rfl⟩ (by simp)
  · -- the receiver's side is over (its slot is gone): nothing in flight counts any more
    intro _ oS fwd bwd w l dr
    have hal : l.rAlive = false := by rw [dr.halive]; exact hclosedA.2
    have hw := dr.inv.hdeadwire hal
    rw [dr.hwire] at hw
    have hsplit : ([Msg.frame f] ++ fwd).filterMap toItem = [Msg.frame f].filterMap toItem ++ fwd.filterMap toItem := List.filterMap_append
    have hw' := hw
    rw [hsplit] at hw'
    have hw2 : fwd.filterMap toItem = [] := (List.append_eq_nil_iff.mp hw').2
    refine ⟨l, dr.congr rfl rfl rfl rfl rfl rfl rfl rfl ?_ (by rw [List.filterMap_append, hemA]; simp) rfl rfl rfl rfl⟩
    rw [hw2, hw]
  · intro _ fwd w l dr
    exact ⟨l, dr.congr rfl rfl rfl rfl rfl rfl (fun hal => by rw [hclosedA.2] at hal; cases hal) rfl rfl rfl rfl⟩

end Penguin.Pair

namespace Penguin.Pair
open Penguin.Mux

theorem completes_some {p : PS} {f : Frame} {z : Nat} (h : completes p f = some z) :
    (∃ n, f = .acknowledge z n) ∧ (∃ req, lookup p.a.flows z = some (.requested req)) ∧
    (∃ j, lookup p.b.flows z = some (.established j)) ∧
    hasReset z (p.ab ++ p.a.outq) = false ∧ hasReset z (p.ba ++ p.b.outq) = false := by
  cases f with
  | acknowledge x n =>
    simp only [completes] at h
    split at h
    · rename_i req j ha hb
      split at h
      · cases h
      · rename_i hr
        cases h
        simp only [Bool.or_eq_true, not_or, Bool.not_eq_true] at hr
        exact ⟨⟨n, rfl⟩, ⟨req, ha⟩, ⟨j, hb⟩, hr.1, hr.2⟩
    · cases h
  | _ => simp [completes] at h

theorem noReset_of_hasReset (x : Nat) (l : List Msg) (h : hasReset x l = false) : noReset (fl x l) := by
  intro m hm y' he
  subst he
  have hmem : Msg.frame (Frame.reset y') ∈ l := (List.mem_filter.mp hm).1
  have hfl : isFl x (Msg.frame (Frame.reset y')) = true := (List.mem_filter.mp hm).2
  have hy : y' = x := by simpa [isFl, Msg.flow?, Frame.id] using hfl
  subst hy
  have : hasReset y' l = true := by
    simp only [hasReset, List.any_eq_true]
    exact ⟨_, hmem, by simp⟩
  rw [h] at this; cases this

theorem Linked.has_objs {x : Nat} {va vb : EV} {fab fba : List Msg} (h : Linked x va vb fab fba) :
    (∃ i o, va.objs i = some o) ∧ (∃ j o, vb.objs j = some o) := by
  obtain ⟨i, j, oA, oB, h3, h4, _⟩ := h.body
  exact ⟨⟨i, oA, h3⟩, ⟨j, oB, h4⟩⟩

theorem inj_linked {x : Nat} {va vb : EV} {fab fba : List Msg} (h : Linked x va vb fab fba) : PhV x va vb fab fba :=
  Or.inr (Or.inr (Or.inr (Or.inr (Or.inr (Or.inl h)))))

/-- The receive loop processes one frame (not a `Bind`). -/
theorem inv_recv {p : PS} (h : InvCore p) (f : Frame) (rest : List Msg) (hba : p.ba = .frame f :: rest)
    (hnb : ∀ a b c d, f ≠ .bind a b c d) :
    InvCore { p with a := (processFrame p.a f false).1, ba := rest,
                     linked := match completes p f with | some x => x :: p.linked | none => p.linked } := by
  have hgf : ∀ {Y : Nat → Prop}, Eff Y p.a (processFrame p.a f false).1 → GhostFresh (processFrame p.a f false).1 p.ga :=
    fun s k hk => h.ghA k (Nat.le_trans s.len hk)
  cases hfl : Msg.flow? (.frame f) with
  | none =>
    have s : Eff (fun _ => False) p.a (processFrame p.a f false).1 := by
      cases f with
      | datagram fid port host d => exact processFrame_dgram_eff _ _ _ _ _ _
      | _ => simp [Msg.flow?] at hfl
    have hc : completes p f = none := by
      cases f with
      | datagram fid port host d => rfl
      | _ => simp [Msg.flow?] at hfl
    rw [hc]
    exact inv_of_eff (g' := p.ga) (ba' := rest) (lk' := p.linked) h s (Or.inr ⟨_, hba, fun y hy => by rw [hfl] at hy; cases hy⟩)
      (fun x _ => GhostAgree.refl x _ _) (hgf s) (fun _ _ hh => hh) (fun x hx => absurd hx id)
  | some x =>
    have hid : f.id = x := (flow_eq hfl).symm
    have s := processFrame_eff p.a f false h.sfA
    rw [hid] at s
    refine inv_of_eff (g' := p.ga) (ba' := rest) h s (Or.inr ⟨_, hba, fun y hy => by rw [hfl] at hy; cases hy; rfl⟩)
      (fun x _ => GhostAgree.refl x _ _) (hgf s) ?_ ?_
    · -- the recorded flows other than `x` are unchanged
      intro z hz hzl
      cases hc : completes p f with
      | none => rw [hc] at hzl; exact hzl
      | some w =>
        rw [hc] at hzl
        rcases List.mem_cons.mp hzl with h1 | h1
        · obtain ⟨⟨n, hf⟩, _⟩ := completes_some hc
          subst hf
          have : w = x := by simpa [Frame.id] using hid
          exact absurd (h1.trans this) hz
        · exact h1
    intro x' hx'
    subst hx'
    have hhead : fl x' (pathBA p) = .frame f :: fl x' (rest ++ p.b.outq) := by
      show fl x' (p.ba ++ p.b.outq) = _
      rw [hba, List.cons_append, fl_cons]
      simp [isFl, hfl]
    have hhead' : fl x' (pathBA p) = [.frame f] ++ fl x' (rest ++ p.b.outq) := hhead
    -- a live flow stays live
    have live : Linked x' (ev x' p.a p.ga) (ev x' p.b p.gb) (fl x' (pathAB p)) (fl x' (pathBA p)) →
        Linked x' (ev x' (processFrame p.a f false).1 p.ga) (ev x' p.b p.gb)
          (fl x' (p.ab ++ (processFrame p.a f false).1.outq)) (fl x' (rest ++ p.b.outq)) := by
      intro r
      have hnc : (Msg.frame f).isConnect = false := r.nba _ (by rw [hhead]; simp)
      obtain ⟨i, j, oA, oB, h3, h4, h5, h6, c1, c2, s1, s2, n1, n2, w1, w2, q1, q2, k1, k2⟩ := r.body
      obtain ⟨ho, hfid⟩ := objView_some h3
      rcases s1 with s1 | ⟨s1, f1, f2⟩
      · have hs : lookup p.a.flows x' = some (.established i) := s1
        rcases processFrame_est p.a f false x' i oA hs ho hid hnc h.runA.outClosed with
          ⟨u, hf⟩ | ⟨d, hf, ha, hr, hroom, u⟩ | ⟨o', em, u, hcls⟩
        · -- the peer's Reset: released
          rw [hhead'] at r
          refine linked_release (hd := [.frame f]) (em := []) r hs ho hfid ?_ u.rng u.opts u.others u.self
            (by rw [u.outq]) (fun hh => by rw [u.dq] at hh; exact hh) (Or.inl rfl) ?_ rfl
          · rw [u.flows]; exact lookup_erase_self _ _
          · subst hf; exact RelCase.reset rfl rfl
        · -- window overrun (never, between conforming endpoints)
          rw [hhead'] at r
          refine linked_release (hd := [.frame f]) r hs ho hfid ?_ u.rng u.opts u.others u.self
            u.outq (fun hh => by rw [u.dq] at hh; exact hh) ?_ ?_ rfl
          · rw [u.flows]; exact lookup_erase_self _ _
          · cases hfs : oA.finishSent with
            | true => left; simp
            | false => right; simp
          · subst hf
            refine RelCase.overrun d rfl ha hr hroom ?_
            intro hfs; simp [hfs]
        · exact (live_recv_est (lk' := p.linked) h f x' i oA rest hid hfl hba hnb hs ho hfid
            ⟨r.ra, r.rb, r.nab, r.nba, ⟨i, j, oA, oB, h3, h4, h5, h6, c1, c2, Or.inl s1, s2, n1, n2, w1, w2, q1, q2, k1, k2⟩⟩
            o' em u hcls).2
            ⟨r.ra, r.rb, r.nab, r.nba, ⟨i, j, oA, oB, h3, h4, h5, h6, c1, c2, Or.inl s1, s2, n1, n2, w1, w2, q1, q2, k1, k2⟩⟩
      · have hs : lookup p.a.flows x' = none := s1
        obtain ⟨em, u, hres⟩ := processFrame_none_local p.a f false x' i oA hs ho hid hnc hnb h.runA.outClosed
        exact (live_recv_none (lk' := p.linked) h f x' i oA rest hid hfl hba hs ho hfid ⟨f1, f2⟩ em u hres).2
          ⟨r.ra, r.rb, r.nab, r.nba, ⟨i, j, oA, oB, h3, h4, h5, h6, c1, c2, Or.inr ⟨s1, f1, f2⟩, s2, n1, n2, w1, w2, q1, q2, k1, k2⟩⟩
    by_cases hL : Linked x' (ev x' p.a p.ga) (ev x' p.b p.gb) (fl x' (pathAB p)) (fl x' (pathBA p))
    · exact ⟨inj_linked (live hL), fun _ => live hL⟩
    · -- not live: a recorded flow would be live, so `x'` is recorded at most now
      have hnew : ∀ {q : Prop}, (x' ∈ (match completes p f with | some x => x :: p.linked | none => p.linked)) →
          (completes p f = some x' → q) → q := by
        intro q hx hq
        cases hc : completes p f with
        | none => rw [hc] at hx; exact absurd (h.live x' hx) hL
        | some w =>
          rw [hc] at hx
          rcases List.mem_cons.mp hx with h1 | h1
          · subst h1; exact hq hc
          · exact absurd (h.live x' h1) hL
      rcases h.phase x' with r | r | r | r | r | r | r
      · have := r.fba; rw [hhead] at this; cases this
      · have := r.fba; rw [hhead] at this; cases this
      · obtain ⟨port, host, hc⟩ := r.fab
        rw [hhead] at hc
        have hf : f = .connect x' p.b.opts.rwnd port host := by
          have := (List.cons.inj hc).1; simpa [ev] using this
        subst hf
        refine ⟨phase_connect h x' _ port host rest hba r, fun hx => hnew hx (fun hc => ?_)⟩
        simp [completes] at hc
      · obtain ⟨j, oP, rest', l, _, _, _, h4, _⟩ := r.body
        rw [hhead] at h4
        have hf : f = .acknowledge x' p.b.opts.rwnd := by
          have := (List.cons.inj h4).1; simpa [ev] using this
        subst hf
        have := phase_ack h x' _ rest hba r
        exact ⟨inj_linked this, fun _ => this⟩
      · have := r.fab; rw [hhead] at this; cases this
      · exact absurd r hL
      · have hnc : (Msg.frame f).isConnect = false := r.nba _ (by rw [hhead]; simp)
        refine ⟨dead_step (hd := [.frame f]) r s (by rw [hhead]; rfl)
          (fun hn => processFrame_none_stays p.a f false x' hn hid hnc) ?_, fun hx => hnew hx (fun hc => ?_)⟩
        · -- the consumed message was a Reset: the slot (if any) is gone afterwards
          intro hnr
          have hf : f = .reset x' := by
            cases f with
            | reset y' => simp only [Frame.id] at hid; rw [hid]
            | _ => exact absurd (by intro m hm y' he; simp at hm; subst hm; cases he) hnr
          subst hf
          simp only [processFrame]
          exact closeFlow_slot_none _ _ _
        · obtain ⟨_, ⟨req, ha⟩, ⟨j, hb⟩, hr1, hr2⟩ := completes_some hc
          rcases r.gone with g | g | g | g
          · have : lookup p.a.flows x' = none := g
            rw [ha] at this; cases this
          · have : lookup p.b.flows x' = none := g
            rw [hb] at this; cases this
          · exact absurd (noReset_of_hasReset x' _ hr1) g
          · exact absurd (noReset_of_hasReset x' _ hr2) g

end Penguin.Pair
