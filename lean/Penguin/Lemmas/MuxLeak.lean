/-
Slots of the flow table never come back for an old stream object.

`Grow e e'` relates an endpoint state to a later one: objects are only appended and keep their flow
id, and every `Established` slot of the later state either was there before or refers to an object
created in between, created *for that id*.  Every function of the endpoint model — frames from any
peer (well-behaved or not), application calls, the dropped-handle loop, the whole wind-down — is
shown to be a `Grow` step, hence so is every stimulus (`applyOp`) and every history (`runOps`).

Consequences (restated in Props C06):
 * `SlotFidE`: an `Established` slot under id `x` refers to an object whose id is `x`, in every
   reachable state (so a dropped-handle notification, which carries the object's id, addresses the
   slot of that object);
 * once no slot refers to stream object `i`, none ever does again, whatever happens next —
   including the peer reusing the flow id (`no_slot_forever`).
Core Lean only.
-/
import Penguin.Lemmas.MuxReach

namespace Penguin.Mux

/-- An `Established` slot under id `x` refers to an object of id `x`. -/
def SlotFidE (e : EP) : Prop :=
  ∀ (fid i : Nat) (o : Obj), lookup e.flows fid = some (.established i) → e.objs[i]? = some o → o.fid = fid

/-- No slot of the flow table refers to stream object `i`. -/
def NoSlotTo (e : EP) (i : Nat) : Prop := ∀ fid, lookup e.flows fid ≠ some (.established i)

structure Grow (e e' : EP) : Prop where
  len : e.objs.length ≤ e'.objs.length
  fid : ∀ (i : Nat) (o : Obj), e.objs[i]? = some o → ∃ o' : Obj, e'.objs[i]? = some o' ∧ o'.fid = o.fid
  slots : ∀ (fid i : Nat), lookup e'.flows fid = some (.established i) →
    lookup e.flows fid = some (.established i) ∨
      (e.objs.length ≤ i ∧ ∃ o' : Obj, e'.objs[i]? = some o' ∧ o'.fid = fid)

theorem Grow.refl (e : EP) : Grow e e :=
  ⟨Nat.le_refl _, fun _ o h => ⟨o, h, rfl⟩, fun _ _ h => Or.inl h⟩

theorem Grow.trans {a b c : EP} (s : Grow a b) (t : Grow b c) : Grow a c := by
  refine ⟨Nat.le_trans s.len t.len, ?_, ?_⟩
  · intro i o h
    obtain ⟨o1, h1, f1⟩ := s.fid i o h
    obtain ⟨o2, h2, f2⟩ := t.fid i o1 h1
    exact ⟨o2, h2, by rw [f2, f1]⟩
  · intro fid i h
    rcases t.slots fid i h with h1 | ⟨hl, o', ho', hf'⟩
    · rcases s.slots fid i h1 with h2 | ⟨hl, o', ho', hf'⟩
      · exact Or.inl h2
      · obtain ⟨o2, h2, f2⟩ := t.fid i o' ho'
        exact Or.inr ⟨hl, o2, h2, by rw [f2, hf']⟩
    · exact Or.inr ⟨Nat.le_trans s.len hl, o', ho', hf'⟩

theorem Grow.after {a b c : EP} (t : Grow b c) (s : Grow a b) : Grow a c := s.trans t

/-- What the relation is for. -/
theorem Grow.slotFid {e e' : EP} (g : Grow e e') (hr : WF e) (h : SlotFidE e) : SlotFidE e' := by
  intro fid i o hs ho
  rcases g.slots fid i hs with h1 | ⟨_, o', ho', hf'⟩
  · have hlt : i < e.objs.length := hr.range fid i h1
    obtain ⟨o0, ho0⟩ : ∃ o0, e.objs[i]? = some o0 := ⟨e.objs[i], List.getElem?_eq_getElem hlt⟩
    obtain ⟨o1, ho1, hf1⟩ := g.fid i o0 ho0
    rw [ho] at ho1; cases ho1
    rw [hf1]; exact h fid i o0 h1 ho0
  · rw [ho] at ho'; cases ho'; exact hf'

theorem Grow.noSlot {e e' : EP} (g : Grow e e') {i : Nat} (hi : i < e.objs.length) (h : NoSlotTo e i) :
    NoSlotTo e' i := by
  intro fid hs
  rcases g.slots fid i hs with h1 | ⟨hl, _⟩
  · exact h fid h1
  · omega

/-! ### Building blocks -/

theorem Grow.same {e e' : EP} (hf : e'.flows = e.flows) (ho : e'.objs = e.objs) : Grow e e' :=
  ⟨by rw [ho]; exact Nat.le_refl _, fun i o h => ⟨o, by rw [ho]; exact h, rfl⟩, fun fid i h => Or.inl (by rw [← hf]; exact h)⟩

/-- Same objects; every `Established` slot was there before (slots erased, pending slots inserted). -/
theorem Grow.sub {e e' : EP} (ho : e'.objs = e.objs)
    (hs : ∀ fid i, lookup e'.flows fid = some (.established i) → lookup e.flows fid = some (.established i)) :
    Grow e e' :=
  ⟨by rw [ho]; exact Nat.le_refl _, fun i o h => ⟨o, by rw [ho]; exact h, rfl⟩, fun fid i h => Or.inl (hs fid i h)⟩

theorem Grow.modObj (e : EP) (i : Nat) (f : Obj → Obj) (hf : ∀ o, (f o).fid = o.fid) : Grow e (e.modObj i f) := by
  refine ⟨by simp, ?_, fun fid j h => Or.inl h⟩
  intro j o h
  by_cases hj : j = i
  · subst hj
    exact ⟨f o, by rw [modObj_get_self, h]; rfl, hf o⟩
  · exact ⟨o, by rw [modObj_get_ne _ _ _ _ hj]; exact h, rfl⟩

theorem Grow.enq (e : EP) (m : Msg) : Grow e (e.enq m) := Grow.same (by simp) (by simp)
theorem Grow.enqFrame (e : EP) (f : Frame) : Grow e (e.enqFrame f) := Grow.enq e _

theorem lookup_erase_some {m : List (Nat × Slot)} {k y : Nat} {s : Slot} (h : lookup (erase m k) y = some s) :
    lookup m y = some s := by
  by_cases hy : y = k
  · subst hy; rw [lookup_erase_self] at h; cases h
  · rw [lookup_erase_ne _ _ _ hy] at h; exact h

theorem Grow.erase (e : EP) (fid : Nat) : Grow e { e with flows := erase e.flows fid } :=
  Grow.sub rfl (fun _ _ h => lookup_erase_some h)

theorem Grow.insertPending (e : EP) (fid : Nat) (s : Slot) (hs : ∀ i, s ≠ .established i) :
    Grow e { e with flows := insert e.flows fid s } := by
  refine Grow.sub rfl ?_
  intro y i h
  by_cases hy : y = fid
  · subst hy; simp only [lookup_insert_self, Option.some.injEq] at h; exact absurd h (hs i)
  · simp only [lookup_insert_ne _ _ _ _ hy] at h
    exact lookup_erase_some (k := fid) (by rw [lookup_erase_ne _ _ _ hy]; exact h)

theorem Grow.newStream (e : EP) (fid : Nat) (o : Obj) (hf : o.fid = fid) :
    Grow e { e with objs := e.objs ++ [o], flows := insert e.flows fid (.established e.objs.length) } := by
  refine ⟨by simp, ?_, ?_⟩
  · intro i o' h
    have hlt : i < e.objs.length := (List.getElem?_eq_some_iff.mp h).1
    exact ⟨o', by show (e.objs ++ [o])[i]? = some o'; rw [List.getElem?_append_left hlt]; exact h, rfl⟩
  · intro y i h
    by_cases hy : y = fid
    · subst hy
      simp only [lookup_insert_self, Option.some.injEq, Slot.established.injEq] at h
      subst h
      exact Or.inr ⟨Nat.le_refl _, o, by show (e.objs ++ [o])[e.objs.length]? = some o; simp, hf⟩
    · simp only [lookup_insert_ne _ _ _ _ hy] at h
      exact Or.inl h

/-! ### Function by function -/

theorem Grow.openRound (e : EP) (r : OpenReq) : Grow e (openRound e r).1 := by
  unfold Mux.openRound
  split
  · exact Grow.same rfl rfl
  · split
    · exact Grow.same rfl rfl
    · rename_i fid rng' fb' hd
      have g : Grow e { e with flows := insert e.flows fid (.requested r.req) } :=
        Grow.insertPending e fid _ (by intro i hc; cases hc)
      simp only
      split
      · exact Grow.same rfl rfl
      · exact (Grow.enqFrame _ _).after (g.trans (Grow.same rfl rfl))

theorem Grow.openRejected (e : EP) (req : Nat) (final : Bool) : Grow e (openRejected e req final).1 :=
  Grow.same (openRejected_flows e req final) (openRejected_objs e req final)

theorem Grow.closeLocal (e : EP) (s : Slot) (fid : Nat) (inh final : Bool) : Grow e (closeLocal e s fid inh final).1 := by
  unfold Mux.closeLocal
  cases s with
  | established i =>
    simp only
    cases ho : e.obj? i with
    | none => exact Grow.refl e
    | some o =>
      simp only
      have g := Grow.modObj e i (fun o => { o.disallowWrite with senderAlive := false })
        (by intro o; simp only [Obj.disallowWrite, Obj.wake]; split <;> rfl)
      split
      · exact g.trans (Grow.enqFrame _ _)
      · exact g
  | requested req => exact Grow.openRejected e req final
  | bindRequested req => exact Grow.refl e

theorem Grow.closeFlow (e : EP) (fid : Nat) (inh : Bool) : Grow e (closeFlow e fid inh).1 := by
  unfold Mux.closeFlow
  split
  · exact Grow.refl e
  · exact (Grow.erase e fid).trans (Grow.closeLocal _ _ _ _ _)

theorem Grow.offerAccept (e : EP) (i : Nat) : Grow e (offerAccept e i) :=
  Grow.same (offerAccept_flows e i) (offerAccept_objs e i)

theorem Grow.offerBind (e : EP) (b : BindIn) : Grow e (offerBind e b) :=
  Grow.same (offerBind_flows e b) (offerBind_objs e b)

theorem wake_fid (o : Obj) : o.wake.fid = o.fid := by
  unfold Obj.wake; split <;> rfl

theorem Grow.processFrame (e : EP) (f : Frame) (ig : Bool) : Grow e (processFrame e f ig).1 := by
  cases f with
  | connect fid rwnd port host =>
    simp only [Mux.processFrame]
    split
    · exact Grow.enqFrame _ _
    · have g := Grow.newStream e fid (newObj e.opts fid rwnd host port) rfl
      split
      · exact g
      · split
        · exact (Grow.after (Grow.modObj _ e.objs.length (fun o => { o with rxOpen := false }) (fun o => rfl)) (Grow.after (Grow.enqFrame _ (.acknowledge fid e.opts.rwnd)) g)).trans (Grow.same rfl rfl)
        · exact Grow.after (Grow.offerAccept _ _) (Grow.after (Grow.enqFrame _ _) g)
  | acknowledge fid n =>
    simp only [Mux.processFrame]
    split
    · exact Grow.modObj _ _ _ (fun o => wake_fid o)
    · have g := Grow.newStream e fid (newObj e.opts fid n [] 0) rfl
      split
      · exact g.trans (Grow.same rfl rfl)
      · exact (Grow.after (Grow.modObj _ e.objs.length (fun o => { o with rxOpen := false }) (fun o => rfl)) g).trans (Grow.same rfl rfl)
    · exact Grow.enqFrame _ _
    · exact Grow.enqFrame _ _
  | finish fid =>
    simp only [Mux.processFrame]
    split
    · exact Grow.enqFrame _ _
    · exact Grow.erase e fid
    · exact (Grow.enqFrame _ _).after ((Grow.erase e fid).trans (Grow.same rfl rfl))
    · exact Grow.modObj _ _ _ (fun o => rfl)
  | reset fid =>
    simp only [Mux.processFrame]
    exact Grow.closeFlow e fid true
  | push fid d =>
    simp only [Mux.processFrame]
    split
    · split
      · exact Grow.refl e
      · split
        · exact Grow.enqFrame _ _
        · split
          · exact Grow.refl e
          · split
            · exact Grow.modObj _ _ _ (fun o => rfl)
            · exact Grow.closeFlow e fid false
    · exact Grow.enqFrame _ _
  | bind fid bt port host =>
    simp only [Mux.processFrame]
    repeat' split
    all_goals first | exact Grow.refl e | exact Grow.enqFrame _ _ | exact Grow.offerBind _ _
  | datagram fid port host d =>
    simp only [Mux.processFrame]
    repeat' split
    all_goals first | exact Grow.refl e | exact Grow.same rfl rfl

theorem Grow.processIn (e : EP) (w : WsIn) (ig : Bool) : Grow e (processIn e w ig).1 := by
  cases w with
  | msg m => cases m <;> first | exact Grow.processFrame _ _ ig | exact Grow.refl e
  | bad b => exact Grow.refl e
  | err => exact Grow.refl e
  | eof => exact Grow.refl e

/-! ### Wind-down -/

theorem Grow.disallowAll (e : EP) (l : List (Nat × Slot)) : Grow e (disallowAll e l) := by
  induction l generalizing e with
  | nil => exact Grow.refl e
  | cons p l ih =>
    obtain ⟨fid, s⟩ := p
    cases s with
    | established i =>
      simp only [Mux.disallowAll]
      exact (Grow.modObj e i _ (by intro o; simp only [Obj.disallowWrite]; exact wake_fid o)).trans (ih _)
    | requested r => simp only [Mux.disallowAll]; exact ih e
    | bindRequested r => simp only [Mux.disallowAll]; exact ih e

theorem Grow.windDownInbox (e : EP) (l : List WsIn) : Grow e (windDownInbox e l).1 := by
  induction l generalizing e with
  | nil => exact Grow.refl e
  | cons w l ih =>
    cases w with
    | err => exact Grow.refl e
    | eof => exact Grow.refl e
    | msg m =>
      simp only [Mux.windDownInbox]
      exact (ih _).after ((Grow.processIn e (.msg m) true).trans (Grow.same rfl rfl))
    | bad b =>
      simp only [Mux.windDownInbox]
      exact (ih _).after ((Grow.processIn e (.bad b) true).trans (Grow.same rfl rfl))

theorem Grow.drainFlows (e : EP) (l : List (Nat × Slot)) : Grow e (drainFlows e l).1 := by
  induction l generalizing e with
  | nil => exact Grow.refl e
  | cons p l ih =>
    obtain ⟨fid, s⟩ := p
    simp only [Mux.drainFlows]
    exact (Grow.closeLocal e s fid true true).trans (ih _)

theorem Grow.windDownFinish (e : EP) (res : ExitRes) : Grow e (windDownFinish e res).1 := by
  simp only [Mux.windDownFinish]
  have g0 : Grow e { e with flows := [] } := Grow.sub rfl (by intro fid i h; simp [lookup] at h)
  exact ((g0.trans (Grow.drainFlows _ _)).trans (Grow.same rfl rfl)).trans (Grow.same rfl rfl)

theorem Grow.windDownTail (e1 : EP) (flushed : List Ev) (srcEnded : Bool) (res : ExitRes) :
    Grow e1 (windDownTail e1 flushed srcEnded res).1 := by
  have g := (Grow.windDownInbox e1 e1.inbox).trans
    (Grow.same rfl rfl : Grow (Mux.windDownInbox e1 e1.inbox).1 { (Mux.windDownInbox e1 e1.inbox).1 with inbox := [] })
  simp only [Mux.windDownTail]
  split
  · exact g.trans (Grow.windDownFinish _ res)
  · exact g.trans (Grow.same rfl rfl)

theorem Grow.sendSome (e : EP) : Grow e (sendSome e).1 := by
  unfold Mux.sendSome
  split <;> exact Grow.same rfl rfl

theorem Grow.dropPrep (e : EP) : Grow e (dropPrep e) :=
  (Grow.disallowAll e e.flows).trans (Grow.same rfl rfl)

theorem Grow.windDown (e : EP) (drain : Bool) (res : ExitRes) : Grow e (windDown e drain res).1 := by
  simp only [Mux.windDown]
  split
  · have g := (Grow.dropPrep e).trans (Grow.sendSome _)
    split
    · exact g.trans (Grow.windDownTail _ _ _ _)
    · exact g.trans (Grow.same rfl rfl)
  · exact ((Grow.disallowAll e e.flows).trans (Grow.same rfl rfl : Grow (Mux.disallowAll e e.flows) (Mux.windDownPrep e))).trans
      (Grow.windDownTail _ _ _ _)

/-! ### The task's loops -/

theorem Grow.unpark (e : EP) : Grow e (unpark e) := by
  unfold Mux.unpark
  split
  · exact Grow.refl e
  · split
    · split
      · exact (Grow.modObj e _ (fun o => { o with rxOpen := false }) (fun o => rfl)).trans (Grow.same rfl rfl)
      · exact Grow.same rfl rfl
    · split
      · exact Grow.same rfl rfl
      · exact Grow.refl e
  · split
    · exact (Grow.same rfl rfl : Grow e { e with park := none }).trans (Grow.enqFrame _ _)
    · split
      · exact Grow.same rfl rfl
      · exact Grow.refl e

theorem Grow.drainStep (e : EP) (res : ExitRes) : Grow e (drainStep e res).1 := by
  simp only [Mux.drainStep]
  split
  · exact (Grow.windDownTail _ _ _ _).after ((Grow.sendSome e).trans (Grow.same rfl rfl))
  · exact Grow.sendSome e

theorem Grow.closingStep (e : EP) (res : ExitRes) : Grow e (closingStep e res).1 := by
  have g := (Grow.windDownInbox e e.inbox).trans
    (Grow.same rfl rfl : Grow (Mux.windDownInbox e e.inbox).1 { (Mux.windDownInbox e e.inbox).1 with inbox := [] })
  simp only [Mux.closingStep]
  split
  · exact g.trans (Grow.windDownFinish _ res)
  · exact g

theorem Grow.recvOne (e : EP) (w : WsIn) (rest : List WsIn) : Grow e (recvOne e w rest).1 := by
  simp only [Mux.recvOne]
  refine Grow.after (Grow.processIn _ _ _) ?_
  split <;> exact Grow.same rfl rfl

theorem Grow.settleLoop (fuel : Nat) (e : EP) (acc : List Ev) : Grow e (settleLoop fuel e acc).1 := by
  induction fuel generalizing e acc with
  | zero => exact Grow.refl e
  | succ n ih =>
    unfold Mux.settleLoop
    split
    · exact Grow.refl e
    · split
      · exact Grow.drainStep _ _
      · split
        · exact Grow.closingStep _ _
        · have gu := Grow.unpark e
          split
          · rename_i w rest _ _
            have gp := gu.trans (Grow.recvOne (Mux.unpark e) w rest)
            split
            · exact gp.trans (Grow.windDown _ _ _)
            · exact gp.trans (ih _ _)
          · split
            · exact (Grow.windDown _ _ _).after (gu.trans (Grow.same rfl rfl))
            · rename_i fid rest _ hq
              exact (ih _ _).after ((Grow.closeFlow _ fid false).after (gu.trans (Grow.same rfl rfl)))
            · exact gu

theorem Grow.runRetries (e : EP) (l : List Nat) : Grow e (runRetries e l).1 := by
  induction l generalizing e with
  | nil => exact Grow.refl e
  | cons req rest ih =>
    unfold Mux.runRetries
    split
    · exact ih e
    · rename_i r _
      exact (Grow.openRound e r).trans (ih _)

theorem Grow.runDone (e : EP) (l : List (Nat × Nat)) : Grow e (runDone e l).1 := by
  induction l generalizing e with
  | nil => exact Grow.refl e
  | cons x rest ih =>
    obtain ⟨req, i⟩ := x
    unfold Mux.runDone
    exact (Grow.same rfl rfl : Grow e { e with handles := e.handles ++ [i] }).trans (ih _)

theorem Grow.hold (e : EP) (c : Bool) : Grow e (if c then (e, ([] : List Ev)) else Mux.sendSome e).1 := by
  split
  · exact Grow.refl e
  · exact Grow.sendSome e

theorem Grow.settle (e : EP) : Grow e (settle e).1 := by
  have h1 := Grow.settleLoop (2 * e.inbox.length + e.droppedq.length + 2) e []
  unfold Mux.settle
  generalize Mux.settleLoop (2 * e.inbox.length + e.droppedq.length + 2) e [] = r1 at h1
  obtain ⟨e1, evs1⟩ := r1
  simp only
  have s1 := Grow.hold e1 (e1.dead || e1.draining.isSome)
  generalize (if (e1.dead || e1.draining.isSome) = true then (e1, ([] : List Ev)) else Mux.sendSome e1) = r2 at s1
  obtain ⟨e2, w2⟩ := r2
  simp only at s1 ⊢
  have s2 : Grow e2 (Mux.runDone { e2 with doneq := [] } (e2.doneq.foldr insertDone [])).1 :=
    (Grow.same rfl rfl : Grow e2 { e2 with doneq := [] }).trans (Grow.runDone _ _)
  generalize Mux.runDone { e2 with doneq := [] } (e2.doneq.foldr insertDone []) = r3 at s2
  obtain ⟨e3, w3⟩ := r3
  simp only at s2 ⊢
  have s3 : Grow e3 (Mux.runRetries { e3 with retryq := [] } (sortNat e3.retryq)).1 :=
    (Grow.same rfl rfl : Grow e3 { e3 with retryq := [] }).trans (Grow.runRetries _ _)
  generalize Mux.runRetries { e3 with retryq := [] } (sortNat e3.retryq) = r4 at s3
  obtain ⟨e4, w4⟩ := r4
  simp only at s3 ⊢
  have s4 := Grow.hold e4 (e4.dead || e4.draining.isSome)
  exact h1.trans (((s1.trans s2).trans s3).trans s4)

/-! ### Application calls -/

theorem Grow.appWrite (e : EP) (h : Nat) (d : Bytes) : Grow e (appWrite e h d).1 := by
  unfold Mux.appWrite
  split
  · exact Grow.refl e
  · split
    · exact Grow.modObj e _ _ (fun o => rfl)
    · split
      · exact Grow.modObj e _ _ (fun o => rfl)
      · split
        · exact Grow.modObj e _ _ (fun o => rfl)
        · split
          · exact Grow.modObj e _ _ (fun o => rfl)
          · exact (Grow.enqFrame _ _).after (Grow.modObj e _ _ (fun o => rfl))

theorem Grow.ackStep (e : EP) (i : Nat) (o : Obj) : Grow e (ackStep e i o) := by
  unfold Mux.ackStep
  split
  · exact (Grow.enqFrame _ _).after (Grow.modObj e _ _ (fun o => rfl))
  · exact Grow.modObj e _ _ (fun o => rfl)

theorem Grow.fillBuf (fuel : Nat) (e : EP) (i : Nat) : Grow e (fillBuf fuel e i).1 := by
  induction fuel generalizing e with
  | zero => exact Grow.refl e
  | succ n ih =>
    unfold Mux.fillBuf
    split
    · exact Grow.refl e
    · split
      · exact Grow.refl e
      · split
        · rename_i _ o _ _ _ f rest _
          have s := (Grow.modObj e i (fun o => { o with rxq := rest, buf := f }) (fun o => rfl)).trans
            (Grow.ackStep _ i { o with rxq := rest, buf := f })
          simp only
          split
          · exact s.trans (ih _)
          · exact s
        · split
          · exact Grow.refl e
          · exact Grow.modObj e _ _ (fun o => rfl)

theorem Grow.appRead (e : EP) (h n : Nat) : Grow e (appRead e h n).1 := by
  unfold Mux.appRead
  split
  · exact Grow.refl e
  · rename_i i o _
    have s := Grow.fillBuf (o.rxq.length + 2) e i
    split
    · rename_i e' b heq
      rw [heq] at s
      exact s.trans (Grow.modObj _ _ _ (fun o => rfl))
    · exact s

theorem Grow.appShutdown (e : EP) (h : Nat) : Grow e (appShutdown e h).1 := by
  unfold Mux.appShutdown
  split
  · exact Grow.refl e
  · split
    · exact Grow.modObj e _ _ (fun o => rfl)
    · exact (Grow.enqFrame _ _).after (Grow.modObj e _ _ (fun o => rfl))

theorem Grow.appDropStream (e : EP) (h : Nat) : Grow e (appDropStream e h).1 := by
  unfold Mux.appDropStream
  split
  · exact Grow.refl e
  · simp only
    split
    · exact Grow.modObj e _ _ (fun o => rfl)
    · exact (Grow.modObj e _ (fun o => { o with rxOpen := false, rxq := [], parked := false }) (fun o => rfl)).trans
        (Grow.same rfl rfl)

theorem Grow.appAccept (e : EP) : Grow e (appAccept e).1 := by
  unfold Mux.appAccept
  split
  · split
    · exact Grow.same rfl rfl
    · exact Grow.refl e
  · split <;> exact Grow.refl e

theorem Grow.appSendDgram (e : EP) (d : Dgram) : Grow e (appSendDgram e d).1 := by
  unfold Mux.appSendDgram
  split
  · exact Grow.refl e
  · split
    · exact Grow.refl e
    · exact Grow.enqFrame _ _

theorem Grow.appRecvDgram (e : EP) : Grow e (appRecvDgram e).1 := by
  unfold Mux.appRecvDgram
  split
  · exact Grow.same rfl rfl
  · split <;> exact Grow.refl e

theorem Grow.appBindReq (e : EP) (req : Nat) (bt : BindType) (host : Bytes) (port : Nat) :
    Grow e (appBindReq e req bt host port).1 := by
  unfold Mux.appBindReq
  split
  · exact Grow.refl e
  · rename_i fid rng' fb' hd
    split
    · exact Grow.same rfl rfl
    · have s : Grow e { e with rng := rng', fallback := fb', flows := insert e.flows fid (.bindRequested req) } :=
        (Grow.insertPending e fid (.bindRequested req) (by intro i hc; cases hc)).trans (Grow.same rfl rfl)
      exact s.trans (Grow.enqFrame _ _)

theorem Grow.appBindNext (e : EP) : Grow e (appBindNext e).1 := by
  unfold Mux.appBindNext
  split
  · exact Grow.refl e
  · split
    · exact Grow.same rfl rfl
    · split <;> exact Grow.refl e

theorem Grow.appBindReply (e : EP) (k : Nat) (a : Bool) : Grow e (appBindReply e k a).1 := by
  unfold Mux.appBindReply
  split
  · exact Grow.refl e
  · split
    · exact Grow.refl e
    · split
      · exact Grow.refl e
      · exact (Grow.enqFrame e _).trans (Grow.same rfl rfl)

theorem Grow.appBindDrop (e : EP) (k : Nat) : Grow e (appBindDrop e k).1 := by
  unfold Mux.appBindDrop
  split
  · exact Grow.refl e
  · split
    · exact Grow.refl e
    · simp only
      split
      · exact Grow.same rfl rfl
      · exact (Grow.enqFrame _ _).after (Grow.same rfl rfl)

theorem Grow.foldEnq (l : List BindIn) (e : EP) :
    Grow e (l.foldl (fun e b => e.enqFrame (.reset b.fid)) e) := by
  induction l generalizing e with
  | nil => exact Grow.refl e
  | cons b rest ih => exact (Grow.enqFrame e _).trans (ih _)

theorem Grow.appDropMux (e : EP) : Grow e (appDropMux e).1 := by
  unfold Mux.appDropMux
  simp only
  have s1 : Grow e { e with muxAlive := false, droppedq := if e.dead then e.droppedq else e.droppedq ++ [0] } :=
    Grow.same rfl rfl
  exact (s1.trans (Grow.foldEnq e.bindq _)).trans (Grow.same rfl rfl)

theorem Grow.opStep (e : EP) (op : Op) : Grow e (opStep e op).1 := by
  cases op with
  | «open» req host port =>
    simp only [Mux.opStep]
    split
    · exact Grow.refl e
    · exact Grow.openRound e _
  | accept => exact Grow.appAccept e
  | write h d => exact Grow.appWrite e h d
  | read h n => exact Grow.appRead e h n
  | shutdown h => exact Grow.appShutdown e h
  | dropStream h => exact Grow.appDropStream e h
  | sendDgram d => exact Grow.appSendDgram e d
  | recvDgram => exact Grow.appRecvDgram e
  | bindReq req bt host port => exact Grow.appBindReq e req bt host port
  | bindNext => exact Grow.appBindNext e
  | bindReply k a => exact Grow.appBindReply e k a
  | bindDrop k => exact Grow.appBindDrop e k
  | dropMux => exact Grow.appDropMux e
  | sinkRoom n => exact Grow.same rfl rfl
  | cancelOpen req => exact Grow.same rfl rfl
  | deliver w =>
    simp only [Mux.opStep]
    split
    · exact Grow.refl e
    · split <;> exact Grow.same rfl rfl

/-! ### Every stimulus, every history -/

theorem Grow.applyOp (e : EP) (op : Op) : Grow e (applyOp e op).1 := by
  have h1 := Grow.opStep e op
  unfold Mux.applyOp
  generalize Mux.opStep e op = r at h1
  obtain ⟨e1, r1, evs1⟩ := r
  exact h1.trans (Grow.settle e1)

theorem Grow.runOps (e : EP) (ops : List Op) : Grow e (runOps e ops) := by
  induction ops generalizing e with
  | nil => exact Grow.refl e
  | cons op rest ih => exact (Grow.applyOp e op).trans (ih _)

/-- The invariant: well-formed (`Inv2`) and every `Established` slot under id `x` refers to an
    object of id `x`. -/
theorem applyOp_slotFid (e : EP) (op : Op) (h : Inv2 e) (hs : SlotFidE e) : SlotFidE (applyOp e op).1 :=
  (Grow.applyOp e op).slotFid h.1 hs

theorem runOps_slotFid (e : EP) (ops : List Op) (h : Inv2 e) (hs : SlotFidE e) : SlotFidE (runOps e ops) :=
  (Grow.runOps e ops).slotFid h.1 hs

theorem reachable_slotFid (o : Opts) (ops : List Op) : SlotFidE (runOps { opts := o } ops) :=
  runOps_slotFid _ ops (init_inv o) (by intro fid i ob h; simp [lookup] at h)

/-- Once no slot refers to stream object `i`, none ever does again — whatever the application and
    the peer do next, including a new `Connect` that reuses the flow id. -/
theorem no_slot_forever (e : EP) (i : Nat) (hi : i < e.objs.length) (h : NoSlotTo e i) (ops : List Op) :
    NoSlotTo (runOps e ops) i :=
  (Grow.runOps e ops).noSlot hi h

end Penguin.Mux
