/-
Where queued datagrams come from: for every history of one endpoint and ANY peer, the datagrams the task
noted while processing frames (queued ones, or all the `Datagram` frames it processed), followed by the
datagrams of the `Datagram` frames still waiting in the inbox, are a SUBSEQUENCE of the datagrams of the
`Datagram` frames the transport delivered, in delivery order — every delivered `Datagram` frame is
processed at most once, never out of order, with its four fields as delivered, and nothing that was not
delivered as a `Datagram` frame is ever queued.  Also: what is queued is a subsequence of what is
processed.
Core Lean only.
-/
import Penguin.Lemmas.MuxDgramHist
import Penguin.Lemmas.MuxIntegritySrc

namespace Penguin.Mux

local infixl:50 " <+ " => List.Sublist

/-- The datagram a transport item carries, if it is a `Datagram` frame. -/
def dgOfIn : WsIn → Option Dgram
  | .msg (.frame f) => dgOfFrame f
  | _ => none

/-- The datagrams of the `Datagram` frames among transport items, in order. -/
def dgIn (l : List WsIn) : List Dgram := l.filterMap dgOfIn

theorem dgIn_append (a b : List WsIn) : dgIn (a ++ b) = dgIn a ++ dgIn b := by simp [dgIn]

theorem dgIn_cons (w : WsIn) (r : List WsIn) : dgIn (w :: r) = (dgOfIn w).toList ++ dgIn r := by
  unfold dgIn
  rw [List.filterMap_cons]
  cases dgOfIn w <;> rfl

/-- An observation that notes, per frame, at most the frame's own datagram. -/
def DgObs.Own (φ : DgObs) : Prop := ∀ e f, φ e f <+ (dgOfFrame f).toList

theorem seenDg_own : DgObs.Own seenDg := fun _ _ => List.Sublist.refl _

theorem queuedDg_own : DgObs.Own queuedDg := by
  intro e f
  rw [queuedDg_eq]
  split
  · exact List.Sublist.refl _
  · exact List.nil_sublist _

theorem processInLogD_own (φ : DgObs) (hφ : φ.Own) (e : EP) (w : WsIn) : processInLogD φ e w <+ (dgOfIn w).toList := by
  cases w with
  | msg m =>
    cases m with
    | frame f => exact hφ e f
    | _ => exact List.nil_sublist _
  | _ => exact List.nil_sublist _

/-- One item: what is noted from it is its own datagram, at most once. -/
theorem processInLogD_sub (φ : DgObs) (hφ : φ.Own) (e : EP) (w : WsIn) (r : List WsIn) :
    processInLogD φ e w ++ dgIn r <+ dgIn (w :: r) := by
  rw [dgIn_cons]
  exact List.Sublist.append (processInLogD_own φ hφ e w) (List.Sublist.refl _)

theorem windDownInboxLogD_sub (φ : DgObs) (hφ : φ.Own) (e : EP) (l : List WsIn) : windDownInboxLogD φ e l <+ dgIn l := by
  induction l generalizing e with
  | nil => exact List.Sublist.refl _
  | cons w l ih =>
    cases w with
    | err => exact List.nil_sublist _
    | eof => exact List.nil_sublist _
    | msg m =>
      simp only [windDownInboxLogD]
      exact (List.Sublist.append (List.Sublist.refl _) (ih _)).trans (processInLogD_sub φ hφ e (.msg m) l)
    | bad b =>
      simp only [windDownInboxLogD]
      exact (List.Sublist.append (List.Sublist.refl _) (ih _)).trans (processInLogD_sub φ hφ e (.bad b) l)

/-! ### The relation -/

/-- From `e` to `e'`, with log `L`: `L` ++ the datagrams in `e'.inbox` are a subsequence of the datagrams
    in `e.inbox`. -/
def SrcD (e e' : EP) (L : List Dgram) : Prop := L ++ dgIn e'.inbox <+ dgIn e.inbox

theorem SrcD.silent {e e' : EP} (h : e'.inbox = e.inbox) : SrcD e e' [] := by
  unfold SrcD; rw [h]; exact List.Sublist.refl _

theorem SrcD.refl (e : EP) : SrcD e e [] := SrcD.silent rfl

theorem SrcD.trans {a b c : EP} {L1 L2 : List Dgram} (s : SrcD a b L1) (t : SrcD b c L2) : SrcD a c (L1 ++ L2) := by
  unfold SrcD at *
  rw [List.append_assoc]
  exact (List.Sublist.append (List.Sublist.refl _) t).trans s

theorem SrcD.log {e e' : EP} {L L' : List Dgram} (s : SrcD e e' L) (h : L' = L) : SrcD e e' L' := h ▸ s

theorem SrcD.trans0 {a b c : EP} {L : List Dgram} (s : SrcD a b []) (t : SrcD b c L) : SrcD a c L := (s.trans t).log rfl
theorem SrcD.trans1 {a b c : EP} {L : List Dgram} (s : SrcD a b L) (t : SrcD b c []) : SrcD a c L :=
  (s.trans t).log (by simp)

theorem SrcD.congr {e e' a a' : EP} {L : List Dgram} (s : SrcD e e' L) (h1 : a.inbox = e.inbox) (h2 : a'.inbox = e'.inbox) :
    SrcD a a' L := by
  unfold SrcD at *; rw [h1, h2]; exact s

/-- The whole log of a wind-down pass over the inbox, the inbox being emptied afterwards. -/
theorem SrcD.windDownPass (φ : DgObs) (hφ : φ.Own) (e e' : EP) (h : e'.inbox = []) :
    SrcD e e' (windDownInboxLogD φ e e.inbox) := by
  unfold SrcD; rw [h]
  simpa [dgIn] using windDownInboxLogD_sub φ hφ e e.inbox

theorem SrcD.windDownTail (φ : DgObs) (hφ : φ.Own) (e1 : EP) (flushed : List Ev) (srcEnded : Bool) (res : ExitRes) :
    SrcD e1 (windDownTail e1 flushed srcEnded res).1 (windDownTailLogD φ e1) := by
  simp only [Mux.windDownTail, windDownTailLogD]
  split
  · exact SrcD.windDownPass φ hφ e1 _ (by rw [windDownFinish_inbox])
  · exact SrcD.windDownPass φ hφ e1 _ rfl

theorem SrcD.windDown (φ : DgObs) (hφ : φ.Own) (e : EP) (drain : Bool) (res : ExitRes) :
    SrcD e (windDown e drain res).1 (windDownLogD φ e drain) := by
  simp only [Mux.windDown, windDownLogD]
  have hd : (Mux.sendSome (Mux.dropPrep e)).1.inbox = e.inbox := by
    rw [sendSome_inbox]; exact disallowAll_inbox' e e.flows
  split
  · split
    · exact (SrcD.silent hd).trans0 (SrcD.windDownTail φ hφ _ _ _ _)
    · exact SrcD.silent hd
  · exact (SrcD.silent (disallowAll_inbox' e e.flows) : SrcD e (Mux.windDownPrep e) []).trans0
      (SrcD.windDownTail φ hφ _ _ _ _)

theorem SrcD.drainStep (φ : DgObs) (hφ : φ.Own) (e : EP) (res : ExitRes) :
    SrcD e (drainStep e res).1 (drainStepLogD φ e) := by
  simp only [Mux.drainStep, drainStepLogD]
  split
  · exact (SrcD.silent (sendSome_inbox e) : SrcD e { (Mux.sendSome e).1 with draining := none } []).trans0
      (SrcD.windDownTail φ hφ _ _ _ _)
  · exact SrcD.silent (sendSome_inbox e)

theorem SrcD.closingStep (φ : DgObs) (hφ : φ.Own) (e : EP) (res : ExitRes) :
    SrcD e (closingStep e res).1 (closingStepLogD φ e) := by
  simp only [Mux.closingStep, closingStepLogD]
  split
  · exact SrcD.windDownPass φ hφ e _ (by rw [windDownFinish_inbox])
  · exact SrcD.windDownPass φ hφ e _ rfl

/-- The receive loop takes the oldest item. -/
theorem SrcD.recvOne (φ : DgObs) (hφ : φ.Own) (e : EP) (w : WsIn) (rest : List WsIn) (hi : e.inbox = w :: rest) :
    SrcD e (recvOne e w rest).1 (recvOneLogD φ e w rest) := by
  unfold SrcD
  simp only [Mux.recvOne, recvOneLogD]
  rw [processIn_inbox, hi]
  exact processInLogD_sub φ hφ _ w rest

theorem SrcD.settleLoop (φ : DgObs) (hφ : φ.Own) (fuel : Nat) (e : EP) (acc : List Ev) :
    SrcD e (settleLoop fuel e acc).1 (settleLoopLogD φ fuel e) := by
  induction fuel generalizing e acc with
  | zero => exact SrcD.refl e
  | succ n ih =>
    unfold Mux.settleLoop settleLoopLogD
    split
    · exact SrcD.refl e
    · split
      · rename_i res hdr
        simp only [hdr]
        exact SrcD.drainStep φ hφ _ _
      · rename_i hdr
        simp only [hdr]
        split
        · rename_i res hcl
          simp only [hcl]
          exact SrcD.closingStep φ hφ _ _
        · rename_i hcl
          simp only [hcl]
          have gu : SrcD e (Mux.unpark e) [] := SrcD.silent (unpark_inbox' e)
          split
          · rename_i w rest hp hi
            rw [recvCase_pos _ _ hp hi]
            have gp := gu.trans0 (SrcD.recvOne φ hφ (Mux.unpark e) w rest hi)
            split
            · rename_i r hr
              simp only [hr]
              exact gp.trans (SrcD.windDown φ hφ _ _ _)
            · rename_i hr
              simp only [hr]
              exact gp.trans (ih _ _)
          · rename_i hneg
            rw [recvCase_neg _ _ hneg]
            split
            · rename_i rest hq
              simp only [hq]
              exact gu.trans0 ((SrcD.windDown φ hφ { Mux.unpark e with droppedq := rest } true .ok).congr rfl rfl)
            · rename_i fid rest h0 hq
              simp only [hq]
              exact (gu.trans0 (SrcD.silent (closeFlow_inbox { Mux.unpark e with droppedq := rest } fid false))).trans0 (ih _ _)
            · rename_i hq
              simp only [hq]
              exact gu

/-- The task's run to quiescence consumes inbox items in order; what it notes is what it consumed. -/
theorem SrcD.settle (φ : DgObs) (hφ : φ.Own) (e : EP) : SrcD e (settle e).1 (settleLogD φ e) := by
  have h1 := SrcD.settleLoop φ hφ (2 * e.inbox.length + e.droppedq.length + 2) e []
  unfold Mux.settle
  unfold settleLogD
  generalize Mux.settleLoop (2 * e.inbox.length + e.droppedq.length + 2) e [] = r1 at h1
  obtain ⟨e1, evs1⟩ := r1
  simp only
  have s1 := hold_inbox e1 (e1.dead || e1.draining.isSome)
  generalize (if (e1.dead || e1.draining.isSome) = true then (e1, ([] : List Ev)) else Mux.sendSome e1) = r2 at s1
  obtain ⟨e2, w2⟩ := r2
  simp only at s1 ⊢
  have s2 : (Mux.runDone { e2 with doneq := [] } (e2.doneq.foldr insertDone [])).1.inbox = e2.inbox := by
    rw [runDone_inbox]
  generalize Mux.runDone { e2 with doneq := [] } (e2.doneq.foldr insertDone []) = r3 at s2
  obtain ⟨e3, w3⟩ := r3
  simp only at s2 ⊢
  have s3 : (Mux.runRetries { e3 with retryq := [] } (sortNat e3.retryq)).1.inbox = e3.inbox := by
    rw [runRetries_inbox]
  generalize Mux.runRetries { e3 with retryq := [] } (sortNat e3.retryq) = r4 at s3
  obtain ⟨e4, w4⟩ := r4
  simp only at s3 ⊢
  have s4 := hold_inbox e4 (e4.dead || e4.draining.isSome)
  exact h1.trans1 (SrcD.silent (by rw [s4, s3, s2, s1]))

/-! ### A delivery appends to the inbox (or is ignored) -/

/-- The datagram a stimulus delivers. -/
def deliveredDgBy : Op → List Dgram
  | .deliver w => (dgOfIn w).toList
  | _ => []

/-- The datagrams of the `Datagram` frames the transport delivered along a history, in order. -/
def deliveredDg : List Op → List Dgram
  | [] => []
  | op :: rest => deliveredDgBy op ++ deliveredDg rest

theorem deliveredDg_append (a b : List Op) : deliveredDg (a ++ b) = deliveredDg a ++ deliveredDg b := by
  induction a with
  | nil => rfl
  | cons op r ih => simp [deliveredDg, ih]

/-- A stimulus adds to the inbox at most what it delivers. -/
theorem opStep_dgIn (e : EP) (op : Op) : dgIn (opStep e op).1.inbox <+ dgIn e.inbox ++ deliveredDgBy op := by
  have keep : ∀ e' : EP, e'.inbox = e.inbox → dgIn e'.inbox <+ dgIn e.inbox ++ deliveredDgBy op := by
    intro e' h; rw [h]; exact List.sublist_append_left _ _
  cases op with
  | «open» req host port =>
    simp only [Mux.opStep]
    split
    · exact keep _ rfl
    · exact keep _ (openRound_inbox e _)
  | accept => exact keep _ (appAccept_inbox e)
  | write h d => exact keep _ (appWrite_inbox e h d)
  | read h n => exact keep _ (appRead_inbox e h n)
  | shutdown h => exact keep _ (appShutdown_inbox e h)
  | dropStream h => exact keep _ (appDropStream_inbox e h)
  | sendDgram d => exact keep _ (appSendDgram_inbox e d)
  | recvDgram => exact keep _ (appRecvDgram_inbox e)
  | bindReq req bt host port => exact keep _ (appBindReq_inbox e req bt host port)
  | bindNext => exact keep _ (appBindNext_inbox e)
  | bindReply k a => exact keep _ (appBindReply_inbox e k a)
  | bindDrop k => exact keep _ (appBindDrop_inbox e k)
  | dropMux => exact keep _ (appDropMux_inbox e)
  | sinkRoom n => exact keep _ rfl
  | cancelOpen req => exact keep _ rfl
  | deliver w =>
    simp only [Mux.opStep]
    split
    · exact keep _ rfl
    · split
      · show dgIn (e.inbox ++ [.msg .close, .eof]) <+ _
        rw [dgIn_append]
        exact List.Sublist.append (List.Sublist.refl _) (List.nil_sublist _)
      · show dgIn (e.inbox ++ [w]) <+ _
        rw [dgIn_append, dgIn_cons]
        exact List.Sublist.append (List.Sublist.refl _) (by simp [deliveredDgBy, dgIn])

/-- One stimulus. -/
theorem srcD_step (φ : DgObs) (hφ : φ.Own) (e : EP) (op : Op) (acc D : List Dgram) (h : acc ++ dgIn e.inbox <+ D) :
    (acc ++ settleLogD φ (opStep e op).1) ++ dgIn (applyOp e op).1.inbox <+ D ++ deliveredDgBy op := by
  have h1 := opStep_dgIn e op
  have h2 : SrcD (opStep e op).1 (applyOp e op).1 (settleLogD φ (opStep e op).1) := SrcD.settle φ hφ _
  unfold SrcD at h2
  rw [List.append_assoc]
  have h3 : acc ++ (settleLogD φ (opStep e op).1 ++ dgIn (applyOp e op).1.inbox) <+ acc ++ (dgIn e.inbox ++ deliveredDgBy op) :=
    List.Sublist.append (List.Sublist.refl _) (h2.trans h1)
  exact h3.trans (by rw [← List.append_assoc]; exact List.Sublist.append h (List.Sublist.refl _))

/-- Every history: the queued datagrams (and: all the processed ones), then the datagrams still in the
    inbox, are a subsequence of the delivered datagrams. -/
theorem srcD_run (e : EP) (g : DGhost) (D : List Dgram) (ops : List Op)
    (hq : g.queued ++ dgIn e.inbox <+ D) (hs : g.seen ++ dgIn e.inbox <+ D) :
    (runOpsD e g ops).2.queued ++ dgIn (runOpsD e g ops).1.inbox <+ D ++ deliveredDg ops ∧
    (runOpsD e g ops).2.seen ++ dgIn (runOpsD e g ops).1.inbox <+ D ++ deliveredDg ops := by
  induction ops generalizing e g D with
  | nil => simpa [runOpsD, deliveredDg] using ⟨hq, hs⟩
  | cons op rest ih =>
    simp only [runOpsD, deliveredDg]
    rw [← List.append_assoc]
    exact ih _ _ _ (srcD_step queuedDg queuedDg_own e op _ _ hq) (srcD_step seenDg seenDg_own e op _ _ hs)

/-! ### What is queued is a subsequence of what is processed -/

theorem processInLogD_mono (φ ψ : DgObs) (h : ∀ e f, φ e f <+ ψ e f) (e : EP) (w : WsIn) :
    processInLogD φ e w <+ processInLogD ψ e w := by
  cases w with
  | msg m =>
    cases m with
    | frame f => exact h e f
    | _ => exact List.Sublist.refl _
  | _ => exact List.Sublist.refl _

theorem windDownInboxLogD_mono (φ ψ : DgObs) (h : ∀ e f, φ e f <+ ψ e f) (e : EP) (l : List WsIn) :
    windDownInboxLogD φ e l <+ windDownInboxLogD ψ e l := by
  induction l generalizing e with
  | nil => exact List.Sublist.refl _
  | cons w l ih =>
    cases w with
    | err => exact List.Sublist.refl _
    | eof => exact List.Sublist.refl _
    | msg m =>
      simp only [windDownInboxLogD]
      exact List.Sublist.append (processInLogD_mono φ ψ h e _) (ih _)
    | bad b =>
      simp only [windDownInboxLogD]
      exact List.Sublist.append (processInLogD_mono φ ψ h e _) (ih _)

theorem windDownLogD_mono (φ ψ : DgObs) (h : ∀ e f, φ e f <+ ψ e f) (e : EP) (drain : Bool) :
    windDownLogD φ e drain <+ windDownLogD ψ e drain := by
  unfold windDownLogD windDownTailLogD
  split
  · split
    · exact windDownInboxLogD_mono φ ψ h _ _
    · exact List.Sublist.refl _
  · exact windDownInboxLogD_mono φ ψ h _ _

theorem settleLoopLogD_mono (φ ψ : DgObs) (h : ∀ e f, φ e f <+ ψ e f) (fuel : Nat) (e : EP) :
    settleLoopLogD φ fuel e <+ settleLoopLogD ψ fuel e := by
  induction fuel generalizing e with
  | zero => exact List.Sublist.refl _
  | succ n ih =>
    unfold settleLoopLogD
    split
    · exact List.Sublist.refl _
    · split
      · unfold drainStepLogD windDownTailLogD
        split
        · exact windDownInboxLogD_mono φ ψ h _ _
        · exact List.Sublist.refl _
      · split
        · exact windDownInboxLogD_mono φ ψ h _ _
        · unfold recvCase
          split
          · simp only []
            split
            · exact List.Sublist.append (processInLogD_mono φ ψ h _ _) (windDownLogD_mono φ ψ h _ _)
            · exact List.Sublist.append (processInLogD_mono φ ψ h _ _) (ih _)
          · split
            · exact windDownLogD_mono φ ψ h _ _
            · exact ih _
            · exact List.Sublist.refl _

theorem queuedDg_sub_seenDg (e : EP) (f : Frame) : queuedDg e f <+ seenDg e f := by
  rw [queuedDg_eq]
  split
  · exact List.Sublist.refl _
  · exact List.nil_sublist _

/-- Along every history, the queued datagrams are a subsequence of the processed ones. -/
theorem queued_sub_seen (e : EP) (g : DGhost) (ops : List Op) (h : g.queued <+ g.seen) :
    (runOpsD e g ops).2.queued <+ (runOpsD e g ops).2.seen := by
  induction ops generalizing e g with
  | nil => exact h
  | cons op rest ih =>
    simp only [runOpsD]
    exact ih _ _ (List.Sublist.append h (settleLoopLogD_mono queuedDg seenDg queuedDg_sub_seenDg _ _))

end Penguin.Mux
