/-
Second part of the invariant of one direction of bind traffic (`Lemmas/BindDir`): the links between a
request of the asking side and the `BindRequest` it became at the answering side are one-to-one, and a
linked request that is still unresolved is exactly there (awaiting the decision, or its answer is on
its way back).  `DirInv` bundles both parts; the moves preserve it.  Core Lean only.
-/
import Penguin.Lemmas.BindDir

namespace Penguin.BindPair
open Penguin.Mux

structure DirInj (d : Dir) : Prop where
  /-- a request owns at most one flow id -/
  uniq : ∀ x y r, ownerF d.flows x = some r → ownerF d.flows y = some r → x = y
  /-- a linked request that still owns an id: its `BindRequest` awaits the decision, or the answer travels -/
  lko : ∀ r k, (r, k) ∈ d.links → ∀ x, ownerF d.flows x = some r →
          ∃ b, d.held[k]? = some b ∧ b.fid = x ∧ (b.pending = true ∨ ∃ acc, (x, acc) ∈ d.anss)
  injR : (d.links.map (·.1)).Nodup
  injK : (d.links.map (·.2)).Nodup

/-- The whole invariant of one direction. -/
structure DirInv (d : Dir) : Prop where
  core : DirCore d
  inj : DirInj d

theorem DirInv.of_eq {d d' : Dir} (h : DirInv d) (e : d' = d) : DirInv d' := e ▸ h

theorem DirInv.owner_of_mem {d : Dir} (h : DirInv d) {x : Nat} (hx : x ∈ d.toks) : ∃ req, ownerF d.flows x = some req :=
  h.core.owner_of_mem hx

theorem recOf_fid {r : Nat} {b b' : BindIn} (h : recOf r b' = recOf r b) : b'.fid = b.fid := by
  have := congrArg Asked.fid h
  exact this

theorem DirCore.link_req_asked {d : Dir} (h : DirCore d) {r k : Nat} (hl : (r, k) ∈ d.links) : r ∈ d.asked.map (·.req) := by
  obtain ⟨b, _, ha⟩ := h.lkf r k hl
  exact List.mem_map.mpr ⟨recOf r b, ha, rfl⟩

theorem DirInv.ask {d : Dir} (h : DirInv d) (req x : Nat) (bt : BindType) (host : Bytes) (port : Nat)
    (hx : lookup d.flows x = none) (hreq : req ∉ d.asked.map (·.req)) : DirInv (d.ask req x bt host port) := by
  refine ⟨h.core.ask req x bt host port hx, ?_⟩
  have hown : ∀ y r, ownerF (insert d.flows x (.bindRequested req)) y = some r → (y = x ∧ r = req) ∨ (y ≠ x ∧ ownerF d.flows y = some r) := by
    intro y r hy
    by_cases hyx : y = x
    · subst hyx; rw [ownerF_insert_self] at hy; exact Or.inl ⟨rfl, by cases hy; rfl⟩
    · rw [ownerF_insert_ne _ _ _ _ hyx] at hy; exact Or.inr ⟨hyx, hy⟩
  refine ⟨?_, ?_, h.inj.injR, h.inj.injK⟩
  · intro y z r hy hz
    rcases hown _ _ hy with ⟨hy1, hy2⟩ | ⟨_, hy2⟩ <;> rcases hown _ _ hz with ⟨hz1, hz2⟩ | ⟨_, hz2⟩
    · rw [hy1, hz1]
    · subst hy2; exact absurd (h.core.own z _ hz2) hreq
    · subst hz2; exact absurd (h.core.own y _ hy2) hreq
    · exact h.inj.uniq y z r hy2 hz2
  · intro r k hl y hy
    rcases hown _ _ hy with ⟨_, hy2⟩ | ⟨_, hy2⟩
    · subst hy2; exact absurd (h.core.link_req_asked hl) hreq
    · exact h.inj.lko r k hl y hy2

theorem DirInv.askClosed {d : Dir} (h : DirInv d) (req : Nat) : DirInv (d.askClosed req) :=
  ⟨h.core.askClosed req, ⟨h.inj.uniq, h.inj.lko, h.inj.injR, h.inj.injK⟩⟩

/-- `DirInj` only looks at the table, the held requests, the links and which ids have an answer under way. -/
theorem DirInj.shuffle {d d' : Dir} (h : DirInj d) (hf : d'.flows = d.flows) (hh : d'.held = d.held)
    (hlinks : d'.links = d.links) (hans : ∀ x acc, (x, acc) ∈ d.anss → (x, acc) ∈ d'.anss) : DirInj d' := by
  refine ⟨?_, ?_, ?_, ?_⟩
  · rw [hf]; exact h.uniq
  · intro r k hl x hx
    rw [hlinks] at hl; rw [hf] at hx
    obtain ⟨b, hb, hfx, hp⟩ := h.lko r k hl x hx
    refine ⟨b, by rw [hh]; exact hb, hfx, ?_⟩
    rcases hp with hp | ⟨acc, ha⟩
    · exact Or.inl hp
    · exact Or.inr ⟨acc, hans x acc ha⟩
  · rw [hlinks]; exact h.injR
  · rw [hlinks]; exact h.injK

theorem DirInv.recvBind {d : Dir} (h : DirInv d) (hp : d.park = none) : DirInv d.recvBind := by
  refine ⟨h.core.recvBind hp, ?_⟩
  unfold Dir.recvBind
  split
  · exact h.inj
  · split
    · exact h.inj.shuffle rfl rfl rfl (fun x acc ha => List.mem_append_left _ ha)
    · split
      · exact h.inj.shuffle rfl rfl rfl (fun x acc ha => ha)
      · exact h.inj.shuffle rfl rfl rfl (fun x acc ha => ha)

theorem DirInv.unpark {d : Dir} (h : DirInv d) : DirInv d.unpark := by
  refine ⟨h.core.unpark, ?_⟩
  unfold Dir.unpark
  split
  · exact h.inj
  · split
    · exact h.inj.shuffle rfl rfl rfl (fun x acc ha => ha)
    · exact h.inj

theorem count_two_le {l1 l2 : List Nat} {x : Nat} (h1 : x ∈ l1) (h2 : x ∈ l2) : 2 ≤ (l1 ++ l2).count x := by
  rw [List.count_append]
  have a := List.count_pos_iff.mpr h1
  have b := List.count_pos_iff.mpr h2
  omega

theorem DirInv.next {d : Dir} (h : DirInv d) : DirInv d.next := by
  refine ⟨h.core.next, ?_⟩
  unfold Dir.next
  split
  · exact h.inj
  · rename_i c rest hq
    have hcar : c ∈ d.reqs ++ parkL d.park ++ d.bindq := by rw [hq]; simp
    have hcp : c.pending = true := by
      have := (h.core.fld c hcar).1
      simp [BindIn.pending, this.1, this.2]
    obtain ⟨r, hr⟩ := h.core.owner_of_mem (Dir.mem_toks_carrier hcar)
    simp only [hr]
    -- the request is not linked yet: otherwise its id would be at two places
    have hnew : r ∉ d.links.map (·.1) := by
      intro hm
      obtain ⟨⟨r', k'⟩, hl, hr'⟩ := List.mem_map.mp hm
      simp only at hr'; subst hr'
      obtain ⟨b, hb, hfx, hp⟩ := h.inj.lko _ k' hl c.fid hr
      have hc1 := h.core.cnt c.fid
      rw [hr] at hc1
      simp only [Option.isSome_some, if_true] at hc1
      have hin1 : c.fid ∈ d.bindq.map (·.fid) := by rw [hq]; simp
      rcases hp with hp | ⟨acc, ha⟩
      · have hin2 : c.fid ∈ pendHeld d.held := hfx ▸ mem_pendHeld hb hp
        have := count_two_le hin1 hin2
        simp only [Dir.toks, List.count_append] at hc1 this
        omega
      · have hin2 : c.fid ∈ d.anss.map (·.1) := List.mem_map.mpr ⟨(c.fid, acc), ha, rfl⟩
        have h2a := List.count_pos_iff.mpr hin1
        have h2b := List.count_pos_iff.mpr hin2
        simp only [Dir.toks, List.count_append] at hc1
        omega
    have hklt : ∀ r' k', (r', k') ∈ d.links → k' < d.held.length := by
      intro r' k' hl
      obtain ⟨b, hb, _⟩ := h.core.lkf r' k' hl
      rcases Nat.lt_or_ge k' d.held.length with hlt | hge
      · exact hlt
      · rw [List.getElem?_eq_none hge] at hb; cases hb
    refine ⟨h.inj.uniq, ?_, ?_, ?_⟩
    · intro r' k' hl x hx
      simp only [List.mem_append, List.mem_singleton, Prod.mk.injEq] at hl
      rcases hl with hl | ⟨rfl, rfl⟩
      · obtain ⟨b, hb, hfx, hp⟩ := h.inj.lko r' k' hl x hx
        exact ⟨b, getElem?_append_some c hb, hfx, hp⟩
      · refine ⟨c, ?_, h.inj.uniq _ _ _ hr hx, Or.inl hcp⟩
        simp only [List.getElem?_append_right (Nat.le_refl _), Nat.sub_self, List.getElem?_cons_zero]
    · simp only [List.map_append, List.map_cons, List.map_nil]
      rw [List.nodup_append]
      refine ⟨h.inj.injR, by simp, ?_⟩
      intro a ha b hb
      simp only [List.mem_singleton] at hb
      subst hb
      exact fun e => hnew (e ▸ ha)
    · simp only [List.map_append, List.map_cons, List.map_nil]
      rw [List.nodup_append]
      refine ⟨h.inj.injK, by simp, ?_⟩
      intro a ha b hb
      simp only [List.mem_singleton] at hb
      subst hb
      obtain ⟨⟨r', k'⟩, hl, hk'⟩ := List.mem_map.mp ha
      simp only at hk'; subst hk'
      have := hklt r' _ hl
      omega

theorem DirInv.decide {d : Dir} (h : DirInv d) (k : Nat) (b : BindIn) (f : BindIn → BindIn) (acc : Bool)
    (hk : d.held[k]? = some b) (hp : b.pending = true) (hf : (f b).pending = false)
    (hsame : ∀ r, recOf r (f b) = recOf r b) : DirInv (d.decide k b f acc) := by
  refine ⟨h.core.decide k b f acc hk hp hf hsame, h.inj.uniq, ?_, h.inj.injR, h.inj.injK⟩
  intro r k' hl x hx
  obtain ⟨b', hb', hfx, hp'⟩ := h.inj.lko r k' hl x hx
  by_cases hkk : k = k'
  · subst hkk
    rw [hk] at hb'; cases hb'
    refine ⟨f b, getElem?_modify_self d.held k f b hk, (recOf_fid (hsame 0)).trans hfx, Or.inr ⟨acc, ?_⟩⟩
    simp only [Dir.decide, List.mem_append, List.mem_singleton]
    exact Or.inr (by rw [hfx])
  · refine ⟨b', by simp only [Dir.decide, getElem?_modify_other d.held k k' f hkk]; exact hb', hfx, ?_⟩
    rcases hp' with hp' | ⟨a, ha⟩
    · exact Or.inl hp'
    · exact Or.inr ⟨a, by simp only [Dir.decide, List.mem_append]; exact Or.inl ha⟩

theorem DirInv.touch {d : Dir} (h : DirInv d) (k : Nat) (b : BindIn) (f : BindIn → BindIn)
    (hk : d.held[k]? = some b) (hp : b.pending = false) (hf : (f b).pending = false)
    (hsame : ∀ r, recOf r (f b) = recOf r b) : DirInv (d.touch k f) := by
  refine ⟨h.core.touch k b f hk hp hf hsame, h.inj.uniq, ?_, h.inj.injR, h.inj.injK⟩
  intro r k' hl x hx
  obtain ⟨b', hb', hfx, hp'⟩ := h.inj.lko r k' hl x hx
  by_cases hkk : k = k'
  · subst hkk
    rw [hk] at hb'; cases hb'
    refine ⟨f b, getElem?_modify_self d.held k f b hk, (recOf_fid (hsame 0)).trans hfx, ?_⟩
    rcases hp' with hp' | hp'
    · rw [hp] at hp'; cases hp'
    · exact Or.inr hp'
  · exact ⟨b', by simp only [Dir.touch, getElem?_modify_other d.held k k' f hkk]; exact hb', hfx, hp'⟩

theorem DirInv.recvAns {d : Dir} (h : DirInv d) : DirInv d.recvAns := by
  refine ⟨h.core.recvAns, ?_⟩
  unfold Dir.recvAns
  split
  · exact h.inj
  · rename_i x acc rest hq
    have hmem : (x, acc) ∈ d.anss := by rw [hq]; simp
    obtain ⟨r, hr⟩ := h.core.owner_of_mem (Dir.mem_toks_ans hmem)
    simp only [hr]
    refine ⟨?_, ?_, h.inj.injR, h.inj.injK⟩
    · intro y z r' hy hz
      exact h.inj.uniq y z r' (ownerF_erase_some hy).2 (ownerF_erase_some hz).2
    · intro r' k hl y hy
      obtain ⟨hyx, hy'⟩ := ownerF_erase_some hy
      obtain ⟨b, hb, hfx, hp⟩ := h.inj.lko r' k hl y hy'
      refine ⟨b, hb, hfx, ?_⟩
      rcases hp with hp | ⟨a, ha⟩
      · exact Or.inl hp
      · rw [hq] at ha
        simp only [List.mem_cons, Prod.mk.injEq] at ha
        rcases ha with ⟨hyx', _⟩ | ha
        · exact absurd hyx' hyx
        · exact Or.inr ⟨a, ha⟩

end Penguin.BindPair
