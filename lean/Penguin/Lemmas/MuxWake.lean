/-
No lost wake-up at the level of the whole endpoint.

`Obj.wakeOk`: a writer that is parked (its last write poll returned Pending and registered the
waker) and has not been woken has no credit and its stream is open for writing — i.e. polling it
again would return Pending again.  Every function of the endpoint model preserves it (`Keeps`):
frames from any peer, application calls, the dropped-handle loop, the whole wind-down — wherever
credit is granted (`Acknowledge`) or the stream is closed for writing by the task (`Reset`, a queue
overrun, a dropped handle's notification, `disallow_write` on every flow at the start of the
wind-down) the writer is woken.  This is the invariant of C12's small-step model
(`Lemmas/Waker.lean`) lifted to the composite paths of `task.rs`, and exactly what the harness's
lost-wake-up monitor samples on the real code.
Core Lean only.
-/
import Penguin.Lemmas.MuxReach

namespace Penguin.Mux

def Obj.wakeOk (o : Obj) : Prop := o.parked = true → o.woken = false → o.credit = 0 ∧ o.finishSent = false

def WakeOk (e : EP) : Prop := ∀ (i : Nat) (o : Obj), e.objs[i]? = some o → o.wakeOk

/-- `e'` keeps the invariant of `e`. -/
def Keeps (e e' : EP) : Prop := WakeOk e → WakeOk e'

theorem Keeps.refl (e : EP) : Keeps e e := id
theorem Keeps.trans {a b c : EP} (s : Keeps a b) (t : Keeps b c) : Keeps a c := fun h => t (s h)
theorem Keeps.after {a b c : EP} (t : Keeps b c) (s : Keeps a b) : Keeps a c := s.trans t

/-- A woken writer: anything that agrees with `o.wake` on the two waker fields is fine. -/
theorem wakeOk_of_wake (o o' : Obj) (hp : o'.parked = o.wake.parked) (hw : o'.woken = o.wake.woken) : o'.wakeOk := by
  intro hp' hw'
  rw [hp] at hp'; rw [hw] at hw'
  unfold Obj.wake at hp' hw'
  split at hp' <;> simp_all

/-- The side condition of an object update that does not concern the writer, or clears `parked`. -/
macro "wk" : tactic =>
  `(tactic| (intro o _ h; first | exact h | (intro hp; exact absurd hp (by simp))))

/-! ### Building blocks -/

theorem Keeps.same {e e' : EP} (_hf : e'.flows = e.flows) (ho : e'.objs = e.objs) : Keeps e e' := by
  intro h i o hio; rw [ho] at hio; exact h i o hio

theorem Keeps.sub {e e' : EP} (ho : e'.objs = e.objs)
    (_hs : ∀ fid i, lookup e'.flows fid = some (.established i) → lookup e.flows fid = some (.established i)) :
    Keeps e e' := by
  intro h i o hio; rw [ho] at hio; exact h i o hio

theorem Keeps.modObj (e : EP) (i : Nat) (f : Obj → Obj) (hf : ∀ o, e.objs[i]? = some o → o.wakeOk → (f o).wakeOk) :
    Keeps e (e.modObj i f) := by
  intro h j o hjo
  by_cases hj : j = i
  · subst hj
    rw [modObj_get_self] at hjo
    cases ho : e.objs[j]? with
    | none => rw [ho] at hjo; cases hjo
    | some o0 =>
      rw [ho] at hjo; simp only [Option.map_some, Option.some.injEq] at hjo
      subst hjo
      exact hf o0 ho (h j o0 ho)
  · rw [modObj_get_ne _ _ _ _ hj] at hjo; exact h j o hjo

theorem Keeps.enq (e : EP) (m : Msg) : Keeps e (e.enq m) := Keeps.same (by simp) (by simp)
theorem Keeps.enqFrame (e : EP) (f : Frame) : Keeps e (e.enqFrame f) := Keeps.enq e _

theorem Keeps.erase (e : EP) (fid : Nat) : Keeps e { e with flows := erase e.flows fid } := fun h => h

theorem Keeps.insertPending (e : EP) (fid : Nat) (s : Slot) (_hs : ∀ i, s ≠ .established i) :
    Keeps e { e with flows := insert e.flows fid s } := fun h => h

theorem Keeps.newStream (e : EP) (fid : Nat) (o : Obj) (hf : o.wakeOk) :
    Keeps e { e with objs := e.objs ++ [o], flows := insert e.flows fid (.established e.objs.length) } := by
  intro h i o' hio
  have hio' : (e.objs ++ [o])[i]? = some o' := hio
  by_cases hi : i < e.objs.length
  · rw [List.getElem?_append_left hi] at hio'; exact h i o' hio'
  · have hlen : i < (e.objs ++ [o]).length := (List.getElem?_eq_some_iff.mp hio').1
    have : i = e.objs.length := by simp at hlen; omega
    subst this
    simp at hio'; subst hio'; exact hf

/-! ### Function by function -/

theorem Keeps.openRound (e : EP) (r : OpenReq) : Keeps e (openRound e r).1 := by
  unfold Mux.openRound
  split
  · exact Keeps.same rfl rfl
  · split
    · exact Keeps.same rfl rfl
    · rename_i fid rng' fb' hd
      have g : Keeps e { e with flows := insert e.flows fid (.requested r.req) } :=
        Keeps.insertPending e fid _ (by intro i hc; cases hc)
      simp only
      split
      · exact Keeps.same rfl rfl
      · exact (Keeps.enqFrame _ _).after (g.trans (Keeps.same rfl rfl))

theorem Keeps.openRejected (e : EP) (req : Nat) (final : Bool) : Keeps e (openRejected e req final).1 :=
  Keeps.same (openRejected_flows e req final) (openRejected_objs e req final)

theorem Keeps.closeLocal (e : EP) (s : Slot) (fid : Nat) (inh final : Bool) : Keeps e (closeLocal e s fid inh final).1 := by
  unfold Mux.closeLocal
  cases s with
  | established i =>
    simp only
    cases ho : e.obj? i with
    | none => exact Keeps.refl e
    | some o =>
      simp only
      have g := Keeps.modObj e i (fun o => { o.disallowWrite with senderAlive := false })
        (by intro o _ _; exact wakeOk_of_wake o _ rfl rfl)
      split
      · exact g.trans (Keeps.enqFrame _ _)
      · exact g
  | requested req => exact Keeps.openRejected e req final
  | bindRequested req => exact Keeps.refl e

theorem Keeps.closeFlow (e : EP) (fid : Nat) (inh : Bool) : Keeps e (closeFlow e fid inh).1 := by
  unfold Mux.closeFlow
  split
  · exact Keeps.refl e
  · exact (Keeps.erase e fid).trans (Keeps.closeLocal _ _ _ _ _)

theorem Keeps.offerAccept (e : EP) (i : Nat) : Keeps e (offerAccept e i) :=
  Keeps.same (offerAccept_flows e i) (offerAccept_objs e i)

theorem Keeps.offerBind (e : EP) (b : BindIn) : Keeps e (offerBind e b) :=
  Keeps.same (offerBind_flows e b) (offerBind_objs e b)

theorem Keeps.processFrame (e : EP) (f : Frame) (ig : Bool) : Keeps e (processFrame e f ig).1 := by
  cases f with
  | connect fid rwnd port host =>
    simp only [Mux.processFrame]
    split
    · exact Keeps.enqFrame _ _
    · have g := Keeps.newStream e fid (newObj e.opts fid rwnd host port) (by intro h; simp [newObj] at h)
      split
      · exact g
      · split
        · exact (Keeps.after (Keeps.modObj _ e.objs.length (fun o => { o with rxOpen := false }) (by wk)) (Keeps.after (Keeps.enqFrame _ (.acknowledge fid e.opts.rwnd)) g)).trans (Keeps.same rfl rfl)
        · exact Keeps.after (Keeps.offerAccept _ _) (Keeps.after (Keeps.enqFrame _ _) g)
  | acknowledge fid n =>
    simp only [Mux.processFrame]
    split
    · exact Keeps.modObj _ _ _ (by intro o _ _; exact wakeOk_of_wake o _ rfl rfl)
    · have g := Keeps.newStream e fid (newObj e.opts fid n [] 0) (by intro h; simp [newObj] at h)
      split
      · exact g.trans (Keeps.same rfl rfl)
      · exact (Keeps.after (Keeps.modObj _ e.objs.length (fun o => { o with rxOpen := false }) (by wk)) g).trans (Keeps.same rfl rfl)
    · exact Keeps.enqFrame _ _
    · exact Keeps.enqFrame _ _
  | finish fid =>
    simp only [Mux.processFrame]
    split
    · exact Keeps.enqFrame _ _
    · exact Keeps.erase e fid
    · exact (Keeps.enqFrame _ _).after ((Keeps.erase e fid).trans (Keeps.same rfl rfl))
    · exact Keeps.modObj _ _ _ (by wk)
  | reset fid =>
    simp only [Mux.processFrame]
    exact Keeps.closeFlow e fid true
  | push fid d =>
    simp only [Mux.processFrame]
    split
    · split
      · exact Keeps.refl e
      · split
        · exact Keeps.enqFrame _ _
        · split
          · exact Keeps.refl e
          · split
            · exact Keeps.modObj _ _ _ (by wk)
            · exact Keeps.closeFlow e fid false
    · exact Keeps.enqFrame _ _
  | bind fid bt port host =>
    simp only [Mux.processFrame]
    repeat' split
    all_goals first | exact Keeps.refl e | exact Keeps.enqFrame _ _ | exact Keeps.offerBind _ _
  | datagram fid port host d =>
    simp only [Mux.processFrame]
    repeat' split
    all_goals first | exact Keeps.refl e | exact Keeps.same rfl rfl

theorem Keeps.processIn (e : EP) (w : WsIn) (ig : Bool) : Keeps e (processIn e w ig).1 := by
  cases w with
  | msg m => cases m <;> first | exact Keeps.processFrame _ _ ig | exact Keeps.refl e
  | bad b => exact Keeps.refl e
  | err => exact Keeps.refl e
  | eof => exact Keeps.refl e

/-! ### Wind-down -/

theorem Keeps.disallowAll (e : EP) (l : List (Nat × Slot)) : Keeps e (disallowAll e l) := by
  induction l generalizing e with
  | nil => exact Keeps.refl e
  | cons p l ih =>
    obtain ⟨fid, s⟩ := p
    cases s with
    | established i =>
      simp only [Mux.disallowAll]
      exact (Keeps.modObj e i _ (by intro o _ _; exact wakeOk_of_wake o _ rfl rfl)).trans (ih _)
    | requested r => simp only [Mux.disallowAll]; exact ih e
    | bindRequested r => simp only [Mux.disallowAll]; exact ih e

theorem Keeps.windDownInbox (e : EP) (l : List WsIn) : Keeps e (windDownInbox e l).1 := by
  induction l generalizing e with
  | nil => exact Keeps.refl e
  | cons w l ih =>
    cases w with
    | err => exact Keeps.refl e
    | eof => exact Keeps.refl e
    | msg m =>
      simp only [Mux.windDownInbox]
      exact (ih _).after ((Keeps.processIn e (.msg m) true).trans (Keeps.same rfl rfl))
    | bad b =>
      simp only [Mux.windDownInbox]
      exact (ih _).after ((Keeps.processIn e (.bad b) true).trans (Keeps.same rfl rfl))

theorem Keeps.drainFlows (e : EP) (l : List (Nat × Slot)) : Keeps e (drainFlows e l).1 := by
  induction l generalizing e with
  | nil => exact Keeps.refl e
  | cons p l ih =>
    obtain ⟨fid, s⟩ := p
    simp only [Mux.drainFlows]
    exact (Keeps.closeLocal e s fid true true).trans (ih _)

theorem Keeps.windDownFinish (e : EP) (res : ExitRes) : Keeps e (windDownFinish e res).1 := by
  simp only [Mux.windDownFinish]
  have g0 : Keeps e { e with flows := [] } := Keeps.sub rfl (by intro fid i h; simp [lookup] at h)
  exact ((g0.trans (Keeps.drainFlows _ _)).trans (Keeps.same rfl rfl)).trans (Keeps.same rfl rfl)

theorem Keeps.windDownTail (e1 : EP) (flushed : List Ev) (srcEnded : Bool) (res : ExitRes) :
    Keeps e1 (windDownTail e1 flushed srcEnded res).1 := by
  have g := (Keeps.windDownInbox e1 e1.inbox).trans
    (Keeps.same rfl rfl : Keeps (Mux.windDownInbox e1 e1.inbox).1 { (Mux.windDownInbox e1 e1.inbox).1 with inbox := [] })
  simp only [Mux.windDownTail]
  split
  · exact g.trans (Keeps.windDownFinish _ res)
  · exact g.trans (Keeps.same rfl rfl)

theorem Keeps.sendSome (e : EP) : Keeps e (sendSome e).1 := by
  unfold Mux.sendSome
  split <;> exact Keeps.same rfl rfl

theorem Keeps.dropPrep (e : EP) : Keeps e (dropPrep e) :=
  (Keeps.disallowAll e e.flows).trans (Keeps.same rfl rfl)

theorem Keeps.windDown (e : EP) (drain : Bool) (res : ExitRes) : Keeps e (windDown e drain res).1 := by
  simp only [Mux.windDown]
  split
  · have g := (Keeps.dropPrep e).trans (Keeps.sendSome _)
    split
    · exact g.trans (Keeps.windDownTail _ _ _ _)
    · exact g.trans (Keeps.same rfl rfl)
  · exact ((Keeps.disallowAll e e.flows).trans (Keeps.same rfl rfl : Keeps (Mux.disallowAll e e.flows) (Mux.windDownPrep e))).trans
      (Keeps.windDownTail _ _ _ _)

/-! ### The task's loops -/

theorem Keeps.unpark (e : EP) : Keeps e (unpark e) := by
  unfold Mux.unpark
  split
  · exact Keeps.refl e
  · split
    · split
      · exact (Keeps.modObj e _ (fun o => { o with rxOpen := false }) (by wk)).trans (Keeps.same rfl rfl)
      · exact Keeps.same rfl rfl
    · split
      · exact Keeps.same rfl rfl
      · exact Keeps.refl e
  · split
    · exact (Keeps.same rfl rfl : Keeps e { e with park := none }).trans (Keeps.enqFrame _ _)
    · split
      · exact Keeps.same rfl rfl
      · exact Keeps.refl e

theorem Keeps.drainStep (e : EP) (res : ExitRes) : Keeps e (drainStep e res).1 := by
  simp only [Mux.drainStep]
  split
  · exact (Keeps.windDownTail _ _ _ _).after ((Keeps.sendSome e).trans (Keeps.same rfl rfl))
  · exact Keeps.sendSome e

theorem Keeps.closingStep (e : EP) (res : ExitRes) : Keeps e (closingStep e res).1 := by
  have g := (Keeps.windDownInbox e e.inbox).trans
    (Keeps.same rfl rfl : Keeps (Mux.windDownInbox e e.inbox).1 { (Mux.windDownInbox e e.inbox).1 with inbox := [] })
  simp only [Mux.closingStep]
  split
  · exact g.trans (Keeps.windDownFinish _ res)
  · exact g

theorem Keeps.recvOne (e : EP) (w : WsIn) (rest : List WsIn) : Keeps e (recvOne e w rest).1 := by
  simp only [Mux.recvOne]
  refine Keeps.after (Keeps.processIn _ _ _) ?_
  split <;> exact Keeps.same rfl rfl

theorem Keeps.settleLoop (fuel : Nat) (e : EP) (acc : List Ev) : Keeps e (settleLoop fuel e acc).1 := by
  induction fuel generalizing e acc with
  | zero => exact Keeps.refl e
  | succ n ih =>
    unfold Mux.settleLoop
    split
    · exact Keeps.refl e
    · split
      · exact Keeps.drainStep _ _
      · split
        · exact Keeps.closingStep _ _
        · have gu := Keeps.unpark e
          split
          · rename_i w rest _ _
            have gp := gu.trans (Keeps.recvOne (Mux.unpark e) w rest)
            split
            · exact gp.trans (Keeps.windDown _ _ _)
            · exact gp.trans (ih _ _)
          · split
            · exact (Keeps.windDown _ _ _).after (gu.trans (Keeps.same rfl rfl))
            · rename_i fid rest _ hq
              exact (ih _ _).after ((Keeps.closeFlow _ fid false).after (gu.trans (Keeps.same rfl rfl)))
            · exact gu

theorem Keeps.runRetries (e : EP) (l : List Nat) : Keeps e (runRetries e l).1 := by
  induction l generalizing e with
  | nil => exact Keeps.refl e
  | cons req rest ih =>
    unfold Mux.runRetries
    split
    · exact ih e
    · rename_i r _
      exact (Keeps.openRound e r).trans (ih _)

theorem Keeps.runDone (e : EP) (l : List (Nat × Nat)) : Keeps e (runDone e l).1 := by
  induction l generalizing e with
  | nil => exact Keeps.refl e
  | cons x rest ih =>
    obtain ⟨req, i⟩ := x
    unfold Mux.runDone
    exact (Keeps.same rfl rfl : Keeps e { e with handles := e.handles ++ [i] }).trans (ih _)

theorem Keeps.hold (e : EP) (c : Bool) : Keeps e (if c then (e, ([] : List Ev)) else Mux.sendSome e).1 := by
  split
  · exact Keeps.refl e
  · exact Keeps.sendSome e

theorem Keeps.settle (e : EP) : Keeps e (settle e).1 := by
  have h1 := Keeps.settleLoop (2 * e.inbox.length + e.droppedq.length + 2) e []
  unfold Mux.settle
  generalize Mux.settleLoop (2 * e.inbox.length + e.droppedq.length + 2) e [] = r1 at h1
  obtain ⟨e1, evs1⟩ := r1
  simp only
  have s1 := Keeps.hold e1 (e1.dead || e1.draining.isSome)
  generalize (if (e1.dead || e1.draining.isSome) = true then (e1, ([] : List Ev)) else Mux.sendSome e1) = r2 at s1
  obtain ⟨e2, w2⟩ := r2
  simp only at s1 ⊢
  have s2 : Keeps e2 (Mux.runDone { e2 with doneq := [] } (e2.doneq.foldr insertDone [])).1 :=
    (Keeps.same rfl rfl : Keeps e2 { e2 with doneq := [] }).trans (Keeps.runDone _ _)
  generalize Mux.runDone { e2 with doneq := [] } (e2.doneq.foldr insertDone []) = r3 at s2
  obtain ⟨e3, w3⟩ := r3
  simp only at s2 ⊢
  have s3 : Keeps e3 (Mux.runRetries { e3 with retryq := [] } (sortNat e3.retryq)).1 :=
    (Keeps.same rfl rfl : Keeps e3 { e3 with retryq := [] }).trans (Keeps.runRetries _ _)
  generalize Mux.runRetries { e3 with retryq := [] } (sortNat e3.retryq) = r4 at s3
  obtain ⟨e4, w4⟩ := r4
  simp only at s3 ⊢
  have s4 := Keeps.hold e4 (e4.dead || e4.draining.isSome)
  exact h1.trans (((s1.trans s2).trans s3).trans s4)

/-! ### Application calls -/

theorem Keeps.appWrite (e : EP) (h : Nat) (d : Bytes) : Keeps e (appWrite e h d).1 := by
  unfold Mux.appWrite
  split
  · exact Keeps.refl e
  · rename_i i o hh
    have ho := handleObj_some hh
    split
    · exact Keeps.modObj e _ _ (by wk)
    · split
      · exact Keeps.modObj e _ _ (by wk)
      · split
        · rename_i hf _ hc
          refine Keeps.modObj e _ _ ?_
          intro o' ho' _ _ _
          rw [ho] at ho'; cases ho'
          exact ⟨hc, by simpa using hf⟩
        · split
          · exact Keeps.modObj e _ _ (by wk)
          · exact (Keeps.enqFrame _ _).after (Keeps.modObj e _ _ (by wk))

theorem Keeps.ackStep (e : EP) (i : Nat) (o : Obj) : Keeps e (ackStep e i o) := by
  unfold Mux.ackStep
  split
  · exact (Keeps.enqFrame _ _).after (Keeps.modObj e _ _ (by wk))
  · exact Keeps.modObj e _ _ (by wk)

theorem Keeps.fillBuf (fuel : Nat) (e : EP) (i : Nat) : Keeps e (fillBuf fuel e i).1 := by
  induction fuel generalizing e with
  | zero => exact Keeps.refl e
  | succ n ih =>
    unfold Mux.fillBuf
    split
    · exact Keeps.refl e
    · split
      · exact Keeps.refl e
      · split
        · rename_i _ o _ _ _ f rest _
          have s := (Keeps.modObj e i (fun o => { o with rxq := rest, buf := f }) (by wk)).trans
            (Keeps.ackStep _ i { o with rxq := rest, buf := f })
          simp only
          split
          · exact s.trans (ih _)
          · exact s
        · split
          · exact Keeps.refl e
          · exact Keeps.modObj e _ _ (by wk)

theorem Keeps.appRead (e : EP) (h n : Nat) : Keeps e (appRead e h n).1 := by
  unfold Mux.appRead
  split
  · exact Keeps.refl e
  · rename_i i o _
    have s := Keeps.fillBuf (o.rxq.length + 2) e i
    split
    · rename_i e' b heq
      rw [heq] at s
      exact s.trans (Keeps.modObj _ _ _ (by wk))
    · exact s

theorem Keeps.appShutdown (e : EP) (h : Nat) : Keeps e (appShutdown e h).1 := by
  unfold Mux.appShutdown
  split
  · exact Keeps.refl e
  · split
    · exact Keeps.modObj e _ _ (by wk)
    · exact (Keeps.enqFrame _ _).after (Keeps.modObj e _ _ (by wk))

theorem Keeps.appDropStream (e : EP) (h : Nat) : Keeps e (appDropStream e h).1 := by
  unfold Mux.appDropStream
  split
  · exact Keeps.refl e
  · simp only
    split
    · exact Keeps.modObj e _ _ (by wk)
    · exact (Keeps.modObj e _ (fun o => { o with rxOpen := false, rxq := [], parked := false }) (by wk)).trans
        (Keeps.same rfl rfl)

theorem Keeps.appAccept (e : EP) : Keeps e (appAccept e).1 := by
  unfold Mux.appAccept
  split
  · split
    · exact Keeps.same rfl rfl
    · exact Keeps.refl e
  · split <;> exact Keeps.refl e

theorem Keeps.appSendDgram (e : EP) (d : Dgram) : Keeps e (appSendDgram e d).1 := by
  unfold Mux.appSendDgram
  split
  · exact Keeps.refl e
  · split
    · exact Keeps.refl e
    · exact Keeps.enqFrame _ _

theorem Keeps.appRecvDgram (e : EP) : Keeps e (appRecvDgram e).1 := by
  unfold Mux.appRecvDgram
  split
  · exact Keeps.same rfl rfl
  · split <;> exact Keeps.refl e

theorem Keeps.appBindReq (e : EP) (req : Nat) (bt : BindType) (host : Bytes) (port : Nat) :
    Keeps e (appBindReq e req bt host port).1 := by
  unfold Mux.appBindReq
  split
  · exact Keeps.refl e
  · rename_i fid rng' fb' hd
    split
    · exact Keeps.same rfl rfl
    · have s : Keeps e { e with rng := rng', fallback := fb', flows := insert e.flows fid (.bindRequested req) } :=
        (Keeps.insertPending e fid (.bindRequested req) (by intro i hc; cases hc)).trans (Keeps.same rfl rfl)
      exact s.trans (Keeps.enqFrame _ _)

theorem Keeps.appBindNext (e : EP) : Keeps e (appBindNext e).1 := by
  unfold Mux.appBindNext
  split
  · exact Keeps.refl e
  · split
    · exact Keeps.same rfl rfl
    · split <;> exact Keeps.refl e

theorem Keeps.appBindReply (e : EP) (k : Nat) (a : Bool) : Keeps e (appBindReply e k a).1 := by
  unfold Mux.appBindReply
  split
  · exact Keeps.refl e
  · split
    · exact Keeps.refl e
    · split
      · exact Keeps.refl e
      · exact (Keeps.enqFrame e _).trans (Keeps.same rfl rfl)

theorem Keeps.appBindDrop (e : EP) (k : Nat) : Keeps e (appBindDrop e k).1 := by
  unfold Mux.appBindDrop
  split
  · exact Keeps.refl e
  · split
    · exact Keeps.refl e
    · simp only
      split
      · exact Keeps.same rfl rfl
      · exact (Keeps.enqFrame _ _).after (Keeps.same rfl rfl)

theorem Keeps.foldEnq (l : List BindIn) (e : EP) :
    Keeps e (l.foldl (fun e b => e.enqFrame (.reset b.fid)) e) := by
  induction l generalizing e with
  | nil => exact Keeps.refl e
  | cons b rest ih => exact (Keeps.enqFrame e _).trans (ih _)

theorem Keeps.appDropMux (e : EP) : Keeps e (appDropMux e).1 := by
  unfold Mux.appDropMux
  simp only
  have s1 : Keeps e { e with muxAlive := false, droppedq := if e.dead then e.droppedq else e.droppedq ++ [0] } :=
    Keeps.same rfl rfl
  exact (s1.trans (Keeps.foldEnq e.bindq _)).trans (Keeps.same rfl rfl)

theorem Keeps.opStep (e : EP) (op : Op) : Keeps e (opStep e op).1 := by
  cases op with
  | «open» req host port =>
    simp only [Mux.opStep]
    split
    · exact Keeps.refl e
    · exact Keeps.openRound e _
  | accept => exact Keeps.appAccept e
  | write h d => exact Keeps.appWrite e h d
  | read h n => exact Keeps.appRead e h n
  | shutdown h => exact Keeps.appShutdown e h
  | dropStream h => exact Keeps.appDropStream e h
  | sendDgram d => exact Keeps.appSendDgram e d
  | recvDgram => exact Keeps.appRecvDgram e
  | bindReq req bt host port => exact Keeps.appBindReq e req bt host port
  | bindNext => exact Keeps.appBindNext e
  | bindReply k a => exact Keeps.appBindReply e k a
  | bindDrop k => exact Keeps.appBindDrop e k
  | dropMux => exact Keeps.appDropMux e
  | sinkRoom n => exact Keeps.same rfl rfl
  | cancelOpen req => exact Keeps.same rfl rfl
  | deliver w =>
    simp only [Mux.opStep]
    split
    · exact Keeps.refl e
    · split <;> exact Keeps.same rfl rfl

/-! ### Every stimulus, every history -/

theorem Keeps.applyOp (e : EP) (op : Op) : Keeps e (applyOp e op).1 := by
  have h1 := Keeps.opStep e op
  unfold Mux.applyOp
  generalize Mux.opStep e op = r at h1
  obtain ⟨e1, r1, evs1⟩ := r
  exact h1.trans (Keeps.settle e1)

theorem Keeps.runOps (e : EP) (ops : List Op) : Keeps e (runOps e ops) := by
  induction ops generalizing e with
  | nil => exact Keeps.refl e
  | cons op rest ih => exact (Keeps.applyOp e op).trans (ih _)

/-- In every state an endpoint reaches, a writer that is parked and has not been woken has no
    credit and its stream is open for writing. -/
theorem reachable_wakeOk (o : Opts) (ops : List Op) : WakeOk (runOps { opts := o } ops) :=
  Keeps.runOps _ ops (by intro i ob h; simp at h)

end Penguin.Mux
