/-
Footprints of the endpoint model's functions: `Eff Y e e'` says that going from `e` to `e'` touched
only flow ids satisfying `Y` — slots of other ids, stream objects carrying other ids, notifications
and script entries of other ids are unchanged, every message added to the outbound queue belongs to
an id in `Y` (or to none), and the connection-level flags are untouched.  One lemma per function of
`Penguin.Mux`, proved by composing a handful of primitive footprints.  Used by the pair model
(`Lemmas/PairInv.lean`): a step that concerns flow `y` leaves the view of every flow `x ≠ y` alone.
-/
import Penguin.Model.Mux
import Penguin.Lemmas.MuxBasic
import Penguin.Lemmas.MuxStep

namespace Penguin.Mux

@[simp] theorem enq_droppedq (e : EP) (m : Msg) : (e.enq m).droppedq = e.droppedq := by
  unfold EP.enq; split <;> rfl
@[simp] theorem enq_rng (e : EP) (m : Msg) : (e.enq m).rng = e.rng := by
  unfold EP.enq; split <;> rfl
@[simp] theorem modObj_droppedq (e : EP) (i : Nat) (f : Obj → Obj) : (e.modObj i f).droppedq = e.droppedq := rfl
@[simp] theorem modObj_rng (e : EP) (i : Nat) (f : Obj → Obj) : (e.modObj i f).rng = e.rng := rfl

/-- A `Connect` frame. -/
def Msg.isConnect : Msg → Bool
  | .frame (.connect ..) => true
  | _ => false

/-- Every established slot refers to an existing object carrying the slot's flow id. -/
def SlotFid (e : EP) : Prop :=
  ∀ y k, lookup e.flows y = some (.established k) → ∃ o, e.objs[k]? = some o ∧ o.fid = y

structure Eff (Y : Nat → Prop) (e e' : EP) : Prop where
  opts : e'.opts = e.opts
  outClosed : e'.outClosed = e.outClosed
  muxAlive : e'.muxAlive = e.muxAlive
  dead : e'.dead = e.dead
  flows : ∀ x, ¬ Y x → lookup e'.flows x = lookup e.flows x
  len : e.objs.length ≤ e'.objs.length
  keep : ∀ (k : Nat) (o : Obj), e.objs[k]? = some o → ¬ Y o.fid → e'.objs[k]? = some o
  fid : ∀ (k : Nat) (o : Obj), e.objs[k]? = some o → ∃ o' : Obj, e'.objs[k]? = some o' ∧ o'.fid = o.fid
  fresh : ∀ (k : Nat) (o' : Obj), e.objs.length ≤ k → e'.objs[k]? = some o' → Y o'.fid
  outq : ∃ em, e'.outq = e.outq ++ em ∧ ∀ m ∈ em, ∀ y, Msg.flow? m = some y → Y y ∧ (m.isConnect = true → y ∈ e.rng)
  dq : ∀ x, ¬ Y x → (x ∈ e'.droppedq ↔ x ∈ e.droppedq)
  rng : ∀ x, ¬ Y x → (x ∈ e'.rng ↔ x ∈ e.rng)
  rngSub : e'.rng.Sublist e.rng
  slotFid : SlotFid e → SlotFid e'

namespace Eff

theorem refl (Y : Nat → Prop) (e : EP) : Eff Y e e :=
  ⟨rfl, rfl, rfl, rfl, fun _ _ => rfl, Nat.le_refl _, fun _ _ h _ => h, fun _ o h => ⟨o, h, rfl⟩,
   fun k o' hk h => by
     have : k < e.objs.length := by
       rcases Nat.lt_or_ge k e.objs.length with h1 | h1
       · exact h1
       · simp [List.getElem?_eq_none h1] at h
     omega,
   ⟨[], by simp, by simp⟩, fun _ _ => Iff.rfl, fun _ _ => Iff.rfl, List.Sublist.refl _, id⟩

theorem trans {Y : Nat → Prop} {a b c : EP} (s : Eff Y a b) (t : Eff Y b c) : Eff Y a c := by
  refine ⟨by rw [t.opts, s.opts], by rw [t.outClosed, s.outClosed], by rw [t.muxAlive, s.muxAlive],
    by rw [t.dead, s.dead], fun x hx => by rw [t.flows x hx, s.flows x hx], Nat.le_trans s.len t.len,
    fun k o h hy => t.keep k o (s.keep k o h hy) hy, ?_, ?_, ?_,
    fun x hx => (t.dq x hx).trans (s.dq x hx), fun x hx => (t.rng x hx).trans (s.rng x hx),
    t.rngSub.trans s.rngSub, fun h => t.slotFid (s.slotFid h)⟩
  · intro k o h
    obtain ⟨o1, h1, f1⟩ := s.fid k o h
    obtain ⟨o2, h2, f2⟩ := t.fid k o1 h1
    exact ⟨o2, h2, by rw [f2, f1]⟩
  · intro k o' hk h
    rcases Nat.lt_or_ge k b.objs.length with h1 | h1
    · -- created by the first part
      have hb : ∃ ob, b.objs[k]? = some ob := ⟨b.objs[k], by simp [h1]⟩
      obtain ⟨ob, hob⟩ := hb
      obtain ⟨o2, h2, f2⟩ := t.fid k ob hob
      rw [h] at h2
      cases h2
      rw [f2]
      exact s.fresh k ob hk hob
    · exact t.fresh k o' h1 h
  · obtain ⟨em1, h1, g1⟩ := s.outq
    obtain ⟨em2, h2, g2⟩ := t.outq
    refine ⟨em1 ++ em2, by rw [h2, h1, List.append_assoc], ?_⟩
    intro m hm y hy
    rcases List.mem_append.mp hm with h | h
    · exact g1 m h y hy
    · exact ⟨(g2 m h y hy).1, fun hc => s.rngSub.subset ((g2 m h y hy).2 hc)⟩

/-- `trans` with the later step first. -/
theorem after {Y : Nat → Prop} {a b c : EP} (t : Eff Y b c) (s : Eff Y a b) : Eff Y a c := s.trans t

theorem mono {Y Y' : Nat → Prop} {e e' : EP} (h : ∀ x, Y x → Y' x) (s : Eff Y e e') : Eff Y' e e' := by
  refine ⟨s.opts, s.outClosed, s.muxAlive, s.dead, fun x hx => s.flows x (fun hy => hx (h x hy)), s.len,
    fun k o ho hy => s.keep k o ho (fun hh => hy (h _ hh)), s.fid, fun k o' hk ho => h _ (s.fresh k o' hk ho), ?_,
    fun x hx => s.dq x (fun hy => hx (h x hy)), fun x hx => s.rng x (fun hy => hx (h x hy)), s.rngSub, s.slotFid⟩
  obtain ⟨em, h1, g1⟩ := s.outq
  exact ⟨em, h1, fun m hm y hy => ⟨h _ (g1 m hm y hy).1, (g1 m hm y hy).2⟩⟩

/-- A change of components no flow's view depends on. -/
theorem silent {Y : Nat → Prop} {e e' : EP} (hf : e'.flows = e.flows) (ho : e'.objs = e.objs)
    (hq : e'.outq = e.outq) (hd : e'.droppedq = e.droppedq) (hr : e'.rng = e.rng)
    (h1 : e'.opts = e.opts) (h2 : e'.outClosed = e.outClosed) (h3 : e'.muxAlive = e.muxAlive)
    (h4 : e'.dead = e.dead) : Eff Y e e' := by
  refine ⟨h1, h2, h3, h4, fun _ _ => by rw [hf], by rw [ho]; exact Nat.le_refl _, fun k o h _ => by rw [ho]; exact h,
    fun k o h => ⟨o, by rw [ho]; exact h, rfl⟩, ?_, ⟨[], by simp [hq], by simp⟩,
    fun _ _ => by rw [hd], fun _ _ => by rw [hr], by rw [hr]; exact List.Sublist.refl _, ?_⟩
  · intro k o' hk h
    rw [ho] at h
    have : k < e.objs.length := by
      rcases Nat.lt_or_ge k e.objs.length with h1 | h1
      · exact h1
      · simp [List.getElem?_eq_none h1] at h
    omega
  · intro hs y k hy
    rw [hf] at hy
    rw [ho]
    exact hs y k hy

theorem enq {Y : Nat → Prop} (e : EP) (m : Msg) (hm : ∀ y, Msg.flow? m = some y → Y y ∧ (m.isConnect = true → y ∈ e.rng)) :
    Eff Y e (e.enq m) := by
  unfold EP.enq
  split
  · exact refl Y e
  · refine ⟨rfl, rfl, rfl, rfl, fun _ _ => rfl, Nat.le_refl _, fun _ _ h _ => h, fun _ o h => ⟨o, h, rfl⟩, ?_,
      ⟨[m], rfl, by intro m' hm' y hy; simp at hm'; subst hm'; exact hm y hy⟩,
      fun _ _ => Iff.rfl, fun _ _ => Iff.rfl, List.Sublist.refl _, id⟩
    intro k o' hk h
    have : k < e.objs.length := by
      rcases Nat.lt_or_ge k e.objs.length with h1 | h1
      · exact h1
      · simp [List.getElem?_eq_none h1] at h
    omega

theorem enqFrame {Y : Nat → Prop} (e : EP) (f : Frame)
    (hm : ∀ y, Msg.flow? (.frame f) = some y → Y y ∧ ((Msg.frame f).isConnect = true → y ∈ e.rng)) :
    Eff Y e (e.enqFrame f) := enq e _ hm

/-- Enqueueing a frame that is not a `Connect`. -/
theorem enqFrameT {Y : Nat → Prop} (e : EP) (f : Frame) (hc : (Msg.frame f).isConnect = false)
    (hm : ∀ y, Msg.flow? (.frame f) = some y → Y y) : Eff Y e (e.enqFrame f) :=
  enqFrame e f (fun y hy => ⟨hm y hy, by rw [hc]; intro h; cases h⟩)

/-- Modifying one object without changing its flow id. -/
theorem modObj {Y : Nat → Prop} (e : EP) (i : Nat) (f : Obj → Obj) (hf : ∀ o, (f o).fid = o.fid)
    (hY : ∀ o, e.objs[i]? = some o → Y o.fid) : Eff Y e (e.modObj i f) := by
  refine ⟨rfl, rfl, rfl, rfl, fun _ _ => rfl, by simp, ?_, ?_, ?_, ⟨[], by simp, by simp⟩,
    fun _ _ => Iff.rfl, fun _ _ => Iff.rfl, List.Sublist.refl _, ?_⟩
  · intro k o h hy
    by_cases hk : k = i
    · subst hk; exact absurd (hY o h) hy
    · rw [modObj_get_ne _ _ _ _ hk]; exact h
  · intro k o h
    by_cases hk : k = i
    · subst hk; exact ⟨f o, by rw [modObj_get_self, h]; rfl, hf o⟩
    · exact ⟨o, by rw [modObj_get_ne _ _ _ _ hk]; exact h, rfl⟩
  · intro k o' hk h
    have : k < (e.modObj i f).objs.length := by
      rcases Nat.lt_or_ge k (e.modObj i f).objs.length with h1 | h1
      · exact h1
      · simp [List.getElem?_eq_none h1] at h
    rw [modObj_length] at this
    omega
  · intro hs y k hy
    obtain ⟨o, ho, hfid⟩ := hs y k hy
    by_cases hk : k = i
    · subst hk; exact ⟨f o, by rw [modObj_get_self, ho]; rfl, by rw [hf, hfid]⟩
    · exact ⟨o, by rw [modObj_get_ne _ _ _ _ hk]; exact ho, hfid⟩

/-- Removing the slot of a flow in `Y`. -/
theorem eraseFlow {Y : Nat → Prop} (e : EP) (y : Nat) (hy : Y y) : Eff Y e { e with flows := erase e.flows y } := by
  refine ⟨rfl, rfl, rfl, rfl, ?_, Nat.le_refl _, fun _ _ h _ => h, fun _ o h => ⟨o, h, rfl⟩, ?_, ⟨[], by simp, by simp⟩,
    fun _ _ => Iff.rfl, fun _ _ => Iff.rfl, List.Sublist.refl _, ?_⟩
  · intro x hx
    have : x ≠ y := fun h => hx (h ▸ hy)
    exact lookup_erase_ne _ _ _ this
  · intro k o' hk h
    have : k < e.objs.length := by
      rcases Nat.lt_or_ge k e.objs.length with h1 | h1
      · exact h1
      · simp [List.getElem?_eq_none h1] at h
    omega
  · intro hs z k hz
    by_cases hzy : z = y
    · subst hzy; simp [lookup_erase_self] at hz
    · rw [show lookup (erase e.flows y) z = lookup e.flows z from lookup_erase_ne _ _ _ hzy] at hz
      exact hs z k hz

/-- Inserting a pending (not established) slot for a flow in `Y`. -/
theorem insertPending {Y : Nat → Prop} (e : EP) (y : Nat) (s : Slot) (hy : Y y) (hs : ∀ i, s ≠ .established i) :
    Eff Y e { e with flows := insert e.flows y s } := by
  refine ⟨rfl, rfl, rfl, rfl, ?_, Nat.le_refl _, fun _ _ h _ => h, fun _ o h => ⟨o, h, rfl⟩, ?_, ⟨[], by simp, by simp⟩,
    fun _ _ => Iff.rfl, fun _ _ => Iff.rfl, List.Sublist.refl _, ?_⟩
  · intro x hx
    have : x ≠ y := fun h => hx (h ▸ hy)
    exact lookup_insert_ne _ _ _ _ this
  · intro k o' hk h
    have : k < e.objs.length := by
      rcases Nat.lt_or_ge k e.objs.length with h1 | h1
      · exact h1
      · simp [List.getElem?_eq_none h1] at h
    omega
  · intro hsf z k hz
    by_cases hzy : z = y
    · subst hzy
      rw [show lookup (insert e.flows z s) z = some s from lookup_insert_self _ _ _] at hz
      cases hz
      exact absurd rfl (hs k)
    · rw [show lookup (insert e.flows y s) z = lookup e.flows z from lookup_insert_ne _ _ _ _ hzy] at hz
      exact hsf z k hz

/-- A new stream object for a flow in `Y`, with its established slot. -/
theorem newStream {Y : Nat → Prop} (e : EP) (y : Nat) (o : Obj) (hy : Y y) (ho : o.fid = y) :
    Eff Y e { e with objs := e.objs ++ [o], flows := insert e.flows y (.established e.objs.length) } := by
  refine ⟨rfl, rfl, rfl, rfl, ?_, by simp, ?_, ?_, ?_, ⟨[], by simp, by simp⟩,
    fun _ _ => Iff.rfl, fun _ _ => Iff.rfl, List.Sublist.refl _, ?_⟩
  · intro x hx
    have : x ≠ y := fun h => hx (h ▸ hy)
    exact lookup_insert_ne _ _ _ _ this
  · intro k o' h _
    have hk : k < e.objs.length := by
      rcases Nat.lt_or_ge k e.objs.length with h1 | h1
      · exact h1
      · simp [List.getElem?_eq_none h1] at h
    show (e.objs ++ [o])[k]? = some o'
    rw [List.getElem?_append_left hk]; exact h
  · intro k o' h
    have hk : k < e.objs.length := by
      rcases Nat.lt_or_ge k e.objs.length with h1 | h1
      · exact h1
      · simp [List.getElem?_eq_none h1] at h
    exact ⟨o', by show (e.objs ++ [o])[k]? = some o'; rw [List.getElem?_append_left hk]; exact h, rfl⟩
  · intro k o' hk h
    have h' : (e.objs ++ [o])[k]? = some o' := h
    rw [List.getElem?_append_right hk] at h'
    have : k - e.objs.length = 0 := by
      rcases Nat.eq_zero_or_pos (k - e.objs.length) with h0 | h0
      · exact h0
      · have hl : [o].length ≤ k - e.objs.length := h0
        rw [List.getElem?_eq_none hl] at h'
        cases h'
    rw [this] at h'
    simp at h'
    subst h'
    rw [ho]; exact hy
  · intro hsf z k hz
    by_cases hzy : z = y
    · subst hzy
      rw [show lookup (insert e.flows z (.established e.objs.length)) z = some (.established e.objs.length)
            from lookup_insert_self _ _ _] at hz
      cases hz
      exact ⟨o, by show (e.objs ++ [o])[e.objs.length]? = some o; simp, ho⟩
    · rw [show lookup (insert e.flows y (.established e.objs.length)) z = lookup e.flows z
            from lookup_insert_ne _ _ _ _ hzy] at hz
      obtain ⟨o', ho', hf'⟩ := hsf z k hz
      have hk : k < e.objs.length := by
        rcases Nat.lt_or_ge k e.objs.length with h1 | h1
        · exact h1
        · simp [List.getElem?_eq_none h1] at ho'
      exact ⟨o', by show (e.objs ++ [o])[k]? = some o'; rw [List.getElem?_append_left hk]; exact ho', hf'⟩

/-- A notification for a flow in `Y` is queued. -/
theorem dqPush {Y : Nat → Prop} (e : EP) (y : Nat) (hy : Y y) : Eff Y e { e with droppedq := e.droppedq ++ [y] } := by
  refine ⟨rfl, rfl, rfl, rfl, fun _ _ => rfl, Nat.le_refl _, fun _ _ h _ => h, fun _ o h => ⟨o, h, rfl⟩, ?_,
    ⟨[], by simp, by simp⟩, ?_, fun _ _ => Iff.rfl, List.Sublist.refl _, id⟩
  · intro k o' hk h
    have : k < e.objs.length := by
      rcases Nat.lt_or_ge k e.objs.length with h1 | h1
      · exact h1
      · simp [List.getElem?_eq_none h1] at h
    omega
  · intro x hx
    have : x ≠ y := fun h => hx (h ▸ hy)
    simp [this]

/-- The notification at the head of the queue, for a flow in `Y`, is taken. -/
theorem dqPop {Y : Nat → Prop} (e : EP) (y : Nat) (rest : List Nat) (hq : e.droppedq = y :: rest) (hy : Y y) :
    Eff Y e { e with droppedq := rest } := by
  refine ⟨rfl, rfl, rfl, rfl, fun _ _ => rfl, Nat.le_refl _, fun _ _ h _ => h, fun _ o h => ⟨o, h, rfl⟩, ?_,
    ⟨[], by simp, by simp⟩, ?_, fun _ _ => Iff.rfl, List.Sublist.refl _, id⟩
  · intro k o' hk h
    have : k < e.objs.length := by
      rcases Nat.lt_or_ge k e.objs.length with h1 | h1
      · exact h1
      · simp [List.getElem?_eq_none h1] at h
    omega
  · intro x hx
    have : x ≠ y := fun h => hx (h ▸ hy)
    simp [hq, this]

end Eff

end Penguin.Mux

namespace Penguin.Mux

/-! ### Footprints of the endpoint model's functions -/

/-- A script entry is taken. -/
theorem Eff.rngPop {Y : Nat → Prop} (e : EP) (y : Nat) (rest : List Nat) (fb : Nat) (hq : e.rng = y :: rest) (hy : Y y) :
    Eff Y e { e with rng := rest, fallback := fb } := by
  refine ⟨rfl, rfl, rfl, rfl, fun _ _ => rfl, Nat.le_refl _, fun _ _ h _ => h, fun _ o h => ⟨o, h, rfl⟩, ?_,
    ⟨[], by simp, by simp⟩, fun _ _ => Iff.rfl, ?_, by rw [hq]; exact List.sublist_cons_self _ _, id⟩
  · intro k o' hk h
    have : k < e.objs.length := by
      rcases Nat.lt_or_ge k e.objs.length with h1 | h1
      · exact h1
      · simp [List.getElem?_eq_none h1] at h
    omega
  · intro x hx
    have : x ≠ y := fun h => hx (h ▸ hy)
    simp [hq, this]

/-- With a free, non-zero id at the head of the script, the draw takes exactly that id. -/
theorem drawId_head (flows : List (Nat × Slot)) (y : Nat) (rest : List Nat) (fb fuel : Nat)
    (h0 : y ≠ 0) (hfree : lookup flows y = none) : drawId flows (y :: rest) fb fuel = some (y, rest, fb) := by
  simp [drawId, drawScript, h0, hfree]

/-- `openRound` with a usable script head: the explicit result. -/
theorem openRound_spec (e : EP) (r : OpenReq) (y : Nat) (rest : List Nat) (hq : e.rng = y :: rest)
    (h0 : y ≠ 0) (hfree : lookup e.flows y = none) (hr : r.retriesLeft ≠ 0) (hoc : e.outClosed = false) :
    (openRound e r).1 =
      ({ e with rng := rest, flows := insert e.flows y (.requested r.req),
                opens := { r with retriesLeft := r.retriesLeft - 1 } :: e.opens.filter (·.req ≠ r.req) } : EP).enqFrame
        (.connect y e.opts.rwnd r.port r.host) := by
  unfold openRound
  rw [if_neg hr, hq, drawId_head _ _ _ _ _ h0 hfree]
  simp [hoc]

theorem openRound_eff (e : EP) (r : OpenReq) (y : Nat) (rest : List Nat) (hq : e.rng = y :: rest)
    (h0 : y ≠ 0) (hfree : lookup e.flows y = none) (hoc : e.outClosed = false) :
    Eff (· = y) e (openRound e r).1 := by
  by_cases hr : r.retriesLeft = 0
  · unfold openRound; rw [if_pos hr]
    exact Eff.silent rfl rfl rfl rfl rfl rfl rfl rfl rfl
  · have heq : (openRound e r).1 =
        { (({ e with flows := insert e.flows y (.requested r.req) } : EP).enqFrame (.connect y e.opts.rwnd r.port r.host)) with
            rng := rest, fallback := e.fallback,
            opens := { r with retriesLeft := r.retriesLeft - 1 } :: e.opens.filter (·.req ≠ r.req) } := by
      rw [openRound_spec e r y rest hq h0 hfree hr hoc]
      simp [EP.enqFrame, EP.enq, hoc]
    rw [heq]
    have s1 := Eff.insertPending (Y := (· = y)) e y (.requested r.req) rfl (by intro i h; cases h)
    have s2 := s1.trans (Eff.enqFrame (Y := (· = y)) _ (.connect y e.opts.rwnd r.port r.host)
      (by intro z hz; simp [Msg.flow?, Frame.id] at hz; exact ⟨hz.symm, fun _ => by rw [← hz]; show y ∈ e.rng; rw [hq]; simp⟩))
    have s3 := s2.trans (Eff.rngPop (Y := (· = y)) _ y rest e.fallback (by simp [EP.enqFrame, EP.enq, hoc, hq]) rfl)
    exact s3.trans (Eff.silent rfl rfl rfl rfl rfl rfl rfl rfl rfl)

theorem appAccept_eff (Y : Nat → Prop) (e : EP) : Eff Y e (appAccept e).1 := by
  unfold appAccept
  repeat' split
  all_goals first | exact Eff.refl Y e | exact Eff.silent rfl rfl rfl rfl rfl rfl rfl rfl rfl

/-- The flow id of the object behind a handle (`0` for a handle that refers to nothing). -/
def hfid (e : EP) (h : Nat) : Nat :=
  match e.handleObj h with
  | some (_, o) => o.fid
  | none => 0

theorem handleObj_obj {e : EP} {h i : Nat} {o : Obj} (hh : e.handleObj h = some (i, o)) : e.objs[i]? = some o := by
  unfold EP.handleObj at hh
  split at hh
  · cases hh
  · split at hh
    · cases hh
    · simp at hh; obtain ⟨rfl, rfl⟩ := hh; assumption

theorem appWrite_eff (e : EP) (h : Nat) (d : Bytes) : Eff (· = hfid e h) e (appWrite e h d).1 := by
  unfold appWrite hfid
  cases hh : e.handleObj h with
  | none => exact Eff.refl _ e
  | some p =>
    obtain ⟨i, o⟩ := p
    have ho := handleObj_obj hh
    have hm : ∀ f : Obj → Obj, (∀ x, (f x).fid = x.fid) → Eff (· = o.fid) e (e.modObj i f) := fun f hf =>
      Eff.modObj e i f hf (by intro o' ho'; rw [ho] at ho'; cases ho'; rfl)
    simp only
    repeat' split
    all_goals first
      | exact hm _ (fun _ => rfl)
      | exact (Eff.enqFrameT _ _ rfl (by intro z hz; simp [Msg.flow?, Frame.id] at hz; exact hz.symm)).after (hm _ (fun _ => rfl))

theorem ackStep_eff (e : EP) (i : Nat) (o : Obj) (y : Nat) (hy : ∀ o', e.objs[i]? = some o' → o'.fid = y)
    (hoy : o.fid = y) : Eff (· = y) e (ackStep e i o) := by
  unfold ackStep
  have hm : ∀ f : Obj → Obj, (∀ x, (f x).fid = x.fid) → Eff (· = y) e (e.modObj i f) := fun f hf =>
    Eff.modObj e i f hf (by intro o' ho'; exact hy o' ho')
  split
  · exact (Eff.enqFrameT _ _ rfl (by intro z hz; simp [Msg.flow?, Frame.id] at hz; rw [← hz, hoy])).after (hm _ (fun _ => rfl))
  · exact hm _ (fun _ => rfl)

theorem fillBuf_eff (fuel : Nat) (e : EP) (i y : Nat) (hy : ∀ o', e.objs[i]? = some o' → o'.fid = y) :
    Eff (· = y) e (fillBuf fuel e i).1 := by
  induction fuel generalizing e with
  | zero => exact Eff.refl _ e
  | succ n ih =>
    unfold fillBuf
    cases ho : e.objs[i]? with
    | none => exact Eff.refl _ e
    | some o =>
      have hoy := hy o ho
      simp only
      split
      · exact Eff.refl _ e
      · have hm : ∀ (e0 : EP) (f : Obj → Obj), (∀ o', e0.objs[i]? = some o' → o'.fid = y) → (∀ x, (f x).fid = x.fid) →
            Eff (· = y) e0 (e0.modObj i f) := fun e0 f h0 hf => Eff.modObj e0 i f hf h0
        split
        · rename_i f rest hrx
          have s1 := hm e (fun o => { o with rxq := rest, buf := f }) hy (fun _ => rfl)
          have hy1 : ∀ o', (e.modObj i (fun o => { o with rxq := rest, buf := f })).objs[i]? = some o' → o'.fid = y := by
            intro o' h'
            rw [modObj_get_self, ho] at h'
            cases h'; exact hoy
          have s2 := ackStep_eff _ i { o with rxq := rest, buf := f } y hy1 hoy
          have hy2 : ∀ o', (ackStep (e.modObj i (fun o => { o with rxq := rest, buf := f })) i { o with rxq := rest, buf := f }).objs[i]? = some o' →
              o'.fid = y := by
            intro o' h'
            obtain ⟨o1, h1⟩ : ∃ o1, (e.modObj i (fun o => { o with rxq := rest, buf := f })).objs[i]? = some o1 := by
              rw [modObj_get_self, ho]; exact ⟨_, rfl⟩
            obtain ⟨o2, h2, f2⟩ := s2.fid i o1 h1
            rw [h'] at h2; cases h2
            rw [f2]; exact hy1 o1 h1
          split
          · exact (ih _ hy2).after (s1.trans s2)
          · exact s1.trans s2
        · split
          · exact Eff.refl _ e
          · exact hm e _ hy (fun _ => rfl)

theorem appRead_eff (e : EP) (h n : Nat) : Eff (· = hfid e h) e (appRead e h n).1 := by
  unfold appRead hfid
  cases hh : e.handleObj h with
  | none => exact Eff.refl _ e
  | some p =>
    obtain ⟨i, o⟩ := p
    have ho := handleObj_obj hh
    have hy : ∀ o', e.objs[i]? = some o' → o'.fid = o.fid := by intro o' h'; rw [ho] at h'; cases h'; rfl
    have s1 := fillBuf_eff (o.rxq.length + 2) e i o.fid hy
    simp only
    generalize fillBuf (o.rxq.length + 2) e i = r at s1
    obtain ⟨e1, res⟩ := r
    cases res <;> try exact s1
    rename_i b
    show Eff (· = o.fid) e (e1.modObj i (fun o => { o with buf := b.drop n }))
    refine (Eff.modObj e1 i (fun o => { o with buf := b.drop n }) (fun _ => rfl) ?_).after s1
    intro o' h'
    obtain ⟨o2, h2, f2⟩ := s1.fid i o ho
    simp only at h2
    rw [h'] at h2; cases h2; exact f2

theorem appShutdown_eff (e : EP) (h : Nat) : Eff (· = hfid e h) e (appShutdown e h).1 := by
  unfold appShutdown hfid
  cases hh : e.handleObj h with
  | none => exact Eff.refl _ e
  | some p =>
    obtain ⟨i, o⟩ := p
    have ho := handleObj_obj hh
    simp only
    split
    · exact Eff.modObj e i _ (fun _ => rfl) (by intro o' ho'; rw [ho] at ho'; cases ho'; rfl)
    · exact (Eff.enqFrameT _ _ rfl (by intro z hz; simp [Msg.flow?, Frame.id] at hz; exact hz.symm)).after
        (Eff.modObj e i _ (fun _ => rfl) (by intro o' ho'; rw [ho] at ho'; cases ho'; rfl))

theorem appDropStream_eff (e : EP) (h : Nat) : Eff (· = hfid e h) e (appDropStream e h).1 := by
  unfold appDropStream hfid
  cases hh : e.handleObj h with
  | none => exact Eff.refl _ e
  | some p =>
    obtain ⟨i, o⟩ := p
    have ho := handleObj_obj hh
    have s1 : Eff (· = o.fid) e (e.modObj i (fun o => { o with rxOpen := false, rxq := [], parked := false })) :=
      Eff.modObj e i _ (fun _ => rfl) (by intro o' ho'; rw [ho] at ho'; cases ho'; rfl)
    simp only
    split
    · exact s1
    · exact (Eff.dqPush (Y := (· = o.fid)) _ o.fid rfl).after s1

theorem appSendDgram_eff (Y : Nat → Prop) (e : EP) (d : Dgram) : Eff Y e (appSendDgram e d).1 := by
  unfold appSendDgram
  repeat' split
  all_goals first
    | exact Eff.refl Y e
    | exact Eff.enqFrameT _ _ rfl (by intro z hz; simp [Msg.flow?] at hz)

theorem appRecvDgram_eff (Y : Nat → Prop) (e : EP) : Eff Y e (appRecvDgram e).1 := by
  unfold appRecvDgram
  repeat' split
  all_goals first | exact Eff.refl Y e | exact Eff.silent rfl rfl rfl rfl rfl rfl rfl rfl rfl

theorem openRejected_eff (Y : Nat → Prop) (e : EP) (req : Nat) (final : Bool) : Eff Y e (openRejected e req final).1 := by
  unfold openRejected
  repeat' split
  all_goals first | exact Eff.refl Y e | exact Eff.silent rfl rfl rfl rfl rfl rfl rfl rfl rfl

/-- `close_flow_local` on a slot that carries flow `fid`. -/
theorem closeLocal_eff (e : EP) (s : Slot) (fid : Nat) (inh final : Bool)
    (hs : ∀ i o, s = .established i → e.objs[i]? = some o → o.fid = fid) :
    Eff (· = fid) e (closeLocal e s fid inh final).1 := by
  unfold closeLocal
  cases s with
  | established i =>
    simp only
    cases ho : e.obj? i with
    | none => exact Eff.refl _ e
    | some o =>
      have ho' : e.objs[i]? = some o := ho
      have s1 : Eff (· = fid) e (e.modObj i (fun o => { o.disallowWrite with senderAlive := false })) :=
        Eff.modObj e i _ (by intro x; simp [Obj.disallowWrite, Obj.wake]; split <;> rfl)
          (by intro o' h'; exact hs i o' rfl h')
      simp only
      split
      · exact (Eff.enqFrameT _ _ rfl (by intro z hz; simp [Msg.flow?, Frame.id] at hz; exact hz.symm)).after s1
      · exact s1
  | requested req => exact openRejected_eff _ e req final
  | bindRequested req => exact Eff.refl _ e

theorem closeFlow_eff (e : EP) (fid : Nat) (inh : Bool) (hsf : SlotFid e) :
    Eff (· = fid) e (closeFlow e fid inh).1 := by
  unfold closeFlow
  cases hl : lookup e.flows fid with
  | none => exact Eff.refl _ e
  | some s =>
    simp only
    refine (closeLocal_eff _ s fid inh false ?_).after (Eff.eraseFlow e fid rfl)
    intro i o hs ho
    subst hs
    obtain ⟨o', ho', hf'⟩ := hsf fid i hl
    have ho2 : e.objs[i]? = some o := ho
    rw [ho2] at ho'; cases ho'; exact hf'

theorem offerAccept_eff (Y : Nat → Prop) (e : EP) (i : Nat) : Eff Y e (offerAccept e i) := by
  unfold offerAccept
  split <;> exact Eff.silent rfl rfl rfl rfl rfl rfl rfl rfl rfl

theorem offerBind_eff (Y : Nat → Prop) (e : EP) (b : BindIn) : Eff Y e (offerBind e b) := by
  unfold offerBind
  split <;> exact Eff.silent rfl rfl rfl rfl rfl rfl rfl rfl rfl

end Penguin.Mux

namespace Penguin.Mux

theorem flow_eq {f : Frame} {z : Nat} (hz : Msg.flow? (.frame f) = some z) : z = f.id := by
  cases f <;> simp [Msg.flow?, Frame.id] at hz ⊢ <;> omega

theorem append_self_get {α : Type} (l : List α) (a : α) : (l ++ [a])[l.length]? = some a := by simp

/-- One frame is processed: only the flow the frame names is touched. -/
theorem processFrame_eff (e : EP) (f : Frame) (ig : Bool) (hsf : SlotFid e) :
    Eff (· = f.id) e (processFrame e f ig).1 := by
  have hrst : ∀ (e0 : EP) (fid : Nat), fid = f.id → Eff (· = f.id) e0 (e0.enqFrame (.reset fid)) := by
    intro e0 fid h
    exact Eff.enqFrameT _ _ rfl (by intro z hz; simp [Msg.flow?, Frame.id] at hz; omega)
  cases f with
  | connect fid rwnd port host =>
    simp only [processFrame, Frame.id] at *
    split
    · exact hrst e fid rfl
    · have s1 := Eff.newStream (Y := (· = fid)) e fid (newObj e.opts fid rwnd host port) rfl rfl
      split
      · exact s1
      · have s2 := s1.trans (Eff.enqFrameT (Y := (· = fid)) _ (.acknowledge fid e.opts.rwnd) rfl
            (by intro z hz; simp [Msg.flow?, Frame.id] at hz; omega))
        split
        · refine Eff.after ?_ s2
          refine Eff.after (Eff.dqPush (Y := (· = fid)) _ fid rfl) ?_
          refine Eff.modObj _ _ _ (fun _ => rfl) ?_
          intro o' ho'
          simp only [EP.enqFrame, enq_objs, append_self_get] at ho'
          cases ho'; rfl
        · exact (offerAccept_eff _ _ _).after s2
  | acknowledge fid n =>
    simp only [processFrame, Frame.id] at *
    split
    · rename_i i hl
      refine Eff.modObj e i _ ?_ ?_
      · intro x; simp [Obj.wake]; split <;> rfl
      · intro o' ho'
        obtain ⟨o2, h2, f2⟩ := hsf fid i hl
        rw [ho'] at h2; cases h2; exact f2
    · rename_i req hl
      have s1 := Eff.newStream (Y := (· = fid)) e fid (newObj e.opts fid n [] 0) rfl rfl
      split
      · exact s1.trans (Eff.silent rfl rfl rfl rfl rfl rfl rfl rfl rfl)
      · refine Eff.after ?_ s1
        refine Eff.after (Eff.dqPush (Y := (· = fid)) _ fid rfl) ?_
        refine Eff.modObj _ _ _ (fun _ => rfl) ?_
        intro o' ho'
        simp only [append_self_get] at ho'
        cases ho'; rfl
    · exact hrst e fid rfl
    · exact hrst e fid rfl
  | finish fid =>
    simp only [processFrame, Frame.id] at *
    split
    · exact hrst e fid rfl
    · exact Eff.eraseFlow e fid rfl
    · refine (hrst _ fid rfl).after ?_
      exact (Eff.eraseFlow (Y := (· = fid)) e fid rfl).trans (Eff.silent rfl rfl rfl rfl rfl rfl rfl rfl rfl)
    · rename_i i hl
      refine Eff.modObj e i _ (fun _ => rfl) ?_
      intro o' ho'
      obtain ⟨o2, h2, f2⟩ := hsf fid i hl
      rw [ho'] at h2; cases h2; exact f2
  | reset fid =>
    simp only [processFrame, Frame.id] at *
    exact closeFlow_eff e fid true hsf
  | push fid d =>
    simp only [processFrame, Frame.id] at *
    split
    · rename_i i hl
      split
      · exact Eff.refl _ e
      · rename_i o ho
        split
        · exact hrst e fid rfl
        · split
          · exact Eff.refl _ e
          · split
            · refine Eff.modObj e i _ (fun _ => rfl) ?_
              intro o' ho'
              obtain ⟨o2, h2, f2⟩ := hsf fid i hl
              rw [ho'] at h2; cases h2; exact f2
            · exact closeFlow_eff e fid false hsf
    · exact hrst e fid rfl
  | bind fid bt port host =>
    simp only [processFrame, Frame.id] at *
    split
    · exact hrst e fid rfl
    · split
      · exact Eff.refl _ e
      · split
        · exact hrst e fid rfl
        · exact offerBind_eff _ _ _
  | datagram fid port host d =>
    simp only [processFrame, Frame.id] at *
    repeat' split
    all_goals first | exact Eff.refl _ e | exact Eff.silent rfl rfl rfl rfl rfl rfl rfl rfl rfl

theorem unpark_eff (Y : Nat → Prop) (e : EP) (hm : e.muxAlive = true) : Eff Y e (unpark e) := by
  unfold unpark
  split
  · exact Eff.refl Y e
  · split
    · rename_i h; simp [hm] at h
    · split
      · exact Eff.silent rfl rfl rfl rfl rfl rfl rfl rfl rfl
      · exact Eff.refl Y e
  · split
    · rename_i h; simp [hm] at h
    · split
      · exact Eff.silent rfl rfl rfl rfl rfl rfl rfl rfl rfl
      · exact Eff.refl Y e

theorem runDone_eff (Y : Nat → Prop) (e : EP) (l : List (Nat × Nat)) : Eff Y e (runDone e l).1 := by
  induction l generalizing e with
  | nil => exact Eff.refl Y e
  | cons x rest ih =>
    obtain ⟨req, i⟩ := x
    unfold runDone
    exact (ih _).after (Eff.silent rfl rfl rfl rfl rfl rfl rfl rfl rfl)

end Penguin.Mux
