/-
The byte-wire pair (`Penguin.PairBytes`) and the frame-wire pair (`Penguin.Pair`) move in lock step:
from the encoding of a frame-level state whose queues and wires hold well-formed messages only
(`PWf`, preserved by every step — `Lemmas/MuxWfFrames.lean`), every action of the byte system is the
encoding of the same action of the frame system.  Hence every run of the byte system is the encoding
of the run of the frame system, and no `recv` ever meets a message that does not decode.
-/
import Penguin.Model.PairBytes
import Penguin.Lemmas.Frame
import Penguin.Lemmas.MuxWfFrames

namespace Penguin.PairBytes
open Penguin.Mux Penguin.Pair

/-! ### Well-formedness of the whole pair -/

/-- Both endpoints satisfy the endpoint invariant and everything queued or in transit is well-formed. -/
structure PWf (p : PS) : Prop where
  a : Good p.a
  b : Good p.b
  ab : ∀ m ∈ p.ab, m.wf
  ba : ∀ m ∈ p.ba, m.wf

theorem PWf.swap {p : PS} (h : PWf p) : PWf p.swap := ⟨h.b, h.a, h.ba, h.ab⟩

theorem PWf_init (oa ob : Opts) (ra rb : List Nat) (hoa : oa.rwnd < 4294967296) (hob : ob.rwnd < 4294967296)
    (hr : ∀ k ∈ ra ++ rb, k < 4294967296) : PWf (Pair.init oa ob ra rb) :=
  ⟨Good_init oa ra hoa (fun k hk => hr k (List.mem_append_left _ hk)),
   Good_init ob rb hob (fun k hk => hr k (List.mem_append_right _ hk)), by simp [Pair.init], by simp [Pair.init]⟩

/-- One action of the left endpoint with arguments in range keeps everything well-formed. -/
theorem stepL_wf {p p' : PS} (a : Act) (ha : a.inRange) (h : PWf p) (hs : stepL p a = some p') : PWf p' := by
  cases a with
  | «open» req host port =>
    simp only [stepL] at hs
    split at hs
    · cases hs
    · split at hs
      · cases hs
      · cases hs; exact { h with a := h.a.appOpen req host port ha }
  | cancelOpen req =>
    simp only [stepL] at hs; cases hs
    exact { h with a := { h.a with opens := opens_filter h.a.opens _ } }
  | accept => simp only [stepL] at hs; cases hs; exact { h with a := h.a.appAccept }
  | write hd d =>
    simp only [stepL] at hs
    split at hs
    · cases hs
    · cases hs; exact { h with a := h.a.appWrite hd d }
  | read hd n =>
    simp only [stepL] at hs
    split at hs
    · cases hs
    · cases hs; exact { h with a := h.a.appRead hd n }
  | shutdown hd =>
    simp only [stepL] at hs
    split at hs
    · cases hs
    · cases hs; exact { h with a := h.a.appShutdown hd }
  | dropStream hd =>
    simp only [stepL] at hs
    split at hs
    · cases hs
    · cases hs; exact { h with a := h.a.appDropStream hd }
  | sendDgram d => simp only [stepL] at hs; cases hs; exact { h with a := h.a.appSendDgram d ha.1 ha.2 }
  | recvDgram => simp only [stepL] at hs; cases hs; exact { h with a := h.a.appRecvDgram }
  | xmit =>
    simp only [stepL] at hs
    split at hs
    · cases hs
    · rename_i m rest hq
      cases hs
      have hm : m.wf := h.a.out m (by rw [hq]; simp)
      refine { h with a := { h.a with out := ?_ }, ab := ?_ }
      · intro x hx; exact h.a.out x (by rw [hq]; exact List.mem_cons_of_mem _ hx)
      · intro x hx
        rcases List.mem_append.mp hx with hx | hx
        · exact h.ab x hx
        · simp only [List.mem_singleton] at hx; subst hx; exact hm
  | recv =>
    simp only [stepL] at hs
    split at hs
    · cases hs
    · split at hs
      · rename_i f rest hba
        have hf : f.wf := h.ba (.frame f) (by rw [hba]; simp)
        have hg := h.a.processFrame f hf false
        split at hs
        · rename_i e evs hpf
          cases hs
          rw [hpf] at hg
          exact { h with a := hg, ba := fun x hx => h.ba x (by rw [hba]; exact List.mem_cons_of_mem _ hx) }
        · cases hs
      · cases hs
  | notif =>
    simp only [stepL] at hs
    split at hs
    · rename_i fid rest hq
      split at hs
      · cases hs
      · cases hs
        exact { h with a := Good.closeFlow (e := { p.a with droppedq := rest }) { h.a with } fid false }
    · cases hs
  | unpark => simp only [stepL] at hs; cases hs; exact { h with a := h.a.unpark }
  | runDone =>
    simp only [stepL] at hs; cases hs
    exact { h with a := Good.runDone (e := { p.a with doneq := [] }) { h.a with } _ }
  | runRetries =>
    simp only [stepL] at hs
    split at hs
    · cases hs
    · cases hs
      exact { h with a := Good.runRetries (e := { p.a with retryq := [] }) { h.a with } _ }
  | bindReq req bt host port =>
    simp only [stepL] at hs
    split at hs
    · cases hs
    · cases hs; exact { h with a := h.a.appBindReq req bt host port ha }
  | bindNext => simp only [stepL] at hs; cases hs; exact { h with a := h.a.appBindNext }
  | bindReply k acc => simp only [stepL] at hs; cases hs; exact { h with a := h.a.appBindReply k acc }
  | bindDrop k => simp only [stepL] at hs; cases hs; exact { h with a := h.a.appBindDrop k }

theorem step_wf {p p' : PS} (s : Side) (a : Act) (ha : a.inRange) (h : PWf p) (hs : step p s a = some p') : PWf p' := by
  cases s with
  | A => exact stepL_wf a ha h hs
  | B =>
    simp only [step, Option.map_eq_some_iff] at hs
    obtain ⟨q, hq, rfl⟩ := hs
    exact (stepL_wf a ha h.swap hq).swap

/-- Every run whose application arguments are in range keeps everything well-formed. -/
theorem run_wf (p : PS) (as : List (Side × Act)) (ha : ∀ sa ∈ as, sa.2.inRange) (h : PWf p) : PWf (run p as) := by
  induction as generalizing p with
  | nil => exact h
  | cons sa rest ih =>
    obtain ⟨s, a⟩ := sa
    unfold run
    have ha' : ∀ sa ∈ rest, sa.2.inRange := fun x hx => ha x (List.mem_cons_of_mem _ hx)
    cases hs : step p s a with
    | none => exact ih p ha' h
    | some p' => exact ih p' ha' (step_wf s a (ha (s, a) (by simp)) h hs)

/-! ### Encoding a frame-level state -/

/-- The byte-level state that carries a frame-level state: every message in transit encoded. -/
def enc (p : PS) : PSb :=
  { a := p.a, b := p.b, ab := p.ab.map encMsg, ba := p.ba.map encMsg, ga := p.ga, gb := p.gb, linked := p.linked }

theorem enc_swap (p : PS) : enc p.swap = (enc p).swap := rfl

theorem enc_init (oa ob : Opts) (ra rb : List Nat) : enc (Pair.init oa ob ra rb) = initb oa ob ra rb := rfl

/-- The receiver's source yields exactly the message the sender's sink was handed (C09's round trip). -/
theorem decMsg_encMsg (m : Msg) (h : m.wf) : decMsg (encMsg m) = .msg m := by
  cases m with
  | frame f =>
    have := Lemmas.Frame.decode_encode f h
    simp only [encMsg, decMsg, this]
  | ping => rfl
  | pong => rfl
  | close => rfl

theorem decWire_enc (l : List Msg) (h : ∀ m ∈ l, m.wf) : decWire (l.map encMsg) = l := by
  induction l with
  | nil => rfl
  | cons m rest ih =>
    simp only [List.map_cons, decWire, decMsg_encMsg m (h m (by simp))]
    rw [ih (fun x hx => h x (List.mem_cons_of_mem _ hx))]

/-- Decoding the wires of an encoded state gives the state back. -/
theorem view_enc (p : PS) (h : PWf p) : (enc p).view = p := by
  cases p
  simp only [enc, PSb.view] at *
  congr
  · exact decWire_enc _ h.ab
  · exact decWire_enc _ h.ba

/-- The actions that do not touch the wires change the acting endpoint and its ghost only. -/
theorem stepL_local {p q : PS} (a : Act) (hx : a ≠ .xmit) (hr : a ≠ .recv) (hs : stepL p a = some q) :
    q = { p with a := q.a, ga := q.ga } := by
  cases a <;> simp only [stepL] at hs <;> (try contradiction) <;> (repeat' split at hs) <;> cases hs <;> rfl

theorem stepLb_local (p : PSb) (a : Act) (hx : a ≠ .xmit) (hr : a ≠ .recv) :
    stepLb p a = (stepL p.view a).map fun q => { p with a := q.a, ga := q.ga } := by
  cases a <;> first | contradiction | rfl

/-- Lock step, left endpoint: from an encoded well-formed state, each action of the byte system is
    the encoding of the same action of the frame system (enabled in one iff enabled in the other). -/
theorem stepLb_enc (p : PS) (h : PWf p) (a : Act) : stepLb (enc p) a = (stepL p a).map enc := by
  by_cases hx : a = .xmit
  · subst hx
    simp only [stepLb, stepL]
    show (match p.a.outq with | [] => none | m :: rest => _) = _
    cases p.a.outq with
    | nil => rfl
    | cons m rest => simp [enc]
  · by_cases hr : a = .recv
    · subst hr
      simp only [stepLb, stepL, view_enc p h]
      show (if p.a.park.isSome then none else match p.ba.map encMsg with | [] => none | w :: rest => _) = _
      split
      · rfl
      · cases hba : p.ba with
        | nil => rfl
        | cons m rest =>
          have hm : m.wf := h.ba m (by rw [hba]; simp)
          simp only [List.map_cons, decMsg_encMsg m hm]
          cases m with
          | frame f =>
            cases f <;> simp only [] <;> first
              | rfl
              | (simp only [show (enc p).a = p.a from rfl]
                 split
                 · rename_i heq; rw [heq]; rfl
                 · rename_i hno
                   split
                   · rename_i heq; exact (hno _ _ heq).elim
                   · rfl)
          | ping => rfl
          | pong => rfl
          | close => rfl
    · rw [stepLb_local _ a hx hr, view_enc p h]
      cases hs : stepL p a with
      | none => rfl
      | some q =>
        simp only [Option.map_some, Option.some.injEq]
        have := stepL_local a hx hr hs
        rw [this]
        rfl

/-- Lock step, either endpoint. -/
theorem stepb_enc (p : PS) (h : PWf p) (s : Side) (a : Act) : stepb (enc p) s a = (step p s a).map enc := by
  cases s with
  | A => exact stepLb_enc p h a
  | B =>
    simp only [stepb, step, ← enc_swap, stepLb_enc p.swap h.swap a, Option.map_map]
    cases stepL p.swap a <;> rfl

/-- Every run of the byte system from an encoded well-formed state is the encoding of the same run
    of the frame system. -/
theorem runb_enc (p : PS) (as : List (Side × Act)) (ha : ∀ sa ∈ as, sa.2.inRange) (h : PWf p) :
    runb (enc p) as = enc (run p as) := by
  induction as generalizing p with
  | nil => rfl
  | cons sa rest ih =>
    obtain ⟨s, a⟩ := sa
    have ha' : ∀ sa ∈ rest, sa.2.inRange := fun x hx => ha x (List.mem_cons_of_mem _ hx)
    unfold runb run
    rw [stepb_enc p h s a]
    cases hs : step p s a with
    | none => exact ih p ha' h
    | some p' => exact ih p' ha' (step_wf s a (ha (s, a) (by simp)) h hs)

/-- In an encoded well-formed state the next `recv` of either endpoint meets a message that decodes. -/
theorem never_undecodable (p : PS) (h : PWf p) : ¬ undecodableHead (enc p) ∧ ¬ undecodableHead (enc p).swap := by
  constructor
  · unfold undecodableHead
    show ¬ (match p.ba.map encMsg with | w :: _ => ∃ e, decMsg w = .bad e | [] => False)
    cases hba : p.ba with
    | nil => simp
    | cons m rest =>
      simp only [List.map_cons, decMsg_encMsg m (h.ba m (by rw [hba]; simp))]
      rintro ⟨e, he⟩; cases he
  · unfold undecodableHead
    show ¬ (match p.ab.map encMsg with | w :: _ => ∃ e, decMsg w = .bad e | [] => False)
    cases hab : p.ab with
    | nil => simp
    | cons m rest =>
      simp only [List.map_cons, decMsg_encMsg m (h.ab m (by rw [hab]; simp))]
      rintro ⟨e, he⟩; cases he

theorem map_decMsg_enc (l : List Msg) (h : ∀ m ∈ l, m.wf) : (l.map encMsg).map decMsg = l.map .msg := by
  induction l with
  | nil => rfl
  | cons m rest ih =>
    simp only [List.map_cons, decMsg_encMsg m (h m (by simp))]
    rw [ih (fun x hx => h x (List.mem_cons_of_mem _ hx))]

/-- The ranges the Rust types give the configuration: `u32` windows, `next_u32` flow ids. -/
structure WireCfg (oa ob : Opts) (ra rb : List Nat) : Prop where
  wa : oa.rwnd < 4294967296
  wb : ob.rwnd < 4294967296
  ids : ∀ k ∈ ra ++ rb, k < 4294967296

theorem reach_wf {oa ob : Opts} {ra rb : List Nat} (c : WireCfg oa ob ra rb) (as : List (Side × Act))
    (has : ∀ sa ∈ as, sa.2.inRange) : PWf (run (Pair.init oa ob ra rb) as) :=
  run_wf _ as has (PWf_init oa ob ra rb c.wa c.wb c.ids)

theorem reach_enc {oa ob : Opts} {ra rb : List Nat} (c : WireCfg oa ob ra rb) (as : List (Side × Act))
    (has : ∀ sa ∈ as, sa.2.inRange) : runb (initb oa ob ra rb) as = enc (run (Pair.init oa ob ra rb) as) := by
  rw [← enc_init]
  exact runb_enc _ as has (PWf_init oa ob ra rb c.wa c.wb c.ids)

end Penguin.PairBytes
