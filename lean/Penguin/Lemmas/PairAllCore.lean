/-
The id-discipline part of the invariant of the pair of views (`Lemmas/PairAllAbs.lean`), proved on a
NUMERIC summary of the pair: how often `x` is still in each script, how many stream objects carry `x` on
each side, what kind of slot each side has for `x`, and how many `Connect x` resp. `Acknowledge x`/`Push x`
frames are on each path.  Every small step of the pair changes the summary in one of five ways
(`SStepL`); the invariant `CoreS` is preserved by each of them (linear arithmetic).
Core Lean only.
-/
import Penguin.Lemmas.PairAllAbs

namespace Penguin.PairAll
open Penguin.Mux

/-- The kind of a slot: 0 none, 1 a pending request (stream or bind), 2 established. -/
def sk : Option Slot → Nat
  | none => 0
  | some (.requested _) => 1
  | some (.bindRequested _) => 1
  | some (.established _) => 2

def isAP (x : Nat) (m : Msg) : Bool := isAck x m || isPush x m

def cC (x : Nat) (l : List Msg) : Nat := l.countP (isConn x)
def cAP (x : Nat) (l : List Msg) : Nat := l.countP (isAP x)

structure Sm where
  ca : Nat
  cb : Nat
  na : Nat
  nb : Nat
  sa : Nat
  sb : Nat
  cP : Nat
  aP : Nat
  cQ : Nat
  aQ : Nat

def Sm.swap (s : Sm) : Sm :=
  { ca := s.cb, cb := s.ca, na := s.nb, nb := s.na, sa := s.sb, sb := s.sa, cP := s.cQ, aP := s.aQ, cQ := s.cP, aQ := s.aP }

def sm (x : Nat) (c : PC) : Sm :=
  { ca := c.a.cnt, cb := c.b.cnt, na := c.a.nobj, nb := c.b.nobj, sa := sk c.a.slot, sb := sk c.b.slot,
    cP := cC x c.path, aP := cAP x c.path, cQ := cC x c.swap.path, aQ := cAP x c.swap.path }

theorem sm_swap (x : Nat) (c : PC) : sm x c.swap = (sm x c).swap := rfl

/-- The part of the invariant that speaks about the path FROM the left side (`own`: the left side's
    script contains `x`). -/
structure HalfS (own : Prop) (s : Sm) : Prop where
  sum : s.ca + s.cb ≤ 1
  ownCnt : 1 ≤ s.ca → own
  ownSlot : s.sa = 1 → own
  ownConn : 1 ≤ s.cP → own
  fresh : 1 ≤ s.ca → s.sa = 0 ∧ s.sb = 0 ∧ s.na = 0 ∧ s.nb = 0 ∧ s.cP = 0 ∧ s.aP = 0 ∧ s.cQ = 0 ∧ s.aQ = 0
  noAP : s.na = 0 → s.aP = 0
  once : s.ca + s.cP ≤ 1
  connB : 1 ≤ s.cP → s.nb = 0
  objs : own → s.nb = 0 → s.na = 0

structure CoreS (ownA ownB : Prop) (s : Sm) : Prop where
  l : HalfS ownA s
  r : HalfS ownB s.swap

theorem CoreS.swap {ownA ownB : Prop} {s : Sm} (h : CoreS ownA ownB s) : CoreS ownB ownA s.swap := ⟨h.r, h.l⟩

/-- The ways a small step in which the LEFT side acts or receives changes the summary. -/
inductive SStepL : Sm → Sm → Prop
  /-- nothing grows; the left slot stays or is released -/
  | shrink (s s' : Sm) (h1 : s'.ca ≤ s.ca) (h2 : s'.cb = s.cb) (h3 : s'.na = s.na) (h4 : s'.nb = s.nb)
      (h5 : s'.sa = s.sa ∨ s'.sa = 0) (h6 : s'.sb = s.sb) (h7 : s'.cP ≤ s.cP) (h8 : s'.aP ≤ s.aP)
      (h9 : s'.cQ ≤ s.cQ) (h10 : s'.aQ ≤ s.aQ) : SStepL s s'
  /-- an `Acknowledge x` or `Push x` is queued by a side that has an object carrying `x` -/
  | enqAP (s s' : Sm) (h0 : 0 < s.na) (h1 : s'.ca = s.ca) (h2 : s'.cb = s.cb) (h3 : s'.na = s.na) (h4 : s'.nb = s.nb)
      (h5 : s'.sa = s.sa) (h6 : s'.sb = s.sb) (h7 : s'.cP = s.cP) (h8 : s'.aP = s.aP + 1)
      (h9 : s'.cQ = s.cQ) (h10 : s'.aQ = s.aQ) : SStepL s s'
  /-- `x` is drawn -/
  | draw (s s' : Sm) (h1 : s'.ca < s.ca) (h2 : s'.cb = s.cb) (h3 : s'.na = s.na) (h4 : s'.nb = s.nb)
      (h5 : s.sa = 0 ∧ s'.sa = 1) (h6 : s'.sb = s.sb) (h7 : s.cP ≤ s'.cP ∧ s'.cP ≤ s.cP + 1) (h8 : s'.aP = s.aP)
      (h9 : s'.cQ = s.cQ) (h10 : s'.aQ = s.aQ) : SStepL s s'
  /-- a `Connect x` creates an object -/
  | connNew (s s' : Sm) (h1 : s'.ca = s.ca) (h2 : s'.cb = s.cb) (h3 : s'.na = s.na + 1) (h4 : s'.nb = s.nb)
      (h5 : s.sa = 0 ∧ s'.sa = 2) (h6 : s'.sb = s.sb) (h7 : s'.cP = s.cP) (h8 : s.aP ≤ s'.aP ∧ s'.aP ≤ s.aP + 1)
      (h9 : s'.cQ + 1 = s.cQ) (h10 : s'.aQ = s.aQ) : SStepL s s'
  /-- an `Acknowledge x` creates an object -/
  | ackNew (s s' : Sm) (h1 : s'.ca = s.ca) (h2 : s'.cb = s.cb) (h3 : s'.na = s.na + 1) (h4 : s'.nb = s.nb)
      (h5 : s.sa = 1 ∧ s'.sa = 2) (h6 : s'.sb = s.sb) (h7 : s'.cP = s.cP) (h8 : s'.aP = s.aP)
      (h9 : s'.cQ = s.cQ) (h10 : s'.aQ + 1 = s.aQ) : SStepL s s'

theorem CoreS.stepL {ownA ownB : Prop} (hex : ¬(ownA ∧ ownB)) {s s' : Sm} (h : CoreS ownA ownB s) (st : SStepL s s') :
    CoreS ownA ownB s' := by
  obtain ⟨⟨l1, l2, l3, l4, l5, l6, l7, l8, l9⟩, ⟨r1, r2, r3, r4, r5, r6, r7, r8, r9⟩⟩ := h
  simp only [Sm.swap] at r1 r2 r3 r4 r5 r6 r7 r8 r9
  cases st with
  | shrink h1 h2 h3 h4 h5 h6 h7 h8 h9 h10 =>
    refine ⟨⟨?_, ?_, ?_, ?_, ?_, ?_, ?_, ?_, ?_⟩, ⟨?_, ?_, ?_, ?_, ?_, ?_, ?_, ?_, ?_⟩⟩ <;> (try simp only [Sm.swap]) <;> grind
  | enqAP h0 h1 h2 h3 h4 h5 h6 h7 h8 h9 h10 =>
    refine ⟨⟨?_, ?_, ?_, ?_, ?_, ?_, ?_, ?_, ?_⟩, ⟨?_, ?_, ?_, ?_, ?_, ?_, ?_, ?_, ?_⟩⟩ <;> (try simp only [Sm.swap]) <;> grind
  | draw h1 h2 h3 h4 h5 h6 h7 h8 h9 h10 =>
    refine ⟨⟨?_, ?_, ?_, ?_, ?_, ?_, ?_, ?_, ?_⟩, ⟨?_, ?_, ?_, ?_, ?_, ?_, ?_, ?_, ?_⟩⟩ <;> (try simp only [Sm.swap]) <;> grind
  | connNew h1 h2 h3 h4 h5 h6 h7 h8 h9 h10 =>
    refine ⟨⟨?_, ?_, ?_, ?_, ?_, ?_, ?_, ?_, ?_⟩, ⟨?_, ?_, ?_, ?_, ?_, ?_, ?_, ?_, ?_⟩⟩ <;> (try simp only [Sm.swap]) <;> grind
  | ackNew h1 h2 h3 h4 h5 h6 h7 h8 h9 h10 =>
    refine ⟨⟨?_, ?_, ?_, ?_, ?_, ?_, ?_, ?_, ?_⟩, ⟨?_, ?_, ?_, ?_, ?_, ?_, ?_, ?_, ?_⟩⟩ <;> (try simp only [Sm.swap]) <;> grind

end Penguin.PairAll
