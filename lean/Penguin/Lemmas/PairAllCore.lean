/-
The id-discipline part of the invariant of the pair of views (`Lemmas/PairAllAbs.lean`), proved on a
NUMERIC summary of the pair: how often `x` is still in each script, how many stream objects carry `x` on
each side, what kind of slot each side has for `x`, and how many `Connect x` resp. `Acknowledge x`/`Push x`
frames are on each path.  Every small step of the pair changes the summary in one of five ways
(`SStepL`); the invariant `CoreS` is preserved by each of them (linear arithmetic).
Core Lean only.
-/
import Penguin.Lemmas.PairAllAbs

namespace Penguin.PairAll
open Penguin.Mux

/-- The kind of a slot: 0 none, 1 a pending stream request, 3 a pending bind request, 2 established. -/
def sk : Option Slot → Nat
  | none => 0
  | some (.requested _) => 1
  | some (.bindRequested _) => 3
  | some (.established _) => 2

def isAP (x : Nat) (m : Msg) : Bool := isAck x m || isPush x m

def cC (x : Nat) (l : List Msg) : Nat := l.countP (isConn x)
def cAP (x : Nat) (l : List Msg) : Nat := l.countP (isAP x)
def cB (x : Nat) (l : List Msg) : Nat := l.countP (isBind x)

structure Sm where
  ca : Nat
  cb : Nat
  na : Nat
  nb : Nat
  sa : Nat
  sb : Nat
  cP : Nat
  aP : Nat
  cQ : Nat
  aQ : Nat
  wa : Nat      -- writable objects
  wb : Nat
  bP : Nat      -- `Bind x` frames on the path from the left
  bQ : Nat
  ha : Nat      -- 1 if the left side holds a bind request with id `x` (of the right side)
  hb : Nat

def Sm.swap (s : Sm) : Sm :=
  { ca := s.cb, cb := s.ca, na := s.nb, nb := s.na, sa := s.sb, sb := s.sa, cP := s.cQ, aP := s.aQ, cQ := s.cP, aQ := s.aP,
    wa := s.wb, wb := s.wa, bP := s.bQ, bQ := s.bP, ha := s.hb, hb := s.ha }

def b2n (b : Bool) : Nat := if b then 1 else 0

def sm (x : Nat) (c : PC) : Sm :=
  { ca := c.a.cnt, cb := c.b.cnt, na := c.a.nobj, nb := c.b.nobj, sa := sk c.a.slot, sb := sk c.b.slot,
    cP := cC x c.path, aP := cAP x c.path, cQ := cC x c.swap.path, aQ := cAP x c.swap.path,
    wa := c.a.nw, wb := c.b.nw, bP := cB x c.path, bQ := cB x c.swap.path, ha := b2n c.a.bh, hb := b2n c.b.bh }

theorem sm_swap (x : Nat) (c : PC) : sm x c.swap = (sm x c).swap := rfl

/-- Flow id `x` is dead for streams: it has left both scripts, no stream object carries it, no `Connect x` is
    under way and no stream request for it is pending — so no stream object will ever carry it. -/
def Sm.dead (s : Sm) : Prop :=
  s.ca = 0 ∧ s.cb = 0 ∧ s.na = 0 ∧ s.nb = 0 ∧ s.cP = 0 ∧ s.cQ = 0 ∧ s.sa ≠ 1 ∧ s.sb ≠ 1

/-- The part of the invariant that speaks about the path FROM the left side (`own`: the left side's
    script contains `x`). -/
structure HalfS (own : Prop) (s : Sm) : Prop where
  sum : s.ca + s.cb ≤ 1
  ownCnt : 1 ≤ s.ca → own
  ownSlot : s.sa = 1 ∨ s.sa = 3 → own
  ownConn : 1 ≤ s.cP → own
  fresh : 1 ≤ s.ca → s.sa = 0 ∧ s.sb = 0 ∧ s.na = 0 ∧ s.nb = 0 ∧ s.cP = 0 ∧ s.aP = 0 ∧ s.cQ = 0 ∧ s.aQ = 0 ∧
    s.bP = 0 ∧ s.bQ = 0 ∧ s.ha = 0 ∧ s.hb = 0
  noAP : s.na = 0 → s.aP = 0
  once : s.ca + s.cP ≤ 1
  connB : 1 ≤ s.cP → s.nb = 0
  objs : own → s.nb = 0 → s.na = 0
  one : s.na ≤ 1
  reqObj : s.sa = 1 → s.na = 0
  wle : s.wa ≤ s.na
  bindDead : 1 ≤ s.bP ∨ s.hb = 1 → s.dead
  hle : s.ha ≤ 1
  estObj : s.sa = 2 → 1 ≤ s.na

structure CoreS (ownA ownB : Prop) (s : Sm) : Prop where
  l : HalfS ownA s
  r : HalfS ownB s.swap

theorem CoreS.swap {ownA ownB : Prop} {s : Sm} (h : CoreS ownA ownB s) : CoreS ownB ownA s.swap := ⟨h.r, h.l⟩

/-- The ways a small step in which the LEFT side acts or receives changes the summary. -/
inductive SStepL : Sm → Sm → Prop
  /-- nothing grows; the left slot stays or is released -/
  | shrink (s s' : Sm) (h1 : s'.ca ≤ s.ca) (h2 : s'.cb = s.cb) (h3 : s'.na = s.na) (h4 : s'.nb = s.nb)
      (h5 : s'.sa = s.sa ∨ s'.sa = 0) (h6 : s'.sb = s.sb) (h7 : s'.cP ≤ s.cP) (h8 : s'.aP ≤ s.aP)
      (h9 : s'.cQ ≤ s.cQ) (h10 : s'.aQ ≤ s.aQ) (h11 : s'.wa ≤ s.wa) (h12 : s'.wb = s.wb) (h13 : s'.bP ≤ s.bP)
      (h14 : s'.bQ ≤ s.bQ) (h15 : s'.ha ≤ s.ha) (h16 : s'.hb = s.hb) : SStepL s s'
  /-- an `Acknowledge x` is queued by a side that has an object carrying `x` (`w = false`), or a `Push x` by a
      side that has a writable one (`w = true`) -/
  | enqAP (s s' : Sm) (w : Bool) (h0 : if w then 0 < s.wa else 0 < s.na) (h1 : s'.ca = s.ca) (h2 : s'.cb = s.cb)
      (h3 : s'.na = s.na) (h4 : s'.nb = s.nb) (h5 : s'.sa = s.sa) (h6 : s'.sb = s.sb) (h7 : s'.cP = s.cP)
      (h8 : s'.aP = s.aP + 1) (h9 : s'.cQ = s.cQ) (h10 : s'.aQ = s.aQ) (h11 : s'.wa = s.wa) (h12 : s'.wb = s.wb)
      (h13 : s'.bP = s.bP) (h14 : s'.bQ = s.bQ) (h15 : s'.ha = s.ha) (h16 : s'.hb = s.hb) : SStepL s s'
  /-- `x` is drawn for a stream (`b = false`: `Connect x` queued) or for a bind (`b = true`: `Bind x` queued) -/
  | draw (s s' : Sm) (b : Bool) (h1 : s'.ca < s.ca) (h2 : s'.cb = s.cb) (h3 : s'.na = s.na) (h4 : s'.nb = s.nb)
      (h5 : s.sa = 0 ∧ s'.sa = (if b then 3 else 1)) (h6 : s'.sb = s.sb)
      (h7 : s'.cP = s.cP + (if b then 0 else 1)) (h8 : s'.aP = s.aP)
      (h9 : s'.cQ = s.cQ) (h10 : s'.aQ = s.aQ) (h11 : s'.wa = s.wa) (h12 : s'.wb = s.wb)
      (h13 : s'.bP = s.bP + (if b then 1 else 0)) (h14 : s'.bQ = s.bQ) (h15 : s'.ha = s.ha) (h16 : s'.hb = s.hb) :
      SStepL s s'
  /-- a `Connect x` creates an object -/
  | connNew (s s' : Sm) (h1 : s'.ca = s.ca) (h2 : s'.cb = s.cb) (h3 : s'.na = s.na + 1) (h4 : s'.nb = s.nb)
      (h5 : s.sa = 0 ∧ s'.sa = 2) (h6 : s'.sb = s.sb) (h7 : s'.cP = s.cP) (h8 : s.aP ≤ s'.aP ∧ s'.aP ≤ s.aP + 1)
      (h9 : s'.cQ + 1 = s.cQ) (h10 : s'.aQ = s.aQ) (h11 : s'.wa = s.wa + 1) (h12 : s'.wb = s.wb)
      (h13 : s'.bP = s.bP) (h14 : s'.bQ = s.bQ) (h15 : s'.ha = s.ha) (h16 : s'.hb = s.hb) : SStepL s s'
  /-- an `Acknowledge x` creates an object -/
  | ackNew (s s' : Sm) (h1 : s'.ca = s.ca) (h2 : s'.cb = s.cb) (h3 : s'.na = s.na + 1) (h4 : s'.nb = s.nb)
      (h5 : s.sa = 1 ∧ s'.sa = 2) (h6 : s'.sb = s.sb) (h7 : s'.cP = s.cP) (h8 : s'.aP = s.aP)
      (h9 : s'.cQ = s.cQ) (h10 : s'.aQ + 1 = s.aQ) (h11 : s'.wa = s.wa + 1) (h12 : s'.wb = s.wb)
      (h13 : s'.bP = s.bP) (h14 : s'.bQ = s.bQ) (h15 : s'.ha = s.ha) (h16 : s'.hb = s.hb) : SStepL s s'
  /-- a `Bind x` is processed and may become a held request -/
  | popBind (s s' : Sm) (h1 : s'.ca = s.ca) (h2 : s'.cb = s.cb) (h3 : s'.na = s.na) (h4 : s'.nb = s.nb)
      (h5 : s'.sa = s.sa) (h6 : s'.sb = s.sb) (h7 : s'.cP = s.cP) (h8 : s'.aP = s.aP)
      (h9 : s'.cQ = s.cQ) (h10 : s'.aQ = s.aQ) (h11 : s'.wa = s.wa) (h12 : s'.wb = s.wb)
      (h13 : s'.bP = s.bP) (h14 : s'.bQ + 1 = s.bQ) (h15 : s.ha ≤ s'.ha ∧ s'.ha ≤ 1) (h16 : s'.hb = s.hb) : SStepL s s'

theorem CoreS.stepL {ownA ownB : Prop} (hex : ¬(ownA ∧ ownB)) {s s' : Sm} (h : CoreS ownA ownB s) (st : SStepL s s') :
    CoreS ownA ownB s' := by
  obtain ⟨⟨l1, l2, l3, l4, l5, l6, l7, l8, l9, l10, l11, l12, l13, l14, l15⟩,
    ⟨r1, r2, r3, r4, r5, r6, r7, r8, r9, r10, r11, r12, r13, r14, r15⟩⟩ := h
  simp only [Sm.swap, Sm.dead] at r1 r2 r3 r4 r5 r6 r7 r8 r9 r10 r11 r12 r13 r14 r15 l13
  cases st with
  | shrink h1 h2 h3 h4 h5 h6 h7 h8 h9 h10 h11 h12 h13 h14 h15 h16 =>
    refine ⟨⟨?_, ?_, ?_, ?_, ?_, ?_, ?_, ?_, ?_, ?_, ?_, ?_, ?_, ?_, ?_⟩, ⟨?_, ?_, ?_, ?_, ?_, ?_, ?_, ?_, ?_, ?_, ?_, ?_, ?_, ?_, ?_⟩⟩ <;>
      (try simp only [Sm.swap, Sm.dead]) <;> grind
  | enqAP w h0 h1 h2 h3 h4 h5 h6 h7 h8 h9 h10 h11 h12 h13 h14 h15 h16 =>
    refine ⟨⟨?_, ?_, ?_, ?_, ?_, ?_, ?_, ?_, ?_, ?_, ?_, ?_, ?_, ?_, ?_⟩, ⟨?_, ?_, ?_, ?_, ?_, ?_, ?_, ?_, ?_, ?_, ?_, ?_, ?_, ?_, ?_⟩⟩ <;>
      (try simp only [Sm.swap, Sm.dead]) <;> cases w <;> simp only [if_true, if_false, Bool.false_eq_true] at h0 <;> grind
  | draw b h1 h2 h3 h4 h5 h6 h7 h8 h9 h10 h11 h12 h13 h14 h15 h16 =>
    refine ⟨⟨?_, ?_, ?_, ?_, ?_, ?_, ?_, ?_, ?_, ?_, ?_, ?_, ?_, ?_, ?_⟩, ⟨?_, ?_, ?_, ?_, ?_, ?_, ?_, ?_, ?_, ?_, ?_, ?_, ?_, ?_, ?_⟩⟩ <;>
      (try simp only [Sm.swap, Sm.dead]) <;> cases b <;> simp only [if_true, if_false, Bool.false_eq_true] at h5 h7 h13 <;> grind
  | connNew h1 h2 h3 h4 h5 h6 h7 h8 h9 h10 h11 h12 h13 h14 h15 h16 =>
    refine ⟨⟨?_, ?_, ?_, ?_, ?_, ?_, ?_, ?_, ?_, ?_, ?_, ?_, ?_, ?_, ?_⟩, ⟨?_, ?_, ?_, ?_, ?_, ?_, ?_, ?_, ?_, ?_, ?_, ?_, ?_, ?_, ?_⟩⟩ <;>
      (try simp only [Sm.swap, Sm.dead]) <;> grind
  | ackNew h1 h2 h3 h4 h5 h6 h7 h8 h9 h10 h11 h12 h13 h14 h15 h16 =>
    refine ⟨⟨?_, ?_, ?_, ?_, ?_, ?_, ?_, ?_, ?_, ?_, ?_, ?_, ?_, ?_, ?_⟩, ⟨?_, ?_, ?_, ?_, ?_, ?_, ?_, ?_, ?_, ?_, ?_, ?_, ?_, ?_, ?_⟩⟩ <;>
      (try simp only [Sm.swap, Sm.dead]) <;> grind
  | popBind h1 h2 h3 h4 h5 h6 h7 h8 h9 h10 h11 h12 h13 h14 h15 h16 =>
    refine ⟨⟨?_, ?_, ?_, ?_, ?_, ?_, ?_, ?_, ?_, ?_, ?_, ?_, ?_, ?_, ?_⟩, ⟨?_, ?_, ?_, ?_, ?_, ?_, ?_, ?_, ?_, ?_, ?_, ?_, ?_, ?_, ?_⟩⟩ <;>
      (try simp only [Sm.swap, Sm.dead]) <;> grind

/-- Once dead for streams, always dead. -/
theorem Sm.dead_stepL {ownA ownB : Prop} {s s' : Sm} (h : CoreS ownA ownB s) (hd : s.dead) (st : SStepL s s') : s'.dead := by
  obtain ⟨⟨l1, l2, l3, l4, l5, l6, l7, l8, l9, l10, l11, l12, l13, l14, l15⟩, _⟩ := h
  simp only [Sm.dead] at hd ⊢
  cases st with
  | shrink h1 h2 h3 h4 h5 h6 h7 h8 h9 h10 h11 h12 h13 h14 h15 h16 => grind
  | enqAP w h0 h1 h2 h3 h4 h5 h6 h7 h8 h9 h10 h11 h12 h13 h14 h15 h16 =>
    cases w <;> simp only [if_true, if_false, Bool.false_eq_true] at h0 <;> grind
  | draw b h1 h2 h3 h4 h5 h6 h7 h8 h9 h10 h11 h12 h13 h14 h15 h16 => grind
  | connNew h1 h2 h3 h4 h5 h6 h7 h8 h9 h10 h11 h12 h13 h14 h15 h16 => grind
  | ackNew h1 h2 h3 h4 h5 h6 h7 h8 h9 h10 h11 h12 h13 h14 h15 h16 => grind
  | popBind h1 h2 h3 h4 h5 h6 h7 h8 h9 h10 h11 h12 h13 h14 h15 h16 => grind

theorem Sm.dead_swap {s : Sm} (h : s.dead) : s.swap.dead := by
  simp only [Sm.dead, Sm.swap] at h ⊢; grind

end Penguin.PairAll
