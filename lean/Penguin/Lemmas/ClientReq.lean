/-
Helper lemmas about the client's request builder (`Penguin.Model.ClientReq`): what `HeaderMap::insert`
does to the values stored under a name, for one insert and for the whole sequence of custom headers.
-/
import Penguin.Model.ClientReq

namespace Penguin.ClientReq
open Penguin Penguin.Gate Penguin.Constants

/-- Every value stored under `name`, in order (`HeaderMap::get_all`). -/
def valuesOf (hs : Headers) (name : String) : List Bytes :=
  (hs.filter fun e => e.1 == name).map (·.2)

/-- The value of the last custom header called `name`, if any. -/
def lastOf : List (String × Bytes) → String → Option Bytes
  | [], _ => none
  | (m, v) :: rest, n =>
    match lastOf rest n with
    | some w => some w
    | none => if m = n then some v else none

theorem get_eq_head_valuesOf (hs : Headers) (n : String) : Gate.get hs n = (valuesOf hs n).head? := by
  induction hs with
  | nil => rfl
  | cons e rest ih =>
    obtain ⟨m, w⟩ := e
    by_cases h : m = n
    · simp [Gate.get, valuesOf, h]
    · have h' : (m == n) = false := by simpa using h
      simp only [Gate.get, h, if_false, ih, valuesOf, List.filter_cons, h']
      simp

theorem valuesOf_cons (k : String) (w : Bytes) (rest : Headers) (n : String) :
    valuesOf ((k, w) :: rest) n = if k = n then w :: valuesOf rest n else valuesOf rest n := by
  by_cases h : k = n
  · simp [valuesOf, h]
  · have : (k == n) = false := by simpa using h
    simp [valuesOf, h, this]

private theorem valuesOf_filter_ne (hs : Headers) (m n : String) (h : m ≠ n) :
    valuesOf (hs.filter fun e => e.1 != m) n = valuesOf hs n := by
  induction hs with
  | nil => rfl
  | cons e rest ih =>
    obtain ⟨k, w⟩ := e
    by_cases hk : k = m
    · have hkn : k ≠ n := fun hkn => h (hk.symm.trans hkn)
      simp [hk, valuesOf_cons, ih, hk ▸ hkn]
    · have : (k != m) = true := by simpa using hk
      simp only [List.filter_cons, this, if_true, valuesOf_cons, ih]

private theorem valuesOf_filter_self (hs : Headers) (n : String) :
    valuesOf (hs.filter fun e => e.1 != n) n = [] := by
  induction hs with
  | nil => rfl
  | cons e rest ih =>
    obtain ⟨k, w⟩ := e
    by_cases hk : k = n
    · simp [hk, ih]
    · have : (k != n) = true := by simpa using hk
      simp only [List.filter_cons, this, if_true, valuesOf_cons, hk, if_false, ih]

/-- `HeaderMap::insert name v` leaves exactly the one value `v` under `name` and touches no other name. -/
theorem valuesOf_insert (hs : Headers) (m : String) (v : Bytes) (n : String) :
    valuesOf (insert hs m v) n = if m = n then [v] else valuesOf hs n := by
  induction hs with
  | nil =>
    by_cases h : m = n <;> simp [insert, valuesOf, h]
  | cons e rest ih =>
    obtain ⟨k, w⟩ := e
    by_cases hk : k = m
    · subst hk
      simp only [insert, if_true, valuesOf_cons]
      by_cases h : k = n
      · subst h
        simp [valuesOf_filter_self]
      · simp [h, valuesOf_filter_ne rest k n h]
    · simp only [insert, hk, if_false, valuesOf_cons, ih]
      by_cases h : m = n
      · subst h
        simp [hk]
      · simp [h]

theorem get_insert (hs : Headers) (m : String) (v : Bytes) (n : String) :
    Gate.get (insert hs m v) n = if m = n then some v else Gate.get hs n := by
  rw [get_eq_head_valuesOf, valuesOf_insert, get_eq_head_valuesOf]
  by_cases h : m = n <;> simp [h]

/-- After all custom headers: the last custom header of that name, else what was there before. -/
theorem valuesOf_insertAll (cs : List (String × Bytes)) (hs : Headers) (n : String) :
    valuesOf (insertAll hs cs) n =
      match lastOf cs n with
      | some v => [v]
      | none => valuesOf hs n := by
  induction cs generalizing hs with
  | nil => simp [insertAll, lastOf]
  | cons e rest ih =>
    obtain ⟨m, v⟩ := e
    have hstep : insertAll hs ((m, v) :: rest) = insertAll (insert hs m v) rest := by
      simp [insertAll]
    rw [hstep, ih, valuesOf_insert]
    simp only [lastOf]
    cases lastOf rest n with
    | some w => rfl
    | none => by_cases h : m = n <;> simp [h]

theorem get_insertAll (cs : List (String × Bytes)) (hs : Headers) (n : String) :
    Gate.get (insertAll hs cs) n =
      match lastOf cs n with
      | some v => some v
      | none => Gate.get hs n := by
  rw [get_eq_head_valuesOf, valuesOf_insertAll, get_eq_head_valuesOf]
  cases lastOf cs n <;> rfl

theorem lastOf_none_of_not_mem (cs : List (String × Bytes)) (n : String)
    (h : ∀ e ∈ cs, e.1 ≠ n) : lastOf cs n = none := by
  induction cs with
  | nil => rfl
  | cons e rest ih =>
    obtain ⟨m, v⟩ := e
    have h1 : m ≠ n := h (m, v) (by simp)
    have h2 := ih (fun e he => h e (by simp [he]))
    simp [lastOf, h2, h1]

theorem lastOf_append_single (cs : List (String × Bytes)) (n : String) (v : Bytes) :
    lastOf (cs ++ [(n, v)]) n = some v := by
  induction cs with
  | nil => simp [lastOf]
  | cons e rest ih =>
    obtain ⟨m, w⟩ := e
    simp [lastOf, ih]

/-- Distinct names: at most one value under any name. -/
theorem valuesOf_length_le_one (hs : Headers) (n : String) (h : (hs.map (·.1)).Nodup) :
    (valuesOf hs n).length ≤ 1 := by
  induction hs with
  | nil => simp [valuesOf]
  | cons e rest ih =>
    obtain ⟨m, w⟩ := e
    simp only [List.map_cons, List.nodup_cons] at h
    rw [valuesOf_cons]
    by_cases hm : m = n
    · subst hm
      have : valuesOf rest m = [] := by
        unfold valuesOf
        simp only [List.map_eq_nil_iff, List.filter_eq_nil_iff]
        intro e he
        have : e.1 ≠ m := fun heq => h.1 (by rw [← heq]; exact List.mem_map_of_mem he)
        simpa using this
      simp [this]
    · simpa [hm] using ih h.2

/-- What arrives: the value under a name, without its outer white space. -/
theorem get_received (r : Gate.Request) (n : String) :
    (received r).get n = (r.get n).map trimOws := by
  unfold received Gate.Request.get
  simp only
  induction r.headers with
  | nil => rfl
  | cons e rest ih =>
    obtain ⟨m, w⟩ := e
    by_cases h : m = n <;> simp [Gate.get, h, ih]

/-! ### Outer white space -/

/-- Neither the first nor the last byte is a space or a tab. -/
def NoOuterOws (v : Bytes) : Prop :=
  (∀ x, v.head? = some x → isOws x = false) ∧ (∀ x, v.getLast? = some x → isOws x = false)

private theorem head_dropWhile_not (p : UInt8 → Bool) (l : Bytes) :
    ∀ x, (l.dropWhile p).head? = some x → p x = false := by
  induction l with
  | nil => simp
  | cons a rest ih =>
    intro x hx
    by_cases ha : p a = true
    · simp only [List.dropWhile_cons, ha, if_true] at hx
      exact ih x hx
    · simp only [List.dropWhile_cons, ha] at hx
      simp at hx
      subst hx
      simpa using ha

private theorem dropWhile_eq_self (p : UInt8 → Bool) (l : Bytes) (h : ∀ x, l.head? = some x → p x = false) :
    l.dropWhile p = l := by
  cases l with
  | nil => rfl
  | cons a rest =>
    have := h a (by simp)
    simp [this]

theorem trimOws_of_noOuter (v : Bytes) (h : NoOuterOws v) : trimOws v = v := by
  unfold trimOws
  rw [dropWhile_eq_self _ v h.1, dropWhile_eq_self _ v.reverse (by simpa [List.head?_reverse] using h.2)]
  simp

theorem noOuter_trimOws (v : Bytes) : NoOuterOws (trimOws v) := by
  unfold trimOws
  generalize ha : v.dropWhile isOws = a
  have hahead : ∀ x, a.head? = some x → isOws x = false := ha ▸ head_dropWhile_not isOws v
  generalize hb : a.reverse.dropWhile isOws = b
  have hbhead : ∀ x, b.head? = some x → isOws x = false := hb ▸ head_dropWhile_not isOws a.reverse
  constructor
  · intro x hx
    rw [List.head?_reverse] at hx
    obtain ⟨t, ht⟩ : b <:+ a.reverse := hb ▸ List.dropWhile_suffix isOws
    have hlast : a.reverse.getLast? = some x := by
      rw [← ht, List.getLast?_append, hx]; rfl
    rw [List.getLast?_reverse] at hlast
    exact hahead x hlast
  · intro x hx
    rw [List.getLast?_reverse] at hx
    exact hbhead x hx

theorem trimOws_idem (v : Bytes) : trimOws (trimOws v) = trimOws v :=
  trimOws_of_noOuter _ (noOuter_trimOws v)

end Penguin.ClientReq
