/-
Helper lemmas for Props/C19: the back-off closed form over operation sequences, the retry loop
against its specification, and the request bookkeeping of the connected loop.
-/
import Penguin.Model.Backoff
import Penguin.Model.Client
import Penguin.Spec.Backoff
import Penguin.Spec.ClientLoop
import Penguin.Lemmas.Backoff

namespace Penguin.Lemmas.Client
open Penguin Penguin.Backoff Penguin.Client Penguin.Constants Penguin.Spec Penguin.Lemmas.Backoff

/-! ### Back-off -/

theorem advanceN_add (b : Backoff) (a c : Nat) : b.advanceN (a + c) = (b.advanceN a).advanceN c := by
  induction a generalizing b with
  | zero => simp [Backoff.advanceN]
  | succ a ih =>
    have : a + 1 + c = (a + c) + 1 := by omega
    rw [this]
    simp only [Backoff.advanceN]
    exact ih _

theorem advanceN_fixed (b : Backoff) (h : b.advance = (b, none)) (j : Nat) : b.advanceN j = b := by
  induction j with
  | zero => rfl
  | succ j ih => simp only [Backoff.advanceN, h]; exact ih

theorem advance_closed_form (i m c n k : Nat) :
    ((Backoff.new i m c n).advanceN k).advance.2 = closedDelay i m c n k := by
  by_cases h : n = 0 ∨ k < n
  · have hinv := inv_advanceN i m c n k 0 (Backoff.new i m c n) (inv_new i m c n) (by omega)
    rw [Nat.zero_add] at hinv
    rw [(advance_some hinv h).1]
    simp [closedDelay, h]
  · have hn : n ≠ 0 := by omega
    have hk : n ≤ k := by omega
    obtain ⟨j, rfl⟩ : ∃ j, k = n + j := ⟨k - n, by omega⟩
    have hinv := inv_advanceN i m c n n 0 (Backoff.new i m c n) (inv_new i m c n) (by omega)
    rw [Nat.zero_add] at hinv
    have hfix := advance_none hinv hn (Nat.le_refl n)
    rw [advanceN_add, advanceN_fixed _ hfix, hfix]
    simp [closedDelay, h]

/-- The generator state after a sequence of operations (results discarded). -/
def applyOps (b : Backoff) : List Backoff.Op → Backoff
  | [] => b
  | .reset :: ops => applyOps b.reset ops
  | .advance :: ops => applyOps b.advance.1 ops

/-- The four parameters never change. -/
def SameParams (a b : Backoff) : Prop :=
  a.initial = b.initial ∧ a.max = b.max ∧ a.mult = b.mult ∧ a.maxCount = b.maxCount

theorem sameParams_advance (b : Backoff) : SameParams b.advance.1 b := by
  unfold Backoff.advance
  split <;> simp [SameParams]

theorem sameParams_reset (b : Backoff) : SameParams b.reset b := by
  simp [SameParams, Backoff.reset]

theorem sameParams_applyOps (b : Backoff) (ops : List Backoff.Op) : SameParams (applyOps b ops) b := by
  induction ops generalizing b with
  | nil => simp [applyOps, SameParams]
  | cons op ops ih =>
    cases op with
    | advance =>
      have h1 := ih b.advance.1
      have h2 := sameParams_advance b
      simp only [applyOps]
      exact ⟨h1.1.trans h2.1, h1.2.1.trans h2.2.1, h1.2.2.1.trans h2.2.2.1, h1.2.2.2.trans h2.2.2.2⟩
    | reset =>
      have h1 := ih b.reset
      have h2 := sameParams_reset b
      simp only [applyOps]
      exact ⟨h1.1.trans h2.1, h1.2.1.trans h2.2.1, h1.2.2.1.trans h2.2.2.1, h1.2.2.2.trans h2.2.2.2⟩

theorem reset_restarts (i m c n : Nat) (ops : List Backoff.Op) :
    (applyOps (Backoff.new i m c n) ops).reset = Backoff.new i m c n ∧
    (applyOps (Backoff.new i m c n) ops).reset.advance.2 = some (Nat.min i m) := by
  have h := sameParams_applyOps (Backoff.new i m c n) ops
  have hr : (applyOps (Backoff.new i m c n) ops).reset = Backoff.new i m c n := by
    obtain ⟨h1, h2, h3, h4⟩ := h
    generalize applyOps (Backoff.new i m c n) ops = b at *
    cases b
    simp only [Backoff.new, Backoff.reset] at *
    simp [h1, h2, h3, h4]
  refine ⟨hr, ?_⟩
  rw [hr]
  have := (advance_some (inv_new i m c n) (k := 0) (by omega)).1
  simpa using this

theorem outputs_inv (i m c n : Nat) (ops : List Backoff.Op) :
    ∀ (k : Nat) (b : Backoff), Inv i m c n k b → b.outputs ops = specOps i m c n k ops := by
  induction ops with
  | nil => intro k b _; rfl
  | cons op ops ih =>
    intro k b hinv
    cases op with
    | reset => simp only [Backoff.outputs, specOps]; exact ih 0 _ (inv_reset hinv)
    | advance =>
      simp only [Backoff.outputs, specOps]
      by_cases h : n = 0 ∨ k < n
      · have hs := advance_some hinv h
        rw [hs.1, ih (k + 1) _ hs.2]
        simp [closedDelay, h]
      · have hfix := advance_none hinv (by omega) (by omega)
        rw [hfix]
        simp only [h, if_false]
        rw [ih k b hinv]
        simp [closedDelay, h]

theorem outputs_closed_form (i m c n : Nat) (ops : List Backoff.Op) :
    (Backoff.new i m c n).outputs ops = specOps i m c n 0 ops :=
  outputs_inv i m c n ops 0 _ (inv_new i m c n)

theorem no_overflow (b : Backoff) (m : Nat) (hmax : b.max = m) (hmult : b.mult = 2) (hm : m < 2 ^ 64) :
    b.advanceOverflows = false := by
  have h1 : Nat.min b.current b.max ≤ m := by rw [hmax]; exact Nat.min_le_right _ _
  have h2 : ¬ (Nat.min b.current b.max * b.mult > Backoff.durationMaxMs) := by
    rw [hmult]
    have : Backoff.durationMaxMs = 18446744073709551616 * 1000 - 1 := rfl
    have h64 : (2:Nat) ^ 64 = 18446744073709551616 := by decide
    omega
  simp [Backoff.advanceOverflows, h2]

theorem runOps_no_overflow (m : Nat) (hm : m < 2 ^ 64) (ops : List Backoff.Op) :
    ∀ b : Backoff, b.max = m → b.mult = 2 → b.runOps ops = (b.outputs ops).map Backoff.Out.ofOption := by
  induction ops with
  | nil => intro b _ _; rfl
  | cons op ops ih =>
    intro b hmax hmult
    cases op with
    | reset =>
      simp only [Backoff.runOps, Backoff.outputs]
      exact ih b.reset (by simpa [Backoff.reset] using hmax) (by simpa [Backoff.reset] using hmult)
    | advance =>
      have hno := no_overflow b m hmax hmult hm
      have hp := sameParams_advance b
      have ih' := ih b.advance.1 (hp.2.1.trans hmax) (hp.2.2.1.trans hmult)
      simp only [Backoff.runOps, Backoff.outputs, Backoff.advanceChecked, hno, Bool.false_eq_true, if_false,
        List.map_cons]
      rcases hb : b.advance with ⟨b', r⟩
      rw [hb] at ih'
      cases r <;> simp [Backoff.Out.ofOption, ih']

theorem client_never_overflows (count maxInterval : Nat) (hm : maxInterval < 2 ^ 64)
    (ops : List Backoff.Op) :
    (clientBackoff count maxInterval).runOps ops =
      ((clientBackoff count maxInterval).outputs ops).map Backoff.Out.ofOption :=
  runOps_no_overflow maxInterval hm ops _ rfl rfl

/-! ### The retry loop against its specification -/

theorem retryStep_spec {n m k : Nat} {b : Backoff} (hinv : Inv 200 m 2 n k b) (e : ClientErr) (c : Bool) :
    (∃ f, retryStep b e c = .inl f ∧ specRetry n m k e c = .inl f) ∨
    (∃ b' d, retryStep b e c = .inr (b', d) ∧ specRetry n m k e c = .inr d ∧ Inv 200 m 2 n (k + 1) b') := by
  unfold retryStep specRetry
  by_cases h1 : e = .cancelled
  · left; exact ⟨.panicCancelled, by simp [h1], by simp [h1]⟩
  · by_cases h2 : e.retryable = false
    · left; exact ⟨.fatal e, by simp [h1, h2], by simp [h1, h2]⟩
    · simp only [h1, h2, if_false]
      by_cases h : n = 0 ∨ k < n
      · have hs := advance_some hinv h
        rcases hb : b.advance with ⟨b', r⟩
        rw [hb] at hs
        simp only at hs
        obtain ⟨hr, hi⟩ := hs
        subst hr
        have hcd : closedDelay 200 m 2 n k = some (Nat.min (200 * 2 ^ k) m) := by simp [closedDelay, h]
        rw [hcd]
        cases c
        · right; exact ⟨b', Nat.min (200 * 2 ^ k) m, by simp, by simp, hi⟩
        · left; exact ⟨.cancelled, by simp, by simp⟩
      · have hfix := advance_none hinv (by omega) (by omega)
        have hcd : closedDelay 200 m 2 n k = none := by simp [closedDelay, h]
        rw [hfix, hcd]
        left; exact ⟨.gaveUp e, rfl, rfl⟩

theorem loop_inv (n m : Nat) (script : List (Outcome × Bool)) :
    ∀ (k : Nat) (b : Backoff), Inv 200 m 2 n k b → runLoop b script = specLoop n m k script := by
  induction script with
  | nil => intro k b _; rfl
  | cons oc rest ih =>
    intro k b hinv
    obtain ⟨o, c⟩ := oc
    cases o with
    | never => simp [runLoop, stepLoop, specLoop]
    | connectedOk => simp [runLoop, stepLoop, specLoop]
    | handshakeErr e =>
      simp only [runLoop, stepLoop, specLoop]
      rcases retryStep_spec hinv e c with ⟨f, h1, h2⟩ | ⟨b', d, h1, h2, hi⟩
      · rw [h1, h2]
      · rw [h1, h2]; simp only; rw [ih (k + 1) b' hi]
    | connectedErr e =>
      simp only [runLoop, stepLoop, specLoop]
      rcases retryStep_spec (inv_reset hinv) e c with ⟨f, h1, h2⟩ | ⟨b', d, h1, h2, hi⟩
      · rw [h1, h2]
      · rw [h1, h2]; simp only; rw [ih 1 b' hi]

theorem clientBackoff_inv (n m : Nat) : Inv 200 m 2 n 0 (clientBackoff n m) :=
  inv_new 200 m 2 n

theorem loop_follows_spec (n m : Nat) (script : List (Outcome × Bool)) :
    runLoop (clientBackoff n m) script = specLoop n m 0 script :=
  loop_inv n m script 0 _ (clientBackoff_inv n m)

theorem spec_gives_up (n m : Nat) (rest : List (Outcome × Bool)) :
    ∀ (errs : List ClientErr) (k : Nat) (hne : errs ≠ []), k ≤ n → 0 < n → errs.length = n + 1 - k →
      (∀ e ∈ errs, e.retryable = true ∧ e ≠ .cancelled) →
      specLoop n m k (errs.map (fun e => (Outcome.handshakeErr e, false)) ++ rest) =
        ((List.range' k (n - k)).map (fun j => Nat.min (200 * 2 ^ j) m), .gaveUp (errs.getLast hne)) := by
  intro errs
  induction errs with
  | nil => intro k hne; exact absurd rfl hne
  | cons e es ih =>
    intro k hne hk hn hlen hr
    have he := hr e (by simp)
    simp only [List.map_cons, List.cons_append, specLoop, specRetry, he.2, he.1, if_false, Bool.true_eq_false]
    by_cases hkn : k = n
    · subst hkn
      have hes : es = [] := by
        cases es with
        | nil => rfl
        | cons a as => exfalso; simp only [List.length_cons] at hlen; omega
      subst hes
      have hk0 : k ≠ 0 := by omega
      simp [closedDelay, hk0]
    · have hlt : k < n := by omega
      have hcd : closedDelay 200 m 2 n k = some (Nat.min (200 * 2 ^ k) m) := by simp [closedDelay, hlt]
      have hes : es ≠ [] := by
        intro h; subst h; simp at hlen; omega
      have hlen' : es.length = n + 1 - (k + 1) := by simp at hlen; omega
      have := ih (k + 1) hes (by omega) hn hlen' (fun e he => hr e (by simp [he]))
      rw [hcd]
      simp only [Bool.false_eq_true, if_false]
      rw [this]
      have hr' : n - k = (n - (k + 1)) + 1 := by omega
      rw [hr', List.range'_succ, List.getLast_cons hes]
      simp

theorem gives_up_loop (n m : Nat) (hn : 0 < n) (errs : List ClientErr) (rest : List (Outcome × Bool))
    (hlen : errs.length = n + 1) (hr : ∀ e ∈ errs, e.retryable = true ∧ e ≠ .cancelled)
    (hne : errs ≠ []) :
    runLoop (clientBackoff n m) (errs.map (fun e => (.handshakeErr e, false)) ++ rest) =
      ((List.range n).map (fun k => Nat.min (200 * 2 ^ k) m), .gaveUp (errs.getLast hne)) := by
  rw [loop_follows_spec, spec_gives_up n m rest errs 0 hne (by omega) hn (by omega) hr]
  simp [List.range_eq_range']

theorem spec_never_gives_up_0 (m : Nat) (script : List (Outcome × Bool)) (e : ClientErr) :
    ∀ k, (specLoop 0 m k script).2 ≠ .gaveUp e := by
  induction script with
  | nil => intro k; simp [specLoop]
  | cons oc rest ih =>
    intro k
    obtain ⟨o, c⟩ := oc
    cases o with
    | never => simp [specLoop]
    | connectedOk => simp [specLoop]
    | handshakeErr e' =>
      simp only [specLoop, specRetry, closedDelay, true_or, if_true]
      by_cases h1 : e' = .cancelled
      · simp [h1]
      · by_cases h2 : e'.retryable = false
        · simp [h1, h2]
        · cases c <;> simp [h1, h2, ih (k + 1)]
    | connectedErr e' =>
      simp only [specLoop, specRetry, closedDelay, true_or, if_true]
      by_cases h1 : e' = .cancelled
      · simp [h1]
      · by_cases h2 : e'.retryable = false
        · simp [h1, h2]
        · cases c <;> simp [h1, h2, ih 1]

theorem never_gives_up_loop_0 (m : Nat) (script : List (Outcome × Bool)) (e : ClientErr) :
    (runLoop (clientBackoff 0 m) script).2 ≠ .gaveUp e := by
  rw [loop_follows_spec]; exact spec_never_gives_up_0 m script e 0

theorem reset_after_success_loop (n m : Nat) (ops : List Backoff.Op) (e : ClientErr)
    (he : e.retryable = true) (hc : e ≠ .cancelled) (rest : List (Outcome × Bool)) :
    runLoop (applyOps (clientBackoff n m) ops) ((.connectedErr e, false) :: rest) =
      (Nat.min 200 m :: (runLoop ((clientBackoff n m).advance.1) rest).1,
       (runLoop ((clientBackoff n m).advance.1) rest).2) := by
  have hr := reset_restarts 200 m 2 n ops
  have h1 : (applyOps (clientBackoff n m) ops).reset = clientBackoff n m := hr.1
  have h2 : (clientBackoff n m).advance.2 = some (Nat.min 200 m) := by
    have := hr.2; rw [hr.1] at this; exact this
  simp only [runLoop, stepLoop, retryStep, h1, hc, he, if_false, Bool.true_eq_false]
  rcases hb : (clientBackoff n m).advance with ⟨b', r⟩
  rw [hb] at h2
  simp only at h2
  subst h2
  simp

theorem retryStep_inr {b b' : Backoff} {e : ClientErr} {c : Bool} {d : Nat}
    (h : retryStep b e c = .inr (b', d)) : b.advance = (b', some d) := by
  unfold retryStep at h
  split at h
  · simp at h
  · split at h
    · simp at h
    · rcases hb : b.advance with ⟨b'', r⟩
      rw [hb] at h
      cases r with
      | none => simp at h
      | some d' =>
        cases c
        · simp only [Bool.false_eq_true, if_false, Sum.inr.injEq, Prod.mk.injEq] at h
          obtain ⟨h1, h2⟩ := h
          subst h1; subst h2; rfl
        · simp at h

theorem advance_delay_le {b b' : Backoff} {d : Nat} (h : b.advance = (b', some d)) :
    d ≤ b.max ∧ b'.max = b.max := by
  unfold Backoff.advance at h
  split at h
  · simp at h
  · simp only [Prod.mk.injEq, Option.some.injEq] at h
    obtain ⟨h1, h2⟩ := h
    subst h1; subst h2
    exact ⟨Nat.min_le_right _ _, rfl⟩

theorem loop_sleeps_bounded_gen (m : Nat) (script : List (Outcome × Bool)) :
    ∀ b : Backoff, b.max = m → ∀ d ∈ (runLoop b script).1, d ≤ m := by
  induction script with
  | nil => intro b _ d hd; simp [runLoop] at hd
  | cons oc rest ih =>
    intro b hb d hd
    obtain ⟨o, c⟩ := oc
    simp only [runLoop] at hd
    rcases hs : stepLoop b o c with f | ⟨b', d'⟩
    · rw [hs] at hd; simp at hd
    · rw [hs] at hd
      simp only [List.mem_cons] at hd
      have hadv : ∃ b0 : Backoff, b0.max = m ∧ b0.advance = (b', some d') := by
        cases o with
        | never => simp [stepLoop] at hs
        | connectedOk => simp [stepLoop] at hs
        | handshakeErr e => exact ⟨b, hb, retryStep_inr hs⟩
        | connectedErr e => exact ⟨b.reset, by simpa [Backoff.reset] using hb, retryStep_inr hs⟩
      obtain ⟨b0, hb0, hadv⟩ := hadv
      have := advance_delay_le hadv
      rcases hd with rfl | hd
      · rw [← hb0]; exact this.1
      · exact ih b' (this.2.trans hb0) d hd

theorem loop_sleeps_bounded (n m : Nat) (script : List (Outcome × Bool)) :
    ∀ d ∈ (runLoop (clientBackoff n m) script).1, d ≤ m :=
  loop_sleeps_bounded_gen m script _ rfl

end Penguin.Lemmas.Client
