/-
The view of one endpoint with respect to ONE flow id `x` and ONE stream-object index `j`, and the small
steps by which that view can change.

`view x j e` keeps of an endpoint state what matters for "which `Push x` frames are accepted into object
`j`, and which `Connect x` / `Acknowledge x` / `Push x` frames are sent": the slot of `x`, the number of
stream objects carrying `x`, how often `x` still occurs in the id script, the inbox, the outbound queue,
and whether a `Push x` would be accepted into `j` now (`canJ`).  `AStep` lists the ways the view can
change in one atomic action, labelled with the messages handed to the transport and the payloads accepted
into object `j`; `Star` is its reflexive-transitive closure.  `Sim x j e e' evs L` says that the endpoint
function that led from `e` to `e'`, emitting `evs`, with accept log `L`, is such a sequence of small
steps.  `Lemmas/PairAllSim*.lean` prove `Sim` for every function of the endpoint model; the invariant of
the pair (`Lemmas/PairAllInv.lean`) is then proved on small steps only.
Core Lean only.
-/
import Penguin.Model.PairAll
import Penguin.Lemmas.MuxIntegritySrc
import Penguin.Lemmas.MuxLeak
import Penguin.Lemmas.MuxEof

namespace Penguin.PairAll
open Penguin.Mux

/-! ### Messages about flow `x` -/

def isConn (x : Nat) : Msg → Bool
  | .frame (.connect f _ _ _) => f == x
  | _ => false

def isAck (x : Nat) : Msg → Bool
  | .frame (.acknowledge f _) => f == x
  | _ => false

def isPush (x : Nat) : Msg → Bool
  | .frame (.push f _) => f == x
  | _ => false

def isFin (x : Nat) : Msg → Bool
  | .frame (.finish f) => f == x
  | _ => false

def isBind (x : Nat) : Msg → Bool
  | .frame (.bind f _ _ _) => f == x
  | _ => false

/-- What a small step records beside what it sends and accepts: a payload queued as `Push x` by a write, or a
    `Finish x` processed while the slot of `x` is `Established j`. -/
inductive XL where
  | wrote (d : Bytes)
  | fin
deriving DecidableEq, Repr

/-- The payloads queued as `Push x` among the records, in order. -/
def XL.wrotes : List XL → List Bytes
  | [] => []
  | .wrote d :: r => d :: XL.wrotes r
  | .fin :: r => XL.wrotes r

/-- The number of `Finish x` processed for object `j` among the records. -/
def XL.fins : List XL → Nat
  | [] => 0
  | .fin :: r => XL.fins r + 1
  | .wrote _ :: r => XL.fins r

theorem XL.wrotes_append (a b : List XL) : XL.wrotes (a ++ b) = XL.wrotes a ++ XL.wrotes b := by
  induction a with
  | nil => rfl
  | cons t r ih => cases t <;> simp [XL.wrotes, ih]

theorem XL.fins_append (a b : List XL) : XL.fins (a ++ b) = XL.fins a + XL.fins b := by
  induction a with
  | nil => simp [XL.fins]
  | cons t r ih => cases t <;> simp [XL.fins, ih] <;> omega

/-- The payloads of the `Push x` frames among messages, in order. -/
def pX (x : Nat) : List Msg → List Bytes
  | [] => []
  | .frame (.push f d) :: r => if f = x then d :: pX x r else pX x r
  | _ :: r => pX x r

/-- The messages among transport items. -/
def inMsgs : List WsIn → List Msg
  | [] => []
  | .msg m :: r => m :: inMsgs r
  | _ :: r => inMsgs r

/-- The source ends or fails. -/
def isEnd : WsIn → Bool
  | .eof => true
  | .err => true
  | _ => false

theorem pX_append (x : Nat) (a b : List Msg) : pX x (a ++ b) = pX x a ++ pX x b := by
  induction a with
  | nil => rfl
  | cons m r ih =>
    cases m with
    | frame f =>
      cases f <;> simp only [List.cons_append, pX, ih]
      split <;> simp
    | ping => simpa [pX] using ih
    | pong => simpa [pX] using ih
    | close => simpa [pX] using ih

theorem inMsgs_append (a b : List WsIn) : inMsgs (a ++ b) = inMsgs a ++ inMsgs b := by
  induction a with
  | nil => rfl
  | cons w r ih => cases w <;> simp [inMsgs, ih]

theorem wireMsgs_append (a b : List Ev) : wireMsgs (a ++ b) = wireMsgs a ++ wireMsgs b := by
  induction a with
  | nil => rfl
  | cons ev r ih => cases ev <;> simp [wireMsgs, ih]

theorem wireMsgs_wires (l : List Msg) : wireMsgs (l.map Ev.wire) = l := by
  induction l with
  | nil => rfl
  | cons m r ih => simp [wireMsgs, ih]

theorem wireMsgs_map_openDone (l : List OpenReq) (c : OpenRes) :
    wireMsgs (l.map (fun r => Ev.openDone r.req c)) = [] := by
  induction l with
  | nil => rfl
  | cons r rest ih => simpa [wireMsgs] using ih

/-! ### The view -/

structure View where
  slot : Option Slot        -- the slot of `x` in the flow table
  nobj : Nat                -- how many stream objects carry the id `x`
  cnt : Nat                 -- how often `x` still occurs in the id script
  rngNil : Bool             -- the script is exhausted
  inbox : List WsIn
  outq : List Msg
  outClosed : Bool
  srcEnded : Bool
  canJ : Bool               -- `x`'s slot is `Established j`, object `j` has its `Sender` and an open `Receiver`
  len : Nat                 -- number of stream objects
  nw : Nat                  -- how many stream objects carrying `x` can still be written (`finishSent = false`)
  bh : Bool                 -- a bind request of the peer with id `x` is held (queued, parked or handed out)
  rxJ : Bool                -- object `j` exists and its `Receiver` is open

/-- A `Push x` arriving now is offered to object `j` (it is accepted if the bounded queue has room). -/
def canAccF (x j : Nat) (fl : List (Nat × Slot)) (objs : List Obj) : Bool :=
  match lookup fl x with
  | some (.established i) =>
    i == j && (match objs[j]? with | some o => o.senderAlive && o.rxOpen | none => false)
  | _ => false

def canAcc (x j : Nat) (e : EP) : Bool := canAccF x j e.flows e.objs

/-- A bind request with id `x` of the peer is in the bind queue, parked, or was handed to the application. -/
def bindHeld (x : Nat) (e : EP) : Bool :=
  e.bindq.any (fun b => b.fid == x) || e.held.any (fun b => b.fid == x) ||
    (match e.park with | some (.bind b) => b.fid == x | _ => false)

/-- Object `j` exists and its `Receiver` is open. -/
def rxOpenJ (j : Nat) (objs : List Obj) : Bool :=
  match objs[j]? with | some o => o.rxOpen | none => false

/-- The view of `e`, with `l` for its inbox (most functions of the endpoint model neither read nor write
    the inbox; the task's loops pass it around as an argument). -/
def view (x j : Nat) (e : EP) (l : List WsIn) : View :=
  { slot := lookup e.flows x, nobj := e.objs.countP (fun o => o.fid == x), cnt := e.rng.count x,
    rngNil := e.rng.isEmpty, inbox := l, outq := e.outq, outClosed := e.outClosed,
    srcEnded := e.srcEnded, canJ := canAcc x j e, len := e.objs.length,
    nw := e.objs.countP (fun o => o.fid == x && !o.finishSent), bh := bindHeld x e, rxJ := rxOpenJ j e.objs }

/-- The atomic changes of a view, with the messages handed to the transport, the payloads accepted into object
    `j`, and the records `XL`. -/
inductive AStep (x j : Nat) : View → View → List Msg → List Bytes → List XL → Prop
  /-- the send loop hands the oldest queued message to the transport -/
  | emit (v : View) (m : Msg) (r : List Msg) (h : v.outq = m :: r) : AStep x j v { v with outq := r } [m] [] []
  /-- the sink is closed (a WebSocket Close goes out) -/
  | sendClose (v : View) : AStep x j v v [.close] [] []
  /-- a message is queued that is neither `Connect x`, `Bind x`, `Finish x` nor `Push x`; an `Acknowledge x` only
      by an endpoint that has a stream object carrying `x` -/
  | enq (v : View) (m : Msg) (hc : v.outClosed = false) (h1 : isConn x m = false) (h3 : isPush x m = false)
      (h4 : isFin x m = false) (h5 : isBind x m = false) (h2 : isAck x m = true → 0 < v.nobj) :
      AStep x j v { v with outq := v.outq ++ [m] } [] [] []
  /-- a write queues a `Push x`: only through a stream object carrying `x` whose write side is open -/
  | enqPush (v : View) (d : Bytes) (hc : v.outClosed = false) (hw : 0 < v.nw) :
      AStep x j v { v with outq := v.outq ++ [.frame (.push x d)] } [] [] [.wrote d]
  /-- a stream object carrying `x` is shut down: its write side closes and a `Finish x` is queued -/
  | enqFinS (v : View) (hc : v.outClosed = false) (hw : 0 < v.nw) :
      AStep x j v { v with outq := v.outq ++ [.frame (.finish x)], nw := v.nw - 1 } [] [] []
  /-- a held bind request with id `x` is accepted: a `Finish x` is queued -/
  | enqFinB (v : View) (hc : v.outClosed = false) (hb : v.bh = true) :
      AStep x j v { v with outq := v.outq ++ [.frame (.finish x)] } [] [] []
  /-- ids are consumed from the script without `x` being drawn -/
  | rng (v : View) (c : Nat) (n : Bool) (hc : c ≤ v.cnt) (hn : v.rngNil = true → n = true) :
      AStep x j v { v with cnt := c, rngNil := n } [] [] []
  /-- `x` is drawn for a request: it leaves the script (or the script is exhausted), it had no slot, and
      either a stream is requested (`Connect x` queued) or a bind (`Bind x` queued) -/
  | draw (v : View) (c : Nat) (n : Bool) (s : Slot) (m : Msg) (hc : c ≤ v.cnt) (hn : v.rngNil = true → n = true)
      (hd : c < v.cnt ∨ n = true) (hs : v.slot = none) (ho : v.outClosed = false)
      (hk : (∃ q, s = .requested q ∧ isConn x m = true) ∨ (∃ q, s = .bindRequested q ∧ isBind x m = true)) :
      AStep x j v { v with cnt := c, rngNil := n, slot := some s, outq := v.outq ++ [m] } [] [] []
  /-- the receive loop (or the wind-down) takes an item that is not a `Connect x`, `Acknowledge x`, `Push x`,
      `Finish x`, `Bind x` -/
  | pop (v : View) (w : WsIn) (r : List WsIn) (h : v.inbox = w :: r)
      (hw : ∀ m, w = .msg m → isConn x m = false ∧ isAck x m = false ∧ isPush x m = false ∧ isFin x m = false ∧
        isBind x m = false) :
      AStep x j v { v with inbox := r, srcEnded := v.srcEnded || isEnd w } [] [] []
  /-- a `Finish x` is processed: an `Established` slot stays (its object loses its `Sender`), a pending slot is
      released; recorded if the slot is `Established j` -/
  | popFin (v : View) (r : List WsIn) (s : Option Slot) (h : v.inbox = .msg (.frame (.finish x)) :: r)
      (hs : (∃ i, v.slot = some (.established i) ∧ s = v.slot) ∨ ((∀ i, v.slot ≠ some (.established i)) ∧ s = none)) :
      AStep x j v { v with inbox := r, slot := s, canJ := false } [] []
        (if v.slot = some (.established j) then [.fin] else [])
  /-- a `Bind x` is processed: it may become a held bind request -/
  | popBind (v : View) (m : Msg) (r : List WsIn) (b : Bool) (h : v.inbox = .msg m :: r) (hm : isBind x m = true)
      (hb : v.bh = true → b = true) : AStep x j v { v with inbox := r, bh := b } [] [] []
  /-- the slot of `x` is released, object `j` stops accepting (only by losing the slot or closing its receiver),
      write sides close, held bind requests are forgotten -/
  | degrade (v : View) (s : Option Slot) (c : Bool) (w : Nat) (b rx : Bool) (hs : s = v.slot ∨ s = none)
      (hc : c = true → v.canJ = true ∧ s = v.slot) (hk : v.canJ = true → s = v.slot → rx = true → c = true)
      (hw : w ≤ v.nw) (hb : b = true → v.bh = true) (hr : rx = true → v.rxJ = true) :
      AStep x j v { v with slot := s, canJ := c, nw := w, bh := b, rxJ := rx } [] [] []
  /-- a `Connect x` is refused -/
  | connRej (v : View) (m : Msg) (r : List WsIn) (h : v.inbox = .msg m :: r) (hm : isConn x m = true) :
      AStep x j v { v with inbox := r } [] [] []
  /-- a `Connect x` creates a stream object (index `len`) and is acknowledged -/
  | connNew (v : View) (m : Msg) (r : List WsIn) (n : Nat) (h : v.inbox = .msg m :: r) (hm : isConn x m = true)
      (hs : v.slot = none) :
      AStep x j v { v with inbox := r, slot := some (.established v.len), len := v.len + 1, nobj := v.nobj + 1,
                           canJ := v.len == j, nw := v.nw + 1, rxJ := v.rxJ || v.len == j,
                           outq := if v.outClosed then v.outq else v.outq ++ [.frame (.acknowledge x n)] } [] [] []
  /-- an `Acknowledge x` answers this endpoint's request: a stream object (index `len`) is created -/
  | ackNew (v : View) (m : Msg) (r : List WsIn) (q : Nat) (h : v.inbox = .msg m :: r) (hm : isAck x m = true)
      (hs : v.slot = some (.requested q)) :
      AStep x j v { v with inbox := r, slot := some (.established v.len), len := v.len + 1, nobj := v.nobj + 1,
                           canJ := v.len == j, nw := v.nw + 1, rxJ := v.rxJ || v.len == j } [] [] []
  /-- any other `Acknowledge x` -/
  | ackOld (v : View) (m : Msg) (r : List WsIn) (h : v.inbox = .msg m :: r) (hm : isAck x m = true)
      (hs : ∀ q, v.slot ≠ some (.requested q)) : AStep x j v { v with inbox := r } [] [] []
  /-- a `Push x` is accepted into object `j` -/
  | pushAcc (v : View) (d : Bytes) (r : List WsIn) (h : v.inbox = .msg (.frame (.push x d)) :: r) (hc : v.canJ = true) :
      AStep x j v { v with inbox := r } [] [d] []
  /-- a `Push x` is not accepted into object `j`: `j` was not accepting, or its queue was full and the flow
      is closed -/
  | pushRej (v : View) (d : Bytes) (r : List WsIn) (s : Option Slot) (h : v.inbox = .msg (.frame (.push x d)) :: r)
      (hs : (s = v.slot ∧ v.canJ = false) ∨ s = none) :
      AStep x j v { v with inbox := r, slot := s, canJ := false } [] [] []
  /-- stream objects of other flows are created -/
  | grow (v : View) (n : Nat) (h : v.len ≤ n) : AStep x j v { v with len := n } [] [] []
  /-- the wind-down finishes: what the source still had is dropped, every slot is released -/
  | clearInbox (v : View) : AStep x j v { v with inbox := [], slot := none, canJ := false } [] [] []
  /-- the outbound queue is closed (what it holds is still sent) -/
  | closeOut (v : View) : AStep x j v { v with outClosed := true } [] [] []
  /-- the outbound queue is closed and what it held is dropped -/
  | clearOutq (v : View) : AStep x j v { v with outq := [], outClosed := true } [] [] []

/-- Sequences of small steps; labels concatenate. -/
inductive Star (x j : Nat) : View → View → List Msg → List Bytes → List XL → Prop
  | refl (v : View) : Star x j v v [] [] []
  | step {v v1 v2 : View} {w1 w2 : List Msg} {a1 a2 : List Bytes} {x1 x2 : List XL} :
      AStep x j v v1 w1 a1 x1 → Star x j v1 v2 w2 a2 x2 → Star x j v v2 (w1 ++ w2) (a1 ++ a2) (x1 ++ x2)

theorem Star.cast {x j : Nat} {v v' u' : View} {w w' : List Msg} {a a' : List Bytes} {t t' : List XL}
    (s : Star x j v v' w a t) (hv : u' = v') (hw : w' = w) (ha : a' = a) (ht : t' = t := by rfl) :
    Star x j v u' w' a' t' := by
  subst hv hw ha ht; exact s

theorem Star.single {x j : Nat} {v v' : View} {w : List Msg} {a : List Bytes} {t : List XL}
    (s : AStep x j v v' w a t) : Star x j v v' w a t :=
  (Star.step s (Star.refl v')).cast rfl (by simp) (by simp) (by simp)

theorem Star.trans {x j : Nat} {v v1 v2 : View} {w1 w2 : List Msg} {a1 a2 : List Bytes} {t1 t2 : List XL}
    (s : Star x j v v1 w1 a1 t1) (t : Star x j v1 v2 w2 a2 t2) : Star x j v v2 (w1 ++ w2) (a1 ++ a2) (t1 ++ t2) := by
  induction s with
  | refl v => exact t
  | step st _ ih => exact (Star.step st (ih t)).cast rfl (by simp) (by simp) (by simp)

/-! ### The relation every endpoint function satisfies -/

/-- From `e` with inbox `l` to `e'` with inbox `l'`, emitting `evs`, with accept log `L` and records `X`: the
    view moved by small steps whose labels are the messages handed to the transport, the payloads accepted
    into object `j`, and `X`. -/
def SimX (x j : Nat) (l : List WsIn) (e : EP) (l' : List WsIn) (e' : EP) (evs : List Ev) (L : Log) (X : List XL) : Prop :=
  Star x j (view x j e l) (view x j e' l') (wireMsgs evs) (Log.dataOf L j) X

/-- … with nothing recorded: no write queued a `Push x`, no `Finish x` was processed for object `j`. -/
def Sim (x j : Nat) (l : List WsIn) (e : EP) (l' : List WsIn) (e' : EP) (evs : List Ev) (L : Log) : Prop :=
  SimX x j l e l' e' evs L []

/-- The records of the `Finish x` frames processed for object `j` among end events (`Lemmas/MuxEof.lean`). -/
def finsOf (x j : Nat) (D : List EndEv) : List XL :=
  (D.filter (fun p => p == (j, EndCause.peerFinish x))).map (fun _ => XL.fin)

/-- The records of the successful writes on flow `x` (`Ghost.wrote` entries: object, flow id, payload). -/
def xlOfWrote (x : Nat) (W : List (Nat × Nat × Bytes)) : List XL :=
  (W.filter (fun t => t.2.1 == x)).map (fun t => XL.wrote t.2.2)

theorem xlOfWrote_append (x : Nat) (a b : List (Nat × Nat × Bytes)) : xlOfWrote x (a ++ b) = xlOfWrote x a ++ xlOfWrote x b := by
  simp [xlOfWrote]

@[simp] theorem xlOfWrote_nil (x : Nat) : xlOfWrote x [] = [] := rfl

theorem finsOf_append (x j : Nat) (a b : List EndEv) : finsOf x j (a ++ b) = finsOf x j a ++ finsOf x j b := by
  simp [finsOf]

@[simp] theorem finsOf_nil (x j : Nat) : finsOf x j [] = [] := rfl

theorem Log.dataOf_append (a b : Log) (i : Nat) : Log.dataOf (a ++ b) i = Log.dataOf a i ++ Log.dataOf b i := by
  simp [Log.dataOf]

@[simp] theorem Log.dataOf_nil (i : Nat) : Log.dataOf [] i = [] := rfl

theorem Log.dataOf_single_self (i : Nat) (d : Bytes) : Log.dataOf [(i, d)] i = [d] := by simp [Log.dataOf]
theorem Log.dataOf_single_ne (i k : Nat) (d : Bytes) (h : k ≠ i) : Log.dataOf [(k, d)] i = [] := by
  simp [Log.dataOf, h]

section
variable {x j : Nat}

theorem Sim.toX {l l' : List WsIn} {e e' : EP} {evs : List Ev} {L : Log} (s : Sim x j l e l' e' evs L) :
    SimX x j l e l' e' evs L [] := s

theorem SimX.trans {la lb lc : List WsIn} {a b c : EP} {ev1 ev2 : List Ev} {L1 L2 : Log} {X1 X2 : List XL}
    (s : SimX x j la a lb b ev1 L1 X1) (t : SimX x j lb b lc c ev2 L2 X2) :
    SimX x j la a lc c (ev1 ++ ev2) (L1 ++ L2) (X1 ++ X2) :=
  (Star.trans s t).cast rfl (wireMsgs_append _ _) (Log.dataOf_append _ _ _) rfl

/-- Change the way the labels are written. -/
theorem SimX.lbl {l l' : List WsIn} {e e' : EP} {evs evs' : List Ev} {L L' : Log} {X X' : List XL}
    (s : SimX x j l e l' e' evs L X) (hw : wireMsgs evs' = wireMsgs evs) (hl : Log.dataOf L' j = Log.dataOf L j)
    (hx : X' = X) : SimX x j l e l' e' evs' L' X' :=
  Star.cast s rfl hw hl hx

theorem SimX.evs {l l' : List WsIn} {e e' : EP} {evs evs' : List Ev} {L : Log} {X : List XL}
    (s : SimX x j l e l' e' evs L X) (h : evs' = evs) : SimX x j l e l' e' evs' L X := h ▸ s

theorem SimX.log {l l' : List WsIn} {e e' : EP} {evs : List Ev} {L L' : Log} {X : List XL}
    (s : SimX x j l e l' e' evs L X) (h : L' = L) : SimX x j l e l' e' evs L' X := h ▸ s

theorem SimX.rec {l l' : List WsIn} {e e' : EP} {evs : List Ev} {L : Log} {X X' : List XL}
    (s : SimX x j l e l' e' evs L X) (h : X' = X) : SimX x j l e l' e' evs L X' := h ▸ s

theorem SimX.congr {l l' : List WsIn} {e e' a a' : EP} {evs : List Ev} {L : Log} {X : List XL}
    (s : SimX x j l e l' e' evs L X) (h1 : view x j a l = view x j e l) (h2 : view x j a' l' = view x j e' l') :
    SimX x j l a l' a' evs L X := by
  unfold SimX at *; rw [h1, h2]; exact s

/-- One small step. -/
theorem SimX.one {l l' : List WsIn} {e e' : EP} {evs : List Ev} {L : Log} {v' : View} {w : List Msg} {a : List Bytes}
    {X X' : List XL} (s : AStep x j (view x j e l) v' w a X) (hv : view x j e' l' = v') (hw : wireMsgs evs = w)
    (hl : Log.dataOf L j = a) (hx : X' = X) : SimX x j l e l' e' evs L X' :=
  (Star.single s).cast hv hw hl hx

theorem Sim.refl (l : List WsIn) (e : EP) : Sim x j l e l e [] [] := Star.refl _

theorem Sim.trans {la lb lc : List WsIn} {a b c : EP} {ev1 ev2 : List Ev} {L1 L2 : Log}
    (s : Sim x j la a lb b ev1 L1) (t : Sim x j lb b lc c ev2 L2) : Sim x j la a lc c (ev1 ++ ev2) (L1 ++ L2) :=
  (SimX.trans s t).rec rfl

theorem Sim.after {la lb lc : List WsIn} {a b c : EP} {ev1 ev2 : List Ev} {L1 L2 : Log}
    (t : Sim x j lb b lc c ev2 L2) (s : Sim x j la a lb b ev1 L1) : Sim x j la a lc c (ev1 ++ ev2) (L1 ++ L2) :=
  s.trans t

/-- Change the way the labels are written. -/
theorem Sim.lbl {l l' : List WsIn} {e e' : EP} {evs evs' : List Ev} {L L' : Log} (s : Sim x j l e l' e' evs L)
    (hw : wireMsgs evs' = wireMsgs evs) (hl : Log.dataOf L' j = Log.dataOf L j) : Sim x j l e l' e' evs' L' :=
  SimX.lbl s hw hl rfl

theorem Sim.evs {l l' : List WsIn} {e e' : EP} {evs evs' : List Ev} {L : Log} (s : Sim x j l e l' e' evs L)
    (h : evs' = evs) : Sim x j l e l' e' evs' L := h ▸ s

theorem Sim.log {l l' : List WsIn} {e e' : EP} {evs : List Ev} {L L' : Log} (s : Sim x j l e l' e' evs L)
    (h : L' = L) : Sim x j l e l' e' evs L' := h ▸ s

/-- Silent composition (no log on either side, events concatenated). -/
theorem Sim.tr {la lb lc : List WsIn} {a b c : EP} {ev1 ev2 : List Ev} (s : Sim x j la a lb b ev1 [])
    (t : Sim x j lb b lc c ev2 []) : Sim x j la a lc c (ev1 ++ ev2) [] := (s.trans t).log rfl

theorem Sim.tr0 {la lb lc : List WsIn} {a b c : EP} {ev2 : List Ev} {L : Log} (s : Sim x j la a lb b [] [])
    (t : Sim x j lb b lc c ev2 L) : Sim x j la a lc c ev2 L :=
  ((s.trans t).evs (List.nil_append _).symm).log rfl

theorem Sim.tr1 {la lb lc : List WsIn} {a b c : EP} {ev1 : List Ev} {L : Log} (s : Sim x j la a lb b ev1 L)
    (t : Sim x j lb b lc c [] []) : Sim x j la a lc c ev1 L :=
  ((s.trans t).evs (List.append_nil _).symm).log (List.append_nil _).symm

/-- The same relation between states with the same views. -/
theorem Sim.congr {l l' : List WsIn} {e e' a a' : EP} {evs : List Ev} {L : Log} (s : Sim x j l e l' e' evs L)
    (h1 : view x j a l = view x j e l) (h2 : view x j a' l' = view x j e' l') : Sim x j l a l' a' evs L :=
  SimX.congr s h1 h2

/-- The view did not change; nothing was handed to the transport, nothing accepted into `j`. -/
theorem Sim.same {l : List WsIn} {e e' : EP} {evs : List Ev} {L : Log} (hv : view x j e' l = view x j e l)
    (hw : wireMsgs evs = []) (hl : Log.dataOf L j = []) : Sim x j l e l e' evs L := by
  unfold Sim SimX; rw [hv, hw, hl]; exact Star.refl _

/-- One small step. -/
theorem Sim.one {l l' : List WsIn} {e e' : EP} {evs : List Ev} {L : Log} {v' : View} {w : List Msg} {a : List Bytes}
    (s : AStep x j (view x j e l) v' w a []) (hv : view x j e' l' = v') (hw : wireMsgs evs = w)
    (hl : Log.dataOf L j = a) : Sim x j l e l' e' evs L :=
  SimX.one s hv hw hl rfl

end

/-! ### Side conditions that hold in every reachable state and are inherited backwards / forwards -/

/-- An `Established` slot refers to an existing object carrying the slot's id. -/
def SF (e : EP) : Prop :=
  ∀ fid i, lookup e.flows fid = some (.established i) → ∃ o, e.objs[i]? = some o ∧ o.fid = fid

theorem SF.grow {e e' : EP} (g : Grow e e') (h : SF e) : SF e' := by
  intro fid i hs
  rcases g.slots fid i hs with h1 | ⟨_, o', ho', hf'⟩
  · obtain ⟨o, ho, hf⟩ := h fid i h1
    obtain ⟨o1, ho1, hf1⟩ := g.fid i o ho
    exact ⟨o1, ho1, by rw [hf1, hf]⟩
  · exact ⟨o', ho', hf'⟩

theorem SF.init (o : Opts) (r : List Nat) : SF { opts := o, rng := r } := by
  intro fid i h; simp [lookup] at h

/-- Object `j`, if it exists, carries the id `x`. -/
def J (x j : Nat) (e : EP) : Prop := ∀ o, e.objs[j]? = some o → o.fid = x

theorem J.back {x j : Nat} {e e' : EP} (g : Grow e e') (h : J x j e') : J x j e := by
  intro o ho
  obtain ⟨o', ho', hf⟩ := g.fid j o ho
  rw [← hf]; exact h o' ho'

/-- No other flow's slot refers to object `j`. -/
theorem SF.noForeign {x j : Nat} {e : EP} (hs : SF e) (hj : J x j e) (y : Nat)
    (h : lookup e.flows y = some (.established j)) : y = x := by
  obtain ⟨o, ho, hf⟩ := hs y j h
  rw [← hf]; exact hj o ho

end Penguin.PairAll
