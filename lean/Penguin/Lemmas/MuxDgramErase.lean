/-
Datagrams never disturb anything else — part 1: the connection task.

`strip e q` is the state `e` with another datagram queue `q` and with every not yet processed `Datagram`
frame in the inbox replaced by a `Ping` (`neutral`; the task reads a `Ping` and ignores it).  This file
proves, for EVERY function of the connection task (`processFrame` … `settleLoop`, `settle`, the wind-down
in all its forms), that it commutes with `strip`: run on the stripped state — fed `Ping`s where the real
run is fed `Datagram` frames — it produces the stripped result, the same events and the same verdict.
In other words: nothing the task does, except appending to `dgramq`, depends on the datagram queue or on
the contents, size or number of `Datagram` frames.  Lemmas are stated as `e' = strip e q → f e' … =
stripR (f e …) q` so that they can be applied to states written as record updates.
Core Lean only.
-/
import Penguin.Lemmas.MuxDgramHist

namespace Penguin.Mux

/-- A `Datagram` frame read from the transport is replaced by a `Ping` (which the task reads and
    ignores); everything else stays. -/
def neutral : WsIn → WsIn
  | .msg (.frame (.datagram _ _ _ _)) => .msg .ping
  | w => w

/-- … in a stimulus. -/
def neutralOp : Op → Op
  | .deliver w => .deliver (neutral w)
  | op => op

/-- The state with another datagram queue and every undelivered `Datagram` frame replaced by a `Ping`. -/
def strip (e : EP) (q : List Dgram) : EP := { e with dgramq := q, inbox := e.inbox.map neutral }

/-- … for a function's result (state first). -/
def stripR {α : Type} (r : EP × α) (q : List Dgram) : EP × α := (strip r.1 q, r.2)

@[simp] theorem strip_opts (e : EP) (q : List Dgram) : (strip e q).opts = e.opts := rfl
@[simp] theorem strip_flows (e : EP) (q : List Dgram) : (strip e q).flows = e.flows := rfl
@[simp] theorem strip_objs (e : EP) (q : List Dgram) : (strip e q).objs = e.objs := rfl
@[simp] theorem strip_handles (e : EP) (q : List Dgram) : (strip e q).handles = e.handles := rfl
@[simp] theorem strip_outq (e : EP) (q : List Dgram) : (strip e q).outq = e.outq := rfl
@[simp] theorem strip_outClosed (e : EP) (q : List Dgram) : (strip e q).outClosed = e.outClosed := rfl
@[simp] theorem strip_acceptq (e : EP) (q : List Dgram) : (strip e q).acceptq = e.acceptq := rfl
@[simp] theorem strip_bindq (e : EP) (q : List Dgram) : (strip e q).bindq = e.bindq := rfl
@[simp] theorem strip_held (e : EP) (q : List Dgram) : (strip e q).held = e.held := rfl
@[simp] theorem strip_droppedq (e : EP) (q : List Dgram) : (strip e q).droppedq = e.droppedq := rfl
@[simp] theorem strip_opens (e : EP) (q : List Dgram) : (strip e q).opens = e.opens := rfl
@[simp] theorem strip_rng (e : EP) (q : List Dgram) : (strip e q).rng = e.rng := rfl
@[simp] theorem strip_fallback (e : EP) (q : List Dgram) : (strip e q).fallback = e.fallback := rfl
@[simp] theorem strip_park (e : EP) (q : List Dgram) : (strip e q).park = e.park := rfl
@[simp] theorem strip_closing (e : EP) (q : List Dgram) : (strip e q).closing = e.closing := rfl
@[simp] theorem strip_srcEnded (e : EP) (q : List Dgram) : (strip e q).srcEnded = e.srcEnded := rfl
@[simp] theorem strip_retryq (e : EP) (q : List Dgram) : (strip e q).retryq = e.retryq := rfl
@[simp] theorem strip_doneq (e : EP) (q : List Dgram) : (strip e q).doneq = e.doneq := rfl
@[simp] theorem strip_sinkRoom (e : EP) (q : List Dgram) : (strip e q).sinkRoom = e.sinkRoom := rfl
@[simp] theorem strip_draining (e : EP) (q : List Dgram) : (strip e q).draining = e.draining := rfl
@[simp] theorem strip_muxAlive (e : EP) (q : List Dgram) : (strip e q).muxAlive = e.muxAlive := rfl
@[simp] theorem strip_dead (e : EP) (q : List Dgram) : (strip e q).dead = e.dead := rfl
@[simp] theorem strip_dgramq (e : EP) (q : List Dgram) : (strip e q).dgramq = q := rfl
@[simp] theorem strip_inbox (e : EP) (q : List Dgram) : (strip e q).inbox = e.inbox.map neutral := rfl
@[simp] theorem stripR_fst {α : Type} (r : EP × α) (q : List Dgram) : (stripR r q).1 = strip r.1 q := rfl
@[simp] theorem stripR_snd {α : Type} (r : EP × α) (q : List Dgram) : (stripR r q).2 = r.2 := rfl

theorem enq_strip {e e' : EP} {q : List Dgram} (h : e' = strip e q) (m : Msg) : e'.enq m = strip (e.enq m) q := by
  subst h
  unfold EP.enq strip
  dsimp only
  split <;> rfl

theorem openRound_strip {e e' : EP} {q : List Dgram} (h : e' = strip e q) (r : OpenReq) :
    openRound e' r = stripR (openRound e r) q := by
  subst h
  unfold Mux.openRound EP.enqFrame EP.enq strip stripR
  dsimp only
  repeat' split
  all_goals rfl

theorem openRejected_strip {e e' : EP} {q : List Dgram} (h : e' = strip e q) (req : Nat) (final : Bool) :
    openRejected e' req final = stripR (openRejected e req final) q := by
  subst h
  unfold Mux.openRejected strip stripR
  dsimp only
  repeat' split
  all_goals rfl

theorem closeLocal_strip {e e' : EP} {q : List Dgram} (h : e' = strip e q) (s : Slot) (fid : Nat) (inh final : Bool) :
    closeLocal e' s fid inh final = stripR (closeLocal e s fid inh final) q := by
  subst h
  unfold Mux.closeLocal Mux.openRejected EP.enqFrame EP.enq EP.modObj EP.obj? strip stripR
  dsimp only
  repeat' split
  all_goals rfl

theorem closeFlow_strip {e e' : EP} {q : List Dgram} (h : e' = strip e q) (fid : Nat) (inh : Bool) :
    closeFlow e' fid inh = stripR (closeFlow e fid inh) q := by
  subst h
  unfold Mux.closeFlow
  rw [show (strip e q).flows = e.flows from rfl]
  split
  · rfl
  · exact closeLocal_strip (by rfl) _ _ _ _

theorem offerAccept_strip {e e' : EP} {q : List Dgram} (h : e' = strip e q) (i : Nat) :
    offerAccept e' i = strip (offerAccept e i) q := by
  subst h
  unfold Mux.offerAccept strip
  dsimp only
  split <;> rfl

theorem offerBind_strip {e e' : EP} {q : List Dgram} (h : e' = strip e q) (b : BindIn) :
    offerBind e' b = strip (offerBind e b) q := by
  subst h
  unfold Mux.offerBind strip
  dsimp only
  split <;> rfl

/-- `process_frame` on anything but a `Datagram` frame neither reads nor writes the datagram queue. -/
theorem processFrame_strip {e e' : EP} {q : List Dgram} (h : e' = strip e q) (f : Frame) (ig : Bool)
    (hf : dgOfFrame f = none) : processFrame e' f ig = stripR (processFrame e f ig) q := by
  subst h
  cases f with
  | datagram fid port host d => simp [dgOfFrame] at hf
  | connect fid rwnd port host =>
    unfold Mux.processFrame Mux.offerAccept EP.enqFrame EP.enq EP.modObj strip stripR
    dsimp only
    repeat' split
    all_goals rfl
  | acknowledge fid n =>
    unfold Mux.processFrame EP.enqFrame EP.enq EP.modObj strip stripR
    dsimp only
    repeat' split
    all_goals rfl
  | finish fid =>
    unfold Mux.processFrame EP.enqFrame EP.enq EP.modObj strip stripR
    dsimp only
    repeat' split
    all_goals rfl
  | reset fid =>
    simp only [Mux.processFrame]
    rw [closeFlow_strip rfl]
    rfl
  | push fid d =>
    simp only [Mux.processFrame]
    rw [closeFlow_strip (e := e) (q := q) rfl]
    unfold EP.enqFrame EP.enq EP.modObj EP.obj? strip stripR
    dsimp only
    repeat' split
    all_goals rfl
  | bind fid bt port host =>
    unfold Mux.processFrame Mux.offerBind EP.enqFrame EP.enq strip stripR
    dsimp only
    repeat' split
    all_goals rfl

theorem neutral_ne_err (w : WsIn) : neutral w = .err ↔ w = .err := by
  cases w with
  | msg m => cases m with
    | frame f => cases f <;> simp [neutral]
    | _ => simp [neutral]
  | _ => simp [neutral]

theorem neutral_ne_eof (w : WsIn) : neutral w = .eof ↔ w = .eof := by
  cases w with
  | msg m => cases m with
    | frame f => cases f <;> simp [neutral]
    | _ => simp [neutral]
  | _ => simp [neutral]

theorem neutral_ne_close (w : WsIn) : neutral w = .msg .close ↔ w = .msg .close := by
  cases w with
  | msg m => cases m with
    | frame f => cases f <;> simp [neutral]
    | _ => simp [neutral]
  | _ => simp [neutral]

/-- One item read from the transport: a `Datagram` frame on one side, a `Ping` on the other. -/
theorem processIn_strip {e e' : EP} {q : List Dgram} (h : e' = strip e q) (w : WsIn) (ig : Bool) :
    processIn e' (neutral w) ig = stripR (processIn e w ig) q := by
  subst h
  cases w with
  | msg m =>
    cases m with
    | frame f =>
      cases f with
      | datagram fid port host d =>
        simp only [neutral, Mux.processIn, Mux.processFrame]
        unfold strip stripR
        repeat' split
        all_goals rfl
      | connect a b c d => exact processFrame_strip (e := e) rfl (.connect a b c d) ig rfl
      | acknowledge a b => exact processFrame_strip (e := e) rfl (.acknowledge a b) ig rfl
      | finish a => exact processFrame_strip (e := e) rfl (.finish a) ig rfl
      | reset a => exact processFrame_strip (e := e) rfl (.reset a) ig rfl
      | push a b => exact processFrame_strip (e := e) rfl (.push a b) ig rfl
      | bind a b c d => exact processFrame_strip (e := e) rfl (.bind a b c d) ig rfl
    | _ => rfl
  | _ => rfl

/-! ### Wind-down -/

theorem drainFlows_strip (l : List (Nat × Slot)) {e e' : EP} {q : List Dgram} (h : e' = strip e q) :
    drainFlows e' l = stripR (drainFlows e l) q := by
  induction l generalizing e e' with
  | nil => subst h; rfl
  | cons p l ih =>
    obtain ⟨fid, s⟩ := p
    simp only [Mux.drainFlows]
    rw [closeLocal_strip h]
    simp only [stripR]
    rw [ih (e := (closeLocal e s fid true true).1) rfl]
    rfl

theorem windDownFinish_strip {e e' : EP} {q : List Dgram} (h : e' = strip e q) (res : ExitRes) :
    windDownFinish e' res = stripR (windDownFinish e res) q := by
  subst h
  simp only [Mux.windDownFinish]
  rw (transparency := .default) [drainFlows_strip (e := { e with flows := [] }) (q := q) (strip e q).flows rfl]
  rfl

theorem windDownInbox_cons (e : EP) (w : WsIn) (rest : List WsIn) (h1 : w ≠ .err) (h2 : w ≠ .eof) :
    windDownInbox e (w :: rest) =
      ((windDownInbox { (processIn e w true).1 with park := none } rest).1,
       (processIn e w true).2.1 ++ (windDownInbox { (processIn e w true).1 with park := none } rest).2.1,
       (windDownInbox { (processIn e w true).1 with park := none } rest).2.2) := by
  cases w with
  | err => exact absurd rfl h1
  | eof => exact absurd rfl h2
  | msg m => simp only [Mux.windDownInbox]
  | bad b => simp only [Mux.windDownInbox]

theorem windDownInbox_strip (l : List WsIn) {e e' : EP} {q : List Dgram} (h : e' = strip e q) :
    windDownInbox e' (l.map neutral) = stripR (windDownInbox e l) q := by
  induction l generalizing e e' with
  | nil => subst h; rfl
  | cons w l ih =>
    by_cases h1 : w = .err
    · subst h1 h; rfl
    · by_cases h2 : w = .eof
      · subst h2 h; rfl
      · rw [List.map_cons, windDownInbox_cons _ _ _ (fun hh => h1 ((neutral_ne_err w).mp hh))
          (fun hh => h2 ((neutral_ne_eof w).mp hh)), windDownInbox_cons _ _ _ h1 h2, processIn_strip h]
        simp only [stripR]
        rw (transparency := .default) [ih (e := { (processIn e w true).1 with park := none }) rfl]
        rfl

theorem disallowAll_strip (l : List (Nat × Slot)) {e e' : EP} {q : List Dgram} (h : e' = strip e q) :
    disallowAll e' l = strip (disallowAll e l) q := by
  induction l generalizing e e' with
  | nil => subst h; rfl
  | cons p l ih =>
    obtain ⟨fid, s⟩ := p
    cases s with
    | established i =>
      simp only [Mux.disallowAll]
      exact ih (by subst h; rfl)
    | requested r => simp only [Mux.disallowAll]; exact ih h
    | bindRequested r => simp only [Mux.disallowAll]; exact ih h

theorem windDownPrep_strip {e e' : EP} {q : List Dgram} (h : e' = strip e q) :
    windDownPrep e' = strip (windDownPrep e) q := by
  subst h
  simp only [Mux.windDownPrep]
  rw [disallowAll_strip (e := e) (q := q) (strip e q).flows rfl]
  rfl

theorem dropPrep_strip {e e' : EP} {q : List Dgram} (h : e' = strip e q) :
    dropPrep e' = strip (dropPrep e) q := by
  subst h
  simp only [Mux.dropPrep]
  rw [disallowAll_strip (e := e) (q := q) (strip e q).flows rfl]
  rfl

theorem sendSome_strip {e e' : EP} {q : List Dgram} (h : e' = strip e q) :
    sendSome e' = stripR (sendSome e) q := by
  subst h
  unfold Mux.sendSome strip stripR
  dsimp only
  split <;> rfl

theorem windDownTail_strip {e e' : EP} {q : List Dgram} (h : e' = strip e q) (flushed : List Ev) (se : Bool)
    (res : ExitRes) : windDownTail e' flushed se res = stripR (windDownTail e flushed se res) q := by
  subst h
  have hI : windDownInbox (strip e q) (strip e q).inbox = stripR (windDownInbox e e.inbox) q :=
    windDownInbox_strip e.inbox rfl
  simp only [Mux.windDownTail, hI]
  simp only [stripR]
  rw (transparency := .default) [windDownFinish_strip (e := { (windDownInbox e e.inbox).1 with inbox := [] }) (q := q) rfl]
  by_cases hc : ((windDownInbox e e.inbox).2.2 || se || res != .ok) = true
  · simp only [hc, if_true]; rfl
  · simp only [hc]; rfl

theorem windDown_strip {e e' : EP} {q : List Dgram} (h : e' = strip e q) (drain : Bool) (res : ExitRes) :
    windDown e' drain res = stripR (windDown e drain res) q := by
  subst h
  simp only [Mux.windDown]
  rw [dropPrep_strip (e := e) (q := q) rfl, sendSome_strip (e := dropPrep e) (q := q) rfl,
    windDownPrep_strip (e := e) (q := q) rfl]
  simp only [stripR_fst, stripR_snd, strip_outq, strip_srcEnded]
  rw [windDownTail_strip (e := (sendSome (dropPrep e)).1) (q := q) rfl,
    windDownTail_strip (e := windDownPrep e) (q := q) rfl]
  cases drain with
  | false => simp only [Bool.false_eq_true, if_false]
  | true =>
    simp only [if_true]
    by_cases hc : (sendSome (dropPrep e)).1.outq.isEmpty = true
    · simp only [hc, if_true]
    · simp only [hc]; rfl

/-! ### The task's loops -/

theorem unpark_strip {e e' : EP} {q : List Dgram} (h : e' = strip e q) : unpark e' = strip (unpark e) q := by
  subst h
  unfold Mux.unpark EP.enqFrame EP.enq EP.modObj strip
  dsimp only
  repeat' split
  all_goals rfl

theorem drainStep_strip {e e' : EP} {q : List Dgram} (h : e' = strip e q) (res : ExitRes) :
    drainStep e' res = stripR (drainStep e res) q := by
  subst h
  simp only [Mux.drainStep]
  rw [sendSome_strip (e := e) (q := q) rfl]
  simp only [stripR_fst, stripR_snd, strip_outq, strip_srcEnded]
  rw (transparency := .default) [windDownTail_strip (e := { (sendSome e).1 with draining := none }) (q := q) rfl]
  by_cases hc : (sendSome e).1.outq.isEmpty = true
  · simp only [hc, if_true]
  · simp only [hc]; rfl

theorem closingStep_strip {e e' : EP} {q : List Dgram} (h : e' = strip e q) (res : ExitRes) :
    closingStep e' res = stripR (closingStep e res) q := by
  subst h
  have hI : windDownInbox (strip e q) (strip e q).inbox = stripR (windDownInbox e e.inbox) q :=
    windDownInbox_strip e.inbox rfl
  simp only [Mux.closingStep, hI]
  simp only [stripR_fst, stripR_snd]
  rw (transparency := .default) [windDownFinish_strip (e := { (windDownInbox e e.inbox).1 with inbox := [] }) (q := q) rfl]
  by_cases hc : (windDownInbox e e.inbox).2.2 = true
  · simp only [hc, if_true]; rfl
  · simp only [hc]; rfl

theorem recvOne_strip {e e' : EP} {q : List Dgram} (h : e' = strip e q) (w : WsIn) (rest : List WsIn) :
    recvOne e' (neutral w) (rest.map neutral) = stripR (recvOne e w rest) q := by
  subst h
  simp only [Mux.recvOne, neutral_ne_eof, neutral_ne_err]
  exact processIn_strip (by split <;> rfl) w false

/-- The receive branch of one iteration of the task's loop. -/
def recvBranch (n : Nat) (u : EP) (acc : List Ev) (w : WsIn) (rest : List WsIn) : EP × List Ev :=
  match (recvOne u w rest).2.2 with
  | some r =>
    ((windDown (recvOne u w rest).1 false r).1,
     acc ++ (recvOne u w rest).2.1 ++ (windDown (recvOne u w rest).1 false r).2)
  | none => settleLoop n (recvOne u w rest).1 (acc ++ (recvOne u w rest).2.1)

/-- The notification branch of one iteration of the task's loop. -/
def notifBranch (n : Nat) (u : EP) (acc : List Ev) : EP × List Ev :=
  match u.droppedq with
  | 0 :: rest =>
    ((windDown { u with droppedq := rest } true .ok).1,
     acc ++ (windDown { u with droppedq := rest } true .ok).2)
  | fid :: rest =>
    settleLoop n (closeFlow { u with droppedq := rest } fid false).1
      (acc ++ (closeFlow { u with droppedq := rest } fid false).2)
  | [] => (u, acc)

theorem settleLoop_succ (n : Nat) (e : EP) (acc : List Ev) :
    settleLoop (n + 1) e acc =
      if e.dead then (e, acc) else
      match e.draining with
      | some res => ((drainStep e res).1, acc ++ (drainStep e res).2)
      | none =>
      match e.closing with
      | some res => ((closingStep e res).1, acc ++ (closingStep e res).2)
      | none => recvCase (unpark e).park (unpark e).inbox (recvBranch n (unpark e) acc) (notifBranch n (unpark e) acc) := by
  rw [Mux.settleLoop]
  split
  · rfl
  · split
    · rename_i res hdr
      simp only [hdr]
    · rename_i hdr
      simp only [hdr]
      split
      · rename_i res hcl
        simp only [hcl]
      · rename_i hcl
        simp only [hcl]
        split
        · rename_i w rest hp hi
          rw [recvCase_pos _ _ hp hi]
          unfold recvBranch
          rfl
        · rename_i hneg
          rw [recvCase_neg _ _ hneg]
          unfold notifBranch
          rfl

theorem recvCase_strip {α : Type} (u : EP) (q : List Dgram) (A A' : WsIn → List WsIn → EP × α) (B B' : EP × α)
    (hA : ∀ w rest, A' (neutral w) (rest.map neutral) = stripR (A w rest) q) (hB : B' = stripR B q) :
    recvCase (strip u q).park (strip u q).inbox A' B' = stripR (recvCase u.park u.inbox A B) q := by
  rw [strip_park, strip_inbox]
  cases hp : u.park with
  | some p => exact hB
  | none =>
    cases hi : u.inbox with
    | nil => exact hB
    | cons w rest => exact hA w rest

/-- The task's loop does the same with and without the datagrams. -/
theorem settleLoop_strip (fuel : Nat) {e e' : EP} {q : List Dgram} (h : e' = strip e q) (acc : List Ev) :
    settleLoop fuel e' acc = stripR (settleLoop fuel e acc) q := by
  induction fuel generalizing e e' acc with
  | zero => subst h; rfl
  | succ n ih =>
    subst h
    rw [settleLoop_succ, settleLoop_succ]
    simp only [strip_dead, strip_draining, strip_closing]
    by_cases hd : e.dead = true
    · simp only [hd, if_true]; rfl
    · simp only [hd]
      cases hdr : e.draining with
      | some res =>
        simp only []
        rw [drainStep_strip (e := e) (q := q) rfl]; rfl
      | none =>
        simp only []
        cases hcl : e.closing with
        | some res =>
          simp only []
          rw [closingStep_strip (e := e) (q := q) rfl]; rfl
        | none =>
          simp only []
          rw [unpark_strip (e := e) (q := q) rfl]
          refine recvCase_strip (unpark e) q _ _ _ _ (fun w rest => ?_) ?_
          · unfold recvBranch
            rw [recvOne_strip (e := unpark e) (q := q) rfl]
            simp only [stripR_fst, stripR_snd]
            cases hr : (recvOne (unpark e) w rest).2.2 with
            | some r =>
              simp only []
              rw [windDown_strip (e := (recvOne (unpark e) w rest).1) (q := q) rfl]; rfl
            | none =>
              simp only []
              exact ih rfl _
          · unfold notifBranch
            rw [strip_droppedq]
            cases hq : (unpark e).droppedq with
            | nil => rfl
            | cons fid rest =>
              cases fid with
              | zero =>
                simp only []
                rw (transparency := .default) [windDown_strip (e := { unpark e with droppedq := rest }) (q := q) rfl]; rfl
              | succ k =>
                simp only []
                rw (transparency := .default) [closeFlow_strip (e := { unpark e with droppedq := rest }) (q := q) rfl]
                exact ih rfl _

theorem runRetries_strip (l : List Nat) {e e' : EP} {q : List Dgram} (h : e' = strip e q) :
    runRetries e' l = stripR (runRetries e l) q := by
  induction l generalizing e e' with
  | nil => subst h; rfl
  | cons req rest ih =>
    subst h
    rw [Mux.runRetries, Mux.runRetries, strip_opens]
    cases hf : e.opens.find? (·.req = req) with
    | none => simp only []; exact ih rfl
    | some r =>
      simp only []
      rw [openRound_strip (e := e) (q := q) rfl, stripR_fst, stripR_snd, ih (e := (openRound e r).1) rfl]
      rfl

theorem runDone_strip (l : List (Nat × Nat)) {e e' : EP} {q : List Dgram} (h : e' = strip e q) :
    runDone e' l = stripR (runDone e l) q := by
  induction l generalizing e e' with
  | nil => subst h; rfl
  | cons x rest ih =>
    obtain ⟨req, i⟩ := x
    subst h
    rw [Mux.runDone, Mux.runDone]
    simp only [strip_handles]
    rw (transparency := .default) [ih (e := { e with handles := e.handles ++ [i] }) rfl]
    rfl

/-- The send loop hands the queue to the sink unless the task is gone or parked in the wind-down. -/
def holdSend (e : EP) : EP × List Ev := if e.dead || e.draining.isSome then (e, []) else sendSome e

theorem holdSend_strip {e e' : EP} {q : List Dgram} (h : e' = strip e q) : holdSend e' = stripR (holdSend e) q := by
  subst h
  unfold holdSend
  simp only [strip_dead, strip_draining]
  by_cases hc : (e.dead || e.draining.isSome) = true
  · simp only [hc, if_true]; rfl
  · simp only [hc]; exact sendSome_strip rfl

/-- What `settle` does after the task's loop, with projections instead of pattern-matching `let`s. -/
def settleRest (r1 : EP × List Ev) : EP × List Ev :=
  ((holdSend (runRetries { (runDone { (holdSend r1.1).1 with doneq := [] } ((holdSend r1.1).1.doneq.foldr insertDone [])).1 with retryq := [] }
      (sortNat (runDone { (holdSend r1.1).1 with doneq := [] } ((holdSend r1.1).1.doneq.foldr insertDone [])).1.retryq)).1).1,
   r1.2 ++ (holdSend r1.1).2 ++
    ((runDone { (holdSend r1.1).1 with doneq := [] } ((holdSend r1.1).1.doneq.foldr insertDone [])).2 ++
     (runRetries { (runDone { (holdSend r1.1).1 with doneq := [] } ((holdSend r1.1).1.doneq.foldr insertDone [])).1 with retryq := [] }
      (sortNat (runDone { (holdSend r1.1).1 with doneq := [] } ((holdSend r1.1).1.doneq.foldr insertDone [])).1.retryq)).2) ++
    (holdSend (runRetries { (runDone { (holdSend r1.1).1 with doneq := [] } ((holdSend r1.1).1.doneq.foldr insertDone [])).1 with retryq := [] }
      (sortNat (runDone { (holdSend r1.1).1 with doneq := [] } ((holdSend r1.1).1.doneq.foldr insertDone [])).1.retryq)).1).2)

theorem settle_eq_rest (e : EP) : settle e = settleRest (settleLoop (2 * e.inbox.length + e.droppedq.length + 2) e []) := rfl

theorem settleRest_strip (r1 : EP × List Ev) (q : List Dgram) : settleRest (stripR r1 q) = stripR (settleRest r1) q := by
  unfold settleRest
  simp only [stripR_fst, stripR_snd]
  rw [holdSend_strip (e := r1.1) (q := q) rfl]
  simp only [stripR_fst, stripR_snd, strip_doneq]
  rw (transparency := .default) [runDone_strip _ (e := { (holdSend r1.1).1 with doneq := [] }) (q := q) rfl]
  simp only [stripR_fst, stripR_snd, strip_retryq]
  rw (transparency := .default) [runRetries_strip _
    (e := { (runDone { (holdSend r1.1).1 with doneq := [] } ((holdSend r1.1).1.doneq.foldr insertDone [])).1 with retryq := [] })
    (q := q) rfl]
  simp only [stripR_fst, stripR_snd]
  rw [holdSend_strip (q := q) rfl]
  rfl

/-- The task's run to quiescence does the same with and without the datagrams. -/
theorem settle_strip {e e' : EP} {q : List Dgram} (h : e' = strip e q) : settle e' = stripR (settle e) q := by
  subst h
  rw [settle_eq_rest, settle_eq_rest, strip_inbox, List.length_map, strip_droppedq, settleLoop_strip _ (e := e) (q := q) rfl]
  exact settleRest_strip _ q

end Penguin.Mux
