/-
Facts about ONE small step of a bind view (`BStep`) for the ORDER of answers: what it hands to the transport
followed by what it leaves queued is what was queued followed by something new (or the queue was dropped and
closed); it drops no answer frame of a pending bind request from the inbox; a pending slot was pending or is
newly asked; the source is marked ended only if an end item was in the inbox; and the observer's side:
"first recorded reply is `true`" / "a `reply(false)` with no `reply(true)` before it".
Core Lean only.
-/
import Penguin.Lemmas.BindAllFacts2

namespace Penguin.BindAll
open Penguin.Mux
open Penguin.PairAll (inMsgs inMsgs_append)

variable {v v' : BV} {ws : List Msg} {gs : List BEv}

theorem BStep.srcEnded_back (st : BStep v v' ws gs) (h : v'.srcEnded = true) :
    v.srcEnded = true ∨ ∃ w ∈ v.inbox, (w == .eof || w == .err) = true := by
  cases st with
  | shrink v' hs => exact hs.srcEnded h
  | _ => exact Or.inl h

theorem BStep.deaf_back (st : BStep v v' ws gs) (h : deafV v' = true) : deafV v = true := by
  simp only [deafV, Bool.or_eq_true, List.any_eq_true] at h ⊢
  rcases h with h | ⟨w, hw, he⟩
  · rcases st.srcEnded_back h with h1 | ⟨w, hw, he⟩
    · exact Or.inl h1
    · exact Or.inr ⟨w, hw, by simpa using he⟩
  · exact Or.inr ⟨w, st.inbox_suffix.subset hw, he⟩

theorem BStep.outClosed_mono (st : BStep v v' ws gs) (h : v.outClosed = true) : v'.outClosed = true := by
  cases st with
  | shrink v' hs => exact hs.outClosed h
  | _ => exact h

theorem ans_inMsgs_frame_cons (y : Nat) (f : Frame) (r : List WsIn) (h : ansOf y (.frame f) = none) :
    ans y (inMsgs r) = ans y (inMsgs (.msg (.frame f) :: r)) := by
  simp [inMsgs, ans, h]

/-- No answer frame of a pending bind request is dropped from the inbox. -/
theorem BStep.pop_guard (st : BStep v v' ws gs) (y r : Nat) (hl : lookup v.flows y = some (.bindRequested r)) :
    ans y (inMsgs v'.inbox) = ans y (inMsgs v.inbox) := by
  cases st with
  | shrink v' hs => exact hs.pops y r hl
  | connNew y' w p hh r' hi hf => simp only; rw [hi]; exact ans_inMsgs_frame_cons y _ r' rfl
  | ackNew y' n q r' hi hs => simp only; rw [hi]; exact ans_inMsgs_frame_cons y _ r' rfl
  | offerQ b r' hi => simp only; rw [hi]; exact ans_inMsgs_frame_cons y _ r' rfl
  | offerPark b r' hi => simp only; rw [hi]; exact ans_inMsgs_frame_cons y _ r' rfl
  | _ => rfl

/-- A pending bind request slot was pending before, or comes with the record of its request. -/
theorem BStep.pending_back (st : BStep v v' ws gs) (x r : Nat) (hm : (x, Slot.bindRequested r) ∈ v'.flows) :
    (x, Slot.bindRequested r) ∈ v.flows ∨ ∃ bt h p, BEv.asked r x bt h p ∈ gs := by
  cases st with
  | shrink v' hs => exact Or.inl (hs.flows.subset hm)
  | drawOpen y' q r' w p hh hs hf ho =>
    rcases mem_insert hm with h1 | h1
    · cases h1
    · exact Or.inl h1
  | drawBind y' req bt host port r' hs hf ho =>
    rcases mem_insert hm with h1 | h1
    · simp only [Prod.mk.injEq, Slot.bindRequested.injEq] at h1
      obtain ⟨rfl, rfl⟩ := h1
      exact Or.inr ⟨bt, host, port, by simp⟩
    · exact Or.inl h1
  | connNew y' w p hh r' hi hf =>
    rcases mem_insert hm with h1 | h1
    · cases h1
    · exact Or.inl h1
  | ackNew y' n q r' hi hs =>
    rcases mem_insert hm with h1 | h1
    · cases h1
    · exact Or.inl h1
  | finishAll => simp at hm
  | _ => exact Or.inl hm

/-- What the step hands to the transport, followed by what it leaves queued, is (after Close messages) what
    was queued followed by something new — nothing new if the queue is closed; or the queue was dropped and
    closed and nothing was sent. -/
theorem BStep.out_seq (st : BStep v v' ws gs) :
    (∃ pre new, ws ++ v'.outq = pre ++ v.outq ++ new ∧ (∀ m ∈ pre, m = Msg.close) ∧ (v.outClosed = true → new = [])) ∨
    (ws = [] ∧ v'.outq = [] ∧ v'.outClosed = true) := by
  have same : v'.outq = v.outq → ws = [] →
      (∃ pre new, ws ++ v'.outq = pre ++ v.outq ++ new ∧ (∀ m ∈ pre, m = Msg.close) ∧ (v.outClosed = true → new = [])) ∨
      (ws = [] ∧ v'.outq = [] ∧ v'.outClosed = true) := fun h1 h2 =>
    Or.inl ⟨[], [], by simp [h1, h2], by simp, fun _ => rfl⟩
  cases st with
  | emit m r ho => exact Or.inl ⟨[], [], by simp [ho], by simp, fun _ => rfl⟩
  | sendClose => exact Or.inl ⟨[.close], [], by simp, by simp, fun _ => rfl⟩
  | shrink v' hs =>
    rcases hs.outq with h1 | ⟨h1, h2⟩
    · exact same h1 rfl
    · exact Or.inr ⟨rfl, h1, h2⟩
  | enq m hc ok => exact Or.inl ⟨[], [m], rfl, by simp, fun h => by rw [hc] at h; cases h⟩
  | drawOpen y q r' w p hh hs hf ho => exact Or.inl ⟨[], [_], rfl, by simp, fun h => by rw [ho] at h; cases h⟩
  | drawBind y req bt host port r' hs hf ho => exact Or.inl ⟨[], [_], rfl, by simp, fun h => by rw [ho] at h; cases h⟩
  | reply k b acc hk hal ho => exact Or.inl ⟨[], [_], rfl, by simp, fun h => by rw [ho] at h; cases h⟩
  | dropReq k b hk =>
    by_cases hc : (b.replied || v.outClosed) = true
    · exact Or.inl ⟨[], [], by simp [hc], by simp, fun _ => rfl⟩
    · refine Or.inl ⟨[], [Msg.frame (.reset b.fid)], by simp [hc], by simp, fun h => ?_⟩
      simp [h] at hc
  | dropMux =>
    by_cases hc : v.outClosed = true
    · exact Or.inl ⟨[], [], by simp [hc], by simp, fun _ => rfl⟩
    · exact Or.inl ⟨[], v.bindq.map (fun b => Msg.frame (.reset b.fid)), by simp [hc], by simp, fun h => absurd h hc⟩
  | _ => exact same rfl rfl

/-- A recorded reply: the step is that `reply`. -/
theorem BStep.reply_out (st : BStep v v' ws gs) (k : Nat) (acc : Bool) (hm : BEv.replied k acc ∈ gs) :
    ∃ b, v.held[k]? = some b ∧ b.alive = true ∧ v.outClosed = false ∧ ws = [] ∧
      v'.outq = v.outq ++ [.frame (if acc then .finish b.fid else .reset b.fid)] := by
  cases st with
  | reply k' b acc' hk hal ho =>
    simp only [List.mem_singleton, BEv.replied.injEq] at hm
    obtain ⟨rfl, rfl⟩ := hm
    exact ⟨b, hk, hal, ho, rfl, rfl⟩
  | finishAll => exact absurd hm (not_mem_refusals_replied _ _ _)
  | _ => simp at hm

theorem BStep.shown_k (st : BStep v v' ws gs) (k y : Nat) (bt : BindType) (h : Bytes) (p : Nat)
    (hm : BEv.shown k y bt h p ∈ gs) : k = v.held.length ∧ ∀ k' acc, BEv.replied k' acc ∉ gs := by
  cases st with
  | bindNext b r hq =>
    simp only [List.mem_singleton, BEv.shown.injEq] at hm
    exact ⟨hm.1, by simp⟩
  | finishAll =>
    simp only [List.mem_filterMap] at hm
    obtain ⟨q, _, hq⟩ := hm
    split at hq <;> cases hq
  | _ => simp at hm

/-! ### Every shown `BindRequest` is held -/

def ShownHeld (v : BV) (g : List BEv) : Prop :=
  ∀ k y bt h p, BEv.shown k y bt h p ∈ g → ∃ b, v.held[k]? = some b ∧ b.fid = y

theorem ShownHeld.step {g : List BEv} (h : ShownHeld v g) (st : BStep v v' ws gs) : ShownHeld v' (g ++ gs) := by
  intro k y bt hh p hm
  have keep : (∀ (k : Nat) (b : BindIn), v.held[k]? = some b → ∃ b' : BindIn, v'.held[k]? = some b' ∧ b'.fid = b.fid) →
      BEv.shown k y bt hh p ∈ g → ∃ b, v'.held[k]? = some b ∧ b.fid = y := fun hk hg => by
    obtain ⟨b, hb, hf⟩ := h k y bt hh p hg
    obtain ⟨b', hb', hf'⟩ := hk k b hb
    exact ⟨b', hb', hf'.trans hf⟩
  have modk : ∀ (f : BindIn → BindIn) (k0 : Nat), (∀ b, (f b).fid = b.fid) →
      ∀ (k : Nat) (b : BindIn), v.held[k]? = some b → ∃ b' : BindIn, (v.held.modify k0 f)[k]? = some b' ∧ b'.fid = b.fid := by
    intro f k0 hf k b hb
    rw [List.getElem?_modify, hb]
    by_cases hk : k0 = k
    · exact ⟨f b, by simp [hk], hf b⟩
    · exact ⟨b, by simp [hk], rfl⟩
  cases st with
  | shrink v' hs => exact keep (fun k b hb => ⟨b, by rw [hs.held]; exact hb, rfl⟩) (by simpa using hm)
  | bindNext b r hq =>
    rcases List.mem_append.mp hm with hm | hm
    · refine keep (fun k b' hb => ⟨b', ?_, rfl⟩) hm
      have hlt : k < v.held.length := (List.getElem?_eq_some_iff.mp hb).1
      simp only; rw [List.getElem?_append_left hlt]; exact hb
    · simp only [List.mem_singleton, BEv.shown.injEq] at hm
      obtain ⟨rfl, rfl, _⟩ := hm
      exact ⟨b, by simp, rfl⟩
  | reply k0 b0 acc hk0 hal ho =>
    exact keep (modk _ k0 (fun _ => rfl)) (by simpa using hm)
  | dropReq k0 b0 hk0 =>
    exact keep (modk _ k0 (fun _ => rfl)) (by simpa using hm)
  | finishAll =>
    rcases List.mem_append.mp hm with hm | hm
    · exact keep (fun k b hb => ⟨b, hb, rfl⟩) hm
    · simp only [List.mem_filterMap] at hm
      obtain ⟨q, _, hq⟩ := hm
      split at hq <;> cases hq
  | _ => exact keep (fun k b hb => ⟨b, hb, rfl⟩) (by simpa using hm)

/-! ### The order of the recorded replies -/

/-- The first recorded reply on `BindRequest` number `k` is `reply(true)`. -/
def FirstAcc (k : Nat) (g : List BEv) : Prop :=
  ∃ g1 g2, g = g1 ++ BEv.replied k true :: g2 ∧ ∀ acc, BEv.replied k acc ∉ g1

/-- A `reply(false)` on `BindRequest` number `k` is recorded with no `reply(true)` on `k` before it. -/
def FirstRej (k : Nat) (g : List BEv) : Prop :=
  ∃ g1 g2, g = g1 ++ BEv.replied k false :: g2 ∧ BEv.replied k true ∉ g1

theorem FirstRej.append {k : Nat} {g : List BEv} (h : FirstRej k g) (gs : List BEv) : FirstRej k (g ++ gs) := by
  obtain ⟨g1, g2, he, hn⟩ := h
  exact ⟨g1, g2 ++ gs, by rw [he]; simp, hn⟩

theorem FirstAcc.append {k : Nat} {g : List BEv} (h : FirstAcc k g) (gs : List BEv) : FirstAcc k (g ++ gs) := by
  obtain ⟨g1, g2, he, hn⟩ := h
  exact ⟨g1, g2 ++ gs, by rw [he]; simp, hn⟩

theorem FirstAcc.mem {k : Nat} {g : List BEv} (h : FirstAcc k g) : BEv.replied k true ∈ g := by
  obtain ⟨g1, g2, he, _⟩ := h
  rw [he]; simp

/-- A recorded `reply(false)` is the first answer, or comes after a `reply(true)` that is. -/
theorem firstRej_or_firstAcc {k : Nat} {g : List BEv} (h : BEv.replied k false ∈ g) : FirstRej k g ∨ FirstAcc k g := by
  induction g with
  | nil => cases h
  | cons e g ih =>
    by_cases he : ∃ acc, e = BEv.replied k acc
    · obtain ⟨acc, rfl⟩ := he
      cases acc with
      | false => exact Or.inl ⟨[], g, rfl, by simp⟩
      | true => exact Or.inr ⟨[], g, rfl, by simp⟩
    · have hne : ∀ acc, e ≠ BEv.replied k acc := fun acc h0 => he ⟨acc, h0⟩
      rcases List.mem_cons.mp h with h1 | h1
      · exact absurd h1.symm (hne false)
      · rcases ih h1 with ⟨g1, g2, e1, hn⟩ | ⟨g1, g2, e1, hn⟩
        · refine Or.inl ⟨e :: g1, g2, by rw [e1]; rfl, ?_⟩
          intro hm
          rcases List.mem_cons.mp hm with h2 | h2
          · exact hne true h2.symm
          · exact hn h2
        · refine Or.inr ⟨e :: g1, g2, by rw [e1]; rfl, ?_⟩
          intro acc hm
          rcases List.mem_cons.mp hm with h2 | h2
          · exact hne acc h2.symm
          · exact hn acc h2

/-- `FirstAcc` of an extended record: it held before, or no reply on `k` was recorded before and the extension
    records a `reply(true)`. -/
theorem FirstAcc.of_append {k : Nat} {g gs : List BEv} (h : FirstAcc k (g ++ gs)) :
    FirstAcc k g ∨ ((∀ acc, BEv.replied k acc ∉ g) ∧ BEv.replied k true ∈ gs) := by
  obtain ⟨g1, g2, he, hn⟩ := h
  rcases List.append_eq_append_iff.mp he with ⟨a', h1, h2⟩ | ⟨c', h1, h2⟩
  · -- g1 = g ++ a'
    right
    refine ⟨fun acc hm => hn acc (by rw [h1]; exact List.mem_append_left _ hm), ?_⟩
    rw [h2]; simp
  · -- g = g1 ++ c'
    cases c' with
    | nil =>
      right
      simp only [List.append_nil] at h1
      simp only [List.nil_append] at h2
      refine ⟨fun acc hm => hn acc (by rw [← h1]; exact hm), ?_⟩
      rw [← h2]; simp
    | cons r c'' =>
      left
      simp only [List.cons_append, List.cons.injEq] at h2
      exact ⟨g1, c'', by rw [h1, h2.1], hn⟩

end Penguin.BindAll
