/-
The internal machinery of two conforming endpoints cannot run for ever on its own.

`internal a`: the actions of the connection tasks and of the pending `new_stream_channel` futures
(`xmit`, `recv`, `notif`, `unpark`, `runDone`, `runRetries`) — everything that is not an application
call.  `M p`: a weighted count of what those actions still have to work on —

  * a message on a wire weighs `wMsg m` (Connect 12, Bind 6, Acknowledge 5, Finish 4, Push 4, Reset 2,
    everything else 1), the same message still in an outbound queue one more;
  * a queued dropped-handle notification 4, a parked hand-over 5, a `doneq` entry 1, a `retryq` entry 1;
  * every remaining retry of a pending open request 13 (= a `Connect` in an outbound queue).

The weights are chosen so that whatever an internal action produces weighs less than what it consumes:
`Connect` → `Acknowledge` queued (6) + parked hand-over (5); `Acknowledge` → notification (4) or `Reset`
queued (3); notification / parked hand-over → `Reset` queued (3) or `retryq` entry (1); `Reset` →
`retryq` entry (1); `retryq` entry → `Connect` queued (13) paid for by one retry (13).

Everything here holds for ALL pair states (no invariant needed).
-/
import Penguin.Model.Pair

namespace Penguin.Mux

/-! ### Weights -/

/-- The weight of a message on a wire. -/
def wMsg : Msg → Nat
  | .frame (.connect ..) => 12
  | .frame (.bind ..) => 6
  | .frame (.acknowledge ..) => 5
  | .frame (.finish _) => 4
  | .frame (.push ..) => 4
  | .frame (.reset _) => 2
  | _ => 1

theorem wMsg_pos (m : Msg) : 0 < wMsg m := by
  cases m with
  | frame f => cases f <;> simp [wMsg]
  | _ => simp [wMsg]

/-- Messages on a wire. -/
def wWire : List Msg → Nat
  | [] => 0
  | m :: l => wMsg m + wWire l

/-- Messages in an outbound queue: one more each (handing it to the transport is a step). -/
def wOut : List Msg → Nat
  | [] => 0
  | m :: l => wMsg m + 1 + wOut l

@[simp] theorem wWire_append (a b : List Msg) : wWire (a ++ b) = wWire a + wWire b := by
  induction a with
  | nil => simp [wWire]
  | cons m l ih => simp only [List.cons_append, wWire, ih]; omega

@[simp] theorem wOut_append (a b : List Msg) : wOut (a ++ b) = wOut a + wOut b := by
  induction a with
  | nil => simp [wOut]
  | cons m l ih => simp only [List.cons_append, wOut, ih]; omega

/-- The retries the pending open requests may still make, 13 each. -/
def budget : List OpenReq → Nat
  | [] => 0
  | r :: l => 13 * r.retriesLeft + budget l

theorem budget_filter_le (l : List OpenReq) (q : OpenReq → Bool) : budget (l.filter q) ≤ budget l := by
  induction l with
  | nil => simp [budget]
  | cons r l ih =>
    rw [List.filter_cons]
    split
    · simp only [budget]; omega
    · simp only [budget]; omega

theorem budget_filter_mem (l : List OpenReq) (q : OpenReq → Bool) (r : OpenReq) (hr : r ∈ l) (hq : q r = false) :
    budget (l.filter q) + 13 * r.retriesLeft ≤ budget l := by
  induction l with
  | nil => cases hr
  | cons r' l ih =>
    rw [List.filter_cons]
    rcases List.mem_cons.mp hr with h | h
    · subst h
      simp only [hq, budget]
      have := budget_filter_le l q
      simp only [Bool.false_eq_true, ↓reduceIte]
      omega
    · have := ih h
      split
      · simp only [budget]; omega
      · simp only [budget]; omega

def wPark : Option Park → Nat
  | none => 0
  | some _ => 5

/-- What the internal machinery of one endpoint still has to work on. -/
def epM (e : EP) : Nat :=
  wOut e.outq + 4 * e.droppedq.length + e.doneq.length + e.retryq.length + wPark e.park + budget e.opens

/-! ### The endpoint model's functions against the measure -/

theorem epM_enq_le (e : EP) (m : Msg) : epM (e.enq m) ≤ epM e + wMsg m + 1 := by
  unfold EP.enq
  split
  · omega
  · simp only [epM, wOut_append, wOut]; omega

theorem epM_enqFrame_le (e : EP) (f : Frame) : epM (e.enqFrame f) ≤ epM e + wMsg (.frame f) + 1 :=
  epM_enq_le e _

@[simp] theorem epM_modObj (e : EP) (i : Nat) (f : Obj → Obj) : epM (e.modObj i f) = epM e := rfl

theorem epM_openRejected (e : EP) (req : Nat) (final : Bool) : epM (openRejected e req final).1 ≤ epM e + 1 := by
  unfold openRejected
  split
  · dsimp only; omega
  · split
    · have := budget_filter_le e.opens (fun r => decide (r.req ≠ req))
      simp only [epM]; omega
    · simp only [epM, List.length_append, List.length_cons, List.length_nil]; omega

theorem epM_closeLocal (e : EP) (s : Slot) (fid : Nat) (inh final : Bool) :
    epM (closeLocal e s fid inh final).1 ≤ epM e + (if inh then 1 else 3) := by
  unfold closeLocal
  cases s with
  | established i =>
    simp only
    cases e.obj? i with
    | none => simp only; split <;> omega
    | some o =>
      simp only
      split
      · rename_i hc
        have := epM_enqFrame_le (e.modObj i (fun o => { o.disallowWrite with senderAlive := false })) (.reset fid)
        simp only [epM_modObj, wMsg] at this
        have hi : inh = false := by
          cases inh
          · rfl
          · simp at hc
        subst hi
        simp only [Bool.false_eq_true, ↓reduceIte]
        omega
      · simp only [epM_modObj]; split <;> omega
  | requested req =>
    have := epM_openRejected e req final
    simp only
    split <;> omega
  | bindRequested req => simp only; split <;> omega

theorem epM_closeFlow (e : EP) (fid : Nat) (inh : Bool) :
    epM (closeFlow e fid inh).1 ≤ epM e + (if inh then 1 else 3) := by
  unfold closeFlow
  cases lookup e.flows fid with
  | none => simp only; split <;> omega
  | some s =>
    have := epM_closeLocal { e with flows := erase e.flows fid } s fid inh false
    exact this

theorem epM_pushDq (x : EP) (fid : Nat) : epM { x with droppedq := x.droppedq ++ [fid] } = epM x + 4 := by
  simp only [epM, List.length_append, List.length_cons, List.length_nil]; omega

theorem wPark_le (o : Option Park) : wPark o ≤ 5 := by cases o <;> simp [wPark]

theorem epM_offerAccept (e : EP) (i : Nat) : epM (offerAccept e i) ≤ epM e + 5 := by
  unfold offerAccept
  split
  · simp only [epM]; omega
  · simp only [epM, wPark]; omega

theorem epM_offerBind (e : EP) (b : BindIn) : epM (offerBind e b) ≤ epM e + 5 := by
  unfold offerBind
  split
  · simp only [epM]; omega
  · simp only [epM, wPark]; omega

theorem epM_connect_drop (x : EP) (i fid n : Nat) (g : Obj → Obj) :
    epM { ((x.enqFrame (.acknowledge fid n)).modObj i g) with droppedq := (x.enqFrame (.acknowledge fid n)).droppedq ++ [fid] }
      ≤ epM x + 10 := by
  have h1 := epM_enqFrame_le x (.acknowledge fid n)
  have h2 := epM_pushDq (x.enqFrame (.acknowledge fid n)) fid
  simp only [wMsg] at h1
  exact Nat.le_trans (Nat.le_of_eq h2) (by omega)

theorem epM_connect_offer (x : EP) (i fid n : Nat) :
    epM (offerAccept (x.enqFrame (.acknowledge fid n)) i) ≤ epM x + 11 := by
  have h1 := epM_enqFrame_le x (.acknowledge fid n)
  have h2 := epM_offerAccept (x.enqFrame (.acknowledge fid n)) i
  simp only [wMsg] at h1
  omega

/-- Whatever processing a frame leaves behind (replies queued, a notification, a parked hand-over, a
    `doneq` / `retryq` entry) weighs less than the frame did on the wire. -/
theorem epM_processFrame (e : EP) (f : Frame) (ig : Bool) :
    epM (processFrame e f ig).1 < epM e + wMsg (.frame f) := by
  have enq : ∀ (x : EP) (g : Frame), epM (x.enqFrame g) ≤ epM x + wMsg (.frame g) + 1 := epM_enqFrame_le
  cases f with
  | connect fid rwnd port host =>
    simp only [processFrame, wMsg]
    split
    · have := enq e (.reset fid); simp only [wMsg] at this; dsimp only; omega
    · split
      · simp only [epM]; omega
      · split
        · exact Nat.lt_of_le_of_lt (epM_connect_drop _ _ _ _ _) (Nat.add_lt_add_left (by decide) (epM e))
        · exact Nat.lt_of_le_of_lt (epM_connect_offer _ _ _ _) (Nat.add_lt_add_left (by decide) (epM e))
  | acknowledge fid n =>
    simp only [processFrame, wMsg]
    split
    · simp only [epM_modObj]; omega
    · split
      · have := budget_filter_le e.opens (fun r => decide (r.req ≠ ‹Nat›))
        simp only [epM, List.length_append, List.length_cons, List.length_nil]; omega
      · simp only [epM, EP.modObj, List.length_append, List.length_cons, List.length_nil]; omega
    · have := enq e (.reset fid); simp only [wMsg] at this; dsimp only; omega
    · have := enq e (.reset fid); simp only [wMsg] at this; dsimp only; omega
  | finish fid =>
    simp only [processFrame, wMsg]
    split
    · have := enq e (.reset fid); simp only [wMsg] at this; dsimp only; omega
    · simp only [epM]; omega
    · rename_i req _
      have := enq { e with flows := erase e.flows fid, opens := e.opens.filter (·.req ≠ req) } (.reset fid)
      have hb := budget_filter_le e.opens (fun r => decide (r.req ≠ req))
      simp only [wMsg] at this
      simp only [epM] at this ⊢
      omega
    · simp only [epM_modObj]; omega
  | reset fid =>
    simp only [processFrame, wMsg]
    have := epM_closeFlow e fid true
    simp only [↓reduceIte] at this
    omega
  | push fid d =>
    simp only [processFrame, wMsg]
    split
    · split
      · dsimp only; omega
      · split
        · have := enq e (.reset fid); simp only [wMsg] at this; dsimp only; omega
        · split
          · dsimp only; omega
          · split
            · simp only [epM_modObj]; omega
            · have := epM_closeFlow e fid false
              simp only [Bool.false_eq_true, ↓reduceIte] at this
              dsimp only; omega
    · have := enq e (.reset fid); simp only [wMsg] at this; dsimp only; omega
  | bind fid bt port host =>
    simp only [processFrame, wMsg]
    split
    · have := enq e (.reset fid); simp only [wMsg] at this; dsimp only; omega
    · split
      · dsimp only; omega
      · split
        · have := enq e (.reset fid); simp only [wMsg] at this; dsimp only; omega
        · have := epM_offerBind e { fid := fid, bt := bt, host := host, port := port }
          dsimp only; omega
  | datagram fid port host d =>
    simp only [processFrame, wMsg]
    split
    · dsimp only; omega
    · split
      · simp only [epM]; omega
      · dsimp only; omega

/-- A parked hand-over either stays parked (nothing changes) or completes, and what it leaves behind
    (a notification, a `Reset`) weighs less than the parked hand-over did. -/
theorem epM_unpark (e : EP) : unpark e = e ∨ epM (unpark e) < epM e := by
  unfold unpark
  split
  · exact Or.inl rfl
  · rename_i i hp
    split
    · right
      split
      · simp only [epM, EP.modObj, hp, wPark, List.length_append, List.length_cons, List.length_nil]; omega
      · simp only [epM, hp, wPark]; omega
    · split
      · right; simp only [epM, hp, wPark]; omega
      · exact Or.inl rfl
  · rename_i b hp
    split
    · right
      have := epM_enqFrame_le { e with park := none } (.reset b.fid)
      simp only [wMsg] at this
      have h0 : epM { e with park := none } + 5 = epM e := by simp only [epM, hp, wPark]; omega
      omega
    · split
      · right; simp only [epM, hp, wPark]; omega
      · exact Or.inl rfl

/-- One more round of a pending open request: the `Connect` it queues is paid for by the retry it uses up. -/
theorem epM_openRound (e : EP) (r : OpenReq) (hr : r ∈ e.opens) : epM (openRound e r).1 ≤ epM e := by
  have hq : (fun x : OpenReq => decide (x.req ≠ r.req)) r = false := by simp
  have hb := budget_filter_mem e.opens (fun x => decide (x.req ≠ r.req)) r hr hq
  have hb' := budget_filter_le e.opens (fun x => decide (x.req ≠ r.req))
  unfold openRound
  split
  · simp only [epM]; omega
  · split
    · simp only [epM]; omega
    · rename_i hne fid rng' fb' _
      dsimp only
      split
      · have h2 := budget_filter_le (e.opens.filter (fun x => decide (x.req ≠ r.req))) (fun x => decide (x.req ≠ r.req))
        simp only [epM, List.filter_cons, decide_not, ne_eq, Bool.not_true, Bool.false_eq_true, ↓reduceIte,
          decide_true] at h2 hb hb' ⊢
        omega
      · have h1 := epM_enqFrame_le { e with rng := rng', fallback := fb', flows := insert e.flows fid (.requested r.req), opens := { r with retriesLeft := r.retriesLeft - 1 } :: e.opens.filter (·.req ≠ r.req) } (.connect fid e.opts.rwnd r.port r.host)
        simp only [wMsg] at h1
        refine Nat.le_trans h1 ?_
        simp only [epM, budget]
        omega

theorem epM_runRetries (e : EP) (l : List Nat) : epM (runRetries e l).1 ≤ epM e := by
  induction l generalizing e with
  | nil => exact Nat.le_refl _
  | cons req rest ih =>
    rw [runRetries]
    split
    · exact ih e
    · rename_i r hf
      exact Nat.le_trans (ih _) (epM_openRound e r (List.mem_of_find?_eq_some hf))

theorem epM_runDone (e : EP) (l : List (Nat × Nat)) : epM (runDone e l).1 = epM e := by
  induction l generalizing e with
  | nil => rfl
  | cons x rest ih =>
    obtain ⟨req, i⟩ := x
    rw [runDone]
    exact ih _

theorem epM_setDq (e : EP) (q : List Nat) :
    epM { e with droppedq := q } + 4 * e.droppedq.length = epM e + 4 * q.length := by
  simp only [epM]; omega

theorem epM_setDoneq (e : EP) (q : List (Nat × Nat)) :
    epM { e with doneq := q } + e.doneq.length = epM e + q.length := by
  simp only [epM]; omega

theorem epM_setRetryq (e : EP) (q : List Nat) :
    epM { e with retryq := q } + e.retryq.length = epM e + q.length := by
  simp only [epM]; omega

theorem setDoneq_self (e : EP) (h : e.doneq = []) : { e with doneq := [] } = e := by
  cases e; simp_all

theorem setRetryq_self (e : EP) (h : e.retryq = []) : { e with retryq := [] } = e := by
  cases e; simp_all

end Penguin.Mux

namespace Penguin.Pair
open Penguin.Mux

/-- The actions of the connection tasks and of the pending `new_stream_channel` futures: everything
    that is not an application call. -/
def internal : Act → Bool
  | .xmit | .recv | .notif | .unpark | .runDone | .runRetries => true
  | _ => false

/-- What the internal machinery of the two endpoints still has to work on (see the file header). -/
def M (p : PS) : Nat := epM p.a + epM p.b + wWire p.ab + wWire p.ba

theorem M_swap (p : PS) : M p.swap = M p := by
  simp only [M, PS.swap]; omega

/-- An internal action of the left endpoint leaves the state as it is or strictly decreases `M`. In
    every state. -/
theorem stepL_internal (p p' : PS) (a : Act) (hi : internal a = true) (hs : stepL p a = some p') :
    p' = p ∨ M p' < M p := by
  cases a with
  | xmit =>
    simp only [stepL] at hs
    split at hs
    · cases hs
    · rename_i m rest hq
      cases hs
      right
      simp only [M, epM, hq, wOut, wWire_append, wWire]
      omega
  | recv =>
    simp only [stepL] at hs
    split at hs
    · cases hs
    · split at hs
      · rename_i f rest hba
        split at hs
        · rename_i e evs hpf
          cases hs
          right
          have := epM_processFrame p.a f false
          rw [hpf] at this
          simp only [M, hba, wWire]
          dsimp only at this
          omega
        · cases hs
      · cases hs
  | notif =>
    simp only [stepL] at hs
    split at hs
    · rename_i fid rest hq
      split at hs
      · cases hs
      · cases hs
        right
        have := epM_closeFlow { p.a with droppedq := rest } fid false
        dsimp only at this
        have h0 := epM_setDq p.a rest
        simp only [hq, List.length_cons] at h0
        simp only [Bool.false_eq_true, ↓reduceIte] at this
        simp only [M]
        omega
    · cases hs
  | unpark =>
    simp only [stepL] at hs
    cases hs
    rcases epM_unpark p.a with h | h
    · left; rw [h]
    · right; simp only [M]; omega
  | runDone =>
    simp only [stepL] at hs
    cases hs
    cases hq : p.a.doneq with
    | nil =>
      left
      simp only [List.foldr_nil, setDoneq_self p.a hq, Mux.runDone]
    | cons x rest =>
      right
      have := epM_runDone { p.a with doneq := [] } ((x :: rest).foldr insertDone [])
      dsimp only at this
      have h0 := epM_setDoneq p.a []
      simp only [hq, List.length_cons, List.length_nil] at h0
      simp only [M]
      omega
  | runRetries =>
    simp only [stepL] at hs
    split at hs
    · cases hs
    · cases hs
      cases hq : p.a.retryq with
      | nil =>
        left
        simp only [setRetryq_self p.a hq, sortNat, List.foldr_nil, Mux.runRetries]
      | cons x rest =>
        right
        have := epM_runRetries { p.a with retryq := [] } (sortNat (x :: rest))
        dsimp only at this
        have h0 := epM_setRetryq p.a []
        simp only [hq, List.length_cons, List.length_nil] at h0
        simp only [M]
        omega
  | _ => cases hi

/-- The same for either side. -/
theorem step_internal (p p' : PS) (s : Side) (a : Act) (hi : internal a = true) (hs : step p s a = some p') :
    p' = p ∨ M p' < M p := by
  cases s with
  | A => exact stepL_internal p p' a hi hs
  | B =>
    simp only [step, Option.map_eq_some_iff] at hs
    obtain ⟨q, hq, rfl⟩ := hs
    rcases stepL_internal p.swap q a hi hq with h | h
    · left; rw [h]; rfl
    · right; rw [M_swap] at *; exact h

/-- **An internal action that changes the state strictly decreases `M`** — in every state, for both sides. -/
theorem step_internal_decreases (p p' : PS) (s : Side) (a : Act) (hi : internal a = true)
    (hs : step p s a = some p') (hne : p' ≠ p) : M p' < M p := by
  rcases step_internal p p' s a hi hs with h | h
  · exact absurd h hne
  · exact h

/-- Internal actions never increase `M`. -/
theorem step_internal_le (p p' : PS) (s : Side) (a : Act) (hi : internal a = true) (hs : step p s a = some p') :
    M p' ≤ M p := by
  rcases step_internal p p' s a hi hs with h | h
  · rw [h]; exact Nat.le_refl _
  · omega

/-- `xmit` and `recv`, when enabled, always strictly decrease `M` (a message moves). -/
theorem stepL_move (p p' : PS) (a : Act) (ha : a = .xmit ∨ a = .recv) (hs : stepL p a = some p') : M p' < M p := by
  rcases ha with rfl | rfl
  · simp only [stepL] at hs
    split at hs
    · cases hs
    · rename_i m rest hq
      cases hs
      simp only [M, epM, hq, wOut, wWire_append, wWire]
      omega
  · simp only [stepL] at hs
    split at hs
    · cases hs
    · split at hs
      · rename_i f rest hba
        split at hs
        · rename_i e evs hpf
          cases hs
          have := epM_processFrame p.a f false
          rw [hpf] at this
          simp only [M, hba, wWire]
          dsimp only at this
          omega
        · cases hs
      · cases hs

theorem step_move (p p' : PS) (s : Side) (a : Act) (ha : a = .xmit ∨ a = .recv) (hs : step p s a = some p') :
    M p' < M p := by
  cases s with
  | A => exact stepL_move p p' a ha hs
  | B =>
    simp only [step, Option.map_eq_some_iff] at hs
    obtain ⟨q, hq, rfl⟩ := hs
    have := stepL_move p.swap q a ha hq
    rw [M_swap] at *; exact this

/-! ### Productive internal actions, schedules, quiescence -/

/-- Internal action `a` of side `s` is *productive* in `p`: it is enabled and has something to do —
    decided through the measure (`productiveI_iff`: this is exactly "enabled and changes the state"). -/
def productiveI (p : PS) (s : Side) (a : Act) : Bool :=
  internal a && match step p s a with
    | some p' => decide (M p' < M p)
    | none => false

/-- Productive = internal, enabled, and the state changes (`unpark` with nothing parked or a still
    full accept queue, `runDone` / `runRetries` with nothing queued are enabled but idle). -/
theorem productiveI_iff (p : PS) (s : Side) (a : Act) :
    productiveI p s a = true ↔ internal a = true ∧ ∃ p', step p s a = some p' ∧ p' ≠ p := by
  unfold productiveI
  constructor
  · intro h
    simp only [Bool.and_eq_true] at h
    obtain ⟨hi, h⟩ := h
    cases hs : step p s a with
    | none => rw [hs] at h; cases h
    | some p' =>
      rw [hs] at h
      simp only [decide_eq_true_eq] at h
      exact ⟨hi, p', rfl, fun he => by rw [he] at h; omega⟩
  · rintro ⟨hi, p', hs, hne⟩
    rw [hi, hs]
    rcases step_internal p p' s a hi hs with h | h
    · exact absurd h hne
    · simp [h]

/-- **Every productive internal action strictly decreases `M`** — in every state. -/
theorem productiveI_decreases (p : PS) (s : Side) (a : Act) (h : productiveI p s a = true) :
    M (run p [(s, a)]) < M p := by
  unfold productiveI at h
  simp only [Bool.and_eq_true] at h
  cases hs : step p s a with
  | none => rw [hs] at h; cases h.2
  | some p' =>
    rw [hs] at h
    simp only [run, hs, Option.getD_some]
    simpa using h.2

/-- Every action of the schedule is a productive internal action in the state in which it is executed
    (both sides interleaved in any way). -/
def ProdSched : PS → List (Side × Act) → Prop
  | _, [] => True
  | p, sa :: rest => productiveI p sa.1 sa.2 = true ∧ ProdSched (run p [sa]) rest

instance instDecidableProdSched : (p : PS) → (l : List (Side × Act)) → Decidable (ProdSched p l)
  | _, [] => isTrue trivial
  | p, sa :: rest =>
    match decEq (productiveI p sa.1 sa.2) true, instDecidableProdSched (run p [sa]) rest with
    | isTrue h1, isTrue h2 => isTrue ⟨h1, h2⟩
    | isFalse h1, _ => isFalse (fun h => h1 h.1)
    | _, isFalse h2 => isFalse (fun h => h2 h.2)

theorem run_cons (p : PS) (sa : Side × Act) (l : List (Side × Act)) : run p (sa :: l) = run (run p [sa]) l := by
  obtain ⟨s, a⟩ := sa
  simp only [run]

theorem run_append (p : PS) (l1 l2 : List (Side × Act)) : run p (l1 ++ l2) = run (run p l1) l2 := by
  induction l1 generalizing p with
  | nil => rfl
  | cons sa rest ih =>
    rw [List.cons_append, run_cons, ih, ← run_cons]

theorem prodSched_append (p : PS) (l1 l2 : List (Side × Act)) :
    ProdSched p (l1 ++ l2) ↔ ProdSched p l1 ∧ ProdSched (run p l1) l2 := by
  induction l1 generalizing p with
  | nil => simp [ProdSched, run]
  | cons sa rest ih =>
    simp only [List.cons_append, ProdSched, ih, run_cons p sa rest, and_assoc]

/-- Every step of a productive internal schedule pays one unit of the measure. -/
theorem prodSched_measure (p : PS) (l : List (Side × Act)) (h : ProdSched p l) : l.length + M (run p l) ≤ M p := by
  induction l generalizing p with
  | nil => simp [run]
  | cons sa rest ih =>
    obtain ⟨s, a⟩ := sa
    have h1 := productiveI_decreases p s a h.1
    have h2 := ih _ h.2
    rw [run_cons]
    simp only [List.length_cons]
    omega

theorem prodSched_length (p : PS) (l : List (Side × Act)) (h : ProdSched p l) : l.length ≤ M p := by
  have := prodSched_measure p l h; omega

/-- No productive internal action on either side. -/
def Quiescent (p : PS) : Prop := ∀ s a, productiveI p s a = false

/-- The internal actions (they carry no parameters). -/
def internalActs : List (Side × Act) :=
  [(.A, .xmit), (.A, .recv), (.A, .notif), (.A, .unpark), (.A, .runDone), (.A, .runRetries),
   (.B, .xmit), (.B, .recv), (.B, .notif), (.B, .unpark), (.B, .runDone), (.B, .runRetries)]

/-- Some productive internal action, if there is one. -/
def pickI (p : PS) : Option (Side × Act) := internalActs.find? (fun sa => productiveI p sa.1 sa.2)

theorem pickI_some (p : PS) (sa : Side × Act) (h : pickI p = some sa) : productiveI p sa.1 sa.2 = true := by
  have := List.find?_some h
  exact this

theorem pickI_none (p : PS) (h : pickI p = none) : Quiescent p := by
  intro s a
  cases hp : productiveI p s a with
  | false => rfl
  | true =>
    have hi : internal a = true := by
      unfold productiveI at hp
      simp only [Bool.and_eq_true] at hp
      exact hp.1
    have hall := List.find?_eq_none.mp h
    have hm : (s, a) ∈ internalActs := by
      cases s <;> cases a <;> first | (simp [internalActs]; done) | (simp [internal] at hi)
    exact absurd hp (hall (s, a) hm)

/-- Quiescence is decidable on concrete states. -/
theorem quiescent_iff (p : PS) : Quiescent p ↔ pickI p = none := by
  constructor
  · intro h
    cases hp : pickI p with
    | none => rfl
    | some sa =>
      have := pickI_some p sa hp
      rw [h sa.1 sa.2] at this
      cases this
  · exact pickI_none p

/-- A productive internal schedule that cannot be extended ends in a quiescent state. -/
theorem maximal_quiescent (p : PS) (l : List (Side × Act)) (h : ProdSched p l)
    (hmax : ∀ sa, ¬ ProdSched p (l ++ [sa])) : Quiescent (run p l) := by
  intro s a
  cases hq : productiveI (run p l) s a with
  | false => rfl
  | true => exact absurd ((prodSched_append p l [(s, a)]).2 ⟨h, hq, trivial⟩) (hmax (s, a))

/-- A maximal productive internal schedule exists from every state, and ends in a quiescent state. -/
theorem exists_quiescent (p : PS) : ∃ l, ProdSched p l ∧ Quiescent (run p l) := by
  generalize hm : M p = m
  induction m using Nat.strongRecOn generalizing p with
  | _ m ih =>
    cases hp : pickI p with
    | none => exact ⟨[], trivial, pickI_none p hp⟩
    | some sa =>
      have hpa := pickI_some p sa hp
      have hlt : M (run p [sa]) < M p := productiveI_decreases p sa.1 sa.2 hpa
      obtain ⟨l, h1, h2⟩ := ih (M (run p [sa])) (by omega) (run p [sa]) rfl
      exact ⟨sa :: l, ⟨hpa, h1⟩, by rw [run_cons]; exact h2⟩

/-- The first `k` actions of an infinite schedule. -/
def pre (f : Nat → Side × Act) (k : Nat) : List (Side × Act) := (List.range k).map f

theorem pre_succ (f : Nat → Side × Act) (k : Nat) : pre f (k + 1) = pre f k ++ [f k] := by
  simp [pre, List.range_succ]

theorem pre_length (f : Nat → Side × Act) (k : Nat) : (pre f k).length = k := by simp [pre]

/-- An infinite schedule of internal actions cannot be productive for ever: among its first `M p + 1`
    actions there is one that finds nothing to do. -/
theorem schedule_hits_idle (p : PS) (f : Nat → Side × Act) :
    ∃ k, k ≤ M p ∧ ProdSched p (pre f k) ∧ productiveI (run p (pre f k)) (f k).1 (f k).2 = false := by
  apply Classical.byContradiction
  intro hno
  have hall : ∀ k, k ≤ M p + 1 → ProdSched p (pre f k) := by
    intro k
    induction k with
    | zero => intro _; simp [pre, ProdSched]
    | succ k ih =>
      intro hk
      have hp := ih (by omega)
      rw [pre_succ, prodSched_append]
      refine ⟨hp, ?_, trivial⟩
      cases hq : productiveI (run p (pre f k)) (f k).1 (f k).2 with
      | true => rfl
      | false => exact absurd ⟨k, by omega, hp, hq⟩ hno
  have := prodSched_length p _ (hall (M p + 1) (Nat.le_refl _))
  rw [pre_length] at this
  omega

/-! ### Arbitrary internal schedules: the number of messages moved -/

/-- The number of messages handed to a transport (`xmit`) or taken from it and processed (`recv`) in
    the course of a run (actions that are not enabled are skipped, as in `run`). -/
def moved : PS → List (Side × Act) → Nat
  | _, [] => 0
  | p, (s, a) :: rest =>
    (match a, step p s a with
      | .xmit, some _ => 1
      | .recv, some _ => 1
      | _, _ => 0) + moved ((step p s a).getD p) rest

/-- In any schedule of internal actions whatsoever — productive or not, enabled or not — every message
    handed to a transport or processed pays one unit of the measure. -/
theorem moved_measure (p : PS) (l : List (Side × Act)) (hi : ∀ sa ∈ l, internal sa.2 = true) :
    moved p l + M (run p l) ≤ M p := by
  induction l generalizing p with
  | nil => simp [moved, run]
  | cons sa rest ih =>
    obtain ⟨s, a⟩ := sa
    have hia : internal a = true := hi (s, a) (by simp)
    have hrest : ∀ sa ∈ rest, internal sa.2 = true := fun sa h => hi sa (List.mem_cons_of_mem _ h)
    simp only [moved, run]
    cases hs : step p s a with
    | none =>
      have := ih p hrest
      simp only [Option.getD_none]
      cases a <;> simp only [Nat.zero_add] <;> exact this
    | some p' =>
      have h2 := ih p' hrest
      simp only [Option.getD_some]
      have hle := step_internal_le p p' s a hia hs
      cases a with
      | xmit => have := step_move p p' s .xmit (Or.inl rfl) hs; dsimp only; omega
      | recv => have := step_move p p' s .recv (Or.inr rfl) hs; dsimp only; omega
      | _ => simp only [Nat.zero_add]; omega

end Penguin.Pair
