/-
The bind-request pair (`Model/BindPair`): each action of the pair is, for each of the two directions,
one of the moves of `Lemmas/BindDir` (or leaves that direction as it is); hence `DirInv` holds for
both directions of every reachable state.  Core Lean only.
-/
import Penguin.Lemmas.BindInj
import Penguin.Lemmas.MuxStep

namespace Penguin.BindPair
open Penguin.Mux

def bindIn? : Msg → Option BindIn
  | .frame (.bind x bt port host) => some { fid := x, bt := bt, host := host, port := port }
  | _ => none

def ans? : Msg → Option (Nat × Bool)
  | .frame (.finish x) => some (x, true)
  | .frame (.reset x) => some (x, false)
  | _ => none

def parkB : Option Park → Option BindIn
  | some (.bind b) => some b
  | _ => none

/-- The direction in which `p.a` asks and `p.b` answers. -/
def dirOf (p : PS) : Dir :=
  { flows := p.a.flows, reqs := (p.ab ++ p.a.outq).filterMap bindIn?, park := parkB p.b.park,
    bindq := p.b.bindq, held := p.b.held, anss := (p.ba ++ p.b.outq).filterMap ans?,
    cap := p.b.opts.bindCap, asked := p.ga.asked, results := p.ga.results,
    links := p.gb.links, accepted := p.gb.accepted, rejected := p.gb.rejected }

/-- Only bind traffic: `Bind`, `Finish`, `Reset`. -/
def isBF : Msg → Bool
  | .frame (.bind ..) => true
  | .frame (.finish _) => true
  | .frame (.reset _) => true
  | _ => false

/-- Nothing is left for the connection task to do on its own, and the transport takes everything:
    the state in which the correspondence harness hands an endpoint its next stimulus. -/
def idleB (e : EP) : Bool :=
  e.inbox.isEmpty && e.droppedq.isEmpty && e.doneq.isEmpty && e.retryq.isEmpty && e.closing.isNone &&
  e.draining.isNone && !e.dead && e.sinkRoom.isNone && !e.srcEnded

/-- A running endpoint of the fragment. -/
structure Run (e : EP) : Prop where
  out : e.outClosed = false
  alive : e.muxAlive = true
  slots : ∀ x s, lookup e.flows x = some s → ∃ r, s = .bindRequested r
  park : ∀ i, e.park ≠ some (.accept i)
  idle : idleB e = true

structure PInv (oa ob : Opts) (p : PS) : Prop where
  d1 : DirInv (dirOf p)
  d2 : DirInv (dirOf p.swap)
  ra : Run p.a
  rb : Run p.b
  wa : ∀ m ∈ p.ab ++ p.a.outq, isBF m = true
  wb : ∀ m ∈ p.ba ++ p.b.outq, isBF m = true
  oa : p.a.opts = oa
  ob : p.b.opts = ob

theorem PInv.swap {oa ob : Opts} {p : PS} (h : PInv oa ob p) : PInv ob oa p.swap :=
  ⟨h.d2, h.d1, h.rb, h.ra, h.wb, h.wa, h.ob, h.oa⟩

theorem swap_swap (p : PS) : p.swap.swap = p := rfl

theorem ownerF_lookup {m : List (Nat × Slot)} {x r : Nat} (h : ownerF m x = some r) : lookup m x = some (.bindRequested r) := by
  unfold ownerF at h
  split at h
  · rename_i r' hl; cases h; exact hl
  · cases h

theorem Run.enqFrame {e : EP} (h : Run e) (f : Frame) : (e.enqFrame f).outq = e.outq ++ [.frame f] := by
  unfold EP.enqFrame EP.enq
  rw [h.out]; rfl

theorem init_inv (oa ob : Opts) (ra rb : List Nat) : PInv oa ob (init oa ob ra rb) := by
  have hd : ∀ c, DirInv ({ flows := [], cap := c } : Dir) := by
    intro c
    refine ⟨⟨?_, ?_, ?_, ?_, ?_, ?_, ?_, ?_, ?_⟩, ⟨?_, ?_, by simp, by simp⟩⟩
    · intro x; simp [Dir.toks, parkL, pendHeld, ownerF]
    · intro c hc; simp [parkL] at hc
    · intro k b hk; simp at hk
    · intro r k hl; simp at hl
    · intro k hk; simp at hk
    · intro x acc hx; simp at hx
    · intro r; simp
    · simp
    · intro x r hr; simp [ownerF] at hr
    · intro x y r hx; simp [ownerF] at hx
    · intro r k hl; simp at hl
  have hr : ∀ (o : Opts) (r : List Nat), Run ({ opts := o, rng := r } : EP) :=
    fun o r => ⟨rfl, rfl, by intro x s hs; simp at hs, by intro i; simp, rfl⟩
  exact ⟨hd _, hd _, hr _ _, hr _ _, by simp [init], by simp [init], rfl, rfl⟩

end Penguin.BindPair

namespace Penguin.BindPair
open Penguin.Mux

theorem step_xmit {oa ob : Opts} {p q : PS} (h : PInv oa ob p) (hs : stepL p .xmit = some q) : PInv oa ob q := by
  simp only [stepL] at hs
  split at hs
  · cases hs
  · rename_i m rest hq
    cases hs
    have e1 : (p.ab ++ [m]) ++ rest = p.ab ++ p.a.outq := by rw [hq]; simp
    refine ⟨?_, ?_, ⟨h.ra.out, h.ra.alive, h.ra.slots, h.ra.park, h.ra.idle⟩, h.rb, ?_, h.wb, h.oa, h.ob⟩
    · exact h.d1.of_eq (by simp only [dirOf, e1])
    · exact h.d2.of_eq (by simp only [dirOf, PS.swap, e1])
    · intro m' hm'
      simp only [e1] at hm'
      exact h.wa m' hm'

theorem step_unpark {oa ob : Opts} {p q : PS} (h : PInv oa ob p) (hs : stepL p .unpark = some q) : PInv oa ob q := by
  simp only [stepL] at hs
  cases hs
  cases hpk : p.a.park with
  | none =>
    have : Mux.unpark p.a = p.a := by unfold Mux.unpark; rw [hpk]
    rw [this]; exact h
  | some pk =>
    cases pk with
    | accept i => exact absurd hpk (h.ra.park i)
    | bind b =>
      by_cases hroom : p.a.bindq.length < p.a.opts.bindCap
      · have hu : Mux.unpark p.a = { p.a with bindq := p.a.bindq ++ [b], park := none } := by
          unfold Mux.unpark; rw [hpk]; simp [h.ra.alive, hroom]
        rw [hu]
        refine ⟨?_, ?_, ⟨h.ra.out, h.ra.alive, h.ra.slots, by intro i; simp, h.ra.idle⟩, h.rb, h.wa, h.wb, h.oa, h.ob⟩
        · exact h.d1
        · exact h.d2.unpark.of_eq (by simp only [dirOf, PS.swap, Dir.unpark, hpk, parkB, hroom, if_true])
      · have hu : Mux.unpark p.a = p.a := by
          unfold Mux.unpark; rw [hpk]; simp [h.ra.alive, hroom]
        rw [hu]; exact h

theorem step_bindNext {oa ob : Opts} {p q : PS} (h : PInv oa ob p) (hs : stepL p .bindNext = some q) : PInv oa ob q := by
  by_cases hc : p.a.opts.bindCap = 0
  · have hn : appBindNext p.a = (p.a, .unsupported) := by unfold appBindNext; simp [hc]
    simp only [stepL, hn] at hs
    cases hs; exact h
  · cases hq : p.a.bindq with
    | nil =>
      have hn : (appBindNext p.a).1 = p.a ∧ ((appBindNext p.a).2 = .closed ∨ (appBindNext p.a).2 = .pending) := by
        unfold appBindNext; simp only [hc, if_false, hq]; split <;> simp
      simp only [stepL] at hs
      cases hs
      rcases hn with ⟨h1, h2 | h2⟩ <;> (rw [h1, h2]; exact h)
    | cons b rest =>
      have hn : appBindNext p.a = ({ p.a with bindq := rest, held := p.a.held ++ [b] }, .bindReq p.a.held.length b.fid b.bt b.host b.port) := by
        unfold appBindNext; simp [hc, hq]
      simp only [stepL, hn] at hs
      cases hs
      refine ⟨?_, ?_, ⟨h.ra.out, h.ra.alive, h.ra.slots, h.ra.park, h.ra.idle⟩, h.rb, h.wa, h.wb, h.oa, h.ob⟩
      · refine h.d1.of_eq ?_
        simp only [dirOf]
        split <;> rfl
      · refine h.d2.next.of_eq ?_
        simp only [dirOf, PS.swap, Dir.next, hq, owner_eq]
        split <;> simp_all

end Penguin.BindPair

namespace Penguin.BindPair
open Penguin.Mux

theorem enqFrame_open (e : EP) (h : e.outClosed = false) (f : Frame) :
    e.enqFrame f = { e with outq := e.outq ++ [.frame f] } := by
  unfold EP.enqFrame EP.enq; rw [h]; rfl

theorem step_bindReq {oa ob : Opts} {p q : PS} {req : Nat} {bt : BindType} {host : Bytes} {port : Nat} (h : PInv oa ob p)
    (hs : stepL p (.bindReq req bt host port) = some q) : PInv oa ob q := by
  simp only [stepL] at hs
  split at hs
  · cases hs
  · rename_i hg
    have hreq : req ∉ (dirOf p).asked.map (·.req) := by
      intro hm
      obtain ⟨a, ha, hae⟩ := List.mem_map.mp hm
      apply hg
      simp only [Bool.or_eq_true, List.any_eq_true, beq_iff_eq]
      exact Or.inl ⟨a, ha, hae⟩
    cases hd : drawId p.a.flows p.a.rng p.a.fallback 64 with
    | none =>
      have hr : appBindReq p.a req bt host port = (p.a, [.bindDone req .closed]) := by
        unfold appBindReq; rw [hd]
      simp only [hr, hd] at hs
      cases hs
      refine ⟨?_, ?_, h.ra, h.rb, h.wa, h.wb, h.oa, h.ob⟩
      · exact (h.d1.askClosed req).of_eq (by simp [dirOf, Dir.askClosed, resultsOf])
      · exact h.d2.of_eq (by simp [dirOf, PS.swap])
    | some t =>
      obtain ⟨fid, rng', fb'⟩ := t
      have hspec := drawId_spec _ _ _ _ _ _ _ hd
      have hr : appBindReq p.a req bt host port =
          ({ p.a with rng := rng', fallback := fb', flows := insert p.a.flows fid (.bindRequested req),
                      outq := p.a.outq ++ [.frame (.bind fid bt port host)] }, []) := by
        unfold appBindReq; rw [hd]
        simp only [h.ra.out, Bool.false_eq_true, if_false]
        unfold EP.enqFrame EP.enq
        simp [h.ra.out]
      simp only [hr, hd, h.ra.out, Bool.false_eq_true, if_false] at hs
      cases hs
      refine ⟨?_, ?_, ⟨by first | exact h.ra.out | rfl, h.ra.alive, ?_, h.ra.park, h.ra.idle⟩, h.rb, ?_, h.wb, h.oa, h.ob⟩
      · refine (h.d1.ask req fid bt host port hspec.2 hreq).of_eq ?_
        simp [dirOf, Dir.ask, resultsOf, List.filterMap_append, bindIn?]
      · refine h.d2.of_eq ?_
        simp [dirOf, PS.swap, List.filterMap_append, ans?]
      · intro x s hx
        by_cases hxf : x = fid
        · subst hxf; rw [lookup_insert_self] at hx; cases hx; exact ⟨req, rfl⟩
        · rw [lookup_insert_ne _ _ _ _ hxf] at hx; exact h.ra.slots x s hx
      · intro m hm
        simp only [List.mem_append, List.mem_singleton] at hm
        rcases hm with hm | (hm | rfl)
        · exact h.wa m (List.mem_append_left _ hm)
        · exact h.wa m (List.mem_append_right _ hm)
        · rfl

end Penguin.BindPair

namespace Penguin.BindPair
open Penguin.Mux

theorem step_bindReply {oa ob : Opts} {p q : PS} {k : Nat} {acc : Bool} (h : PInv oa ob p)
    (hs : stepL p (.bindReply k acc) = some q) : PInv oa ob q := by
  simp only [stepL] at hs
  cases hk : p.a.held[k]? with
  | none => simp only [hk] at hs; cases hs
  | some b =>
    simp only [hk] at hs
    split at hs
    · cases hs
    · rename_i hg
      have hal : b.alive = true ∧ b.replied = false := by
        cases ha : b.alive <;> cases hr : b.replied <;> simp_all
      have hr : appBindReply p.a k acc =
          ({ p.a with outq := p.a.outq ++ [.frame (if acc then .finish b.fid else .reset b.fid)],
                      held := p.a.held.modify k (fun b => { b with replied := true }) }, .unit) := by
        unfold appBindReply; simp [hk, hal.1, h.ra.out, EP.enqFrame, EP.enq]
      simp only [hr] at hs
      cases hs
      have hp : b.pending = true := by simp [BindIn.pending, hal.1, hal.2]
      refine ⟨?_, ?_, ⟨h.ra.out, h.ra.alive, h.ra.slots, h.ra.park, h.ra.idle⟩, h.rb, ?_, h.wb, h.oa, h.ob⟩
      · refine h.d1.of_eq ?_
        cases acc <;> simp [dirOf, List.filterMap_append, bindIn?]
      · refine (h.d2.decide k b (fun b => { b with replied := true }) acc hk hp (by simp [BindIn.pending]) (fun r => rfl)).of_eq ?_
        cases acc <;> simp [dirOf, PS.swap, Dir.decide, List.filterMap_append, ans?]
      · intro m hm
        simp only [List.mem_append, List.mem_singleton] at hm
        rcases hm with hm | (hm | rfl)
        · exact h.wa m (List.mem_append_left _ hm)
        · exact h.wa m (List.mem_append_right _ hm)
        · cases acc <;> rfl

theorem step_bindDrop {oa ob : Opts} {p q : PS} {k : Nat} (h : PInv oa ob p) (hs : stepL p (.bindDrop k) = some q) : PInv oa ob q := by
  simp only [stepL] at hs
  cases hk : p.a.held[k]? with
  | none => simp only [hk] at hs; cases hs
  | some b =>
    simp only [hk] at hs
    split at hs
    · cases hs
    · rename_i hg
      have hal : b.alive = true := by cases ha : b.alive <;> simp_all
      cases hrep : b.replied with
      | true =>
        have hr : appBindDrop p.a k = ({ p.a with held := p.a.held.modify k (fun b => { b with alive := false }) }, .unit) := by
          unfold appBindDrop; simp [hk, hal, hrep]
        simp only [hr, hrep, if_true] at hs
        cases hs
        have hp : b.pending = false := by simp [BindIn.pending, hrep]
        refine ⟨?_, ?_, ⟨h.ra.out, h.ra.alive, h.ra.slots, h.ra.park, h.ra.idle⟩, h.rb, h.wa, h.wb, h.oa, h.ob⟩
        · exact h.d1
        · exact (h.d2.touch k b (fun b => { b with alive := false }) hk hp (by simp [BindIn.pending]) (fun r => rfl)).of_eq
            (by simp [dirOf, PS.swap, Dir.touch])
      | false =>
        have hr : appBindDrop p.a k =
            ({ p.a with outq := p.a.outq ++ [.frame (.reset b.fid)],
                        held := p.a.held.modify k (fun b => { b with alive := false }) }, .unit) := by
          unfold appBindDrop; simp [hk, hal, hrep, h.ra.out, EP.enqFrame, EP.enq]
        simp only [hr, hrep, Bool.false_eq_true, if_false] at hs
        cases hs
        have hp : b.pending = true := by simp [BindIn.pending, hal, hrep]
        refine ⟨?_, ?_, ⟨h.ra.out, h.ra.alive, h.ra.slots, h.ra.park, h.ra.idle⟩, h.rb, ?_, h.wb, h.oa, h.ob⟩
        · refine h.d1.of_eq ?_
          simp [dirOf, List.filterMap_append, bindIn?]
        · refine (h.d2.decide k b (fun b => { b with alive := false }) false hk hp (by simp [BindIn.pending]) (fun r => rfl)).of_eq ?_
          simp [dirOf, PS.swap, Dir.decide, List.filterMap_append, ans?]
        · intro m hm
          simp only [List.mem_append, List.mem_singleton] at hm
          rcases hm with hm | (hm | rfl)
          · exact h.wa m (List.mem_append_left _ hm)
          · exact h.wa m (List.mem_append_right _ hm)
          · rfl

end Penguin.BindPair

namespace Penguin.BindPair
open Penguin.Mux

theorem Run.erase {e : EP} (h : Run e) (x : Nat) : Run { e with flows := erase e.flows x } := by
  refine ⟨h.out, h.alive, ?_, h.park, h.idle⟩
  intro y s hy
  by_cases hyx : y = x
  · subst hyx; simp only [lookup_erase_self] at hy; cases hy
  · simp only [lookup_erase_ne _ _ _ hyx] at hy; exact h.slots y s hy

theorem mem_tail_append {m : Msg} {rest l : List Msg} {m' : Msg} (h : m' ∈ rest ++ l) : m' ∈ (m :: rest) ++ l := by
  simp only [List.cons_append, List.mem_cons]; exact Or.inr h

theorem fm_ans_bind (x : Nat) (bt : BindType) (port : Nat) (host : Bytes) (l : List Msg) :
    List.filterMap ans? (.frame (.bind x bt port host) :: l) = List.filterMap ans? l := List.filterMap_cons_none rfl
theorem fm_bind_finish (x : Nat) (l : List Msg) :
    List.filterMap bindIn? (.frame (.finish x) :: l) = List.filterMap bindIn? l := List.filterMap_cons_none rfl
theorem fm_bind_reset (x : Nat) (l : List Msg) :
    List.filterMap bindIn? (.frame (.reset x) :: l) = List.filterMap bindIn? l := List.filterMap_cons_none rfl

theorem step_recv {oa ob : Opts} {p q : PS} (h : PInv oa ob p) (hs : stepL p .recv = some q) : PInv oa ob q := by
  simp only [stepL] at hs
  split at hs
  · cases hs
  · rename_i hnp
    have hpark : p.a.park = none := by cases hh : p.a.park <;> simp_all
    cases hba : p.ba with
    | nil => simp [hba] at hs
    | cons m rest =>
      have hbf := h.wb m (by rw [hba]; simp)
      have hwb' : ∀ m' ∈ rest ++ p.b.outq, isBF m' = true := fun m' hm' => h.wb m' (by rw [hba]; exact mem_tail_append hm')
      cases m with
      | frame f =>
        cases f with
        | bind x bt port host =>
          by_cases hc0 : p.a.opts.bindCap = 0
          · have hpf : processFrame p.a (.bind x bt port host) false =
                ({ p.a with outq := p.a.outq ++ [.frame (.reset x)] }, [], none) := by
              unfold processFrame; simp [hc0, EP.enqFrame, EP.enq, h.ra.out]
            simp only [hba, hpf] at hs
            cases hs
            refine ⟨?_, ?_, ⟨h.ra.out, h.ra.alive, h.ra.slots, h.ra.park, h.ra.idle⟩, h.rb, ?_, hwb', h.oa, h.ob⟩
            · refine h.d1.of_eq ?_
              simp [dirOf, hba, List.filterMap_append, bindIn?, fm_ans_bind, resultsOf]
            · refine (h.d2.recvBind (by simp [dirOf, PS.swap, hpark, parkB])).of_eq ?_
              simp [dirOf, PS.swap, Dir.recvBind, hba, List.filterMap_append, bindIn?, ans?, hc0]
            · intro m hm
              simp only [List.mem_append, List.mem_singleton] at hm
              rcases hm with hm | (hm | rfl)
              · exact h.wa m (List.mem_append_left _ hm)
              · exact h.wa m (List.mem_append_right _ hm)
              · rfl
          · by_cases hroom : p.a.bindq.length < p.a.opts.bindCap
            · have hpf : processFrame p.a (.bind x bt port host) false =
                  ({ p.a with bindq := p.a.bindq ++ [{ fid := x, bt := bt, host := host, port := port }] }, [], none) := by
                unfold processFrame; simp [hc0, h.ra.alive, offerBind, hroom]
              simp only [hba, hpf] at hs
              cases hs
              refine ⟨?_, ?_, ⟨h.ra.out, h.ra.alive, h.ra.slots, h.ra.park, h.ra.idle⟩, h.rb, h.wa, hwb', h.oa, h.ob⟩
              · refine h.d1.of_eq ?_
                simp [dirOf, hba, List.filterMap_append, fm_ans_bind, resultsOf]
              · refine (h.d2.recvBind (by simp [dirOf, PS.swap, hpark, parkB])).of_eq ?_
                simp [dirOf, PS.swap, Dir.recvBind, hba, List.filterMap_append, bindIn?, hc0, hroom]
            · have hpf : processFrame p.a (.bind x bt port host) false =
                  ({ p.a with park := some (.bind { fid := x, bt := bt, host := host, port := port }) }, [], none) := by
                unfold processFrame; simp [hc0, h.ra.alive, offerBind, hroom]
              simp only [hba, hpf] at hs
              cases hs
              refine ⟨?_, ?_, ⟨h.ra.out, h.ra.alive, h.ra.slots, by intro i; simp, h.ra.idle⟩, h.rb, h.wa, hwb', h.oa, h.ob⟩
              · refine h.d1.of_eq ?_
                simp [dirOf, hba, List.filterMap_append, fm_ans_bind, resultsOf]
              · refine (h.d2.recvBind (by simp [dirOf, PS.swap, hpark, parkB])).of_eq ?_
                simp [dirOf, PS.swap, Dir.recvBind, hba, List.filterMap_append, bindIn?, hc0, hroom, parkB]
        | finish x =>
          have hmem : (x, true) ∈ (dirOf p).anss := by simp [dirOf, hba, ans?]
          obtain ⟨r, hr⟩ := h.d1.owner_of_mem (Dir.mem_toks_ans hmem)
          have hr' : ownerF p.a.flows x = some r := hr
          have hl := ownerF_lookup hr'
          have hpf : processFrame p.a (.finish x) false =
              ({ p.a with flows := erase p.a.flows x }, [.bindDone r .accepted], none) := by
            unfold processFrame; simp [hl]
          simp only [hba, hpf] at hs
          cases hs
          refine ⟨?_, ?_, h.ra.erase x, h.rb, h.wa, hwb', h.oa, h.ob⟩
          · refine h.d1.recvAns.of_eq ?_
            simp [dirOf, Dir.recvAns, hba, ans?, hr', resultsOf]
          · refine h.d2.of_eq ?_
            simp [dirOf, PS.swap, hba, List.filterMap_append, fm_bind_finish, fm_bind_reset]
        | reset x =>
          have hmem : (x, false) ∈ (dirOf p).anss := by simp [dirOf, hba, ans?]
          obtain ⟨r, hr⟩ := h.d1.owner_of_mem (Dir.mem_toks_ans hmem)
          have hr' : ownerF p.a.flows x = some r := hr
          have hl := ownerF_lookup hr'
          have hpf : processFrame p.a (.reset x) false =
              ({ p.a with flows := erase p.a.flows x }, [.bindDone r .refused], none) := by
            unfold processFrame closeFlow; simp [hl, closeLocal]
          simp only [hba, hpf] at hs
          cases hs
          refine ⟨?_, ?_, h.ra.erase x, h.rb, h.wa, hwb', h.oa, h.ob⟩
          · refine h.d1.recvAns.of_eq ?_
            simp [dirOf, Dir.recvAns, hba, ans?, hr', resultsOf]
          · refine h.d2.of_eq ?_
            simp [dirOf, PS.swap, hba, List.filterMap_append, fm_bind_finish, fm_bind_reset]
        | connect _ _ _ _ => simp [isBF] at hbf
        | acknowledge _ _ => simp [isBF] at hbf
        | push _ _ => simp [isBF] at hbf
        | datagram _ _ _ _ => simp [isBF] at hbf
      | ping => simp [isBF] at hbf
      | pong => simp [isBF] at hbf
      | close => simp [isBF] at hbf

end Penguin.BindPair

namespace Penguin.BindPair
open Penguin.Mux

theorem stepL_inv {oa ob : Opts} {p q : PS} (h : PInv oa ob p) (a : Act) (hs : stepL p a = some q) : PInv oa ob q := by
  cases a with
  | bindReq req bt host port => exact step_bindReq h hs
  | bindNext => exact step_bindNext h hs
  | bindReply k acc => exact step_bindReply h hs
  | bindDrop k => exact step_bindDrop h hs
  | xmit => exact step_xmit h hs
  | recv => exact step_recv h hs
  | unpark => exact step_unpark h hs

theorem step_inv {oa ob : Opts} {p q : PS} (h : PInv oa ob p) (s : Side) (a : Act) (hs : step p s a = some q) : PInv oa ob q := by
  cases s with
  | A => exact stepL_inv h a hs
  | B =>
    simp only [step, Option.map_eq_some_iff] at hs
    obtain ⟨q', hq', rfl⟩ := hs
    exact (stepL_inv h.swap a hq').swap

theorem run_inv {oa ob : Opts} (l : List (Side × Act)) (p : PS) (h : PInv oa ob p) : PInv oa ob (run p l) := by
  induction l generalizing p with
  | nil => exact h
  | cons sa rest ih =>
    obtain ⟨s, a⟩ := sa
    simp only [run]
    cases hs : step p s a with
    | none => simpa using ih p h
    | some q => simpa using ih q (step_inv h s a hs)

/-- Every state two conforming endpoints can reach with bind traffic satisfies the invariant. -/
theorem reachable_inv (oa ob : Opts) (ra rb : List Nat) (l : List (Side × Act)) :
    PInv oa ob (run (init oa ob ra rb) l) :=
  run_inv l _ (init_inv oa ob ra rb)

/-! ### What the invariant says, in the terms of the applications -/

/-- The asked request with number `req`. -/
def Ghost.askedOf (g : Ghost) (req : Nat) : Option Asked := g.asked.find? (·.req == req)

/-- `request_bind` call `req` of side A resolved `true`: side B's application was shown a
    `BindRequest` with exactly the asked type, host and port under the flow id A chose, that
    `BindRequest` is linked to `req` and to no other request, and B's application accepted it
    (and did not also reject or drop it unanswered). -/
theorem accepted_means_peer_accepted {oa ob : Opts} {p : PS} (h : PInv oa ob p) (req : Nat)
    (hr : (req, BindRes.accepted) ∈ p.ga.results) :
    ∃ k b, (req, k) ∈ p.gb.links ∧ p.b.held[k]? = some b ∧ recOf req b ∈ p.ga.asked ∧
           k ∈ p.gb.accepted ∧ k ∉ p.gb.rejected := by
  have := (h.d1.core.res req).1 hr
  unfold AnsOk at this
  simp only [if_true] at this
  obtain ⟨k, hl, hk⟩ := this
  obtain ⟨b, hb, ha⟩ := h.d1.core.lkf req k hl
  exact ⟨k, b, hl, hb, ha, hk, h.d1.core.dec.2.2.1 k hk⟩

/-- … resolved `false`: B does not accept binds at all, or B's application rejected (or dropped
    unanswered) the `BindRequest` linked to `req`, and did not accept it. -/
theorem refused_means_peer_refused {oa ob : Opts} {p : PS} (h : PInv oa ob p) (req : Nat)
    (hr : (req, BindRes.refused) ∈ p.ga.results) :
    ob.bindCap = 0 ∨ ∃ k b, (req, k) ∈ p.gb.links ∧ p.b.held[k]? = some b ∧ recOf req b ∈ p.ga.asked ∧
           k ∈ p.gb.rejected ∧ k ∉ p.gb.accepted := by
  have := (h.d1.core.res req).2 hr
  unfold AnsOk at this
  simp only [Bool.false_eq_true, if_false] at this
  rcases this with h0 | ⟨k, hl, hk⟩
  · left; rw [← h.ob]; exact h0
  · right
    obtain ⟨b, hb, ha⟩ := h.d1.core.lkf req k hl
    exact ⟨k, b, hl, hb, ha, hk, fun hka => h.d1.core.dec.2.2.1 k hka hk⟩

/-- Everything B's application is ever shown is a request A's application made, field for field,
    under the flow id A chose. -/
theorem shown_is_asked {oa ob : Opts} {p : PS} (h : PInv oa ob p) (k : Nat) (b : BindIn)
    (hb : p.b.held[k]? = some b) : ∃ req, (req, k) ∈ p.gb.links ∧ recOf req b ∈ p.ga.asked := by
  have hk : k < p.b.held.length := by
    rcases Nat.lt_or_ge k p.b.held.length with hlt | hge
    · exact hlt
    · rw [List.getElem?_eq_none hge] at hb; cases hb
  obtain ⟨req, hl⟩ := h.d1.core.lka k hk
  obtain ⟨b', hb', ha⟩ := h.d1.core.lkf req k hl
  have : p.b.held[k]? = some b' := hb'
  rw [hb] at this; cases this
  exact ⟨req, hl, ha⟩

/-- The links are one-to-one: a request is shown to the peer application at most once, and a
    `BindRequest` stands for one request. -/
theorem links_one_to_one {oa ob : Opts} {p : PS} (h : PInv oa ob p) :
    (p.gb.links.map (·.1)).Nodup ∧ (p.gb.links.map (·.2)).Nodup :=
  ⟨h.d1.inj.injR, h.d1.inj.injK⟩

/-- A resolved request holds no flow id any more, and nothing about it is left anywhere between the
    endpoints: its id can be drawn again. -/
theorem resolved_id_is_free {oa ob : Opts} {p : PS} (h : PInv oa ob p) (x : Nat)
    (hx : lookup p.a.flows x = none) :
    (.frame (.finish x)) ∉ p.ba ++ p.b.outq ∧ (.frame (.reset x)) ∉ p.ba ++ p.b.outq ∧
    (∀ c ∈ p.b.bindq, c.fid ≠ x) ∧ (∀ (k : Nat) (b : BindIn), p.b.held[k]? = some b → b.pending = true → b.fid ≠ x) := by
  have hno : x ∉ (dirOf p).toks := h.d1.core.not_mem_of_no_owner (ownerF_none_of_lookup hx)
  refine ⟨?_, ?_, ?_, ?_⟩
  · intro hm
    apply hno
    apply Dir.mem_toks_ans (acc := true)
    exact List.mem_filterMap.mpr ⟨_, hm, rfl⟩
  · intro hm
    apply hno
    apply Dir.mem_toks_ans (acc := false)
    exact List.mem_filterMap.mpr ⟨_, hm, rfl⟩
  · intro c hc hcx
    apply hno
    rw [← hcx]
    apply Dir.mem_toks_carrier
    simp only [dirOf, List.mem_append]
    exact Or.inr hc
  · intro k b hb hp hbx
    apply hno
    rw [← hbx]
    exact Dir.mem_toks_held (d := dirOf p) hb hp

end Penguin.BindPair
