/-
Stream integrity on the RECEIVING side, for every history of one endpoint and ANY peer — part 1: the
connection task.

What a stream's reader can ever see is `buf ++ rxq.flatten` of its stream object (`str e i`).  This file
defines, by looking at the state BEFORE a frame is processed, which frames `process_frame` accepts into
which object (`acceptedInto`: a `Push` whose flow id is, at that moment, the id of a slot
`Established i`, whose object still has its `Sender`, an open `Receiver` and room in the bounded queue),
follows the task's run to quiescence with "log" functions that mirror `settleLoop`, `windDown`, … and
list the accepted frames in the order they were processed (`settleLog`), and proves for every function
of the task that the readable bytes of EVERY object grow by exactly the payloads the log attributes to
it, and by nothing else (`RxT`): not by a frame of another flow, not by a frame that arrived while
another object (or none) held the id, not by a datagram, not by anything the wind-down does.
Core Lean only.
-/
import Penguin.Lemmas.MuxReach

namespace Penguin.Mux

/-- A log of byte strings attributed to stream objects (by index into `objs`), oldest first. -/
abbrev Log := List (Nat × Bytes)

/-- The bytes a log attributes to object `i`, in order. -/
def chunks : Log → Nat → Bytes
  | [], _ => []
  | (j, d) :: r, i => if j = i then d ++ chunks r i else chunks r i

@[simp] theorem chunks_nil (i : Nat) : chunks [] i = [] := rfl

theorem chunks_append (a b : Log) (i : Nat) : chunks (a ++ b) i = chunks a i ++ chunks b i := by
  induction a with
  | nil => rfl
  | cons p r ih =>
    obtain ⟨j, d⟩ := p
    simp only [List.cons_append, chunks]
    split
    · rw [ih, List.append_assoc]
    · exact ih

theorem chunks_single_self (i : Nat) (d : Bytes) : chunks [(i, d)] i = d := by simp [chunks]
theorem chunks_single_ne (i j : Nat) (d : Bytes) (h : j ≠ i) : chunks [(j, d)] i = [] := by simp [chunks, h]

/-- What the reader of a stream object can still obtain: the handle's buffer, then the queued frames. -/
def Obj.stream (o : Obj) : Bytes := o.buf ++ o.rxq.flatten

def strO (objs : List Obj) (i : Nat) : Bytes :=
  match objs[i]? with
  | some o => o.stream
  | none => []

/-- The readable bytes of object `i` (nothing if there is no such object). -/
def str (e : EP) (i : Nat) : Bytes := strO e.objs i

/-- Object `i` exists, its `Receiver` is gone or closed (handle dropped, or end-of-stream seen) and
    nothing is queued: nothing will ever be queued again. -/
def shutO (objs : List Obj) (i : Nat) : Prop := ∃ o, objs[i]? = some o ∧ o.rxOpen = false ∧ o.rxq = []

def rxShut (e : EP) (i : Nat) : Prop := shutO e.objs i

/-! ### Which frames are accepted into which object -/

/-- The test `process_frame` makes for a `Push` (task.rs:524-557: `slot.dispatch` = `try_send` on the stream's bounded channel answers `Ok`), read off the state BEFORE the frame is
    processed: the flow id has a slot `Established i`, the object's `Sender` is still in the slot, its
    `Receiver` is open, and the bounded queue has room.  Every other frame, and a `Push` that fails one
    of the tests, is accepted into no object. -/
def acceptedInto (e : EP) (f : Frame) : Log :=
  match f with
  | .push fid d =>
    match lookup e.flows fid with
    | some (.established i) =>
      match e.obj? i with
      | some o => if o.senderAlive && o.rxOpen && decide (o.rxq.length < o.cap) then [(i, d)] else []
      | none => []
    | _ => []
  | _ => []

/-- … for one item read from the transport. -/
def processInLog (e : EP) (w : WsIn) : Log :=
  match w with
  | .msg (.frame f) => acceptedInto e f
  | _ => []

/-! ### The log of the task's run (mirrors of the model's functions; they return only the log) -/

def windDownInboxLog (e : EP) : List WsIn → Log
  | [] => []
  | .err :: _ => []
  | .eof :: _ => []
  | w :: rest => processInLog e w ++ windDownInboxLog { (processIn e w true).1 with park := none } rest

def windDownTailLog (e1 : EP) : Log := windDownInboxLog e1 e1.inbox

def windDownLog (e : EP) (drain : Bool) : Log :=
  if drain then
    if (sendSome (dropPrep e)).1.outq.isEmpty then windDownTailLog (sendSome (dropPrep e)).1 else []
  else windDownTailLog (windDownPrep e)

def drainStepLog (e : EP) : Log :=
  if (sendSome e).1.outq.isEmpty then windDownTailLog { (sendSome e).1 with draining := none } else []

def closingStepLog (e : EP) : Log := windDownInboxLog e e.inbox

def recvOneLog (e : EP) (w : WsIn) (rest : List WsIn) : Log :=
  processInLog { (if w = .eof ∨ w = .err then { e with srcEnded := true } else e) with inbox := rest } w

/-- The case distinction of the task's loop: the receive loop can take an item (it is not parked and
    the inbox is not empty), or not. -/
def recvCase {α : Type} (p : Option Park) (inb : List WsIn) (A : WsIn → List WsIn → α) (B : α) : α :=
  match p, inb with
  | none, w :: rest => A w rest
  | _, _ => B

theorem recvCase_pos {α : Type} {p : Option Park} {inb : List WsIn} {w : WsIn} {rest : List WsIn}
    (A : WsIn → List WsIn → α) (B : α) (hp : p = none) (hi : inb = w :: rest) : recvCase p inb A B = A w rest := by
  subst hp hi; rfl

theorem recvCase_neg {α : Type} {p : Option Park} {inb : List WsIn} (A : WsIn → List WsIn → α) (B : α)
    (h : ∀ w rest, p = none → inb = w :: rest → False) : recvCase p inb A B = B := by
  unfold recvCase
  split
  · exact absurd rfl (fun hh => h _ _ rfl hh)
  · rfl

def settleLoopLog : Nat → EP → Log
  | 0, _ => []
  | fuel + 1, e =>
    if e.dead then [] else
    match e.draining with
    | some _ => drainStepLog e
    | none =>
    match e.closing with
    | some _ => closingStepLog e
    | none =>
    recvCase (unpark e).park (unpark e).inbox
      (fun w rest =>
        match (recvOne (unpark e) w rest).2.2 with
        | some _ => recvOneLog (unpark e) w rest ++ windDownLog (recvOne (unpark e) w rest).1 false
        | none => recvOneLog (unpark e) w rest ++ settleLoopLog fuel (recvOne (unpark e) w rest).1)
      (match (unpark e).droppedq with
        | 0 :: rest => windDownLog { unpark e with droppedq := rest } true
        | fid :: rest => settleLoopLog fuel (closeFlow { unpark e with droppedq := rest } fid false).1
        | [] => [])

/-- The frames accepted into stream objects while the task runs to quiescence after a stimulus, in the
    order they were processed (several inbox items can be processed in one run: the receive loop may
    have been parked; the wind-down reads on). -/
def settleLog (e : EP) : Log := settleLoopLog (2 * e.inbox.length + e.droppedq.length + 2) e

/-! ### The relation every function of the task satisfies -/

/-- From `a` to `b` the readable bytes of every object grew by exactly what `L` attributes to it, and an
    object whose receiver was shut stays shut and got nothing. -/
structure RxO (a b : List Obj) (L : Log) : Prop where
  str : ∀ i, strO b i = strO a i ++ chunks L i
  shut : ∀ i, shutO a i → shutO b i ∧ chunks L i = []

def RxT (e e' : EP) (L : Log) : Prop := RxO e.objs e'.objs L

theorem RxT.same {e e' : EP} (h : e'.objs = e.objs) : RxT e e' [] := by
  unfold RxT; rw [h]
  exact ⟨fun i => by simp, fun i hs => ⟨hs, rfl⟩⟩

theorem RxT.refl (e : EP) : RxT e e [] := RxT.same rfl

theorem RxT.trans {a b c : EP} {L1 L2 : Log} (s : RxT a b L1) (t : RxT b c L2) : RxT a c (L1 ++ L2) :=
  ⟨fun i => by rw [t.str i, s.str i, chunks_append, List.append_assoc],
   fun i h => by
    obtain ⟨h1, c1⟩ := s.shut i h
    obtain ⟨h2, c2⟩ := t.shut i h1
    exact ⟨h2, by rw [chunks_append, c1, c2]; rfl⟩⟩

theorem RxT.after {a b c : EP} {L1 L2 : Log} (t : RxT b c L2) (s : RxT a b L1) : RxT a c (L1 ++ L2) := s.trans t

theorem RxT.log {e e' : EP} {L L' : Log} (s : RxT e e' L) (h : L' = L) : RxT e e' L' := h ▸ s

theorem RxT.congr {e e' a a' : EP} {L : Log} (s : RxT e e' L) (h1 : a.objs = e.objs) (h2 : a'.objs = e'.objs) :
    RxT a a' L := by
  unfold RxT at *; rw [h1, h2]; exact s

/-- Silent step followed by … -/
theorem RxT.trans0 {a b c : EP} {L : Log} (s : RxT a b []) (t : RxT b c L) : RxT a c L := (s.trans t).log rfl
theorem RxT.trans1 {a b c : EP} {L : Log} (s : RxT a b L) (t : RxT b c []) : RxT a c L :=
  (s.trans t).log (by simp)

/-- A state that differs from `e` in other fields than `objs`. -/
macro "rx_same" : tactic => `(tactic| exact RxT.same rfl)

theorem strO_modify_self (objs : List Obj) (i : Nat) (f : Obj → Obj) (o : Obj) (h : objs[i]? = some o) :
    strO (objs.modify i f) i = (f o).stream := by
  simp [strO, h]

theorem strO_modify_ne (objs : List Obj) (i j : Nat) (f : Obj → Obj) (h : i ≠ j) :
    strO (objs.modify i f) j = strO objs j := by
  simp [strO, h]

/-- An object update that keeps the readable bytes and does not reopen the receiver. -/
theorem RxT.modObj (e : EP) (i : Nat) (f : Obj → Obj)
    (hf : ∀ o : Obj, e.objs[i]? = some o →
      (f o).stream = o.stream ∧ (o.rxOpen = false → o.rxq = [] → (f o).rxOpen = false ∧ (f o).rxq = [])) :
    RxT e (e.modObj i f) [] := by
  refine ⟨fun j => ?_, fun j hs => ⟨?_, rfl⟩⟩
  · simp only [EP.modObj, setObj, chunks_nil, List.append_nil]
    by_cases hij : i = j
    · subst hij
      cases ho : e.objs[i]? with
      | none => simp [strO, ho]
      | some o => rw [strO_modify_self _ _ _ _ ho]; simp only [strO, ho]; exact (hf o ho).1
    · exact strO_modify_ne _ _ _ _ hij
  · obtain ⟨o, ho, hc, hq⟩ := hs
    simp only [EP.modObj, setObj, shutO, List.getElem?_modify]
    by_cases hij : i = j
    · subst hij; exact ⟨f o, by simp [ho], (hf o ho).2 hc hq⟩
    · exact ⟨o, by simp [hij, ho], hc, hq⟩

/-- Side condition of an object update that touches neither `buf`, `rxq` nor `rxOpen`, or closes the receiver. -/
macro "rx_side" : tactic =>
  `(tactic| (intro o _; first
    | exact ⟨rfl, fun h1 h2 => ⟨h1, h2⟩⟩
    | exact ⟨rfl, fun _ h2 => ⟨rfl, h2⟩⟩
    | (simp only [Obj.disallowWrite, Obj.wake, Obj.stream]; split <;> exact ⟨rfl, fun h1 h2 => ⟨h1, h2⟩⟩)))

theorem RxT.enq (e : EP) (m : Msg) : RxT e (e.enq m) [] := by
  unfold EP.enq; split
  · exact RxT.refl e
  · rx_same
theorem RxT.enqFrame (e : EP) (f : Frame) : RxT e (e.enqFrame f) [] := RxT.enq e _
theorem RxT.enqFrame' {e e' : EP} (f : Frame) (h : e'.objs = e.objs) : RxT e (e'.enqFrame f) [] :=
  (RxT.enqFrame e' f).congr h.symm rfl

/-- A new object with nothing buffered is appended. -/
theorem RxT.newStream (e : EP) (fl : List (Nat × Slot)) (o : Obj) (hb : o.buf = []) (hq : o.rxq = []) :
    RxT e { e with objs := e.objs ++ [o], flows := fl } [] := by
  refine ⟨fun j => ?_, fun j hs => ⟨?_, rfl⟩⟩
  · simp only [chunks_nil, List.append_nil, strO]
    by_cases hj : j < e.objs.length
    · rw [List.getElem?_append_left hj]
    · have hn : e.objs[j]? = none := List.getElem?_eq_none (by omega)
      rw [hn]
      by_cases hj2 : j = e.objs.length
      · subst hj2; simp [Obj.stream, hb, hq]
      · have : (e.objs ++ [o])[j]? = none := List.getElem?_eq_none (by simp; omega)
        rw [this]
  · obtain ⟨o', ho', hc⟩ := hs
    have hj : j < e.objs.length := (List.getElem?_eq_some_iff.mp ho').1
    exact ⟨o', by simp only; rw [List.getElem?_append_left hj]; exact ho', hc⟩

/-- The one place where bytes enter a stream: a frame is appended to the queue of an object whose
    receiver is open. -/
theorem RxT.push (e : EP) (i : Nat) (o : Obj) (d : Bytes) (ho : e.objs[i]? = some o) (hopen : o.rxOpen = true) :
    RxT e (e.modObj i (fun o => { o with rxq := o.rxq ++ [d] })) [(i, d)] := by
  refine ⟨fun j => ?_, fun j hs => ?_⟩
  · simp only [EP.modObj, setObj]
    by_cases hij : i = j
    · subst hij
      rw [strO_modify_self _ _ _ _ ho, chunks_single_self]
      simp [strO, ho, Obj.stream]
    · rw [strO_modify_ne _ _ _ _ hij, chunks_single_ne _ _ _ hij, List.append_nil]
  · obtain ⟨o', ho', hc, hq⟩ := hs
    by_cases hij : i = j
    · subst hij; rw [ho] at ho'; cases ho'; rw [hopen] at hc; cases hc
    · exact ⟨⟨o', by simp [EP.modObj, setObj, hij, ho'], hc, hq⟩, chunks_single_ne _ _ _ hij⟩

/-! ### Function by function -/

theorem RxT.openRound (e : EP) (r : OpenReq) : RxT e (openRound e r).1 [] := by
  unfold Mux.openRound
  split
  · rx_same
  · split
    · rx_same
    · simp only
      split
      · rx_same
      · exact RxT.enqFrame' _ rfl

theorem RxT.openRejected (e : EP) (req : Nat) (final : Bool) : RxT e (openRejected e req final).1 [] := by
  unfold Mux.openRejected
  repeat' split
  all_goals rx_same

theorem RxT.closeLocal (e : EP) (s : Slot) (fid : Nat) (inh final : Bool) : RxT e (closeLocal e s fid inh final).1 [] := by
  unfold Mux.closeLocal
  cases s with
  | established i =>
    simp only
    cases ho : e.obj? i with
    | none => exact RxT.refl e
    | some o =>
      simp only
      have g := RxT.modObj e i (fun o => { o.disallowWrite with senderAlive := false }) (by rx_side)
      split
      · exact g.trans0 (RxT.enqFrame _ _)
      · exact g
  | requested req => exact RxT.openRejected e req final
  | bindRequested req => exact RxT.refl e

theorem RxT.closeFlow (e : EP) (fid : Nat) (inh : Bool) : RxT e (closeFlow e fid inh).1 [] := by
  unfold Mux.closeFlow
  split
  · exact RxT.refl e
  · exact (RxT.closeLocal { e with flows := erase e.flows fid } _ _ _ _).congr rfl rfl

theorem RxT.offerAccept (e : EP) (i : Nat) : RxT e (offerAccept e i) [] := by
  unfold Mux.offerAccept; split <;> rx_same

theorem RxT.offerBind (e : EP) (b : BindIn) : RxT e (offerBind e b) [] := by
  unfold Mux.offerBind; split <;> rx_same

theorem acceptedInto_not_push (e : EP) (f : Frame) (h : ∀ fid d, f ≠ .push fid d) : acceptedInto e f = [] := by
  cases f <;> first | rfl | exact absurd rfl (h _ _)

theorem RxT.processFrame (e : EP) (f : Frame) (ig : Bool) : RxT e (processFrame e f ig).1 (acceptedInto e f) := by
  cases f with
  | connect fid rwnd port host =>
    simp only [Mux.processFrame, acceptedInto]
    split
    · exact RxT.enqFrame _ _
    · have g := RxT.newStream e (insert e.flows fid (.established e.objs.length)) (newObj e.opts fid rwnd host port) rfl rfl
      split
      · exact g
      · split
        · exact ((g.trans0 (RxT.enqFrame _ (.acknowledge fid e.opts.rwnd))).trans0
            (RxT.modObj _ e.objs.length (fun o => { o with rxOpen := false }) (by rx_side))).trans0 (RxT.same rfl)
        · exact (g.trans0 (RxT.enqFrame _ _)).trans0 (RxT.offerAccept _ _)
  | acknowledge fid n =>
    simp only [Mux.processFrame, acceptedInto]
    split
    · exact RxT.modObj _ _ _ (by rx_side)
    · have g := RxT.newStream e (insert e.flows fid (.established e.objs.length)) (newObj e.opts fid n [] 0) rfl rfl
      split
      · exact g.trans0 (RxT.same rfl)
      · exact (g.trans0 (RxT.modObj _ e.objs.length (fun o => { o with rxOpen := false }) (by rx_side))).trans0 (RxT.same rfl)
    · exact RxT.enqFrame _ _
    · exact RxT.enqFrame _ _
  | finish fid =>
    simp only [Mux.processFrame, acceptedInto]
    split
    · exact RxT.enqFrame _ _
    · rx_same
    · exact RxT.enqFrame' _ rfl
    · exact RxT.modObj _ _ _ (by rx_side)
  | reset fid =>
    simp only [Mux.processFrame, acceptedInto]
    exact RxT.closeFlow e fid true
  | push fid d =>
    simp only [Mux.processFrame, acceptedInto]
    cases hl : lookup e.flows fid with
    | none => exact RxT.enqFrame _ _
    | some s =>
      cases s with
      | requested r => exact RxT.enqFrame _ _
      | bindRequested r => exact RxT.enqFrame _ _
      | established i =>
        simp only
        cases ho : e.obj? i with
        | none => exact RxT.refl e
        | some o =>
          simp only
          by_cases h1 : o.senderAlive = true
          · by_cases h2 : o.rxOpen = true
            · by_cases h3 : o.rxq.length < o.cap
              · simp only [h1, h2, h3, Bool.not_true, Bool.false_eq_true, if_false, if_true, Bool.and_self, decide_true]
                exact RxT.push e i o d ho h2
              · simp only [h1, h2, h3, Bool.not_true, Bool.false_eq_true, if_false, Bool.and_false, decide_false,
                  Bool.and_true]
                exact RxT.closeFlow e fid false
            · simp only [Bool.not_eq_true] at h2
              simp only [h1, h2, Bool.not_true, Bool.not_false, Bool.false_eq_true, if_false, if_true, Bool.and_false,
                Bool.false_and]
              exact RxT.refl e
          · simp only [Bool.not_eq_true] at h1
            simp only [h1, Bool.not_false, if_true, Bool.false_and, Bool.false_eq_true, if_false]
            exact RxT.enqFrame _ _
  | bind fid bt port host =>
    simp only [Mux.processFrame, acceptedInto]
    repeat' split
    all_goals first | exact RxT.refl e | exact RxT.enqFrame _ _ | exact RxT.offerBind _ _
  | datagram fid port host d =>
    simp only [Mux.processFrame, acceptedInto]
    repeat' split
    all_goals first | exact RxT.refl e | rx_same

theorem RxT.processIn (e : EP) (w : WsIn) (ig : Bool) : RxT e (processIn e w ig).1 (processInLog e w) := by
  cases w with
  | msg m => cases m <;> first | exact RxT.processFrame _ _ ig | exact RxT.refl e
  | bad b => exact RxT.refl e
  | err => exact RxT.refl e
  | eof => exact RxT.refl e

/-! ### Wind-down -/

theorem RxT.disallowAll (e : EP) (l : List (Nat × Slot)) : RxT e (disallowAll e l) [] := by
  induction l generalizing e with
  | nil => exact RxT.refl e
  | cons p l ih =>
    obtain ⟨fid, s⟩ := p
    cases s with
    | established i =>
      simp only [Mux.disallowAll]
      exact (RxT.modObj e i _ (by rx_side)).trans0 (ih _)
    | requested r => simp only [Mux.disallowAll]; exact ih e
    | bindRequested r => simp only [Mux.disallowAll]; exact ih e

theorem RxT.windDownInbox (e : EP) (l : List WsIn) : RxT e (windDownInbox e l).1 (windDownInboxLog e l) := by
  induction l generalizing e with
  | nil => exact RxT.refl e
  | cons w l ih =>
    cases w with
    | err => exact RxT.refl e
    | eof => exact RxT.refl e
    | msg m =>
      simp only [Mux.windDownInbox, windDownInboxLog]
      exact (ih _).after ((RxT.processIn e (.msg m) true).trans1 (RxT.same rfl))
    | bad b =>
      simp only [Mux.windDownInbox, windDownInboxLog]
      exact (ih _).after ((RxT.processIn e (.bad b) true).trans1 (RxT.same rfl))

theorem RxT.drainFlows (e : EP) (l : List (Nat × Slot)) : RxT e (drainFlows e l).1 [] := by
  induction l generalizing e with
  | nil => exact RxT.refl e
  | cons p l ih =>
    obtain ⟨fid, s⟩ := p
    simp only [Mux.drainFlows]
    exact (RxT.closeLocal e s fid true true).trans0 (ih _)

theorem RxT.windDownFinish (e : EP) (res : ExitRes) : RxT e (windDownFinish e res).1 [] := by
  have g1 := (RxT.drainFlows { e with flows := [] } e.flows).congr (a := e) rfl rfl
  simp only [Mux.windDownFinish]
  exact g1.congr rfl rfl

theorem RxT.windDownTail (e1 : EP) (flushed : List Ev) (srcEnded : Bool) (res : ExitRes) :
    RxT e1 (windDownTail e1 flushed srcEnded res).1 (windDownTailLog e1) := by
  have g := (RxT.windDownInbox e1 e1.inbox).trans1
    (RxT.same rfl : RxT (Mux.windDownInbox e1 e1.inbox).1 { (Mux.windDownInbox e1 e1.inbox).1 with inbox := [] } [])
  simp only [Mux.windDownTail, windDownTailLog]
  split
  · exact g.trans1 (RxT.windDownFinish _ res)
  · exact g.trans1 (RxT.same rfl)

theorem RxT.sendSome (e : EP) : RxT e (sendSome e).1 [] := by
  unfold Mux.sendSome
  split <;> rx_same

theorem RxT.dropPrep (e : EP) : RxT e (dropPrep e) [] :=
  (RxT.disallowAll e e.flows).trans0 (RxT.same rfl)

theorem RxT.windDownPrep (e : EP) : RxT e (windDownPrep e) [] :=
  (RxT.disallowAll e e.flows).trans0 (RxT.same rfl)

theorem RxT.windDown (e : EP) (drain : Bool) (res : ExitRes) : RxT e (windDown e drain res).1 (windDownLog e drain) := by
  simp only [Mux.windDown, windDownLog]
  split
  · have g := (RxT.dropPrep e).trans0 (RxT.sendSome _)
    split
    · exact g.trans0 (RxT.windDownTail _ _ _ _)
    · exact g.trans0 (RxT.same rfl)
  · exact (RxT.windDownPrep e).trans0 (RxT.windDownTail _ _ _ _)

/-! ### The task's loops -/

theorem RxT.unpark (e : EP) : RxT e (unpark e) [] := by
  unfold Mux.unpark
  split
  · exact RxT.refl e
  · split
    · split
      · exact (RxT.modObj e _ (fun o => { o with rxOpen := false }) (by rx_side)).trans0 (RxT.same rfl)
      · rx_same
    · split
      · rx_same
      · exact RxT.refl e
  · split
    · exact (RxT.same rfl : RxT e { e with park := none } []).trans0 (RxT.enqFrame _ _)
    · split
      · rx_same
      · exact RxT.refl e

theorem RxT.drainStep (e : EP) (res : ExitRes) : RxT e (drainStep e res).1 (drainStepLog e) := by
  simp only [Mux.drainStep, drainStepLog]
  split
  · exact ((RxT.sendSome e).trans0
      (RxT.same rfl : RxT (Mux.sendSome e).1 { (Mux.sendSome e).1 with draining := none } [])).trans0 (RxT.windDownTail _ _ _ _)
  · exact RxT.sendSome e

theorem RxT.closingStep (e : EP) (res : ExitRes) : RxT e (closingStep e res).1 (closingStepLog e) := by
  have g := (RxT.windDownInbox e e.inbox).trans1
    (RxT.same rfl : RxT (Mux.windDownInbox e e.inbox).1 { (Mux.windDownInbox e e.inbox).1 with inbox := [] } [])
  simp only [Mux.closingStep, closingStepLog]
  split
  · exact g.trans1 (RxT.windDownFinish _ res)
  · exact g

theorem RxT.recvOne (e : EP) (w : WsIn) (rest : List WsIn) : RxT e (recvOne e w rest).1 (recvOneLog e w rest) := by
  simp only [Mux.recvOne, recvOneLog]
  refine (RxT.processIn _ _ _).congr ?_ rfl
  split <;> rfl

theorem RxT.settleLoop (fuel : Nat) (e : EP) (acc : List Ev) : RxT e (settleLoop fuel e acc).1 (settleLoopLog fuel e) := by
  induction fuel generalizing e acc with
  | zero => exact RxT.refl e
  | succ n ih =>
    unfold Mux.settleLoop settleLoopLog
    split
    · exact RxT.refl e
    · split
      · rename_i res hdr
        simp only [hdr]
        exact RxT.drainStep _ _
      · rename_i hdr
        simp only [hdr]
        split
        · rename_i res hcl
          simp only [hcl]
          exact RxT.closingStep _ _
        · rename_i hcl
          simp only [hcl]
          have gu := RxT.unpark e
          split
          · rename_i w rest hp hi
            rw [recvCase_pos _ _ hp hi]
            have gp := gu.trans0 (RxT.recvOne (Mux.unpark e) w rest)
            split
            · rename_i r hr
              simp only [hr]
              exact gp.trans (RxT.windDown _ _ _)
            · rename_i hr
              simp only [hr]
              exact gp.trans (ih _ _)
          · rename_i hneg
            rw [recvCase_neg _ _ hneg]
            split
            · rename_i rest hq
              simp only [hq]
              exact gu.trans0 ((RxT.windDown { Mux.unpark e with droppedq := rest } true .ok).congr rfl rfl)
            · rename_i fid rest h0 hq
              simp only [hq]
              exact (gu.trans0 ((RxT.closeFlow { Mux.unpark e with droppedq := rest } fid false).congr rfl rfl)).trans0 (ih _ _)
            · rename_i hq
              simp only [hq]
              exact gu

theorem RxT.runRetries (e : EP) (l : List Nat) : RxT e (runRetries e l).1 [] := by
  induction l generalizing e with
  | nil => exact RxT.refl e
  | cons req rest ih =>
    unfold Mux.runRetries
    split
    · exact ih e
    · rename_i r _
      exact (RxT.openRound e r).trans0 (ih _)

theorem RxT.runDone (e : EP) (l : List (Nat × Nat)) : RxT e (runDone e l).1 [] := by
  induction l generalizing e with
  | nil => exact RxT.refl e
  | cons x rest ih =>
    obtain ⟨req, i⟩ := x
    unfold Mux.runDone
    exact (RxT.same rfl : RxT e { e with handles := e.handles ++ [i] } []).trans0 (ih _)

theorem RxT.hold (e : EP) (c : Bool) : RxT e (if c then (e, ([] : List Ev)) else Mux.sendSome e).1 [] := by
  split
  · exact RxT.refl e
  · exact RxT.sendSome e

/-- The task's run to quiescence: the readable bytes of every object grow by exactly the payloads of
    the frames accepted into it, in the order they were processed. -/
theorem RxT.settle (e : EP) : RxT e (settle e).1 (settleLog e) := by
  have h1 := RxT.settleLoop (2 * e.inbox.length + e.droppedq.length + 2) e []
  unfold Mux.settle
  unfold settleLog
  generalize Mux.settleLoop (2 * e.inbox.length + e.droppedq.length + 2) e [] = r1 at h1
  obtain ⟨e1, evs1⟩ := r1
  simp only
  have s1 := RxT.hold e1 (e1.dead || e1.draining.isSome)
  generalize (if (e1.dead || e1.draining.isSome) = true then (e1, ([] : List Ev)) else Mux.sendSome e1) = r2 at s1
  obtain ⟨e2, w2⟩ := r2
  simp only at s1 ⊢
  have s2 : RxT e2 (Mux.runDone { e2 with doneq := [] } (e2.doneq.foldr insertDone [])).1 [] :=
    (RxT.same rfl : RxT e2 { e2 with doneq := [] } []).trans0 (RxT.runDone _ _)
  generalize Mux.runDone { e2 with doneq := [] } (e2.doneq.foldr insertDone []) = r3 at s2
  obtain ⟨e3, w3⟩ := r3
  simp only at s2 ⊢
  have s3 : RxT e3 (Mux.runRetries { e3 with retryq := [] } (sortNat e3.retryq)).1 [] :=
    (RxT.same rfl : RxT e3 { e3 with retryq := [] } []).trans0 (RxT.runRetries _ _)
  generalize Mux.runRetries { e3 with retryq := [] } (sortNat e3.retryq) = r4 at s3
  obtain ⟨e4, w4⟩ := r4
  simp only at s3 ⊢
  have s4 := RxT.hold e4 (e4.dead || e4.draining.isSome)
  exact h1.trans1 (((s1.trans0 s2).trans0 s3).trans0 s4)

end Penguin.Mux
