/-
`Sim` (see `Lemmas/PairAllView.lean`) — building blocks, and the frame-processing functions of the
endpoint model: `closeFlow`, `openRound`, `processFrame`, `processIn`.
Core Lean only.
-/
import Penguin.Lemmas.PairAllView

namespace Penguin.PairAll
open Penguin.Mux

variable {x j : Nat}

/-! ### Building blocks -/

theorem countP_modify_fid (objs : List Obj) (i : Nat) (f : Obj → Obj) (x : Nat) (hf : ∀ o, (f o).fid = o.fid) :
    (objs.modify i f).countP (fun o => o.fid == x) = objs.countP (fun o => o.fid == x) := by
  induction objs generalizing i with
  | nil => simp
  | cons o r ih =>
    cases i with
    | zero => simp [List.modify_cons, List.countP_cons, hf]
    | succ n => simp [List.countP_cons, ih n]

/-- A message is queued. -/
theorem Sim.enq {l : List WsIn} (e : EP) (m : Msg) (h1 : isConn x m = false)
    (h2 : isAck x m = true ∨ isPush x m = true → 0 < e.objs.countP (fun o => o.fid == x)) :
    Sim x j l e l (e.enq m) [] [] := by
  unfold EP.enq
  split
  · exact Sim.refl l e
  · rename_i hc
    exact Sim.one (AStep.enq (view x j e l) m (by simpa [view] using hc) h1 h2) rfl rfl rfl

/-- A frame that is neither `Connect x`, `Acknowledge x` nor `Push x` is queued. -/
theorem Sim.enqOther {l : List WsIn} (e : EP) (m : Msg) (h1 : isConn x m = false) (h2 : isAck x m = false)
    (h3 : isPush x m = false) : Sim x j l e l (e.enq m) [] [] :=
  Sim.enq e m h1 (by intro h; rcases h with h | h <;> simp_all)

theorem Sim.enqFrame {l : List WsIn} (e : EP) (f : Frame) (h1 : isConn x (.frame f) = false)
    (h2 : isAck x (.frame f) = false) (h3 : isPush x (.frame f) = false) : Sim x j l e l (e.enqFrame f) [] [] :=
  Sim.enqOther e _ h1 h2 h3

theorem canAcc_modObj (e : EP) (i : Nat) (f : Obj → Obj)
    (hm : ∀ o, ((f o).senderAlive && (f o).rxOpen) = true → (o.senderAlive && o.rxOpen) = true) :
    canAcc x j (e.modObj i f) = true → canAcc x j e = true := by
  unfold canAcc canAccF
  simp only [EP.modObj, setObj, List.getElem?_modify]
  cases lookup e.flows x with
  | none => simp
  | some s =>
    cases s with
    | requested r => simp
    | bindRequested r => simp
    | established k =>
      simp only
      by_cases hij : i = j
      · subst hij
        cases e.objs[i]? with
        | none => simp
        | some o =>
          simp only [if_true, Bool.and_eq_true, beq_iff_eq]
          intro h
          exact ⟨h.1, by simpa using hm o (by simpa using h.2)⟩
      · simp [hij]

/-- An object update that keeps the id and does not re-open a direction. -/
theorem Sim.modObj {l : List WsIn} (e : EP) (i : Nat) (f : Obj → Obj) (hf : ∀ o, (f o).fid = o.fid)
    (hm : ∀ o, ((f o).senderAlive && (f o).rxOpen) = true → (o.senderAlive && o.rxOpen) = true) :
    Sim x j l e l (e.modObj i f) [] [] := by
  refine Sim.one (AStep.degrade (view x j e l) (lookup e.flows x) (canAcc x j (e.modObj i f)) (Or.inl rfl)
    (fun h => ⟨canAcc_modObj e i f hm h, rfl⟩)) ?_ rfl rfl
  simp [view, EP.modObj, setObj, countP_modify_fid _ _ _ _ hf]

/-- Side condition of `Sim.modObj` for an update that touches neither `fid`, `senderAlive` nor `rxOpen`, or
    only closes a direction. -/
macro "sim_side" : tactic =>
  `(tactic| first
    | (intro o; rfl)
    | (intro o; simp only [Obj.disallowWrite, Obj.wake]; split <;> rfl)
    | (intro o h; exact h)
    | (intro o h; simp only [Obj.disallowWrite, Obj.wake] at h ⊢; split at h <;> simp_all)
    | (intro o h; simp_all))

theorem canAcc_flows_eq (e : EP) (fl : List (Nat × Slot)) (h : lookup fl x = lookup e.flows x) :
    canAcc x j { e with flows := fl } = canAcc x j e := by
  unfold canAcc canAccF; simp only [h]

/-- The flow table changes; the slot of `x` stays or is released. -/
theorem Sim.flows {l : List WsIn} (e : EP) (fl : List (Nat × Slot))
    (h : lookup fl x = lookup e.flows x ∨ lookup fl x = none) : Sim x j l e l { e with flows := fl } [] [] := by
  refine Sim.one (AStep.degrade (view x j e l) (lookup fl x) (canAcc x j { e with flows := fl }) h ?_) rfl rfl rfl
  intro hc
  rcases h with h | h
  · exact ⟨by rw [canAcc_flows_eq e fl h] at hc; exact hc, h⟩
  · simp [canAcc, canAccF, h] at hc

theorem Sim.erase {l : List WsIn} (e : EP) (fid : Nat) : Sim x j l e l { e with flows := Mux.erase e.flows fid } [] [] := by
  refine Sim.flows e _ ?_
  by_cases h : x = fid
  · subst h; exact Or.inr (lookup_erase_self _ _)
  · exact Or.inl (lookup_erase_ne _ _ _ h)

/-- A state that differs from `e` in fields the view does not look at. -/
macro "sim_same" : tactic => `(tactic| exact Sim.same rfl rfl rfl)

/-! ### Drawing an id -/

theorem drawScript_count (flows : List (Nat × Slot)) (s : List Nat) (k : Nat) (rest : List Nat)
    (h : drawScript flows s = some (k, rest)) (x : Nat) :
    rest.count x ≤ s.count x ∧ (k = x → rest.count x < s.count x) := by
  induction s with
  | nil => simp [drawScript] at h
  | cons a r ih =>
    unfold drawScript at h
    split at h
    · simp only [Option.some.injEq, Prod.mk.injEq] at h
      obtain ⟨rfl, rfl⟩ := h
      refine ⟨by simp [List.count_cons], fun hk => ?_⟩
      subst hk; simp
    · obtain ⟨h1, h2⟩ := ih h
      refine ⟨by simp only [List.count_cons]; omega, fun hk => ?_⟩
      have := h2 hk
      simp only [List.count_cons]; omega

theorem drawId_count (flows : List (Nat × Slot)) (s : List Nat) (fb fuel k : Nat) (rest : List Nat) (fb' : Nat)
    (h : drawId flows s fb fuel = some (k, rest, fb')) (x : Nat) :
    rest.count x ≤ s.count x ∧ (s.isEmpty = true → rest.isEmpty = true) ∧
      (k = x → rest.count x < s.count x ∨ rest.isEmpty = true) := by
  unfold drawId at h
  split at h
  · rename_i k' rest' hs
    simp only [Option.some.injEq, Prod.mk.injEq] at h
    obtain ⟨rfl, rfl, rfl⟩ := h
    obtain ⟨h1, h2⟩ := drawScript_count flows s _ _ hs x
    refine ⟨h1, fun he => ?_, fun hk => Or.inl (h2 hk)⟩
    cases s with
    | nil => simp [drawScript] at hs
    | cons a r => simp at he
  · simp only [Option.map_eq_some_iff] at h
    obtain ⟨r, _, hr⟩ := h
    simp only [Prod.mk.injEq] at hr
    obtain ⟨_, rfl, _⟩ := hr
    exact ⟨by simp, fun _ => rfl, fun _ => Or.inr rfl⟩

end Penguin.PairAll
