/-
`Sim` (see `Lemmas/PairAllView.lean`) — building blocks, and the frame-processing functions of the
endpoint model: `closeFlow`, `openRound`, `processFrame`, `processIn`.
Core Lean only.
-/
import Penguin.Lemmas.PairAllView

namespace Penguin.PairAll
open Penguin.Mux

variable {x j : Nat}

/-! ### Building blocks -/

theorem countP_modify_fid (objs : List Obj) (i : Nat) (f : Obj → Obj) (x : Nat) (hf : ∀ o, (f o).fid = o.fid) :
    (objs.modify i f).countP (fun o => o.fid == x) = objs.countP (fun o => o.fid == x) := by
  induction objs generalizing i with
  | nil => simp
  | cons o r ih =>
    cases i with
    | zero => simp [List.modify_cons, List.countP_cons, hf]
    | succ n => simp [List.countP_cons, ih n]

theorem countP_modify_nw (objs : List Obj) (i : Nat) (f : Obj → Obj) (x : Nat) (hf : ∀ o, (f o).fid = o.fid)
    (hs : ∀ o, (f o).finishSent = false → o.finishSent = false) :
    (objs.modify i f).countP (fun o => o.fid == x && !o.finishSent) ≤ objs.countP (fun o => o.fid == x && !o.finishSent) := by
  induction objs generalizing i with
  | nil => simp
  | cons o r ih =>
    cases i with
    | zero =>
      have e1 : (o :: r).modify 0 f = f o :: r := by simp
      rw [e1, List.countP_cons, List.countP_cons]
      have : (((f o).fid == x && !(f o).finishSent) = true) → ((o.fid == x && !o.finishSent) = true) := by
        intro h
        simp only [Bool.and_eq_true, Bool.not_eq_true', hf] at h ⊢
        exact ⟨h.1, hs o h.2⟩
      by_cases h1 : ((f o).fid == x && !(f o).finishSent) = true
      · rw [if_pos h1, if_pos (this h1)]; omega
      · rw [if_neg h1]; split <;> omega
    | succ n =>
      have e1 : (o :: r).modify (n+1) f = o :: r.modify n f := by simp
      rw [e1, List.countP_cons, List.countP_cons]
      have := ih n
      omega

/-- A message is queued that is neither `Connect x`, `Push x`, `Finish x` nor `Bind x`. -/
theorem Sim.enq {l : List WsIn} (e : EP) (m : Msg) (h1 : isConn x m = false) (h3 : isPush x m = false)
    (h4 : isFin x m = false) (h5 : isBind x m = false)
    (h2 : isAck x m = true → 0 < e.objs.countP (fun o => o.fid == x)) :
    Sim x j l e l (e.enq m) [] [] := by
  unfold EP.enq
  split
  · exact Sim.refl l e
  · rename_i hc
    exact Sim.one (AStep.enq (view x j e l) m (by simpa [view] using hc) h1 h3 h4 h5 h2) rfl rfl rfl

/-- A frame that is neither `Connect x`, `Acknowledge x`, `Push x`, `Finish x` nor `Bind x` is queued. -/
theorem Sim.enqOther {l : List WsIn} (e : EP) (m : Msg) (h1 : isConn x m = false) (h2 : isAck x m = false)
    (h3 : isPush x m = false) (h4 : isFin x m = false := by rfl) (h5 : isBind x m = false := by rfl) :
    Sim x j l e l (e.enq m) [] [] :=
  Sim.enq e m h1 h3 h4 h5 (by intro h; rw [h2] at h; cases h)

theorem Sim.enqFrame {l : List WsIn} (e : EP) (f : Frame) (h1 : isConn x (.frame f) = false)
    (h2 : isAck x (.frame f) = false) (h3 : isPush x (.frame f) = false) (h4 : isFin x (.frame f) = false := by rfl)
    (h5 : isBind x (.frame f) = false := by rfl) : Sim x j l e l (e.enqFrame f) [] [] :=
  Sim.enqOther e _ h1 h2 h3 h4 h5

theorem canAcc_modObj (e : EP) (i : Nat) (f : Obj → Obj)
    (hm : ∀ o, ((f o).senderAlive && (f o).rxOpen) = true → (o.senderAlive && o.rxOpen) = true) :
    canAcc x j (e.modObj i f) = true → canAcc x j e = true := by
  unfold canAcc canAccF
  simp only [EP.modObj, setObj, List.getElem?_modify]
  cases lookup e.flows x with
  | none => simp
  | some s =>
    cases s with
    | requested r => simp
    | bindRequested r => simp
    | established k =>
      simp only
      by_cases hij : i = j
      · subst hij
        cases e.objs[i]? with
        | none => simp
        | some o =>
          simp only [if_true, Bool.and_eq_true, beq_iff_eq]
          intro h
          exact ⟨h.1, by simpa using hm o (by simpa using h.2)⟩
      · simp [hij]

theorem rxOpenJ_modify (objs : List Obj) (i : Nat) (f : Obj → Obj) (hr : ∀ o, (f o).rxOpen = true → o.rxOpen = true) :
    rxOpenJ j (objs.modify i f) = true → rxOpenJ j objs = true := by
  unfold rxOpenJ
  simp only [List.getElem?_modify]
  by_cases hij : i = j
  · subst hij
    cases objs[i]? with
    | none => simp
    | some o => simpa using hr o
  · simp [hij]

/-- `canJ` survives an object update that keeps object `j`'s `Sender` as long as its `Receiver` stays open. -/
theorem canAcc_modObj_keep (e : EP) (i : Nat) (f : Obj → Obj)
    (hk : canAcc x j e = true → i = j → ∀ o, e.objs[j]? = some o → (f o).rxOpen = true → (f o).senderAlive = true) :
    canAcc x j e = true → rxOpenJ j (e.modObj i f).objs = true → canAcc x j (e.modObj i f) = true := by
  intro hc hr
  have hk' := hk hc
  unfold canAcc canAccF rxOpenJ at *
  simp only [EP.modObj, setObj, List.getElem?_modify] at hr ⊢
  cases hl : lookup e.flows x with
  | none => rw [hl] at hc; simp at hc
  | some s =>
    rw [hl] at hc
    cases s with
    | requested r => simp at hc
    | bindRequested r => simp at hc
    | established k =>
      simp only at hc ⊢
      by_cases hij : i = j
      · subst hij
        cases ho : e.objs[i]? with
        | none => rw [ho] at hc; simp at hc
        | some o =>
          rw [ho] at hc hr
          simp only [if_true, Bool.and_eq_true, beq_iff_eq] at hc hr ⊢
          simp only [Option.map_eq_map, Option.map_some] at hr ⊢
          simp only [Bool.and_eq_true]
          exact ⟨hc.1, hk' rfl o ho hr, hr⟩
      · simpa [hij] using hc

/-- An object update that keeps the id, re-opens nothing, and takes object `j`'s `Sender` away only together
    with its `Receiver` (or while `j` is not accepting). -/
theorem Sim.modObjG {l : List WsIn} (e : EP) (i : Nat) (f : Obj → Obj) (hf : ∀ o, (f o).fid = o.fid)
    (hm : ∀ o, ((f o).senderAlive = true → o.senderAlive = true) ∧ ((f o).rxOpen = true → o.rxOpen = true) ∧
      ((f o).finishSent = false → o.finishSent = false))
    (hk : canAcc x j e = true → i = j → ∀ o, e.objs[j]? = some o → (f o).rxOpen = true → (f o).senderAlive = true) :
    Sim x j l e l (e.modObj i f) [] [] := by
  have hm' : ∀ o, ((f o).senderAlive && (f o).rxOpen) = true → (o.senderAlive && o.rxOpen) = true := by
    intro o h
    simp only [Bool.and_eq_true] at h ⊢
    exact ⟨(hm o).1 h.1, (hm o).2.1 h.2⟩
  refine Sim.one (AStep.degrade (view x j e l) (lookup e.flows x) (canAcc x j (e.modObj i f))
    ((e.modObj i f).objs.countP (fun o => o.fid == x && !o.finishSent)) (bindHeld x e) (rxOpenJ j (e.modObj i f).objs)
    (Or.inl rfl) (fun h => ⟨canAcc_modObj e i f hm' h, rfl⟩)
    (fun hc _ hr => canAcc_modObj_keep e i f hk hc hr)
    (countP_modify_nw _ _ _ _ hf (fun o => (hm o).2.2)) (fun h => h)
    (rxOpenJ_modify _ _ _ (fun o => (hm o).2.1))) ?_ rfl rfl
  simp [view, EP.modObj, setObj, countP_modify_fid _ _ _ _ hf, bindHeld]

/-- An object update that keeps the id and the `Sender`, and re-opens nothing. -/
theorem Sim.modObj {l : List WsIn} (e : EP) (i : Nat) (f : Obj → Obj) (hf : ∀ o, (f o).fid = o.fid)
    (hm : ∀ o, (f o).senderAlive = o.senderAlive ∧ ((f o).rxOpen = true → o.rxOpen = true) ∧
      ((f o).finishSent = false → o.finishSent = false)) :
    Sim x j l e l (e.modObj i f) [] [] := by
  refine Sim.modObjG e i f hf (fun o => ⟨fun h => (hm o).1 ▸ h, (hm o).2⟩) ?_
  intro hc hij o ho _
  subst hij
  rw [(hm o).1]
  unfold canAcc canAccF at hc
  cases hl : lookup e.flows x with
  | none => rw [hl] at hc; simp at hc
  | some s =>
    rw [hl] at hc
    cases s with
    | requested r => simp at hc
    | bindRequested r => simp at hc
    | established k =>
      simp only [ho, Bool.and_eq_true] at hc
      exact hc.2.1

/-- Side conditions of `Sim.modObj` for the usual updates. -/
macro "sim_side" : tactic =>
  `(tactic| first
    | (intro o; rfl)
    | (intro o; simp only [Obj.disallowWrite, Obj.wake]; split <;> rfl)
    | (intro o; exact ⟨rfl, fun h => h, fun h => h⟩)
    | (intro o; refine ⟨?_, ?_, ?_⟩ <;> simp only [Obj.disallowWrite, Obj.wake] <;> (try split) <;> simp_all)
    | (intro o h; simp_all))

theorem canAcc_flows_eq (e : EP) (fl : List (Nat × Slot)) (h : lookup fl x = lookup e.flows x) :
    canAcc x j { e with flows := fl } = canAcc x j e := by
  unfold canAcc canAccF; simp only [h]

/-- The flow table changes; the slot of `x` stays or is released. -/
theorem Sim.flows {l : List WsIn} (e : EP) (fl : List (Nat × Slot))
    (h : lookup fl x = lookup e.flows x ∨ lookup fl x = none) : Sim x j l e l { e with flows := fl } [] [] := by
  refine Sim.one (AStep.degrade (view x j e l) (lookup fl x) (canAcc x j { e with flows := fl })
    (e.objs.countP (fun o => o.fid == x && !o.finishSent)) (bindHeld x e) (rxOpenJ j e.objs) h ?_ ?_
    (Nat.le_refl _) (fun h => h) (fun h => h)) rfl rfl rfl
  · intro hc
    rcases h with h | h
    · exact ⟨by rw [canAcc_flows_eq e fl h] at hc; exact hc, h⟩
    · simp [canAcc, canAccF, h] at hc
  · intro hc hs _
    rw [canAcc_flows_eq e fl hs]; exact hc

theorem Sim.erase {l : List WsIn} (e : EP) (fid : Nat) : Sim x j l e l { e with flows := Mux.erase e.flows fid } [] [] := by
  refine Sim.flows e _ ?_
  by_cases h : x = fid
  · subst h; exact Or.inr (lookup_erase_self _ _)
  · exact Or.inl (lookup_erase_ne _ _ _ h)

/-- A state that differs from `e` in fields the view does not look at. -/
macro "sim_same" : tactic => `(tactic| exact Sim.same rfl rfl rfl)

/-! ### Drawing an id -/

theorem drawScript_count (flows : List (Nat × Slot)) (s : List Nat) (k : Nat) (rest : List Nat)
    (h : drawScript flows s = some (k, rest)) (x : Nat) :
    rest.count x ≤ s.count x ∧ (k = x → rest.count x < s.count x) := by
  induction s with
  | nil => simp [drawScript] at h
  | cons a r ih =>
    unfold drawScript at h
    split at h
    · simp only [Option.some.injEq, Prod.mk.injEq] at h
      obtain ⟨rfl, rfl⟩ := h
      refine ⟨by simp [List.count_cons], fun hk => ?_⟩
      subst hk; simp
    · obtain ⟨h1, h2⟩ := ih h
      refine ⟨by simp only [List.count_cons]; omega, fun hk => ?_⟩
      have := h2 hk
      simp only [List.count_cons]; omega

theorem drawId_count (flows : List (Nat × Slot)) (s : List Nat) (fb fuel k : Nat) (rest : List Nat) (fb' : Nat)
    (h : drawId flows s fb fuel = some (k, rest, fb')) (x : Nat) :
    rest.count x ≤ s.count x ∧ (s.isEmpty = true → rest.isEmpty = true) ∧
      (k = x → rest.count x < s.count x ∨ rest.isEmpty = true) := by
  unfold drawId at h
  split at h
  · rename_i k' rest' hs
    simp only [Option.some.injEq, Prod.mk.injEq] at h
    obtain ⟨rfl, rfl, rfl⟩ := h
    obtain ⟨h1, h2⟩ := drawScript_count flows s _ _ hs x
    refine ⟨h1, fun he => ?_, fun hk => Or.inl (h2 hk)⟩
    cases s with
    | nil => simp [drawScript] at hs
    | cons a r => simp at he
  · simp only [Option.map_eq_some_iff] at h
    obtain ⟨r, _, hr⟩ := h
    simp only [Prod.mk.injEq] at hr
    obtain ⟨_, rfl, _⟩ := hr
    exact ⟨by simp, fun _ => rfl, fun _ => Or.inr rfl⟩

end Penguin.PairAll
