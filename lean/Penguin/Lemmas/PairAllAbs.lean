/-
The pair of VIEWS (`Lemmas/PairAllView.lean`) of two endpoints with respect to one flow id `x`, joined by
the two wires, and its small steps: one `AStep` of either side (what it sends goes onto its wire), a
delivery, a delivered Close, a cut.  Everything here is about plain lists and records; the endpoint model
does not occur.  `Lemmas/PairAllInv.lean` proves the invariant on these small steps.
Core Lean only.
-/
import Penguin.Lemmas.PairAllView

namespace Penguin.PairAll
open Penguin.Mux

/-! ### Predicates on message lists -/

def hasConn (x : Nat) (l : List Msg) : Bool := l.any (isConn x)
def hasAck (x : Nat) (l : List Msg) : Bool := l.any (isAck x)
def hasPush (x : Nat) (l : List Msg) : Bool := l.any (isPush x)
def connCount (x : Nat) (l : List Msg) : Nat := l.countP (isConn x)

/-- No `Connect x`, `Acknowledge x`, `Push x`. -/
def clean (x : Nat) (l : List Msg) : Bool := l.all (fun m => !isConn x m && !isAck x m && !isPush x m)

/-- No `Acknowledge x`, `Push x`. -/
def noAP (x : Nat) (l : List Msg) : Bool := l.all (fun m => !isAck x m && !isPush x m)

/-- The first `Acknowledge x` / `Push x` of the list, if any, is an `Acknowledge`. -/
def guarded (x : Nat) : List Msg → Bool
  | [] => true
  | m :: r => if isAck x m then true else if isPush x m then false else guarded x r

theorem guarded_append (x : Nat) (l r : List Msg) :
    guarded x (l ++ r) = if hasAck x l || hasPush x l then guarded x l else guarded x r := by
  induction l with
  | nil => simp [hasAck, hasPush]
  | cons m l ih =>
    simp only [List.cons_append, guarded, hasAck, hasPush, List.any_cons] at ih ⊢
    by_cases h1 : isAck x m = true
    · simp [h1]
    · by_cases h2 : isPush x m = true
      · simp [h1, h2]
      · simp only [h1, h2, Bool.false_or, if_false, Bool.false_eq_true]
        exact ih

theorem pX_cons_other (x : Nat) (m : Msg) (r : List Msg) (h : isPush x m = false) : pX x (m :: r) = pX x r := by
  cases m with
  | frame f =>
    cases f <;> try rfl
    rename_i fid d
    simp only [isPush, beq_eq_false_iff_ne, ne_eq] at h
    simp [pX, h]
  | ping => rfl
  | pong => rfl
  | close => rfl

theorem pX_cons_push (x : Nat) (d : Bytes) (r : List Msg) : pX x (.frame (.push x d) :: r) = d :: pX x r := by
  simp [pX]

theorem pX_single_other (x : Nat) (m : Msg) (h : isPush x m = false) : pX x [m] = [] := pX_cons_other x m [] h

theorem pX_of_noPush (x : Nat) (l : List Msg) (h : hasPush x l = false) : pX x l = [] := by
  induction l with
  | nil => rfl
  | cons m r ih =>
    simp only [hasPush, List.any_cons, Bool.or_eq_false_iff] at h
    rw [pX_cons_other x m r h.1]
    exact ih (by simpa [hasPush] using h.2)

theorem isPush_push (x : Nat) (d : Bytes) : isPush x (.frame (.push x d)) = true := by simp [isPush]
theorem isAck_push (x y : Nat) (d : Bytes) : isAck x (.frame (.push y d)) = false := rfl
theorem isConn_push (x y : Nat) (d : Bytes) : isConn x (.frame (.push y d)) = false := rfl
theorem isAck_ack (x n : Nat) : isAck x (.frame (.acknowledge x n)) = true := by simp [isAck]
theorem isPush_ack (x y n : Nat) : isPush x (.frame (.acknowledge y n)) = false := rfl
theorem isConn_ack (x y n : Nat) : isConn x (.frame (.acknowledge y n)) = false := rfl

/-- The three kinds exclude each other. -/
theorem isConn_not_ack {x : Nat} {m : Msg} (h : isConn x m = true) : isAck x m = false := by
  cases m with
  | frame f => cases f <;> first | rfl | (simp [isConn] at h)
  | _ => rfl
theorem isConn_not_push {x : Nat} {m : Msg} (h : isConn x m = true) : isPush x m = false := by
  cases m with
  | frame f => cases f <;> first | rfl | (simp [isConn] at h)
  | _ => rfl
theorem isAck_not_push {x : Nat} {m : Msg} (h : isAck x m = true) : isPush x m = false := by
  cases m with
  | frame f => cases f <;> first | rfl | (simp [isAck] at h)
  | _ => rfl
theorem isAck_not_conn {x : Nat} {m : Msg} (h : isAck x m = true) : isConn x m = false := by
  cases m with
  | frame f => cases f <;> first | rfl | (simp [isAck] at h)
  | _ => rfl

/-! ### The pair of views -/

/-- The source has ended or failed, or will as soon as the inbox is read: later deliveries are ignored. -/
def deaf (v : View) : Bool := v.srcEnded || v.inbox.any isEnd

/-- Two views and the wires between them. -/
structure PC where
  a : View
  b : View
  ab : List Msg
  ba : List Msg
  abOpen : Bool
  baOpen : Bool

def PC.swap (c : PC) : PC :=
  { a := c.b, b := c.a, ab := c.ba, ba := c.ab, abOpen := c.baOpen, baOpen := c.abOpen }

@[simp] theorem PC.swap_swap (c : PC) : c.swap.swap = c := rfl

/-- A small step in which the LEFT view acts or receives: labelled with what it sends and what is accepted
    into its object `j`. -/
inductive CStepL (x j : Nat) : PC → PC → List Msg → List Bytes → List XL → Prop
  | act (c : PC) (v : View) (ws : List Msg) (acc : List Bytes) (xl : List XL) (h : AStep x j c.a v ws acc xl) :
      CStepL x j c { c with a := v, ab := if c.abOpen then c.ab ++ ws else c.ab } ws acc xl
  | dlv (c : PC) (m : Msg) (rest : List Msg) (h : c.ba = m :: rest) (hm : m ≠ .close) :
      CStepL x j c { c with ba := rest,
                            a := { c.a with inbox := if deaf c.a then c.a.inbox else c.a.inbox ++ [.msg m] } } [] [] []
  | dlvClose (c : PC) (rest : List Msg) (h : c.ba = .close :: rest) :
      CStepL x j c { c with ba := [], baOpen := false,
                            a := { c.a with inbox := if deaf c.a then c.a.inbox else c.a.inbox ++ [.msg .close, .eof] } } [] [] []
  | cut (c : PC) (w : WsIn) (hw : isEnd w = true) :
      CStepL x j c { c with ba := [], baOpen := false,
                            a := { c.a with inbox := if deaf c.a then c.a.inbox else c.a.inbox ++ [w] } } [] [] []

/-- The messages on their way from the left to the right endpoint, oldest first: delivered and not yet
    processed, on the wire, queued at the sender. -/
def PC.path (c : PC) : List Msg := inMsgs c.b.inbox ++ c.ab ++ c.a.outq

/-- … those that can still arrive. -/
def PC.live (c : PC) : List Msg := inMsgs c.b.inbox ++ c.ab ++ (if c.abOpen then c.a.outq else [])

end Penguin.PairAll
