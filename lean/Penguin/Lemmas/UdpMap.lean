/-
Lemmas about the association lists and the invariant of the client's two UDP maps.
-/
import Penguin.Model.UdpMap

namespace Penguin.UdpMap
open Penguin.Constants

section alist
variable {κ ν : Type} [DecidableEq κ]

def keys (l : List (κ × ν)) : List κ := l.map (·.1)

theorem get_some_mem {l : List (κ × ν)} {k : κ} {v : ν} (h : get l k = some v) : (k, v) ∈ l := by
  induction l with
  | nil => simp [get] at h
  | cons p rest ih =>
    obtain ⟨k', v'⟩ := p
    unfold get at h
    split at h
    · rename_i hk
      cases h; subst hk; exact List.mem_cons_self
    · exact List.mem_cons_of_mem _ (ih h)

theorem get_none_not_mem {l : List (κ × ν)} {k : κ} (h : get l k = none) : k ∉ keys l := by
  induction l with
  | nil => simp [keys]
  | cons p rest ih =>
    obtain ⟨k', v'⟩ := p
    unfold get at h
    split at h
    · cases h
    · rename_i hk
      simp only [keys, List.map_cons, List.mem_cons, not_or]
      exact ⟨fun e => hk e.symm, ih h⟩

theorem mem_keys_of_mem {l : List (κ × ν)} {k : κ} {v : ν} (h : (k, v) ∈ l) : k ∈ keys l :=
  List.mem_map.mpr ⟨(k, v), h, rfl⟩

theorem mem_get_of_nodup {l : List (κ × ν)} (hn : (keys l).Nodup) {k : κ} {v : ν} (h : (k, v) ∈ l) :
    get l k = some v := by
  induction l with
  | nil => cases h
  | cons p rest ih =>
    obtain ⟨k', v'⟩ := p
    simp only [keys, List.map_cons, List.nodup_cons] at hn
    unfold get
    rcases List.mem_cons.mp h with h | h
    · cases h; simp
    · split
      · rename_i hk
        subst hk
        exact absurd (mem_keys_of_mem h) hn.1
      · exact ih hn.2 h

theorem get_isSome_of_mem {l : List (κ × ν)} {k : κ} {v : ν} (h : (k, v) ∈ l) : (get l k).isSome = true := by
  cases hg : get l k with
  | some _ => rfl
  | none => exact absurd (mem_keys_of_mem h) (get_none_not_mem hg)

theorem mem_unique {l : List (κ × ν)} (hn : (keys l).Nodup) {k : κ} {v w : ν}
    (h1 : (k, v) ∈ l) (h2 : (k, w) ∈ l) : v = w := by
  have a := mem_get_of_nodup hn h1
  have b := mem_get_of_nodup hn h2
  rw [a] at b; cases b; rfl

theorem mem_del {l : List (κ × ν)} {k : κ} {p : κ × ν} : p ∈ del l k ↔ p ∈ l ∧ p.1 ≠ k := by
  simp [del]

theorem mem_put {l : List (κ × ν)} {k : κ} {v : ν} {p : κ × ν} :
    p ∈ put l k v ↔ p = (k, v) ∨ (p ∈ l ∧ p.1 ≠ k) := by
  simp [put, mem_del]

theorem keys_filter_sublist (l : List (κ × ν)) (f : κ × ν → Bool) : (keys (l.filter f)).Sublist (keys l) :=
  (List.filter_sublist (l := l)).map _

theorem nodup_filter {l : List (κ × ν)} (hn : (keys l).Nodup) (f : κ × ν → Bool) : (keys (l.filter f)).Nodup :=
  hn.sublist (keys_filter_sublist l f)

theorem nodup_del {l : List (κ × ν)} (hn : (keys l).Nodup) (k : κ) : (keys (del l k)).Nodup :=
  nodup_filter hn _

theorem nodup_put {l : List (κ × ν)} (hn : (keys l).Nodup) (k : κ) (v : ν) : (keys (put l k v)).Nodup := by
  simp only [put, keys, List.map_cons, List.nodup_cons]
  refine ⟨?_, nodup_del hn k⟩
  intro h
  obtain ⟨p, hp, hk⟩ := List.mem_map.mp h
  exact (mem_del.mp hp).2 hk

theorem get_put (l : List (κ × ν)) (k k' : κ) (v : ν) :
    get (put l k v) k' = if k = k' then some v else get (del l k) k' := by
  simp [put, get]

theorem get_del (l : List (κ × ν)) (k k' : κ) :
    get (del l k) k' = if k = k' then none else get l k' := by
  induction l with
  | nil => simp [del, get]
  | cons p rest ih =>
    obtain ⟨a, b⟩ := p
    simp only [del, List.filter_cons] at ih ⊢
    by_cases hak : a = k
    · subst hak
      simp only [decide_true, Bool.not_true, Bool.false_eq_true, if_false]
      rw [ih]
      by_cases h : a = k'
      · simp [h]
      · simp [h, get]
    · simp only [hak, decide_false, Bool.not_false, if_true]
      unfold get
      by_cases h : a = k'
      · subst h; simp [Ne.symm hak]
      · simp only [h, if_false]; exact ih

theorem get_put_self (l : List (κ × ν)) (k : κ) (v : ν) : get (put l k v) k = some v := by
  simp [get_put]

theorem get_put_other (l : List (κ × ν)) {k k' : κ} (v : ν) (h : k ≠ k') : get (put l k v) k' = get l k' := by
  simp [get_put, get_del, h]

end alist

/-! ### The invariant of the two maps -/

structure Inv (m : Maps) : Prop where
  /-- each id occurs once; each tuple occurs once -/
  kid : (keys m.idMap).Nodup
  kaddr : (keys m.addrMap).Nodup
  /-- the two maps are inverse to each other -/
  fwd : ∀ cid e, (cid, e) ∈ m.idMap → (e.tuple, cid) ∈ m.addrMap
  bwd : ∀ t cid, (t, cid) ∈ m.addrMap → ∃ e, (cid, e) ∈ m.idMap ∧ e.tuple = t
  /-- with the non-zero key generator, 0 (the stdio sentinel) is never a client id -/
  nz : udpClientIdNonzero = true → ∀ cid e, (cid, e) ∈ m.idMap → cid ≠ 0

theorem init_inv (now : Nat) : Inv { now := now } :=
  ⟨(by simp [keys]), (by simp [keys]), (by intro _ _ h; cases h), (by intro _ _ h; cases h),
   (by intro _ _ _ h; cases h)⟩

theorem nextKey_spec {idMap : List (Nat × Entry)} {nz : Bool} {rng : List Nat} {cid : Nat}
    (h : nextKey idMap nz rng = some cid) : get idMap cid = none ∧ (nz = true → cid ≠ 0) ∧ cid ∈ rng := by
  induction rng with
  | nil => simp [nextKey] at h
  | cons k rest ih =>
    unfold nextKey at h
    split at h
    · obtain ⟨a, b, c⟩ := ih h
      exact ⟨a, b, List.mem_cons_of_mem _ c⟩
    · rename_i hc
      have hk : k = cid := Option.some.inj h
      subst hk
      simp only [Bool.or_eq_true, Bool.and_eq_true, decide_eq_true_eq, not_or, not_and] at hc
      refine ⟨?_, ?_, List.mem_cons_self⟩
      · cases hg : get idMap k with
        | none => rfl
        | some _ => simp [hg] at hc
      · intro hz; exact hc.1 hz

theorem refresh_tuple (e : Entry) (now : Nat) : (refresh e now).tuple = e.tuple := rfl

/-- Replacing an entry by its refreshed self keeps the invariant (`add` on an existing tuple, `reply`). -/
theorem refresh_inv {m : Maps} (h : Inv m) {cid : Nat} {e : Entry} (he : (cid, e) ∈ m.idMap) :
    Inv { m with idMap := put m.idMap cid (refresh e m.now) } := by
  refine ⟨nodup_put h.kid _ _, h.kaddr, ?_, ?_, ?_⟩
  · intro c e' hm
    rcases mem_put.mp hm with hm | ⟨hm, _⟩
    · cases hm; exact h.fwd cid e he
    · exact h.fwd _ _ hm
  · intro t c hm
    obtain ⟨e0, h0, ht⟩ := h.bwd t c hm
    by_cases hc : c = cid
    · subst hc
      have : e0 = e := mem_unique h.kid h0 he
      subst this
      exact ⟨refresh e0 m.now, mem_put.mpr (Or.inl rfl), ht⟩
    · exact ⟨e0, mem_put.mpr (Or.inr ⟨h0, hc⟩), ht⟩
  · intro hz c e' hm
    rcases mem_put.mp hm with hm | ⟨hm, _⟩
    · cases hm; exact h.nz hz _ _ he
    · exact h.nz hz _ _ hm

theorem add_inv (m : Maps) (h : Inv m) (peer our : Addr) (sock : SockId) (s5 : Bool) (rng : List Nat) :
    Inv (add m peer our sock s5 rng).1 := by
  unfold add
  split
  · rename_i cid hg
    have hmem := get_some_mem hg
    obtain ⟨e, he, _⟩ := h.bwd _ _ hmem
    rw [mem_get_of_nodup h.kid he]
    exact refresh_inv h he
  · rename_i hg
    split
    · exact h
    · rename_i cid hk
      obtain ⟨hfree, hnz, _⟩ := nextKey_spec hk
      have hcid : cid ∉ keys m.idMap := get_none_not_mem hfree
      have htup : (peer, our) ∉ keys m.addrMap := get_none_not_mem hg
      refine ⟨nodup_put h.kid _ _, nodup_put h.kaddr _ _, ?_, ?_, ?_⟩
      · intro c e' hm
        rcases mem_put.mp hm with hm | ⟨hm, _⟩
        · cases hm; exact mem_put.mpr (Or.inl rfl)
        · have := h.fwd _ _ hm
          refine mem_put.mpr (Or.inr ⟨this, ?_⟩)
          intro heq
          exact htup (heq ▸ mem_keys_of_mem this)
      · intro t c hm
        rcases mem_put.mp hm with hm | ⟨hm, hne⟩
        · cases hm
          exact ⟨_, mem_put.mpr (Or.inl rfl), rfl⟩
        · obtain ⟨e0, h0, ht⟩ := h.bwd _ _ hm
          refine ⟨e0, mem_put.mpr (Or.inr ⟨h0, ?_⟩), ht⟩
          intro heq
          exact hcid (heq ▸ mem_keys_of_mem h0)
      · intro hz c e' hm
        rcases mem_put.mp hm with hm | ⟨hm, _⟩
        · cases hm; exact hnz hz
        · exact h.nz hz _ _ hm

theorem reply_inv (m : Maps) (h : Inv m) (cid : Nat) : Inv (reply m cid).1 := by
  unfold reply
  split
  · exact h
  · split
    · exact h
    · rename_i e hg
      exact refresh_inv h (get_some_mem hg)

/-! ### Pruning -/

def alive (now : Nat) (p : Nat × Entry) : Bool := decide (p.2.expires > now)

/-- the tuple `t` belongs to an expired entry of `l` -/
def deadTuple (now : Nat) (l : List (Nat × Entry)) (t : Addr × Addr) : Bool :=
  l.any (fun p => !alive now p && decide (p.2.tuple = t))

theorem pruneGo_spec (now : Nat) (l : List (Nat × Entry)) (am : List ((Addr × Addr) × Nat))
    (hd : l.Pairwise (fun p q => p.2.tuple ≠ q.2.tuple))
    (hp : ∀ p ∈ l, (get am p.2.tuple).isSome = true) :
    pruneGo now l am = some (l.filter (alive now), am.filter (fun q => !deadTuple now l q.1)) := by
  induction l generalizing am with
  | nil =>
    simp only [pruneGo, deadTuple, List.any_nil, Bool.not_false, List.filter_nil]
    rw [List.filter_eq_self.mpr (fun _ _ => rfl)]
  | cons p rest ih =>
    obtain ⟨cid, e⟩ := p
    rw [List.pairwise_cons] at hd
    have hp' : ∀ p ∈ rest, (get am p.2.tuple).isSome = true := fun p hm => hp p (List.mem_cons_of_mem _ hm)
    unfold pruneGo
    by_cases hal : e.expires > now
    · simp only [hal, if_true]
      rw [ih am hd.2 hp']
      have h1 : alive now (cid, e) = true := by simp [alive, hal]
      simp [List.filter_cons, h1, deadTuple, List.any_cons]
    · simp only [hal, if_false]
      have hsome := hp (cid, e) List.mem_cons_self
      cases hg : get am e.tuple with
      | none => simp [hg] at hsome
      | some _ =>
        simp only
        have hp2 : ∀ p ∈ rest, (get (del am e.tuple) p.2.tuple).isSome = true := by
          intro p hm
          rw [get_del]
          have hne : e.tuple ≠ p.2.tuple := hd.1 p hm
          simp [hne, hp' p hm]
        rw [ih (del am e.tuple) hd.2 hp2]
        have h1 : alive now (cid, e) = false := by simp [alive, hal]
        simp only [List.filter_cons, h1, Bool.false_eq_true, if_false, del, List.filter_filter]
        congr 2
        apply List.filter_congr
        intro q _
        simp only [deadTuple, List.any_cons, h1, Bool.not_false, Bool.true_and, Bool.not_or]
        by_cases hq : e.tuple = q.1
        · simp [hq]
        · have : ¬ q.1 = e.tuple := fun x => hq x.symm
          simp [hq, this, Bool.and_comm]

theorem tuples_distinct {m : Maps} (h : Inv m) : m.idMap.Pairwise (fun p q => p.2.tuple ≠ q.2.tuple) := by
  have hk : m.idMap.Pairwise (fun p q => p.1 ≠ q.1) := by
    have := h.kid
    simp only [keys, List.Nodup, List.pairwise_map] at this
    exact this
  refine hk.imp_of_mem ?_
  intro p q hp hq hne heq
  obtain ⟨c1, e1⟩ := p
  obtain ⟨c2, e2⟩ := q
  have a := h.fwd _ _ hp
  have b := h.fwd _ _ hq
  simp only at heq
  rw [heq] at a
  have := mem_unique h.kaddr a b
  exact hne this

theorem prune_eq (m : Maps) (h : Inv m) :
    prune m = ({ m with idMap := m.idMap.filter (alive m.now),
                        addrMap := m.addrMap.filter (fun q => !deadTuple m.now m.idMap q.1) },
               .pruned ((m.idMap.filter (fun p => !alive m.now p)).map (·.1))) := by
  unfold prune
  rw [pruneGo_spec m.now m.idMap m.addrMap (tuples_distinct h)
    (fun p hp => get_isSome_of_mem (h.fwd p.1 p.2 hp))]
  rfl

theorem deadTuple_iff {now : Nat} {l : List (Nat × Entry)} {t : Addr × Addr} :
    deadTuple now l t = true ↔ ∃ p ∈ l, alive now p = false ∧ p.2.tuple = t := by
  simp [deadTuple, List.any_eq_true]

theorem prune_inv (m : Maps) (h : Inv m) : Inv (prune m).1 := by
  rw [prune_eq m h]
  refine ⟨nodup_filter h.kid _, nodup_filter h.kaddr _, ?_, ?_, ?_⟩
  · intro cid e hm
    simp only [List.mem_filter] at hm ⊢
    refine ⟨h.fwd _ _ hm.1, ?_⟩
    simp only [Bool.not_eq_true']
    cases hdead : deadTuple m.now m.idMap e.tuple with
    | false => rfl
    | true =>
      obtain ⟨p, hp, hpd, hpt⟩ := deadTuple_iff.mp hdead
      obtain ⟨c2, e2⟩ := p
      have a := h.fwd _ _ hp
      simp only at hpt
      rw [hpt] at a
      have hc : c2 = cid := mem_unique h.kaddr a (h.fwd _ _ hm.1)
      subst hc
      have he : e2 = e := mem_unique h.kid hp hm.1
      subst he
      rw [hm.2] at hpd; cases hpd
  · intro t cid hm
    simp only [List.mem_filter, Bool.not_eq_true'] at hm
    obtain ⟨e0, h0, ht⟩ := h.bwd _ _ hm.1
    refine ⟨e0, ?_, ht⟩
    simp only [List.mem_filter]
    refine ⟨h0, ?_⟩
    cases hal : alive m.now (cid, e0) with
    | true => rfl
    | false =>
      have : deadTuple m.now m.idMap t = true := deadTuple_iff.mpr ⟨(cid, e0), h0, hal, ht⟩
      rw [this] at hm; cases hm.2
  · intro hz cid e hm
    exact h.nz hz _ _ (List.mem_filter.mp hm).1

theorem step_inv (m : Maps) (op : Op) (h : Inv m) : Inv (step m op).1 := by
  cases op with
  | add p o s f rng => exact add_inv m h p o s f rng
  | reply cid => exact reply_inv m h cid
  | prune => exact prune_inv m h
  | tick dt => exact ⟨h.kid, h.kaddr, h.fwd, h.bwd, h.nz⟩

theorem run_inv (m : Maps) (ops : List Op) (h : Inv m) : Inv (run m ops) := by
  induction ops generalizing m with
  | nil => exact h
  | cons op rest ih => exact ih _ (step_inv m op h)

end Penguin.UdpMap
