/-
The ORDER layer of the invariant of the pair of bind views: the answers (`Finish x` / `Reset x`) that can
still reach the side that asked with `x` (`BC.live`: its inbox, then — while the wire is open — the wire and
the peer's outbound queue) form a FIFO sequence that only loses suffixes; so, if the FIRST recorded reply on
the `BindRequest` of `x` is `reply(true)` and the slot of `x` is still pending, the first answer on that live
path is a `Finish` (`Ord`).  Hence a request refused by a `Reset` was rejected FIRST (`Glob4`).
Core Lean only.
-/
import Penguin.Lemmas.BindAllInv3
import Penguin.Lemmas.BindAllFacts4

namespace Penguin.BindAll
open Penguin.Mux
open Penguin.PairAll (inMsgs inMsgs_append)

/-- What can still reach the left side, oldest first. -/
def BC.live (c : BC) : List Msg := inMsgs c.a.inbox ++ (if c.baOpen then c.ba ++ c.b.outq else [])

/-- Nothing new can enter the live path to the left side. -/
def frozen (c : BC) : Prop := c.baOpen = false ∨ c.b.outClosed = true

/-- The first answer for `x` on the live path to the left side is a `Finish`; or there is none and none can come. -/
def OrdOK (x : Nat) (c : BC) : Prop :=
  (ans x c.live).head? = some true ∨ (ans x c.live = [] ∧ frozen c)

structure Wires (c : BC) : Prop where
  ba : c.baOpen = false → c.ba = []
  ab : c.abOpen = false → c.ab = []
  deafA : deafV c.a = true → c.baOpen = false
  deafB : deafV c.b = true → c.abOpen = false

theorem Wires.swap {c : BC} (h : Wires c) : Wires c.swap := ⟨h.ab, h.ba, h.deafB, h.deafA⟩

def Ord (c : BC) : Prop :=
  ∀ x k bt host port, (∃ req bt' host' port', BEv.asked req x bt' host' port' ∈ c.ga) →
    BEv.shown k x bt host port ∈ c.gb → FirstAcc k c.gb → (∃ r, (x, Slot.bindRequested r) ∈ c.a.flows) →
    c.b.bindCap ≠ 0 → BEv.muxDropped ∉ c.gb → OrdOK x c

/-- Why a `Reset x` refused the request: as `BackedR`, but a rejection must be the FIRST recorded answer. -/
def BackedF (c : BC) (x : Nat) : Prop :=
  c.b.bindCap = 0 ∨ BEv.muxDropped ∈ c.gb ∨
  ∃ k bt host port, BEv.shown k x bt host port ∈ c.gb ∧ (FirstRej k c.gb ∨ DropU k c.gb)

def Glob4 (c : BC) : Prop :=
  ∀ req, BEv.done req .refused ∈ c.ga →
    ∃ x bt host port, BEv.asked req x bt host port ∈ c.ga ∧ (c.a.dead = true ∨ BackedF c x)

structure Inv4 (c : BC) : Prop where
  base : Inv3 c
  wires : Wires c
  shA : ShownHeld c.a c.ga
  shB : ShownHeld c.b c.gb
  ordL : Ord c
  ordR : Ord c.swap
  g4L : Glob4 c
  g4R : Glob4 c.swap

theorem Inv4.swap {c : BC} (h : Inv4 c) : Inv4 c.swap :=
  ⟨h.base.swap, h.wires.swap, h.shB, h.shA, h.ordR, h.ordL, h.g4R, h.g4L⟩

/-! ### Lists of answers -/

theorem head_append_of_head {l : List Bool} (n : List Bool) (h : l.head? = some true) : (l ++ n).head? = some true := by
  cases l with
  | nil => cases h
  | cons a r => simpa using h

theorem ordCond_prefix {A A' rest : List Bool} (he : A = A' ++ rest) (F F' : Prop) (hF' : F')
    (h : A.head? = some true ∨ (A = [] ∧ F)) : A'.head? = some true ∨ (A' = [] ∧ F') := by
  cases A' with
  | nil => exact Or.inr ⟨rfl, hF'⟩
  | cons a r =>
    rcases h with h | ⟨h, _⟩
    · rw [he] at h; exact Or.inl (by simpa using h)
    · rw [he] at h; cases h

theorem ans_eq_nil_of {x : Nat} {l : List Msg} (h : ∀ m ∈ l, ansOf x m = none) : ans x l = [] := by
  simp only [ans, List.filterMap_eq_nil_iff]
  exact h

theorem ansOf_some {x : Nat} {m : Msg} {b : Bool} (h : ansOf x m = some b) :
    (b = true ∧ m = .frame (.finish x)) ∨ (b = false ∧ m = .frame (.reset x)) := by
  cases m with
  | frame f =>
    cases f with
    | finish fid =>
      simp only [ansOf] at h
      split at h
      · rename_i he; subst he; cases h; exact Or.inl ⟨rfl, rfl⟩
      · cases h
    | reset fid =>
      simp only [ansOf] at h
      split at h
      · rename_i he; subst he; cases h; exact Or.inr ⟨rfl, rfl⟩
      · cases h
    | _ => cases h
  | _ => cases h

theorem ans_closes {x : Nat} {pre : List Msg} (h : ∀ m ∈ pre, m = Msg.close) : ans x pre = [] :=
  ans_eq_nil_of (fun m hm => by rw [h m hm]; rfl)

theorem ans_inMsgs_extra {x : Nat} {extra : List WsIn} (hx : inMsgs extra = [] ∨ inMsgs extra = [.close]) :
    ans x (inMsgs extra) = [] := by
  rcases hx with hx | hx <;> rw [hx] <;> rfl

theorem mem_live_path {c : BC} {m : Msg} (h : m ∈ c.live) : m ∈ c.swap.path := by
  simp only [BC.live, BC.path, BC.swap, List.mem_append] at h ⊢
  rcases h with h | h
  · exact Or.inl (Or.inl h)
  · split at h
    · rcases List.mem_append.mp h with h | h
      · exact Or.inl (Or.inr h)
      · exact Or.inr h
    · cases h

theorem lookup_br_of_mem {fl : List (Nat × Slot)} {x r : Nat} (hm : (x, Slot.bindRequested r) ∈ fl)
    (h1 : fl.countP (isRQ x) = 0) (h2 : fl.countP (isES x) = 0) : ∃ r', lookup fl x = some (.bindRequested r') := by
  induction fl with
  | nil => cases hm
  | cons p fl ih =>
    obtain ⟨k, s⟩ := p
    simp only [List.countP_cons] at h1 h2
    by_cases hk : k = x
    · subst hk
      cases s with
      | bindRequested r' => exact ⟨r', by simp [lookup]⟩
      | requested q => simp at h1
      | established i => simp at h2
    · rcases List.mem_cons.mp hm with h0 | h0
      · simp only [Prod.mk.injEq] at h0; exact absurd h0.1.symm hk
      · obtain ⟨r', hr⟩ := ih h0 (by omega) (by omega)
        exact ⟨r', by simp [lookup, hk, hr]⟩

theorem shown_unique {g : List BEv} {y : Nat} (h : g.countP (isShown y) ≤ 1) {k1 k2 : Nat} {a1 a2 : BindType}
    {b1 b2 : Bytes} {c1 c2 : Nat} (h1 : BEv.shown k1 y a1 b1 c1 ∈ g) (h2 : BEv.shown k2 y a2 b2 c2 ∈ g) : k1 = k2 := by
  induction g with
  | nil => cases h1
  | cons e g ih =>
    simp only [List.countP_cons] at h
    rcases List.mem_cons.mp h1 with e1 | e1 <;> rcases List.mem_cons.mp h2 with e2 | e2
    · rw [← e1] at e2; cases e2; rfl
    · subst e1
      have : 1 ≤ g.countP (isShown y) := List.countP_pos_iff.mpr ⟨_, e2, by simp⟩
      simp only [isShown_shown, beq_self_eq_true, if_true] at h; exfalso; omega
    · subst e2
      have : 1 ≤ g.countP (isShown y) := List.countP_pos_iff.mpr ⟨_, e1, by simp⟩
      simp only [isShown_shown, beq_self_eq_true, if_true] at h; exfalso; omega
    · exact ih (by omega) e1 e2

theorem one_le_shown {g : List BEv} {k y : Nat} {bt : BindType} {h : Bytes} {p : Nat} (hm : BEv.shown k y bt h p ∈ g) :
    1 ≤ g.countP (isShown y) := List.countP_pos_iff.mpr ⟨_, hm, by simp⟩

end Penguin.BindAll
