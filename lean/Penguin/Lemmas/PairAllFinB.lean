/-
The end-of-stream invariant `Fin` (`Lemmas/PairAllDir.lean`) of the direction left → right is preserved by
every small step in which the RIGHT side (the receiver of that direction, with its stream object `j`) acts
or receives: the payloads accepted into `j` are appended to `R`, and `P` counts the `Finish x` frames it
processed while its slot of `x` was `Established j`.
Core Lean only.
-/
import Penguin.Lemmas.PairAllDirB

namespace Penguin.PairAll
open Penguin.Mux
open scoped List

variable {x j : Nat} {ownA ownB : Prop}

/-! ### Lists (private: the companion file for the left side has its own copies) -/

private theorem hasPush_sublist {l l' : List Msg} (h : l' <+ l) (hp : hasPush x l' = true) : hasPush x l = true := by
  simp only [hasPush, List.any_eq_true] at hp ⊢
  obtain ⟨m, hm, hq⟩ := hp
  exact ⟨m, h.subset hm, hq⟩

private theorem hasFin_sublist {l l' : List Msg} (h : l' <+ l) (hp : hasFin x l' = true) : hasFin x l = true := by
  simp only [hasFin, List.any_eq_true] at hp ⊢
  obtain ⟨m, hm, hq⟩ := hp
  exact ⟨m, h.subset hm, hq⟩

private theorem noPush_sublist {l l' : List Msg} (h : l' <+ l) (hp : hasPush x l = false) : hasPush x l' = false := by
  cases hq : hasPush x l' with
  | false => rfl
  | true => rw [hasPush_sublist h hq] at hp; cases hp

private theorem noFin_sublist {l l' : List Msg} (h : l' <+ l) (hp : hasFin x l = false) : hasFin x l' = false := by
  cases hq : hasFin x l' with
  | false => rfl
  | true => rw [hasFin_sublist h hq] at hp; cases hp

private theorem finLast_cons (x : Nat) (m : Msg) (r : List Msg) :
    finLast x (m :: r) = ((if isFin x m then !hasPush x r else true) && finLast x r) := rfl

/-- `finLast` is inherited by sublists. -/
private theorem finLast_sublist {l l' : List Msg} (h : l' <+ l) (hp : finLast x l = true) : finLast x l' = true := by
  induction h with
  | slnil => rfl
  | cons a h ih =>
    rw [finLast_cons, Bool.and_eq_true] at hp
    exact ih hp.2
  | cons_cons a h ih =>
    rw [finLast_cons, Bool.and_eq_true] at hp ⊢
    refine ⟨?_, ih hp.2⟩
    cases hf : isFin x a with
    | false => simp
    | true =>
      have h1 := hp.1
      rw [hf] at h1
      simp only [if_true, Bool.not_eq_true'] at h1 ⊢
      exact noPush_sublist h h1

/-- A `Finish x` in the front part: no `Push x` in the back part. -/
private theorem finLast_append_fin (x : Nat) (A B : List Msg) (h : finLast x (A ++ B) = true) (hf : hasFin x A = true) :
    hasPush x B = false := by
  induction A with
  | nil => cases hf
  | cons m A ih =>
    rw [List.cons_append, finLast_cons, Bool.and_eq_true] at h
    cases hm : isFin x m with
    | true =>
      have h1 := h.1
      rw [hm] at h1
      simp only [if_true, Bool.not_eq_true', hasPush_append, Bool.or_eq_false_iff] at h1
      exact h1.2
    | false =>
      apply ih h.2
      simpa [hasFin, hm] using hf

/-- The list starts with a `Finish x`: no `Push x` behind it. -/
private theorem finLast_fin_cons (x : Nat) (r : List Msg) (h : finLast x (.frame (.finish x) :: r) = true) :
    hasPush x r = false := by
  rw [finLast_cons, Bool.and_eq_true] at h
  have h1 := h.1
  simpa [isFin] using h1

private theorem inMsgs_tail_sublist (w : WsIn) (r : List WsIn) : inMsgs r <+ inMsgs (w :: r) := by
  cases w with
  | msg m => exact List.sublist_cons_self _ _
  | _ => exact List.Sublist.refl _

private theorem hasFin_inMsgs_fin (x : Nat) (r : List WsIn) : hasFin x (inMsgs (.msg (.frame (.finish x)) :: r)) = true := by
  simp [inMsgs, hasFin, isFin]

private theorem hasPush_inMsgs_push (x : Nat) (d : Bytes) (r : List WsIn) :
    hasPush x (inMsgs (.msg (.frame (.push x d)) :: r)) = true := by
  simp [inMsgs, hasPush, isPush]

/-! ### Transfer lemmas -/

/-- The general transfer along a step of the right side that accepts nothing: the left view is untouched, the
    delivered and travelling messages become a sublist. -/
theorem Fin.transB {c c' : PC} {S R W : List Bytes} {P P' : Nat} (f : Fin x j c S R W P)
    (hd : (sm x c).dead → (sm x c').dead) (ea : c'.a = c.a)
    (hsub : (inMsgs c'.b.inbox ++ c'.ab) <+ (inMsgs c.b.inbox ++ c.ab))
    (hP : P ≤ P') (hlen : c.b.len ≤ c'.b.len)
    (h4 : c'.abOpen = false → c'.b.canJ = true → hasFin x (inMsgs c'.b.inbox) = true →
      (sm x c').dead ∨ R ++ pX x (inMsgs c'.b.inbox) = S)
    (h4p : c'.abOpen = false → c'.b.len ≤ j → Pot x c' → hasFin x (inMsgs c'.b.inbox) = true →
      (sm x c').dead ∨ pX x (inMsgs c'.b.inbox) = S)
    (h5 : c'.b.slot = some (.established j) → c'.b.rxJ = true → c'.b.canJ = false →
      (c.b.slot = some (.established j) ∧ c.b.rxJ = true ∧ c.b.canJ = false) ∨ 1 ≤ P')
    (hrx : j < c.b.len → c'.b.rxJ = true → c.b.rxJ = true)
    (h6 : P = 0 → 1 ≤ P' → c'.b.rxJ = true → R = W ∧ 1 ≤ c.a.nobj ∧ c.a.nw = 0 ∧ hasPush x c'.path = false)
    (h7 : ∀ i, c'.b.slot = some (.established i) → c.b.slot = some (.established i) ∨ i < c'.b.len)
    (h8 : P = 0 → 1 ≤ P' → j < c'.b.len) : Fin x j c' S R W P' := by
  have hpath : c'.path <+ c.path := by
    simp only [PC.path, ea]; exact hsub.append (List.Sublist.refl _)
  refine ⟨?_, ?_, ?_, ?_, h4, h4p, ?_, ?_, ?_, ?_⟩
  · rw [ea]; exact f.f0
  · rw [ea]; exact f.f1
  · intro hf
    rcases f.f2 (hasFin_sublist hpath hf) with h | ⟨h1, h2, h3⟩
    · exact Or.inl (hd h)
    · rw [ea]; exact Or.inr ⟨h1, h2, finLast_sublist hpath h3⟩
  · intro hf
    rcases f.f3 (hasFin_sublist hsub hf) with h | h
    · exact Or.inl (hd h)
    · exact Or.inr h
  · intro a1 a2 a3
    rcases h5 a1 a2 a3 with ⟨b1, b2, b3⟩ | h
    · exact Nat.le_trans (f.f5 b1 b2 b3) hP
    · exact h
  · intro a1 a2
    rw [ea]
    by_cases hp : 1 ≤ P
    · obtain ⟨b1, b2, b3, b4⟩ := f.f6 hp (hrx (f.f8 hp) a2)
      exact ⟨b1, b2, b3, noPush_sublist hpath b4⟩
    · exact h6 (by omega) a1 a2
  · intro i hi
    rcases h7 i hi with h | h
    · exact Nat.lt_of_lt_of_le (f.f7 i h) hlen
    · exact h
  · intro hp
    by_cases hp0 : 1 ≤ P
    · exact Nat.lt_of_lt_of_le (f.f8 hp0) hlen
    · exact h8 (by omega) hp

/-- Clause `f4` after a step that does not touch the wire flag, does not make `j` accept, and keeps the
    `Push x` payloads of the inbox. -/
theorem Fin.f4_same {c c' : PC} {S R W : List Bytes} {P : Nat} (f : Fin x j c S R W P)
    (hd : (sm x c).dead → (sm x c').dead) (eo : c'.abOpen = c.abOpen) (hcan : c'.b.canJ = true → c.b.canJ = true)
    (hfI : c.abOpen = false → hasFin x (inMsgs c'.b.inbox) = true → hasFin x (inMsgs c.b.inbox) = true)
    (hpc : c.abOpen = false → pX x (inMsgs c'.b.inbox) = pX x (inMsgs c.b.inbox)) :
    c'.abOpen = false → c'.b.canJ = true → hasFin x (inMsgs c'.b.inbox) = true →
      (sm x c').dead ∨ R ++ pX x (inMsgs c'.b.inbox) = S := by
  intro a1 a2 a3
  rw [eo] at a1
  rcases f.f4 a1 (hcan a2) (hfI a1 a3) with h | h
  · exact Or.inl (hd h)
  · rw [hpc a1]; exact Or.inr h

theorem Fin.f4p_same {c c' : PC} {S R W : List Bytes} {P : Nat} (f : Fin x j c S R W P)
    (hd : (sm x c).dead → (sm x c').dead) (eo : c'.abOpen = c.abOpen) (hlen : c.b.len ≤ c'.b.len)
    (hpot : Pot x c' → Pot x c)
    (hfI : c.abOpen = false → hasFin x (inMsgs c'.b.inbox) = true → hasFin x (inMsgs c.b.inbox) = true)
    (hpc : c.abOpen = false → pX x (inMsgs c'.b.inbox) = pX x (inMsgs c.b.inbox)) :
    c'.abOpen = false → c'.b.len ≤ j → Pot x c' → hasFin x (inMsgs c'.b.inbox) = true →
      (sm x c').dead ∨ pX x (inMsgs c'.b.inbox) = S := by
  intro a1 a2 a3 a4
  rw [eo] at a1
  rcases f.f4p a1 (Nat.le_trans hlen a2) (hpot a3) (hfI a1 a4) with h | h
  · exact Or.inl (hd h)
  · rw [hpc a1]; exact Or.inr h

/-- Nothing is gained: the messages become a sublist, `j` does not start accepting, its receiver does not
    reopen, no slot is established, and `j` stops accepting only as `h5` says. -/
theorem Fin.monoB {c c' : PC} {S R W : List Bytes} {P : Nat} (f : Fin x j c S R W P)
    (hd : (sm x c).dead → (sm x c').dead) (ea : c'.a = c.a)
    (hsub : (inMsgs c'.b.inbox ++ c'.ab) <+ (inMsgs c.b.inbox ++ c.ab))
    (eo : c'.abOpen = c.abOpen) (hlen : c.b.len ≤ c'.b.len) (hcan : c'.b.canJ = true → c.b.canJ = true)
    (hfI : c.abOpen = false → hasFin x (inMsgs c'.b.inbox) = true → hasFin x (inMsgs c.b.inbox) = true)
    (hpc : c.abOpen = false → pX x (inMsgs c'.b.inbox) = pX x (inMsgs c.b.inbox))
    (hpot : Pot x c' → Pot x c)
    (h5 : c'.b.slot = some (.established j) → c'.b.rxJ = true → c'.b.canJ = false →
      (c.b.slot = some (.established j) ∧ c.b.rxJ = true ∧ c.b.canJ = false) ∨ 1 ≤ P)
    (hrx : c'.b.rxJ = true → c.b.rxJ = true)
    (hslot : ∀ i, c'.b.slot = some (.established i) → c.b.slot = some (.established i)) : Fin x j c' S R W P :=
  f.transB hd ea hsub (Nat.le_refl _) hlen (f.f4_same hd eo hcan hfI hpc) (f.f4p_same hd eo hlen hpot hfI hpc) h5
    (fun _ => hrx) (fun h0 h1 => by omega) (fun i hi => Or.inl (hslot i hi)) (fun h0 h1 => by omega)

/-- A step of the right side that leaves its inbox, slot, `canJ`, `rxJ`, `len` and the wire alone. -/
theorem Fin.sameB {c c' : PC} {S R W : List Bytes} {P : Nat} (f : Fin x j c S R W P)
    (hd : (sm x c).dead → (sm x c').dead) (ea : c'.a = c.a) (e1 : c'.b.inbox = c.b.inbox) (e2 : c'.ab = c.ab)
    (e3 : c'.abOpen = c.abOpen) (e4 : c'.b.len = c.b.len) (e5 : c'.b.canJ = c.b.canJ) (e6 : c'.b.rxJ = c.b.rxJ)
    (e7 : ∀ i, c'.b.slot = some (.established i) → c.b.slot = some (.established i)) (hpot : Pot x c' → Pot x c) :
    Fin x j c' S R W P := by
  refine f.monoB hd ea (by rw [e1, e2]; exact List.Sublist.refl _) e3 (Nat.le_of_eq e4.symm) (fun h => e5 ▸ h)
    (fun _ h => e1 ▸ h) (fun _ => by rw [e1]) hpot ?_ (fun h => e6 ▸ h) e7
  intro a1 a2 a3
  exact Or.inl ⟨e7 j a1, e6 ▸ a2, e5 ▸ a3⟩

/-- The head of the inbox, not a `Push x`, is removed; the rest of the right view but `srcEnded`, `bh` stays. -/
theorem Fin.popB {c c' : PC} {S R W : List Bytes} {P : Nat} (f : Fin x j c S R W P) {w : WsIn} {r : List WsIn}
    (h : c.b.inbox = w :: r) (hw : ∀ m, w = .msg m → isPush x m = false)
    (hd : (sm x c).dead → (sm x c').dead) (ea : c'.a = c.a) (e1 : c'.b.inbox = r) (e2 : c'.ab = c.ab)
    (e3 : c'.abOpen = c.abOpen) (e4 : c'.b.len = c.b.len) (e5 : c'.b.canJ = c.b.canJ) (e6 : c'.b.rxJ = c.b.rxJ)
    (e7 : c'.b.slot = c.b.slot) (e8 : c'.b.cnt = c.b.cnt) : Fin x j c' S R W P := by
  have hI : inMsgs c'.b.inbox <+ inMsgs c.b.inbox := by rw [e1, h]; exact inMsgs_tail_sublist w r
  refine f.monoB hd ea (by rw [e2]; exact hI.append (List.Sublist.refl _)) e3 (Nat.le_of_eq e4.symm) (fun h => e5 ▸ h)
    (fun _ hf => hasFin_sublist hI hf) (fun _ => by rw [e1, h, pX_inMsgs_cons x w r hw]) ?_ ?_ (fun h => e6 ▸ h)
    (fun i hi => e7 ▸ hi)
  · refine Pot.mono (Nat.le_of_eq (by rw [ea])) (Nat.le_of_eq e8) (fun q hq => ⟨q, e7 ▸ hq⟩) ?_
    simp only [PC.path, ea, e1, e2]; rw [h]; exact hasConn_inMsgs_cons x w r _ _
  · intro a1 a2 a3
    exact Or.inl ⟨e7 ▸ a1, e6 ▸ a2, e5 ▸ a3⟩

/-! ### The atomic steps of the right view -/

/-- A `Push x` is accepted into object `j`. -/
theorem Fin.pushAccB {c c' : PC} {S R W : List Bytes} {P : Nat} (d : Dir x j c S R) (f : Fin x j c S R W P)
    {dd : Bytes} {r : List WsIn} (h : c.b.inbox = .msg (.frame (.push x dd)) :: r) (hcan : c.b.canJ = true)
    (hd : (sm x c).dead → (sm x c').dead) (ea : c'.a = c.a) (e1 : c'.b.inbox = r) (e2 : c'.ab = c.ab)
    (e3 : c'.abOpen = c.abOpen) (e4 : c'.b.len = c.b.len) (e5 : c'.b.canJ = c.b.canJ) (e6 : c'.b.rxJ = c.b.rxJ)
    (e7 : c'.b.slot = c.b.slot) : Fin x j c' S (R ++ [dd]) W P := by
  have hI : inMsgs c'.b.inbox <+ inMsgs c.b.inbox := by rw [e1, h]; exact inMsgs_tail_sublist _ r
  have hsub : (inMsgs c'.b.inbox ++ c'.ab) <+ (inMsgs c.b.inbox ++ c.ab) := by
    rw [e2]; exact hI.append (List.Sublist.refl _)
  have hpath : c'.path <+ c.path := by
    simp only [PC.path, ea]; exact hsub.append (List.Sublist.refl _)
  have hlen : ¬ c.b.len ≤ j := fun hl => by have := (d.d1 hl).2; rw [hcan] at this; cases this
  have hpush : hasPush x c.path = true := by
    simp only [PC.path, hasPush_append, h, hasPush_inMsgs_push, Bool.true_or]
  refine ⟨?_, ?_, ?_, ?_, ?_, ?_, ?_, ?_, ?_, ?_⟩
  · rw [ea]; exact f.f0
  · rw [ea]; exact f.f1
  · intro hf
    rcases f.f2 (hasFin_sublist hpath hf) with h | ⟨h1, h2, h3⟩
    · exact Or.inl (hd h)
    · rw [ea]; exact Or.inr ⟨h1, h2, finLast_sublist hpath h3⟩
  · intro hf
    rcases f.f3 (hasFin_sublist hsub hf) with h | h
    · exact Or.inl (hd h)
    · exact Or.inr h
  · intro a1 a2 a3
    rw [e3] at a1
    rcases f.f4 a1 hcan (hasFin_sublist hI a3) with h | h4
    · exact Or.inl (hd h)
    · refine Or.inr ?_
      rw [h] at h4; simp only [inMsgs_cons_msg, pX_cons_push] at h4
      rw [e1, List.append_assoc]; exact h4
  · intro _ a2
    rw [e4] at a2; exact absurd a2 hlen
  · intro a1 a2 a3
    rw [e5, hcan] at a3; cases a3
  · intro a1 a2
    rw [e6] at a2
    have := (f.f6 a1 a2).2.2.2
    rw [hpush] at this; cases this
  · intro i hi
    rw [e4]; exact f.f7 i (e7 ▸ hi)
  · intro hp; rw [e4]; exact f.f8 hp

/-- A `Push x` is not accepted into object `j`. -/
theorem Fin.pushRejB (hex : ¬(ownA ∧ ownB)) {c : PC} {S R W : List Bytes} {P : Nat} (hc : CoreS ownA ownB (sm x c))
    (d : Dir x j c S R) (f : Fin x j c S R W P) {dd : Bytes} {r : List WsIn}
    (h : c.b.inbox = .msg (.frame (.push x dd)) :: r)
    {s : Option Slot} (hs : (s = c.b.slot ∧ c.b.canJ = false) ∨ s = none) (ba' : List Msg)
    (hd : (sm x c).dead → (sm x { c with b := { c.b with inbox := r, slot := s, canJ := false }, ba := ba' }).dead) :
    Fin x j { c with b := { c.b with inbox := r, slot := s, canJ := false }, ba := ba' } S R W P := by
  obtain ⟨_, hnp⟩ := Pot.pushRejB hex hc d h hs ba'
  have hI : inMsgs r <+ inMsgs c.b.inbox := by rw [h]; exact inMsgs_tail_sublist _ r
  have hslot : ∀ i, s = some (.established i) → c.b.slot = some (.established i) ∧ c.b.canJ = false := by
    intro i hi
    rcases hs with ⟨h1, h2⟩ | h1
    · exact ⟨by rw [← h1, hi], h2⟩
    · rw [h1] at hi; cases hi
  refine f.transB hd rfl (hI.append (List.Sublist.refl _)) (Nat.le_refl _) (Nat.le_refl _)
    (fun _ a2 => by cases a2) (fun _ _ a3 => absurd a3 hnp) ?_ (fun _ => id) (fun h0 h1 => by omega)
    (fun i hi => Or.inl (hslot i hi).1) (fun h0 h1 => by omega)
  intro a1 a2 _
  exact Or.inl ⟨(hslot j a1).1, a2, (hslot j a1).2⟩

/-- A `Finish x` is processed while the slot is `Established j`. -/
theorem Fin.popFinJB {c : PC} {S R W : List Bytes} {P : Nat} (hc : CoreS ownA ownB (sm x c))
    (d : Dir x j c S R) (f : Fin x j c S R W P) {r : List WsIn}
    (h : c.b.inbox = .msg (.frame (.finish x)) :: r) (he : c.b.slot = some (.established j)) {s : Option Slot}
    (hs : s = c.b.slot ∨ s = none) (ba' : List Msg)
    (hd : (sm x c).dead → (sm x { c with b := { c.b with inbox := r, slot := s, canJ := false }, ba := ba' }).dead) :
    Fin x j { c with b := { c.b with inbox := r, slot := s, canJ := false }, ba := ba' } S R W (P + 1) := by
  have hI : inMsgs r <+ inMsgs c.b.inbox := by rw [h]; exact inMsgs_tail_sublist _ r
  have hw : ∀ m, WsIn.msg (.frame (.finish x)) = .msg m → isPush x m = false := by
    intro m hm; cases hm; rfl
  have hpx : pX x (inMsgs r) = pX x (inMsgs c.b.inbox) := by rw [h, pX_inMsgs_cons x _ r hw]
  have hslot : ∀ i, s = some (.established i) → c.b.slot = some (.established i) := by
    intro i hi
    rcases hs with h1 | h1
    · rw [← h1, hi]
    · rw [h1] at hi; cases hi
  have hnoreq : ∀ q, s ≠ some (.requested q) := by
    intro q hq
    rcases hs with h1 | h1
    · rw [h1, he] at hq; cases hq
    · rw [h1] at hq; cases hq
  have hpot : Pot x { c with b := { c.b with inbox := r, slot := s, canJ := false }, ba := ba' } → Pot x c := by
    refine Pot.mono (Nat.le_refl _) (Nat.le_refl _) (fun q hq => absurd hq (hnoreq q)) ?_
    simp only [PC.path]; rw [h]; exact hasConn_inMsgs_cons x _ r _ _
  have hjl : j < c.b.len := f.f7 j he
  refine f.transB hd rfl (hI.append (List.Sublist.refl _)) (Nat.le_succ _) (Nat.le_refl _)
    (fun _ a2 => by cases a2)
    (f.f4p_same hd rfl (Nat.le_refl _) hpot (fun _ hf => hasFin_sublist hI hf) (fun _ => hpx))
    (fun _ _ _ => Or.inr (Nat.le_add_left 1 P)) (fun _ => id) ?_ (fun i hi => Or.inl (hslot i hi)) (fun _ _ => hjl)
  -- the heart: the first `Finish x` processed for `j`, whose receiver is open
  intro hP0 _ hrx
  have hrx : c.b.rxJ = true := hrx
  have hcan : c.b.canJ = true := by
    cases hk : c.b.canJ with
    | true => rfl
    | false => have := f.f5 he hrx hk; omega
  have hnd : ¬ (sm x c).dead := by
    intro hdead
    have h1 : c.b.nobj = 0 := hdead.2.2.2.1
    have h2 : 1 ≤ c.b.nobj := hc.r.estObj (by show sk c.b.slot = 2; rw [he]; rfl)
    omega
  have hfI : hasFin x (inMsgs c.b.inbox) = true := by rw [h]; exact hasFin_inMsgs_fin x r
  have hfp : hasFin x c.path = true := by simp only [PC.path, hasFin_append, hfI, Bool.true_or]
  obtain ⟨hn1, hn2, hfl⟩ : 1 ≤ c.a.nobj ∧ c.a.nw = 0 ∧ finLast x c.path = true := by
    rcases f.f2 hfp with h0 | h0
    · exact absurd h0 hnd
    · exact h0
  have hnp : hasPush x (inMsgs r ++ c.ab ++ c.a.outq) = false := by
    apply finLast_fin_cons x
    simp only [PC.path] at hfl; rw [h] at hfl
    exact hfl
  simp only [hasPush_append, Bool.or_eq_false_iff] at hnp
  obtain ⟨⟨hp1, hp2⟩, hp3⟩ := hnp
  have hSW : S = W := by
    rcases f.f3 (by rw [hasFin_append, hfI, Bool.true_or]) with h0 | h0
    · exact absurd h0 hnd
    · exact h0
  have hRS : R = S := by
    have e1 : pX x (inMsgs c.b.inbox) = [] := by rw [← hpx]; exact pX_of_noPush x _ hp1
    have e2 : pX x c.ab = [] := pX_of_noPush x _ hp2
    cases ho : c.abOpen with
    | true =>
      have := (d.d4 hcan).1 ho
      rw [e1, e2, List.append_nil, List.append_nil] at this; exact this
    | false =>
      rcases f.f4 ho hcan hfI with h0 | h0
      · exact absurd h0 hnd
      · rw [e1, List.append_nil] at h0; exact h0
  refine ⟨hRS.trans hSW, hn1, hn2, ?_⟩
  simp only [PC.path, hasPush_append, hp1, hp2, hp3, Bool.or_self]

/-- A `Finish x` is processed while the slot is not `Established j`. -/
theorem Fin.popFinOB {c : PC} {S R W : List Bytes} {P : Nat} (f : Fin x j c S R W P) {r : List WsIn}
    (h : c.b.inbox = .msg (.frame (.finish x)) :: r) (he : c.b.slot ≠ some (.established j)) {s : Option Slot}
    (hs : (∃ i, c.b.slot = some (.established i) ∧ s = c.b.slot) ∨ s = none) (ba' : List Msg)
    (hd : (sm x c).dead → (sm x { c with b := { c.b with inbox := r, slot := s, canJ := false }, ba := ba' }).dead) :
    Fin x j { c with b := { c.b with inbox := r, slot := s, canJ := false }, ba := ba' } S R W P := by
  have hI : inMsgs r <+ inMsgs c.b.inbox := by rw [h]; exact inMsgs_tail_sublist _ r
  have hw : ∀ m, WsIn.msg (.frame (.finish x)) = .msg m → isPush x m = false := by
    intro m hm; cases hm; rfl
  have hpx : pX x (inMsgs r) = pX x (inMsgs c.b.inbox) := by rw [h, pX_inMsgs_cons x _ r hw]
  have hslot : ∀ i, s = some (.established i) → c.b.slot = some (.established i) := by
    intro i hi
    rcases hs with ⟨_, _, h1⟩ | h1
    · rw [← h1, hi]
    · rw [h1] at hi; cases hi
  have hnoreq : ∀ q, s ≠ some (.requested q) := by
    intro q hq
    rcases hs with ⟨i, h0, h1⟩ | h1
    · rw [h1, h0] at hq; cases hq
    · rw [h1] at hq; cases hq
  have hpot : Pot x { c with b := { c.b with inbox := r, slot := s, canJ := false }, ba := ba' } → Pot x c := by
    refine Pot.mono (Nat.le_refl _) (Nat.le_refl _) (fun q hq => absurd hq (hnoreq q)) ?_
    simp only [PC.path]; rw [h]; exact hasConn_inMsgs_cons x _ r _ _
  exact f.monoB hd rfl (hI.append (List.Sublist.refl _)) rfl (Nat.le_refl _) (fun a2 => by cases a2)
    (fun _ hf => hasFin_sublist hI hf) (fun _ => hpx) hpot (fun a1 _ _ => absurd (hslot j a1) he) id hslot

/-- A stream object is created at the right side (by a `Connect x` or an `Acknowledge x`): it could. -/
theorem Fin.newB {c : PC} {S R W : List Bytes} {P : Nat} (d : Dir x j c S R) (f : Fin x j c S R W P) (hp : Pot x c)
    {m : Msg} {r : List WsIn} (h : c.b.inbox = .msg m :: r) (hm : isPush x m = false) (nb nw' : Nat)
    (oq ba' : List Msg)
    (hd : (sm x c).dead →
      (sm x { c with b := { c.b with inbox := r, slot := some (.established c.b.len), len := c.b.len + 1, nobj := nb,
                                     canJ := c.b.len == j, nw := nw', rxJ := c.b.rxJ || c.b.len == j, outq := oq },
                     ba := ba' }).dead) :
    Fin x j { c with b := { c.b with inbox := r, slot := some (.established c.b.len), len := c.b.len + 1, nobj := nb,
                                     canJ := c.b.len == j, nw := nw', rxJ := c.b.rxJ || c.b.len == j, outq := oq },
                     ba := ba' } S R W P := by
  have hI : inMsgs r <+ inMsgs c.b.inbox := by rw [h]; exact inMsgs_tail_sublist _ r
  have hpx : pX x (inMsgs r) = pX x (inMsgs c.b.inbox) := by rw [h]; exact (pX_cons_other x m _ hm).symm
  refine f.transB hd rfl (hI.append (List.Sublist.refl _)) (Nat.le_refl _) (Nat.le_succ _) ?_ ?_ ?_ ?_
    (fun h0 h1 => by omega) ?_ (fun h0 h1 => by omega)
  · intro a1 a2 a3
    have hj : c.b.len = j := by simpa using a2
    have hl : c.b.len ≤ j := by omega
    rcases f.f4p a1 hl hp (hasFin_sublist hI a3) with h0 | h0
    · exact Or.inl (hd h0)
    · refine Or.inr ?_
      show R ++ pX x (inMsgs r) = S
      rw [(d.d1 hl).1, List.nil_append, hpx]; exact h0
  · intro a1 a2 _ a4
    have hl : c.b.len ≤ j := Nat.le_trans (Nat.le_succ _) a2
    rcases f.f4p a1 hl hp (hasFin_sublist hI a4) with h0 | h0
    · exact Or.inl (hd h0)
    · refine Or.inr ?_
      show pX x (inMsgs r) = S
      rw [hpx]; exact h0
  · intro a1 _ a3
    have a1 : some (Slot.established c.b.len) = some (Slot.established j) := a1
    have a3 : (c.b.len == j) = false := a3
    injection a1 with a1; injection a1 with a1
    rw [a1] at a3; simp at a3
  · intro hjl a2
    have a2 : (c.b.rxJ || c.b.len == j) = true := a2
    cases hr : c.b.rxJ with
    | true => rfl
    | false =>
      rw [hr, Bool.false_or] at a2
      have : c.b.len = j := by simpa using a2
      omega
  · intro i hi
    have hi : some (Slot.established c.b.len) = some (Slot.established i) := hi
    injection hi with hi; injection hi with hi
    exact Or.inr (by show i < c.b.len + 1; omega)

/-- The slot of `x` is released, object `j` stops accepting, … -/
theorem Fin.degradeB {c : PC} {S R W : List Bytes} {P : Nat} (f : Fin x j c S R W P) {s : Option Slot}
    {k : Bool} {w : Nat} {b rx : Bool} (hs : s = c.b.slot ∨ s = none)
    (hk : k = true → c.b.canJ = true ∧ s = c.b.slot) (hkeep : c.b.canJ = true → s = c.b.slot → rx = true → k = true)
    (hr : rx = true → c.b.rxJ = true) (ba' : List Msg)
    (hd : (sm x c).dead →
      (sm x { c with b := { c.b with slot := s, canJ := k, nw := w, bh := b, rxJ := rx }, ba := ba' }).dead) :
    Fin x j { c with b := { c.b with slot := s, canJ := k, nw := w, bh := b, rxJ := rx }, ba := ba' } S R W P := by
  have hslot : ∀ i, s = some (.established i) → c.b.slot = some (.established i) := by
    intro i hi
    rcases hs with h1 | h1
    · rw [← h1, hi]
    · rw [h1] at hi; cases hi
  have hreq : ∀ q, s = some (.requested q) → c.b.slot = some (.requested q) := by
    intro q hq
    rcases hs with h1 | h1
    · rw [← h1, hq]
    · rw [h1] at hq; cases hq
  refine f.monoB hd rfl (List.Sublist.refl _) rfl (Nat.le_refl _) (fun a => (hk a).1) (fun _ => id) (fun _ => rfl)
    (Pot.mono (Nat.le_refl _) (Nat.le_refl _) (fun q hq => ⟨q, hreq q hq⟩) id) ?_ hr hslot
  intro a1 a2 a3
  have a1 : s = some (.established j) := a1
  have a2 : rx = true := a2
  have a3 : k = false := a3
  have e := hslot j a1
  refine Or.inl ⟨e, hr a2, ?_⟩
  cases hcj : c.b.canJ with
  | false => rfl
  | true =>
    have := hkeep hcj (by rw [a1, e]) a2
    rw [a3] at this; cases this

/-- The wind-down of the right side drops what its source still had. -/
theorem Fin.clearInboxB {c : PC} {S R W : List Bytes} {P : Nat} (f : Fin x j c S R W P) (ba' : List Msg)
    (hd : (sm x c).dead → (sm x { c with b := { c.b with inbox := [], slot := none, canJ := false }, ba := ba' }).dead) :
    Fin x j { c with b := { c.b with inbox := [], slot := none, canJ := false }, ba := ba' } S R W P := by
  refine f.transB hd rfl (List.sublist_append_right _ _) (Nat.le_refl _) (Nat.le_refl _)
    (fun _ a2 => by cases a2) (fun _ _ _ a4 => by cases a4) (fun a1 => by cases a1) (fun _ => id)
    (fun h0 h1 => by omega) (fun i hi => by cases hi) (fun h0 h1 => by omega)

/-- The right view acts. -/
theorem Fin.actB (hex : ¬(ownA ∧ ownB)) {c : PC} {S R W : List Bytes} {P : Nat} {v : View} {ws : List Msg}
    {acc : List Bytes} {xl : List XL} (hc : CoreS ownA ownB (sm x c)) (d : Dir x j c S R) (f : Fin x j c S R W P)
    (h : AStep x j c.b v ws acc xl) (hn : v.rngNil = false) :
    Fin x j { c with b := v, ba := if c.baOpen = true then c.ba ++ ws else c.ba } S (R ++ acc) W (P + XL.fins xl) := by
  have hd : (sm x c).dead → (sm x { c with b := v, ba := if c.baOpen = true then c.ba ++ ws else c.ba }).dead :=
    fun hd => dead_stepR hc hd (CStepL.act c.swap v ws acc xl h) hn
  generalize (if c.baOpen = true then c.ba ++ ws else c.ba) = ba' at hd ⊢
  cases h with
  | emit m r h => rw [List.append_nil]; exact f.sameB hd rfl rfl rfl rfl rfl rfl rfl (fun _ => id) id
  | sendClose => rw [List.append_nil]; exact f.sameB hd rfl rfl rfl rfl rfl rfl rfl (fun _ => id) id
  | enq m hc h1 h3 h4 h5 h2 => rw [List.append_nil]; exact f.sameB hd rfl rfl rfl rfl rfl rfl rfl (fun _ => id) id
  | enqPush dd hc hw => rw [List.append_nil]; exact f.sameB hd rfl rfl rfl rfl rfl rfl rfl (fun _ => id) id
  | enqFinS hc hw => rw [List.append_nil]; exact f.sameB hd rfl rfl rfl rfl rfl rfl rfl (fun _ => id) id
  | enqFinB hc hb => rw [List.append_nil]; exact f.sameB hd rfl rfl rfl rfl rfl rfl rfl (fun _ => id) id
  | rng k n hk hn' =>
    rw [List.append_nil]
    exact f.sameB hd rfl rfl rfl rfl rfl rfl rfl (fun _ => id)
      (Pot.mono (Nat.le_refl _) hk (fun q hq => ⟨q, hq⟩) id)
  | draw k n s m hk hn' hd' hs ho hkind =>
    rw [List.append_nil]
    have hk' : k < c.b.cnt := by
      rcases hd' with hd' | hd'
      · exact hd'
      · simp only at hn; rw [hd'] at hn; cases hn
    refine f.sameB hd rfl rfl rfl rfl rfl rfl rfl ?_ (fun _ => Or.inr (Or.inl (by omega)))
    intro i hi
    have hi : some s = some (Slot.established i) := hi
    injection hi with hi
    rcases hkind with ⟨q, hq, _⟩ | ⟨q, hq, _⟩ <;> rw [hq] at hi <;> cases hi
  | pop w r h hw =>
    rw [List.append_nil]
    exact f.popB h (fun m hm => (hw m hm).2.2.1) hd rfl rfl rfl rfl rfl rfl rfl rfl rfl
  | popFin r s h hs =>
    rw [List.append_nil]
    by_cases he : c.b.slot = some (.established j)
    · rw [if_pos he]
      refine f.popFinJB hc d h he ?_ _ hd
      rcases hs with ⟨i, _, h2⟩ | ⟨_, h2⟩
      · exact Or.inl h2
      · exact Or.inr h2
    · rw [if_neg he]
      refine f.popFinOB h he ?_ _ hd
      rcases hs with h1 | ⟨_, h2⟩
      · exact Or.inl h1
      · exact Or.inr h2
  | popBind m r b h hm hb =>
    rw [List.append_nil]
    have hap : isPush x m = false := by
      have := (isBind_kinds hm).2; simp only [isAP, Bool.or_eq_false_iff] at this; exact this.2
    exact f.popB h (fun m' hm' => by cases hm'; exact hap) hd rfl rfl rfl rfl rfl rfl rfl rfl rfl
  | degrade s k w b rx hs hk hkeep hw hb hr =>
    rw [List.append_nil]; exact f.degradeB hs hk hkeep hr _ hd
  | connRej m r h hm =>
    rw [List.append_nil]
    exact f.popB h (fun m' hm' => by cases hm'; exact isConn_not_push hm) hd rfl rfl rfl rfl rfl rfl rfl rfl rfl
  | connNew m r n h hm hs =>
    rw [List.append_nil]
    refine f.newB d (Or.inr (Or.inr (Or.inr ?_))) h (isConn_not_push hm) _ _ _ _ hd
    simp only [PC.path, hasConn_append]; rw [h]
    simp [inMsgs, hasConn, hm]
  | ackNew m r q h hm hs =>
    rw [List.append_nil]
    exact f.newB d (Or.inr (Or.inr (Or.inl ⟨q, hs⟩))) h (isAck_not_push hm) _ _ c.b.outq _ hd
  | ackOld m r h hm hs =>
    rw [List.append_nil]
    exact f.popB h (fun m' hm' => by cases hm'; exact isAck_not_push hm) hd rfl rfl rfl rfl rfl rfl rfl rfl rfl
  | pushAcc dd r h hcan => exact Fin.pushAccB d f h hcan hd rfl rfl rfl rfl rfl rfl rfl rfl
  | pushRej dd r s h hs => rw [List.append_nil]; exact f.pushRejB hex hc d h hs _ hd
  | grow n h =>
    rw [List.append_nil]
    exact f.monoB hd rfl (List.Sublist.refl _) rfl h id (fun _ => id) (fun _ => rfl) id
      (fun a1 a2 a3 => Or.inl ⟨a1, a2, a3⟩) id (fun _ => id)
  | clearInbox => rw [List.append_nil]; exact f.clearInboxB _ hd
  | closeOut => rw [List.append_nil]; exact f.sameB hd rfl rfl rfl rfl rfl rfl rfl (fun _ => id) id
  | clearOutq => rw [List.append_nil]; exact f.sameB hd rfl rfl rfl rfl rfl rfl rfl (fun _ => id) id

/-! ### Deliveries to the right view -/

/-- The oldest message on the wire is delivered to the right side (which listens). -/
theorem Fin.dlvB {c : PC} {S R W : List Bytes} {P : Nat} (f : Fin x j c S R W P) {m : Msg} {rest : List Msg}
    {I' : List WsIn} (h : c.ab = m :: rest) (ho : c.abOpen = true) (hI : inMsgs I' = inMsgs c.b.inbox ++ [m])
    (hd : (sm x c).dead → (sm x { c with ab := rest, b := { c.b with inbox := I' } }).dead) :
    Fin x j { c with ab := rest, b := { c.b with inbox := I' } } S R W P := by
  have hl : inMsgs I' ++ rest = inMsgs c.b.inbox ++ c.ab := by rw [hI, h]; simp
  have hf : ∀ {p : Prop}, c.abOpen = false → p := fun h0 => by rw [ho] at h0; cases h0
  exact f.monoB hd rfl (by show inMsgs I' ++ rest <+ _; rw [hl]; exact List.Sublist.refl _) rfl (Nat.le_refl _) id
    (fun h0 => hf h0) (fun h0 => hf h0)
    (Pot.mono (Nat.le_refl _) (Nat.le_refl _) (fun q hq => ⟨q, hq⟩) (by simp only [PC.path]; rw [hl]; exact id))
    (fun a1 a2 a3 => Or.inl ⟨a1, a2, a3⟩) id (fun _ => id)

/-- The wire to the right side ends (a delivered Close, or a cut): what was on it is lost. -/
theorem Fin.closeB {c : PC} {S R W : List Bytes} {P : Nat} (d : Dir x j c S R) (f : Fin x j c S R W P)
    {I' : List WsIn} {E T : List Msg} (hI : inMsgs I' = inMsgs c.b.inbox ++ E) (hE : c.ab = E ++ T)
    (hpE : pX x E = []) (hfE : hasFin x E = false)
    (hd : (sm x c).dead → (sm x { c with ab := [], abOpen := false, b := { c.b with inbox := I' } }).dead) :
    Fin x j { c with ab := [], abOpen := false, b := { c.b with inbox := I' } } S R W P := by
  have hpx : pX x (inMsgs I') = pX x (inMsgs c.b.inbox) := by rw [hI, pX_append, hpE, List.append_nil]
  have hfI : hasFin x (inMsgs I') = true → hasFin x (inMsgs c.b.inbox) = true := by
    intro h0; rw [hI, hasFin_append, hfE, Bool.or_false] at h0; exact h0
  have hpot := Pot.closeB (x := x) hI hE
  -- a `Finish x` in the inbox: the wire carried no `Push x`
  have hab : hasFin x (inMsgs c.b.inbox) = true → (sm x c).dead ∨ pX x c.ab = [] := by
    intro h0
    rcases f.f2 (by simp only [PC.path, hasFin_append, h0, Bool.true_or]) with h1 | ⟨_, _, h1⟩
    · exact Or.inl h1
    · refine Or.inr (pX_of_noPush x _ ?_)
      simp only [PC.path] at h1
      rw [List.append_assoc] at h1
      have := finLast_append_fin x _ _ h1 h0
      rw [hasPush_append, Bool.or_eq_false_iff] at this
      exact this.1
  have hsub : (inMsgs I' ++ []) <+ (inMsgs c.b.inbox ++ c.ab) := by
    rw [List.append_nil, hI, hE]
    exact (List.Sublist.refl _).append (List.sublist_append_left _ _)
  refine f.transB hd rfl hsub (Nat.le_refl _) (Nat.le_refl _) ?_ ?_ (fun a1 a2 a3 => Or.inl ⟨a1, a2, a3⟩)
    (fun _ => id) (fun h0 h1 => by omega) (fun i hi => Or.inl hi) (fun h0 h1 => by omega)
  · intro _ a2 a3
    have a2 : c.b.canJ = true := a2
    have a3 : hasFin x (inMsgs I') = true := a3
    show _ ∨ R ++ pX x (inMsgs I') = S
    rw [hpx]
    cases ho : c.abOpen with
    | true =>
      rcases hab (hfI a3) with h0 | h0
      · exact Or.inl (hd h0)
      · have := (d.d4 a2).1 ho
        rw [h0, List.append_nil] at this; exact Or.inr this
    | false =>
      rcases f.f4 ho a2 (hfI a3) with h0 | h0
      · exact Or.inl (hd h0)
      · exact Or.inr h0
  · intro _ a2 a3 a4
    have a2 : c.b.len ≤ j := a2
    have a4 : hasFin x (inMsgs I') = true := a4
    show _ ∨ pX x (inMsgs I') = S
    rw [hpx]
    cases ho : c.abOpen with
    | true =>
      rcases hab (hfI a4) with h0 | h0
      · exact Or.inl (hd h0)
      · have := (d.d2 a2 (hpot a3)).1 ho
        rw [h0, List.append_nil] at this; exact Or.inr this
    | false =>
      rcases f.f4p ho a2 (hpot a3) (hfI a4) with h0 | h0
      · exact Or.inl (hd h0)
      · exact Or.inr h0

/-- The end-of-stream invariant is preserved by every small step in which the right side acts or receives. -/
theorem Fin.stepB (hex : ¬(ownA ∧ ownB)) {c c'' : PC} {S R W : List Bytes} {P : Nat} {ws : List Msg} {acc : List Bytes}
    {xl : List XL} (hc : CoreS ownA ownB (sm x c)) (hw : Wires c) (d : Dir x j c S R) (f : Fin x j c S R W P)
    (st : CStepL x j c.swap c'' ws acc xl) (hn : c''.a.rngNil = false) :
    Fin x j c''.swap S (R ++ acc) W (P + XL.fins xl) := by
  have hd : (sm x c).dead → (sm x c''.swap).dead := fun hd => dead_stepR hc hd st hn
  cases st with
  | act v ws acc xl h => exact Fin.actB hex hc d f h hn
  | dlv m rest h hm =>
    have h : c.ab = m :: rest := h
    have ho : c.abOpen = true := by
      cases ho : c.abOpen with
      | true => rfl
      | false => have := hw.closedAB ho; rw [h] at this; cases this
    have hdf : ¬ deaf c.b = true := fun hd => by have := hw.deafB hd; rw [ho] at this; cases this
    rw [List.append_nil]
    refine f.dlvB (I' := if deaf c.b = true then c.b.inbox else c.b.inbox ++ [WsIn.msg m]) h ho ?_ hd
    rw [if_neg hdf, inMsgs_append]; rfl
  | dlvClose rest h =>
    have h : c.ab = .close :: rest := h
    have ho : c.abOpen = true := by
      cases ho : c.abOpen with
      | true => rfl
      | false => have := hw.closedAB ho; rw [h] at this; cases this
    rw [List.append_nil]
    refine Fin.closeB d f (I' := if deaf c.b = true then c.b.inbox else c.b.inbox ++ [WsIn.msg Msg.close, WsIn.eof])
      (E := [.close]) (T := rest) ?_ h rfl rfl hd
    split
    · have := hw.deafB ‹_›; rw [ho] at this; cases this
    · rw [inMsgs_append]; rfl
  | cut w hw' =>
    rw [List.append_nil]
    refine Fin.closeB d f (I' := if deaf c.b = true then c.b.inbox else c.b.inbox ++ [w])
      (E := []) (T := c.ab) ?_ rfl rfl rfl hd
    have hw'' : inMsgs [w] = [] := by cases w <;> first | rfl | (simp [isEnd] at hw')
    split
    · rw [List.append_nil]
    · rw [inMsgs_append, hw'']

end Penguin.PairAll
