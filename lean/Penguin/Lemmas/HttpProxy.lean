/-
Helper lemmas and vocabulary for the HTTP-proxy part of C01 (`Props/C01.lean`, section (c)).
-/
import Penguin.Model.HttpProxy

namespace Penguin.HttpProxy
open Penguin Penguin.Constants

theorem stripSuffix_concat (c : UInt8) (l : Bytes) : stripSuffix c (l ++ [c]) = some l := by
  simp [stripSuffix]

theorem stripSuffix_eq_some {c : UInt8} {t inner : Bytes} (h : stripSuffix c t = some inner) :
    t = inner ++ [c] := by
  unfold stripSuffix at h
  split at h
  · rename_i hl
    obtain ⟨ys, rfl⟩ := List.getLast?_eq_some_iff.mp hl
    simp only [Option.some.injEq, List.dropLast_concat] at h
    rw [h]
  · cases h

theorem stripSuffix_eq_none {c : UInt8} {t : Bytes} (h : stripSuffix c t = none) :
    ¬ ∃ inner, t = inner ++ [c] := by
  rintro ⟨inner, rfl⟩
  rw [stripSuffix_concat] at h
  cases h

/-- The port a request with authority port `p` and scheme flag `https` names: the one written, else
    443 for `https` and 80 otherwise. -/
def httpNamedPort (p : PortIn) (https : Bool) : Nat :=
  match p with
  | .num n => n
  | _ => if https then 443 else 80

/-- The request names a target: an authority whose port, if written, is a port number. -/
def httpNamesTarget (r : Req) : Prop := ∃ a, r.authority = some a ∧ a.port ≠ .invalid

end Penguin.HttpProxy
