/-
The byte invariant `Dir` (`Lemmas/PairAllDir.lean`) of the direction left → right is preserved by every
small step in which the RIGHT side (the receiver of that direction, with its stream object `j`) acts or
receives: the payloads accepted into `j` are appended to `R`.
Core Lean only.
-/
import Penguin.Lemmas.PairAllDir

namespace Penguin.PairAll
open Penguin.Mux

variable {x j : Nat} {ownA ownB : Prop}

/-! ### Lists -/

theorem cAP_live_le (x : Nat) (c : PC) : cAP x c.live ≤ cAP x c.path := by
  by_cases h : c.abOpen = true <;> simp [PC.live, PC.path, cAP_append, h]

theorem pX_inMsgs_cons (x : Nat) (w : WsIn) (r : List WsIn) (hw : ∀ m, w = .msg m → isPush x m = false) :
    pX x (inMsgs (w :: r)) = pX x (inMsgs r) := by
  cases w with
  | msg m => exact pX_cons_other x m _ (hw m rfl)
  | _ => rfl

theorem hasConn_inMsgs_cons (x : Nat) (w : WsIn) (r : List WsIn) (A B : List Msg)
    (h : hasConn x (inMsgs r ++ A ++ B) = true) : hasConn x (inMsgs (w :: r) ++ A ++ B) = true := by
  cases w with
  | msg m =>
    simp only [inMsgs, List.cons_append, hasConn, List.any_cons] at h ⊢
    rw [h]; simp
  | _ => exact h

theorem guarded_inMsgs_cons (x : Nat) (w : WsIn) (r : List WsIn) (A B : List Msg)
    (hw : ∀ m, w = .msg m → isAck x m = false ∧ isPush x m = false) :
    guarded x (inMsgs (w :: r) ++ A ++ B) = guarded x (inMsgs r ++ A ++ B) := by
  cases w with
  | msg m =>
    obtain ⟨h1, h2⟩ := hw m rfl
    simp only [inMsgs, List.cons_append, guarded, h1, h2, Bool.false_eq_true, if_false]
  | _ => rfl

theorem hasAck_inMsgs_cons (x : Nat) (w : WsIn) (r : List WsIn) (A B : List Msg)
    (hw : ∀ m, w = .msg m → isAck x m = false) :
    hasAck x (inMsgs (w :: r) ++ A ++ B) = hasAck x (inMsgs r ++ A ++ B) := by
  cases w with
  | msg m =>
    simp only [inMsgs, List.cons_append, hasAck, List.any_cons, hw m rfl, Bool.false_or]
  | _ => rfl

/-- A list that starts with a `Push x` is not guarded. -/
theorem guarded_push_cons (x : Nat) (dd : Bytes) (l : List Msg) : guarded x (.frame (.push x dd) :: l) = false := by
  simp [guarded, isAck, isPush]

/-! ### Transfer along a step of the right side that accepts nothing -/

theorem Dir.transB {c c' : PC} {S R : List Bytes} (d : Dir x j c S R)
    (e1 : c'.a.nobj = c.a.nobj) (e4 : c'.a.outClosed = c.a.outClosed) (e11 : c'.abOpen = c.abOpen)
    (hlen : c.b.len ≤ c'.b.len) (hcan : c'.b.canJ = true → c.b.canJ = true) (hpot : Pot x c' → Pot x c)
    (h3 : ∀ q, c'.b.slot = some (.requested q) → ∃ q', c.b.slot = some (.requested q') ∧
       (guarded x c.live = true → guarded x c'.live = true) ∧ (hasAck x c.live = true → hasAck x c'.live = true))
    (hpo : c.abOpen = true → pX x (inMsgs c'.b.inbox) ++ pX x c'.ab = pX x (inMsgs c.b.inbox) ++ pX x c.ab)
    (hpc : c.abOpen = false → pX x (inMsgs c'.b.inbox) = pX x (inMsgs c.b.inbox)) : Dir x j c' S R := by
  refine ⟨?_, ?_, ?_, ?_, ?_, d.d5⟩
  · rw [e1]; exact d.d0
  · intro hl
    have := d.d1 (Nat.le_trans hlen hl)
    refine ⟨this.1, ?_⟩
    cases hk : c'.b.canJ with
    | false => rfl
    | true => rw [hcan hk] at this; exact absurd this.2 (by simp)
  · intro hl hp
    have := d.d2 (Nat.le_trans hlen hl) (hpot hp)
    rw [e11]
    exact ⟨fun ho => by rw [hpo ho]; exact this.1 ho, fun ho => by rw [hpc ho]; exact this.2 ho⟩
  · intro q hq
    obtain ⟨q', hq', hg, ha⟩ := h3 q hq
    have := d.d3 q' hq'
    rw [e1, e11, e4]
    exact ⟨hg this.1, fun a b c => ha (this.2 a b c)⟩
  · intro hk
    have := d.d4 (hcan hk)
    rw [e11]
    refine ⟨fun ho => ?_, fun ho => ?_⟩
    · rw [List.append_assoc, hpo ho, ← List.append_assoc]; exact this.1 ho
    · rw [hpc ho]; exact this.2 ho

/-! ### The atomic steps of the right view -/

/-- `x` is drawn at the right side: its script still had `x`, so nothing about `x` is anywhere. -/
theorem Dir.drawB {c : PC} {S R : List Bytes} (hc : CoreS ownA ownB (sm x c)) (d : Dir x j c S R) (hk : 1 ≤ c.b.cnt)
    (k : Nat) (n : Bool) (s : Slot) (oq ba' : List Msg) :
    Dir x j { c with b := { c.b with cnt := k, rngNil := n, slot := some s, outq := oq }, ba := ba' } S R := by
  obtain ⟨hap, _, hna, _, _⟩ := core_fresh hc (Or.inr hk)
  have hap : cAP x c.path = 0 := hap
  have hna : c.a.nobj = 0 := hna
  have hS : S = [] := d.d0 hna
  have hap' := hap
  simp only [PC.path, cAP_append] at hap'
  have h1 : pX x (inMsgs c.b.inbox) = [] := pX_of_cAP x _ (by omega)
  have h2 : pX x c.ab = [] := pX_of_cAP x _ (by omega)
  refine ⟨d.d0, d.d1, ?_, ?_, d.d4, d.d5⟩
  · intro _ _
    dsimp only
    rw [h1, h2, hS]
    exact ⟨fun _ => rfl, fun _ => List.prefix_refl _⟩
  · intro q _
    refine ⟨guarded_of_cAP x _ ?_, fun h => ?_⟩
    · have := cAP_live_le x c
      exact Nat.le_zero.1 (hap ▸ this)
    · dsimp only at h; omega

/-- An item that is no `Push x` is taken from the inbox; if it is an `Acknowledge x`, the slot is no
    pending stream request. -/
theorem Dir.popB {c : PC} {S R : List Bytes} (d : Dir x j c S R) {w : WsIn} {r : List WsIn} (h : c.b.inbox = w :: r)
    (hw : ∀ m, w = .msg m → isPush x m = false)
    (hw3 : (∀ m, w = .msg m → isAck x m = false) ∨ ∀ q, c.b.slot ≠ some (.requested q))
    (se : Bool) (ba' : List Msg) :
    Dir x j { c with b := { c.b with inbox := r, srcEnded := se }, ba := ba' } S R := by
  refine d.transB rfl rfl rfl (Nat.le_refl _) id ?_ ?_ ?_ ?_
  · refine Pot.mono (Nat.le_refl _) (Nat.le_refl _) (fun q hq => ⟨q, hq⟩) ?_
    simp only [PC.path]; rw [h]; exact hasConn_inMsgs_cons x w r _ _
  · intro q hq
    rcases hw3 with hw3 | hw3
    · refine ⟨q, hq, ?_, ?_⟩
      · simp only [PC.live]; rw [h, guarded_inMsgs_cons x w r _ _ (fun m hm => ⟨hw3 m hm, hw m hm⟩)]; exact id
      · simp only [PC.live]; rw [h, hasAck_inMsgs_cons x w r _ _ hw3]; exact id
    · exact absurd hq (hw3 q)
  · intro _; dsimp only; rw [h, pX_inMsgs_cons x w r hw]
  · intro _; dsimp only; rw [h, pX_inMsgs_cons x w r hw]

/-- A stream object is created at the right side (by a `Connect x` or an `Acknowledge x`): it could. -/
theorem Dir.newB {c : PC} {S R : List Bytes} (d : Dir x j c S R) (hp : Pot x c) {m : Msg} {r : List WsIn}
    (h : c.b.inbox = .msg m :: r) (hm : isPush x m = false) (i nb nw' : Nat) (rx' : Bool) (oq ba' : List Msg) :
    Dir x j { c with b := { c.b with inbox := r, slot := some (.established i), len := c.b.len + 1, nobj := nb,
                                     canJ := c.b.len == j, nw := nw', rxJ := rx', outq := oq }, ba := ba' } S R := by
  have hpx : pX x (inMsgs c.b.inbox) = pX x (inMsgs r) := by rw [h]; exact pX_cons_other x m _ hm
  refine ⟨d.d0, ?_, ?_, ?_, ?_, d.d5⟩
  · intro hl
    dsimp only at hl ⊢
    refine ⟨(d.d1 (by omega)).1, ?_⟩
    simp only [beq_eq_false_iff_ne, ne_eq]; omega
  · intro hl _
    dsimp only at hl ⊢
    rw [← hpx]; exact d.d2 (by omega) hp
  · intro q hq; dsimp only at hq; cases hq
  · intro hk
    dsimp only at hk ⊢
    have hj : c.b.len = j := by simpa using hk
    have := d.d2 (by omega) hp
    rw [(d.d1 (by omega)).1, List.nil_append, ← hpx]
    exact this

/-- A `Push x` is accepted into object `j`. -/
theorem Dir.pushAccB {c : PC} {S R : List Bytes} (d : Dir x j c S R) {dd : Bytes} {r : List WsIn}
    (h : c.b.inbox = .msg (.frame (.push x dd)) :: r) (hcan : c.b.canJ = true) (ba' : List Msg) :
    Dir x j { c with b := { c.b with inbox := r }, ba := ba' } S (R ++ [dd]) := by
  have hlen : ¬ c.b.len ≤ j := fun hl => by have := (d.d1 hl).2; rw [hcan] at this; cases this
  have h4 := d.d4 hcan
  rw [h] at h4; simp only [inMsgs_cons_msg, pX_cons_push] at h4
  have e : ∀ T : List Bytes, R ++ dd :: T = R ++ [dd] ++ T := by intro T; simp
  rw [e] at h4
  refine ⟨d.d0, fun hl => absurd hl hlen, fun hl => absurd hl hlen, ?_, ?_, ?_⟩
  · intro q hq
    have := (d.d3 q hq).1
    simp only [PC.live] at this; rw [h] at this
    rw [inMsgs_cons_msg, List.cons_append, List.cons_append, guarded_push_cons] at this; cases this
  · intro _; exact h4
  · by_cases ho : c.abOpen = true
    · have := h4.1 ho; rw [← this, List.append_assoc]; exact List.prefix_append _ _
    · exact List.IsPrefix.trans (List.prefix_append _ _) (h4.2 (by simpa using ho))

/-- After a refused `Push x` the right side cannot create a stream object for `x` any more. -/
theorem Pot.pushRejB (hex : ¬(ownA ∧ ownB)) {c : PC} {S R : List Bytes} (hc : CoreS ownA ownB (sm x c))
    (d : Dir x j c S R) {dd : Bytes} {r : List WsIn} (h : c.b.inbox = .msg (.frame (.push x dd)) :: r)
    {s : Option Slot} (hs : (s = c.b.slot ∧ c.b.canJ = false) ∨ s = none) (ba' : List Msg) :
    (∀ q, s ≠ some (.requested q)) ∧
      ¬ Pot x { c with b := { c.b with inbox := r, slot := s, canJ := false }, ba := ba' } := by
  have hap : 1 ≤ cAP x c.path := by
    simp only [PC.path]; rw [h]
    simp [inMsgs, cAP_cons, cAP_append, isAP, isPush]
  obtain ⟨hca, hcb, hcp, _⟩ := core_push hex hc hap
  have hca : c.a.cnt = 0 := hca
  have hcb : c.b.cnt = 0 := hcb
  have hcp : cC x c.path = 0 := hcp
  have hnoreq : ∀ q, s ≠ some (.requested q) := by
    intro q hq
    have hq' : c.b.slot = some (.requested q) := by
      rcases hs with ⟨hs, _⟩ | hs
      · rw [← hs, hq]
      · rw [hs] at hq; cases hq
    have := (d.d3 q hq').1
    simp only [PC.live] at this; rw [h] at this
    rw [inMsgs_cons_msg, List.cons_append, List.cons_append, guarded_push_cons] at this; cases this
  refine ⟨hnoreq, ?_⟩
  rintro (hp | hp | ⟨q, hp⟩ | hp)
  · dsimp only at hp; omega
  · dsimp only at hp; omega
  · exact hnoreq q hp
  · have h1 : hasConn x c.path = true := by
      simp only [PC.path] at hp ⊢; rw [h]; exact hasConn_inMsgs_cons x _ r _ _ hp
    have := (hasConn_iff x _).1 h1
    omega

/-- A `Push x` is not accepted into object `j`. -/
theorem Dir.pushRejB (hex : ¬(ownA ∧ ownB)) {c : PC} {S R : List Bytes} (hc : CoreS ownA ownB (sm x c))
    (d : Dir x j c S R) {dd : Bytes} {r : List WsIn} (h : c.b.inbox = .msg (.frame (.push x dd)) :: r)
    {s : Option Slot} (hs : (s = c.b.slot ∧ c.b.canJ = false) ∨ s = none) (ba' : List Msg) :
    Dir x j { c with b := { c.b with inbox := r, slot := s, canJ := false }, ba := ba' } S R := by
  obtain ⟨hnoreq, hnp⟩ := Pot.pushRejB hex hc d h hs ba'
  exact ⟨d.d0, fun hl => ⟨(d.d1 hl).1, rfl⟩, fun _ hp => absurd hp hnp, fun q hq => absurd hq (hnoreq q),
    fun hk => (by cases hk), d.d5⟩

/-- The wind-down of the right side drops what its source still had. -/
theorem Dir.clearInboxB (hex : ¬(ownA ∧ ownB)) {c : PC} {S R : List Bytes} (hc : CoreS ownA ownB (sm x c))
    (d : Dir x j c S R) (ba' : List Msg) :
    Dir x j { c with b := { c.b with inbox := [], slot := none, canJ := false }, ba := ba' } S R := by
  have key : Pot x { c with b := { c.b with inbox := [], slot := none, canJ := false }, ba := ba' } →
      Pot x c ∧ cAP x c.path = 0 := by
    rintro (hp | hp | ⟨q, hp⟩ | hp)
    · exact ⟨Or.inl hp, (core_fresh hc (Or.inl hp)).1⟩
    · exact ⟨Or.inr (Or.inl hp), (core_fresh hc (Or.inr hp)).1⟩
    · cases hp
    · have h1 : hasConn x c.path = true := by
        simp only [PC.path, inMsgs, List.nil_append] at hp ⊢
        rw [List.append_assoc, hasConn_append, hp]; simp
      refine ⟨Or.inr (Or.inr (Or.inr h1)), ?_⟩
      rcases core_conn hc ((hasConn_iff x _).1 h1) with h2 | h2
      · exact h2.1
      · exact absurd h2 hex
  refine ⟨d.d0, fun hl => ⟨(d.d1 hl).1, rfl⟩, ?_, fun q hq => (by cases hq), fun hk => (by cases hk), d.d5⟩
  intro hl hp
  obtain ⟨hp, hap⟩ := key hp
  have h2 := d.d2 hl hp
  simp only [PC.path, cAP_append] at hap
  have h1 : pX x (inMsgs c.b.inbox) = [] := pX_of_cAP x _ (by omega)
  rw [h1] at h2
  exact ⟨h2.1, fun _ => List.nil_prefix⟩

/-- A `Finish x` is processed at the right side: object `j` stops accepting; a pending slot is released. -/
theorem Dir.popFinB {c : PC} {S R : List Bytes} (d : Dir x j c S R) {r : List WsIn} {s : Option Slot}
    (h : c.b.inbox = .msg (.frame (.finish x)) :: r)
    (hs : (∃ i, c.b.slot = some (.established i) ∧ s = c.b.slot) ∨ ((∀ i, c.b.slot ≠ some (.established i)) ∧ s = none))
    (ba' : List Msg) :
    Dir x j { c with b := { c.b with inbox := r, slot := s, canJ := false }, ba := ba' } S R := by
  have hnoreq : ∀ q, s ≠ some (.requested q) := by
    intro q hq
    rcases hs with ⟨i, h1, h2⟩ | ⟨_, h2⟩
    · rw [h2, h1] at hq; cases hq
    · rw [h2] at hq; cases hq
  have hw : ∀ m, WsIn.msg (.frame (.finish x)) = .msg m → isPush x m = false := by
    intro m hm; cases hm; rfl
  refine d.transB rfl rfl rfl (Nat.le_refl _) (fun hk => by cases hk) ?_ (fun q hq => absurd hq (hnoreq q)) ?_ ?_
  · refine Pot.mono (Nat.le_refl _) (Nat.le_refl _) (fun q hq => absurd hq (hnoreq q)) ?_
    simp only [PC.path]; rw [h]; exact hasConn_inMsgs_cons x _ r _ _
  · intro _; dsimp only; rw [h, pX_inMsgs_cons x _ r hw]
  · intro _; dsimp only; rw [h, pX_inMsgs_cons x _ r hw]

/-- The right view acts. -/
theorem Dir.actB (hex : ¬(ownA ∧ ownB)) {c : PC} {S R : List Bytes} {v : View} {ws : List Msg} {acc : List Bytes}
    {xl : List XL} (hc : CoreS ownA ownB (sm x c)) (d : Dir x j c S R) (h : AStep x j c.b v ws acc xl)
    (hn : v.rngNil = false) (ba' : List Msg) : Dir x j { c with b := v, ba := ba' } S (R ++ acc) := by
  cases h with
  | emit m r h => rw [List.append_nil]; exact d.of_eq rfl rfl rfl rfl rfl rfl rfl rfl rfl rfl rfl
  | sendClose => rw [List.append_nil]; exact d.of_eq rfl rfl rfl rfl rfl rfl rfl rfl rfl rfl rfl
  | enq m hc h1 h3 h4 h5 h2 => rw [List.append_nil]; exact d.of_eq rfl rfl rfl rfl rfl rfl rfl rfl rfl rfl rfl
  | enqPush dd hc hw => rw [List.append_nil]; exact d.of_eq rfl rfl rfl rfl rfl rfl rfl rfl rfl rfl rfl
  | enqFinS hc hw => rw [List.append_nil]; exact d.of_eq rfl rfl rfl rfl rfl rfl rfl rfl rfl rfl rfl
  | enqFinB hc hb => rw [List.append_nil]; exact d.of_eq rfl rfl rfl rfl rfl rfl rfl rfl rfl rfl rfl
  | rng k n hk hn' =>
    rw [List.append_nil]
    exact d.transB rfl rfl rfl (Nat.le_refl _) id (Pot.mono (Nat.le_refl _) hk (fun q hq => ⟨q, hq⟩) id)
      (fun q hq => ⟨q, hq, id, id⟩) (fun _ => rfl) (fun _ => rfl)
  | draw k n s m hk hn' hd hs ho hkind =>
    rw [List.append_nil]
    have hk' : k < c.b.cnt := by
      rcases hd with hd | hd
      · exact hd
      · simp only at hn; rw [hd] at hn; cases hn
    exact d.drawB hc (by omega) k n s _ ba'
  | pop w r h hw =>
    rw [List.append_nil]
    exact d.popB h (fun m hm => (hw m hm).2.2.1) (Or.inl fun m hm => (hw m hm).2.1) _ ba'
  | popFin r s h hs => rw [List.append_nil]; exact d.popFinB h hs ba'
  | popBind m r b h hm hb =>
    rw [List.append_nil]
    have hk := isBind_kinds hm
    have hap : isAck x m = false ∧ isPush x m = false := by
      have := hk.2; simp only [isAP, Bool.or_eq_false_iff] at this; exact this
    have := d.popB h (fun m' hm' => by cases hm'; exact hap.2) (Or.inl fun m' hm' => by cases hm'; exact hap.1)
      c.b.srcEnded ba'
    exact this.of_eq rfl rfl rfl rfl rfl rfl rfl rfl rfl rfl rfl
  | degrade s k w b rx hs hk hkeep hw hb hr =>
    rw [List.append_nil]
    have hslot : ∀ q, s = some (.requested q) → c.b.slot = some (.requested q) := by
      intro q hq
      rcases hs with hs | hs
      · rw [← hs, hq]
      · rw [hs] at hq; cases hq
    exact d.transB rfl rfl rfl (Nat.le_refl _) (fun h => (hk h).1)
      (Pot.mono (Nat.le_refl _) (Nat.le_refl _) (fun q hq => ⟨q, hslot q hq⟩) id)
      (fun q hq => ⟨q, hslot q hq, id, id⟩) (fun _ => rfl) (fun _ => rfl)
  | connRej m r h hm =>
    rw [List.append_nil]
    exact d.popB h (fun m' hm' => by cases hm'; exact isConn_not_push hm)
      (Or.inl fun m' hm' => by cases hm'; exact isConn_not_ack hm) c.b.srcEnded ba'
  | connNew m r n h hm hs =>
    rw [List.append_nil]
    refine d.newB (Or.inr (Or.inr (Or.inr ?_))) h (isConn_not_push hm) _ _ _ _ _ ba'
    simp only [PC.path, hasConn_append]; rw [h]
    simp [inMsgs, hasConn, hm]
  | ackNew m r q h hm hs =>
    rw [List.append_nil]
    exact d.newB (Or.inr (Or.inr (Or.inl ⟨q, hs⟩))) h (isAck_not_push hm) _ _ _ _ c.b.outq ba'
  | ackOld m r h hm hs =>
    rw [List.append_nil]
    exact d.popB h (fun m' hm' => by cases hm'; exact isAck_not_push hm) (Or.inr hs) c.b.srcEnded ba'
  | pushAcc dd r h hcan => exact d.pushAccB h hcan ba'
  | pushRej dd r s h hs => rw [List.append_nil]; exact d.pushRejB hex hc h hs ba'
  | grow n h =>
    rw [List.append_nil]
    exact d.transB rfl rfl rfl h id id (fun q hq => ⟨q, hq, id, id⟩) (fun _ => rfl) (fun _ => rfl)
  | clearInbox => rw [List.append_nil]; exact d.clearInboxB hex hc ba'
  | closeOut => rw [List.append_nil]; exact d.of_eq rfl rfl rfl rfl rfl rfl rfl rfl rfl rfl rfl
  | clearOutq => rw [List.append_nil]; exact d.of_eq rfl rfl rfl rfl rfl rfl rfl rfl rfl rfl rfl

/-! ### Deliveries to the right view -/

/-- The oldest message on the wire is delivered to the right side (which listens). -/
theorem Dir.dlvB {c : PC} {S R : List Bytes} (d : Dir x j c S R) {m : Msg} {rest : List Msg} (h : c.ab = m :: rest)
    (ho : c.abOpen = true) :
    Dir x j { c with ab := rest, b := { c.b with inbox := c.b.inbox ++ [.msg m] } } S R := by
  have hl : inMsgs (c.b.inbox ++ [.msg m]) ++ rest = inMsgs c.b.inbox ++ c.ab := by
    rw [h, inMsgs_append]; simp [inMsgs]
  refine d.transB rfl rfl rfl (Nat.le_refl _) id ?_ ?_ ?_ ?_
  · refine Pot.mono (Nat.le_refl _) (Nat.le_refl _) (fun q hq => ⟨q, hq⟩) ?_
    simp only [PC.path]; rw [hl]; exact id
  · intro q hq
    refine ⟨q, hq, ?_, ?_⟩
    · simp only [PC.live]; rw [hl]; exact id
    · simp only [PC.live]; rw [hl]; exact id
  · intro _
    dsimp only
    rw [← pX_append, ← pX_append, hl]
  · intro hf; rw [ho] at hf; cases hf

/-- The wire to the right side ends: what the right side could do afterwards it could do before. -/
theorem Pot.closeB {c : PC} {I' : List WsIn} {E T : List Msg}
    (hI : inMsgs I' = inMsgs c.b.inbox ++ E) (hE : c.ab = E ++ T) :
    Pot x { c with ab := [], abOpen := false, b := { c.b with inbox := I' } } → Pot x c := by
  refine Pot.mono (Nat.le_refl _) (Nat.le_refl _) (fun q hq => ⟨q, hq⟩) ?_
  simp only [PC.path]
  rw [hI, hE, List.append_nil]
  simp only [hasConn_append, Bool.or_eq_true]
  grind

/-- The wire to the right side ends (a delivered Close, or a cut): what was on it is lost. -/
theorem Dir.closeB {c : PC} {S R : List Bytes} (d : Dir x j c S R) {I' : List WsIn} {E T : List Msg}
    (hI : inMsgs I' = inMsgs c.b.inbox ++ E) (hE : c.ab = E ++ T) (hpE : pX x E = []) :
    Dir x j { c with ab := [], abOpen := false, b := { c.b with inbox := I' } } S R := by
  have hpx : pX x (inMsgs I') = pX x (inMsgs c.b.inbox) := by rw [hI, pX_append, hpE, List.append_nil]
  have hpot := Pot.closeB (x := x) hI hE
  refine ⟨d.d0, d.d1, ?_, ?_, ?_, d.d5⟩
  · intro hl hp
    have h2 := d.d2 hl (hpot hp)
    refine ⟨fun hf => (by cases hf), fun _ => ?_⟩
    dsimp only
    rw [hpx]
    by_cases ho : c.abOpen = true
    · rw [← h2.1 ho]; exact List.prefix_append _ _
    · exact h2.2 (by simpa using ho)
  · intro q hq
    refine ⟨?_, fun _ hf => by cases hf⟩
    have h3 := (d.d3 q hq).1
    simp only [PC.live] at h3 ⊢
    rw [hE, ← List.append_assoc, List.append_assoc (inMsgs c.b.inbox ++ E), ← hI] at h3
    have := guarded_prefix x _ _ h3
    simpa using this
  · intro hk
    have h4 := d.d4 hk
    refine ⟨fun hf => (by cases hf), fun _ => ?_⟩
    dsimp only
    rw [hpx]
    by_cases ho : c.abOpen = true
    · rw [← h4.1 ho]; exact List.prefix_append _ _
    · exact h4.2 (by simpa using ho)

/-- The byte invariant is preserved by every small step in which the right side acts or receives. -/
theorem Dir.stepB (hex : ¬(ownA ∧ ownB)) {c c'' : PC} {S R : List Bytes} {ws : List Msg} {acc : List Bytes} {xl : List XL}
    (hc : CoreS ownA ownB (sm x c)) (hw : Wires c) (d : Dir x j c S R) (st : CStepL x j c.swap c'' ws acc xl)
    (hn : c''.a.rngNil = false) : Dir x j c''.swap S (R ++ acc) := by
  cases st with
  | act v ws acc xl h => exact Dir.actB hex hc d h hn _
  | dlv m rest h hm =>
    have h : c.ab = m :: rest := h
    have ho : c.abOpen = true := by
      cases ho : c.abOpen with
      | true => rfl
      | false => have := hw.closedAB ho; rw [h] at this; cases this
    have hdf : ¬ deaf c.b = true := fun hd => by have := hw.deafB hd; rw [ho] at this; cases this
    rw [List.append_nil]
    have := d.dlvB h ho
    show Dir x j { c with ab := rest, b := { c.b with inbox := if deaf c.b = true then c.b.inbox else c.b.inbox ++ [.msg m] } } S R
    rw [if_neg hdf]; exact this
  | dlvClose rest h =>
    have h : c.ab = .close :: rest := h
    have ho : c.abOpen = true := by
      cases ho : c.abOpen with
      | true => rfl
      | false => have := hw.closedAB ho; rw [h] at this; cases this
    rw [List.append_nil]
    refine d.closeB (E := [.close]) (T := rest) ?_ h rfl
    show inMsgs (if deaf c.b = true then c.b.inbox else c.b.inbox ++ [.msg .close, .eof]) = _
    split
    · have := hw.deafB ‹_›; rw [ho] at this; cases this
    · rw [inMsgs_append]; rfl
  | cut w hw' =>
    rw [List.append_nil]
    refine d.closeB (E := []) (T := c.ab) ?_ rfl rfl
    show inMsgs (if deaf c.b = true then c.b.inbox else c.b.inbox ++ [w]) = _
    have hw'' : inMsgs [w] = [] := by cases w <;> first | rfl | (simp [isEnd] at hw')
    split
    · rw [List.append_nil]
    · rw [inMsgs_append, hw'']

end Penguin.PairAll
