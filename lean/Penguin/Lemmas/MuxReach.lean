/-
The invariant `Inv2` (well-formed flow table / object store; no established slot once the task has
finished) is preserved by every stimulus of the endpoint model, hence holds in every reachable state.
-/
import Penguin.Lemmas.MuxWF

namespace Penguin.Mux

/-- `e'` is `e` after an action that neither finishes the task nor creates a stream. -/
structure Step (e e' : EP) : Prop where
  wf : WF e → WF e'
  dead : e'.dead = e.dead
  ns : NoStreams e → NoStreams e'

theorem Step.inv2 {e e' : EP} (s : Step e e') (h : Inv2 e) : Inv2 e' :=
  ⟨s.wf h.1, fun hd => s.ns (h.2 (by rw [← s.dead]; exact hd))⟩

theorem Step.refl (e : EP) : Step e e := ⟨id, rfl, id⟩

theorem Step.trans {a b c : EP} (s : Step a b) (t : Step b c) : Step a c :=
  ⟨fun h => t.wf (s.wf h), by rw [t.dead, s.dead], fun h => t.ns (s.ns h)⟩

/-- `trans` with the later step first (its type determines the intermediate state). -/
theorem Step.after {a b c : EP} (t : Step b c) (s : Step a b) : Step a c := s.trans t

theorem Step.same {e e' : EP} (hf : e'.flows = e.flows) (ho : e'.objs = e.objs) (hd : e'.dead = e.dead) :
    Step e e' :=
  ⟨fun h => WF_of h hf ho, hd, by intro h fid i; rw [hf]; exact h fid i⟩

theorem Step.modObj (e : EP) (i : Nat) (f : Obj → Obj) (hmono : ∀ o, (f o).live → o.live) :
    Step e (e.modObj i f) :=
  ⟨WF_modObj i f hmono, rfl, id⟩

theorem Step.enqFrame (e : EP) (f : Frame) : Step e (e.enqFrame f) :=
  Step.same (by simp [EP.enqFrame]) (by simp [EP.enqFrame]) (by simp [EP.enqFrame])

theorem Step.insertPending (e : EP) (fid : Nat) (s : Slot) (hs : ∀ i, s ≠ .established i)
    (hfree : lookup e.flows fid = none) : Step e { e with flows := insert e.flows fid s } :=
  ⟨WF_insert_pending fid s hs hfree, rfl, by
    intro h f i hf
    by_cases hff : f = fid
    · subst hff; simp only [lookup_insert_self, Option.some.injEq] at hf; exact hs i hf
    · simp only [lookup_insert_ne _ _ _ _ hff] at hf; exact h f i hf⟩

theorem Step.openRound (e : EP) (r : OpenReq) : Step e (openRound e r).1 :=
  ⟨WF_openRound r, openRound_dead e r, noStreams_openRound r⟩

theorem Step.sendSome (e : EP) : Step e (sendSome e).1 := by
  unfold Mux.sendSome
  split <;> exact Step.same rfl rfl rfl

/-! ### The open futures -/

theorem Step.runRetries (e : EP) (l : List Nat) : Step e (runRetries e l).1 := by
  induction l generalizing e with
  | nil => exact Step.refl e
  | cons req rest ih =>
    unfold Mux.runRetries
    split
    · exact ih e
    · rename_i r _
      exact (Step.openRound e r).trans (ih _)

theorem Step.runDone (e : EP) (l : List (Nat × Nat)) : Step e (runDone e l).1 := by
  induction l generalizing e with
  | nil => exact Step.refl e
  | cons x rest ih =>
    obtain ⟨req, i⟩ := x
    unfold Mux.runDone
    exact (Step.same rfl rfl rfl : Step e { e with handles := e.handles ++ [i] }).trans (ih _)

/-! ### The task's run to quiescence -/

theorem Step.hold (e : EP) (c : Bool) : Step e (if c then (e, ([] : List Ev)) else Mux.sendSome e).1 := by
  split
  · exact Step.refl e
  · exact Step.sendSome e

theorem settle_inv (e : EP) (h : Inv2 e) : Inv2 (settle e).1 := by
  have h1 := settleLoop_inv (2 * e.inbox.length + e.droppedq.length + 2) e [] h
  unfold settle
  generalize settleLoop (2 * e.inbox.length + e.droppedq.length + 2) e [] = r1 at h1
  obtain ⟨e1, evs1⟩ := r1
  simp only
  have s1 := Step.hold e1 (e1.dead || e1.draining.isSome)
  generalize (if (e1.dead || e1.draining.isSome) = true then (e1, ([] : List Ev)) else Mux.sendSome e1) = r2 at s1
  obtain ⟨e2, w2⟩ := r2
  simp only at s1 ⊢
  have s2 : Step e2 (runDone { e2 with doneq := [] } (e2.doneq.foldr insertDone [])).1 :=
    (Step.same rfl rfl rfl : Step e2 { e2 with doneq := [] }).trans (Step.runDone _ _)
  generalize runDone { e2 with doneq := [] } (e2.doneq.foldr insertDone []) = r3 at s2
  obtain ⟨e3, w3⟩ := r3
  simp only at s2 ⊢
  have s3 : Step e3 (runRetries { e3 with retryq := [] } (sortNat e3.retryq)).1 :=
    (Step.same rfl rfl rfl : Step e3 { e3 with retryq := [] }).trans (Step.runRetries _ _)
  generalize runRetries { e3 with retryq := [] } (sortNat e3.retryq) = r4 at s3
  obtain ⟨e4, w4⟩ := r4
  simp only at s3 ⊢
  have s4 := Step.hold e4 (e4.dead || e4.draining.isSome)
  exact (((s1.trans s2).trans s3).trans s4).inv2 h1

/-! ### Application calls -/

theorem handleObj_some {e : EP} {h i : Nat} {o : Obj} (hh : e.handleObj h = some (i, o)) :
    e.objs[i]? = some o := by
  unfold EP.handleObj at hh
  split at hh
  · cases hh
  · split at hh
    · cases hh
    · simp at hh; obtain ⟨rfl, rfl⟩ := hh; assumption

theorem Step.appWrite (e : EP) (h : Nat) (d : Bytes) : Step e (appWrite e h d).1 := by
  unfold Mux.appWrite
  split
  · exact Step.refl e
  · split
    · exact Step.modObj e _ _ (fun o hl => hl)
    · split
      · exact Step.modObj e _ _ (fun o hl => hl)
      · split
        · exact Step.modObj e _ _ (fun o hl => hl)
        · split
          · exact Step.modObj e _ _ (fun o hl => hl)
          · exact (Step.enqFrame _ _).after (Step.modObj e _ _ (fun o hl => hl))

theorem Step.ackStep (e : EP) (i : Nat) (o : Obj) : Step e (ackStep e i o) := by
  unfold Mux.ackStep
  split
  · exact (Step.enqFrame _ _).after (Step.modObj e _ _ (fun o hl => hl))
  · exact Step.modObj e _ _ (fun o hl => hl)

theorem Step.fillBuf (fuel : Nat) (e : EP) (i : Nat) : Step e (fillBuf fuel e i).1 := by
  induction fuel generalizing e with
  | zero => exact Step.refl e
  | succ n ih =>
    unfold Mux.fillBuf
    split
    · exact Step.refl e
    · split
      · exact Step.refl e
      · split
        · rename_i _ o _ _ _ f rest _
          have s := (Step.modObj e i (fun o => { o with rxq := rest, buf := f }) (fun o hl => hl)).trans
            (Step.ackStep _ i { o with rxq := rest, buf := f })
          simp only
          split
          · exact s.trans (ih _)
          · exact s
        · split
          · exact Step.refl e
          · exact Step.modObj e _ _ (fun o hl => hl)

theorem Step.appRead (e : EP) (h n : Nat) : Step e (appRead e h n).1 := by
  unfold Mux.appRead
  split
  · exact Step.refl e
  · rename_i i o _
    have s := Step.fillBuf (o.rxq.length + 2) e i
    split
    · rename_i e' b heq
      rw [heq] at s
      exact s.trans (Step.modObj _ _ _ (fun o hl => hl))
    · exact s

theorem Step.appShutdown (e : EP) (h : Nat) : Step e (appShutdown e h).1 := by
  unfold Mux.appShutdown
  split
  · exact Step.refl e
  · split
    · exact Step.modObj e _ _ (fun o hl => hl)
    · refine (Step.enqFrame _ _).after (Step.modObj e _ _ ?_)
      intro o hl
      unfold Obj.live at hl ⊢
      simp at hl
      exact Or.inl hl

theorem Step.appDropStream (e : EP) (h : Nat) : Step e (appDropStream e h).1 := by
  unfold Mux.appDropStream
  split
  · exact Step.refl e
  · simp only
    split
    · exact Step.modObj e _ _ (fun o hl => hl)
    · exact (Step.modObj e _ (fun o => { o with rxOpen := false, rxq := [], parked := false })
        (fun o hl => hl)).trans (Step.same rfl rfl rfl)

theorem Step.appAccept (e : EP) : Step e (appAccept e).1 := by
  unfold Mux.appAccept
  split
  · split
    · exact Step.same rfl rfl rfl
    · exact Step.refl e
  · split <;> exact Step.refl e

theorem Step.appSendDgram (e : EP) (d : Dgram) : Step e (appSendDgram e d).1 := by
  unfold Mux.appSendDgram
  split
  · exact Step.refl e
  · split
    · exact Step.refl e
    · exact Step.enqFrame _ _

theorem Step.appRecvDgram (e : EP) : Step e (appRecvDgram e).1 := by
  unfold Mux.appRecvDgram
  split
  · exact Step.same rfl rfl rfl
  · split <;> exact Step.refl e

theorem Step.appBindReq (e : EP) (req : Nat) (bt : BindType) (host : Bytes) (port : Nat) :
    Step e (appBindReq e req bt host port).1 := by
  unfold Mux.appBindReq
  split
  · exact Step.refl e
  · rename_i fid rng' fb' hd
    split
    · exact Step.same rfl rfl rfl
    · have s : Step e { e with rng := rng', fallback := fb', flows := insert e.flows fid (.bindRequested req) } :=
        (Step.insertPending e fid (.bindRequested req) (by intro i hc; cases hc) (drawId_spec _ _ _ _ _ _ _ hd).2).trans (Step.same rfl rfl rfl)
      exact s.trans (Step.enqFrame _ _)

theorem Step.appBindNext (e : EP) : Step e (appBindNext e).1 := by
  unfold Mux.appBindNext
  split
  · exact Step.refl e
  · split
    · exact Step.same rfl rfl rfl
    · split <;> exact Step.refl e

theorem Step.appBindReply (e : EP) (k : Nat) (a : Bool) : Step e (appBindReply e k a).1 := by
  unfold Mux.appBindReply
  split
  · exact Step.refl e
  · split
    · exact Step.refl e
    · split
      · exact Step.refl e
      · exact (Step.enqFrame e _).trans (Step.same rfl rfl rfl)

theorem Step.appBindDrop (e : EP) (k : Nat) : Step e (appBindDrop e k).1 := by
  unfold Mux.appBindDrop
  split
  · exact Step.refl e
  · split
    · exact Step.refl e
    · simp only
      split
      · exact Step.same rfl rfl rfl
      · exact (Step.enqFrame _ _).after (Step.same rfl rfl rfl)

theorem Step.foldEnq (l : List BindIn) (e : EP) :
    Step e (l.foldl (fun e b => e.enqFrame (.reset b.fid)) e) := by
  induction l generalizing e with
  | nil => exact Step.refl e
  | cons b rest ih => exact (Step.enqFrame e _).trans (ih _)

theorem Step.appDropMux (e : EP) : Step e (appDropMux e).1 := by
  unfold Mux.appDropMux
  simp only
  have s1 : Step e { e with muxAlive := false, droppedq := if e.dead then e.droppedq else e.droppedq ++ [0] } :=
    Step.same rfl rfl rfl
  exact (s1.trans (Step.foldEnq e.bindq _)).trans (Step.same rfl rfl rfl)

theorem Step.opStep (e : EP) (op : Op) : Step e (opStep e op).1 := by
  cases op with
  | «open» req host port =>
    simp only [Mux.opStep]
    split
    · exact Step.refl e
    · exact Step.openRound e _
  | accept => exact Step.appAccept e
  | write h d => exact Step.appWrite e h d
  | read h n => exact Step.appRead e h n
  | shutdown h => exact Step.appShutdown e h
  | dropStream h => exact Step.appDropStream e h
  | sendDgram d => exact Step.appSendDgram e d
  | recvDgram => exact Step.appRecvDgram e
  | bindReq req bt host port => exact Step.appBindReq e req bt host port
  | bindNext => exact Step.appBindNext e
  | bindReply k a => exact Step.appBindReply e k a
  | bindDrop k => exact Step.appBindDrop e k
  | dropMux => exact Step.appDropMux e
  | sinkRoom n => exact Step.same rfl rfl rfl
  | cancelOpen req => exact Step.same rfl rfl rfl
  | deliver w =>
    simp only [Mux.opStep]
    split
    · exact Step.refl e
    · split <;> exact Step.same rfl rfl rfl

/-! ### Every reachable state -/

theorem applyOp_inv (e : EP) (op : Op) (h : Inv2 e) : Inv2 (applyOp e op).1 := by
  have h1 := (Step.opStep e op).inv2 h
  unfold applyOp
  generalize Mux.opStep e op = r at h1
  obtain ⟨e1, r1, evs1⟩ := r
  exact settle_inv e1 h1

theorem runOps_inv (e : EP) (ops : List Op) (h : Inv2 e) : Inv2 (runOps e ops) := by
  induction ops generalizing e with
  | nil => exact h
  | cons op rest ih => exact ih _ (applyOp_inv e op h)

theorem init_inv (o : Opts) : Inv2 { opts := o } :=
  ⟨WF_init o, by intro hd; simp at hd⟩

/-- Every state an endpoint reaches, by any sequence of stimuli, is well-formed; once its task has
    finished, no flow refers to a stream object. -/
theorem reachable_inv (o : Opts) (ops : List Op) : Inv2 (runOps { opts := o } ops) :=
  runOps_inv _ ops (init_inv o)

/-- … hence every stream object is closed in both directions (`Obj.closed`) in every reachable state
    whose task has finished. -/
theorem reachable_dead_all_closed (o : Opts) (ops : List Op)
    (hd : (runOps { opts := o } ops).dead = true) :
    ∀ (i : Nat) (ob : Obj), (runOps { opts := o } ops).objs[i]? = some ob → ob.closed := by
  intro i ob hob
  have h := reachable_inv o ops
  rw [Obj.closed_iff_not_live]
  intro hl
  obtain ⟨fid, hf⟩ := h.1.live i ob hob hl
  exact h.2 hd fid i hf

end Penguin.Mux
