/-
How the ghost logs of the link model move, action by action, and the simulation of the link model
by the pipe specification (used by `Props/C01.lean`).
-/
import Penguin.Model.Link
import Penguin.Lemmas.Link
import Penguin.Spec.Pipe

namespace Penguin.LinkPipe
open Penguin Penguin.Link
open Penguin.Spec

/-- The simulation relation: the pipe's logs are the link's ghost logs. -/
structure R (s : Link.St) (p : Pipe.St) : Prop where
  inp : p.input = s.accepted
  out : p.output = s.delivered
  ph : p.phase = .open ↔ s.sFin = false
  eof : p.eof = s.eofSeen

theorem run_append (p : Pipe.St) (a b : List Pipe.Act) :
    Pipe.run p (a ++ b) = (Pipe.run p a).bind (fun q => Pipe.run q b) := by
  induction a generalizing p with
  | nil => simp [Pipe.run]
  | cons x rest ih =>
    simp only [List.cons_append, Pipe.run]
    cases Pipe.step p x with
    | none => simp
    | some q => simp [ih]

/-- The reading action under the invariant, in closed form. -/
theorem read_cases (s : Link.St) (n : Nat) (h : Inv s) :
    ((step s (.read n)).1.accepted = s.accepted ∧ (step s (.read n)).1.sFin = s.sFin) ∧
    (((step s (.read n)).1.delivered = s.delivered ∧ (step s (.read n)).1.eofSeen = s.eofSeen) ∨
     (∃ bs, (step s (.read n)).1.delivered = s.delivered ++ bs ∧ (step s (.read n)).1.eofSeen = s.eofSeen ∧
        (s.buf ≠ [] ∨ s.rxq ≠ [])) ∨
     ((step s (.read n)).1.delivered = s.delivered ∧ (step s (.read n)).1.eofSeen = true)) := by
  simp only [step]
  rw [fill_one _ _ h.hne_rxq]
  by_cases hb : s.buf.isEmpty = true
  · simp only [hb, Bool.not_true, Bool.false_eq_true, if_false]
    cases hq : s.rxq with
    | nil =>
      simp only [Bool.false_eq_true, if_false]
      by_cases hal : s.rAlive = true
      · simp [hal]
      · simp [hal]
    | cons f rest =>
      have c := countFrame_fields { s with rxq := rest, buf := f }
      simp only [if_true]
      generalize countFrame { s with rxq := rest, buf := f } = s1 at c ⊢
      simp only at c
      obtain ⟨_, _, _, _, _, _, c7, _, _, c10, c11, c12, _, _, _⟩ := c
      exact ⟨⟨c11, c7⟩, Or.inr (Or.inl ⟨s1.buf.take n, by rw [c12], c10, Or.inr (by simp)⟩)⟩
  · have hb' : s.buf ≠ [] := by
      intro e; simp [e] at hb
    have hb2 : (!s.buf.isEmpty) = true := by simpa using hb
    refine ⟨⟨?_, ?_⟩, Or.inr (Or.inl ⟨s.buf.take n, ?_, ?_, Or.inl hb'⟩)⟩ <;> simp [hb2]

theorem write_cases (s : Link.St) (d : Bytes) :
    (step s (.write d)).1.delivered = s.delivered ∧ (step s (.write d)).1.sFin = s.sFin ∧
    (step s (.write d)).1.eofSeen = s.eofSeen ∧
    ((step s (.write d)).1.accepted = s.accepted ∨
     (s.sFin = false ∧ (step s (.write d)).1.accepted = s.accepted ++ d)) := by
  simp only [step]
  split
  · exact ⟨rfl, rfl, rfl, Or.inl rfl⟩
  · rename_i hf
    split
    · exact ⟨rfl, rfl, rfl, Or.inl rfl⟩
    · split
      · exact ⟨rfl, rfl, rfl, Or.inl rfl⟩
      · exact ⟨rfl, rfl, rfl, Or.inr ⟨by simpa using hf, rfl⟩⟩

theorem end_cases (s : Link.St) (a : Act) (ha : a = .shutdown ∨ a = .abort) :
    (step s a).1.delivered = s.delivered ∧ (step s a).1.accepted = s.accepted ∧
    (step s a).1.eofSeen = s.eofSeen ∧ (step s a).1.sFin = true := by
  rcases ha with rfl | rfl <;> simp only [step] <;> split <;> simp_all

theorem transit_cases (s : Link.St) (a : Act) (ha : a = .deliver ∨ a = .deliverAck) :
    (step s a).1.delivered = s.delivered ∧ (step s a).1.accepted = s.accepted ∧
    (step s a).1.eofSeen = s.eofSeen ∧ (step s a).1.sFin = s.sFin := by
  rcases ha with rfl | rfl
  · simp only [step]
    repeat' split
    all_goals exact ⟨rfl, rfl, rfl, rfl⟩
  · simp only [step]
    split <;> exact ⟨rfl, rfl, rfl, rfl⟩

/-- At end-of-stream the link has delivered everything and the sender had ended. -/
theorem eof_facts (s : Link.St) (h : Inv s) (he : s.eofSeen = true) : s.sFin = true ∧ s.delivered = s.accepted := by
  obtain ⟨h1, h2, h3⟩ := h.heof he
  refine ⟨?_, ?_⟩
  · cases hs : s.sFin with
    | true => rfl
    | false => have := (h.hopen hs).2; simp [h1] at this
  · have hw := h.hdeadwire h1
    have := h.hdata
    rw [h2, h3, hw] at this
    simpa [pushes] using this

theorem prefix_of_inv (s : Link.St) (h : Inv s) : s.delivered <+: s.accepted := by
  have := h.hdata
  rw [← this, List.append_assoc, List.append_assoc]
  exact List.prefix_append _ _

/-- One link action is matched by zero or one legal pipe action (forward simulation). -/
theorem sim_step (s : Link.St) (p : Pipe.St) (a : Act) (h : Inv s) (r : R s p) :
    ∃ pas q, Pipe.run p pas = some q ∧ R (step s a).1 q ∧ pas.length ≤ 1 := by
  have h' : Inv (step s a).1 := step_inv s a h
  cases a with
  | write d =>
    obtain ⟨c1, c2, c3, c4⟩ := write_cases s d
    rcases c4 with c4 | ⟨hf, c4⟩
    · exact ⟨[], p, rfl, ⟨r.inp.trans c4.symm, r.out.trans c1.symm, by rw [c2]; exact r.ph, r.eof.trans c3.symm⟩, by simp⟩
    · have hopen : p.phase = .open := r.ph.mpr hf
      refine ⟨[.write d], { p with input := p.input ++ d }, by simp [Pipe.run, Pipe.step, hopen], ⟨?_, ?_, ?_, ?_⟩, by simp⟩
      · simp [c4, r.inp]
      · simpa [c1] using r.out
      · simpa [c2] using r.ph
      · simpa [c3] using r.eof
  | shutdown =>
    obtain ⟨c1, c2, c3, c4⟩ := end_cases s .shutdown (Or.inl rfl)
    by_cases hf : s.sFin = false
    · have hopen : p.phase = .open := r.ph.mpr hf
      refine ⟨[.finish], { p with phase := .finished }, by simp [Pipe.run, Pipe.step, hopen], ⟨?_, ?_, ?_, ?_⟩, by simp⟩
      · simpa [c2] using r.inp
      · simpa [c1] using r.out
      · simp [c4]
      · simpa [c3] using r.eof
    · have hnot : p.phase ≠ .open := fun e => hf (r.ph.mp e)
      refine ⟨[], p, rfl, ⟨r.inp.trans c2.symm, r.out.trans c1.symm, ?_, r.eof.trans c3.symm⟩, by simp⟩
      simp [c4, hnot]
  | abort =>
    obtain ⟨c1, c2, c3, c4⟩ := end_cases s .abort (Or.inr rfl)
    by_cases hf : s.sFin = false
    · have hopen : p.phase = .open := r.ph.mpr hf
      refine ⟨[.abort], { p with phase := .aborted }, by simp [Pipe.run, Pipe.step, hopen], ⟨?_, ?_, ?_, ?_⟩, by simp⟩
      · simpa [c2] using r.inp
      · simpa [c1] using r.out
      · simp [c4]
      · simpa [c3] using r.eof
    · have hnot : p.phase ≠ .open := fun e => hf (r.ph.mp e)
      refine ⟨[], p, rfl, ⟨r.inp.trans c2.symm, r.out.trans c1.symm, ?_, r.eof.trans c3.symm⟩, by simp⟩
      simp [c4, hnot]
  | deliver =>
    obtain ⟨c1, c2, c3, c4⟩ := transit_cases s .deliver (Or.inl rfl)
    exact ⟨[], p, rfl, ⟨r.inp.trans c2.symm, r.out.trans c1.symm, by rw [c4]; exact r.ph, r.eof.trans c3.symm⟩, by simp⟩
  | deliverAck =>
    obtain ⟨c1, c2, c3, c4⟩ := transit_cases s .deliverAck (Or.inr rfl)
    exact ⟨[], p, rfl, ⟨r.inp.trans c2.symm, r.out.trans c1.symm, by rw [c4]; exact r.ph, r.eof.trans c3.symm⟩, by simp⟩
  | read n =>
    obtain ⟨⟨ca, cf⟩, c⟩ := read_cases s n h
    rcases c with ⟨cd, ce⟩ | ⟨bs, cd, ce, hne⟩ | ⟨cd, ce⟩
    · exact ⟨[], p, rfl, ⟨r.inp.trans ca.symm, r.out.trans cd.symm, by rw [cf]; exact r.ph, r.eof.trans ce.symm⟩, by simp⟩
    · -- data: legal because the new log is still a prefix, and end-of-stream was not yet seen
      have hpre : (step s (.read n)).1.delivered <+: (step s (.read n)).1.accepted := prefix_of_inv _ h'
      have hnoeof : s.eofSeen = false := by
        cases he : s.eofSeen with
        | false => rfl
        | true =>
          obtain ⟨_, h2, h3⟩ := h.heof he
          rcases hne with hne | hne
          · exact absurd h3 hne
          · exact absurd h2 hne
      have hleg : (p.output ++ bs).isPrefixOf p.input = true := by
        rw [List.isPrefixOf_iff_prefix, r.out, r.inp, ← cd, ← ca]
        exact hpre
      have hpe : p.eof = false := r.eof.trans hnoeof
      refine ⟨[.deliver bs], { p with output := p.output ++ bs }, by simp [Pipe.run, Pipe.step, hleg, hpe], ⟨?_, ?_, ?_, ?_⟩, by simp⟩
      · simpa [ca] using r.inp
      · simp [cd, r.out]
      · simpa [cf] using r.ph
      · simpa [ce] using r.eof
    · -- end-of-stream: legal because the sender had ended and everything was delivered
      obtain ⟨hfin, heq⟩ := eof_facts _ h' ce
      rw [cf] at hfin
      have hnot : p.phase ≠ .open := fun e => by have := r.ph.mp e; rw [hfin] at this; cases this
      have hall : p.output = p.input := by rw [r.out, r.inp, ← cd, ← ca]; exact heq
      refine ⟨[.eof], { p with eof := true }, ?_, ⟨?_, ?_, ?_, ?_⟩, by simp⟩
      · cases hp : p.phase with
        | «open» => exact absurd hp hnot
        | finished => simp [Pipe.run, Pipe.step, hp, hall]
        | aborted => simp [Pipe.run, Pipe.step, hp]
      · simpa [ca] using r.inp
      · simpa [cd] using r.out
      · simpa [cf] using r.ph
      · simp [ce]

theorem sim_run (s : Link.St) (p : Pipe.St) (as : List Act) (h : Inv s) (r : R s p) :
    ∃ pas q, Pipe.run p pas = some q ∧ R (Link.run s as) q ∧ pas.length ≤ as.length := by
  induction as generalizing s p with
  | nil => exact ⟨[], p, rfl, r, by simp⟩
  | cons a rest ih =>
    obtain ⟨pas1, q1, hr1, r1, l1⟩ := sim_step s p a h r
    obtain ⟨pas2, q2, hr2, r2, l2⟩ := ih (step s a).1 q1 (step_inv s a h) r1
    refine ⟨pas1 ++ pas2, q2, ?_, r2, by simp; omega⟩
    rw [run_append, hr1]
    simpa using hr2

end Penguin.LinkPipe
