/-
`Ev.bindDone req .closed` is emitted by `request_bind` itself and by nothing else: not by the connection
task (frames, wind-down, dropped-handle notifications), not by the open futures.  So a bind request resolves
`closed` only at its own call, and only if the outbound queue was closed or no flow id could be drawn.
Core Lean only.
-/
import Penguin.Lemmas.BindAllMain

namespace Penguin.BindAll
open Penguin.Mux Penguin.PairAll

/-- No `bindDone _ closed` among the events. -/
def nc (evs : List Ev) : Bool :=
  evs.all (fun ev => match ev with
    | .bindDone _ .closed => false
    | _ => true)

@[simp] theorem nc_nil : nc [] = true := rfl
@[simp] theorem nc_append (a b : List Ev) : nc (a ++ b) = (nc a && nc b) := by simp [nc]
@[simp] theorem nc_cons_wire (m : Msg) (r : List Ev) : nc (.wire m :: r) = nc r := by simp [nc]
@[simp] theorem nc_cons_wireClose (r : List Ev) : nc (.wireClose :: r) = nc r := by simp [nc]
@[simp] theorem nc_cons_openDone (q : Nat) (x : OpenRes) (r : List Ev) : nc (.openDone q x :: r) = nc r := by simp [nc]
@[simp] theorem nc_cons_exit (x : ExitRes) (r : List Ev) : nc (.exit x :: r) = nc r := by simp [nc]
@[simp] theorem nc_cons_accepted (q : Nat) (r : List Ev) : nc (.bindDone q .accepted :: r) = nc r := by simp [nc]
@[simp] theorem nc_cons_refused (q : Nat) (r : List Ev) : nc (.bindDone q .refused :: r) = nc r := by simp [nc]
@[simp] theorem nc_wires (l : List Msg) : nc (l.map Ev.wire) = true := by simp [nc]
@[simp] theorem nc_openDones (l : List OpenReq) (c : OpenRes) : nc (l.map (fun r => Ev.openDone r.req c)) = true := by
  simp [nc]

@[simp] theorem nc_take_wires (n : Nat) (l : List Msg) : nc (List.take n (l.map Ev.wire)) = true := by
  rw [← List.map_take]; exact nc_wires _

theorem not_mem_of_nc {evs : List Ev} (h : nc evs = true) (r : Nat) : Ev.bindDone r .closed ∉ evs := by
  intro hm
  simp only [nc, List.all_eq_true] at h
  have := h _ hm
  simp at this

theorem nc_openRound (e : EP) (r : OpenReq) : nc (openRound e r).2 = true := by
  unfold Mux.openRound
  repeat' split
  all_goals simp

theorem nc_openRejected (e : EP) (req : Nat) (final : Bool) : nc (openRejected e req final).2 = true := by
  unfold Mux.openRejected
  repeat' split
  all_goals simp

theorem nc_closeLocal (e : EP) (s : Slot) (fid : Nat) (inh final : Bool) : nc (closeLocal e s fid inh final).2 = true := by
  unfold Mux.closeLocal
  cases s with
  | established i => simp only; split <;> simp
  | requested req => exact nc_openRejected e req final
  | bindRequested req => simp

theorem nc_closeFlow (e : EP) (fid : Nat) (inh : Bool) : nc (closeFlow e fid inh).2 = true := by
  unfold Mux.closeFlow
  split
  · simp
  · exact nc_closeLocal _ _ _ _ _

theorem nc_processFrame (e : EP) (f : Frame) (ig : Bool) : nc (processFrame e f ig).2.1 = true := by
  cases f with
  | connect fid rwnd port host => simp only [Mux.processFrame]; repeat' split
                                  all_goals simp
  | acknowledge fid n => simp only [Mux.processFrame]; repeat' split
                         all_goals simp
  | finish fid => simp only [Mux.processFrame]; repeat' split
                  all_goals simp
  | reset fid => simp only [Mux.processFrame]; exact nc_closeFlow e fid true
  | push fid d =>
    simp only [Mux.processFrame]
    repeat' split
    all_goals first | exact nc_closeFlow _ _ _ | simp
  | bind fid bt port host => simp only [Mux.processFrame]; repeat' split
                             all_goals simp
  | datagram fid port host d => simp only [Mux.processFrame]; repeat' split
                                all_goals simp

theorem nc_processIn (e : EP) (w : WsIn) (ig : Bool) : nc (processIn e w ig).2.1 = true := by
  unfold Mux.processIn
  split
  · exact nc_processFrame e _ ig
  all_goals simp

theorem nc_drainFlows (e : EP) (fl : List (Nat × Slot)) : nc (drainFlows e fl).2 = true := by
  induction fl generalizing e with
  | nil => simp [Mux.drainFlows]
  | cons p fl ih =>
    obtain ⟨fid, s⟩ := p
    simp only [Mux.drainFlows, nc_append, Bool.and_eq_true]
    exact ⟨nc_closeLocal _ _ _ _ _, ih _⟩

theorem nc_windDownFinish (e : EP) (res : ExitRes) : nc (windDownFinish e res).2 = true := by
  simp [Mux.windDownFinish, nc_drainFlows]

theorem nc_windDownInbox (e : EP) (l : List WsIn) : nc (windDownInbox e l).2.1 = true := by
  induction l generalizing e with
  | nil => simp [Mux.windDownInbox]
  | cons w l ih =>
    cases w with
    | err => simp [Mux.windDownInbox]
    | eof => simp [Mux.windDownInbox]
    | msg m => simp only [Mux.windDownInbox, nc_append, Bool.and_eq_true]; exact ⟨nc_processIn e (.msg m) true, ih _⟩
    | bad b => simp only [Mux.windDownInbox, nc_append, Bool.and_eq_true]; exact ⟨nc_processIn e (.bad b) true, ih _⟩

theorem nc_sendSome (e : EP) : nc (sendSome e).2 = true := by
  unfold Mux.sendSome; split <;> simp

theorem nc_windDownTail (e1 : EP) (flushed : List Ev) (s : Bool) (res : ExitRes) (hf : nc flushed = true) :
    nc (windDownTail e1 flushed s res).2 = true := by
  simp only [Mux.windDownTail]
  split <;> simp [hf, nc_windDownInbox, nc_windDownFinish]

theorem nc_windDown (e : EP) (drain : Bool) (res : ExitRes) : nc (windDown e drain res).2 = true := by
  simp only [Mux.windDown]
  split
  · split
    · exact nc_windDownTail _ _ _ _ (nc_sendSome _)
    · exact nc_sendSome _
  · exact nc_windDownTail _ _ _ _ rfl

theorem nc_drainStep (e : EP) (res : ExitRes) : nc (drainStep e res).2 = true := by
  simp only [Mux.drainStep]
  split
  · exact nc_windDownTail _ _ _ _ (nc_sendSome _)
  · exact nc_sendSome _

theorem nc_closingStep (e : EP) (res : ExitRes) : nc (closingStep e res).2 = true := by
  simp only [Mux.closingStep]
  split <;> simp [nc_windDownInbox, nc_windDownFinish]

theorem nc_recvOne (e : EP) (w : WsIn) (rest : List WsIn) : nc (recvOne e w rest).2.1 = true := by
  simp only [Mux.recvOne]; exact nc_processIn _ _ _

theorem nc_settleLoop (fuel : Nat) (e : EP) (acc : List Ev) (ha : nc acc = true) : nc (settleLoop fuel e acc).2 = true := by
  induction fuel generalizing e acc with
  | zero => simpa [Mux.settleLoop] using ha
  | succ n ih =>
    unfold Mux.settleLoop
    split
    · exact ha
    · split
      · simp [ha, nc_drainStep]
      · split
        · simp [ha, nc_closingStep]
        · split
          · split
            · simp [ha, nc_recvOne, nc_windDown]
            · exact ih _ _ (by simp [ha, nc_recvOne])
          · split
            · simp [ha, nc_windDown]
            · exact ih _ _ (by simp [ha, nc_closeFlow])
            · exact ha

theorem nc_runRetries (e : EP) (rs : List Nat) : nc (runRetries e rs).2 = true := by
  induction rs generalizing e with
  | nil => simp [Mux.runRetries]
  | cons req rest ih =>
    unfold Mux.runRetries
    split
    · exact ih e
    · simp only [nc_append, Bool.and_eq_true]; exact ⟨nc_openRound _ _, ih _⟩

theorem nc_runDone (e : EP) (ds : List (Nat × Nat)) : nc (runDone e ds).2 = true := by
  induction ds generalizing e with
  | nil => simp [Mux.runDone]
  | cons p rest ih => obtain ⟨req, i⟩ := p; simp only [Mux.runDone, nc_cons_openDone]; exact ih _

theorem nc_hold (e : EP) (c : Bool) : nc (if c then (e, ([] : List Ev)) else Mux.sendSome e).2 = true := by
  split
  · rfl
  · exact nc_sendSome e

/-- The task's run to quiescence (open futures included) never resolves a bind request `closed`. -/
theorem nc_settle (e : EP) : nc (Mux.settle e).2 = true := by
  have h0 := nc_settleLoop (2 * e.inbox.length + e.droppedq.length + 2) e [] rfl
  unfold Mux.settle
  generalize Mux.settleLoop (2 * e.inbox.length + e.droppedq.length + 2) e [] = r1 at h0
  obtain ⟨e1, evs1⟩ := r1
  simp only at h0 ⊢
  simp only [nc_append, Bool.and_eq_true]
  exact ⟨⟨⟨h0, nc_hold _ _⟩, nc_runDone _ _, nc_runRetries _ _⟩, nc_hold _ _⟩

/-- One stimulus of one endpoint: `closed` is emitted only by a `request_bind` call for that very request
    number, and only if the outbound queue was closed at the call or no flow id could be drawn. -/
theorem closed_only_at_call (e : EP) (op : Mux.Op) (req : Nat) (h : Ev.bindDone req .closed ∈ (applyOp e op).2.2) :
    ∃ bt host port, op = .bindReq req bt host port ∧
      (e.outClosed = true ∨ drawId e.flows e.rng e.fallback 64 = none) := by
  have hs : (applyOp e op).2.2 = (opStep e op).2.2 ++ (Mux.settle (opStep e op).1).2 := rfl
  rw [hs] at h
  rcases List.mem_append.mp h with h | h
  · cases op with
    | «open» r host port =>
      simp only [Mux.opStep] at h
      split at h
      · cases h
      · exact absurd h (not_mem_of_nc (nc_openRound _ _) req)
    | bindReq r bt host port =>
      simp only [Mux.opStep, Mux.appBindReq] at h
      split at h
      · rename_i hd
        simp only [List.mem_singleton, Ev.bindDone.injEq, and_true] at h
        exact ⟨bt, host, port, by rw [h], Or.inr hd⟩
      · split at h
        · rename_i hoc
          simp only [List.mem_singleton, Ev.bindDone.injEq, and_true] at h
          exact ⟨bt, host, port, by rw [h], Or.inl hoc⟩
        · cases h
    | deliver w =>
      rw [opStep_deliver_evs] at h; cases h
    | _ => simp [Mux.opStep] at h
  · exact absurd h (not_mem_of_nc (nc_settle _) req)

/-! ### Along a run of the pair -/

theorem mem_of_mem_doneEvs {evs : List Ev} {r : Nat} {a : BindRes} (h : BEv.done r a ∈ doneEvs evs) : Ev.bindDone r a ∈ evs := by
  induction evs with
  | nil => cases h
  | cons ev rest ih =>
    cases ev with
    | bindDone r' a' =>
      simp only [doneEvs, List.mem_cons, BEv.done.injEq] at h
      rcases h with ⟨rfl, rfl⟩ | h
      · exact List.mem_cons_self
      · exact List.mem_cons_of_mem _ (ih h)
    | _ => exact List.mem_cons_of_mem _ (ih h)

theorem done_not_mem_callEvs (e : EP) (op : Mux.Op) (res : Mux.Res) (r : Nat) (a : BindRes) : BEv.done r a ∉ callEvs e op res := by
  unfold callEvs
  repeat' split
  all_goals simp

/-- The record after one stimulus of an endpoint gains `done req closed` only at a `request_bind` call. -/
theorem closed_in_bgStep (e : EP) (g : List BEv) (op : Mux.Op) (req : Nat) (h0 : BEv.done req .closed ∉ g)
    (h : BEv.done req .closed ∈ bgStep e g op) :
    ∃ bt host port, op = .bindReq req bt host port ∧ (e.outClosed = true ∨ drawId e.flows e.rng e.fallback 64 = none) := by
  simp only [bgStep, List.mem_append] at h
  rcases h with h | h | h
  · exact absurd h h0
  · exact absurd h (done_not_mem_callEvs _ _ _ _ _)
  · exact closed_only_at_call e op req (mem_of_mem_doneEvs h)

theorem stimOp_bindReq {p : PS} {st : Stim} {req : Nat} {bt : BindType} {host : Bytes} {port : Nat}
    (h : stimOp p st = .bindReq req bt host port) : st = .call (.bindReq req bt host port) := by
  cases st with
  | call op => simp only [stimOp] at h; rw [h]
  | deliver => simp only [stimOp] at h; split at h <;> cases h
  | cut eof => simp only [stimOp] at h; cases h

/-- Side `a`: if its record contains `done req closed` after a run and did not before, the run contains a
    `request_bind` call number `req` of side `a` at which its outbound queue was closed or no id could be drawn. -/
theorem closed_in_runA (q0 : PB) (l : List (Side × Stim)) (req : Nat) (h0 : BEv.done req .closed ∉ q0.ha)
    (h : BEv.done req .closed ∈ (runB q0 l).ha) :
    ∃ l1 l2 bt host port, l = l1 ++ (Side.A, Stim.call (.bindReq req bt host port)) :: l2 ∧
      ((runB q0 l1).p.a.outClosed = true ∨
        drawId (runB q0 l1).p.a.flows (runB q0 l1).p.a.rng (runB q0 l1).p.a.fallback 64 = none) := by
  induction l generalizing q0 with
  | nil => exact absurd h h0
  | cons a l ih =>
    obtain ⟨s, st⟩ := a
    simp only [runB] at h
    by_cases h1 : BEv.done req .closed ∈ (stepB q0 s st).ha
    · cases s with
      | A =>
        simp only [stepB] at h1
        cases hs : stepL q0.p st with
        | none => rw [hs] at h1; exact absurd h1 h0
        | some p' =>
          rw [hs] at h1
          obtain ⟨bt, host, port, hop, hw⟩ := closed_in_bgStep _ _ _ req h0 h1
          have := stimOp_bindReq hop
          subst this
          exact ⟨[], l, bt, host, port, rfl, hw⟩
      | B =>
        simp only [stepB] at h1
        cases hs : stepL q0.p.swap st with
        | none => rw [hs] at h1; exact absurd h1 h0
        | some p' => rw [hs] at h1; exact absurd h1 h0
    · obtain ⟨l1, l2, bt, host, port, hl, hw⟩ := ih (stepB q0 s st) h1 h
      exact ⟨(s, st) :: l1, l2, bt, host, port, by rw [hl]; rfl, hw⟩

/-- Side `b`, likewise. -/
theorem closed_in_runB (q0 : PB) (l : List (Side × Stim)) (req : Nat) (h0 : BEv.done req .closed ∉ q0.hb)
    (h : BEv.done req .closed ∈ (runB q0 l).hb) :
    ∃ l1 l2 bt host port, l = l1 ++ (Side.B, Stim.call (.bindReq req bt host port)) :: l2 ∧
      ((runB q0 l1).p.b.outClosed = true ∨
        drawId (runB q0 l1).p.b.flows (runB q0 l1).p.b.rng (runB q0 l1).p.b.fallback 64 = none) := by
  induction l generalizing q0 with
  | nil => exact absurd h h0
  | cons a l ih =>
    obtain ⟨s, st⟩ := a
    simp only [runB] at h
    by_cases h1 : BEv.done req .closed ∈ (stepB q0 s st).hb
    · cases s with
      | B =>
        simp only [stepB] at h1
        cases hs : stepL q0.p.swap st with
        | none => rw [hs] at h1; exact absurd h1 h0
        | some p' =>
          rw [hs] at h1
          obtain ⟨bt, host, port, hop, hw⟩ := closed_in_bgStep _ _ _ req h0 h1
          have := stimOp_bindReq hop
          subst this
          exact ⟨[], l, bt, host, port, rfl, hw⟩
      | A =>
        simp only [stepB] at h1
        cases hs : stepL q0.p st with
        | none => rw [hs] at h1; exact absurd h1 h0
        | some p' => rw [hs] at h1; exact absurd h1 h0
    · obtain ⟨l1, l2, bt, host, port, hl, hw⟩ := ih (stepB q0 s st) h1 h
      exact ⟨(s, st) :: l1, l2, bt, host, port, by rw [hl]; rfl, hw⟩

end Penguin.BindAll
