/-
Before the task's first poll: the application's calls (`opStep` alone) never park the receive loop
and never touch what the transport holds, so an endpoint whose history consists of application
calls only — nothing delivered yet — is running with an empty inbox and nothing parked.  Its first
poll on a failed sink therefore finishes the task (`taskPollSinkFailed_quiet`).
Core Lean only.
-/
import Penguin.Model.MuxHist
import Penguin.Lemmas.MuxIntegritySrc
import Penguin.Lemmas.MuxStartHist

namespace Penguin.Mux

/-! ### Application calls do not park the receive loop -/

@[simp] theorem enqFrame_park' (e : EP) (f : Frame) : (e.enqFrame f).park = e.park := enq_park e _

theorem appWrite_park (e : EP) (h : Nat) (d : Bytes) : (appWrite e h d).1.park = e.park := by
  unfold Mux.appWrite
  repeat' split
  all_goals first | rfl | simp

theorem ackStep_park (e : EP) (i : Nat) (o : Obj) : (ackStep e i o).park = e.park := by
  unfold Mux.ackStep; split <;> simp

theorem fillBuf_park (fuel : Nat) (e : EP) (i : Nat) : (fillBuf fuel e i).1.park = e.park := by
  induction fuel generalizing e with
  | zero => rfl
  | succ n ih =>
    unfold Mux.fillBuf
    split
    · rfl
    · split
      · rfl
      · split
        · simp only
          split
          · rw [ih, ackStep_park]; rfl
          · rw [ackStep_park]; rfl
        · split <;> rfl

theorem appRead_park (e : EP) (h n : Nat) : (appRead e h n).1.park = e.park := by
  unfold Mux.appRead
  split
  · rfl
  · rename_i i o _
    have s := fillBuf_park (o.rxq.length + 2) e i
    split
    · rename_i e' b heq
      rw [heq] at s
      exact s
    · exact s

theorem appShutdown_park (e : EP) (h : Nat) : (appShutdown e h).1.park = e.park := by
  unfold Mux.appShutdown
  repeat' split
  all_goals first | rfl | simp

theorem appDropStream_park (e : EP) (h : Nat) : (appDropStream e h).1.park = e.park := by
  unfold Mux.appDropStream
  split
  · rfl
  · simp only
    split <;> rfl

theorem appAccept_park (e : EP) : (appAccept e).1.park = e.park := by
  unfold Mux.appAccept
  repeat' split
  all_goals rfl

theorem appSendDgram_park (e : EP) (d : Dgram) : (appSendDgram e d).1.park = e.park := by
  unfold Mux.appSendDgram
  repeat' split
  all_goals first | rfl | simp

theorem appRecvDgram_park (e : EP) : (appRecvDgram e).1.park = e.park := by
  unfold Mux.appRecvDgram
  repeat' split
  all_goals rfl

theorem appBindReq_park (e : EP) (req : Nat) (bt : BindType) (host : Bytes) (port : Nat) :
    (appBindReq e req bt host port).1.park = e.park := by
  unfold Mux.appBindReq
  repeat' split
  all_goals first | rfl | simp

theorem appBindNext_park (e : EP) : (appBindNext e).1.park = e.park := by
  unfold Mux.appBindNext
  repeat' split
  all_goals rfl

theorem appBindReply_park (e : EP) (k : Nat) (a : Bool) : (appBindReply e k a).1.park = e.park := by
  unfold Mux.appBindReply
  repeat' split
  all_goals first | rfl | simp

theorem appBindDrop_park (e : EP) (k : Nat) : (appBindDrop e k).1.park = e.park := by
  unfold Mux.appBindDrop
  split
  · rfl
  · split
    · rfl
    · simp only
      split <;> simp

theorem foldEnq_park (l : List BindIn) (e : EP) :
    (l.foldl (fun e b => e.enqFrame (.reset b.fid)) e).park = e.park := by
  induction l generalizing e with
  | nil => rfl
  | cons b rest ih => simp only [List.foldl_cons]; rw [ih]; simp

theorem appDropMux_park (e : EP) : (appDropMux e).1.park = e.park := by
  unfold Mux.appDropMux
  simp only
  rw [foldEnq_park]

/-- No application call and no delivery parks the receive loop (only the task's own hand-overs do). -/
theorem opStep_park (e : EP) (op : Op) : (opStep e op).1.park = e.park := by
  cases op with
  | «open» req host port =>
    simp only [Mux.opStep]
    split
    · rfl
    · exact openRound_park e _
  | accept => exact appAccept_park e
  | write h d => exact appWrite_park e h d
  | read h n => exact appRead_park e h n
  | shutdown h => exact appShutdown_park e h
  | dropStream h => exact appDropStream_park e h
  | sendDgram d => exact appSendDgram_park e d
  | recvDgram => exact appRecvDgram_park e
  | bindReq req bt host port => exact appBindReq_park e req bt host port
  | bindNext => exact appBindNext_park e
  | bindReply k a => exact appBindReply_park e k a
  | bindDrop k => exact appBindDrop_park e k
  | dropMux => exact appDropMux_park e
  | sinkRoom n => rfl
  | cancelOpen req => rfl
  | deliver w =>
    simp only [Mux.opStep]
    repeat' split
    all_goals rfl

theorem deliverMany_park (e : EP) (ws : List WsIn) : (deliverMany e ws).park = e.park := by
  unfold Mux.deliverMany; split <;> rfl

/-- An application call (anything but a delivery) leaves what the transport holds alone. -/
theorem opStep_inbox_of_call (e : EP) (op : Op) (hc : ∀ w, op ≠ .deliver w) : (opStep e op).1.inbox = e.inbox := by
  cases op with
  | «open» req host port =>
    simp only [Mux.opStep]
    split
    · rfl
    · exact openRound_inbox e _
  | accept => exact appAccept_inbox e
  | write h d => exact appWrite_inbox e h d
  | read h n => exact appRead_inbox e h n
  | shutdown h => exact appShutdown_inbox e h
  | dropStream h => exact appDropStream_inbox e h
  | sendDgram d => exact appSendDgram_inbox e d
  | recvDgram => exact appRecvDgram_inbox e
  | bindReq req bt host port => exact appBindReq_inbox e req bt host port
  | bindNext => exact appBindNext_inbox e
  | bindReply k a => exact appBindReply_inbox e k a
  | bindDrop k => exact appBindDrop_inbox e k
  | dropMux => exact appDropMux_inbox e
  | sinkRoom n => rfl
  | cancelOpen req => rfl
  | deliver w => exact absurd rfl (hc w)

/-! ### Histories before the first poll -/

/-- An application call made before the task's first poll (not a delivery into the transport). -/
def isPreCall : OpX → Bool
  | .pre (.deliver _) => false
  | .pre _ => true
  | _ => false

theorem isPre_of_isPreCall {op : OpX} (h : isPreCall op = true) : isPre op = true := by
  cases op with
  | pre o => rfl
  | preDeliver ws => simp [isPreCall] at h
  | op o => simp [isPreCall] at h
  | sinkfail => simp [isPreCall] at h
  | start sf => simp [isPreCall] at h

theorem all_isPre_of_isPreCall {pres : List OpX} (h : pres.all isPreCall = true) : pres.all isPre = true := by
  rw [List.all_eq_true] at h ⊢
  intro x hx
  exact isPre_of_isPreCall (h x hx)

/-- Before the first poll nothing is ever parked. -/
theorem pre_park (e : EP) (pres : List OpX) (h : pres.all isPre = true) : (runOpsX e pres).park = e.park := by
  induction pres generalizing e with
  | nil => rfl
  | cons op rest ih =>
    simp only [List.all_cons, Bool.and_eq_true] at h
    have h1 : (applyOpX e op).1.park = e.park := by
      cases op with
      | pre o => exact opStep_park e o
      | preDeliver ws => exact deliverMany_park e ws
      | op o => simp [isPre] at h
      | sinkfail => simp [isPre] at h
      | start sf => simp [isPre] at h
    show (runOpsX (applyOpX e op).1 rest).park = e.park
    rw [ih _ h.2, h1]

/-- Application calls before the first poll leave the transport's items alone. -/
theorem preCall_inbox (e : EP) (pres : List OpX) (h : pres.all isPreCall = true) : (runOpsX e pres).inbox = e.inbox := by
  induction pres generalizing e with
  | nil => rfl
  | cons op rest ih =>
    simp only [List.all_cons, Bool.and_eq_true] at h
    have h1 : (applyOpX e op).1.inbox = e.inbox := by
      cases op with
      | pre o =>
        refine opStep_inbox_of_call e o ?_
        intro w hw
        rw [hw] at h
        simp [isPreCall] at h
      | preDeliver ws => simp [isPreCall] at h
      | op o => simp [isPreCall] at h
      | sinkfail => simp [isPreCall] at h
      | start sf => simp [isPreCall] at h
    show (runOpsX (applyOpX e op).1 rest).inbox = e.inbox
    rw [ih _ h.2, h1]

/-- Whatever the application called before the first poll (nothing delivered yet): that poll, with a
    failed sink, finishes the task. -/
theorem preCall_start_failed_dead (o : Opts) (rng : List Nat) (pres : List OpX) (h : pres.all isPreCall = true) :
    (taskPollSinkFailed (runOpsX (initX o rng) pres)).1.dead = true := by
  have hp := all_isPre_of_isPreCall h
  have f := pre_flags (initX o rng) pres hp
  have hd : (runOpsX (initX o rng) pres).dead = false := f.dead
  have hc : (runOpsX (initX o rng) pres).closing = none := f.closing
  have hdr : (runOpsX (initX o rng) pres).draining = none := f.draining
  have hi : (runOpsX (initX o rng) pres).inbox = [] := preCall_inbox _ pres h
  have hk : (runOpsX (initX o rng) pres).park = none := pre_park _ pres hp
  rw [taskPollSinkFailed_quiet _ hd hc hdr hi hk]
  exact (windDownTail_resolves _ [] _ .wsError (Or.inr (by intro h; cases h))).1

end Penguin.Mux
