/-
The invariant of the pair of views (`Good` = id discipline + wires + bytes) is preserved by every
SEQUENCE of small steps of either side (`Star`) and by deliveries and cuts.
Core Lean only.
-/
import Penguin.Lemmas.PairAllDirA
import Penguin.Lemmas.PairAllDirB

namespace Penguin.PairAll
open Penguin.Mux

variable {x j : Nat} {ownA ownB : Prop}

/-- The invariant of the pair of views with respect to flow `x`, for the direction left → right and object
    `j` of the right side. `S`: the `Push x` payloads the left sink has taken, `R`: those accepted into `j`. -/
structure Good (x j : Nat) (ownA ownB : Prop) (c : PC) (S R : List Bytes) : Prop where
  core : CoreS ownA ownB (sm x c)
  wires : Wires c
  dir : Dir x j c S R

theorem rngNil_mono_step {jj : Nat} {v v' : View} {ws : List Msg} {acc : List Bytes} (h : AStep x jj v v' ws acc)
    (hn : v'.rngNil = false) : v.rngNil = false := by
  cases h <;> first | exact hn | skip
  · rename_i c n hc hn'
    cases hv : v.rngNil with
    | false => rfl
    | true => simp only at hn; rw [hn' hv] at hn; cases hn
  · rename_i c n s m hc hn' hd hs ho hne hm1 hm2
    cases hv : v.rngNil with
    | false => rfl
    | true => simp only at hn; rw [hn' hv] at hn; cases hn

theorem rngNil_mono_star {jj : Nat} {v v' : View} {ws : List Msg} {acc : List Bytes} (h : Star x jj v v' ws acc)
    (hn : v'.rngNil = false) : v.rngNil = false := by
  induction h with
  | refl v => exact hn
  | step st _ ih => exact rngNil_mono_step st (ih hn)

/-- One small step in which the left side acts or receives. -/
theorem Good.stepL (hex : ¬(ownA ∧ ownB)) {jA : Nat} {c c' : PC} {S R : List Bytes} {ws : List Msg} {acc : List Bytes}
    (g : Good x j ownA ownB c S R) (st : CStepL x jA c c' ws acc) (hn : c'.a.rngNil = false) :
    Good x j ownA ownB c' (S ++ pX x ws) R :=
  ⟨g.core.stepL hex (sm_stepL st hn), g.wires.stepL st, Dir.stepA hex g.core g.wires g.dir st hn⟩

/-- One small step in which the right side acts or receives. -/
theorem Good.stepR (hex : ¬(ownA ∧ ownB)) {c c'' : PC} {S R : List Bytes} {ws : List Msg} {acc : List Bytes}
    (g : Good x j ownA ownB c S R) (st : CStepL x j c.swap c'' ws acc) (hn : c''.a.rngNil = false) :
    Good x j ownA ownB c''.swap S (R ++ acc) := by
  refine ⟨?_, (g.wires.swap.stepL st).swap, Dir.stepB hex g.core g.wires g.dir st hn⟩
  have h1 : CoreS ownB ownA (sm x c'') :=
    CoreS.stepL (fun h => hex ⟨h.2, h.1⟩) (by simpa [sm_swap] using g.core.swap) (sm_stepL st hn)
  simpa [sm_swap] using h1.swap

theorem Good.cast {c c' : PC} {S S' R R' : List Bytes} (g : Good x j ownA ownB c S R) (hc : c' = c) (hS : S' = S)
    (hR : R' = R) : Good x j ownA ownB c' S' R' := by subst hc hS hR; exact g

/-- A sequence of small steps of the left side; what it sends goes onto the wire (if it is still open). -/
theorem Good.starL (hex : ¬(ownA ∧ ownB)) {jA : Nat} {c : PC} {S R : List Bytes} {v : View} {ws : List Msg} {acc : List Bytes}
    (g : Good x j ownA ownB c S R) (h : Star x jA c.a v ws acc) (hn : v.rngNil = false) :
    Good x j ownA ownB { c with a := v, ab := if c.abOpen then c.ab ++ ws else c.ab } (S ++ pX x ws) R := by
  generalize hva : c.a = va at h
  induction h generalizing c S with
  | refl v =>
    subst hva
    refine g.cast ?_ (by simp [pX]) rfl
    cases c; simp
  | @step v0 v1 v2 w1 w2 a1 a2 st rest ih =>
    subst hva
    have hn1 : v1.rngNil = false := rngNil_mono_star rest hn
    have g1 := g.stepL hex (CStepL.act c v1 w1 a1 st) hn1
    have g2 := ih g1 hn rfl
    refine g2.cast ?_ (by simp [pX_append, List.append_assoc]) rfl
    cases c with
    | mk a b ab ba abo bao => cases abo <;> simp

/-- A sequence of small steps of the right side. -/
theorem Good.starR (hex : ¬(ownA ∧ ownB)) {c : PC} {S R : List Bytes} {v : View} {ws : List Msg} {acc : List Bytes}
    (g : Good x j ownA ownB c S R) (h : Star x j c.b v ws acc) (hn : v.rngNil = false) :
    Good x j ownA ownB { c with b := v, ba := if c.baOpen then c.ba ++ ws else c.ba } S (R ++ acc) := by
  generalize hvb : c.b = vb at h
  induction h generalizing c R with
  | refl v =>
    subst hvb
    refine g.cast ?_ rfl (by simp)
    cases c; simp
  | @step v0 v1 v2 w1 w2 a1 a2 st rest ih =>
    subst hvb
    have hn1 : v1.rngNil = false := rngNil_mono_star rest hn
    have g1 := g.stepR hex (CStepL.act c.swap v1 w1 a1 st) hn1
    have g2 := ih g1 hn rfl
    refine g2.cast ?_ rfl (by simp [List.append_assoc])
    cases c with
    | mk a b ab ba abo bao => cases bao <;> simp [PC.swap]

end Penguin.PairAll
