/-
The invariant of the pair of views (`Good` = id discipline + wires + bytes) is preserved by every
SEQUENCE of small steps of either side (`Star`) and by deliveries and cuts.
Core Lean only.
-/
import Penguin.Lemmas.PairAllFinA
import Penguin.Lemmas.PairAllFinB

namespace Penguin.PairAll
open Penguin.Mux

variable {x j : Nat} {ownA ownB : Prop}

/-- The invariant of the pair of views with respect to flow `x`, for the direction left → right and object
    `j` of the right side. `S`: the `Push x` payloads the left sink has taken, `R`: those accepted into `j`,
    `W`: those the left side's writes queued, `P`: the `Finish x` processed for `j`. -/
structure Good (x j : Nat) (ownA ownB : Prop) (c : PC) (S R W : List Bytes) (P : Nat) : Prop where
  core : CoreS ownA ownB (sm x c)
  wires : Wires c
  dir : Dir x j c S R
  fin : Fin x j c S R W P

theorem rngNil_mono_step {jj : Nat} {v v' : View} {ws : List Msg} {acc : List Bytes} {xl : List XL}
    (h : AStep x jj v v' ws acc xl) (hn : v'.rngNil = false) : v.rngNil = false := by
  cases h <;> first | exact hn | skip
  · rename_i c n hc hn'
    cases hv : v.rngNil with
    | false => rfl
    | true => simp only at hn; rw [hn' hv] at hn; cases hn
  · rename_i c n s m hc hn' hd hs ho hk
    cases hv : v.rngNil with
    | false => rfl
    | true => simp only at hn; rw [hn' hv] at hn; cases hn

theorem rngNil_mono_star {jj : Nat} {v v' : View} {ws : List Msg} {acc : List Bytes} {xl : List XL}
    (h : Star x jj v v' ws acc xl) (hn : v'.rngNil = false) : v.rngNil = false := by
  induction h with
  | refl v => exact hn
  | step st _ ih => exact rngNil_mono_step st (ih hn)

/-- One small step in which the left side acts or receives. -/
theorem Good.stepL (hex : ¬(ownA ∧ ownB)) {jA : Nat} {c c' : PC} {S R W : List Bytes} {P : Nat} {ws : List Msg}
    {acc : List Bytes} {xl : List XL} (g : Good x j ownA ownB c S R W P) (st : CStepL x jA c c' ws acc xl)
    (hn : c'.a.rngNil = false) : Good x j ownA ownB c' (S ++ pX x ws) R (W ++ XL.wrotes xl) P :=
  ⟨g.core.stepL hex (sm_stepL st hn), g.wires.stepL st, Dir.stepA hex g.core g.wires g.dir st hn,
    Fin.stepA hex g.core g.wires g.dir g.fin st hn⟩

/-- One small step in which the right side acts or receives. -/
theorem Good.stepR (hex : ¬(ownA ∧ ownB)) {c c'' : PC} {S R W : List Bytes} {P : Nat} {ws : List Msg}
    {acc : List Bytes} {xl : List XL} (g : Good x j ownA ownB c S R W P) (st : CStepL x j c.swap c'' ws acc xl)
    (hn : c''.a.rngNil = false) : Good x j ownA ownB c''.swap S (R ++ acc) W (P + XL.fins xl) := by
  refine ⟨?_, (g.wires.swap.stepL st).swap, Dir.stepB hex g.core g.wires g.dir st hn,
    Fin.stepB hex g.core g.wires g.dir g.fin st hn⟩
  have h1 : CoreS ownB ownA (sm x c'') :=
    CoreS.stepL (fun h => hex ⟨h.2, h.1⟩) (by simpa [sm_swap] using g.core.swap) (sm_stepL st hn)
  simpa [sm_swap] using h1.swap

theorem Good.cast {c c' : PC} {S S' R R' W W' : List Bytes} {P P' : Nat} (g : Good x j ownA ownB c S R W P)
    (hc : c' = c) (hS : S' = S) (hR : R' = R) (hW : W' = W := by rfl) (hP : P' = P := by rfl) :
    Good x j ownA ownB c' S' R' W' P' := by subst hc hS hR hW hP; exact g

/-- A sequence of small steps of the left side; what it sends goes onto the wire (if it is still open). -/
theorem Good.starL (hex : ¬(ownA ∧ ownB)) {jA : Nat} {c : PC} {S R W : List Bytes} {P : Nat} {v : View} {ws : List Msg}
    {acc : List Bytes} {xl : List XL} (g : Good x j ownA ownB c S R W P) (h : Star x jA c.a v ws acc xl)
    (hn : v.rngNil = false) :
    Good x j ownA ownB { c with a := v, ab := if c.abOpen then c.ab ++ ws else c.ab } (S ++ pX x ws) R
      (W ++ XL.wrotes xl) P := by
  generalize hva : c.a = va at h
  induction h generalizing c S W with
  | refl v =>
    subst hva
    refine g.cast ?_ (by simp [pX]) rfl (by simp [XL.wrotes])
    cases c; simp
  | @step v0 v1 v2 w1 w2 a1 a2 x1 x2 st rest ih =>
    subst hva
    have hn1 : v1.rngNil = false := rngNil_mono_star rest hn
    have g1 := g.stepL hex (CStepL.act c v1 w1 a1 x1 st) hn1
    have g2 := ih g1 hn rfl
    refine g2.cast ?_ (by simp [pX_append, List.append_assoc]) rfl (by simp [XL.wrotes_append, List.append_assoc])
    cases c with
    | mk a b ab ba abo bao => cases abo <;> simp

/-- A sequence of small steps of the right side. -/
theorem Good.starR (hex : ¬(ownA ∧ ownB)) {c : PC} {S R W : List Bytes} {P : Nat} {v : View} {ws : List Msg}
    {acc : List Bytes} {xl : List XL} (g : Good x j ownA ownB c S R W P) (h : Star x j c.b v ws acc xl)
    (hn : v.rngNil = false) :
    Good x j ownA ownB { c with b := v, ba := if c.baOpen then c.ba ++ ws else c.ba } S (R ++ acc) W (P + XL.fins xl) := by
  generalize hvb : c.b = vb at h
  induction h generalizing c R P with
  | refl v =>
    subst hvb
    refine g.cast ?_ rfl (by simp) rfl (by simp [XL.fins])
    cases c; simp
  | @step v0 v1 v2 w1 w2 a1 a2 x1 x2 st rest ih =>
    subst hvb
    have hn1 : v1.rngNil = false := rngNil_mono_star rest hn
    have g1 := g.stepR hex (CStepL.act c.swap v1 w1 a1 x1 st) hn1
    have g2 := ih g1 hn rfl
    refine g2.cast ?_ rfl (by simp [List.append_assoc]) rfl (by simp [XL.fins_append]; omega)
    cases c with
    | mk a b ab ba abo bao => cases bao <;> simp [PC.swap]

end Penguin.PairAll
