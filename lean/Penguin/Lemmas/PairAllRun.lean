/-
Every run of `Model/PairAll.lean`: the invariant `PInv` holds in every reachable state, for every flow id
and every object index; read off: what `b`'s application has read from a stream object carrying `x` is a
prefix of what `a`'s application wrote on flow `x`.
Core Lean only.
-/
import Penguin.Lemmas.PairAllMain

namespace Penguin.PairAll
open Penguin.Mux

variable {x j jA : Nat}

/-! ### What a stimulus does to the components -/

/-- A stimulus of the left endpoint is one `stepG` of it; the right endpoint and its record are untouched. -/
theorem stimL_spec {p q : PS} {st : Stim} (h : stimL p st = some q) :
    ∃ op, q.a = (stepG p.a p.ga op).1 ∧ q.ga = (stepG p.a p.ga op).2 ∧ q.b = p.b ∧ q.gb = p.gb := by
  cases st with
  | call op =>
    simp only [stimL] at h
    split at h
    · have hq := Option.some.inj h; subst hq; exact ⟨op, rfl, rfl, rfl, rfl⟩
    · cases h
  | deliver =>
    simp only [stimL] at h
    split at h
    · cases h
    · rename_i m rest _
      split at h
      · have hq := Option.some.inj h; subst hq; exact ⟨.deliver (.msg m), rfl, rfl, rfl, rfl⟩
      · have hq := Option.some.inj h; subst hq; exact ⟨.deliver (.msg m), rfl, rfl, rfl, rfl⟩
  | cut eof =>
    have h' : some ({ actL p (.deliver (if eof = true then WsIn.eof else WsIn.err)) with ba := [], baOpen := false } : PS) = some q := h
    have hq := Option.some.inj h'; subst hq
    exact ⟨.deliver (if eof = true then WsIn.eof else WsIn.err), rfl, rfl, rfl, rfl⟩

theorem stepL_spec {p q : PS} {st : Stim} (h : stepL p st = some q) : stimL p st = some q ∧ q.a.rng.isEmpty = false := by
  unfold stepL at h
  split at h
  · rename_i q' hq'
    split at h
    · cases h
    · rename_i hne
      have := Option.some.inj h; subst this
      exact ⟨hq', by simpa using hne⟩
  · cases h

/-- Per endpoint: the receiver invariant and the sender invariant of `Lemmas/MuxIntegrityHist.lean`. -/
structure LInv (e0 e : EP) (g : Ghost) : Prop where
  rx : RInv e g.accepted g.returned g.discarded
  tx : SnT e0 e g.evs (wroteFrames g.wrote)

theorem LInv.stepG {e0 e : EP} {g : Ghost} (h : LInv e0 e g) (op : Mux.Op) : LInv e0 (stepG e g op).1 (stepG e g op).2 :=
  ⟨h.rx.step op, (h.tx.trans (SnT.applyOp e op)).evs rfl (wroteFrames_append _ _)⟩

theorem LInv.init (o : Opts) (r : List Nat) : LInv { opts := o, rng := r } { opts := o, rng := r } {} :=
  ⟨⟨fun i => by simp [str, strO], fun i h => absurd rfl h⟩, SnT.refl _⟩

/-- Everything that is preserved along a run without reference to the final state. -/
structure RunInv (e0a e0b : EP) (p : PS) : Prop where
  la : LInv e0a p.a p.ga
  lb : LInv e0b p.b p.gb

theorem RunInv.swap {e0a e0b : EP} {p : PS} (h : RunInv e0a e0b p) : RunInv e0b e0a p.swap := ⟨h.lb, h.la⟩

theorem RunInv.stimL {e0a e0b : EP} {p q : PS} {st : Stim} (h : RunInv e0a e0b p) (hs : stimL p st = some q) :
    RunInv e0a e0b q := by
  obtain ⟨op, h1, h2, h3, h4⟩ := stimL_spec hs
  refine ⟨?_, ?_⟩
  · rw [h1, h2]; exact h.la.stepG op
  · rw [h3, h4]; exact h.lb

theorem RunInv.step {e0a e0b : EP} {p q : PS} {s : Side} {st : Stim} (h : RunInv e0a e0b p) (hs : step p s st = some q) :
    RunInv e0a e0b q := by
  cases s with
  | A => exact h.stimL (stepL_spec hs).1
  | B =>
    simp only [PairAll.step, Option.map_eq_some_iff] at hs
    obtain ⟨q', hq', rfl⟩ := hs
    exact (h.swap.stimL (stepL_spec hq').1).swap

theorem RunInv.run {e0a e0b : EP} (p : PS) (l : List (Side × Stim)) (h : RunInv e0a e0b p) : RunInv e0a e0b (run p l) := by
  induction l generalizing p with
  | nil => exact h
  | cons sa rest ih =>
    obtain ⟨s, st⟩ := sa
    unfold PairAll.run
    cases hs : PairAll.step p s st with
    | none => exact ih p h
    | some q => exact ih q (h.step hs)

/-- Objects are only appended and keep their ids, along every run. -/
theorem step_grow {p q : PS} {s : Side} {st : Stim} (hs : step p s st = some q) : Grow p.a q.a ∧ Grow p.b q.b := by
  cases s with
  | A =>
    obtain ⟨op, h1, _, h3, _⟩ := stimL_spec (stepL_spec hs).1
    rw [h1, h3]; exact ⟨Grow.applyOp p.a op, Grow.refl _⟩
  | B =>
    simp only [PairAll.step, Option.map_eq_some_iff] at hs
    obtain ⟨q', hq', rfl⟩ := hs
    obtain ⟨op, h1, _, h3, _⟩ := stimL_spec (stepL_spec hq').1
    refine ⟨?_, ?_⟩
    · show Grow p.a q'.b; rw [h3]; exact Grow.refl _
    · show Grow p.b q'.a; rw [h1]; exact Grow.applyOp p.b op

theorem run_grow (p : PS) (l : List (Side × Stim)) : Grow p.a (run p l).a ∧ Grow p.b (run p l).b := by
  induction l generalizing p with
  | nil => exact ⟨Grow.refl _, Grow.refl _⟩
  | cons sa rest ih =>
    obtain ⟨s, st⟩ := sa
    unfold PairAll.run
    cases hs : PairAll.step p s st with
    | none => exact ih p
    | some q =>
      obtain ⟨g1, g2⟩ := step_grow hs
      obtain ⟨g3, g4⟩ := ih q
      exact ⟨g1.trans g3, g2.trans g4⟩

/-! ### The invariant along a run -/

variable {ownA ownB : Prop}

theorem PInv.step (hex : ¬(ownA ∧ ownB)) {p q : PS} {s : Side} {st : Stim} (h : PInv x jA j ownA ownB p)
    (hs : step p s st = some q) (hja : J x jA q.a) (hjb : J x j q.b) : PInv x jA j ownA ownB q := by
  cases s with
  | A => exact h.stimA hex (stepL_spec hs).1 (stepL_spec hs).2 hja
  | B =>
    simp only [PairAll.step, Option.map_eq_some_iff] at hs
    obtain ⟨q', hq', rfl⟩ := hs
    exact h.stimB hex (stepL_spec hq').1 (stepL_spec hq').2 hjb

theorem PInv.run (hex : ¬(ownA ∧ ownB)) (p : PS) (l : List (Side × Stim)) (h : PInv x jA j ownA ownB p)
    (hja : J x jA (run p l).a) (hjb : J x j (run p l).b) : PInv x jA j ownA ownB (run p l) := by
  induction l generalizing p with
  | nil => exact h
  | cons sa rest ih =>
    obtain ⟨s, st⟩ := sa
    unfold PairAll.run at hja hjb ⊢
    cases hs : PairAll.step p s st with
    | none => rw [hs] at hja hjb; exact ih p h hja hjb
    | some q =>
      rw [hs] at hja hjb
      simp only [Option.getD_some] at hja hjb ⊢
      exact ih q (h.step hex hs (hja.back (run_grow q rest).1) (hjb.back (run_grow q rest).2)) hja hjb

/-! ### The initial state -/

theorem Cfg.excl {ra rb : List Nat} (c : Cfg ra rb) (x : Nat) : ¬(x ∈ ra ∧ x ∈ rb) := by
  intro h
  have := (List.nodup_append.mp c.nodup).2.2 x h.1 x h.2
  exact this rfl

theorem Cfg.count {ra rb : List Nat} (c : Cfg ra rb) (x : Nat) : ra.count x + rb.count x ≤ 1 := by
  have := List.nodup_iff_count.mp c.nodup x
  simpa [List.count_append] using this

theorem Cfg.swap {ra rb : List Nat} (c : Cfg ra rb) : Cfg rb ra := by
  refine ⟨?_, c.neB, c.neA⟩
  have := List.nodup_append.mp c.nodup
  exact List.nodup_append.mpr ⟨this.2.1, this.1, fun a ha b hb hab => this.2.2 b hb a ha hab.symm⟩

theorem PInv.init {ra rb : List Nat} (c : Cfg ra rb) (oa ob : Opts) (x jA j : Nat) :
    PInv x jA j (x ∈ ra) (x ∈ rb) (init oa ob ra rb) := by
  have hcnt := c.count x
  have hne : ∀ r : List Nat, r ≠ [] → r.isEmpty = false := by intro r h; cases r <;> simp_all
  refine ⟨⟨⟨?_, ?_⟩, ?_, ?_⟩, SF.init oa ra, SF.init ob rb, hne ra c.neA, hne rb c.neB⟩
  · refine ⟨?_, ?_, ?_, ?_, ?_, ?_, ?_, ?_, ?_⟩ <;>
      simp [sm, absC, PairAll.init, view, PC.path, PC.swap, inMsgs, cC, cAP, sk]
    all_goals first | exact hcnt | omega | (intro h; exact List.count_pos_iff.mp h)
  · refine ⟨?_, ?_, ?_, ?_, ?_, ?_, ?_, ?_, ?_⟩ <;>
      simp [Sm.swap, sm, absC, PairAll.init, view, PC.path, PC.swap, inMsgs, cC, cAP, sk]
    all_goals first | omega | (intro h; exact List.count_pos_iff.mp h)
  · refine ⟨?_, ?_, ?_, ?_⟩ <;> simp [absC, PairAll.init, view, deaf]
  · refine ⟨?_, ?_, ?_, ?_, ?_, ?_⟩ <;>
      simp [absC, PairAll.init, view, PC.live, inMsgs, pX, sentX, wireMsgs, Log.dataOf, canAcc, canAccF]

/-! ### Reading the theorem off -/

theorem pX_wireMsgs (x : Nat) (evs : List Ev) :
    pX x (wireMsgs evs) = ((pushesEv evs).filter (fun t => t.1 == x)).map (fun t => t.2) := by
  induction evs with
  | nil => rfl
  | cons ev r ih =>
    cases ev with
    | wire m =>
      cases m with
      | frame f =>
        cases f <;> try (simpa [wireMsgs, pX, pushesEv] using ih)
        rename_i fid d
        by_cases h : fid = x
        · simp [wireMsgs, pX, pushesEv, h, ih]
        · simp [wireMsgs, pX, pushesEv, h, ih]
      | ping => simpa [wireMsgs, pX, pushesEv] using ih
      | pong => simpa [wireMsgs, pX, pushesEv] using ih
      | close => simpa [wireMsgs, pX, pushesEv] using ih
    | wireClose => simpa [wireMsgs, pX, pushesEv] using ih
    | openDone r x => simpa [wireMsgs, pX, pushesEv] using ih
    | bindDone r x => simpa [wireMsgs, pX, pushesEv] using ih
    | exit x => simpa [wireMsgs, pX, pushesEv] using ih

theorem wroteOn_eq (x : Nat) (w : List (Nat × Nat × Bytes)) :
    wroteOn x w = (((wroteFrames w).filter (fun t => t.1 == x)).map (fun t => t.2)).flatten := by
  simp [wroteOn, wroteFrames, List.filter_map, Function.comp_def]

theorem prefix_flatten {α : Type} {a b : List (List α)} (h : a <+: b) : a.flatten <+: b.flatten := by
  obtain ⟨t, rfl⟩ := h
  simp

/-- In every reachable state of the pair, what the RIGHT endpoint's application has read from a stream
    object carrying `x` is a prefix of what the LEFT endpoint's application wrote on flow `x`. -/
theorem reads_prefix_of_writes {ra rb : List Nat} (c : Cfg ra rb) (oa ob : Opts) (l : List (Side × Stim)) (x j : Nat)
    (o : Obj) (hj : (run (init oa ob ra rb) l).b.objs[j]? = some o) (hx : o.fid = x) :
    chunks (run (init oa ob ra rb) l).gb.returned j <+: wroteOn x (run (init oa ob ra rb) l).ga.wrote := by
  have hja : J x (run (init oa ob ra rb) l).a.objs.length (run (init oa ob ra rb) l).a := by
    intro o' ho'
    have := (List.getElem?_eq_some_iff.mp ho').1
    omega
  have hjb : J x j (run (init oa ob ra rb) l).b := by
    intro o' ho'; rw [hj] at ho'; cases ho'; exact hx
  have hp := PInv.run (c.excl x) (init oa ob ra rb) l (PInv.init c oa ob x _ j) hja hjb
  have hr := RunInv.run (init oa ob ra rb) l (⟨LInv.init oa ra, LInv.init ob rb⟩ : RunInv _ _ (init oa ob ra rb))
  generalize run (init oa ob ra rb) l = pf at *
  -- reads ⊑ accepted
  have h1 : chunks pf.gb.returned j <+: chunks pf.gb.accepted j := by
    have := hr.lb.rx.eq j
    rw [← this, List.append_assoc]; exact List.prefix_append _ _
  -- accepted ⊑ sent
  have h2 : chunks pf.gb.accepted j <+: (sentX x pf.ga).flatten := by
    rw [chunks_eq_flatten]; exact prefix_flatten hp.good.dir.d5
  -- sent ⊑ written
  have h3 : (sentX x pf.ga).flatten <+: wroteOn x pf.ga.wrote := by
    rw [wroteOn_eq, sentX, pX_wireMsgs]
    refine prefix_flatten ((List.IsPrefix.filter _ ?_).map _)
    have := hr.la.tx.pre
    simp only [pushesQ, List.nil_append] at this
    exact (List.prefix_append _ _).trans this
  exact (h1.trans h2).trans h3

/-- The frame-level statement behind it: the payloads of the `Push` frames accepted into a stream object of
    the right endpoint that carries `x` are a PREFIX of the payloads of the `Push x` frames the left endpoint's
    sink has taken — acceptance is prefix-closed per flow id, and the wire loses only a suffix. -/
theorem accepted_prefix_of_sent {ra rb : List Nat} (c : Cfg ra rb) (oa ob : Opts) (l : List (Side × Stim)) (x j : Nat)
    (o : Obj) (hj : (run (init oa ob ra rb) l).b.objs[j]? = some o) (hx : o.fid = x) :
    Log.dataOf (run (init oa ob ra rb) l).gb.accepted j <+: pX x (wireMsgs (run (init oa ob ra rb) l).ga.evs) := by
  have hja : J x (run (init oa ob ra rb) l).a.objs.length (run (init oa ob ra rb) l).a := by
    intro o' ho'
    have := (List.getElem?_eq_some_iff.mp ho').1
    omega
  have hjb : J x j (run (init oa ob ra rb) l).b := by
    intro o' ho'; rw [hj] at ho'; cases ho'; exact hx
  exact (PInv.run (c.excl x) (init oa ob ra rb) l (PInv.init c oa ob x _ j) hja hjb).good.dir.d5

/-! ### The other direction, by symmetry -/

def Side.flip : Side → Side
  | .A => .B
  | .B => .A

theorem PS.swap_swap (p : PS) : p.swap.swap = p := rfl

theorem step_swap (p : PS) (s : Side) (st : Stim) : step p.swap s.flip st = (step p s st).map PS.swap := by
  cases s with
  | A =>
    show (stepL p.swap.swap st).map PS.swap = (stepL p st).map PS.swap
    rw [PS.swap_swap]
  | B =>
    show stepL p.swap st = ((stepL p.swap st).map PS.swap).map PS.swap
    cases stepL p.swap st <;> rfl

theorem run_swap (p : PS) (l : List (Side × Stim)) :
    run p.swap (l.map (fun sa => (sa.1.flip, sa.2))) = (run p l).swap := by
  induction l generalizing p with
  | nil => rfl
  | cons sa rest ih =>
    obtain ⟨s, st⟩ := sa
    simp only [List.map_cons, PairAll.run]
    rw [step_swap]
    cases hs : step p s st with
    | none => exact ih p
    | some q => exact ih q

/-- … and what the LEFT endpoint's application has read from a stream object carrying `x` is a prefix of what
    the RIGHT endpoint's application wrote on flow `x`. -/
theorem reads_prefix_of_writes_rev {ra rb : List Nat} (c : Cfg ra rb) (oa ob : Opts) (l : List (Side × Stim)) (x i : Nat)
    (o : Obj) (hi : (run (init oa ob ra rb) l).a.objs[i]? = some o) (hx : o.fid = x) :
    chunks (run (init oa ob ra rb) l).ga.returned i <+: wroteOn x (run (init oa ob ra rb) l).gb.wrote := by
  have h := reads_prefix_of_writes c.swap ob oa (l.map (fun sa => (sa.1.flip, sa.2))) x i o
  have hsw : run (init ob oa rb ra) (l.map (fun sa => (sa.1.flip, sa.2))) = (run (init oa ob ra rb) l).swap :=
    run_swap (init oa ob ra rb) l
  rw [hsw] at h
  exact h hi hx

end Penguin.PairAll
