/-
Every run of `Model/PairAll.lean`: the invariant `PInv` holds in every reachable state, for every flow id
and every object index; read off: what `b`'s application has read from a stream object carrying `x` is a
prefix of what `a`'s application wrote on flow `x`.
Core Lean only.
-/
import Penguin.Lemmas.PairAllMain
import Penguin.Lemmas.MuxEofRead

namespace Penguin.PairAll
open Penguin.Mux

variable {x j jA : Nat}

/-! ### What a stimulus does to the components -/

/-- A stimulus of the left endpoint is one `stepG` of it; the right endpoint and its record are untouched. -/
theorem stimL_spec {p q : PS} {st : Stim} (h : stimL p st = some q) :
    ∃ op, q.a = (stepG p.a p.ga op).1 ∧ q.ga = (stepG p.a p.ga op).2 ∧ q.b = p.b ∧ q.gb = p.gb := by
  cases st with
  | call op =>
    simp only [stimL] at h
    split at h
    · have hq := Option.some.inj h; subst hq; exact ⟨op, rfl, rfl, rfl, rfl⟩
    · cases h
  | deliver =>
    simp only [stimL] at h
    split at h
    · cases h
    · rename_i m rest _
      split at h
      · have hq := Option.some.inj h; subst hq; exact ⟨.deliver (.msg m), rfl, rfl, rfl, rfl⟩
      · have hq := Option.some.inj h; subst hq; exact ⟨.deliver (.msg m), rfl, rfl, rfl, rfl⟩
  | cut eof =>
    have h' : some ({ actL p (.deliver (if eof = true then WsIn.eof else WsIn.err)) with ba := [], baOpen := false } : PS) = some q := h
    have hq := Option.some.inj h'; subst hq
    exact ⟨.deliver (if eof = true then WsIn.eof else WsIn.err), rfl, rfl, rfl, rfl⟩

theorem stepL_spec {p q : PS} {st : Stim} (h : stepL p st = some q) : stimL p st = some q ∧ q.a.rng.isEmpty = false := by
  unfold stepL at h
  split at h
  · rename_i q' hq'
    split at h
    · cases h
    · rename_i hne
      have := Option.some.inj h; subst this
      exact ⟨hq', by simpa using hne⟩
  · cases h

/-- Per endpoint: the receiver invariant and the sender invariant of `Lemmas/MuxIntegrityHist.lean`. -/
structure LInv (e0 e : EP) (g : Ghost) : Prop where
  rx : RInv e g.accepted g.returned g.discarded
  tx : SnT e0 e g.evs (wroteFrames g.wrote)

theorem LInv.stepG {e0 e : EP} {g : Ghost} (h : LInv e0 e g) (op : Mux.Op) : LInv e0 (stepG e g op).1 (stepG e g op).2 :=
  ⟨h.rx.step op, (h.tx.trans (SnT.applyOp e op)).evs rfl (wroteFrames_append _ _)⟩

theorem LInv.init (o : Opts) (r : List Nat) : LInv { opts := o, rng := r } { opts := o, rng := r } {} :=
  ⟨⟨fun i => by simp [str, strO], fun i h => absurd rfl h⟩, SnT.refl _⟩

/-- Everything that is preserved along a run without reference to the final state. -/
structure RunInv (e0a e0b : EP) (p : PS) : Prop where
  la : LInv e0a p.a p.ga
  lb : LInv e0b p.b p.gb

theorem RunInv.swap {e0a e0b : EP} {p : PS} (h : RunInv e0a e0b p) : RunInv e0b e0a p.swap := ⟨h.lb, h.la⟩

theorem RunInv.stimL {e0a e0b : EP} {p q : PS} {st : Stim} (h : RunInv e0a e0b p) (hs : stimL p st = some q) :
    RunInv e0a e0b q := by
  obtain ⟨op, h1, h2, h3, h4⟩ := stimL_spec hs
  refine ⟨?_, ?_⟩
  · rw [h1, h2]; exact h.la.stepG op
  · rw [h3, h4]; exact h.lb

theorem RunInv.step {e0a e0b : EP} {p q : PS} {s : Side} {st : Stim} (h : RunInv e0a e0b p) (hs : step p s st = some q) :
    RunInv e0a e0b q := by
  cases s with
  | A => exact h.stimL (stepL_spec hs).1
  | B =>
    simp only [PairAll.step, Option.map_eq_some_iff] at hs
    obtain ⟨q', hq', rfl⟩ := hs
    exact (h.swap.stimL (stepL_spec hq').1).swap

theorem RunInv.run {e0a e0b : EP} (p : PS) (l : List (Side × Stim)) (h : RunInv e0a e0b p) : RunInv e0a e0b (run p l) := by
  induction l generalizing p with
  | nil => exact h
  | cons sa rest ih =>
    obtain ⟨s, st⟩ := sa
    unfold PairAll.run
    cases hs : PairAll.step p s st with
    | none => exact ih p h
    | some q => exact ih q (h.step hs)

/-- Objects are only appended and keep their ids, along every run. -/
theorem step_grow {p q : PS} {s : Side} {st : Stim} (hs : step p s st = some q) : Grow p.a q.a ∧ Grow p.b q.b := by
  cases s with
  | A =>
    obtain ⟨op, h1, _, h3, _⟩ := stimL_spec (stepL_spec hs).1
    rw [h1, h3]; exact ⟨Grow.applyOp p.a op, Grow.refl _⟩
  | B =>
    simp only [PairAll.step, Option.map_eq_some_iff] at hs
    obtain ⟨q', hq', rfl⟩ := hs
    obtain ⟨op, h1, _, h3, _⟩ := stimL_spec (stepL_spec hq').1
    refine ⟨?_, ?_⟩
    · show Grow p.a q'.b; rw [h3]; exact Grow.refl _
    · show Grow p.b q'.a; rw [h1]; exact Grow.applyOp p.b op

theorem run_grow (p : PS) (l : List (Side × Stim)) : Grow p.a (run p l).a ∧ Grow p.b (run p l).b := by
  induction l generalizing p with
  | nil => exact ⟨Grow.refl _, Grow.refl _⟩
  | cons sa rest ih =>
    obtain ⟨s, st⟩ := sa
    unfold PairAll.run
    cases hs : PairAll.step p s st with
    | none => exact ih p
    | some q =>
      obtain ⟨g1, g2⟩ := step_grow hs
      obtain ⟨g3, g4⟩ := ih q
      exact ⟨g1.trans g3, g2.trans g4⟩

/-! ### The invariant along a run -/

variable {ownA ownB : Prop}

/-- The stimuli of the endpoint model that a run applies to the RIGHT endpoint, in order … -/
def opsB (p : PS) : List (Side × Stim) → List Mux.Op
  | [] => []
  | (s, st) :: rest =>
    match step p s st with
    | none => opsB p rest
    | some q =>
      (match s with
        | .A => []
        | .B => (match stimOp p.swap st with | some op => [op] | none => [])) ++ opsB q rest

/-- … and the end events they record (`Mux.applyOpEnds`). -/
def endsB (p : PS) : List (Side × Stim) → List EndEv
  | [] => []
  | (s, st) :: rest =>
    match step p s st with
    | none => endsB p rest
    | some q =>
      (match s with
        | .A => []
        | .B => (match stimOp p.swap st with | some op => applyOpEnds p.b op | none => [])) ++ endsB q rest

theorem stimL_op {p q : PS} {st : Stim} (h : stimL p st = some q) :
    ∃ op, stimOp p st = some op ∧ q.a = (applyOp p.a op).1 ∧ q.b = p.b := by
  cases st with
  | call op =>
    simp only [stimL] at h
    split at h
    · rename_i hc
      have hq := Option.some.inj h; subst hq; exact ⟨op, by simp [stimOp, hc], rfl, rfl⟩
    · cases h
  | deliver =>
    simp only [stimL] at h
    split at h
    · cases h
    · rename_i m rest hba
      split at h
      · have hq := Option.some.inj h; subst hq; exact ⟨.deliver (.msg m), by simp [stimOp, hba], rfl, rfl⟩
      · have hq := Option.some.inj h; subst hq; exact ⟨.deliver (.msg m), by simp [stimOp, hba], rfl, rfl⟩
  | cut eof =>
    have h' : some ({ actL p (.deliver (if eof = true then WsIn.eof else WsIn.err)) with ba := [], baOpen := false } : PS) = some q := h
    have hq := Option.some.inj h'; subst hq
    exact ⟨.deliver (if eof = true then WsIn.eof else WsIn.err), rfl, rfl, rfl⟩

/-- The right endpoint of a run is the endpoint model after exactly those stimuli, and the recorded end events
    are the ghost `Mux.endsOf` of that history. -/
theorem run_b_ops (p : PS) (l : List (Side × Stim)) :
    (run p l).b = runOps p.b (opsB p l) ∧ endsB p l = endsOf p.b (opsB p l) := by
  induction l generalizing p with
  | nil => exact ⟨rfl, rfl⟩
  | cons sa rest ih =>
    obtain ⟨s, st⟩ := sa
    simp only [PairAll.run, opsB, endsB]
    cases hs : PairAll.step p s st with
    | none => exact ih p
    | some q =>
      simp only [Option.getD_some]
      obtain ⟨h1, h2⟩ := ih q
      cases s with
      | A =>
        obtain ⟨op, _, _, hb⟩ := stimL_op (stepL_spec hs).1
        simp only [List.nil_append]
        rw [h1, h2, hb]; exact ⟨rfl, rfl⟩
      | B =>
        simp only [PairAll.step, Option.map_eq_some_iff] at hs
        obtain ⟨q', hq', rfl⟩ := hs
        obtain ⟨op, hop, ha, _⟩ := stimL_op (stepL_spec hq').1
        simp only [hop]
        have hb : (PS.swap q').b = (applyOp p.b op).1 := ha
        rw [h1, h2, hb]
        exact ⟨by simp [runOps], by simp [endsOf]⟩

theorem PInv.step (hex : ¬(ownA ∧ ownB)) {p q : PS} {s : Side} {st : Stim} {Db : List EndEv}
    (h : PInv x jA j ownA ownB p Db) (hs : step p s st = some q) (hja : J x jA q.a) (hjb : J x j q.b) :
    PInv x jA j ownA ownB q (Db ++ endsB p [(s, st)]) := by
  cases s with
  | A =>
    have : endsB p [(Side.A, st)] = [] := by simp [endsB, hs]
    rw [this, List.append_nil]
    exact h.stimA hex (stepL_spec hs).1 (stepL_spec hs).2 hja
  | B =>
    have hs0 := hs
    simp only [PairAll.step, Option.map_eq_some_iff] at hs
    obtain ⟨q', hq', rfl⟩ := hs
    obtain ⟨op, hop, hp⟩ := h.stimB hex (stepL_spec hq').1 (stepL_spec hq').2 hjb
    have : endsB p [(Side.B, st)] = applyOpEnds p.b op := by simp [endsB, hs0, hop]
    rw [this]; exact hp

theorem endsB_cons (p : PS) (s : Side) (st : Stim) (rest : List (Side × Stim)) :
    endsB p ((s, st) :: rest) = endsB p [(s, st)] ++ endsB ((step p s st).getD p) rest := by
  simp only [endsB]
  cases step p s st with
  | none => simp
  | some q => simp

theorem PInv.run (hex : ¬(ownA ∧ ownB)) (p : PS) (l : List (Side × Stim)) {Db : List EndEv}
    (h : PInv x jA j ownA ownB p Db) (hja : J x jA (run p l).a) (hjb : J x j (run p l).b) :
    PInv x jA j ownA ownB (run p l) (Db ++ endsB p l) := by
  induction l generalizing p Db with
  | nil => simpa [endsB, PairAll.run] using h
  | cons sa rest ih =>
    obtain ⟨s, st⟩ := sa
    rw [endsB_cons, ← List.append_assoc]
    unfold PairAll.run at hja hjb ⊢
    cases hs : PairAll.step p s st with
    | none =>
      rw [hs] at hja hjb
      have : endsB p [(s, st)] = [] := by simp [endsB, hs]
      rw [this, List.append_nil]
      exact ih p h hja hjb
    | some q =>
      rw [hs] at hja hjb
      simp only [Option.getD_some] at hja hjb ⊢
      exact ih q (h.step hex hs (hja.back (run_grow q rest).1) (hjb.back (run_grow q rest).2)) hja hjb

/-! ### The initial state -/

theorem Cfg.excl {ra rb : List Nat} (c : Cfg ra rb) (x : Nat) : ¬(x ∈ ra ∧ x ∈ rb) := by
  intro h
  have := (List.nodup_append.mp c.nodup).2.2 x h.1 x h.2
  exact this rfl

theorem Cfg.count {ra rb : List Nat} (c : Cfg ra rb) (x : Nat) : ra.count x + rb.count x ≤ 1 := by
  have := List.nodup_iff_count.mp c.nodup x
  simpa [List.count_append] using this

theorem Cfg.swap {ra rb : List Nat} (c : Cfg ra rb) : Cfg rb ra := by
  refine ⟨?_, c.neB, c.neA⟩
  have := List.nodup_append.mp c.nodup
  exact List.nodup_append.mpr ⟨this.2.1, this.1, fun a ha b hb hab => this.2.2 b hb a ha hab.symm⟩

theorem PInv.init {ra rb : List Nat} (c : Cfg ra rb) (oa ob : Opts) (x jA j : Nat) :
    PInv x jA j (x ∈ ra) (x ∈ rb) (init oa ob ra rb) [] := by
  have hcnt := c.count x
  have hne : ∀ r : List Nat, r ≠ [] → r.isEmpty = false := by intro r h; cases r <;> simp_all
  have hm : ∀ r : List Nat, 0 < List.count x r → x ∈ r := fun r h => List.count_pos_iff.mp h
  have hsm : sm x (absC x jA j (PairAll.init oa ob ra rb)) =
      { ca := ra.count x, cb := rb.count x, na := 0, nb := 0, sa := 0, sb := 0, cP := 0, aP := 0, cQ := 0, aQ := 0,
        wa := 0, wb := 0, bP := 0, bQ := 0, ha := 0, hb := 0 } := by
    simp [sm, absC, PairAll.init, view, PC.path, PC.swap, inMsgs, cC, cAP, cB, sk, b2n, bindHeld]
  refine ⟨⟨⟨?_, ?_⟩, ?_, ?_, ?_⟩, SF.init oa ra, SF.init ob rb, hne ra c.neA, hne rb c.neB⟩
  · rw [hsm]
    refine ⟨?_, ?_, ?_, ?_, ?_, ?_, ?_, ?_, ?_, ?_, ?_, ?_, ?_, ?_, ?_⟩ <;> simp [Sm.dead] <;>
      first | exact hcnt | omega | exact hm ra
  · rw [hsm]
    refine ⟨?_, ?_, ?_, ?_, ?_, ?_, ?_, ?_, ?_, ?_, ?_, ?_, ?_, ?_, ?_⟩ <;> simp [Sm.swap, Sm.dead] <;>
      first | omega | exact hm rb
  · refine ⟨?_, ?_, ?_, ?_⟩ <;> simp [absC, PairAll.init, view, deaf]
  · refine ⟨?_, ?_, ?_, ?_, ?_, ?_⟩ <;>
      simp [absC, PairAll.init, view, PC.live, inMsgs, pX, sentX, wireMsgs, Log.dataOf, canAcc, canAccF]
  · refine ⟨?_, ?_, ?_, ?_, ?_, ?_, ?_, ?_, ?_, ?_⟩ <;>
      simp [absC, PairAll.init, view, PC.path, inMsgs, pX, sentX, wireMsgs, Log.dataOf, canAcc, canAccF, wroteX,
        xlOfWrote, XL.wrotes, finP, finsOf, XL.fins, hasFin, hasPush, rxOpenJ]

/-! ### Reading the theorem off -/

theorem pX_wireMsgs (x : Nat) (evs : List Ev) :
    pX x (wireMsgs evs) = ((pushesEv evs).filter (fun t => t.1 == x)).map (fun t => t.2) := by
  induction evs with
  | nil => rfl
  | cons ev r ih =>
    cases ev with
    | wire m =>
      cases m with
      | frame f =>
        cases f <;> try (simpa [wireMsgs, pX, pushesEv] using ih)
        rename_i fid d
        by_cases h : fid = x
        · simp [wireMsgs, pX, pushesEv, h, ih]
        · simp [wireMsgs, pX, pushesEv, h, ih]
      | ping => simpa [wireMsgs, pX, pushesEv] using ih
      | pong => simpa [wireMsgs, pX, pushesEv] using ih
      | close => simpa [wireMsgs, pX, pushesEv] using ih
    | wireClose => simpa [wireMsgs, pX, pushesEv] using ih
    | openDone r x => simpa [wireMsgs, pX, pushesEv] using ih
    | bindDone r x => simpa [wireMsgs, pX, pushesEv] using ih
    | exit x => simpa [wireMsgs, pX, pushesEv] using ih

theorem wroteOn_eq (x : Nat) (w : List (Nat × Nat × Bytes)) :
    wroteOn x w = (((wroteFrames w).filter (fun t => t.1 == x)).map (fun t => t.2)).flatten := by
  simp [wroteOn, wroteFrames, List.filter_map, Function.comp_def]

theorem prefix_flatten {α : Type} {a b : List (List α)} (h : a <+: b) : a.flatten <+: b.flatten := by
  obtain ⟨t, rfl⟩ := h
  simp

/-- In every reachable state of the pair, what the RIGHT endpoint's application has read from a stream
    object carrying `x` is a prefix of what the LEFT endpoint's application wrote on flow `x`. -/
theorem reads_prefix_of_writes {ra rb : List Nat} (c : Cfg ra rb) (oa ob : Opts) (l : List (Side × Stim)) (x j : Nat)
    (o : Obj) (hj : (run (init oa ob ra rb) l).b.objs[j]? = some o) (hx : o.fid = x) :
    chunks (run (init oa ob ra rb) l).gb.returned j <+: wroteOn x (run (init oa ob ra rb) l).ga.wrote := by
  have hja : J x (run (init oa ob ra rb) l).a.objs.length (run (init oa ob ra rb) l).a := by
    intro o' ho'
    have := (List.getElem?_eq_some_iff.mp ho').1
    omega
  have hjb : J x j (run (init oa ob ra rb) l).b := by
    intro o' ho'; rw [hj] at ho'; cases ho'; exact hx
  have hp := PInv.run (c.excl x) (init oa ob ra rb) l (PInv.init c oa ob x _ j) hja hjb
  have hr := RunInv.run (init oa ob ra rb) l (⟨LInv.init oa ra, LInv.init ob rb⟩ : RunInv _ _ (init oa ob ra rb))
  generalize run (init oa ob ra rb) l = pf at *
  -- reads ⊑ accepted
  have h1 : chunks pf.gb.returned j <+: chunks pf.gb.accepted j := by
    have := hr.lb.rx.eq j
    rw [← this, List.append_assoc]; exact List.prefix_append _ _
  -- accepted ⊑ sent
  have h2 : chunks pf.gb.accepted j <+: (sentX x pf.ga).flatten := by
    rw [chunks_eq_flatten]; exact prefix_flatten hp.good.dir.d5
  -- sent ⊑ written
  have h3 : (sentX x pf.ga).flatten <+: wroteOn x pf.ga.wrote := by
    rw [wroteOn_eq, sentX, pX_wireMsgs]
    refine prefix_flatten ((List.IsPrefix.filter _ ?_).map _)
    have := hr.la.tx.pre
    simp only [pushesQ, List.nil_append] at this
    exact (List.prefix_append _ _).trans this
  exact (h1.trans h2).trans h3

/-- The frame-level statement behind it: the payloads of the `Push` frames accepted into a stream object of
    the right endpoint that carries `x` are a PREFIX of the payloads of the `Push x` frames the left endpoint's
    sink has taken — acceptance is prefix-closed per flow id, and the wire loses only a suffix. -/
theorem accepted_prefix_of_sent {ra rb : List Nat} (c : Cfg ra rb) (oa ob : Opts) (l : List (Side × Stim)) (x j : Nat)
    (o : Obj) (hj : (run (init oa ob ra rb) l).b.objs[j]? = some o) (hx : o.fid = x) :
    Log.dataOf (run (init oa ob ra rb) l).gb.accepted j <+: pX x (wireMsgs (run (init oa ob ra rb) l).ga.evs) := by
  have hja : J x (run (init oa ob ra rb) l).a.objs.length (run (init oa ob ra rb) l).a := by
    intro o' ho'
    have := (List.getElem?_eq_some_iff.mp ho').1
    omega
  have hjb : J x j (run (init oa ob ra rb) l).b := by
    intro o' ho'; rw [hj] at ho'; cases ho'; exact hx
  exact (PInv.run (c.excl x) (init oa ob ra rb) l (PInv.init c oa ob x _ j) hja hjb).good.dir.d5

/-! ### Clean end-of-stream -/

theorem wroteX_flatten (x : Nat) (g : Ghost) : (wroteX x g).flatten = wroteOn x g.wrote := by
  unfold wroteX xlOfWrote wroteOn
  induction g.wrote.filter (fun t => t.2.1 == x) with
  | nil => rfl
  | cons a r ih => simp only [List.map_cons, XL.wrotes, List.flatten_cons, ih]

theorem finP_pos_of_mem (x j : Nat) (D : List EndEv) (h : (j, EndCause.peerFinish x) ∈ D) : 1 ≤ finP x j D := by
  unfold finP finsOf
  have hm : (j, EndCause.peerFinish x) ∈ D.filter (fun p => p == (j, EndCause.peerFinish x)) := by
    simp [List.mem_filter, h]
  cases hf : D.filter (fun p => p == (j, EndCause.peerFinish x)) with
  | nil => rw [hf] at hm; cases hm
  | cons a r => simp [XL.fins]

theorem nobj_nw_spec (x : Nat) (objs : List Obj) (h1 : 1 ≤ objs.countP (fun o => o.fid == x))
    (h2 : objs.countP (fun o => o.fid == x && !o.finishSent) = 0) :
    (∃ (i : Nat) (o : Obj), objs[i]? = some o ∧ o.fid = x) ∧
      ∀ (i : Nat) (o : Obj), objs[i]? = some o → o.fid = x → o.finishSent = true := by
  constructor
  · obtain ⟨o, ho, hf⟩ := List.countP_pos_iff.mp h1
    obtain ⟨i, hi, rfl⟩ := List.mem_iff_getElem.mp ho
    exact ⟨i, objs[i], List.getElem?_eq_getElem hi, by simpa using hf⟩
  · intro i o ho hf
    have hm : o ∈ objs := List.mem_of_getElem? ho
    have := List.countP_eq_zero.mp h2 o hm
    simpa [hf] using this

/-- What the invariant gives at a state where object `j` of the right endpoint (carrying `x`, receiver still
    open) has had the peer's `Finish x` processed for it: the frames accepted into `j` are exactly the
    payloads the left endpoint's writes put on `x`, and every stream object of the left endpoint carrying `x`
    has its write side shut (there is one). -/
theorem finish_processed {ra rb : List Nat} (c : Cfg ra rb) (oa ob : Opts) (l : List (Side × Stim)) (x j : Nat)
    (o : Obj) (hj : (run (init oa ob ra rb) l).b.objs[j]? = some o) (hx : o.fid = x) (hro : o.rxOpen = true)
    (hf : (j, EndCause.peerFinish x) ∈ endsB (init oa ob ra rb) l) :
    Log.dataOf (run (init oa ob ra rb) l).gb.accepted j = wroteX x (run (init oa ob ra rb) l).ga ∧
    (∃ (i : Nat) (oA : Obj), (run (init oa ob ra rb) l).a.objs[i]? = some oA ∧ oA.fid = x) ∧
    (∀ (i : Nat) (oA : Obj), (run (init oa ob ra rb) l).a.objs[i]? = some oA → oA.fid = x → oA.finishSent = true) := by
  have hja : J x (run (init oa ob ra rb) l).a.objs.length (run (init oa ob ra rb) l).a := by
    intro o' ho'
    have := (List.getElem?_eq_some_iff.mp ho').1
    omega
  have hjb : J x j (run (init oa ob ra rb) l).b := by
    intro o' ho'; rw [hj] at ho'; cases ho'; exact hx
  have hp := PInv.run (c.excl x) (init oa ob ra rb) l (PInv.init c oa ob x _ j) hja hjb
  have hP : 1 ≤ finP x j ([] ++ endsB (init oa ob ra rb) l) := by
    rw [List.nil_append]; exact finP_pos_of_mem x j _ hf
  have hrx : (absC x (run (init oa ob ra rb) l).a.objs.length j (run (init oa ob ra rb) l)).b.rxJ = true := by
    simp [absC, view, rxOpenJ, hj, hro]
  obtain ⟨h1, h2, h3, _⟩ := hp.good.fin.f6 hP hrx
  exact ⟨h1, nobj_nw_spec x _ h2 h3⟩

/-- Clean end-of-stream is exact: if a read on a live handle of object `j` (carrying `x`, receiver open) of the
    right endpoint returns end-of-stream and a `Finish x` of the peer was processed for `j`, then what was read
    from `j` is exactly what the left endpoint's application wrote on `x`. -/
theorem clean_eof_exact {ra rb : List Nat} (c : Cfg ra rb) (oa ob : Opts) (l : List (Side × Stim)) (x j h n : Nat)
    (o : Obj) (hh : (run (init oa ob ra rb) l).b.handles[h]? = some j)
    (hj : (run (init oa ob ra rb) l).b.objs[j]? = some o) (hx : o.fid = x) (hro : o.rxOpen = true)
    (he : (appRead (run (init oa ob ra rb) l).b h n).2 = .eof)
    (hf : (j, EndCause.peerFinish x) ∈ endsB (init oa ob ra rb) l) :
    chunks (run (init oa ob ra rb) l).gb.returned j = wroteOn x (run (init oa ob ra rb) l).ga.wrote := by
  obtain ⟨hacc, _, _⟩ := finish_processed c oa ob l x j o hj hx hro hf
  have hr := RunInv.run (init oa ob ra rb) l (⟨LInv.init oa ra, LInv.init ob rb⟩ : RunInv _ _ (init oa ob ra rb))
  generalize run (init oa ob ra rb) l = pf at *
  rw [appRead_res _ h j n o hh hj, readOut_eof] at he
  obtain ⟨_, hb, hq⟩ := (readRes_eof_iff o).mp he
  have hfl : o.rxq.flatten = [] := by
    apply List.flatten_eq_nil_iff.mpr
    exact hq
  have hstr : str pf.b j = [] := by
    simp only [str, strO, hj, Obj.stream, hb, hfl, List.append_nil]
  have hdis : chunks pf.gb.discarded j = [] := by
    cases hd : chunks pf.gb.discarded j with
    | nil => rfl
    | cons a r =>
      obtain ⟨o', ho', hc', _⟩ := hr.lb.rx.disc j (by rw [hd]; exact List.cons_ne_nil _ _)
      rw [hj] at ho'; cases ho'
      rw [hro] at hc'; cases hc'
  have heq := hr.lb.rx.eq j
  rw [hstr, hdis, List.append_nil, List.append_nil, chunks_eq_flatten pf.gb.accepted, hacc, wroteX_flatten] at heq
  exact heq

/-! ### The other direction, by symmetry -/

def Side.flip : Side → Side
  | .A => .B
  | .B => .A

theorem PS.swap_swap (p : PS) : p.swap.swap = p := rfl

theorem step_swap (p : PS) (s : Side) (st : Stim) : step p.swap s.flip st = (step p s st).map PS.swap := by
  cases s with
  | A =>
    show (stepL p.swap.swap st).map PS.swap = (stepL p st).map PS.swap
    rw [PS.swap_swap]
  | B =>
    show stepL p.swap st = ((stepL p.swap st).map PS.swap).map PS.swap
    cases stepL p.swap st <;> rfl

theorem run_swap (p : PS) (l : List (Side × Stim)) :
    run p.swap (l.map (fun sa => (sa.1.flip, sa.2))) = (run p l).swap := by
  induction l generalizing p with
  | nil => rfl
  | cons sa rest ih =>
    obtain ⟨s, st⟩ := sa
    simp only [List.map_cons, PairAll.run]
    rw [step_swap]
    cases hs : step p s st with
    | none => exact ih p
    | some q => exact ih q

/-- … and what the LEFT endpoint's application has read from a stream object carrying `x` is a prefix of what
    the RIGHT endpoint's application wrote on flow `x`. -/
theorem reads_prefix_of_writes_rev {ra rb : List Nat} (c : Cfg ra rb) (oa ob : Opts) (l : List (Side × Stim)) (x i : Nat)
    (o : Obj) (hi : (run (init oa ob ra rb) l).a.objs[i]? = some o) (hx : o.fid = x) :
    chunks (run (init oa ob ra rb) l).ga.returned i <+: wroteOn x (run (init oa ob ra rb) l).gb.wrote := by
  have h := reads_prefix_of_writes c.swap ob oa (l.map (fun sa => (sa.1.flip, sa.2))) x i o
  have hsw : run (init ob oa rb ra) (l.map (fun sa => (sa.1.flip, sa.2))) = (run (init oa ob ra rb) l).swap :=
    run_swap (init oa ob ra rb) l
  rw [hsw] at h
  exact h hi hx

/-- The stimuli a run applies to the LEFT endpoint, and the end events they record. -/
def opsA (p : PS) (l : List (Side × Stim)) : List Mux.Op := opsB p.swap (l.map (fun sa => (sa.1.flip, sa.2)))
def endsA (p : PS) (l : List (Side × Stim)) : List EndEv := endsB p.swap (l.map (fun sa => (sa.1.flip, sa.2)))

theorem run_a_ops (p : PS) (l : List (Side × Stim)) :
    (run p l).a = runOps p.a (opsA p l) ∧ endsA p l = endsOf p.a (opsA p l) := by
  have h := run_b_ops p.swap (l.map (fun sa => (sa.1.flip, sa.2)))
  rw [run_swap] at h
  exact h

/-- … and in the direction right → left. -/
theorem clean_eof_exact_rev {ra rb : List Nat} (c : Cfg ra rb) (oa ob : Opts) (l : List (Side × Stim)) (x i h n : Nat)
    (o : Obj) (hh : (run (init oa ob ra rb) l).a.handles[h]? = some i)
    (hi : (run (init oa ob ra rb) l).a.objs[i]? = some o) (hx : o.fid = x) (hro : o.rxOpen = true)
    (he : (appRead (run (init oa ob ra rb) l).a h n).2 = .eof)
    (hf : (i, EndCause.peerFinish x) ∈ endsA (init oa ob ra rb) l) :
    chunks (run (init oa ob ra rb) l).ga.returned i = wroteOn x (run (init oa ob ra rb) l).gb.wrote := by
  have hsw : run (init ob oa rb ra) (l.map (fun sa => (sa.1.flip, sa.2))) = (run (init oa ob ra rb) l).swap :=
    run_swap (init oa ob ra rb) l
  have := clean_eof_exact c.swap ob oa (l.map (fun sa => (sa.1.flip, sa.2))) x i h n o
  rw [hsw] at this
  exact this hh hi hx hro he hf

theorem finish_processed_rev {ra rb : List Nat} (c : Cfg ra rb) (oa ob : Opts) (l : List (Side × Stim)) (x i : Nat)
    (o : Obj) (hi : (run (init oa ob ra rb) l).a.objs[i]? = some o) (hx : o.fid = x) (hro : o.rxOpen = true)
    (hf : (i, EndCause.peerFinish x) ∈ endsA (init oa ob ra rb) l) :
    (∃ (k : Nat) (oB : Obj), (run (init oa ob ra rb) l).b.objs[k]? = some oB ∧ oB.fid = x) ∧
    (∀ (k : Nat) (oB : Obj), (run (init oa ob ra rb) l).b.objs[k]? = some oB → oB.fid = x → oB.finishSent = true) := by
  have hsw : run (init ob oa rb ra) (l.map (fun sa => (sa.1.flip, sa.2))) = (run (init oa ob ra rb) l).swap :=
    run_swap (init oa ob ra rb) l
  have := finish_processed c.swap ob oa (l.map (fun sa => (sa.1.flip, sa.2))) x i o
  rw [hsw] at this
  exact (this hi hx hro hf).2

end Penguin.PairAll
