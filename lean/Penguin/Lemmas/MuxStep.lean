/-
One-step lemmas about the endpoint model: what `openRound`, `closeLocal`, `closeFlow`,
`processFrame` and `windDown` do to the flow table, the stream objects and the outbound queue.
-/
import Penguin.Model.Mux
import Penguin.Lemmas.MuxBasic

namespace Penguin.Mux

/-! ### Flow-id generation -/

theorem drawScript_spec (flows : List (Nat × Slot)) (script : List Nat) (k : Nat) (rest : List Nat)
    (h : drawScript flows script = some (k, rest)) : k ≠ 0 ∧ lookup flows k = none := by
  induction script with
  | nil => simp [drawScript] at h
  | cons a script ih =>
    unfold drawScript at h
    split at h
    · rename_i hc
      simp only [Option.some.injEq, Prod.mk.injEq] at h
      obtain ⟨rfl, _⟩ := h
      exact ⟨hc.1, by simpa using hc.2⟩
    · exact ih h

theorem drawFallback_spec (flows : List (Nat × Slot)) (fb fuel : Nat) (r : Nat × Nat)
    (h : drawFallback flows fb fuel = some r) : r.1 ≠ 0 ∧ lookup flows r.1 = none := by
  induction fuel generalizing fb with
  | zero => simp [drawFallback] at h
  | succ n ih =>
    unfold drawFallback at h
    simp only at h
    split at h
    · rename_i hc
      simp only [Option.some.injEq] at h
      subst h
      exact ⟨hc.1, by simpa using hc.2⟩
    · exact ih _ h

/-- An endpoint never proposes flow id 0 or an id it already uses, whatever the generator yields. -/
theorem drawId_spec (flows : List (Nat × Slot)) (script : List Nat) (fb fuel k : Nat) (rest : List Nat) (fb' : Nat)
    (h : drawId flows script fb fuel = some (k, rest, fb')) : k ≠ 0 ∧ lookup flows k = none := by
  unfold drawId at h
  split at h
  · rename_i k0 rest0 hs
    simp only [Option.some.injEq, Prod.mk.injEq] at h
    obtain ⟨rfl, _, _⟩ := h
    exact drawScript_spec flows script _ _ hs
  · cases hf : drawFallback flows fb fuel with
    | none => simp [hf] at h
    | some r =>
      simp only [hf, Option.map_some, Option.some.injEq, Prod.mk.injEq] at h
      obtain ⟨rfl, _, _⟩ := h
      exact drawFallback_spec flows fb fuel r hf

theorem enqFrame_outq_ex (e : EP) (f : Frame) :
    ∃ extra, (e.enqFrame f).outq = e.outq ++ extra ∧ ∀ m ∈ extra, m = Msg.frame f := by
  unfold EP.enqFrame EP.enq
  split
  · exact ⟨[], by simp⟩
  · exact ⟨[.frame f], by simp⟩

/-! ### `openRound` -/

theorem openRound_objs (e : EP) (r : OpenReq) : (openRound e r).1.objs = e.objs := by
  unfold openRound
  split
  · rfl
  · split
    · rfl
    · simp only
      split <;> simp [EP.enqFrame]

theorem openRound_outClosed (e : EP) (r : OpenReq) : (openRound e r).1.outClosed = e.outClosed := by
  unfold openRound
  split
  · rfl
  · split
    · rfl
    · simp only
      split <;> simp [EP.enqFrame]

theorem openRound_keeps (e : EP) (r : OpenReq) (y : Nat) (s : Slot) (h : lookup e.flows y = some s) :
    lookup (openRound e r).1.flows y = some s := by
  unfold openRound
  split
  · exact h
  · split
    · exact h
    · rename_i fid rng' fb' hd
      have hs := drawId_spec _ _ _ _ _ _ _ hd
      have hne : y ≠ fid := by
        intro hc; subst hc; rw [hs.2] at h; cases h
      simp only
      split <;> simp [EP.enqFrame, lookup_insert_ne _ _ _ _ hne, h]

theorem openRound_outq (e : EP) (r : OpenReq) :
    ∃ extra, (openRound e r).1.outq = e.outq ++ extra ∧ ∀ m ∈ extra, Msg.isReset m = false := by
  unfold openRound
  split
  · exact ⟨[], by simp⟩
  · split
    · exact ⟨[], by simp⟩
    · simp only
      split
      · exact ⟨[], by simp⟩
      · rename_i fid rng' fb' hd hc
        obtain ⟨extra, h1, h2⟩ := enqFrame_outq_ex
          { e with rng := rng', fallback := fb', flows := insert e.flows fid (.requested r.req),
                   opens := { r with retriesLeft := r.retriesLeft - 1 } :: e.opens.filter (·.req ≠ r.req) }
          (.connect fid e.opts.rwnd r.port r.host)
        refine ⟨extra, h1, ?_⟩
        intro m hm; rw [h2 m hm]; rfl

/-! ### `closeLocal`, `closeFlow` -/

theorem openRejected_objs (e : EP) (req : Nat) (final : Bool) : (openRejected e req final).1.objs = e.objs := by
  unfold openRejected
  split
  · rfl
  · split <;> rfl

theorem openRejected_flows (e : EP) (req : Nat) (final : Bool) : (openRejected e req final).1.flows = e.flows := by
  unfold openRejected
  split
  · rfl
  · split <;> rfl

theorem openRejected_outq (e : EP) (req : Nat) (final : Bool) : (openRejected e req final).1.outq = e.outq := by
  unfold openRejected
  split
  · rfl
  · split <;> rfl

theorem openRejected_park (e : EP) (req : Nat) (final : Bool) : (openRejected e req final).1.park = e.park := by
  unfold openRejected
  split
  · rfl
  · split <;> rfl

/-- `closeLocal` touches at most the object the removed slot referred to. -/
theorem closeLocal_other_obj (e : EP) (s : Slot) (fid : Nat) (inh final : Bool) (j : Nat)
    (hne : s ≠ .established j) : (closeLocal e s fid inh final).1.objs[j]? = e.objs[j]? := by
  unfold closeLocal
  cases s with
  | established i =>
    have hij : j ≠ i := by intro hc; subst hc; exact hne rfl
    simp only
    cases ho : e.obj? i with
    | none => rfl
    | some o =>
      simp only
      split <;> simp [EP.enqFrame, modObj_get_ne _ _ _ _ hij]
  | requested req => simp only; rw [openRejected_objs]
  | bindRequested req => rfl

theorem closeLocal_keeps (e : EP) (s : Slot) (fid : Nat) (inh final : Bool) (y : Nat) (s' : Slot)
    (h : lookup e.flows y = some s') : lookup (closeLocal e s fid inh final).1.flows y = some s' := by
  unfold closeLocal
  cases s with
  | established i =>
    simp only
    cases ho : e.obj? i with
    | none => exact h
    | some o => simp only; split <;> simp [EP.enqFrame, h]
  | requested req => simp only; rw [openRejected_flows]; exact h
  | bindRequested req => exact h

/-- With `inhibitRst`, `closeLocal` never puts a `Reset` on the outbound queue. -/
theorem closeLocal_inhibit_outq (e : EP) (s : Slot) (fid : Nat) (final : Bool) :
    ∃ extra, (closeLocal e s fid true final).1.outq = e.outq ++ extra ∧ ∀ m ∈ extra, Msg.isReset m = false := by
  unfold closeLocal
  cases s with
  | established i =>
    simp only
    cases ho : e.obj? i with
    | none => exact ⟨[], by simp⟩
    | some o => exact ⟨[], by simp⟩
  | requested req => exact ⟨[], by simp [openRejected_outq], by simp⟩
  | bindRequested req => exact ⟨[], by simp⟩

theorem closeFlow_other_slot (e : EP) (fid : Nat) (inh : Bool) (y : Nat) (s : Slot)
    (h : lookup e.flows y = some s) (hne : y ≠ fid) : lookup (closeFlow e fid inh).1.flows y = some s := by
  unfold closeFlow
  split
  · exact h
  · apply closeLocal_keeps
    simp [lookup_erase_ne _ _ _ hne, h]

theorem closeFlow_other_obj (e : EP) (fid : Nat) (inh : Bool) (j : Nat)
    (hne : lookup e.flows fid ≠ some (.established j)) : (closeFlow e fid inh).1.objs[j]? = e.objs[j]? := by
  unfold closeFlow
  split
  · rfl
  · rename_i s hs
    rw [closeLocal_other_obj]
    intro hc; subst hc; exact hne hs

/-! ### `processFrame` -/

theorem offerAccept_flows (e : EP) (i : Nat) : (offerAccept e i).flows = e.flows := by
  unfold offerAccept; split <;> rfl
theorem offerAccept_objs (e : EP) (i : Nat) : (offerAccept e i).objs = e.objs := by
  unfold offerAccept; split <;> rfl
theorem offerAccept_outq (e : EP) (i : Nat) : (offerAccept e i).outq = e.outq := by
  unfold offerAccept; split <;> rfl
theorem offerBind_flows (e : EP) (b : BindIn) : (offerBind e b).flows = e.flows := by
  unfold offerBind; split <;> rfl
theorem offerBind_objs (e : EP) (b : BindIn) : (offerBind e b).objs = e.objs := by
  unfold offerBind; split <;> rfl
theorem offerBind_outq (e : EP) (b : BindIn) : (offerBind e b).outq = e.outq := by
  unfold offerBind; split <;> rfl

/-- Processing any frame on a running endpoint never ends the receive loop. -/
theorem processFrame_continues (e : EP) (f : Frame) (ig : Bool) (ho : e.outClosed = false) :
    (processFrame e f ig).2.2 = none := by
  cases f with
  | connect fid rwnd port host =>
    simp only [processFrame]
    split
    · rfl
    · simp only [ho, Bool.false_eq_true, if_false]
      split <;> rfl
  | acknowledge fid n =>
    simp only [processFrame]
    repeat' split
    all_goals rfl
  | reset fid => simp [processFrame]
  | finish fid =>
    simp only [processFrame]
    split <;> rfl
  | push fid d =>
    simp only [processFrame]
    repeat' split
    all_goals rfl
  | bind fid bt port host =>
    simp only [processFrame]
    repeat' split
    all_goals rfl
  | datagram fid port host d =>
    simp only [processFrame]
    repeat' split
    all_goals rfl

/-- Processing a `Reset` never appends a `Reset`. -/
theorem processFrame_reset_no_reset (e : EP) (fid : Nat) (ig : Bool) :
    ∃ extra, (processFrame e (.reset fid) ig).1.outq = e.outq ++ extra ∧
      ∀ m ∈ extra, Msg.isReset m = false := by
  simp only [processFrame, closeFlow]
  split
  · exact ⟨[], by simp⟩
  · rename_i s hs
    exact closeLocal_inhibit_outq { e with flows := erase e.flows fid } s fid false

/-- Existing slots of flows the frame does not address are kept. -/
theorem processFrame_other_slot (e : EP) (f : Frame) (ig : Bool) (y : Nat) (s : Slot)
    (hy : lookup e.flows y = some s) (hne : ∀ fid, Msg.flow? (.frame f) = some fid → y ≠ fid) :
    lookup (processFrame e f ig).1.flows y = some s := by
  cases f with
  | connect fid rwnd port host =>
    have h := hne fid rfl
    simp only [processFrame]
    split
    · simpa [EP.enqFrame] using hy
    · repeat' split
      all_goals simp [EP.enqFrame, offerAccept_flows, lookup_insert_ne _ _ _ _ h, hy]
  | acknowledge fid n =>
    have h := hne fid rfl
    simp only [processFrame]
    split
    · simpa using hy
    · split
      · simp [lookup_insert_ne _ _ _ _ h, hy]
      · simp [lookup_insert_ne _ _ _ _ h, hy]
    · simpa [EP.enqFrame] using hy
    · simpa [EP.enqFrame] using hy
  | reset fid =>
    have h := hne fid rfl
    simp only [processFrame]
    exact closeFlow_other_slot e fid true y s hy h
  | finish fid =>
    have h := hne fid rfl
    simp only [processFrame]
    split
    · simpa [EP.enqFrame] using hy
    · simp [lookup_erase_ne _ _ _ h, hy]
    · simp [EP.enqFrame, lookup_erase_ne _ _ _ h, hy]
    · simpa using hy
  | push fid d =>
    have h := hne fid rfl
    simp only [processFrame]
    split
    · split
      · exact hy
      · split
        · simpa [EP.enqFrame] using hy
        · split
          · exact hy
          · split
            · simpa using hy
            · exact closeFlow_other_slot e fid false y s hy h
    · simpa [EP.enqFrame] using hy
  | bind fid bt port host =>
    simp only [processFrame]
    repeat' split
    all_goals simp [EP.enqFrame, offerBind_flows, hy]
  | datagram fid port host d =>
    simp only [processFrame]
    repeat' split
    all_goals simp [hy]

/-- Objects other than the one the addressed flow's slot refers to are not modified. -/
theorem processFrame_other_obj (e : EP) (f : Frame) (ig : Bool) (j : Nat) (hj : j < e.objs.length)
    (hne : ∀ fid, Msg.flow? (.frame f) = some fid → lookup e.flows fid ≠ some (.established j)) :
    (processFrame e f ig).1.objs[j]? = e.objs[j]? := by
  have happ : ∀ (o : Obj), (e.objs ++ [o])[j]? = e.objs[j]? := fun o => List.getElem?_append_left hj
  cases f with
  | connect fid rwnd port host =>
    simp only [processFrame]
    split
    · simp [EP.enqFrame]
    · have hjl : j ≠ e.objs.length := by omega
      have hmo : ∀ (x : EP) (f : Obj → Obj), (x.modObj e.objs.length f).objs[j]? = x.objs[j]? :=
        fun x f => modObj_get_ne x _ _ f hjl
      repeat' split
      all_goals simp [EP.enqFrame, offerAccept_objs, happ, hmo]
  | acknowledge fid n =>
    have h := hne fid rfl
    simp only [processFrame]
    split
    · rename_i i hl
      have : j ≠ i := by intro hc; subst hc; exact h hl
      exact modObj_get_ne _ _ _ _ this
    · have hjl : j ≠ e.objs.length := by omega
      have hmo : ∀ (x : EP) (f : Obj → Obj), (x.modObj e.objs.length f).objs[j]? = x.objs[j]? :=
        fun x f => modObj_get_ne x _ _ f hjl
      split <;> simp [happ, hmo]
    · simp [EP.enqFrame]
    · simp [EP.enqFrame]
  | reset fid =>
    have h := hne fid rfl
    simp only [processFrame]
    exact closeFlow_other_obj e fid true j h
  | finish fid =>
    have h := hne fid rfl
    simp only [processFrame]
    split
    · simp [EP.enqFrame]
    · rfl
    · simp [EP.enqFrame]
    · rename_i i hl
      have : j ≠ i := by intro hc; subst hc; exact h hl
      exact modObj_get_ne _ _ _ _ this
  | push fid d =>
    have h := hne fid rfl
    simp only [processFrame]
    split
    · rename_i i hl
      have hji : j ≠ i := by intro hc; subst hc; exact h hl
      split
      · rfl
      · split
        · simp [EP.enqFrame]
        · split
          · rfl
          · split
            · exact modObj_get_ne _ _ _ _ hji
            · exact closeFlow_other_obj e fid false j h
    · simp [EP.enqFrame]
  | bind fid bt port host =>
    simp only [processFrame]
    repeat' split
    all_goals simp [EP.enqFrame, offerBind_objs]
  | datagram fid port host d =>
    simp only [processFrame]
    repeat' split
    all_goals simp

/-- Window overrun: only the offending flow is closed; it is reset unless already finished. -/
theorem processFrame_overrun (e : EP) (fid i : Nat) (o : Obj) (d : Bytes) (ig : Bool)
    (hs : lookup e.flows fid = some (.established i)) (ho : e.objs[i]? = some o)
    (halive : o.senderAlive = true) (hopen : o.rxOpen = true) (hfull : ¬ o.rxq.length < o.cap) :
    let r := processFrame e (.push fid d) ig
    r.2.2 = none ∧ lookup r.1.flows fid = none ∧
    (∀ y, y ≠ fid → lookup r.1.flows y = lookup e.flows y) ∧
    r.1.outq = (if o.finishSent then e else e.enqFrame (.reset fid)).outq := by
  have ho' : e.obj? i = some o := ho
  have ho'' : ({ e with flows := erase e.flows fid } : EP).obj? i = some o := ho
  simp only [processFrame, hs, ho', halive, hopen, hfull, closeFlow, closeLocal, ho'']
  cases hf : o.finishSent
  · simp [EP.enqFrame, lookup_erase_self, enq_outq]
    refine ⟨fun y hy => lookup_erase_ne _ _ _ hy, ?_⟩
    split <;> simp_all
  · simp [lookup_erase_self]
    exact fun y hy => lookup_erase_ne _ _ _ hy

theorem openRound_park (e : EP) (r : OpenReq) : (openRound e r).1.park = e.park := by
  unfold openRound
  split
  · rfl
  · split
    · rfl
    · simp only
      split <;> simp [EP.enqFrame]

theorem closeLocal_park (e : EP) (s : Slot) (fid : Nat) (inh final : Bool) :
    (closeLocal e s fid inh final).1.park = e.park := by
  unfold closeLocal
  cases s with
  | established i =>
    simp only
    cases ho : e.obj? i with
    | none => rfl
    | some o => simp only; split <;> simp [EP.enqFrame]
  | requested req => exact openRejected_park _ _ _
  | bindRequested req => rfl

/-- Only `Connect` (accept queue full) and `Bind` (bind queue full) can park the receive loop; data,
    acknowledgements, closes and datagrams never do, however slow the application is. -/
theorem processFrame_no_park (e : EP) (f : Frame) (ig : Bool)
    (hf : (∀ a b c d, f ≠ .connect a b c d) ∧ (∀ a b c d, f ≠ .bind a b c d)) :
    (processFrame e f ig).1.park = e.park := by
  cases f with
  | connect a b c d => exact absurd rfl (hf.1 a b c d)
  | bind a b c d => exact absurd rfl (hf.2 a b c d)
  | acknowledge fid n =>
    simp only [processFrame]
    repeat' split
    all_goals simp [EP.enqFrame]
  | finish fid =>
    simp only [processFrame]
    repeat' split
    all_goals simp [EP.enqFrame]
  | reset fid =>
    simp only [processFrame, closeFlow]
    split
    · rfl
    · exact closeLocal_park _ _ _ _ _
  | push fid d =>
    simp only [processFrame]
    split
    · split
      · rfl
      · split
        · simp [EP.enqFrame]
        · split
          · rfl
          · split
            · rfl
            · simp only [closeFlow]
              split
              · rfl
              · exact closeLocal_park _ _ _ _ _
    · simp [EP.enqFrame]
  | datagram fid port host d =>
    simp only [processFrame]
    repeat' split
    all_goals rfl

/-! ### Wind-down -/

theorem closeLocal_final_flows (e : EP) (s : Slot) (fid : Nat) (inh : Bool) :
    (closeLocal e s fid inh true).1.flows = e.flows := by
  unfold closeLocal
  cases s with
  | established i =>
    simp only
    cases ho : e.obj? i with
    | none => rfl
    | some o => simp only; split <;> simp [EP.enqFrame]
  | requested req => exact openRejected_flows _ _ _
  | bindRequested req => rfl

theorem drainFlows_flows (e : EP) (l : List (Nat × Slot)) : (drainFlows e l).1.flows = e.flows := by
  induction l generalizing e with
  | nil => rfl
  | cons p l ih =>
    obtain ⟨fid, s⟩ := p
    simp only [drainFlows]
    rw [ih, closeLocal_final_flows]

theorem windDownFinish_resolves (e : EP) (res : ExitRes) :
    let r := windDownFinish e res
    r.1.dead = true ∧ r.1.flows = [] ∧ (∀ q ∈ r.1.opens, q.req ∈ r.1.retryq) ∧ r.1.park = none ∧ r.1.closing = none ∧
    r.2.getLast? = some (.exit res) := by
  simp only [windDownFinish]
  refine ⟨trivial, ?_, ?_, trivial, trivial, ?_⟩
  · simp [drainFlows_flows]
  · intro q hq
    simp only [List.mem_filter] at hq
    simpa using hq.2
  · simp [List.getLast?_append]

/-- The tail of the wind-down finishes at once after an error or when the source has ended: the
    task is finished, the flow table empty, the only open requests still listed are those already
    told "rejected", and the task's result is `res`. -/
theorem windDownTail_resolves (e1 : EP) (flushed : List Ev) (srcEnded : Bool) (res : ExitRes)
    (hc : srcEnded = true ∨ res ≠ .ok) :
    let r := windDownTail e1 flushed srcEnded res
    r.1.dead = true ∧ r.1.flows = [] ∧ (∀ q ∈ r.1.opens, q.req ∈ r.1.retryq) ∧ r.1.park = none ∧
    r.2.getLast? = some (.exit res) := by
  have hb : ((windDownInbox e1 e1.inbox).2.2 || srcEnded || res != .ok) = true := by
    rcases hc with h | h
    · simp [h]
    · have : (res != .ok) = true := by simpa using h
      simp [this]
  simp only [windDownTail, hb, if_true]
  have := windDownFinish_resolves { (windDownInbox e1 e1.inbox).1 with inbox := [] } res
  simp only at this
  obtain ⟨h1, h2, h3, h4, _, h6⟩ := this
  refine ⟨h1, h2, h3, h4, ?_⟩
  rw [List.getLast?_append, h6]; rfl

/-- Errors never drain (`should_drain` is false on those paths): the wind-down is its tail. -/
theorem windDown_nodrain (e : EP) (res : ExitRes) :
    windDown e false res = windDownTail (windDownPrep e) [] e.srcEnded res := by
  simp [windDown]

/-- After an error the wind-down completes at once. -/
theorem windDown_error_resolves (e : EP) (res : ExitRes) (hres : res ≠ .ok) :
    let r := windDown e false res
    r.1.dead = true ∧ r.1.flows = [] ∧ (∀ q ∈ r.1.opens, q.req ∈ r.1.retryq) ∧ r.1.park = none ∧
    r.2.getLast? = some (.exit res) := by
  rw [windDown_nodrain]
  exact windDownTail_resolves _ _ _ _ (Or.inr hres)

theorem windDown_srcEnded_resolves (e : EP) (res : ExitRes) (hs : e.srcEnded = true) :
    let r := windDown e false res
    r.1.dead = true ∧ r.1.flows = [] ∧ (∀ q ∈ r.1.opens, q.req ∈ r.1.retryq) ∧ r.1.park = none ∧
    r.2.getLast? = some (.exit res) := by
  rw [windDown_nodrain]
  exact windDownTail_resolves _ _ _ _ (Or.inl hs)

theorem disallowAll_outq (e : EP) (l : List (Nat × Slot)) : (disallowAll e l).outq = e.outq := by
  induction l generalizing e with
  | nil => rfl
  | cons p l ih =>
    obtain ⟨fid, s⟩ := p
    cases s <;> simp only [disallowAll] <;> rw [ih] <;> rfl

theorem disallowAll_sinkRoom (e : EP) (l : List (Nat × Slot)) : (disallowAll e l).sinkRoom = e.sinkRoom := by
  induction l generalizing e with
  | nil => rfl
  | cons p l ih =>
    obtain ⟨fid, s⟩ := p
    cases s <;> simp only [disallowAll] <;> rw [ih] <;> rfl

/-- The tail hands `flushed` to the sink first, then closes it. -/
theorem windDownTail_flushes (e1 : EP) (flushed : List Ev) (srcEnded : Bool) (res : ExitRes) :
    ∃ rest, (windDownTail e1 flushed srcEnded res).2 = flushed ++ Ev.wireClose :: rest := by
  simp only [windDownTail]
  split
  · exact ⟨_, by simp only [List.append_assoc, List.singleton_append, List.cons_append]; rfl⟩
  · exact ⟨_, by simp only [List.append_assoc, List.singleton_append, List.cons_append]; rfl⟩

theorem sendSome_unlimited (e : EP) (h : e.sinkRoom = none) :
    sendSome e = ({ e with outq := [] }, e.outq.map .wire) := by
  simp [sendSome, h]

/-- What `sendSome` hands to the sink followed by what it leaves queued is the queue, in order. -/
theorem sendSome_split (e : EP) :
    ∃ sent, (sendSome e).2 = sent.map Ev.wire ∧ sent ++ (sendSome e).1.outq = e.outq := by
  unfold sendSome
  cases h : e.sinkRoom with
  | none => exact ⟨e.outq, rfl, by simp⟩
  | some n => exact ⟨e.outq.take n, rfl, by simp⟩

theorem dropPrep_outq (e : EP) : (dropPrep e).outq = e.outq := by
  simp only [dropPrep]; exact disallowAll_outq _ _

theorem dropPrep_sinkRoom (e : EP) : (dropPrep e).sinkRoom = e.sinkRoom := by
  simp only [dropPrep]; exact disallowAll_sinkRoom _ _

/-- Local drop with a sink that accepts everything: the whole queue goes out, in order, before the
    close. -/
theorem windDown_drain_flushes (e : EP) (res : ExitRes) (hs : e.sinkRoom = none) :
    ∃ rest, (windDown e true res).2 = e.outq.map Ev.wire ++ Ev.wireClose :: rest := by
  have h1 : (dropPrep e).sinkRoom = none := by rw [dropPrep_sinkRoom]; exact hs
  simp only [windDown, if_true]
  rw [sendSome_unlimited _ h1]
  simp only [List.isEmpty_nil, if_true, dropPrep_outq]
  exact windDownTail_flushes _ _ _ _

/-- Local drop under back-pressure: what the sink accepts goes out at once, in order; if something
    remains, the wind-down parks in its drain loop with exactly the remainder still queued, in
    order; otherwise the sink is closed right after the last message. -/
theorem windDown_drain_partial (e : EP) (res : ExitRes) :
    ∃ sent, sent ++ (sendSome (dropPrep e)).1.outq = e.outq ∧ (sendSome (dropPrep e)).2 = sent.map Ev.wire ∧
      (((sendSome (dropPrep e)).1.outq ≠ [] →
          (windDown e true res).2 = sent.map Ev.wire ∧ (windDown e true res).1.outq = (sendSome (dropPrep e)).1.outq ∧
          (windDown e true res).1.draining = some res) ∧
       ((sendSome (dropPrep e)).1.outq = [] →
          ∃ rest, (windDown e true res).2 = e.outq.map Ev.wire ++ Ev.wireClose :: rest)) := by
  obtain ⟨sent, hs1, hs2⟩ := sendSome_split (dropPrep e)
  rw [dropPrep_outq] at hs2
  refine ⟨sent, hs2, hs1, ?_, ?_⟩
  · intro hne
    have hq : (sendSome (dropPrep e)).1.outq.isEmpty = false := by
      cases h : (sendSome (dropPrep e)).1.outq <;> simp_all
    simp only [windDown, if_true, hq, Bool.false_eq_true, if_false]
    exact ⟨hs1, trivial, trivial⟩
  · intro hempty
    have hq : (sendSome (dropPrep e)).1.outq.isEmpty = true := by simp [hempty]
    simp only [windDown, if_true, hq]
    rw [hempty, List.append_nil] at hs2
    rw [hs1, hs2]
    exact windDownTail_flushes _ _ _ _

/-! ### Opening streams -/

/-- What one round of an open request does: either nothing is sent (no retry left, or the outbound
    queue is closed), or exactly one `Connect` with a fresh non-zero id, this endpoint's window and
    the requested target is queued and the id is reserved for the request. -/
theorem openRound_sends (e : EP) (r : OpenReq) :
    (openRound e r).1.outq = e.outq ∨
    ∃ fid, fid ≠ 0 ∧ lookup e.flows fid = none ∧
      (openRound e r).1.outq = e.outq ++ [.frame (.connect fid e.opts.rwnd r.port r.host)] ∧
      lookup (openRound e r).1.flows fid = some (.requested r.req) := by
  unfold openRound
  split
  · exact Or.inl rfl
  · split
    · exact Or.inl rfl
    · rename_i fid rng' fb' hd
      have hs := drawId_spec _ _ _ _ _ _ _ hd
      simp only
      split
      · exact Or.inl rfl
      · rename_i hc
        have hc : e.outClosed = false := by simpa using hc
        exact Or.inr ⟨fid, hs.1, hs.2, by simp [EP.enqFrame, enq_outq, hc], by simp [EP.enqFrame, lookup_insert_self]⟩

theorem openRound_exhausted (e : EP) (r : OpenReq) (h : r.retriesLeft = 0) :
    openRound e r = ({ e with opens := e.opens.filter (·.req ≠ r.req) }, [.openDone r.req .rejected]) := by
  simp [openRound, h]

/-- Each round leaves one retry less for the request (or removes the request). -/
theorem openRound_decrements (e : EP) (r r' : OpenReq)
    (h : (openRound e r).1.opens.find? (·.req = r.req) = some r') : r'.retriesLeft + 1 = r.retriesLeft := by
  have hfalse : ∀ (l : List OpenReq) (x : OpenReq),
      (l.filter (·.req ≠ r.req)).find? (·.req = r.req) = some x → False := by
    intro l x hx
    have h1 := List.find?_some hx
    have h2 := List.mem_of_find?_eq_some hx
    simp only [List.mem_filter] at h2
    simp_all
  unfold openRound at h
  split at h
  · exact (hfalse _ _ h).elim
  · rename_i hr
    split at h
    · exact (hfalse _ _ h).elim
    · simp only at h
      split at h
      · exact (hfalse _ _ h).elim
      · simp [EP.enqFrame] at h
        subst h; simp only; omega

/-- `Connect` on a free non-zero id (running endpoint): exactly one new stream object with the
    requested target and the requester's window as send credit; the slot is established; one
    `Acknowledge` carrying this endpoint's window is queued; the stream goes to the accept queue. -/
theorem processFrame_connect_accepts (e : EP) (fid rwnd port : Nat) (host : Bytes) (ig : Bool)
    (h0 : fid ≠ 0) (hfree : lookup e.flows fid = none) (hoc : e.outClosed = false) (hm : e.muxAlive = true) :
    let r := processFrame e (.connect fid rwnd port host) ig
    r.1.objs = e.objs ++ [newObj e.opts fid rwnd host port] ∧
    lookup r.1.flows fid = some (.established e.objs.length) ∧
    r.1.outq = e.outq ++ [.frame (.acknowledge fid e.opts.rwnd)] ∧
    (r.1.acceptq = e.acceptq ++ [e.objs.length] ∨ r.1.park = some (.accept e.objs.length)) ∧
    r.2.2 = none := by
  have hnot : ¬ (fid = 0 ∨ (lookup e.flows fid).isSome = true) := by simp [h0, hfree]
  simp only [processFrame, hnot, if_false, hoc, hm, EP.enqFrame, enq_outq, enq_muxAlive]
  refine ⟨by simp [offerAccept_objs], by simp [offerAccept_flows, lookup_insert_self],
    by simp [offerAccept_outq, enq_outq, hoc], ?_, by simp⟩
  simp only [Bool.not_true, Bool.false_eq_true, if_false]
  unfold offerAccept
  split
  · left; simp [EP.enq, hoc]
  · right; rfl

/-- `Acknowledge` answering a pending open request: exactly one new stream object whose send credit
    is the window the peer advertised; the request is answered with that stream (its future returns it
    when it runs next, `runDone`). -/
theorem processFrame_ack_establishes (e : EP) (fid n req : Nat) (ig : Bool)
    (hs : lookup e.flows fid = some (.requested req)) (hw : (e.opens.find? (·.req = req)).isSome) :
    let r := processFrame e (.acknowledge fid n) ig
    r.1.objs = e.objs ++ [newObj e.opts fid n [] 0] ∧
    lookup r.1.flows fid = some (.established e.objs.length) ∧
    r.1.doneq = e.doneq ++ [(req, e.objs.length)] ∧
    r.2.2 = none ∧ r.1.outq = e.outq := by
  simp only [processFrame, hs]
  cases hf : e.opens.find? (·.req = req) with
  | none => simp [hf] at hw
  | some r => simp [lookup_insert_self]

/-- The answered request's future returns exactly that stream under the next free handle. -/
theorem runDone_single (e : EP) (req i : Nat) :
    runDone e [(req, i)] = ({ e with handles := e.handles ++ [i] }, [.openDone req (.ok e.handles.length)]) := by
  simp [runDone]

/-- A `Reset` for a pending open request is a rejection of the proposed id: the id is released and
    the request is queued for its next round (run by `runRetries` once the task is idle). -/
theorem processFrame_reset_retries (e : EP) (fid req : Nat) (r : OpenReq) (ig : Bool)
    (hs : lookup e.flows fid = some (.requested req)) (hw : e.opens.find? (·.req = req) = some r) :
    processFrame e (.reset fid) ig =
      ({ e with flows := erase e.flows fid, retryq := e.retryq ++ [req] }, [], none) := by
  simp [processFrame, closeFlow, hs, closeLocal, openRejected, hw]

/-- The next round of a rejected request is one `openRound` with the retries it has left. -/
theorem runRetries_single (e : EP) (req : Nat) (r : OpenReq) (hw : e.opens.find? (·.req = req) = some r) :
    runRetries e [req] = ((openRound e r).1, (openRound e r).2 ++ []) := by
  simp [runRetries, hw]

/-! ### Closed stream objects -/

/-- Both directions of the object are shut: writes fail, reads drain what is queued and then end. -/
def Obj.closed (o : Obj) : Prop := o.finishSent = true ∧ o.senderAlive = false

def closedAt (e : EP) (i : Nat) : Prop := ∀ o, e.objs[i]? = some o → o.closed

theorem closeLocal_closes (e : EP) (i fid : Nat) (inh final : Bool) :
    closedAt (closeLocal e (.established i) fid inh final).1 i := by
  intro o ho
  unfold closeLocal at ho
  simp only at ho
  cases hobj : e.obj? i with
  | none =>
    simp only [hobj] at ho
    have : e.objs[i]? = none := hobj
    simp [this] at ho
  | some o' =>
    simp only [hobj] at ho
    have hg : e.objs[i]? = some o' := hobj
    split at ho <;> simp [EP.enqFrame, modObj_get_self, hg] at ho <;> subst ho <;>
      exact ⟨by simp [Obj.disallowWrite], rfl⟩

theorem closeLocal_preserves_closed (e : EP) (s : Slot) (fid : Nat) (inh final : Bool) (i : Nat)
    (h : closedAt e i) : closedAt (closeLocal e s fid inh final).1 i := by
  by_cases hs : s = .established i
  · subst hs; exact closeLocal_closes e i fid inh final
  · intro o ho
    rw [closeLocal_other_obj e s fid inh final i hs] at ho
    exact h o ho

theorem drainFlows_preserves_closed (e : EP) (l : List (Nat × Slot)) (i : Nat) (h : closedAt e i) :
    closedAt (drainFlows e l).1 i := by
  induction l generalizing e with
  | nil => exact h
  | cons p l ih =>
    obtain ⟨fid, s⟩ := p
    simp only [drainFlows]
    exact ih _ (closeLocal_preserves_closed e s fid true true i h)

/-- Draining the flow table closes the object of every established slot in it. -/
theorem drainFlows_closes (e : EP) (l : List (Nat × Slot)) (fid i : Nat) (hm : (fid, Slot.established i) ∈ l) :
    closedAt (drainFlows e l).1 i := by
  induction l generalizing e with
  | nil => simp at hm
  | cons p l ih =>
    obtain ⟨fid', s⟩ := p
    simp only [drainFlows]
    rcases List.mem_cons.mp hm with heq | hin
    · simp only [Prod.mk.injEq] at heq
      obtain ⟨_, rfl⟩ := heq
      exact drainFlows_preserves_closed _ l i (closeLocal_closes e i fid' true true)
    · exact ih _ hin

/-- `ackStep` changes nothing of the object but its frame counter. -/
theorem ackStep_obj (e : EP) (i : Nat) (o' x : Obj) (hx : e.objs[i]? = some x) :
    ∃ x2, (ackStep e i o').objs[i]? = some x2 ∧ x2.senderAlive = x.senderAlive ∧ x2.rxq = x.rxq ∧
      x2.buf = x.buf ∧ x2.finishSent = x.finishSent := by
  unfold ackStep
  split
  · exact ⟨{ x with recvdSince := 0 }, by simp [EP.enqFrame, modObj_get_self, hx], rfl, rfl, rfl, rfl⟩
  · exact ⟨{ x with recvdSince := o'.recvdSince + 1 }, by simp [modObj_get_self, hx], rfl, rfl, rfl, rfl⟩

/-- A read on an object whose channel sender is gone never stays pending: it returns buffered or
    queued data, or end-of-stream. -/
theorem fillBuf_closed_not_pending (k : Nat) (e : EP) (i : Nat) (o : Obj) (ho : e.objs[i]? = some o)
    (hc : o.senderAlive = false) (hk : o.rxq.length < k) : (fillBuf k e i).2 ≠ .pending := by
  induction k generalizing e o with
  | zero => omega
  | succ k ih =>
    unfold fillBuf
    simp only [ho]
    split
    · simp
    · cases hq : o.rxq with
      | nil => simp [hc]
      | cons f rest =>
        simp only
        split
        · have hlen : rest.length < k := by rw [hq] at hk; simp at hk; omega
          have hx : (e.modObj i fun o => { o with rxq := rest, buf := f }).objs[i]? =
              some { o with rxq := rest, buf := f } := by simp [modObj_get_self, ho]
          obtain ⟨x2, h1, h2, h3, _, _⟩ := ackStep_obj _ i { o with rxq := rest, buf := f } _ hx
          exact ih _ x2 h1 (by rw [h2]; exact hc) (by rw [h3]; exact hlen)
        · simp

/-- Once the outbound queue is closed, a round of an open request always resolves the request
    (FlowIdRejected when no retry is left, Closed otherwise) and sends nothing. -/
theorem openRound_closed_resolves (e : EP) (r : OpenReq) (hoc : e.outClosed = true) :
    ((openRound e r).2 = [.openDone r.req .rejected] ∨ (openRound e r).2 = [.openDone r.req .closed]) ∧
    (openRound e r).1.outq = e.outq ∧ (∀ q ∈ (openRound e r).1.opens, q.req ≠ r.req) := by
  unfold openRound
  split
  · exact ⟨Or.inl rfl, rfl, by intro q hq; simp only [List.mem_filter] at hq; simpa using hq.2⟩
  · split
    · exact ⟨Or.inl rfl, rfl, by intro q hq; simp only [List.mem_filter] at hq; simpa using hq.2⟩
    · simp only [hoc, if_true]
      refine ⟨Or.inr trivial, trivial, ?_⟩
      intro q hq
      simp only [List.mem_filter, List.mem_cons] at hq
      simpa using hq.2

end Penguin.Mux
