/-
The datagram service, one delivery at a time: in a running endpoint whose receive loop is not parked,
the stimulus that delivers a `Datagram` frame makes the task process exactly that frame, so the
datagram is queued if (and only if) the `Multiplexor` exists and the queue has room — whatever happened
before.  Also: a task run that finds nothing in the inbox processes no frame.
Core Lean only.
-/
import Penguin.Lemmas.MuxDgramEraseApp
import Penguin.Lemmas.MuxIntegritySrc

namespace Penguin.Mux

theorem dropPrep_inbox (e : EP) : (dropPrep e).inbox = e.inbox := disallowAll_inbox' e e.flows

theorem windDownPrep_inbox (e : EP) : (windDownPrep e).inbox = e.inbox := disallowAll_inbox' e e.flows

theorem windDownLogD_nil (φ : DgObs) (e : EP) (drain : Bool) (h : e.inbox = []) : windDownLogD φ e drain = [] := by
  unfold windDownLogD windDownTailLogD
  rw [sendSome_inbox, dropPrep_inbox, windDownPrep_inbox, h]
  repeat' split
  all_goals rfl

/-- A run of the task that finds the inbox empty processes no frame. -/
theorem settleLoopLogD_nil (φ : DgObs) (fuel : Nat) (e : EP) (h : e.inbox = []) : settleLoopLogD φ fuel e = [] := by
  induction fuel generalizing e with
  | zero => rfl
  | succ n ih =>
    unfold settleLoopLogD
    split
    · rfl
    · split
      · unfold drainStepLogD windDownTailLogD
        split
        · show windDownInboxLogD φ _ (sendSome e).1.inbox = []
          rw [sendSome_inbox, h]; rfl
        · rfl
      · split
        · unfold closingStepLogD; rw [h]; rfl
        · rw [recvCase_neg _ _ (fun w rest _ hi => by rw [unpark_inbox', h] at hi; cases hi)]
          split
          · exact windDownLogD_nil φ _ true (by show (unpark e).inbox = []; rw [unpark_inbox', h])
          · exact ih _ (by rw [closeFlow_inbox]; show (unpark e).inbox = []; rw [unpark_inbox', h])
          · rfl

theorem unpark_park_none (e : EP) (h : e.park = none) : unpark e = e := by
  unfold Mux.unpark; rw [h]

/-- One round of the task's loop on a running endpoint whose receive loop is free and whose inbox holds
    one item that does not end the connection: that item is processed, and nothing else. -/
theorem settleLoopLogD_one (φ : DgObs) (n : Nat) (e1 : EP) (w : WsIn)
    (hd : e1.dead = false) (hdr : e1.draining = none) (hc : e1.closing = none) (hp : e1.park = none)
    (hin : e1.inbox = [w]) (hex : (recvOne e1 w []).2.2 = none) (hnil : (recvOne e1 w []).1.inbox = []) :
    settleLoopLogD φ (n + 1) e1 = recvOneLogD φ e1 w [] := by
  unfold settleLoopLogD
  simp only [hd, Bool.false_eq_true, if_false, hdr, hc]
  rw [unpark_park_none _ hp, recvCase_pos _ _ hp hin]
  simp only [hex]
  rw [settleLoopLogD_nil φ _ _ hnil, List.append_nil]

/-- The stimulus that delivers a `Datagram` frame to a running endpoint whose receive loop is free makes
    the task process that frame, on the state as it is, and no other frame. -/
theorem settleLogD_deliver_datagram (φ : DgObs) (e : EP) (fid port : Nat) (host d : Bytes)
    (hd : e.dead = false) (hdr : e.draining = none) (hc : e.closing = none) (hp : e.park = none)
    (hi : e.inbox = []) (hs : e.srcEnded = false) :
    settleLogD φ (opStep e (.deliver (.msg (.frame (.datagram fid port host d))))).1 =
      φ e (.datagram fid port host d) := by
  have hop : (opStep e (.deliver (.msg (.frame (.datagram fid port host d))))).1 =
      { e with inbox := [.msg (.frame (.datagram fid port host d))] } := by
    simp [opStep_deliver, hs, hi]
  rw [hop]
  have he : ({ e with inbox := [] } : EP) = e := by cases e; simp_all
  have hr : recvOne { e with inbox := [WsIn.msg (.frame (.datagram fid port host d))] }
      (.msg (.frame (.datagram fid port host d))) [] = processFrame e (.datagram fid port host d) false := by
    simp only [Mux.recvOne, Mux.processIn, reduceCtorEq, or_self, if_false]
    rw [he]
  have hex : (processFrame e (.datagram fid port host d) false).2.2 = none := by
    simp only [Mux.processFrame]; repeat' split
    all_goals rfl
  have hin : (processFrame e (.datagram fid port host d) false).1.inbox = [] := by
    simp only [Mux.processFrame]; repeat' split
    all_goals exact hi
  unfold settleLogD
  have hf : 2 * ({ e with inbox := [WsIn.msg (.frame (.datagram fid port host d))] } : EP).inbox.length +
      ({ e with inbox := [WsIn.msg (.frame (.datagram fid port host d))] } : EP).droppedq.length + 2 =
      (e.droppedq.length + 3) + 1 := by simp; omega
  rw [hf, settleLoopLogD_one φ _ { e with inbox := [WsIn.msg (.frame (.datagram fid port host d))] }
    (.msg (.frame (.datagram fid port host d))) hd hdr hc hp rfl
    (by rw [hr]; exact hex) (by rw [hr]; exact hin)]
  simp only [recvOneLogD, processInLogD, reduceCtorEq, or_self, if_false]
  rw [he]

end Penguin.Mux
