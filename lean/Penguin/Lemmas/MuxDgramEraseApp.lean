/-
Datagrams never disturb anything else — part 2: the application calls and whole histories.

`strip e q` is the state `e` with another datagram queue and every undelivered `Datagram` frame replaced
by a `Ping`; `neutralOp` replaces the delivery of a `Datagram` frame by the delivery of a `Ping`.  Every
function of the model commutes with `strip` (part 1: the task; here: the application calls).  Hence the
history in which every `Datagram` frame the peer ever sent is replaced by a `Ping` — whatever its size,
flow id, host, payload — passes through exactly the same states except for `dgramq`, emits exactly the
same events, and answers every call except `get_datagram` in the same way.
Core Lean only.
-/
import Penguin.Lemmas.MuxDgramErase

namespace Penguin.Mux

theorem appAccept_strip {e e' : EP} {q : List Dgram} (h : e' = strip e q) : appAccept e' = stripR (appAccept e) q := by
  subst h
  unfold Mux.appAccept strip stripR
  dsimp only
  repeat' split
  all_goals rfl

theorem appWrite_strip {e e' : EP} {q : List Dgram} (h : e' = strip e q) (hd : Nat) (d : Bytes) :
    appWrite e' hd d = stripR (appWrite e hd d) q := by
  subst h
  unfold Mux.appWrite EP.handleObj EP.enqFrame EP.enq EP.modObj strip stripR
  dsimp only
  repeat' split
  all_goals rfl

theorem ackStep_strip {e e' : EP} {q : List Dgram} (h : e' = strip e q) (i : Nat) (o : Obj) :
    ackStep e' i o = strip (ackStep e i o) q := by
  subst h
  unfold Mux.ackStep EP.enqFrame EP.enq EP.modObj strip
  dsimp only
  repeat' split
  all_goals rfl

theorem fillBuf_strip (fuel : Nat) {e e' : EP} {q : List Dgram} (h : e' = strip e q) (i : Nat) :
    fillBuf fuel e' i = stripR (fillBuf fuel e i) q := by
  induction fuel generalizing e e' with
  | zero => subst h; rfl
  | succ n ih =>
    subst h
    rw [Mux.fillBuf, Mux.fillBuf, strip_objs]
    cases ho : e.objs[i]? with
    | none => rfl
    | some o =>
      simp only []
      by_cases hb : (!o.buf.isEmpty) = true
      · simp only [hb, if_true]; rfl
      · simp only [hb]
        cases hq : o.rxq with
        | nil =>
          simp only []
          by_cases hs : o.senderAlive = true
          · simp only [hs, if_true]; rfl
          · simp only [hs]; rfl
        | cons f rest =>
          simp only []
          rw (transparency := .default) [ackStep_strip (e := e.modObj i (fun o => { o with rxq := rest, buf := f })) (q := q) rfl]
          by_cases hf : f.isEmpty = true
          · simp only [hf, if_true]; exact ih rfl
          · simp only [hf]; rfl

theorem appRead_strip {e e' : EP} {q : List Dgram} (h : e' = strip e q) (hd n : Nat) :
    appRead e' hd n = stripR (appRead e hd n) q := by
  subst h
  unfold Mux.appRead
  have hh : (strip e q).handleObj hd = e.handleObj hd := rfl
  rw [hh]
  cases hho : e.handleObj hd with
  | none => rfl
  | some p =>
    obtain ⟨i, o⟩ := p
    simp only []
    rw [fillBuf_strip _ (e := e) (q := q) rfl]
    generalize fillBuf (o.rxq.length + 2) e i = r
    obtain ⟨e1, res⟩ := r
    cases res <;> rfl

theorem appShutdown_strip {e e' : EP} {q : List Dgram} (h : e' = strip e q) (hd : Nat) :
    appShutdown e' hd = stripR (appShutdown e hd) q := by
  subst h
  unfold Mux.appShutdown EP.handleObj EP.enqFrame EP.enq EP.modObj strip stripR
  dsimp only
  repeat' split
  all_goals rfl

theorem appDropStream_strip {e e' : EP} {q : List Dgram} (h : e' = strip e q) (hd : Nat) :
    appDropStream e' hd = stripR (appDropStream e hd) q := by
  subst h
  unfold Mux.appDropStream EP.handleObj EP.modObj strip stripR
  dsimp only
  repeat' split
  all_goals rfl

theorem appSendDgram_strip {e e' : EP} {q : List Dgram} (h : e' = strip e q) (d : Dgram) :
    appSendDgram e' d = stripR (appSendDgram e d) q := by
  subst h
  unfold Mux.appSendDgram EP.enqFrame EP.enq strip stripR
  dsimp only
  repeat' split
  all_goals rfl

theorem appBindReq_strip {e e' : EP} {q : List Dgram} (h : e' = strip e q) (req : Nat) (bt : BindType) (host : Bytes)
    (port : Nat) : appBindReq e' req bt host port = stripR (appBindReq e req bt host port) q := by
  subst h
  unfold Mux.appBindReq EP.enqFrame EP.enq strip stripR
  dsimp only
  repeat' split
  all_goals rfl

theorem appBindNext_strip {e e' : EP} {q : List Dgram} (h : e' = strip e q) : appBindNext e' = stripR (appBindNext e) q := by
  subst h
  unfold Mux.appBindNext strip stripR
  dsimp only
  repeat' split
  all_goals rfl

theorem appBindReply_strip {e e' : EP} {q : List Dgram} (h : e' = strip e q) (k : Nat) (a : Bool) :
    appBindReply e' k a = stripR (appBindReply e k a) q := by
  subst h
  unfold Mux.appBindReply EP.enqFrame EP.enq strip stripR
  dsimp only
  repeat' split
  all_goals rfl

theorem appBindDrop_strip {e e' : EP} {q : List Dgram} (h : e' = strip e q) (k : Nat) :
    appBindDrop e' k = stripR (appBindDrop e k) q := by
  subst h
  unfold Mux.appBindDrop EP.enqFrame EP.enq strip stripR
  dsimp only
  repeat' split
  all_goals rfl

theorem foldEnq_strip (l : List BindIn) {e e' : EP} {q : List Dgram} (h : e' = strip e q) :
    l.foldl (fun e b => e.enqFrame (.reset b.fid)) e' = strip (l.foldl (fun e b => e.enqFrame (.reset b.fid)) e) q := by
  induction l generalizing e e' with
  | nil => exact h
  | cons b rest ih => exact ih (enq_strip h _)

/-- Dropping the `Multiplexor` empties the datagram queue on both sides. -/
theorem appDropMux_strip {e e' : EP} {q : List Dgram} (h : e' = strip e q) :
    appDropMux e' = stripR (appDropMux e) [] := by
  subst h
  unfold Mux.appDropMux
  simp only [strip_dead, strip_droppedq, strip_bindq]
  rw (transparency := .default) [foldEnq_strip e.bindq
    (e := { e with muxAlive := false, droppedq := if e.dead then e.droppedq else e.droppedq ++ [0] }) (q := q) rfl]
  rfl

/-- `get_datagram` on the side without datagrams finds nothing; the other fields agree. -/
theorem appRecvDgram_strip (e : EP) : (appRecvDgram (strip e [])).1 = strip (appRecvDgram e).1 [] := by
  have h1 : (appRecvDgram (strip e [])).1 = strip e [] := by
    unfold Mux.appRecvDgram
    rw [strip_dgramq]
    simp only []
    split <;> rfl
  have h2 : strip (appRecvDgram e).1 [] = strip e [] := by
    unfold Mux.appRecvDgram
    split
    · rfl
    · split <;> rfl
  rw [h1, h2]

/-! ### One stimulus, whole histories -/

theorem any_end_neutral (l : List WsIn) :
    (l.map neutral).any (fun x => x == .eof || x == .err) = l.any (fun x => x == .eof || x == .err) := by
  induction l with
  | nil => rfl
  | cons w rest ih =>
    simp only [List.map_cons, List.any_cons, ih]
    have h1 : (neutral w == WsIn.eof) = (w == WsIn.eof) := by
      rw [Bool.eq_iff_iff]; simp [neutral_ne_eof]
    have h2 : (neutral w == WsIn.err) = (w == WsIn.err) := by
      rw [Bool.eq_iff_iff]; simp [neutral_ne_err]
    rw [h1, h2]

theorem strip_snoc (e : EP) (q : List Dgram) (l : List WsIn) :
    ({ strip e q with inbox := e.inbox.map neutral ++ l.map neutral } : EP) = strip { e with inbox := e.inbox ++ l } q := by
  unfold strip
  simp only [List.map_append]

/-- A call's answer, except that of `get_datagram` (which is the one call that is meant to see
    datagrams). -/
def visible (op : Op) (r : Res) : Option Res :=
  match op with
  | .recvDgram => none
  | _ => some r

/-- A delivery, in closed form. -/
theorem opStep_deliver (e : EP) (w : WsIn) :
    opStep e (.deliver w) =
      if (e.srcEnded || e.inbox.any (fun x => x == .eof || x == .err)) = true then (e, .unit, [])
      else ({ e with inbox := e.inbox ++ (if w = .msg .close then [.msg .close, .eof] else [w]) }, .unit, []) := by
  simp only [Mux.opStep]
  split
  · rfl
  · split
    · simp
    · rename_i hne
      have : w ≠ .msg .close := fun hh => hne (by rw [hh])
      simp [this]

theorem strip_triple {r r' : EP × Res} (op : Op) (h : r' = stripR r []) :
    r'.1 = strip r.1 [] ∧ ([] : List Ev) = [] ∧ visible op r'.2 = visible op r.2 := by
  subst h; exact ⟨rfl, rfl, rfl⟩

/-- The call (or delivery) itself. -/
theorem opStep_strip (e : EP) (op : Op) :
    (opStep (strip e []) (neutralOp op)).1 = strip (opStep e op).1 [] ∧
    (opStep (strip e []) (neutralOp op)).2.2 = (opStep e op).2.2 ∧
    visible (neutralOp op) (opStep (strip e []) (neutralOp op)).2.1 = visible op (opStep e op).2.1 := by
  cases op with
  | «open» req host port =>
    have h := openRound_strip (e := e) (q := []) rfl
      { req := req, host := host, port := port, retriesLeft := e.opts.maxRetries }
    have hL : opStep (strip e []) (.open req host port) =
        if (e.opens.any (·.req == req)) = true then (strip e [], .badHandle, [])
        else ((openRound (strip e []) { req := req, host := host, port := port, retriesLeft := e.opts.maxRetries }).1, .started,
              (openRound (strip e []) { req := req, host := host, port := port, retriesLeft := e.opts.maxRetries }).2) := rfl
    have hR : opStep e (.open req host port) =
        if (e.opens.any (·.req == req)) = true then (e, .badHandle, [])
        else ((openRound e { req := req, host := host, port := port, retriesLeft := e.opts.maxRetries }).1, .started,
              (openRound e { req := req, host := host, port := port, retriesLeft := e.opts.maxRetries }).2) := rfl
    show (opStep (strip e []) (.open req host port)).1 = _ ∧ (opStep (strip e []) (.open req host port)).2.2 = _ ∧
      visible (.open req host port) (opStep (strip e []) (.open req host port)).2.1 = _
    rw [hL, hR, h]
    by_cases hc : (e.opens.any (·.req == req)) = true
    · rw [if_pos hc, if_pos hc]; exact ⟨rfl, rfl, rfl⟩
    · rw [if_neg hc, if_neg hc]; exact ⟨rfl, rfl, rfl⟩
  | accept =>
    exact strip_triple (r := appAccept e) (r' := appAccept (strip e [])) .accept (appAccept_strip rfl)
  | write hd d =>
    exact strip_triple (r := appWrite e hd d) (r' := appWrite (strip e []) hd d) (.write hd d) (appWrite_strip rfl hd d)
  | read hd n =>
    exact strip_triple (r := appRead e hd n) (r' := appRead (strip e []) hd n) (.read hd n) (appRead_strip rfl hd n)
  | shutdown hd =>
    exact strip_triple (r := appShutdown e hd) (r' := appShutdown (strip e []) hd) (.shutdown hd) (appShutdown_strip rfl hd)
  | dropStream hd =>
    exact strip_triple (r := appDropStream e hd) (r' := appDropStream (strip e []) hd) (.dropStream hd) (appDropStream_strip rfl hd)
  | sendDgram d =>
    exact strip_triple (r := appSendDgram e d) (r' := appSendDgram (strip e []) d) (.sendDgram d) (appSendDgram_strip rfl d)
  | recvDgram => exact ⟨appRecvDgram_strip e, rfl, rfl⟩
  | bindReq req bt host port =>
    have h := appBindReq_strip (e := e) (q := []) rfl req bt host port
    exact ⟨congrArg Prod.fst h,
      (show (appBindReq (strip e []) req bt host port).2 = (stripR (appBindReq e req bt host port) []).2 from congrArg Prod.snd h), rfl⟩
  | bindNext =>
    exact strip_triple (r := appBindNext e) (r' := appBindNext (strip e [])) .bindNext (appBindNext_strip rfl)
  | bindReply k a =>
    exact strip_triple (r := appBindReply e k a) (r' := appBindReply (strip e []) k a) (.bindReply k a) (appBindReply_strip rfl k a)
  | bindDrop k =>
    exact strip_triple (r := appBindDrop e k) (r' := appBindDrop (strip e []) k) (.bindDrop k) (appBindDrop_strip rfl k)
  | dropMux =>
    exact strip_triple (r := appDropMux e) (r' := appDropMux (strip e [])) .dropMux (appDropMux_strip rfl)
  | sinkRoom n => exact ⟨rfl, rfl, rfl⟩
  | cancelOpen req => exact ⟨rfl, rfl, rfl⟩
  | deliver w =>
    show (opStep (strip e []) (.deliver (neutral w))).1 = _ ∧ (opStep (strip e []) (.deliver (neutral w))).2.2 = _ ∧
      visible (.deliver (neutral w)) (opStep (strip e []) (.deliver (neutral w))).2.1 = _
    rw [opStep_deliver, opStep_deliver, strip_srcEnded, strip_inbox, any_end_neutral]
    by_cases hc : (e.srcEnded || e.inbox.any (fun x => x == .eof || x == .err)) = true
    · rw [if_pos hc, if_pos hc]; exact ⟨rfl, rfl, rfl⟩
    · rw [if_neg hc, if_neg hc]
      refine ⟨?_, rfl, rfl⟩
      by_cases hw : w = .msg .close
      · subst hw
        exact strip_snoc e [] [.msg .close, .eof]
      · have hn : neutral w ≠ .msg .close := fun hh => hw ((neutral_ne_close w).mp hh)
        rw [if_neg hw, if_neg hn]
        exact strip_snoc e [] [w]

theorem applyOp_fst' (e : EP) (op : Op) : (applyOp e op).1 = (settle (opStep e op).1).1 := rfl
theorem applyOp_res' (e : EP) (op : Op) : (applyOp e op).2.1 = (opStep e op).2.1 := rfl
theorem applyOp_evs' (e : EP) (op : Op) : (applyOp e op).2.2 = (opStep e op).2.2 ++ (settle (opStep e op).1).2 := rfl

/-- One stimulus: with every `Datagram` frame replaced by a `Ping` the endpoint reaches the same state
    but for `dgramq`, emits the same events and gives the same answer (unless the call is
    `get_datagram`). -/
theorem applyOp_strip (e : EP) (op : Op) :
    (applyOp (strip e []) (neutralOp op)).1 = strip (applyOp e op).1 [] ∧
    (applyOp (strip e []) (neutralOp op)).2.2 = (applyOp e op).2.2 ∧
    visible (neutralOp op) (applyOp (strip e []) (neutralOp op)).2.1 = visible op (applyOp e op).2.1 := by
  obtain ⟨h1, h2, h3⟩ := opStep_strip e op
  have hs := settle_strip (e := (opStep e op).1) (q := []) h1
  refine ⟨?_, ?_, ?_⟩
  · rw [applyOp_fst', applyOp_fst', hs]; rfl
  · rw [applyOp_evs', applyOp_evs', hs, h2]; rfl
  · rw [applyOp_res', applyOp_res']; exact h3

/-- What an observer of the endpoint sees along a history: per stimulus, the answer of the call (hidden
    for `get_datagram`) and the events emitted. -/
def runOpsObs (e : EP) : List Op → List (Option Res × List Ev)
  | [] => []
  | op :: rest => (visible op (applyOp e op).2.1, (applyOp e op).2.2) :: runOpsObs (applyOp e op).1 rest

/-- Whole histories. -/
theorem runOps_strip (e : EP) (ops : List Op) :
    runOps (strip e []) (ops.map neutralOp) = strip (runOps e ops) [] ∧
    runOpsObs (strip e []) (ops.map neutralOp) = runOpsObs e ops := by
  induction ops generalizing e with
  | nil => exact ⟨rfl, rfl⟩
  | cons op rest ih =>
    obtain ⟨h1, h2, h3⟩ := applyOp_strip e op
    simp only [List.map_cons, runOps, List.foldl_cons, runOpsObs]
    rw [h1, h2, h3]
    obtain ⟨i1, i2⟩ := ih (applyOp e op).1
    exact ⟨i1, by rw [i2]⟩

/-- … and the whole event trace (what goes to the transport, how requests are answered, how the task ends). -/
theorem runOpsEv_strip (e : EP) (ops : List Op) :
    (runOpsEv (strip e []) (ops.map neutralOp)).2 = (runOpsEv e ops).2 := by
  induction ops generalizing e with
  | nil => rfl
  | cons op rest ih =>
    obtain ⟨h1, h2, _⟩ := applyOp_strip e op
    simp only [List.map_cons, runOpsEv]
    rw [h1, h2, ih]

theorem strip_fresh (o : Opts) : strip { opts := o } [] = { opts := o } := rfl

end Penguin.Mux
