/-
The end of the connection, for the stimuli of `Model/MuxStart.lean`.

* `Tidy e`: once the task has finished, the only open requests still listed are those that had been
  told "rejected" and whose future has not run its next round yet.  Every way the task finishes goes
  through `windDownFinish`, so the task's loop and `taskPollSinkFailed` keep it.
* `settleTail_pend_nil`: with the outbound queue closed, the part of `settle` after the task's loop
  answers every such request (and every answered one whose future had not run): nothing is pending
  afterwards.  `Done e`: a finished endpoint has no pending open request — kept by `settle`, hence by
  every stimulus.
* `taskPollSinkFailed_ends` / `_quiet` / `_hasEnd`: a poll with a failed sink on a running endpoint
  finishes the task, unless the receive loop itself ended the connection in that very poll and waits
  for the peer's end (`closing`); it does finish it when the receive loop has nothing to do, and when
  the source has already ended or failed.
Core Lean only.
-/
import Penguin.Model.MuxStart
import Penguin.Lemmas.MuxStartRel
import Penguin.Lemmas.MuxStartOnce
import Penguin.Lemmas.MuxAccountReq
import Penguin.Lemmas.MuxEnd

namespace Penguin.Mux

/-! ### Fields the later stages of `settle` leave alone -/

theorem sendSome_opens (e : EP) : (sendSome e).1.opens = e.opens := by unfold Mux.sendSome; split <;> rfl
theorem sendSome_retryq' (e : EP) : (sendSome e).1.retryq = e.retryq := by unfold Mux.sendSome; split <;> rfl
theorem sendSome_outClosed (e : EP) : (sendSome e).1.outClosed = e.outClosed := by unfold Mux.sendSome; split <;> rfl

theorem runDone_opens (e : EP) (l : List (Nat × Nat)) : (runDone e l).1.opens = e.opens := by
  induction l generalizing e with
  | nil => rfl
  | cons x rest ih => obtain ⟨req, i⟩ := x; unfold Mux.runDone; exact (ih _).trans rfl
theorem runDone_doneq (e : EP) (l : List (Nat × Nat)) : (runDone e l).1.doneq = e.doneq := by
  induction l generalizing e with
  | nil => rfl
  | cons x rest ih => obtain ⟨req, i⟩ := x; unfold Mux.runDone; exact (ih _).trans rfl
theorem runDone_retryq (e : EP) (l : List (Nat × Nat)) : (runDone e l).1.retryq = e.retryq := by
  induction l generalizing e with
  | nil => rfl
  | cons x rest ih => obtain ⟨req, i⟩ := x; unfold Mux.runDone; exact (ih _).trans rfl
theorem runDone_outClosed (e : EP) (l : List (Nat × Nat)) : (runDone e l).1.outClosed = e.outClosed :=
  (Ctl.runDone e l).outClosed

/-- With the outbound queue closed, a round of an open request takes it off the list. -/
theorem openRound_closed_opens (e : EP) (r : OpenReq) (hoc : e.outClosed = true) :
    (openRound e r).1.opens = e.opens.filter (·.req ≠ r.req) := by
  unfold Mux.openRound
  split
  · rfl
  · split
    · rfl
    · rfl

/-- With the outbound queue closed, the futures' rounds over a list that names every listed request
    leave none. -/
theorem runRetries_closed_clears (e : EP) (l : List Nat) (hoc : e.outClosed = true)
    (h : ∀ q ∈ e.opens, q.req ∈ l) : (runRetries e l).1.opens = [] := by
  induction l generalizing e with
  | nil =>
    cases ho : e.opens with
    | nil => exact ho
    | cons q qs =>
      have := h q (by rw [ho]; exact List.mem_cons_self)
      cases this
  | cons req rest ih =>
    unfold Mux.runRetries
    split
    · rename_i hnone
      refine ih e hoc ?_
      intro q hq
      have hne : q.req ≠ req := by
        intro hc
        have := List.find?_eq_none.mp hnone q hq
        simp [hc] at this
      rcases List.mem_cons.mp (h q hq) with h1 | h1
      · exact absurd h1 hne
      · exact h1
    · rename_i r hr
      have hreq : r.req = req := by simpa using List.find?_some hr
      refine ih _ (by rw [openRound_outClosed]; exact hoc) ?_
      intro q hq
      rw [openRound_closed_opens e r hoc] at hq
      obtain ⟨hq1, hq2⟩ := List.mem_filter.mp hq
      have hne : q.req ≠ req := by rw [← hreq]; simpa using hq2
      rcases List.mem_cons.mp (h q hq1) with h1 | h1
      · exact absurd h1 hne
      · exact h1

/-! ### `Tidy` -/

/-- Once finished, the open requests still listed are those told "rejected" whose future has not run. -/
def Tidy (e : EP) : Prop := e.dead = true → ∀ q ∈ e.opens, q.req ∈ e.retryq

theorem Tidy.of_alive {e : EP} (hd : e.dead = false) : Tidy e := by
  intro h; rw [hd] at h; cases h

theorem windDownTail_tidy (e1 : EP) (flushed : List Ev) (srcEnded : Bool) (res : ExitRes) (hd : e1.dead = false) :
    Tidy (windDownTail e1 flushed srcEnded res).1 := by
  simp only [Mux.windDownTail]
  split
  · intro _; exact (windDownFinish_resolves _ res).2.2.1
  · intro h
    have h2 : (windDownInbox e1 e1.inbox).1.dead = true := h
    rw [windDownInbox_dead, hd] at h2; cases h2

theorem windDown_tidy (e : EP) (drain : Bool) (res : ExitRes) (hd : e.dead = false) : Tidy (windDown e drain res).1 := by
  simp only [Mux.windDown]
  split
  · have hdd : (sendSome (dropPrep e)).1.dead = false := by rw [sendSome_dead, dropPrep_dead]; exact hd
    split
    · exact windDownTail_tidy _ _ _ _ hdd
    · exact Tidy.of_alive hdd
  · exact windDownTail_tidy _ _ _ _ (by rw [windDownPrep_dead]; exact hd)

theorem drainStep_tidy (e : EP) (res : ExitRes) (hd : e.dead = false) : Tidy (drainStep e res).1 := by
  have hsd : (sendSome e).1.dead = false := by rw [sendSome_dead]; exact hd
  simp only [Mux.drainStep]
  split
  · exact windDownTail_tidy { (sendSome e).1 with draining := none } _ _ _ hsd
  · exact Tidy.of_alive hsd

theorem closingStep_tidy (e : EP) (res : ExitRes) (hd : e.dead = false) : Tidy (closingStep e res).1 := by
  simp only [Mux.closingStep]
  split
  · intro _; exact (windDownFinish_resolves _ res).2.2.1
  · exact Tidy.of_alive (by show (windDownInbox e e.inbox).1.dead = false; rw [windDownInbox_dead]; exact hd)

theorem settleLoop_tidy (fuel : Nat) (e : EP) (acc : List Ev) (h : Tidy e) : Tidy (settleLoop fuel e acc).1 := by
  induction fuel generalizing e acc with
  | zero => exact h
  | succ n ih =>
    unfold Mux.settleLoop
    by_cases hd : e.dead = true
    · simp only [hd, if_true]; exact h
    · have hd' : e.dead = false := by simpa using hd
      simp only [hd', Bool.false_eq_true, if_false]
      split
      · exact drainStep_tidy e _ hd'
      · split
        · exact closingStep_tidy e _ hd'
        · have hud : (unpark e).dead = false := by rw [unpark_dead]; exact hd'
          split
          · rename_i w rest _ _
            have hpd : (recvOne (unpark e) w rest).1.dead = false := by rw [recvOne_dead]; exact hud
            split
            · exact windDown_tidy _ false _ hpd
            · exact ih _ _ (Tidy.of_alive hpd)
          · split
            · exact windDown_tidy _ true .ok hud
            · rename_i fid rest _ hq
              exact ih _ _ (Tidy.of_alive (by rw [closeFlow_dead]; exact hud))
            · exact Tidy.of_alive hud

theorem taskPollSinkFailed_tidy (e : EP) (h : Tidy e) : Tidy (taskPollSinkFailed e).1 := by
  unfold taskPollSinkFailed
  split
  · exact h
  · rename_i hrun
    have hd : e.dead = false := by
      cases hdd : e.dead with
      | false => rfl
      | true => rw [hdd] at hrun; simp at hrun
    split
    · exact windDownTail_tidy { e with draining := none, outq := [] } [] e.srcEnded _ hd
    · simp only
      have hl : Tidy (settleLoop (2 * e.inbox.length + 2) { e with droppedq := [] } []).1 :=
        settleLoop_tidy _ _ _ (Tidy.of_alive hd)
      split
      · exact hl
      · rename_i hrun2
        have hd2 : (settleLoop (2 * e.inbox.length + 2) { e with droppedq := [] } []).1.dead = false := by
          cases hdd : (settleLoop (2 * e.inbox.length + 2) { e with droppedq := [] } []).1.dead with
          | false => rfl
          | true => rw [hdd] at hrun2; simp at hrun2
        exact windDownTail_tidy _ [] _ _ (by rw [windDownPrep_dead]; exact hd2)

/-! ### What `settle` does after the task's loop -/

open Penguin.Pair (settleTail stage3 stage4 settle_eq)

theorem hold_fields (e : EP) (c : Bool) :
    (if c = true then (e, ([] : List Ev)) else Mux.sendSome e).1.opens = e.opens ∧
    (if c = true then (e, ([] : List Ev)) else Mux.sendSome e).1.doneq = e.doneq ∧
    (if c = true then (e, ([] : List Ev)) else Mux.sendSome e).1.retryq = e.retryq ∧
    (if c = true then (e, ([] : List Ev)) else Mux.sendSome e).1.outClosed = e.outClosed ∧
    (if c = true then (e, ([] : List Ev)) else Mux.sendSome e).1.dead = e.dead := by
  split
  · exact ⟨rfl, rfl, rfl, rfl, rfl⟩
  · exact ⟨sendSome_opens e, sendSome_doneq e, sendSome_retryq' e, sendSome_outClosed e, sendSome_dead e⟩

/-- The later stages of `settle` do not change whether the task has finished. -/
theorem settleTail_dead (e1 : EP) (evs1 : List Ev) : (settleTail e1 evs1).1.dead = e1.dead := by
  unfold Penguin.Pair.settleTail
  simp only
  rw [(hold_fields _ _).2.2.2.2]
  unfold Penguin.Pair.stage4
  rw [(Ctl.runRetries _ _).dead]
  show (stage3 _).1.dead = _
  unfold Penguin.Pair.stage3
  rw [(Ctl.runDone _ _).dead]
  show (if (e1.dead || e1.draining.isSome) = true then (e1, ([] : List Ev)) else Mux.sendSome e1).1.dead = _
  exact (hold_fields _ _).2.2.2.2

/-- With the outbound queue closed and only "rejected" requests listed, the later stages of `settle`
    answer everything: no open request is pending afterwards. -/
theorem settleTail_pend_nil (e1 : EP) (evs1 : List Ev) (hoc : e1.outClosed = true)
    (h : ∀ q ∈ e1.opens, q.req ∈ e1.retryq) : pend (settleTail e1 evs1).1 = [] := by
  unfold Penguin.Pair.settleTail
  simp only
  obtain ⟨a1, a2, a3, a4, _⟩ := hold_fields e1 (e1.dead || e1.draining.isSome)
  generalize (if (e1.dead || e1.draining.isSome) = true then (e1, ([] : List Ev)) else Mux.sendSome e1) = s1 at a1 a2 a3 a4
  obtain ⟨e2, w2⟩ := s1
  simp only at a1 a2 a3 a4 ⊢
  -- stage 3: the answered futures return
  have b1 : (stage3 e2).1.opens = e1.opens := by unfold Penguin.Pair.stage3; rw [runDone_opens]; exact a1
  have b2 : (stage3 e2).1.doneq = [] := by unfold Penguin.Pair.stage3; rw [runDone_doneq]
  have b3 : (stage3 e2).1.retryq = e1.retryq := by unfold Penguin.Pair.stage3; rw [runDone_retryq]; exact a3
  have b4 : (stage3 e2).1.outClosed = true := by unfold Penguin.Pair.stage3; rw [runDone_outClosed]; exact a4.trans hoc
  generalize (stage3 e2).1 = e3 at b1 b2 b3 b4
  -- stage 4: the rejected futures run their next round
  have c1 : (stage4 e3).1.opens = [] := by
    unfold Penguin.Pair.stage4
    refine runRetries_closed_clears _ _ b4 ?_
    intro q hq
    have hq' : q ∈ e1.opens := by rw [← b1]; exact hq
    have := h q hq'
    rw [← b3] at this
    exact (sortNat_perm e3.retryq).mem_iff.mpr this
  have c2 : (stage4 e3).1.doneq = [] := by unfold Penguin.Pair.stage4; rw [runRetries_doneq]; exact b2
  generalize (stage4 e3).1 = e4 at c1 c2
  obtain ⟨d1, d2, _, _, _⟩ := hold_fields e4 (e4.dead || e4.draining.isSome)
  unfold pend
  rw [d1, d2, c1, c2]; rfl

/-- A finished endpoint has no pending open request. -/
def Done (e : EP) : Prop := e.dead = true → pend e = []

theorem Done.tidy {e : EP} (h : Done e) : Tidy e := by
  intro hd q hq
  have := h hd
  unfold pend at this
  have ho : e.opens = [] := by
    cases ho : e.opens with
    | nil => rfl
    | cons x xs => rw [ho] at this; simp at this
  rw [ho] at hq; cases hq

theorem settle_done (e : EP) (he : Ended e) (ht : Tidy e) : Done (settle e).1 := by
  intro hd
  rw [settle_eq] at hd ⊢
  rw [settleTail_dead] at hd
  have he1 := settleLoop_ended (2 * e.inbox.length + e.droppedq.length + 2) e [] he
  have ht1 := settleLoop_tidy (2 * e.inbox.length + e.droppedq.length + 2) e [] ht
  exact settleTail_pend_nil _ _ (he1.closed (Or.inl hd)) (ht1 hd)

theorem applySinkFail_done (e : EP) (he : Ended e) (ht : Tidy e) : Done (applySinkFail e).1 :=
  settle_done _ (taskPollSinkFailed_ended e he) (taskPollSinkFailed_tidy e ht)

theorem applyStart_done (e : EP) (sf : Bool) (he : Ended e) (ht : Tidy e) : Done (applyStart e sf).1 := by
  unfold applyStart
  split
  · exact applySinkFail_done e he ht
  · exact settle_done e he ht

/-- An application call on a finished endpoint (outbound queue closed) leaves no request pending:
    a new `open` is answered at once. -/
theorem opStep_done (e : EP) (op : Op) (he : Ended e) (h : Done e) : Done (opStep e op).1 := by
  intro hd
  have hd0 : e.dead = true := by rw [← (Still.opStep e op).dead]; exact hd
  have hp := h hd0
  have hoc := he.closed (Or.inl hd0)
  cases hpp : pend (opStep e op).1 with
  | nil => rfl
  | cons x xs =>
    exfalso
    have hx : x ∈ pend (opStep e op).1 := by rw [hpp]; exact List.mem_cons_self
    rcases (Once.opStep e op).sub x hx with h1 | h1
    · rw [hp] at h1; cases h1
    · cases op with
      | «open» req host port =>
        have hnil : pend (opStep e (.open req host port)).1 = [] := by
          simp only [Mux.opStep]
          split
          · exact hp
          · unfold pend at hp ⊢
            have ho : e.opens = [] := by
              cases ho : e.opens with
              | nil => rfl
              | cons y ys => rw [ho] at hp; simp at hp
            have hq : e.doneq = [] := by
              cases hq : e.doneq with
              | nil => rfl
              | cons y ys => rw [hq] at hp; simp at hp
            show List.map (·.req) (appOpen e req host port).1.opens ++ List.map (·.1) (appOpen e req host port).1.doneq = []
            unfold Mux.appOpen
            rw [openRound_closed_opens _ _ hoc, openRound_doneq, ho, hq]; rfl
        rw [hnil] at hx; cases hx
      | _ => exact absurd h1 (by simp [newOf])

/-! ### A poll with a failed sink ends the connection -/

theorem windDownTail_dead_or_closing (e1 : EP) (flushed : List Ev) (srcEnded : Bool) (res : ExitRes) :
    (windDownTail e1 flushed srcEnded res).1.dead = true ∨ (windDownTail e1 flushed srcEnded res).1.closing = some res := by
  simp only [Mux.windDownTail]
  split
  · exact Or.inl (windDownFinish_resolves _ res).1
  · exact Or.inr rfl

/-- On an endpoint whose task has not finished and is not waiting for the peer's end, a poll with a
    failed sink finishes the task, or leaves it waiting for the peer's end (the receive loop ended
    the connection itself in this poll, or the drain after a local drop was under way). -/
theorem taskPollSinkFailed_ends (e : EP) (hd : e.dead = false) (hc : e.closing = none) :
    (taskPollSinkFailed e).1.dead = true ∨ (taskPollSinkFailed e).1.closing.isSome = true := by
  unfold taskPollSinkFailed
  rw [if_neg (by simp [hd, hc])]
  split
  · rename_i res _
    rcases windDownTail_dead_or_closing { e with draining := none, outq := [] } [] e.srcEnded res with h | h
    · exact Or.inl h
    · exact Or.inr (by rw [h]; rfl)
  · simp only
    split
    · rename_i hcond
      simpa using hcond
    · exact Or.inl (windDownTail_resolves _ [] _ .wsError (Or.inr (by intro h; cases h))).1

/-- A running task with nothing delivered, nothing parked and no notification: its loop does nothing. -/
theorem settleLoop_quiet (fuel : Nat) (e : EP) (acc : List Ev) (hd : e.dead = false) (hdr : e.draining = none)
    (hc : e.closing = none) (hi : e.inbox = []) (hp : e.park = none) (hq : e.droppedq = []) :
    settleLoop (fuel + 1) e acc = (e, acc) := by
  have hu : unpark e = e := by simp [Mux.unpark, hp]
  simp [Mux.settleLoop, hd, hdr, hc, hu, hp, hi, hq]

/-- The running endpoint whose receive loop has nothing to do: the poll is the wind-down after a
    transport error, without the Close. -/
theorem taskPollSinkFailed_quiet (e : EP) (hd : e.dead = false) (hc : e.closing = none) (hdr : e.draining = none)
    (hi : e.inbox = []) (hp : e.park = none) :
    taskPollSinkFailed e =
      ((windDownTail (windDownPrep { e with droppedq := [] }) [] e.srcEnded .wsError).1,
       dropWireClose (windDownTail (windDownPrep { e with droppedq := [] }) [] e.srcEnded .wsError).2) := by
  have hl : settleLoop (2 * e.inbox.length + 2) { e with droppedq := [] } [] = ({ e with droppedq := [] }, []) :=
    settleLoop_quiet (2 * e.inbox.length + 1) { e with droppedq := [] } [] hd hdr hc hi hp rfl
  unfold taskPollSinkFailed
  rw [if_neg (by simp [hd, hc])]
  split
  · rename_i res hres; rw [hdr] at hres; cases hres
  · simp only [hl]
    rw [if_neg (by simp [hd, hc])]
    simp

/-- The items of the transport that end the source. -/
def hasEnd (l : List WsIn) : Bool := l.any (fun x => x == .eof || x == .err)

theorem windDownInbox_hasEnd (e : EP) (l : List WsIn) (h : hasEnd l = true) : (windDownInbox e l).2.2 = true := by
  induction l generalizing e with
  | nil => simp [hasEnd] at h
  | cons w l ih =>
    cases w with
    | err => rfl
    | eof => rfl
    | msg m =>
      simp only [Mux.windDownInbox]
      exact ih _ (by simpa [hasEnd] using h)
    | bad b =>
      simp only [Mux.windDownInbox]
      exact ih _ (by simpa [hasEnd] using h)

theorem sendSome_inbox' (e : EP) : (sendSome e).1.inbox = e.inbox := by unfold Mux.sendSome; split <;> rfl

theorem windDownTail_hasEnd (e1 : EP) (flushed : List Ev) (srcEnded : Bool) (res : ExitRes)
    (h : hasEnd e1.inbox = true ∨ srcEnded = true) : (windDownTail e1 flushed srcEnded res).1.dead = true := by
  have hb : ((windDownInbox e1 e1.inbox).2.2 || srcEnded || res != .ok) = true := by
    rcases h with h | h
    · simp [windDownInbox_hasEnd e1 e1.inbox h]
    · simp [h]
  simp only [Mux.windDownTail, hb, if_true]
  exact (windDownFinish_resolves _ res).1

theorem windDown_hasEnd (e : EP) (drain : Bool) (res : ExitRes) (hc : e.closing = none)
    (h : hasEnd e.inbox = true ∨ e.srcEnded = true) :
    (windDown e drain res).1.dead = true ∨ (windDown e drain res).1.closing = none := by
  simp only [Mux.windDown]
  split
  · split
    · left
      refine windDownTail_hasEnd _ _ _ _ ?_
      rcases h with h | h
      · left
        have : (sendSome (dropPrep e)).1.inbox = e.inbox := by
          rw [sendSome_inbox']; unfold Mux.dropPrep; exact disallowAll_inbox _ _
        rw [this]; exact h
      · exact Or.inr h
    · right
      show (sendSome (dropPrep e)).1.closing = none
      have : (sendSome (dropPrep e)).1.closing = e.closing := by
        have h1 : (sendSome (dropPrep e)).1.closing = (dropPrep e).closing := by unfold Mux.sendSome; split <;> rfl
        rw [h1]; unfold Mux.dropPrep
        have h2 : ∀ (l : List (Nat × Slot)) (x : EP), (disallowAll x l).closing = x.closing := by
          intro l; induction l with
          | nil => intro x; rfl
          | cons p l ih => intro x; obtain ⟨fid, s⟩ := p; cases s <;> simp only [Mux.disallowAll] <;> rw [ih] <;> rfl
        exact h2 _ _
      rw [this]; exact hc
  · left
    refine windDownTail_hasEnd _ _ _ _ ?_
    rcases h with h | h
    · left
      have : (windDownPrep e).inbox = e.inbox := by unfold Mux.windDownPrep; exact disallowAll_inbox _ _
      rw [this]; exact h
    · exact Or.inr h

theorem Ctl.processIn (e : EP) (w : WsIn) (ig : Bool) : Ctl e (processIn e w ig).1 := by
  cases w with
  | msg m => cases m <;> first | exact Ctl.processFrame e _ ig | exact Ctl.refl e
  | bad b => exact Ctl.refl e
  | err => exact Ctl.refl e
  | eof => exact Ctl.refl e

theorem recvOne_fields (e : EP) (w : WsIn) (rest : List WsIn) :
    (recvOne e w rest).1.inbox = rest ∧
    (hasEnd (w :: rest) = true ∨ e.srcEnded = true → hasEnd rest = true ∨ (recvOne e w rest).1.srcEnded = true) ∧
    (recvOne e w rest).1.draining = e.draining ∧ (recvOne e w rest).1.closing = e.closing := by
  simp only [Mux.recvOne]
  have c := Ctl.processIn { (if w = .eof ∨ w = .err then { e with srcEnded := true } else e) with inbox := rest } w false
  refine ⟨c.inbox, ?_, ?_, ?_⟩
  · intro h
    rw [c.srcEnded]
    by_cases hw : w = .eof ∨ w = .err
    · right; simp [hw]
    · rcases h with h | h
      · left
        have hne : (w == WsIn.eof || w == WsIn.err) = false := by
          cases w with
          | eof => exact absurd (Or.inl rfl) hw
          | err => exact absurd (Or.inr rfl) hw
          | msg m => rfl
          | bad b => rfl
        simpa [hasEnd, hne] using h
      · right; simp [hw, h]
  · rw [c.draining]; split <;> rfl
  · rw [c.closing]; split <;> rfl

/-- While the source is known to have ended (the end marker is among the delivered items, or was
    consumed already), the task's loop never stops in the state "waiting for the peer's end". -/
theorem settleLoop_hasEnd (fuel : Nat) (e : EP) (acc : List Ev) (hd : e.dead = false) (hdr : e.draining = none)
    (hc : e.closing = none) (h : hasEnd e.inbox = true ∨ e.srcEnded = true) :
    (settleLoop fuel e acc).1.dead = true ∨ (settleLoop fuel e acc).1.closing = none := by
  induction fuel generalizing e acc with
  | zero => exact Or.inr hc
  | succ n ih =>
    unfold Mux.settleLoop
    simp only [hd, Bool.false_eq_true, if_false, hdr, hc]
    have cu := Ctl.unpark e
    have hu : hasEnd (unpark e).inbox = true ∨ (unpark e).srcEnded = true := by rw [cu.inbox, cu.srcEnded]; exact h
    split
    · rename_i w rest _ hin
      obtain ⟨f1, f2, f3, f4⟩ := recvOne_fields (unpark e) w rest
      have h2 := f2 (by rw [← hin]; exact hu)
      have hd2 : (recvOne (unpark e) w rest).1.dead = false := by rw [recvOne_dead, unpark_dead]; exact hd
      have hc2 : (recvOne (unpark e) w rest).1.closing = none := by rw [f4, cu.closing]; exact hc
      have hdr2 : (recvOne (unpark e) w rest).1.draining = none := by rw [f3, cu.draining]; exact hdr
      split
      · exact windDown_hasEnd _ false _ hc2 (by rw [f1]; exact h2)
      · exact ih _ _ hd2 hdr2 hc2 (by rw [f1]; exact h2)
    · split
      · exact windDown_hasEnd _ true .ok (by show (unpark e).closing = none; rw [cu.closing]; exact hc) hu
      · rename_i fid rest _ hq
        have c2 := Ctl.closeFlow { unpark e with droppedq := rest } fid false
        refine ih _ _ (by rw [c2.dead]; show (unpark e).dead = false; rw [cu.dead]; exact hd)
          (by rw [c2.draining]; show (unpark e).draining = none; rw [cu.draining]; exact hdr)
          (by rw [c2.closing]; show (unpark e).closing = none; rw [cu.closing]; exact hc) ?_
        rw [c2.inbox, c2.srcEnded]; exact hu
      · exact Or.inr (by rw [cu.closing]; exact hc)

/-- A running endpoint whose source has already ended or failed: the poll finishes the task. -/
theorem taskPollSinkFailed_hasEnd (e : EP) (hd : e.dead = false) (hc : e.closing = none) (hdr : e.draining = none)
    (h : hasEnd e.inbox = true ∨ e.srcEnded = true) : (taskPollSinkFailed e).1.dead = true := by
  have hl := settleLoop_hasEnd (2 * e.inbox.length + 2) { e with droppedq := [] } [] hd hdr hc h
  unfold taskPollSinkFailed
  rw [if_neg (by simp [hd, hc])]
  split
  · rename_i res hres; rw [hdr] at hres; cases hres
  · simp only
    split
    · rename_i hcond
      rcases hl with hl | hl
      · exact hl
      · simpa [hl] using hcond
    · exact (windDownTail_resolves _ [] _ .wsError (Or.inr (by intro h; cases h))).1

/-- Draining after a local drop: the poll ends the drain; the task finishes unless it has to wait for
    the peer's end (a clean result, the source still open and nothing that ends it delivered). -/
theorem taskPollSinkFailed_draining (e : EP) (res : ExitRes) (hd : e.dead = false) (hc : e.closing = none)
    (hdr : e.draining = some res) :
    ((taskPollSinkFailed e).1.dead = true ∨ (taskPollSinkFailed e).1.closing = some res) ∧
    (hasEnd e.inbox = true ∨ e.srcEnded = true ∨ res ≠ .ok → (taskPollSinkFailed e).1.dead = true) := by
  unfold taskPollSinkFailed
  rw [if_neg (by simp [hd, hc])]
  split
  · rename_i res' hres
    rw [hdr] at hres; cases hres
    refine ⟨windDownTail_dead_or_closing _ _ _ _, ?_⟩
    intro h
    rcases h with h | h | h
    · exact windDownTail_hasEnd _ _ _ _ (Or.inl h)
    · exact windDownTail_hasEnd _ _ _ _ (Or.inr h)
    · exact (windDownTail_resolves _ [] _ res (Or.inr h)).1
  · rename_i hres; rw [hdr] at hres; cases hres

/-- Finished, or waiting for the peer's end: the poll does nothing. -/
theorem taskPollSinkFailed_idle (e : EP) (h : e.dead = true ∨ e.closing.isSome = true) :
    taskPollSinkFailed e = (e, []) := by
  unfold taskPollSinkFailed
  rw [if_pos (by rcases h with h | h <;> simp [h])]

end Penguin.Mux
