/-
The application calls on a stream handle (`write`, `read`, `shutdown`, dropping the stream)
preserve the invariant of the pair model.
-/
import Penguin.Lemmas.PairUpd

namespace Penguin.Pair
open Penguin.Mux

theorem filterMap_append_nil {α β : Type} (f : α → Option β) (l em : List α) (h : em.filterMap f = []) :
    (l ++ em).filterMap f = l.filterMap f := by
  rw [List.filterMap_append, h, List.append_nil]

section
variable {p : PS} {e' : EP} {g' : Ghost} {i y : Nat} {o o' : Obj} {em : List Msg} {dq : List Nat}
  {ba' hd fbaT : List Msg}

/-- The update does not touch what the sending role shows. -/
theorem hS_of_eq (h1 : o'.credit = o.credit) (h2 : o'.finishSent = o.finishSent) (h3 : g'.wlog i = p.ga.wlog i)
    (h4 : em.filterMap toItem = []) :
    lookup p.a.flows y ≠ none → ∀ oR fwd bwd r eof l, DirRel o oR fwd bwd (p.ga.wlog i) r eof l →
      ∃ l', DirRel o' oR (fwd ++ em) bwd (g'.wlog i) r eof l' :=
  fun _ _ _ _ _ _ l d => ⟨l, d.congr h1 h2 rfl rfl rfl rfl rfl rfl (filterMap_append_nil _ _ _ h4) rfl h3 rfl rfl rfl⟩

/-- The update does not touch what the receiving role shows. -/
theorem hR_of_eq (h1 : o'.cap = o.cap) (h2 : o'.threshold = o.threshold) (h3 : o'.senderAlive = o.senderAlive)
    (h4 : o'.rxq = o.rxq) (h5 : o'.buf = o.buf) (h6 : o'.recvdSince = o.recvdSince)
    (h7 : g'.rlog i = p.ga.rlog i) (h8 : g'.eof i = p.ga.eof i) (h9 : em.filterMap ackOf = [])
    (h10 : o'.rxOpen = o.rxOpen) :
    ReaderOk o' (g'.eof i) → ∀ oS fwd bwd w l, DirRel oS o ([] ++ fwd) bwd w (p.ga.rlog i) (p.ga.eof i) l →
      ∃ l', DirRel oS o' fwd (bwd ++ em) w (g'.rlog i) (g'.eof i) l' :=
  fun _ _ _ _ _ l d => ⟨l, d.congr rfl rfl h1 h2 h3 h4 h5 h6 rfl (filterMap_append_nil _ _ _ h9) rfl h7 h8 h10⟩

theorem hRA_of_eq (h1 : o'.cap = o.cap) (h2 : o'.threshold = o.threshold) (h3 : o'.senderAlive = o.senderAlive)
    (h4 : o'.rxq = o.rxq) (h5 : o'.buf = o.buf) (h6 : o'.recvdSince = o.recvdSince)
    (h7 : g'.rlog i = p.ga.rlog i) (h8 : g'.eof i = p.ga.eof i) (h10 : o'.rxOpen = o.rxOpen) :
    ReaderOk o' (g'.eof i) → ∀ fwd w l, DirRelA o ([] ++ fwd) w (p.ga.rlog i) (p.ga.eof i) l →
      ∃ l', DirRelA o' fwd w (g'.rlog i) (g'.eof i) l' :=
  fun _ _ _ l d => ⟨l, d.congr h1 h2 h3 h4 h5 h6 (fun _ => rfl) rfl h7 h8 h10⟩

/-- An object-local update with the footprint of the object's flow preserves the invariant. -/
theorem inv_of_local (h : InvCore p) (s : Eff (· = y) p.a e') (u : LocalUpd p.a e' i o' em dq)
    (ho : p.a.objs[i]? = some o) (hoy : o.fid = y) (ho' : o'.fid = y)
    (hem : ∀ m ∈ em, Msg.flow? m = some y ∧ m.isConnect = false)
    (hba : ba' = p.ba ∨ ∃ m, p.ba = m :: ba' ∧ ∀ z, Msg.flow? m = some z → z = y)
    (hba1 : fl y (pathBA p) = hd ++ fbaT) (hba2 : fl y (ba' ++ p.b.outq) = fbaT)
    (hS : lookup p.a.flows y ≠ none → ∀ oR fwd bwd r eof l, DirRel o oR fwd (hd ++ bwd) (p.ga.wlog i) r eof l →
            ∃ l', DirRel o' oR (fwd ++ em) bwd (g'.wlog i) r eof l')
    (hR : ReaderOk o' (g'.eof i) → ∀ oS fwd bwd w l, DirRel oS o (hd ++ fwd) bwd w (p.ga.rlog i) (p.ga.eof i) l →
            ∃ l', DirRel oS o' fwd (bwd ++ em) w (g'.rlog i) (g'.eof i) l')
    (hRA : ReaderOk o' (g'.eof i) → ∀ fwd w l, DirRelA o (hd ++ fwd) w (p.ga.rlog i) (p.ga.eof i) l →
            ∃ l', DirRelA o' fwd w (g'.rlog i) (g'.eof i) l')
    (hok : ReaderOk o' (g'.eof i) → ReaderOk o (p.ga.eof i))
    (hclosed : (o.finishSent = true → o'.finishSent = true ∧ g'.wlog i = p.ga.wlog i) ∧
               (o.senderAlive = false → o'.senderAlive = false))
    (hnr : lookup p.a.flows y ≠ none → noReset em) (hhd : lookup p.a.flows y ≠ none → noReset hd)
    (hw : WireUpd o o' em hd)
    (hrxd : (o.rxOpen = false → o'.rxOpen = false) ∧ (y ∈ dq → o'.rxOpen = false))
    (hHalf : hd = [] → o.rxq = [] → o.buf = [] → o.recvdSince = 0 → o.senderAlive = true →
            o'.rxq = [] ∧ o'.buf = [] ∧ o'.recvdSince = 0 ∧ o'.senderAlive = true ∧ (∀ m ∈ em, ackOf m = none) ∧
            g'.rlog i = p.ga.rlog i ∧ g'.eof i = p.ga.eof i ∧ (¬ y ∈ dq → o.rxOpen = true → o'.rxOpen = true))
    (hcap : o'.cap = o.cap ∧ o'.threshold = o.threshold)
    (hdq : ∀ x ∈ dq, x = y)
    (hg : ∀ k, k ≠ i → g'.wlog k = p.ga.wlog k ∧ g'.rlog k = p.ga.rlog k ∧ g'.eof k = p.ga.eof k) :
    InvCore { p with a := e', ga := g', ba := ba' } := by
  have hi : i < p.a.objs.length := by
    rcases Nat.lt_or_ge i p.a.objs.length with h1 | h1
    · exact h1
    · simp [List.getElem?_eq_none h1] at ho
  refine inv_of_eff (ba' := ba') (lk' := p.linked) h s hba ?_ ?_ (fun _ _ hh => hh) ?_
  · intro x hx k hk
    by_cases hki : k = i
    · subst hki
      have : objView x p.a k = none := by
        simp only [objView, ho]
        have : o.fid ≠ x := fun hh => hx (by rw [← hh, hoy])
        simp [this]
      rw [this] at hk; cases hk
    · exact hg k hki
  · intro k hk
    have hki : k ≠ i := by have := s.len; omega
    obtain ⟨a1, a2, a3⟩ := hg k hki
    rw [a1, a2, a3]
    exact h.ghA k (by have := s.len; omega)
  · intro x hx
    subst hx
    have := phase_upd (lk' := p.linked) (h.phase _) u ho hoy ho' hem hba1 hba2 hS hR hRA hok hclosed hnr hhd hw hrxd hHalf hcap hdq
    exact ⟨this.1, fun hl => this.2 (h.live _ hl)⟩

end

theorem handleObj_handles {e : EP} {h i : Nat} {o : Obj} (hh : e.handleObj h = some (i, o)) : e.handles[h]? = some i := by
  unfold EP.handleObj at hh
  split at hh
  · cases hh
  · rename_i i' hi
    split at hh
    · cases hh
    · simp at hh; rw [hi, hh.1]

theorem hfid_of {e : EP} {h i : Nat} {o : Obj} (hh : e.handleObj h = some (i, o)) : hfid e h = o.fid := by
  simp [hfid, hh]

theorem eta (p : PS) : ({ p with a := p.a, ga := p.ga } : PS) = p := rfl

@[simp] theorem addW_wlog_self (g : Ghost) (i : Nat) (d : Bytes) : (g.addW i d).wlog i = g.wlog i ++ d := by simp [Ghost.addW]
theorem addW_other (g : Ghost) (i k : Nat) (d : Bytes) (hk : k ≠ i) :
    (g.addW i d).wlog k = g.wlog k ∧ (g.addW i d).rlog k = g.rlog k ∧ (g.addW i d).eof k = g.eof k := by
  simp [Ghost.addW, hk]
@[simp] theorem addW_rlog (g : Ghost) (i : Nat) (d : Bytes) : (g.addW i d).rlog = g.rlog := rfl
@[simp] theorem addW_eof (g : Ghost) (i : Nat) (d : Bytes) : (g.addW i d).eof = g.eof := rfl
@[simp] theorem addR_rlog_self (g : Ghost) (i : Nat) (d : Bytes) : (g.addR i d).rlog i = g.rlog i ++ d := by simp [Ghost.addR]
theorem addR_other (g : Ghost) (i k : Nat) (d : Bytes) (hk : k ≠ i) :
    (g.addR i d).wlog k = g.wlog k ∧ (g.addR i d).rlog k = g.rlog k ∧ (g.addR i d).eof k = g.eof k := by
  simp [Ghost.addR, hk]
@[simp] theorem addR_wlog (g : Ghost) (i : Nat) (d : Bytes) : (g.addR i d).wlog = g.wlog := rfl
@[simp] theorem addR_eof (g : Ghost) (i : Nat) (d : Bytes) : (g.addR i d).eof = g.eof := rfl
@[simp] theorem setEof_self (g : Ghost) (i : Nat) : (g.setEof i).eof i = true := by simp [Ghost.setEof]
theorem setEof_other (g : Ghost) (i k : Nat) (hk : k ≠ i) :
    (g.setEof i).wlog k = g.wlog k ∧ (g.setEof i).rlog k = g.rlog k ∧ (g.setEof i).eof k = g.eof k := by
  simp [Ghost.setEof, hk]
@[simp] theorem setEof_wlog (g : Ghost) (i : Nat) : (g.setEof i).wlog = g.wlog := rfl
@[simp] theorem setEof_rlog (g : Ghost) (i : Nat) : (g.setEof i).rlog = g.rlog := rfl

theorem flow_push (y : Nat) (d : Bytes) : Msg.flow? (.frame (.push y d)) = some y := rfl
theorem flow_finish (y : Nat) : Msg.flow? (.frame (.finish y)) = some y := rfl
theorem flow_ack (y n : Nat) : Msg.flow? (.frame (.acknowledge y n)) = some y := rfl

theorem noReset_nil : noReset [] := by intro m hm; cases hm

/-- An update that leaves the receiving role of the object alone (write, shutdown). -/
theorem inv_of_sender_upd {p : PS} {e' : EP} {g' : Ghost} {i y : Nat} {o o' : Obj} {em : List Msg}
    (h : InvCore p) (s : Eff (· = y) p.a e') (u : LocalUpd p.a e' i o' em [])
    (ho : p.a.objs[i]? = some o) (hoy : o.fid = y) (ho' : o'.fid = y)
    (hem : ∀ m ∈ em, Msg.flow? m = some y ∧ m.isConnect = false)
    (hS : lookup p.a.flows y ≠ none → ∀ oR fwd bwd r eof l, DirRel o oR fwd ([] ++ bwd) (p.ga.wlog i) r eof l →
            ∃ l', DirRel o' oR (fwd ++ em) bwd (g'.wlog i) r eof l')
    (r1 : o'.cap = o.cap) (r2 : o'.threshold = o.threshold) (r3 : o'.senderAlive = o.senderAlive)
    (r4 : o'.rxq = o.rxq) (r5 : o'.buf = o.buf) (r6 : o'.recvdSince = o.recvdSince) (r7 : o'.rxOpen = o.rxOpen)
    (g1 : g'.rlog i = p.ga.rlog i) (g2 : g'.eof i = p.ga.eof i)
    (hacks : em.filterMap ackOf = []) (hnr : noReset em)
    (hclosed : o.finishSent = true → o'.finishSent = true ∧ g'.wlog i = p.ga.wlog i)
    (hwire : noPushAfterEnd (em.filterMap toItem) = true ∧ (o.finishSent = true → Link.pushes (em.filterMap toItem) = []) ∧
             (Link.hasEnd (em.filterMap toItem) = true → o'.finishSent = true))
    (hg : ∀ k, k ≠ i → g'.wlog k = p.ga.wlog k ∧ g'.rlog k = p.ga.rlog k ∧ g'.eof k = p.ga.eof k) :
    InvCore { p with a := e', ga := g' } := by
  have hackm : ∀ m ∈ em, ackOf m = none := by
    intro m hm
    cases hk : ackOf m with
    | none => rfl
    | some n =>
      have : n ∈ em.filterMap ackOf := List.mem_filterMap.mpr ⟨m, hm, hk⟩
      rw [hacks] at this; cases this
  exact inv_of_local (ba' := p.ba) (hd := []) (fbaT := fl _ (pathBA p)) h s u ho hoy ho' hem (Or.inl rfl) rfl rfl hS
    (hR_of_eq r1 r2 r3 r4 r5 r6 g1 g2 hacks r7) (hRA_of_eq r1 r2 r3 r4 r5 r6 g1 g2 r7)
    (fun hk => by unfold ReaderOk at *; rw [r7, g2] at hk; exact hk)
    ⟨hclosed, fun ha => by rw [r3]; exact ha⟩ (fun _ => hnr) (fun _ => noReset_nil)
    ⟨hwire.1, hwire.2.1, hwire.2.2, fun ha => Or.inl (by rw [← r3]; exact ha)⟩
    ⟨fun hh => by rw [r7]; exact hh, fun hh => by cases hh⟩
    (fun _ a b c d => ⟨by rw [r4]; exact a, by rw [r5]; exact b, by rw [r6]; exact c, by rw [r3]; exact d, hackm, g1, g2,
      fun _ hh => by rw [r7]; exact hh⟩)
    ⟨r1, r2⟩ (by simp) hg

/-- `poll_write`. -/
theorem inv_write {p : PS} (h : InvCore p) (hd : Nat) (d : Bytes) :
    InvCore { p with a := (appWrite p.a hd d).1,
                     ga := match (appWrite p.a hd d).2, p.a.handles[hd]? with
                           | .wrote _, some i => p.ga.addW i d
                           | _, _ => p.ga } := by
  cases hh : p.a.handleObj hd with
  | none =>
    have : appWrite p.a hd d = (p.a, .badHandle) := by unfold appWrite; rw [hh]
    rw [this]; exact h
  | some io =>
    obtain ⟨i, o⟩ := io
    have ho := handleObj_obj hh
    have hhi := handleObj_handles hh
    have s := appWrite_eff p.a hd d
    rw [hfid_of hh] at s
    rw [hhi]
    rcases appWrite_local p.a hd i o d hh h.runA.outClosed with ⟨hf, hres, u⟩ | ⟨hf, hd0, hres, u⟩ | ⟨hf, hd0, hc, hres, u⟩ | ⟨hf, hd0, hc, hres, u⟩
    · rw [hres]
      exact inv_of_sender_upd (g' := p.ga) h s u ho rfl rfl (by simp) (hS_of_eq rfl rfl rfl rfl)
        rfl rfl rfl rfl rfl rfl rfl rfl rfl rfl noReset_nil (fun hh => ⟨hh, rfl⟩) ⟨rfl, fun _ => rfl, fun hh => (by cases hh)⟩ (fun _ _ => ⟨rfl, rfl, rfl⟩)
    · rw [hres]
      subst hd0
      exact inv_of_sender_upd (g' := p.ga.addW i []) h s u ho rfl rfl (by simp) (hS_of_eq rfl rfl (by simp) rfl)
        rfl rfl rfl rfl rfl rfl rfl rfl rfl rfl noReset_nil (fun hh => ⟨hh, by simp⟩) ⟨rfl, fun _ => rfl, fun hh => (by cases hh)⟩ (fun k hk => addW_other _ _ _ _ hk)
    · rw [hres]
      exact inv_of_sender_upd (g' := p.ga) h s u ho rfl rfl (by simp) (hS_of_eq rfl rfl rfl rfl)
        rfl rfl rfl rfl rfl rfl rfl rfl rfl rfl noReset_nil (fun hh => ⟨hh, rfl⟩) ⟨rfl, fun _ => rfl, fun hh => (by cases hh)⟩ (fun _ _ => ⟨rfl, rfl, rfl⟩)
    · rw [hres]
      refine inv_of_sender_upd (g' := p.ga.addW i d) h s u ho rfl rfl ?_ ?_
        rfl rfl rfl rfl rfl rfl rfl rfl rfl rfl ?_ (fun hh => by rw [hf] at hh; cases hh) ⟨rfl, fun hh => (by rw [hf] at hh; cases hh), fun hh => (by simp [Link.hasEnd, Link.Item.isPush] at hh)⟩ (fun k hk => addW_other _ _ _ _ hk)
      · intro m hm; simp at hm; subst hm; exact ⟨rfl, rfl⟩
      · intro _ oR fwd bwd r eof l dr
        rw [addW_wlog_self]
        exact ⟨_, dr.write o.fid d hf hd0 hc⟩
      · intro m hm y' he; simp at hm; subst hm; cases he

theorem acks_flow {y : Nat} {em : List Msg} (h : AcksOf y em) :
    (∀ m ∈ em, Msg.flow? m = some y ∧ m.isConnect = false) ∧ em.filterMap toItem = [] ∧ noReset em := by
  refine ⟨?_, ?_, ?_⟩
  · intro m hm; obtain ⟨n, rfl⟩ := h m hm; exact ⟨rfl, rfl⟩
  · induction em with
    | nil => rfl
    | cons m rest ih =>
      obtain ⟨n, rfl⟩ := h m (by simp)
      simp [List.filterMap_cons, ih (fun m' hm' => h m' (List.mem_cons_of_mem _ hm'))]
  · intro m hm y' he; obtain ⟨n, rfl⟩ := h m hm; cases he

/-- An update that leaves the sending role of the object alone (reads): the receiving role's
    transformers are given. -/
theorem inv_of_reader_upd {p : PS} {e' : EP} {g' : Ghost} {i y : Nat} {o o' : Obj} {em : List Msg}
    (h : InvCore p) (s : Eff (· = y) p.a e') (u : LocalUpd p.a e' i o' em [])
    (ho : p.a.objs[i]? = some o) (hoy : o.fid = y) (ss : SenderSame o o') (hak : AcksOf y em)
    (gw : g'.wlog i = p.ga.wlog i)
    (hR : ReaderOk o' (g'.eof i) → ∀ oS fwd bwd w l, DirRel oS o ([] ++ fwd) bwd w (p.ga.rlog i) (p.ga.eof i) l →
            ∃ l', DirRel oS o' fwd (bwd ++ em) w (g'.rlog i) (g'.eof i) l')
    (hRA : ReaderOk o' (g'.eof i) → ∀ fwd w l, DirRelA o ([] ++ fwd) w (p.ga.rlog i) (p.ga.eof i) l →
            ∃ l', DirRelA o' fwd w (g'.rlog i) (g'.eof i) l')
    (hok : ReaderOk o' (g'.eof i) → ReaderOk o (p.ga.eof i))
    (hHalf : o.rxq = [] → o.buf = [] → o.senderAlive = true → False)
    (hg : ∀ k, k ≠ i → g'.wlog k = p.ga.wlog k ∧ g'.rlog k = p.ga.rlog k ∧ g'.eof k = p.ga.eof k) :
    InvCore { p with a := e', ga := g' } := by
  obtain ⟨hemf, hemi, hemr⟩ := acks_flow hak
  exact inv_of_local (ba' := p.ba) (hd := []) (fbaT := fl _ (pathBA p)) h s u ho hoy (by rw [ss.fid, hoy]) hemf (Or.inl rfl) rfl rfl
    (hS_of_eq ss.credit ss.finishSent gw hemi) hR hRA hok
    ⟨fun hh => ⟨by rw [ss.finishSent]; exact hh, gw⟩, fun ha => by rw [ss.alive]; exact ha⟩ (fun _ => hemr) (fun _ => noReset_nil)
    ⟨(by rw [hemi]; rfl), fun _ => (by rw [hemi]; rfl), fun hh => (by rw [hemi] at hh; cases hh),
     fun ha => Or.inl (by rw [← ss.alive]; exact ha)⟩
    ⟨fun hh => (by cases hr : o'.rxOpen with
                   | false => rfl
                   | true => have := ss.rxOpen hr; rw [hh] at this; cases this), fun hh => (by cases hh)⟩
    (fun _ a b _ d => absurd (hHalf a b d) id) ⟨ss.cap, ss.threshold⟩ (by simp) hg

/-- The ghost update of a read. -/
def readGhost (e : EP) (g : Ghost) (res : Res) (i : Nat) : Ghost :=
  match res, (some i : Option Nat) with
  | .data bs, some i => g.addR i bs
  | .eof, some i => g.noteEof e i
  | _, _ => g

theorem noteEof_facts (e : EP) (g : Ghost) (i : Nat) (o : Obj) (ho : e.objs[i]? = some o) :
    (g.noteEof e i).wlog = g.wlog ∧ (g.noteEof e i).rlog = g.rlog ∧
    (∀ k, k ≠ i → (g.noteEof e i).eof k = g.eof k) ∧
    ((g.noteEof e i).eof i = true → g.eof i = true ∨ o.rxOpen = true) := by
  simp only [Ghost.noteEof, ho]
  by_cases hc : (o.rxOpen || g.eof i) = true
  · rw [if_pos hc]
    refine ⟨rfl, rfl, fun k hk => by simp [Ghost.setEof, hk], fun _ => ?_⟩
    rcases Bool.or_eq_true_iff.mp hc with h1 | h1
    · exact Or.inr h1
    · exact Or.inl h1
  · rw [if_neg hc]
    exact ⟨rfl, rfl, fun _ _ => rfl, fun hh => Or.inl hh⟩

/-- The ghost update of a read never touches the write log nor other objects' logs; end-of-stream is
    recorded only for an object whose receiving half was still observed. -/
theorem readGhost_facts (e : EP) (g : Ghost) (res : Res) (i : Nat) (o : Obj) (ho : e.objs[i]? = some o) :
    (readGhost e g res i).wlog = g.wlog ∧
    (∀ k, k ≠ i → (readGhost e g res i).rlog k = g.rlog k ∧ (readGhost e g res i).eof k = g.eof k) ∧
    ((readGhost e g res i).eof i = true → g.eof i = true ∨ o.rxOpen = true) := by
  obtain ⟨n1, n2, n3, n4⟩ := noteEof_facts e g i o ho
  cases res with
  | data bs => exact ⟨rfl, fun k hk => ⟨by show (g.addR i bs).rlog k = _; simp [Ghost.addR, hk], rfl⟩, fun hh => Or.inl hh⟩
  | eof => exact ⟨n1, fun k hk => ⟨by show (g.noteEof e i).rlog k = _; rw [n2], n3 k hk⟩, n4⟩
  | _ => exact ⟨rfl, fun _ _ => ⟨rfl, rfl⟩, fun hh => Or.inl hh⟩

/-- `poll_read`. -/
theorem inv_read {p : PS} (h : InvCore p) (hd n : Nat) :
    InvCore { p with a := (appRead p.a hd n).1,
                     ga := match (appRead p.a hd n).2, p.a.handles[hd]? with
                           | .data bs, some i => p.ga.addR i bs
                           | .eof, some i => p.ga.noteEof p.a i
                           | _, _ => p.ga } := by
  cases hh : p.a.handleObj hd with
  | none =>
    have : appRead p.a hd n = (p.a, .badHandle) := by unfold appRead; rw [hh]
    rw [this]; exact h
  | some io =>
    obtain ⟨i, o⟩ := io
    have ho := handleObj_obj hh
    have hhi := handleObj_handles hh
    have s := appRead_eff p.a hd n
    rw [hfid_of hh] at s
    rw [hhi]
    by_cases hne : ∀ d ∈ o.rxq, d ≠ []
    · rcases appRead_local p.a hd i n o hh h.runA.outClosed hne with
        ⟨hb, hres, u⟩ | ⟨hb, f, rest, hq, hres, hcase⟩ | ⟨hb, hq, ha, hres, he⟩ | ⟨hb, hq, ha, hres, u⟩
      · rw [hres]
        refine inv_of_reader_upd (g' := p.ga.addR i (o.buf.take n)) h s u ho rfl ⟨rfl, rfl, rfl, rfl, rfl, rfl, id⟩
          (by intro m hm; cases hm) (by simp) ?_ ?_ id (fun _ b _ => hb b) (fun k hk => addR_other _ _ _ _ hk)
        · intro _ oS fwd bwd w l dr
          rw [addR_rlog_self, List.append_nil]
          exact ⟨_, dr.readBuf n hb⟩
        · intro _ fwd w l dr
          rw [addR_rlog_self]
          exact ⟨_, dr.readBuf n hb⟩
      · rw [hres]
        rcases hcase with ⟨ht, u⟩ | ⟨ht, u⟩
        · refine inv_of_reader_upd (g' := p.ga.addR i (f.take n)) h s u ho rfl ⟨rfl, rfl, rfl, rfl, rfl, rfl, id⟩
            (by intro m hm; simp at hm; exact ⟨_, hm⟩) (by simp) ?_ ?_ id (fun a _ _ => by rw [hq] at a; cases a)
            (fun k hk => addR_other _ _ _ _ hk)
          · intro _ oS fwd bwd w l dr
            rw [addR_rlog_self]
            exact ⟨_, (dr.readFrame o.fid n f rest hb hq).1 ht⟩
          · intro _ fwd w l dr
            rw [addR_rlog_self]
            exact ⟨_, (dr.readFrame n f rest hb hq).1 ht⟩
        · refine inv_of_reader_upd (g' := p.ga.addR i (f.take n)) h s u ho rfl ⟨rfl, rfl, rfl, rfl, rfl, rfl, id⟩
            (by intro m hm; cases hm) (by simp) ?_ ?_ id (fun a _ _ => by rw [hq] at a; cases a)
            (fun k hk => addR_other _ _ _ _ hk)
          · intro _ oS fwd bwd w l dr
            rw [addR_rlog_self, List.append_nil]
            exact ⟨_, (dr.readFrame o.fid n f rest hb hq).2 ht⟩
          · intro _ fwd w l dr
            rw [addR_rlog_self]
            exact ⟨_, (dr.readFrame n f rest hb hq).2 ht⟩
      · rw [hres, he]; exact h
      · rw [hres]
        obtain ⟨gw, gk, ge⟩ := readGhost_facts p.a p.ga .eof i o ho
        change (p.ga.noteEof p.a i).wlog = _ at gw
        change ∀ k, k ≠ i → (p.ga.noteEof p.a i).rlog k = _ ∧ (p.ga.noteEof p.a i).eof k = _ at gk
        change (p.ga.noteEof p.a i).eof i = true → _ at ge
        have hrx' : ∀ (e1 : Bool), ReaderOk ({ o with rxOpen := false } : Obj) e1 → e1 = true := by
          intro e1 hk; rcases hk with hk | hk
          · cases hk
          · exact hk
        refine inv_of_reader_upd (g' := p.ga.noteEof p.a i) h s u ho rfl ⟨rfl, rfl, rfl, rfl, rfl, rfl, fun hk => by cases hk⟩
          (by intro m hm; cases hm) (by rw [gw]) ?_ ?_ ?_ (fun _ _ d => by rw [ha] at d; cases d)
          (fun k hk => ⟨by rw [gw], gk k hk⟩)
        · intro hk oS fwd bwd w l dr
          have := hrx' _ hk
          rw [this, List.append_nil]
          have hr : (p.ga.noteEof p.a i).rlog = p.ga.rlog := by
            simp only [Ghost.noteEof, ho]; split <;> rfl
          rw [hr]
          exact ⟨_, dr.readEof n hb hq ha⟩
        · intro hk fwd w l dr
          have := hrx' _ hk
          rw [this]
          have hr : (p.ga.noteEof p.a i).rlog = p.ga.rlog := by
            simp only [Ghost.noteEof, ho]; split <;> rfl
          rw [hr]
          exact ⟨_, dr.readEof n hb hq ha⟩
        · intro hk
          rcases ge (hrx' _ hk) with h1 | h1
          · exact Or.inr h1
          · exact Or.inl h1
    · obtain ⟨o', em, u, ss, ak⟩ := appRead_coarse p.a hd i n o hh h.runA.outClosed
      obtain ⟨gw, gk, ge⟩ := readGhost_facts p.a p.ga (appRead p.a hd n).2 i o ho
      show InvCore { p with a := (appRead p.a hd n).1, ga := readGhost p.a p.ga (appRead p.a hd n).2 i }
      refine inv_of_reader_upd h s u ho rfl ss ak (by rw [gw]) ?_ ?_ ?_ ?_ (fun k hk => ⟨by rw [gw], gk k hk⟩)
      · intro _ oS fwd bwd w l dr
        exfalso; apply hne
        have := dr.inv.hne_rxq
        rw [dr.hrxq] at this
        exact this
      · intro _ fwd w l dr
        exfalso; apply hne
        have := dr.inv.hne_rxq
        rw [dr.hrxq] at this
        exact this
      · intro hk
        rcases hk with hk | hk
        · exact Or.inl (ss.rxOpen hk)
        · rcases ge hk with h1 | h1
          · exact Or.inr h1
          · exact Or.inl h1
      · intro a _ _
        apply hne; rw [a]; intro d hd; cases hd

/-- `poll_shutdown`. -/
theorem inv_shutdown {p : PS} (h : InvCore p) (hd : Nat) : InvCore { p with a := (appShutdown p.a hd).1 } := by
  cases hh : p.a.handleObj hd with
  | none =>
    have : appShutdown p.a hd = (p.a, .badHandle) := by unfold appShutdown; rw [hh]
    rw [this]; exact h
  | some io =>
    obtain ⟨i, o⟩ := io
    have ho := handleObj_obj hh
    have s := appShutdown_eff p.a hd
    rw [hfid_of hh] at s
    rcases appShutdown_local p.a hd i o hh h.runA.outClosed with ⟨hf, u⟩ | ⟨hf, u⟩
    · exact inv_of_sender_upd (g' := p.ga) h s u ho rfl rfl (by simp) (hS_of_eq rfl rfl rfl rfl)
        rfl rfl rfl rfl rfl rfl rfl rfl rfl rfl noReset_nil (fun hh => ⟨hh, rfl⟩) ⟨rfl, fun _ => rfl, fun hh => (by cases hh)⟩ (fun _ _ => ⟨rfl, rfl, rfl⟩)
    · refine inv_of_sender_upd (g' := p.ga) h s u ho rfl rfl ?_ ?_
        rfl rfl rfl rfl rfl rfl rfl rfl rfl rfl ?_ (fun hh => by rw [hf] at hh; cases hh) ⟨rfl, fun hh => (by rw [hf] at hh; cases hh), fun _ => rfl⟩ (fun _ _ => ⟨rfl, rfl, rfl⟩)
      · intro m hm; simp at hm; subst hm; exact ⟨rfl, rfl⟩
      · intro _ oR fwd bwd r eof l dr
        exact ⟨_, (dr.shutdown o.fid hf).congr rfl rfl rfl rfl rfl rfl rfl rfl rfl rfl rfl rfl rfl rfl⟩
      · intro m hm y' he; simp at hm; subst hm; cases he

/-- After end-of-stream was seen, dropping the handle changes nothing the relation looks at. -/
theorem DirRel.dropAfterEof {oS oR : Obj} {fwd bwd : List Msg} {w r : Bytes} {l : Link.St}
    (h : DirRel oS oR fwd bwd w r true l) :
    DirRel oS { oR with rxOpen := false, rxq := [], parked := false } fwd bwd w r true l := by
  obtain ⟨h1, h2, h3⟩ := h.inv.heof h.heof
  exact ⟨h.inv, h.hW, h.hWb, h.hth, h.hcredit, h.hfin, h.hwire, h.halive, h2, h.hbuf, h.hsince, h.hacks, h.hacc, h.hdel,
    h.heof, fun _ => by rw [← h.halive]; exact h1⟩

theorem DirRelA.dropAfterEof {oR : Obj} {fwd : List Msg} {w r : Bytes} {l : Link.St}
    (h : DirRelA oR fwd w r true l) :
    DirRelA { oR with rxOpen := false, rxq := [], parked := false } fwd w r true l := by
  obtain ⟨h1, h2, h3⟩ := h.inv.heof h.heof
  exact ⟨h.inv, h.hW, h.hWb, h.hth, h.hfin, h.hwire, h.halive, h2, h.hbuf, h.hsince, h.hacc, h.hdel,
    h.heof, fun _ => by rw [← h.halive]; exact h1⟩

/-- Dropping the `MuxStream`: the task is notified; the receiving role is no longer observed (unless
    end-of-stream had been seen, after which nothing changes any more). -/
theorem inv_dropStream {p : PS} (h : InvCore p) (hd : Nat) (dl : List Nat) :
    InvCore { p with a := (appDropStream p.a hd).1, ga := { p.ga with dropped := dl } } := by
  cases hh : p.a.handleObj hd with
  | none =>
    have : appDropStream p.a hd = (p.a, .badHandle) := by unfold appDropStream; rw [hh]
    rw [this]
    exact ⟨h.runA, h.runB, h.sfA, h.sfB, h.nodup, h.nonzero, h.ghA, h.ghB, h.phase, h.live⟩
  | some io =>
    obtain ⟨i, o⟩ := io
    have ho := handleObj_obj hh
    have s := appDropStream_eff p.a hd
    rw [hfid_of hh] at s
    have u := appDropStream_local p.a hd i o hh h.runA.dead
    have heq : ∀ (e1 : Bool), ReaderOk ({ o with rxOpen := false, rxq := [], parked := false } : Obj) e1 → e1 = true := by
      intro e1 hk; rcases hk with hk | hk
      · cases hk
      · exact hk
    refine inv_of_local (ba' := p.ba) (hd := []) (fbaT := fl _ (pathBA p)) (g' := { p.ga with dropped := dl }) h s u ho rfl rfl
      (by simp) (Or.inl rfl) rfl rfl (hS_of_eq rfl rfl rfl rfl) ?_ ?_ (fun hk => Or.inr (heq _ hk)) ⟨fun hh => ⟨hh, rfl⟩, id⟩
      (fun _ => noReset_nil) (fun _ => noReset_nil) ⟨rfl, fun _ => rfl, fun hh => (by cases hh), fun ha => Or.inl ha⟩ ⟨fun _ => rfl, fun _ => rfl⟩ (fun _ a b c d => ⟨rfl, b, c, d, by simp, rfl, rfl, fun hh _ => absurd (by simp) hh⟩)
      ⟨rfl, rfl⟩ (by simp) (fun _ _ => ⟨rfl, rfl, rfl⟩)
    · intro hk oS fwd bwd w l dr
      have he := heq _ hk
      have he' : p.ga.eof i = true := he
      rw [he'] at dr
      rw [List.append_nil]
      show ∃ l', DirRel oS _ fwd bwd w (p.ga.rlog i) (p.ga.eof i) l'
      rw [he']
      exact ⟨l, dr.dropAfterEof⟩
    · intro hk fwd w l dr
      have he' : p.ga.eof i = true := heq _ hk
      rw [he'] at dr
      show ∃ l', DirRelA _ fwd w (p.ga.rlog i) (p.ga.eof i) l'
      rw [he']
      exact ⟨l, dr.dropAfterEof⟩

end Penguin.Pair
