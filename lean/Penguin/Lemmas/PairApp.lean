/-
The application calls on a stream handle (`write`, `read`, `shutdown`, dropping the stream)
preserve the invariant of the pair model.
-/
import Penguin.Lemmas.PairUpd

namespace Penguin.Pair
open Penguin.Mux

theorem filterMap_append_nil {α β : Type} (f : α → Option β) (l em : List α) (h : em.filterMap f = []) :
    (l ++ em).filterMap f = l.filterMap f := by
  rw [List.filterMap_append, h, List.append_nil]

section
variable {p : PS} {e' : EP} {g' : Ghost} {i y : Nat} {o o' : Obj} {em : List Msg} {dq : List Nat}
  {ba' hd fbaT : List Msg}

/-- The update does not touch what the sending role shows. -/
theorem hS_of_eq (h1 : o'.credit = o.credit) (h2 : o'.finishSent = o.finishSent) (h3 : g'.wlog i = p.ga.wlog i)
    (h4 : em.filterMap toItem = []) :
    ∀ oR fwd bwd r eof l, DirRel o oR fwd bwd (p.ga.wlog i) r eof l →
      ∃ l', DirRel o' oR (fwd ++ em) bwd (g'.wlog i) r eof l' :=
  fun _ _ _ _ _ l d => ⟨l, d.congr h1 h2 rfl rfl rfl rfl rfl rfl (filterMap_append_nil _ _ _ h4) rfl h3 rfl rfl rfl⟩

/-- The update does not touch what the receiving role shows. -/
theorem hR_of_eq (h1 : o'.cap = o.cap) (h2 : o'.threshold = o.threshold) (h3 : o'.senderAlive = o.senderAlive)
    (h4 : o'.rxq = o.rxq) (h5 : o'.buf = o.buf) (h6 : o'.recvdSince = o.recvdSince)
    (h7 : g'.rlog i = p.ga.rlog i) (h8 : g'.eof i = p.ga.eof i) (h9 : em.filterMap ackOf = [])
    (h10 : o'.rxOpen = o.rxOpen) :
    ∀ oS fwd bwd w l, DirRel oS o fwd bwd w (p.ga.rlog i) (p.ga.eof i) l →
      ∃ l', DirRel oS o' fwd (bwd ++ em) w (g'.rlog i) (g'.eof i) l' :=
  fun _ _ _ _ l d => ⟨l, d.congr rfl rfl h1 h2 h3 h4 h5 h6 rfl (filterMap_append_nil _ _ _ h9) rfl h7 h8 h10⟩

/-- An object-local update with the footprint of the object's flow preserves the invariant. -/
theorem inv_of_local (h : Inv p) (s : Eff (· = y) p.a e') (u : LocalUpd p.a e' i o' em dq)
    (ho : p.a.objs[i]? = some o) (hoy : o.fid = y) (ho' : o'.fid = y)
    (hem : ∀ m ∈ em, Msg.flow? m = some y ∧ m.isConnect = false)
    (hba : ba' = p.ba ∨ ∃ m, p.ba = m :: ba' ∧ ∀ z, Msg.flow? m = some z → z = y)
    (hba1 : fl y (pathBA p) = hd ++ fbaT) (hba2 : fl y (ba' ++ p.b.outq) = fbaT)
    (hS : ∀ oR fwd bwd r eof l, DirRel o oR fwd (hd ++ bwd) (p.ga.wlog i) r eof l →
            ∃ l', DirRel o' oR (fwd ++ em) bwd (g'.wlog i) r eof l')
    (hR : ¬ y ∈ dq → ∀ oS fwd bwd w l, DirRel oS o (hd ++ fwd) bwd w (p.ga.rlog i) (p.ga.eof i) l →
            ∃ l', DirRel oS o' fwd (bwd ++ em) w (g'.rlog i) (g'.eof i) l')
    (hHalf : hd = [] → o.rxq = [] → o.buf = [] → o.recvdSince = 0 → o.senderAlive = true →
            o'.rxq = [] ∧ o'.buf = [] ∧ o'.recvdSince = 0 ∧ o'.senderAlive = true ∧ (∀ m ∈ em, ackOf m = none) ∧
            g'.rlog i = p.ga.rlog i ∧ g'.eof i = p.ga.eof i ∧ (¬ y ∈ dq → o.rxOpen = true → o'.rxOpen = true))
    (hcap : o'.cap = o.cap ∧ o'.threshold = o.threshold)
    (hdq : ∀ x ∈ dq, x = y)
    (hg : ∀ k, k ≠ i → g'.wlog k = p.ga.wlog k ∧ g'.rlog k = p.ga.rlog k ∧ g'.eof k = p.ga.eof k) :
    Inv { p with a := e', ga := g', ba := ba' } := by
  have hi : i < p.a.objs.length := by
    rcases Nat.lt_or_ge i p.a.objs.length with h1 | h1
    · exact h1
    · simp [List.getElem?_eq_none h1] at ho
  refine inv_of_eff (ba' := ba') h s hba ?_ ?_ ?_
  · intro x hx k hk
    by_cases hki : k = i
    · subst hki
      have : objView x p.a k = none := by
        simp only [objView, ho]
        have : o.fid ≠ x := fun hh => hx (by rw [← hh, hoy])
        simp [this]
      rw [this] at hk; cases hk
    · exact hg k hki
  · intro k hk
    have hki : k ≠ i := by have := s.len; omega
    obtain ⟨a1, a2, a3⟩ := hg k hki
    rw [a1, a2, a3]
    exact h.ghA k (by have := s.len; omega)
  · intro x hx
    subst hx
    exact phase_upd (h.phase _) u ho hoy ho' hem hba1 hba2 hS hR hHalf hcap hdq

end

theorem handleObj_handles {e : EP} {h i : Nat} {o : Obj} (hh : e.handleObj h = some (i, o)) : e.handles[h]? = some i := by
  unfold EP.handleObj at hh
  split at hh
  · cases hh
  · rename_i i' hi
    split at hh
    · cases hh
    · simp at hh; rw [hi, hh.1]

theorem hfid_of {e : EP} {h i : Nat} {o : Obj} (hh : e.handleObj h = some (i, o)) : hfid e h = o.fid := by
  simp [hfid, hh]

theorem eta (p : PS) : ({ p with a := p.a, ga := p.ga } : PS) = p := rfl

@[simp] theorem addW_wlog_self (g : Ghost) (i : Nat) (d : Bytes) : (g.addW i d).wlog i = g.wlog i ++ d := by simp [Ghost.addW]
theorem addW_other (g : Ghost) (i k : Nat) (d : Bytes) (hk : k ≠ i) :
    (g.addW i d).wlog k = g.wlog k ∧ (g.addW i d).rlog k = g.rlog k ∧ (g.addW i d).eof k = g.eof k := by
  simp [Ghost.addW, hk]
@[simp] theorem addW_rlog (g : Ghost) (i : Nat) (d : Bytes) : (g.addW i d).rlog = g.rlog := rfl
@[simp] theorem addW_eof (g : Ghost) (i : Nat) (d : Bytes) : (g.addW i d).eof = g.eof := rfl
@[simp] theorem addR_rlog_self (g : Ghost) (i : Nat) (d : Bytes) : (g.addR i d).rlog i = g.rlog i ++ d := by simp [Ghost.addR]
theorem addR_other (g : Ghost) (i k : Nat) (d : Bytes) (hk : k ≠ i) :
    (g.addR i d).wlog k = g.wlog k ∧ (g.addR i d).rlog k = g.rlog k ∧ (g.addR i d).eof k = g.eof k := by
  simp [Ghost.addR, hk]
@[simp] theorem addR_wlog (g : Ghost) (i : Nat) (d : Bytes) : (g.addR i d).wlog = g.wlog := rfl
@[simp] theorem addR_eof (g : Ghost) (i : Nat) (d : Bytes) : (g.addR i d).eof = g.eof := rfl
@[simp] theorem setEof_self (g : Ghost) (i : Nat) : (g.setEof i).eof i = true := by simp [Ghost.setEof]
theorem setEof_other (g : Ghost) (i k : Nat) (hk : k ≠ i) :
    (g.setEof i).wlog k = g.wlog k ∧ (g.setEof i).rlog k = g.rlog k ∧ (g.setEof i).eof k = g.eof k := by
  simp [Ghost.setEof, hk]
@[simp] theorem setEof_wlog (g : Ghost) (i : Nat) : (g.setEof i).wlog = g.wlog := rfl
@[simp] theorem setEof_rlog (g : Ghost) (i : Nat) : (g.setEof i).rlog = g.rlog := rfl

theorem flow_push (y : Nat) (d : Bytes) : Msg.flow? (.frame (.push y d)) = some y := rfl
theorem flow_finish (y : Nat) : Msg.flow? (.frame (.finish y)) = some y := rfl
theorem flow_ack (y n : Nat) : Msg.flow? (.frame (.acknowledge y n)) = some y := rfl

/-- `poll_write`. -/
theorem inv_write {p : PS} (h : Inv p) (hd : Nat) (d : Bytes) :
    Inv { p with a := (appWrite p.a hd d).1,
                 ga := match (appWrite p.a hd d).2, p.a.handles[hd]? with
                       | .wrote _, some i => p.ga.addW i d
                       | _, _ => p.ga } := by
  cases hh : p.a.handleObj hd with
  | none =>
    have : appWrite p.a hd d = (p.a, .badHandle) := by unfold appWrite; rw [hh]
    rw [this]; exact h
  | some io =>
    obtain ⟨i, o⟩ := io
    have ho := handleObj_obj hh
    have hhi := handleObj_handles hh
    have s := appWrite_eff p.a hd d
    rw [hfid_of hh] at s
    rw [hhi]
    rcases appWrite_local p.a hd i o d hh h.runA.outClosed with ⟨hf, hres, u⟩ | ⟨hf, hd0, hres, u⟩ | ⟨hf, hd0, hc, hres, u⟩ | ⟨hf, hd0, hc, hres, u⟩
    · rw [hres]
      exact inv_of_local (ba' := p.ba) (hd := []) (fbaT := fl _ (pathBA p)) (g' := p.ga) h s u ho rfl rfl (by simp) (Or.inl rfl) rfl rfl (hS_of_eq rfl rfl rfl rfl)
        (fun _ => hR_of_eq rfl rfl rfl rfl rfl rfl rfl rfl rfl rfl) (fun _ a b c d => ⟨a, b, c, d, by simp, by simp, by simp, fun _ hh => hh⟩) ⟨rfl, rfl⟩ (by simp)
        (fun _ _ => ⟨rfl, rfl, rfl⟩)
    · rw [hres]
      subst hd0
      exact inv_of_local (ba' := p.ba) (hd := []) (fbaT := fl _ (pathBA p)) (g' := p.ga.addW i []) h s u ho rfl rfl (by simp) (Or.inl rfl) rfl rfl (hS_of_eq rfl rfl (by simp) rfl)
        (fun _ => hR_of_eq rfl rfl rfl rfl rfl rfl rfl rfl rfl rfl) (fun _ a b c d => ⟨a, b, c, d, by simp, by simp, by simp, fun _ hh => hh⟩) ⟨rfl, rfl⟩ (by simp)
        (fun k hk => addW_other _ _ _ _ hk)
    · rw [hres]
      exact inv_of_local (ba' := p.ba) (hd := []) (fbaT := fl _ (pathBA p)) (g' := p.ga) h s u ho rfl rfl (by simp) (Or.inl rfl) rfl rfl (hS_of_eq rfl rfl rfl rfl)
        (fun _ => hR_of_eq rfl rfl rfl rfl rfl rfl rfl rfl rfl rfl) (fun _ a b c d => ⟨a, b, c, d, by simp, by simp, by simp, fun _ hh => hh⟩) ⟨rfl, rfl⟩ (by simp)
        (fun _ _ => ⟨rfl, rfl, rfl⟩)
    · rw [hres]
      refine inv_of_local (ba' := p.ba) (hd := []) (fbaT := fl _ (pathBA p)) (g' := p.ga.addW i d) h s u ho rfl rfl ?_ (Or.inl rfl) rfl rfl ?_
        (fun _ => hR_of_eq rfl rfl rfl rfl rfl rfl rfl rfl rfl rfl) (fun _ a b c d => ⟨a, b, c, d, by simp, by simp, by simp, fun _ hh => hh⟩) ⟨rfl, rfl⟩ (by simp)
        (fun k hk => addW_other _ _ _ _ hk)
      · intro m hm; simp at hm; subst hm; exact ⟨rfl, rfl⟩
      · intro oR fwd bwd r eof l dr
        rw [addW_wlog_self]
        exact ⟨_, dr.write o.fid d hf hd0 hc⟩

/-- The ghost update of a read never touches the write log nor other objects' logs. -/
theorem readGhost_facts (g : Ghost) (res : Res) (i : Nat) :
    (match res, (some i : Option Nat) with
      | .data bs, some i => g.addR i bs
      | .eof, some i => g.setEof i
      | _, _ => g).wlog = g.wlog ∧
    ∀ k, k ≠ i →
      (match res, (some i : Option Nat) with
        | .data bs, some i => g.addR i bs
        | .eof, some i => g.setEof i
        | _, _ => g).rlog k = g.rlog k ∧
      (match res, (some i : Option Nat) with
        | .data bs, some i => g.addR i bs
        | .eof, some i => g.setEof i
        | _, _ => g).eof k = g.eof k := by
  cases res <;> simp [Ghost.addR, Ghost.setEof] <;> intro k hk <;> simp [hk]

theorem acks_flow {y : Nat} {em : List Msg} (h : AcksOf y em) :
    (∀ m ∈ em, Msg.flow? m = some y ∧ m.isConnect = false) ∧ em.filterMap toItem = [] := by
  constructor
  · intro m hm; obtain ⟨n, rfl⟩ := h m hm; exact ⟨rfl, rfl⟩
  · induction em with
    | nil => rfl
    | cons m rest ih =>
      obtain ⟨n, rfl⟩ := h m (by simp)
      simp [List.filterMap_cons, ih (fun m' hm' => h m' (List.mem_cons_of_mem _ hm'))]

/-- `poll_read`. -/
theorem inv_read {p : PS} (h : Inv p) (hd n : Nat) :
    Inv { p with a := (appRead p.a hd n).1,
                 ga := match (appRead p.a hd n).2, p.a.handles[hd]? with
                       | .data bs, some i => p.ga.addR i bs
                       | .eof, some i => p.ga.setEof i
                       | _, _ => p.ga } := by
  cases hh : p.a.handleObj hd with
  | none =>
    have : appRead p.a hd n = (p.a, .badHandle) := by unfold appRead; rw [hh]
    rw [this]; exact h
  | some io =>
    obtain ⟨i, o⟩ := io
    have ho := handleObj_obj hh
    have hhi := handleObj_handles hh
    have s := appRead_eff p.a hd n
    rw [hfid_of hh] at s
    rw [hhi]
    by_cases hne : ∀ d ∈ o.rxq, d ≠ []
    · rcases appRead_local p.a hd i n o hh h.runA.outClosed hne with
        ⟨hb, hres, u⟩ | ⟨hb, f, rest, hq, hres, hcase⟩ | ⟨hb, hq, ha, hres, he⟩ | ⟨hb, hq, ha, hres, u⟩
      · rw [hres]
        refine inv_of_local (ba' := p.ba) (hd := []) (fbaT := fl _ (pathBA p)) (g' := p.ga.addR i (o.buf.take n)) h s u ho rfl rfl (by simp) (Or.inl rfl) rfl rfl (hS_of_eq rfl rfl (by simp) rfl)
          ?_ (fun _ _ b _ _ => absurd b hb) ⟨rfl, rfl⟩ (by simp) (fun k hk => addR_other _ _ _ _ hk)
        intro _ oS fwd bwd w l dr
        rw [addR_rlog_self, List.append_nil]
        exact ⟨_, dr.readBuf n hb⟩
      · rw [hres]
        rcases hcase with ⟨ht, u⟩ | ⟨ht, u⟩
        · refine inv_of_local (ba' := p.ba) (hd := []) (fbaT := fl _ (pathBA p)) (g' := p.ga.addR i (f.take n)) h s u ho rfl rfl ?_ (Or.inl rfl) rfl rfl (hS_of_eq rfl rfl (by simp) rfl)
            ?_ (fun _ a _ _ _ => by rw [hq] at a; cases a) ⟨rfl, rfl⟩ (by simp) (fun k hk => addR_other _ _ _ _ hk)
          · intro m hm; simp at hm; subst hm; exact ⟨rfl, rfl⟩
          · intro _ oS fwd bwd w l dr
            rw [addR_rlog_self]
            exact ⟨_, (dr.readFrame o.fid n f rest hb hq).1 ht⟩
        · refine inv_of_local (ba' := p.ba) (hd := []) (fbaT := fl _ (pathBA p)) (g' := p.ga.addR i (f.take n)) h s u ho rfl rfl (by simp) (Or.inl rfl) rfl rfl (hS_of_eq rfl rfl (by simp) rfl)
            ?_ (fun _ a _ _ _ => by rw [hq] at a; cases a) ⟨rfl, rfl⟩ (by simp) (fun k hk => addR_other _ _ _ _ hk)
          intro _ oS fwd bwd w l dr
          rw [addR_rlog_self, List.append_nil]
          exact ⟨_, (dr.readFrame o.fid n f rest hb hq).2 ht⟩
      · rw [hres, he]; exact h
      · rw [hres]
        refine inv_of_local (ba' := p.ba) (hd := []) (fbaT := fl _ (pathBA p)) (g' := p.ga.setEof i) h s u ho rfl rfl (by simp) (Or.inl rfl) rfl rfl (hS_of_eq rfl rfl (by simp) rfl)
          ?_ (fun _ _ _ _ d => by rw [ha] at d; cases d) ⟨rfl, rfl⟩ (by simp) (fun k hk => setEof_other _ _ _ hk)
        intro _ oS fwd bwd w l dr
        rw [setEof_self, List.append_nil]
        exact ⟨_, dr.readEof n hb hq ha⟩
    · obtain ⟨o', em, u, ss, ak⟩ := appRead_coarse p.a hd i n o hh h.runA.outClosed
      obtain ⟨gw, gk⟩ := readGhost_facts p.ga (appRead p.a hd n).2 i
      obtain ⟨hemf, hemi⟩ := acks_flow ak
      refine inv_of_local (ba' := p.ba) (hd := []) (fbaT := fl _ (pathBA p)) h s u ho rfl ss.fid hemf (Or.inl rfl) rfl rfl (hS_of_eq ss.credit ss.finishSent (by rw [gw]) hemi)
        ?_ ?_ ⟨ss.cap, ss.threshold⟩ (by simp) (fun k hk => ⟨by rw [gw], gk k hk⟩)
      · intro _ oS fwd bwd w l dr
        exfalso; apply hne
        have := dr.inv.hne_rxq
        rw [dr.hrxq] at this
        exact this
      · intro _ a _ _ _
        exfalso; apply hne; rw [a]; intro d hd; cases hd

/-- `poll_shutdown`. -/
theorem inv_shutdown {p : PS} (h : Inv p) (hd : Nat) : Inv { p with a := (appShutdown p.a hd).1 } := by
  cases hh : p.a.handleObj hd with
  | none =>
    have : appShutdown p.a hd = (p.a, .badHandle) := by unfold appShutdown; rw [hh]
    rw [this]; exact h
  | some io =>
    obtain ⟨i, o⟩ := io
    have ho := handleObj_obj hh
    have s := appShutdown_eff p.a hd
    rw [hfid_of hh] at s
    rcases appShutdown_local p.a hd i o hh h.runA.outClosed with ⟨hf, hres⟩ | ⟨hf, u⟩
    · rw [hres]; exact h
    · refine inv_of_local (ba' := p.ba) (hd := []) (fbaT := fl _ (pathBA p)) (g' := p.ga) h s u ho rfl rfl ?_ (Or.inl rfl) rfl rfl ?_
        (fun _ => hR_of_eq rfl rfl rfl rfl rfl rfl rfl rfl rfl rfl) (fun _ a b c d => ⟨a, b, c, d, by simp, by simp, by simp, fun _ hh => hh⟩) ⟨rfl, rfl⟩ (by simp)
        (fun _ _ => ⟨rfl, rfl, rfl⟩)
      · intro m hm; simp at hm; subst hm; exact ⟨rfl, rfl⟩
      · intro oR fwd bwd r eof l dr
        exact ⟨_, dr.shutdown o.fid hf⟩

/-- Dropping the `MuxStream`: the task is notified; from now on nothing is claimed for the flow. -/
theorem inv_dropStream {p : PS} (h : Inv p) (hd : Nat) (dl : List Nat) :
    Inv { p with a := (appDropStream p.a hd).1, ga := { p.ga with dropped := dl } } := by
  cases hh : p.a.handleObj hd with
  | none =>
    have : appDropStream p.a hd = (p.a, .badHandle) := by unfold appDropStream; rw [hh]
    rw [this]
    exact ⟨h.runA, h.runB, h.sfA, h.sfB, h.nodup, h.nonzero, h.ghA, h.ghB, h.phase⟩
  | some io =>
    obtain ⟨i, o⟩ := io
    have ho := handleObj_obj hh
    have s := appDropStream_eff p.a hd
    rw [hfid_of hh] at s
    have u := appDropStream_local p.a hd i o hh h.runA.dead
    -- after the drop the notification is queued, so the receiving role is not claimed any more
    refine inv_of_local (ba' := p.ba) (hd := []) (fbaT := fl _ (pathBA p)) (g' := { p.ga with dropped := dl }) h s u ho rfl rfl (by simp) (Or.inl rfl) rfl rfl (hS_of_eq rfl rfl rfl rfl)
      (fun hn => absurd (by simp) hn) (fun _ a b c d => ⟨rfl, b, c, d, by simp, rfl, rfl, fun hh _ => absurd (by simp) hh⟩) ⟨rfl, rfl⟩ (by simp)
      (fun _ _ => ⟨rfl, rfl, rfl⟩)

end Penguin.Pair
