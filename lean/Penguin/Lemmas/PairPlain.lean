/-
What travels between the two endpoints of the pair model: in every reachable state every message in an
outbound queue or on a wire is a frame (the pair model has no pings and no Close) — so the receive loop
of the peer can always process the oldest message on its wire (`Pair.stepL … .recv` is enabled unless
the loop is parked).
-/
import Penguin.Model.Pair

namespace Penguin.Mux

/-- A frame (not a ping, pong or Close). -/
def plainMsg : Msg → Bool
  | .frame _ => true
  | _ => false

def Plain (l : List Msg) : Prop := ∀ m ∈ l, plainMsg m = true

theorem Plain.append {a b : List Msg} (ha : Plain a) (hb : Plain b) : Plain (a ++ b) := by
  intro m hm
  rcases List.mem_append.mp hm with h | h
  · exact ha m h
  · exact hb m h

theorem Plain.nil : Plain [] := fun _ h => by cases h

/-- A step of an endpoint that appends only frames to its outbound queue. -/
def Emits (e e' : EP) : Prop := ∃ em, e'.outq = e.outq ++ em ∧ Plain em

namespace Emits

theorem refl (e : EP) : Emits e e := ⟨[], by simp, Plain.nil⟩

theorem trans {a b c : EP} (s : Emits a b) (t : Emits b c) : Emits a c := by
  obtain ⟨e1, h1, g1⟩ := s
  obtain ⟨e2, h2, g2⟩ := t
  exact ⟨e1 ++ e2, by rw [h2, h1, List.append_assoc], g1.append g2⟩

theorem after {a b c : EP} (t : Emits b c) (s : Emits a b) : Emits a c := s.trans t

theorem silent {e e' : EP} (h : e'.outq = e.outq) : Emits e e' := ⟨[], by simp [h], Plain.nil⟩

theorem enqFrame (e : EP) (f : Frame) (hf : plainMsg (.frame f) = true) : Emits e (e.enqFrame f) := by
  unfold EP.enqFrame EP.enq
  split
  · exact refl e
  · refine ⟨[.frame f], rfl, ?_⟩
    intro m hm
    simp only [List.mem_cons, List.not_mem_nil, or_false] at hm
    subst hm; exact hf

theorem modObj (e : EP) (i : Nat) (f : Obj → Obj) : Emits e (e.modObj i f) := silent rfl

theorem plain {e e' : EP} (s : Emits e e') (h : Plain e.outq) : Plain e'.outq := by
  obtain ⟨em, h1, g1⟩ := s
  rw [h1]; exact h.append g1

end Emits

theorem Emits.openRejected (e : EP) (req : Nat) (final : Bool) : Emits e (openRejected e req final).1 := by
  unfold Mux.openRejected
  repeat' split
  all_goals exact Emits.silent rfl

theorem Emits.closeLocal (e : EP) (s : Slot) (fid : Nat) (inh final : Bool) : Emits e (closeLocal e s fid inh final).1 := by
  unfold Mux.closeLocal
  cases s with
  | established i =>
    simp only
    cases e.obj? i with
    | none => exact Emits.refl e
    | some o =>
      simp only
      split
      · exact Emits.after (Emits.enqFrame _ _ rfl) (Emits.modObj e i _)
      · exact Emits.modObj e i _
  | requested req => exact Emits.openRejected e req final
  | bindRequested req => exact Emits.refl e

theorem Emits.closeFlow (e : EP) (fid : Nat) (inh : Bool) : Emits e (closeFlow e fid inh).1 := by
  unfold Mux.closeFlow
  cases lookup e.flows fid with
  | none => exact Emits.refl e
  | some s => exact (Emits.silent rfl : Emits e { e with flows := erase e.flows fid }).trans (Emits.closeLocal _ s fid inh false)

theorem Emits.unpark (e : EP) : Emits e (unpark e) := by
  unfold Mux.unpark
  repeat' split
  all_goals first
    | exact Emits.refl e
    | exact Emits.silent rfl
    | exact Emits.after (Emits.enqFrame _ _ rfl) (Emits.silent rfl)

theorem Emits.openRound (e : EP) (r : OpenReq) : Emits e (openRound e r).1 := by
  unfold Mux.openRound
  split
  · exact Emits.silent rfl
  · split
    · exact Emits.silent rfl
    · simp only
      split
      · exact Emits.silent rfl
      · exact Emits.after (Emits.enqFrame _ _ rfl) (Emits.silent rfl)

theorem Emits.runRetries (e : EP) (l : List Nat) : Emits e (runRetries e l).1 := by
  induction l generalizing e with
  | nil => exact Emits.refl e
  | cons req rest ih =>
    rw [Mux.runRetries]
    split
    · exact ih e
    · exact (Emits.openRound e _).trans (ih _)

theorem Emits.runDone (e : EP) (l : List (Nat × Nat)) : Emits e (runDone e l).1 := by
  induction l generalizing e with
  | nil => exact Emits.refl e
  | cons x rest ih =>
    obtain ⟨req, i⟩ := x
    rw [Mux.runDone]
    exact (Emits.silent rfl : Emits e { e with handles := e.handles ++ [i] }).trans (ih _)

theorem Emits.offerAccept (e : EP) (i : Nat) : Emits e (offerAccept e i) := by
  unfold Mux.offerAccept; split <;> exact Emits.silent rfl
theorem Emits.offerBind (e : EP) (b : BindIn) : Emits e (offerBind e b) := by
  unfold Mux.offerBind; split <;> exact Emits.silent rfl

/-- Whatever frame is processed, the replies are frames (`Reset`, `Acknowledge`). -/
theorem Emits.processFrame (e : EP) (f : Frame) (ig : Bool) : Emits e (processFrame e f ig).1 := by
  have nd : ∀ g : Frame, plainMsg (.frame g) = true → ∀ x : EP, Emits x (x.enqFrame g) := fun g hg x => Emits.enqFrame x g hg
  cases f with
  | connect fid rwnd port host =>
    simp only [Mux.processFrame]
    split
    · exact nd _ rfl _
    · split
      · exact Emits.silent rfl
      · have c1 : Emits e (({ e with objs := e.objs ++ [newObj e.opts fid rwnd host port], flows := insert e.flows fid (.established e.objs.length) } : EP).enqFrame (.acknowledge fid e.opts.rwnd)) :=
          Emits.after (nd _ rfl _) (Emits.silent rfl)
        split
        · exact c1.trans (Emits.silent rfl)
        · exact c1.trans (Emits.offerAccept _ _)
  | acknowledge fid n =>
    simp only [Mux.processFrame]
    split
    · exact Emits.modObj _ _ _
    · split <;> exact Emits.silent rfl
    · exact nd _ rfl _
    · exact nd _ rfl _
  | finish fid =>
    simp only [Mux.processFrame]
    split
    · exact nd _ rfl _
    · exact Emits.silent rfl
    · exact Emits.after (nd _ rfl _) (Emits.silent rfl)
    · exact Emits.modObj _ _ _
  | reset fid => simp only [Mux.processFrame]; exact Emits.closeFlow _ _ _
  | push fid d =>
    simp only [Mux.processFrame]
    split
    · split
      · exact Emits.refl e
      · split
        · exact nd _ rfl _
        · split
          · exact Emits.refl e
          · split
            · exact Emits.modObj _ _ _
            · exact Emits.closeFlow _ _ _
    · exact nd _ rfl _
  | bind fid bt port host =>
    simp only [Mux.processFrame]
    split
    · exact nd _ rfl _
    · split
      · exact Emits.refl e
      · split
        · exact nd _ rfl _
        · exact Emits.offerBind _ _
  | datagram fid port host d =>
    simp only [Mux.processFrame]
    repeat' split
    all_goals first | exact Emits.refl e | exact Emits.silent rfl

theorem Emits.appAccept (e : EP) : Emits e (appAccept e).1 := by
  unfold Mux.appAccept
  repeat' split
  all_goals first | exact Emits.refl e | exact Emits.silent rfl

theorem Emits.appWrite (e : EP) (h : Nat) (d : Bytes) : Emits e (appWrite e h d).1 := by
  unfold Mux.appWrite
  repeat' split
  all_goals first
    | exact Emits.refl e
    | exact Emits.modObj _ _ _
    | exact Emits.after (Emits.enqFrame _ _ rfl) (Emits.modObj _ _ _)

theorem Emits.ackStep (e : EP) (i : Nat) (o : Obj) : Emits e (ackStep e i o) := by
  unfold Mux.ackStep
  split
  · exact Emits.after (Emits.enqFrame _ _ rfl) (Emits.modObj _ _ _)
  · exact Emits.modObj _ _ _

theorem Emits.fillBuf (fuel : Nat) (e : EP) (i : Nat) : Emits e (fillBuf fuel e i).1 := by
  induction fuel generalizing e with
  | zero => exact Emits.refl e
  | succ n ih =>
    unfold Mux.fillBuf
    split
    · exact Emits.refl e
    · split
      · exact Emits.refl e
      · split
        · split
          · exact Emits.after (ih _) (Emits.after (Emits.ackStep _ _ _) (Emits.modObj _ _ _))
          · exact Emits.after (Emits.ackStep _ _ _) (Emits.modObj _ _ _)
        · split
          · exact Emits.refl e
          · exact Emits.modObj _ _ _

theorem Emits.appRead (e : EP) (h n : Nat) : Emits e (appRead e h n).1 := by
  unfold Mux.appRead
  split
  · exact Emits.refl e
  · rename_i i o _
    have s1 := Emits.fillBuf (o.rxq.length + 2) e i
    generalize Mux.fillBuf (o.rxq.length + 2) e i = r at s1
    obtain ⟨e1, res⟩ := r
    cases res <;> first | exact s1 | exact s1.trans (Emits.modObj _ _ _)

theorem Emits.appShutdown (e : EP) (h : Nat) : Emits e (appShutdown e h).1 := by
  unfold Mux.appShutdown
  repeat' split
  all_goals first
    | exact Emits.refl e
    | exact Emits.modObj _ _ _
    | exact Emits.after (Emits.enqFrame _ _ rfl) (Emits.modObj _ _ _)

theorem Emits.appDropStream (e : EP) (h : Nat) : Emits e (appDropStream e h).1 := by
  unfold Mux.appDropStream
  split
  · exact Emits.refl e
  · simp only
    split
    · exact Emits.modObj _ _ _
    · exact Emits.silent rfl

theorem Emits.appSendDgram (e : EP) (d : Dgram) : Emits e (appSendDgram e d).1 := by
  unfold Mux.appSendDgram
  repeat' split
  all_goals first
    | exact Emits.refl e
    | exact Emits.enqFrame _ _ rfl

theorem Emits.appRecvDgram (e : EP) : Emits e (appRecvDgram e).1 := by
  unfold Mux.appRecvDgram
  repeat' split
  all_goals first | exact Emits.refl e | exact Emits.silent rfl

theorem Emits.appBindReq (e : EP) (req : Nat) (bt : BindType) (host : Bytes) (port : Nat) :
    Emits e (appBindReq e req bt host port).1 := by
  unfold Mux.appBindReq
  repeat' split
  all_goals first
    | exact Emits.refl e
    | exact Emits.silent rfl
    | exact Emits.after (Emits.enqFrame _ _ rfl) (Emits.silent rfl)

theorem Emits.appBindNext (e : EP) : Emits e (appBindNext e).1 := by
  unfold Mux.appBindNext
  repeat' split
  all_goals first | exact Emits.refl e | exact Emits.silent rfl

theorem Emits.appBindReply (e : EP) (k : Nat) (acc : Bool) : Emits e (appBindReply e k acc).1 := by
  unfold Mux.appBindReply
  repeat' split
  all_goals first
    | exact Emits.refl e
    | exact (Emits.enqFrame e _ rfl).trans (Emits.silent rfl)

theorem Emits.appBindDrop (e : EP) (k : Nat) : Emits e (appBindDrop e k).1 := by
  unfold Mux.appBindDrop
  repeat' split
  all_goals first
    | exact Emits.refl e
    | exact Emits.silent rfl
    | exact Emits.after (Emits.enqFrame _ _ rfl) (Emits.silent rfl)

end Penguin.Mux

namespace Penguin.Pair
open Penguin.Mux

/-- Everything in an outbound queue or on a wire is a frame. -/
structure PlainInv (p : PS) : Prop where
  qa : Plain p.a.outq
  qb : Plain p.b.outq
  ab : Plain p.ab
  ba : Plain p.ba

theorem PlainInv.swap {p : PS} (h : PlainInv p) : PlainInv p.swap := ⟨h.qb, h.qa, h.ba, h.ab⟩

theorem stepL_plain {p p' : PS} (a : Act) (h : PlainInv p) (hs : stepL p a = some p') : PlainInv p' := by
  have same : ∀ {e' : EP} {g' : Ghost}, Emits p.a e' → PlainInv { p with a := e', ga := g' } :=
    fun s => ⟨s.plain h.qa, h.qb, h.ab, h.ba⟩
  cases a with
  | «open» req host port =>
    simp only [stepL] at hs
    split at hs
    · cases hs
    · split at hs
      · cases hs
      · cases hs; exact same (Emits.openRound _ _)
  | cancelOpen req => simp only [stepL] at hs; cases hs; exact same (Emits.silent rfl)
  | accept => simp only [stepL] at hs; cases hs; exact same (Emits.appAccept _)
  | write hd d =>
    simp only [stepL] at hs
    split at hs
    · cases hs
    · cases hs; exact same (Emits.appWrite _ _ _)
  | read hd n =>
    simp only [stepL] at hs
    split at hs
    · cases hs
    · cases hs; exact same (Emits.appRead _ _ _)
  | shutdown hd =>
    simp only [stepL] at hs
    split at hs
    · cases hs
    · cases hs; exact same (Emits.appShutdown _ _)
  | dropStream hd =>
    simp only [stepL] at hs
    split at hs
    · cases hs
    · cases hs; exact same (Emits.appDropStream _ _)
  | sendDgram d => simp only [stepL] at hs; cases hs; exact same (Emits.appSendDgram _ _)
  | recvDgram => simp only [stepL] at hs; cases hs; exact same (Emits.appRecvDgram _)
  | xmit =>
    simp only [stepL] at hs
    split at hs
    · cases hs
    · rename_i m rest hq
      cases hs
      have hqa := h.qa
      rw [hq] at hqa
      refine ⟨fun x hx => hqa x (List.mem_cons_of_mem _ hx), h.qb, h.ab.append ?_, h.ba⟩
      intro x hx
      simp only [List.mem_cons, List.not_mem_nil, or_false] at hx
      subst hx
      exact hqa x (by simp)
  | recv =>
    simp only [stepL] at hs
    split at hs
    · cases hs
    · split at hs
      · rename_i f rest hba
        split at hs
        · rename_i e evs hpf
          cases hs
          have he : e = (processFrame p.a f false).1 := by rw [hpf]
          subst he
          have hb := h.ba
          rw [hba] at hb
          exact ⟨(Emits.processFrame p.a f false).plain h.qa, h.qb, h.ab, fun x hx => hb x (List.mem_cons_of_mem _ hx)⟩
        · cases hs
      · cases hs
  | notif =>
    simp only [stepL] at hs
    split at hs
    · rename_i fid rest hq
      split at hs
      · cases hs
      · cases hs
        exact same ((Emits.silent rfl : Emits p.a { p.a with droppedq := rest }).trans (Emits.closeFlow _ _ _))
    · cases hs
  | unpark => simp only [stepL] at hs; cases hs; exact same (Emits.unpark _)
  | runDone =>
    simp only [stepL] at hs; cases hs
    exact same ((Emits.silent rfl : Emits p.a { p.a with doneq := [] }).trans (Emits.runDone _ _))
  | runRetries =>
    simp only [stepL] at hs
    split at hs
    · cases hs
    · cases hs
      exact same ((Emits.silent rfl : Emits p.a { p.a with retryq := [] }).trans (Emits.runRetries _ _))
  | bindReq req bt host port =>
    simp only [stepL] at hs
    split at hs
    · cases hs
    · cases hs; exact same (Emits.appBindReq _ _ _ _ _)
  | bindNext => simp only [stepL] at hs; cases hs; exact same (Emits.appBindNext _)
  | bindReply k acc => simp only [stepL] at hs; cases hs; exact same (Emits.appBindReply _ _ _)
  | bindDrop k => simp only [stepL] at hs; cases hs; exact same (Emits.appBindDrop _ _)

theorem step_plain {p p' : PS} (s : Side) (a : Act) (h : PlainInv p) (hs : step p s a = some p') : PlainInv p' := by
  cases s with
  | A => exact stepL_plain a h hs
  | B =>
    simp only [step, Option.map_eq_some_iff] at hs
    obtain ⟨q, hq, rfl⟩ := hs
    exact (stepL_plain a h.swap hq).swap

theorem run_plain (p : PS) (as : List (Side × Act)) (h : PlainInv p) : PlainInv (run p as) := by
  induction as generalizing p with
  | nil => exact h
  | cons sa rest ih =>
    obtain ⟨s, a⟩ := sa
    unfold run
    cases hs : step p s a with
    | none => exact ih p h
    | some p' => exact ih p' (step_plain s a h hs)

theorem init_plain (oa ob : Opts) (ra rb : List Nat) : PlainInv (init oa ob ra rb) :=
  ⟨Plain.nil, Plain.nil, Plain.nil, Plain.nil⟩

/-- In every reachable state of the pair, everything in transit is a frame. -/
theorem reach_plain (oa ob : Opts) (ra rb : List Nat) (as : List (Side × Act)) : PlainInv (run (init oa ob ra rb) as) :=
  run_plain _ as (init_plain oa ob ra rb)

end Penguin.Pair
