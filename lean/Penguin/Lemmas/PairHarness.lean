/-
The pair invariant holds after every harness-level history (a list of stimuli — application calls and
deliveries at either endpoint — each followed by the endpoint's run to quiescence, exactly what the
correspondence harness executes against the real code and compares with `Mux.applyOp`).
-/
import Penguin.Lemmas.PairCor
import Penguin.Lemmas.PairSettle

namespace Penguin.Pair
open Penguin.Mux

theorem stim_history_inv {oa ob : Opts} {ra rb : List Nat} (c : Cfg oa ob ra rb) (l : List (Side × Stim)) (q : PS)
    (h : stimRun (init oa ob ra rb) l = some q) : Inv q := by
  obtain ⟨as, rfl⟩ := stimRun_is_run _ _ _ h
  exact reach_inv c as

end Penguin.Pair
