/-
The pair invariant holds after every harness-level history (a list of stimuli — application calls and
deliveries at either endpoint — each followed by the endpoint's run to quiescence, exactly what the
correspondence harness executes against the real code and compares with `Mux.applyOp`).
-/
import Penguin.Lemmas.PairCor
import Penguin.Lemmas.PairSettle
import Penguin.Model.MuxExt

namespace Penguin.Pair
open Penguin.Mux

theorem stim_history_inv {oa ob : Opts} {ra rb : List Nat} (c : Cfg oa ob ra rb) (l : List (Side × Stim)) (q : PS)
    (h : stimRun (init oa ob ra rb) l = some q) : Inv q := by
  obtain ⟨as, rfl⟩ := stimRun_is_run _ _ _ h
  exact reach_inv c as

/-! ### The `dropmany` stimulus (several streams dropped back to back, then the task runs)

`Mux.applyDropMany` — what the driver executes for the harness's `dropmany` — is a run of the
fine-grained actions too: `dropStream`, …, `dropStream`, then the task's `unpark` / `notif` …, `xmit` …,
`runDone`, `runRetries`, `xmit` …; so the invariant (and everything read off it) holds after it. -/

/-- The endpoint after the drop calls alone. -/
theorem runL_drops_a (p q : PS) (hs : List Nat) (h : runL p (hs.map Act.dropStream) = some q) :
    q.a = hs.foldl (fun e h => (appDropStream e h).1) p.a ∧ q.ab = p.ab ∧ q.b = p.b ∧ q.ba = p.ba := by
  induction hs generalizing p with
  | nil => simp only [List.map_nil, runL, Option.some.injEq] at h; subst h; exact ⟨rfl, rfl, rfl, rfl⟩
  | cons x rest ih =>
    simp only [List.map_cons, runL] at h
    cases hx : stepL p (.dropStream x) with
    | none => rw [hx] at h; cases h
    | some p1 =>
      rw [hx] at h
      simp only [Option.bind_some] at h
      obtain ⟨h1, h2, h3, h4⟩ := ih p1 h
      simp only [stepL] at hx
      split at hx
      · cases hx
      · cases hx
        exact ⟨h1, h2, h3, h4⟩

/-- If every one of the handles is live when its turn comes (the drops are enabled), the task is idle
    afterwards, the sink takes everything and the id script does not run out, then the state after
    the `dropmany` stimulus is reached by a run of fine-grained actions. -/
theorem dropMany_fine (p q : PS) (hs : List Nat) (hen : runL p (hs.map Act.dropStream) = some q)
    (hidle : Idle q.a) (hsr : q.a.sinkRoom = none) (hr : (settle q.a).1.rng ≠ []) :
    ∃ acts, runL p (hs.map Act.dropStream ++ acts) =
      some { q with a := (applyDropMany p.a hs).1, ab := p.ab ++ wiresOf (applyDropMany p.a hs).2.2 } := by
  obtain ⟨ha, hab, _, _⟩ := runL_drops_a p q hs hen
  obtain ⟨acts, hacts⟩ := settle_fine q hidle hsr hr
  refine ⟨acts, ?_⟩
  rw [runL_append, hen]
  simp only [Option.bind_some, hacts, applyDropMany, ← ha, hab]

/-- … hence the invariant holds after a `dropmany` stimulus applied to any reachable state. -/
theorem dropMany_inv (p q : PS) (hp : Inv p) (hs : List Nat) (hen : runL p (hs.map Act.dropStream) = some q)
    (hidle : Idle q.a) (hsr : q.a.sinkRoom = none) (hr : (settle q.a).1.rng ≠ []) :
    Inv { q with a := (applyDropMany p.a hs).1, ab := p.ab ++ wiresOf (applyDropMany p.a hs).2.2 } := by
  obtain ⟨acts, h⟩ := dropMany_fine p q hs hen hidle hsr hr
  have has := run_of_runL p _ _ h
  rw [← has]
  exact run_inv p _ hp

end Penguin.Pair
