/-
The pair invariant holds after every harness-level history (a list of stimuli — application calls and
deliveries at either endpoint — each followed by the endpoint's run to quiescence, exactly what the
correspondence harness executes against the real code and compares with `Mux.applyOp`).
-/
import Penguin.Lemmas.PairCor
import Penguin.Lemmas.PairSettle
import Penguin.Model.MuxExt

namespace Penguin.Pair
open Penguin.Mux

theorem stim_history_inv {oa ob : Opts} {ra rb : List Nat} (c : Cfg oa ob ra rb) (l : List (Side × Stim)) (q : PS)
    (h : stimRun (init oa ob ra rb) l = some q) : Inv q := by
  obtain ⟨as, rfl⟩ := stimRun_is_run _ _ _ h
  exact reach_inv c as

/-! ### The `dropmany` stimulus (several streams dropped back to back, then the task runs)

`Mux.applyDropMany` — what the driver executes for the harness's `dropmany` — is a run of the
fine-grained actions too: `dropStream`, …, `dropStream`, then the task's `unpark` / `notif` …, `xmit` …,
`runDone`, `runRetries`, `xmit` …; so the invariant (and everything read off it) holds after it. -/

/-- The endpoint after the drop calls alone. -/
theorem runL_drops_a (p q : PS) (hs : List Nat) (h : runL p (hs.map Act.dropStream) = some q) :
    q.a = hs.foldl (fun e h => (appDropStream e h).1) p.a ∧ q.ab = p.ab ∧ q.b = p.b ∧ q.ba = p.ba := by
  induction hs generalizing p with
  | nil => simp only [List.map_nil, runL, Option.some.injEq] at h; subst h; exact ⟨rfl, rfl, rfl, rfl⟩
  | cons x rest ih =>
    simp only [List.map_cons, runL] at h
    cases hx : stepL p (.dropStream x) with
    | none => rw [hx] at h; cases h
    | some p1 =>
      rw [hx] at h
      simp only [Option.bind_some] at h
      obtain ⟨h1, h2, h3, h4⟩ := ih p1 h
      simp only [stepL] at hx
      split at hx
      · cases hx
      · cases hx
        exact ⟨h1, h2, h3, h4⟩

/-- If every one of the handles is live when its turn comes (the drops are enabled), the task is idle
    afterwards, the sink takes everything and the id script does not run out, then the state after
    the `dropmany` stimulus is reached by a run of fine-grained actions. -/
theorem dropMany_fine (p q : PS) (hs : List Nat) (hen : runL p (hs.map Act.dropStream) = some q)
    (hidle : Idle q.a) (hsr : q.a.sinkRoom = none) (hr : (settle q.a).1.rng ≠ []) :
    ∃ acts, runL p (hs.map Act.dropStream ++ acts) =
      some { q with a := (applyDropMany p.a hs).1, ab := p.ab ++ wiresOf (applyDropMany p.a hs).2.2 } := by
  obtain ⟨ha, hab, _, _⟩ := runL_drops_a p q hs hen
  obtain ⟨acts, hacts⟩ := settle_fine q hidle hsr hr
  refine ⟨acts, ?_⟩
  rw [runL_append, hen]
  simp only [Option.bind_some, hacts, applyDropMany, ← ha, hab]

/-- … hence the invariant holds after a `dropmany` stimulus applied to any reachable state. -/
theorem dropMany_inv (p q : PS) (hp : Inv p) (hs : List Nat) (hen : runL p (hs.map Act.dropStream) = some q)
    (hidle : Idle q.a) (hsr : q.a.sinkRoom = none) (hr : (settle q.a).1.rng ≠ []) :
    Inv { q with a := (applyDropMany p.a hs).1, ab := p.ab ++ wiresOf (applyDropMany p.a hs).2.2 } := by
  obtain ⟨acts, h⟩ := dropMany_fine p q hs hen hidle hsr hr
  have has := run_of_runL p _ _ h
  rw [← has]
  exact run_inv p _ hp

/-! ### The `batch` stimulus (several application calls back to back, then the task runs)

`Mux.applyBatch` — what the driver executes for the harness's `batch` — folds the calls' `opStep` and
then settles once; with every call enabled in the pair model this is the calls as actions followed
by the task's actions. -/

/-- The endpoint (and the events: no message reaches the sink before the task runs) after the calls alone. -/
theorem runL_calls (p q : PS) (ops : List Mux.Op) (acts : List Act)
    (hacts : ops.map actOf = acts.map some) (h : runL p acts = some q) :
    q.a = (ops.foldl (fun (acc : EP × List Res × List Ev) op =>
      ((opStep acc.1 op).1, acc.2.1 ++ [(opStep acc.1 op).2.1], acc.2.2 ++ (opStep acc.1 op).2.2)) (p.a, [], [])).1 ∧
    q.ab = p.ab ∧
    wiresOf (ops.foldl (fun (acc : EP × List Res × List Ev) op =>
      ((opStep acc.1 op).1, acc.2.1 ++ [(opStep acc.1 op).2.1], acc.2.2 ++ (opStep acc.1 op).2.2)) (p.a, [], [])).2.2 = [] := by
  suffices H : ∀ (ops : List Mux.Op) (acts : List Act) (p q : PS) (rs : List Res) (evs : List Ev),
      ops.map actOf = acts.map some → runL p acts = some q → wiresOf evs = [] →
      q.a = (ops.foldl (fun (acc : EP × List Res × List Ev) op =>
        ((opStep acc.1 op).1, acc.2.1 ++ [(opStep acc.1 op).2.1], acc.2.2 ++ (opStep acc.1 op).2.2)) (p.a, rs, evs)).1 ∧
      q.ab = p.ab ∧
      wiresOf (ops.foldl (fun (acc : EP × List Res × List Ev) op =>
        ((opStep acc.1 op).1, acc.2.1 ++ [(opStep acc.1 op).2.1], acc.2.2 ++ (opStep acc.1 op).2.2)) (p.a, rs, evs)).2.2 = [] from
    H ops acts p q [] [] hacts h rfl
  intro ops
  induction ops with
  | nil =>
    intro acts p q rs evs hacts h hw
    cases acts with
    | nil => simp only [runL, Option.some.injEq] at h; subst h; exact ⟨rfl, rfl, hw⟩
    | cons a rest => simp at hacts
  | cons op rest ih =>
    intro acts p q rs evs hacts h hw
    cases acts with
    | nil => simp at hacts
    | cons a arest =>
      simp only [List.map_cons, List.cons.injEq] at hacts
      obtain ⟨ha, hrest⟩ := hacts
      simp only [runL] at h
      cases hs : stepL p a with
      | none => rw [hs] at h; cases h
      | some p1 =>
        rw [hs] at h
        simp only [Option.bind_some] at h
        obtain ⟨hp1, hw1⟩ := stepL_of_op p p1 op a ha hs
        have hp1a : p1.a = (opStep p.a op).1 := by rw [hp1]
        have hp1ab : p1.ab = p.ab := by rw [hp1]
        have := ih arest p1 q (rs ++ [(opStep p.a op).2.1]) (evs ++ (opStep p.a op).2.2) hrest h
          (by rw [wiresOf_append, hw, hw1]; rfl)
        simp only [List.foldl_cons]
        rw [hp1a, hp1ab] at this
        exact this

/-- If every call of the batch is enabled in the pair model (`runL` of the corresponding actions
    succeeds), the task is idle afterwards, the sink takes everything and the id script does not run
    out, then the state after the `batch` stimulus is reached by a run of fine-grained actions. -/
theorem batch_fine (p q : PS) (ops : List Mux.Op) (acts : List Act) (hacts : ops.map actOf = acts.map some)
    (hen : runL p acts = some q) (hidle : Idle q.a) (hsr : q.a.sinkRoom = none) (hr : (settle q.a).1.rng ≠ []) :
    ∃ tail, runL p (acts ++ tail) =
      some { q with a := (applyBatch p.a ops).1, ab := p.ab ++ wiresOf (applyBatch p.a ops).2.2 } := by
  obtain ⟨ha, hab, hw⟩ := runL_calls p q ops acts hacts hen
  obtain ⟨tail, htail⟩ := settle_fine q hidle hsr hr
  refine ⟨tail, ?_⟩
  rw [runL_append, hen]
  simp only [Option.bind_some, htail, applyBatch, ← ha, hab, wiresOf_append, hw, List.nil_append]

/-- … hence the invariant holds after a `batch` stimulus applied to any state that satisfies it. -/
theorem batch_inv (p q : PS) (hp : Inv p) (ops : List Mux.Op) (acts : List Act) (hacts : ops.map actOf = acts.map some)
    (hen : runL p acts = some q) (hidle : Idle q.a) (hsr : q.a.sinkRoom = none) (hr : (settle q.a).1.rng ≠ []) :
    Inv { q with a := (applyBatch p.a ops).1, ab := p.ab ++ wiresOf (applyBatch p.a ops).2.2 } := by
  obtain ⟨tail, h⟩ := batch_fine p q ops acts hacts hen hidle hsr hr
  have has := run_of_runL p _ _ h
  rw [← has]
  exact run_inv p _ hp

end Penguin.Pair
