/-
The datagram service on the SENDING side, for every history of one endpoint and ANY peer.

The only thing that ever puts a `Datagram` frame into the outbound queue is a `send_datagram` call that
returns `Ok` (`unit`), and it puts exactly one, carrying the four fields of the call.  The queue is FIFO
towards the transport; the wind-down after an error or a Close throws away what is still queued (the
connection is gone), the wind-down after the `Multiplexor` was dropped sends it first.
`DsT e e' evs W`: from `e` to `e'`, emitting `evs`, with `W` the datagrams accepted in between — the
`Datagram` frames handed to the transport followed by those still queued are a prefix of (queued before
++ W), and ARE (queued before ++ W) as long as the outbound queue is open; nothing is accepted once it
is closed.  Every function of the model satisfies it (same shape as `SnT` for `Push` frames).
Core Lean only.
-/
import Penguin.Lemmas.MuxReach
import Penguin.Lemmas.MuxStep

namespace Penguin.Mux


/-- The datagrams (all four fields) of the `Datagram` frames in a list of messages, in order. -/
def dgramsQ : List Msg → List Dgram
  | [] => []
  | .frame (.datagram fid port host d) :: r => { fid := fid, host := host, port := port, data := d } :: dgramsQ r
  | _ :: r => dgramsQ r

/-- The datagrams of the `Datagram` frames handed to the transport among a list of events, in order. -/
def dgramsEv : List Ev → List Dgram
  | [] => []
  | .wire (.frame (.datagram fid port host d)) :: r => { fid := fid, host := host, port := port, data := d } :: dgramsEv r
  | _ :: r => dgramsEv r

theorem dgramsQ_append (a b : List Msg) : dgramsQ (a ++ b) = dgramsQ a ++ dgramsQ b := by
  induction a with
  | nil => rfl
  | cons m r ih =>
    cases m with
    | frame f => cases f <;> simp [dgramsQ, ih]
    | ping => simpa [dgramsQ] using ih
    | pong => simpa [dgramsQ] using ih
    | close => simpa [dgramsQ] using ih

theorem dgramsEv_append (a b : List Ev) : dgramsEv (a ++ b) = dgramsEv a ++ dgramsEv b := by
  induction a with
  | nil => rfl
  | cons ev r ih =>
    cases ev with
    | wire m =>
      cases m with
      | frame f => cases f <;> simp [dgramsEv, ih]
      | ping => simpa [dgramsEv] using ih
      | pong => simpa [dgramsEv] using ih
      | close => simpa [dgramsEv] using ih
    | wireClose => simpa [dgramsEv] using ih
    | openDone r x => simpa [dgramsEv] using ih
    | bindDone r x => simpa [dgramsEv] using ih
    | exit x => simpa [dgramsEv] using ih

theorem dgramsEv_wires (l : List Msg) : dgramsEv (l.map Ev.wire) = dgramsQ l := by
  induction l with
  | nil => rfl
  | cons m r ih =>
    cases m with
    | frame f => cases f <;> simp [dgramsEv, dgramsQ, ih]
    | ping => simpa [dgramsEv, dgramsQ] using ih
    | pong => simpa [dgramsEv, dgramsQ] using ih
    | close => simpa [dgramsEv, dgramsQ] using ih

theorem dgramsEv_map_openDone (l : List OpenReq) (c : OpenRes) :
    dgramsEv (l.map (fun r => Ev.openDone r.req c)) = [] := by
  induction l with
  | nil => rfl
  | cons r rest ih => simpa [dgramsEv] using ih

/-- Not a `Datagram` frame. -/
def Msg.notDgram : Msg → Bool
  | .frame (.datagram _ _ _ _) => false
  | _ => true

theorem dgramsQ_snoc_other (q : List Msg) (m : Msg) (h : m.notDgram = true) : dgramsQ (q ++ [m]) = dgramsQ q := by
  rw [dgramsQ_append]
  cases m with
  | frame f => cases f <;> first | (simp [Msg.notDgram] at h; done) | simp [dgramsQ]
  | ping => simp [dgramsQ]
  | pong => simp [dgramsQ]
  | close => simp [dgramsQ]

/-! ### The relation -/

structure DsO (q : List Msg) (c : Bool) (q' : List Msg) (c' : Bool) (evs : List Ev) (W : List Dgram) : Prop where
  closed : c = true → c' = true
  pre : dgramsEv evs ++ dgramsQ q' <+: dgramsQ q ++ W
  eq : c' = false → dgramsEv evs ++ dgramsQ q' = dgramsQ q ++ W
  noW : c = true → W = []

def DsT (e e' : EP) (evs : List Ev) (W : List Dgram) : Prop :=
  DsO e.outq e.outClosed e'.outq e'.outClosed evs W

theorem DsT.silent {e e' : EP} {evs : List Ev} (hq : e'.outq = e.outq) (hc : e'.outClosed = e.outClosed)
    (hev : dgramsEv evs = []) : DsT e e' evs [] := by
  unfold DsT; rw [hq, hc]
  exact ⟨id, by simp [hev], fun _ => by simp [hev], fun _ => rfl⟩

theorem DsT.refl (e : EP) : DsT e e [] [] := DsT.silent rfl rfl rfl

theorem DsT.trans {a b c : EP} {ev1 ev2 : List Ev} {W1 W2 : List Dgram}
    (s : DsT a b ev1 W1) (t : DsT b c ev2 W2) : DsT a c (ev1 ++ ev2) (W1 ++ W2) := by
  refine ⟨fun h => t.closed (s.closed h), ?_, ?_, ?_⟩
  · rw [dgramsEv_append, List.append_assoc]
    cases hb : b.outClosed with
    | false =>
      have h1 := s.eq hb
      have h2 := t.pre
      rw [← List.append_assoc (dgramsQ a.outq), ← h1, List.append_assoc]
      exact (List.prefix_append_right_inj _).mpr h2
    | true =>
      have hw := t.noW hb
      have h2 := t.pre
      rw [hw, List.append_nil] at h2 ⊢
      exact ((List.prefix_append_right_inj _).mpr h2).trans s.pre
  · intro hc
    have hb : b.outClosed = false := by
      cases hb : b.outClosed with
      | false => rfl
      | true => rw [t.closed hb] at hc; cases hc
    rw [dgramsEv_append, List.append_assoc, t.eq hc, ← List.append_assoc, s.eq hb, List.append_assoc]
  · intro ha
    rw [s.noW ha, t.noW (s.closed ha)]; rfl

theorem DsT.after {a b c : EP} {ev1 ev2 : List Ev} {W1 W2 : List Dgram}
    (t : DsT b c ev2 W2) (s : DsT a b ev1 W1) : DsT a c (ev1 ++ ev2) (W1 ++ W2) := s.trans t

theorem DsT.evs {e e' : EP} {evs evs' : List Ev} {W W' : List Dgram} (s : DsT e e' evs W)
    (h : evs' = evs) (hw : W' = W) : DsT e e' evs' W' := by subst h hw; exact s

/-- Task-side composition: no writes. -/
theorem DsT.tr {a b c : EP} {ev1 ev2 : List Ev} (s : DsT a b ev1 []) (t : DsT b c ev2 []) : DsT a c (ev1 ++ ev2) [] :=
  (s.trans t).evs rfl rfl

theorem DsT.congr {e e' a a' : EP} {evs : List Ev} {W : List Dgram} (s : DsT e e' evs W)
    (h1q : a.outq = e.outq) (h1c : a.outClosed = e.outClosed) (h2q : a'.outq = e'.outq) (h2c : a'.outClosed = e'.outClosed) :
    DsT a a' evs W := by
  unfold DsT at *; rw [h1q, h1c, h2q, h2c]; exact s

/-- A state that differs from `e` in other fields than the outbound queue; events that are not wires. -/
macro "ds_silent" : tactic => `(tactic| exact DsT.silent rfl rfl rfl)

theorem DsT.modObj (e : EP) (i : Nat) (f : Obj → Obj) : DsT e (e.modObj i f) [] [] := by ds_silent

theorem DsT.enq (e : EP) (m : Msg) (h : m.notDgram = true) : DsT e (e.enq m) [] [] := by
  unfold EP.enq; split
  · exact DsT.refl e
  · refine ⟨id, ?_, fun _ => ?_, fun _ => rfl⟩
    · show dgramsEv [] ++ dgramsQ (e.outq ++ [m]) <+: dgramsQ e.outq ++ []
      rw [dgramsQ_snoc_other _ _ h]; simp [dgramsEv]
    · show dgramsEv [] ++ dgramsQ (e.outq ++ [m]) = dgramsQ e.outq ++ []
      rw [dgramsQ_snoc_other _ _ h]; simp [dgramsEv]

theorem DsT.enqFrame (e : EP) (f : Frame) (h : (Msg.frame f).notDgram = true) : DsT e (e.enqFrame f) [] [] :=
  DsT.enq e _ h

theorem DsT.enqFrame' {e e' : EP} (f : Frame) (h : (Msg.frame f).notDgram = true)
    (hq : e'.outq = e.outq) (hc : e'.outClosed = e.outClosed) : DsT e (e'.enqFrame f) [] [] :=
  (DsT.enqFrame e' f h).congr hq.symm hc.symm rfl rfl

/-- The send path: one `Datagram` is queued while the queue is open. -/
theorem DsT.enqDgram (e : EP) (d : Dgram) (hc : e.outClosed = false) :
    DsT e (e.enqFrame (.datagram d.fid d.port d.host d.data)) [] [d] := by
  unfold EP.enqFrame EP.enq
  rw [hc]
  simp only [Bool.false_eq_true, if_false]
  refine ⟨fun h => (by rw [hc] at h; cases h), ?_, fun _ => ?_, fun h => (by rw [hc] at h; cases h)⟩
  · show dgramsEv [] ++ dgramsQ (e.outq ++ [.frame (.datagram d.fid d.port d.host d.data)]) <+: dgramsQ e.outq ++ [d]
    rw [dgramsQ_append]; simp [dgramsEv, dgramsQ]
  · show dgramsEv [] ++ dgramsQ (e.outq ++ [.frame (.datagram d.fid d.port d.host d.data)]) = dgramsQ e.outq ++ [d]
    rw [dgramsQ_append]; simp [dgramsEv, dgramsQ]

/-- The outbound queue is closed; what it held may be thrown away. -/
theorem DsT.close {e e' : EP} (hc : e'.outClosed = true) (hq : dgramsQ e'.outq <+: dgramsQ e.outq) :
    DsT e e' [] [] :=
  ⟨fun _ => hc, (by simpa [dgramsEv] using hq), fun h => (by rw [hc] at h; cases h), fun _ => rfl⟩

/-! ### Function by function -/

theorem DsT.openRound (e : EP) (r : OpenReq) : DsT e (openRound e r).1 (openRound e r).2 [] := by
  unfold Mux.openRound
  split
  · ds_silent
  · split
    · ds_silent
    · simp only
      split
      · ds_silent
      · exact DsT.enqFrame' _ rfl rfl rfl

theorem DsT.openRejected (e : EP) (req : Nat) (final : Bool) :
    DsT e (openRejected e req final).1 (openRejected e req final).2 [] := by
  unfold Mux.openRejected
  repeat' split
  all_goals ds_silent

theorem DsT.closeLocal (e : EP) (s : Slot) (fid : Nat) (inh final : Bool) :
    DsT e (closeLocal e s fid inh final).1 (closeLocal e s fid inh final).2 [] := by
  unfold Mux.closeLocal
  cases s with
  | established i =>
    simp only
    cases ho : e.obj? i with
    | none => exact DsT.refl e
    | some o =>
      simp only
      split
      · exact DsT.enqFrame' _ rfl rfl rfl
      · ds_silent
  | requested req => exact DsT.openRejected e req final
  | bindRequested req => ds_silent

theorem DsT.closeFlow (e : EP) (fid : Nat) (inh : Bool) : DsT e (closeFlow e fid inh).1 (closeFlow e fid inh).2 [] := by
  unfold Mux.closeFlow
  split
  · exact DsT.refl e
  · exact (DsT.closeLocal { e with flows := erase e.flows fid } _ _ _ _).congr rfl rfl rfl rfl

theorem DsT.offerAccept (e : EP) (i : Nat) : DsT e (offerAccept e i) [] [] := by
  unfold Mux.offerAccept; split <;> ds_silent

theorem DsT.offerBind (e : EP) (b : BindIn) : DsT e (offerBind e b) [] [] := by
  unfold Mux.offerBind; split <;> ds_silent

/-- `process_frame` never queues a `Datagram` (it answers with `Reset` or `Acknowledge` only). -/
theorem DsT.processFrame (e : EP) (f : Frame) (ig : Bool) :
    DsT e (processFrame e f ig).1 (processFrame e f ig).2.1 [] := by
  cases f with
  | connect fid rwnd port host =>
    simp only [Mux.processFrame]
    split
    · exact DsT.enqFrame _ _ rfl
    · have g : DsT e (EP.enqFrame { e with objs := e.objs ++ [newObj e.opts fid rwnd host port], flows := insert e.flows fid (.established e.objs.length) }
          (.acknowledge fid e.opts.rwnd)) [] [] :=
        DsT.enqFrame' _ rfl rfl rfl
      split
      · ds_silent
      · split
        · exact g.tr (DsT.silent rfl rfl rfl)
        · exact g.tr (DsT.offerAccept _ _)
  | acknowledge fid n =>
    simp only [Mux.processFrame]
    split
    · ds_silent
    · split
      · ds_silent
      · ds_silent
    · exact DsT.enqFrame _ _ rfl
    · exact DsT.enqFrame _ _ rfl
  | finish fid =>
    simp only [Mux.processFrame]
    split
    · exact DsT.enqFrame _ _ rfl
    · ds_silent
    · rename_i req _
      have g : DsT e (EP.enqFrame { e with flows := erase e.flows fid, opens := e.opens.filter (·.req ≠ req) } (.reset fid)) [] [] :=
        DsT.enqFrame' _ rfl rfl rfl
      refine (g.tr (DsT.silent rfl rfl ?_)).evs (List.nil_append _).symm rfl
      split <;> rfl
    · ds_silent
  | reset fid =>
    simp only [Mux.processFrame]
    exact DsT.closeFlow e fid true
  | push fid d =>
    simp only [Mux.processFrame]
    split
    · split
      · exact DsT.refl e
      · split
        · exact DsT.enqFrame _ _ rfl
        · split
          · exact DsT.refl e
          · split
            · ds_silent
            · exact DsT.closeFlow e fid false
    · exact DsT.enqFrame _ _ rfl
  | bind fid bt port host =>
    simp only [Mux.processFrame]
    repeat' split
    all_goals first | exact DsT.refl e | exact DsT.enqFrame _ _ rfl | exact DsT.offerBind _ _
  | datagram fid port host d =>
    simp only [Mux.processFrame]
    repeat' split
    all_goals first | exact DsT.refl e | ds_silent

theorem DsT.processIn (e : EP) (w : WsIn) (ig : Bool) : DsT e (processIn e w ig).1 (processIn e w ig).2.1 [] := by
  cases w with
  | msg m => cases m <;> first | exact DsT.processFrame _ _ ig | exact DsT.refl e
  | bad b => exact DsT.refl e
  | err => exact DsT.refl e
  | eof => exact DsT.refl e

/-! ### Wind-down -/

theorem DsT.windDownInbox (e : EP) (l : List WsIn) : DsT e (windDownInbox e l).1 (windDownInbox e l).2.1 [] := by
  induction l generalizing e with
  | nil => ds_silent
  | cons w l ih =>
    cases w with
    | err => ds_silent
    | eof => ds_silent
    | msg m =>
      simp only [Mux.windDownInbox]
      exact (DsT.processIn e (.msg m) true).tr ((ih _).congr rfl rfl rfl rfl)
    | bad b =>
      simp only [Mux.windDownInbox]
      exact (DsT.processIn e (.bad b) true).tr ((ih _).congr rfl rfl rfl rfl)

theorem DsT.drainFlows (e : EP) (l : List (Nat × Slot)) : DsT e (drainFlows e l).1 (drainFlows e l).2 [] := by
  induction l generalizing e with
  | nil => ds_silent
  | cons p l ih =>
    obtain ⟨fid, s⟩ := p
    simp only [Mux.drainFlows]
    exact (DsT.closeLocal e s fid true true).tr (ih _)

theorem DsT.windDownFinish (e : EP) (res : ExitRes) : DsT e (windDownFinish e res).1 (windDownFinish e res).2 [] := by
  have g1 := (DsT.drainFlows { e with flows := [] } e.flows).congr (a := e) rfl rfl rfl rfl
  simp only [Mux.windDownFinish]
  have g2 : DsT (Mux.drainFlows { e with flows := [] } e.flows).1 (Mux.drainFlows { e with flows := [] } e.flows).1
      ((((Mux.drainFlows { e with flows := [] } e.flows).1.opens.filter
          (fun r => !(Mux.drainFlows { e with flows := [] } e.flows).1.retryq.contains r.req)).map
          (fun r => Ev.openDone r.req .closed)) ++ [.exit res]) [] :=
    DsT.silent rfl rfl (by rw [dgramsEv_append, dgramsEv_map_openDone]; rfl)
  exact ((g1.tr g2).evs (by simp [List.append_assoc]) rfl).congr rfl rfl rfl rfl

/-- The tail of the wind-down: its events start with the `flushed` ones it was given. -/
theorem DsT.windDownTail (e1 : EP) (flushed : List Ev) (srcEnded : Bool) (res : ExitRes) :
    ∃ evs, (windDownTail e1 flushed srcEnded res).2 = flushed ++ evs ∧
      DsT e1 (windDownTail e1 flushed srcEnded res).1 evs [] := by
  have g0 : DsT e1 e1 [Ev.wireClose] [] := DsT.silent rfl rfl rfl
  have g1 := g0.tr (DsT.windDownInbox e1 e1.inbox)
  simp only [Mux.windDownTail]
  split
  · exact ⟨_, by simp [List.append_assoc],
      g1.tr ((DsT.windDownFinish { (Mux.windDownInbox e1 e1.inbox).1 with inbox := [] } res).congr rfl rfl rfl rfl)⟩
  · exact ⟨_, by simp [List.append_assoc], g1.congr rfl rfl rfl rfl⟩

/-- The send path: a prefix of the queue goes to the transport, in order. -/
theorem DsT.sendSome (e : EP) : DsT e (sendSome e).1 (sendSome e).2 [] := by
  unfold Mux.sendSome
  split
  · refine ⟨id, ?_, fun _ => ?_, fun _ => rfl⟩
    · show dgramsEv (e.outq.map Ev.wire) ++ dgramsQ [] <+: dgramsQ e.outq ++ []
      rw [dgramsEv_wires]; simp [dgramsQ]
    · show dgramsEv (e.outq.map Ev.wire) ++ dgramsQ [] = dgramsQ e.outq ++ []
      rw [dgramsEv_wires]; simp [dgramsQ]
  · rename_i n _
    have h : dgramsEv ((e.outq.take n).map Ev.wire) ++ dgramsQ (e.outq.drop n) = dgramsQ e.outq ++ [] := by
      rw [dgramsEv_wires, ← dgramsQ_append, List.take_append_drop, List.append_nil]
    exact ⟨id, by show _ <+: _; rw [h]; exact List.prefix_refl _, fun _ => h, fun _ => rfl⟩

theorem DsT.dropPrep (e : EP) : DsT e (dropPrep e) [] [] :=
  DsT.close rfl (by show dgramsQ (disallowAll e e.flows).outq <+: _; rw [disallowAll_outq e e.flows]; exact List.prefix_refl _)

theorem DsT.windDownPrep (e : EP) : DsT e (windDownPrep e) [] [] :=
  DsT.close rfl (List.nil_prefix)

theorem DsT.windDown (e : EP) (drain : Bool) (res : ExitRes) :
    DsT e (windDown e drain res).1 (windDown e drain res).2 [] := by
  simp only [Mux.windDown]
  split
  · have g := (DsT.dropPrep e).tr (DsT.sendSome _)
    split
    · obtain ⟨evs, h1, h2⟩ := DsT.windDownTail (Mux.sendSome (Mux.dropPrep e)).1 (Mux.sendSome (Mux.dropPrep e)).2 e.srcEnded res
      rw [h1]
      exact (g.tr h2).evs (by simp) rfl
    · exact (g.evs (by simp) rfl).congr rfl rfl rfl rfl
  · obtain ⟨evs, h1, h2⟩ := DsT.windDownTail (Mux.windDownPrep e) [] e.srcEnded res
    rw [h1]
    exact ((DsT.windDownPrep e).tr h2).evs (by simp) rfl

/-! ### The task's loops -/

theorem DsT.unpark (e : EP) : DsT e (unpark e) [] [] := by
  unfold Mux.unpark
  split
  · exact DsT.refl e
  · split
    · split
      · ds_silent
      · ds_silent
    · split
      · ds_silent
      · exact DsT.refl e
  · split
    · exact DsT.enqFrame' _ rfl rfl rfl
    · split
      · ds_silent
      · exact DsT.refl e

theorem DsT.drainStep (e : EP) (res : ExitRes) : DsT e (drainStep e res).1 (drainStep e res).2 [] := by
  simp only [Mux.drainStep]
  split
  · obtain ⟨evs, h1, h2⟩ := DsT.windDownTail { (Mux.sendSome e).1 with draining := none } (Mux.sendSome e).2 e.srcEnded res
    rw [h1]
    exact (DsT.sendSome e).tr (h2.congr rfl rfl rfl rfl)
  · exact DsT.sendSome e

theorem DsT.closingStep (e : EP) (res : ExitRes) : DsT e (closingStep e res).1 (closingStep e res).2 [] := by
  have g := DsT.windDownInbox e e.inbox
  simp only [Mux.closingStep]
  split
  · exact g.tr ((DsT.windDownFinish { (Mux.windDownInbox e e.inbox).1 with inbox := [] } res).congr rfl rfl rfl rfl)
  · exact g.congr rfl rfl rfl rfl

theorem DsT.recvOne (e : EP) (w : WsIn) (rest : List WsIn) : DsT e (recvOne e w rest).1 (recvOne e w rest).2.1 [] := by
  simp only [Mux.recvOne]
  refine (DsT.processIn _ w false).congr ?_ ?_ rfl rfl
  · split <;> rfl
  · split <;> rfl

theorem DsT.settleLoop (fuel : Nat) (e : EP) (acc : List Ev) :
    ∃ evs, (settleLoop fuel e acc).2 = acc ++ evs ∧ DsT e (settleLoop fuel e acc).1 evs [] := by
  induction fuel generalizing e acc with
  | zero => exact ⟨[], by simp [Mux.settleLoop], DsT.refl e⟩
  | succ n ih =>
    unfold Mux.settleLoop
    split
    · exact ⟨[], by simp, DsT.refl e⟩
    · split
      · exact ⟨_, rfl, DsT.drainStep _ _⟩
      · split
        · exact ⟨_, rfl, DsT.closingStep _ _⟩
        · have gu := DsT.unpark e
          split
          · rename_i w rest _ _
            have gp := (gu.tr (DsT.recvOne (Mux.unpark e) w rest)).evs (List.nil_append _).symm rfl
            split
            · exact ⟨_, by rw [List.append_assoc], gp.tr (DsT.windDown _ _ _)⟩
            · obtain ⟨evs, h1, h2⟩ := ih (Mux.recvOne (Mux.unpark e) w rest).1 (acc ++ (Mux.recvOne (Mux.unpark e) w rest).2.1)
              exact ⟨(Mux.recvOne (Mux.unpark e) w rest).2.1 ++ evs, by rw [h1, List.append_assoc], gp.tr h2⟩
          · split
            · rename_i rest _
              exact ⟨_, rfl, (gu.tr ((DsT.windDown { Mux.unpark e with droppedq := rest } true .ok).congr rfl rfl rfl rfl)).evs
                (List.nil_append _).symm rfl⟩
            · rename_i fid rest _ hq
              have gc := (gu.tr ((DsT.closeFlow { Mux.unpark e with droppedq := rest } fid false).congr
                (a := Mux.unpark e) rfl rfl rfl rfl)).evs (List.nil_append _).symm rfl
              obtain ⟨evs, h1, h2⟩ := ih (Mux.closeFlow { Mux.unpark e with droppedq := rest } fid false).1
                (acc ++ (Mux.closeFlow { Mux.unpark e with droppedq := rest } fid false).2)
              exact ⟨(Mux.closeFlow { Mux.unpark e with droppedq := rest } fid false).2 ++ evs, by rw [h1, List.append_assoc], gc.tr h2⟩
            · exact ⟨[], by simp, gu⟩

theorem DsT.runRetries (e : EP) (l : List Nat) : DsT e (runRetries e l).1 (runRetries e l).2 [] := by
  induction l generalizing e with
  | nil => ds_silent
  | cons req rest ih =>
    unfold Mux.runRetries
    split
    · exact ih e
    · rename_i r hr
      exact (DsT.openRound e r).tr (ih _)

theorem DsT.runDone (e : EP) (l : List (Nat × Nat)) : DsT e (runDone e l).1 (runDone e l).2 [] := by
  induction l generalizing e with
  | nil => ds_silent
  | cons x rest ih =>
    obtain ⟨req, i⟩ := x
    unfold Mux.runDone
    have g : DsT e { e with handles := e.handles ++ [i] } [Ev.openDone req (.ok e.handles.length)] [] := by ds_silent
    exact (g.tr (ih _)).evs rfl rfl

theorem DsT.hold (e : EP) (c : Bool) :
    DsT e (if c then (e, ([] : List Ev)) else Mux.sendSome e).1 (if c then (e, ([] : List Ev)) else Mux.sendSome e).2 [] := by
  split
  · ds_silent
  · exact DsT.sendSome e

theorem DsT.settle (e : EP) : DsT e (settle e).1 (settle e).2 [] := by
  obtain ⟨evs, h1, h2⟩ := DsT.settleLoop (2 * e.inbox.length + e.droppedq.length + 2) e []
  unfold Mux.settle
  generalize Mux.settleLoop (2 * e.inbox.length + e.droppedq.length + 2) e [] = r1 at h1 h2
  obtain ⟨e1, evs1⟩ := r1
  simp only at h1 h2 ⊢
  simp only [List.nil_append] at h1
  subst h1
  have s1 := DsT.hold e1 (e1.dead || e1.draining.isSome)
  generalize (if (e1.dead || e1.draining.isSome) = true then (e1, ([] : List Ev)) else Mux.sendSome e1) = r2 at s1
  obtain ⟨e2, w2⟩ := r2
  simp only at s1 ⊢
  have s2 : DsT e2 (Mux.runDone { e2 with doneq := [] } (e2.doneq.foldr insertDone [])).1
      (Mux.runDone { e2 with doneq := [] } (e2.doneq.foldr insertDone [])).2 [] :=
    (DsT.runDone { e2 with doneq := [] } _).congr rfl rfl rfl rfl
  generalize Mux.runDone { e2 with doneq := [] } (e2.doneq.foldr insertDone []) = r3 at s2
  obtain ⟨e3, w3⟩ := r3
  simp only at s2 ⊢
  have s3 : DsT e3 (Mux.runRetries { e3 with retryq := [] } (sortNat e3.retryq)).1
      (Mux.runRetries { e3 with retryq := [] } (sortNat e3.retryq)).2 [] :=
    (DsT.runRetries { e3 with retryq := [] } (sortNat e3.retryq)).congr rfl rfl rfl rfl
  generalize Mux.runRetries { e3 with retryq := [] } (sortNat e3.retryq) = r4 at s3
  obtain ⟨e4, w4⟩ := r4
  simp only at s3 ⊢
  have s4 := DsT.hold e4 (e4.dead || e4.draining.isSome)
  exact ((((h2.tr s1).tr s2).tr s3).tr s4).evs (by simp [List.append_assoc]) rfl



/-- The datagram a stimulus hands to the endpoint for sending: the argument of a `send_datagram` call
    that answered `Ok` (`unit`).  Every other call, and a refused `send_datagram`, sends none. -/
def sentDg (op : Op) (r : Res) : List Dgram :=
  match op, r with
  | .sendDgram d, .unit => [d]
  | _, _ => []

theorem DsT.appWrite (e : EP) (h : Nat) (d : Bytes) : DsT e (appWrite e h d).1 [] [] := by
  unfold Mux.appWrite
  split
  · exact DsT.refl e
  · split
    · ds_silent
    · split
      · ds_silent
      · split
        · ds_silent
        · split
          · ds_silent
          · exact DsT.enqFrame' _ rfl rfl rfl

theorem DsT.ackStep (e : EP) (i : Nat) (o : Obj) : DsT e (ackStep e i o) [] [] := by
  unfold Mux.ackStep
  split
  · exact DsT.enqFrame' _ rfl rfl rfl
  · ds_silent

theorem DsT.fillBuf (fuel : Nat) (e : EP) (i : Nat) : DsT e (fillBuf fuel e i).1 [] [] := by
  induction fuel generalizing e with
  | zero => exact DsT.refl e
  | succ n ih =>
    unfold Mux.fillBuf
    split
    · exact DsT.refl e
    · split
      · exact DsT.refl e
      · split
        · rename_i _ o ho _ _ f rest hq
          have s := (DsT.modObj e i (fun o => { o with rxq := rest, buf := f })).tr
            (DsT.ackStep _ i { o with rxq := rest, buf := f })
          simp only
          split
          · exact s.tr (ih _)
          · exact s
        · split
          · exact DsT.refl e
          · ds_silent

theorem DsT.appRead (e : EP) (h n : Nat) : DsT e (appRead e h n).1 [] [] := by
  unfold Mux.appRead
  split
  · exact DsT.refl e
  · rename_i i o _
    have s := DsT.fillBuf (o.rxq.length + 2) e i
    split
    · rename_i e' b heq
      rw [heq] at s
      exact s.tr (DsT.modObj _ _ _)
    · exact s

theorem DsT.appShutdown (e : EP) (h : Nat) : DsT e (appShutdown e h).1 [] [] := by
  unfold Mux.appShutdown
  split
  · exact DsT.refl e
  · split
    · ds_silent
    · exact DsT.enqFrame' _ rfl rfl rfl

theorem DsT.appDropStream (e : EP) (h : Nat) : DsT e (appDropStream e h).1 [] [] := by
  unfold Mux.appDropStream
  split
  · exact DsT.refl e
  · simp only
    split <;> ds_silent

theorem DsT.appAccept (e : EP) : DsT e (appAccept e).1 [] [] := by
  unfold Mux.appAccept
  split
  · split
    · ds_silent
    · exact DsT.refl e
  · split <;> exact DsT.refl e

theorem DsT.appSendDgram (e : EP) (d : Dgram) :
    DsT e (appSendDgram e d).1 [] (sentDg (.sendDgram d) (appSendDgram e d).2) := by
  unfold Mux.appSendDgram
  split
  · exact DsT.refl e
  · split
    · exact DsT.refl e
    · rename_i hoc
      have hoc' : e.outClosed = false := by simpa using hoc
      exact DsT.enqDgram e d hoc'

theorem DsT.appRecvDgram (e : EP) : DsT e (appRecvDgram e).1 [] [] := by
  unfold Mux.appRecvDgram
  split
  · ds_silent
  · split <;> exact DsT.refl e

theorem DsT.appBindReq (e : EP) (req : Nat) (bt : BindType) (host : Bytes) (port : Nat) :
    DsT e (appBindReq e req bt host port).1 (appBindReq e req bt host port).2 [] := by
  unfold Mux.appBindReq
  split
  · ds_silent
  · split
    · ds_silent
    · exact DsT.enqFrame' _ rfl rfl rfl

theorem DsT.appBindNext (e : EP) : DsT e (appBindNext e).1 [] [] := by
  unfold Mux.appBindNext
  split
  · exact DsT.refl e
  · split
    · ds_silent
    · split <;> exact DsT.refl e

theorem DsT.appBindReply (e : EP) (k : Nat) (a : Bool) : DsT e (appBindReply e k a).1 [] [] := by
  unfold Mux.appBindReply
  split
  · exact DsT.refl e
  · split
    · exact DsT.refl e
    · split
      · exact DsT.refl e
      · rename_i b _ _ _
        have g : DsT e (e.enqFrame (if a then .finish b.fid else .reset b.fid)) [] [] :=
          DsT.enqFrame e _ (by cases a <;> rfl)
        exact g.congr rfl rfl rfl rfl

theorem DsT.appBindDrop (e : EP) (k : Nat) : DsT e (appBindDrop e k).1 [] [] := by
  unfold Mux.appBindDrop
  split
  · exact DsT.refl e
  · split
    · exact DsT.refl e
    · simp only
      split
      · ds_silent
      · exact DsT.enqFrame' _ rfl rfl rfl

theorem DsT.foldEnq (l : List BindIn) (e : EP) :
    DsT e (l.foldl (fun e b => e.enqFrame (.reset b.fid)) e) [] [] := by
  induction l generalizing e with
  | nil => exact DsT.refl e
  | cons b rest ih => exact (DsT.enqFrame e _ rfl).tr (ih _)

theorem DsT.appDropMux (e : EP) : DsT e (appDropMux e).1 [] [] := by
  unfold Mux.appDropMux
  simp only
  have s1 : DsT e { e with muxAlive := false, droppedq := if e.dead then e.droppedq else e.droppedq ++ [0] } [] [] := by ds_silent
  exact ((s1.tr (DsT.foldEnq e.bindq _)).congr rfl rfl rfl rfl)

theorem sentDg_not_send (op : Op) (r : Res) (h : ∀ d, op ≠ .sendDgram d) : sentDg op r = [] := by
  cases op <;> first | rfl | exact absurd rfl (h _)

/-- Every application call. -/
theorem DsT.opStep (e : EP) (op : Op) :
    DsT e (opStep e op).1 (opStep e op).2.2 (sentDg op (opStep e op).2.1) := by
  cases op with
  | «open» req host port =>
    simp only [Mux.opStep]
    split
    · exact DsT.refl e
    · exact DsT.openRound e _
  | accept => exact DsT.appAccept e
  | write h d => exact DsT.appWrite e h d
  | read h n => exact DsT.appRead e h n
  | shutdown h => exact DsT.appShutdown e h
  | dropStream h => exact DsT.appDropStream e h
  | sendDgram d => exact DsT.appSendDgram e d
  | recvDgram => exact DsT.appRecvDgram e
  | bindReq req bt host port => exact DsT.appBindReq e req bt host port
  | bindNext => exact DsT.appBindNext e
  | bindReply k a => exact DsT.appBindReply e k a
  | bindDrop k => exact DsT.appBindDrop e k
  | dropMux => exact DsT.appDropMux e
  | sinkRoom n => ds_silent
  | cancelOpen req => ds_silent
  | deliver w =>
    simp only [Mux.opStep]
    split
    · exact DsT.refl e
    · split <;> ds_silent

/-- Every stimulus: the call, then the task's run to quiescence. -/
theorem DsT.applyOp (e : EP) (op : Op) :
    DsT e (applyOp e op).1 (applyOp e op).2.2 (sentDg op (applyOp e op).2.1) := by
  have h1 := DsT.opStep e op
  unfold Mux.applyOp
  generalize Mux.opStep e op = r at h1
  obtain ⟨e1, r1, evs1⟩ := r
  exact (h1.trans (DsT.settle e1)).evs rfl (by simp)

end Penguin.Mux
