/-
One direction of the bind-request traffic between two endpoints, abstracted from the pair
(`Model/BindPair`): the requester's flow table, the `Bind` frames on their way, the answerer's parked
hand-over, bind queue and held `BindRequest`s, the answers (`Finish`/`Reset`) on their way back, and
the ghost history.  `DirCore` is the invariant; each `Dir.*` move is what one action of the pair does
to one direction, and preserves it.  `Lemmas/BindPair.lean` shows that the pair's actions are these
moves.  Core Lean only.
-/
import Penguin.Model.BindPair
import Penguin.Lemmas.MuxBasic

namespace Penguin.BindPair
open Penguin.Mux

/-- The owner of flow id `x` in a flow table. -/
def ownerF (m : List (Nat × Slot)) (x : Nat) : Option Nat :=
  match lookup m x with
  | some (.bindRequested req) => some req
  | _ => none

theorem owner_eq (e : EP) (x : Nat) : owner e x = ownerF e.flows x := rfl

theorem ownerF_insert_self (m : List (Nat × Slot)) (x r : Nat) : ownerF (insert m x (.bindRequested r)) x = some r := by
  unfold ownerF; rw [lookup_insert_self]

theorem ownerF_insert_ne (m : List (Nat × Slot)) (x y : Nat) (v : Slot) (h : y ≠ x) : ownerF (insert m x v) y = ownerF m y := by
  unfold ownerF; rw [lookup_insert_ne m x y v h]

theorem ownerF_erase_self (m : List (Nat × Slot)) (x : Nat) : ownerF (erase m x) x = none := by
  unfold ownerF; rw [lookup_erase_self]

theorem ownerF_erase_ne (m : List (Nat × Slot)) (x y : Nat) (h : y ≠ x) : ownerF (erase m x) y = ownerF m y := by
  unfold ownerF; rw [lookup_erase_ne m x y h]

theorem ownerF_erase_some {m : List (Nat × Slot)} {x y r : Nat} (h : ownerF (erase m x) y = some r) : y ≠ x ∧ ownerF m y = some r := by
  by_cases hy : y = x
  · subst hy; rw [ownerF_erase_self] at h; cases h
  · exact ⟨hy, by rw [← ownerF_erase_ne m x y hy]; exact h⟩

theorem ownerF_none_of_lookup {m : List (Nat × Slot)} {x : Nat} (h : lookup m x = none) : ownerF m x = none := by
  unfold ownerF; rw [h]

def _root_.Penguin.Mux.BindIn.pending (b : BindIn) : Bool := b.alive && !b.replied

/-- Flow ids of the held `BindRequest`s that still await the application's decision. -/
def pendHeld : List BindIn → List Nat
  | [] => []
  | b :: r => if b.pending then b.fid :: pendHeld r else pendHeld r

theorem pendHeld_append (l : List BindIn) (c : BindIn) :
    pendHeld (l ++ [c]) = pendHeld l ++ (if c.pending then [c.fid] else []) := by
  induction l with
  | nil => simp [pendHeld]
  | cons b r ih =>
    simp only [List.cons_append, pendHeld, ih]
    split <;> simp

theorem count_pendHeld_modify (l : List BindIn) (k : Nat) (f : BindIn → BindIn) (b : BindIn)
    (h : l[k]? = some b) (hp : b.pending = true) (hf : (f b).pending = false) (x : Nat) :
    (pendHeld (l.modify k f)).count x + (if b.fid = x then 1 else 0) = (pendHeld l).count x := by
  induction l generalizing k with
  | nil => simp at h
  | cons c r ih =>
    cases k with
    | zero =>
      simp only [List.getElem?_cons_zero, Option.some.injEq] at h
      subst h
      simp only [List.modify_zero_cons, pendHeld, hf, hp, if_true, List.count_cons]
      simp only [Bool.false_eq_true, if_false, beq_iff_eq]
    | succ k =>
      simp only [List.getElem?_cons_succ] at h
      simp only [List.modify_succ_cons, pendHeld]
      have := ih k h
      split
      · simp only [List.count_cons]; omega
      · exact this

theorem getElem?_modify_self (l : List BindIn) (k : Nat) (f : BindIn → BindIn) (b : BindIn) (h : l[k]? = some b) :
    (l.modify k f)[k]? = some (f b) := by
  rw [List.getElem?_modify]; simp [h]

theorem getElem?_modify_other (l : List BindIn) (k k' : Nat) (f : BindIn → BindIn) (h : k ≠ k') :
    (l.modify k f)[k']? = l[k']? := by
  rw [List.getElem?_modify]; simp [h]

/-- One direction. -/
structure Dir where
  flows : List (Nat × Slot)        -- the requester's flow table
  reqs : List BindIn := []         -- `Bind` frames on their way (queued at the requester or on the wire), oldest first
  park : Option BindIn := none     -- the answerer's receive loop is parked on this request (bind queue full)
  bindq : List BindIn := []        -- the answerer's bind queue
  held : List BindIn := []         -- `BindRequest`s handed to the answerer's application, by number
  anss : List (Nat × Bool) := []   -- answers on their way back: (flow id, `Finish`?) — `Reset` otherwise
  cap : Nat                        -- the answerer's `bind_buffer_size`
  asked : List Asked := []
  results : List (Nat × BindRes) := []
  links : List (Nat × Nat) := []
  accepted : List Nat := []
  rejected : List Nat := []

def parkL : Option BindIn → List BindIn
  | some b => [b]
  | none => []

/-- The flow ids that are somewhere between request and resolution, with multiplicity. -/
def Dir.toks (d : Dir) : List Nat :=
  d.reqs.map (·.fid) ++ (parkL d.park).map (·.fid) ++ d.bindq.map (·.fid) ++ pendHeld d.held ++ d.anss.map (·.1)

def recOf (req : Nat) (c : BindIn) : Asked := { req := req, fid := c.fid, bt := c.bt, host := c.host, port := c.port }

/-- What an answer on its way means. -/
def AnsOk (d : Dir) (req : Nat) (acc : Bool) : Prop :=
  if acc then ∃ k, (req, k) ∈ d.links ∧ k ∈ d.accepted
  else d.cap = 0 ∨ ∃ k, (req, k) ∈ d.links ∧ k ∈ d.rejected

structure DirCore (d : Dir) : Prop where
  /-- every requested id is at exactly one place between request and resolution; no other id is anywhere -/
  cnt : ∀ x, d.toks.count x = if (ownerF d.flows x).isSome then 1 else 0
  /-- a request on its way carries what its owner asked for, and is untouched -/
  fld : ∀ c ∈ d.reqs ++ parkL d.park ++ d.bindq, (c.alive = true ∧ c.replied = false) ∧
          ∀ req, ownerF d.flows c.fid = some req → recOf req c ∈ d.asked
  /-- a held request awaiting its decision is linked to its owner -/
  lnk : ∀ k b, d.held[k]? = some b → b.pending = true → ∀ req, ownerF d.flows b.fid = some req → (req, k) ∈ d.links
  /-- a link names a held request that shows what the linked request asked for -/
  lkf : ∀ req k, (req, k) ∈ d.links → ∃ b, d.held[k]? = some b ∧ recOf req b ∈ d.asked
  /-- every held request is linked -/
  lka : ∀ k, k < d.held.length → ∃ req, (req, k) ∈ d.links
  ans : ∀ x acc, (x, acc) ∈ d.anss → ∀ req, ownerF d.flows x = some req → AnsOk d req acc
  res : ∀ req, ((req, BindRes.accepted) ∈ d.results → AnsOk d req true) ∧
               ((req, BindRes.refused) ∈ d.results → AnsOk d req false)
  dec : d.accepted.Nodup ∧ d.rejected.Nodup ∧ (∀ k ∈ d.accepted, k ∉ d.rejected) ∧
        ∀ k ∈ d.accepted ++ d.rejected, ∃ b, d.held[k]? = some b ∧ b.pending = false
  own : ∀ x req, ownerF d.flows x = some req → req ∈ d.asked.map (·.req)

theorem AnsOk.mono {d d' : Dir} {req : Nat} {acc : Bool} (h : AnsOk d req acc)
    (hl : ∀ x, x ∈ d.links → x ∈ d'.links) (ha : ∀ k, k ∈ d.accepted → k ∈ d'.accepted)
    (hr : ∀ k, k ∈ d.rejected → k ∈ d'.rejected) (hc : d'.cap = d.cap) : AnsOk d' req acc := by
  unfold AnsOk at *
  cases acc with
  | true =>
    simp only [if_true] at *
    obtain ⟨k, h1, h2⟩ := h
    exact ⟨k, hl _ h1, ha _ h2⟩
  | false =>
    simp only [Bool.false_eq_true, if_false] at *
    rcases h with h | ⟨k, h1, h2⟩
    · exact Or.inl (by rw [hc]; exact h)
    · exact Or.inr ⟨k, hl _ h1, hr _ h2⟩

/-- A flow id that is nowhere has no owner, and vice versa. -/
theorem DirCore.not_mem_of_no_owner {d : Dir} (h : DirCore d) {x : Nat} (hx : ownerF d.flows x = none) : x ∉ d.toks := by
  have := h.cnt x
  rw [hx] at this
  simp only [Option.isSome_none, Bool.false_eq_true, if_false] at this
  exact List.count_eq_zero.mp this

theorem DirCore.owner_of_mem {d : Dir} (h : DirCore d) {x : Nat} (hx : x ∈ d.toks) : ∃ req, ownerF d.flows x = some req := by
  cases ho : ownerF d.flows x with
  | none => exact absurd hx (h.not_mem_of_no_owner ho)
  | some r => exact ⟨r, rfl⟩

end Penguin.BindPair

namespace Penguin.BindPair
open Penguin.Mux

theorem mem_pendHeld {l : List BindIn} {k : Nat} {b : BindIn} (h : l[k]? = some b) (hp : b.pending = true) : b.fid ∈ pendHeld l := by
  induction l generalizing k with
  | nil => simp at h
  | cons c r ih =>
    cases k with
    | zero =>
      simp only [List.getElem?_cons_zero, Option.some.injEq] at h
      subst h
      simp [pendHeld, hp]
    | succ k =>
      simp only [List.getElem?_cons_succ] at h
      have := ih h
      unfold pendHeld
      split
      · exact List.mem_cons_of_mem _ this
      · exact this

theorem Dir.mem_toks_carrier {d : Dir} {c : BindIn} (hc : c ∈ d.reqs ++ parkL d.park ++ d.bindq) : c.fid ∈ d.toks := by
  unfold Dir.toks
  simp only [List.mem_append] at hc ⊢
  rcases hc with (hc | hc) | hc
  · exact Or.inl (Or.inl (Or.inl (Or.inl (List.mem_map_of_mem hc))))
  · exact Or.inl (Or.inl (Or.inl (Or.inr (List.mem_map_of_mem hc))))
  · exact Or.inl (Or.inl (Or.inr (List.mem_map_of_mem hc)))

theorem Dir.mem_toks_held {d : Dir} {k : Nat} {b : BindIn} (h : d.held[k]? = some b) (hp : b.pending = true) : b.fid ∈ d.toks := by
  unfold Dir.toks
  simp only [List.mem_append]
  exact Or.inl (Or.inr (mem_pendHeld h hp))

theorem Dir.mem_toks_ans {d : Dir} {x : Nat} {acc : Bool} (h : (x, acc) ∈ d.anss) : x ∈ d.toks := by
  unfold Dir.toks
  simp only [List.mem_append]
  exact Or.inr (List.mem_map.mpr ⟨(x, acc), h, rfl⟩)

/-! ### The moves -/

/-- `request_bind`: a fresh id is drawn, the slot inserted, the `Bind` frame queued. -/
def Dir.ask (d : Dir) (req x : Nat) (bt : BindType) (host : Bytes) (port : Nat) : Dir :=
  { d with flows := insert d.flows x (.bindRequested req),
           reqs := d.reqs ++ [{ fid := x, bt := bt, host := host, port := port }],
           asked := d.asked ++ [{ req := req, fid := x, bt := bt, host := host, port := port }] }

theorem DirCore.ask {d : Dir} (h : DirCore d) (req x : Nat) (bt : BindType) (host : Bytes) (port : Nat)
    (hx : lookup d.flows x = none) : DirCore (d.ask req x bt host port) := by
  have hno : x ∉ d.toks := h.not_mem_of_no_owner (ownerF_none_of_lookup hx)
  have hown : ∀ y r, ownerF (insert d.flows x (.bindRequested req)) y = some r → (y = x ∧ r = req) ∨ (y ≠ x ∧ ownerF d.flows y = some r) := by
    intro y r hy
    by_cases hyx : y = x
    · subst hyx; rw [ownerF_insert_self] at hy; exact Or.inl ⟨rfl, by cases hy; rfl⟩
    · rw [ownerF_insert_ne _ _ _ _ hyx] at hy; exact Or.inr ⟨hyx, hy⟩
  have hmono : ∀ a, a ∈ d.asked → a ∈ (d.ask req x bt host port).asked := fun a ha => List.mem_append_left _ ha
  refine ⟨?_, ?_, ?_, ?_, ?_, ?_, ?_, ?_, ?_⟩
  · intro y
    have := h.cnt y
    by_cases hyx : y = x
    · subst hyx
      have h0 : d.toks.count y = 0 := List.count_eq_zero.mpr hno
      simp only [Dir.toks, Dir.ask, List.map_append, List.count_append, List.map_cons, List.map_nil,
        ownerF_insert_self, Option.isSome_some, if_true] at h0 ⊢
      simp only [List.count_cons, List.count_nil, beq_self_eq_true, if_true]
      omega
    · simp only [Dir.toks, Dir.ask, List.map_append, List.count_append, List.map_cons, List.map_nil,
        ownerF_insert_ne _ _ _ _ hyx] at this ⊢
      have hne : (x == y) = false := by simpa using fun e => hyx e.symm
      simp only [List.count_cons, List.count_nil, hne]
      simp only [Bool.false_eq_true, if_false]
      omega
  · intro c hc
    simp only [Dir.ask, List.mem_append, List.mem_singleton] at hc
    have hc' : c ∈ d.reqs ++ parkL d.park ++ d.bindq ∨ c = { fid := x, bt := bt, host := host, port := port } := by
      simp only [List.mem_append]
      rcases hc with ((hc | hc) | hc) | hc
      · exact Or.inl (Or.inl (Or.inl hc))
      · exact Or.inr hc
      · exact Or.inl (Or.inl (Or.inr hc))
      · exact Or.inl (Or.inr hc)
    rcases hc' with hc' | rfl
    · refine ⟨(h.fld c hc').1, ?_⟩
      intro r hr
      rcases hown _ _ hr with ⟨hy, _⟩ | ⟨_, hr'⟩
      · exact absurd (hy ▸ Dir.mem_toks_carrier hc') hno
      · exact hmono _ ((h.fld c hc').2 r hr')
    · refine ⟨⟨rfl, rfl⟩, ?_⟩
      intro r hr
      rcases hown _ _ hr with ⟨_, hr'⟩ | ⟨hy, _⟩
      · subst hr'; exact List.mem_append_right _ (by simp [recOf])
      · exact absurd rfl hy
  · intro k b hk hp r hr
    rcases hown _ _ hr with ⟨hy, _⟩ | ⟨_, hr'⟩
    · exact absurd (hy ▸ Dir.mem_toks_held hk hp) hno
    · exact h.lnk k b hk hp r hr'
  · intro r k hl
    obtain ⟨b, hb, ha⟩ := h.lkf r k hl
    exact ⟨b, hb, hmono _ ha⟩
  · exact h.lka
  · intro y acc hy r hr
    rcases hown _ _ hr with ⟨hy', _⟩ | ⟨_, hr'⟩
    · exact absurd (hy' ▸ Dir.mem_toks_ans hy) hno
    · exact (h.ans y acc hy r hr').mono (fun _ a => a) (fun _ a => a) (fun _ a => a) rfl
  · intro r
    exact ⟨fun hr => ((h.res r).1 hr).mono (fun _ a => a) (fun _ a => a) (fun _ a => a) rfl,
           fun hr => ((h.res r).2 hr).mono (fun _ a => a) (fun _ a => a) (fun _ a => a) rfl⟩
  · exact h.dec
  · intro y r hr
    simp only [Dir.ask, List.map_append, List.mem_append, List.map_cons, List.map_nil, List.mem_singleton]
    rcases hown _ _ hr with ⟨_, hr'⟩ | ⟨_, hr'⟩
    · exact Or.inr hr'
    · exact Or.inl (h.own y r hr')

end Penguin.BindPair

namespace Penguin.BindPair
open Penguin.Mux

theorem count_one (a y : Nat) : List.count y [a] = if a = y then 1 else 0 := by
  simp only [List.count_cons, List.count_nil, beq_iff_eq]; split <;> simp

/-- The call fails at once: no id could be drawn. -/
def Dir.askClosed (d : Dir) (req : Nat) : Dir := { d with results := d.results ++ [(req, .closed)] }

theorem DirCore.askClosed {d : Dir} (h : DirCore d) (req : Nat) : DirCore (d.askClosed req) := by
  refine ⟨h.cnt, h.fld, h.lnk, h.lkf, h.lka, ?_, ?_, h.dec, h.own⟩
  · intro x acc hx r hr
    exact (h.ans x acc hx r hr).mono (fun _ a => a) (fun _ a => a) (fun _ a => a) rfl
  · intro r
    constructor
    · intro hr
      simp only [Dir.askClosed, List.mem_append, List.mem_singleton, Prod.mk.injEq, reduceCtorEq, and_false, or_false] at hr
      exact ((h.res r).1 hr).mono (fun _ a => a) (fun _ a => a) (fun _ a => a) rfl
    · intro hr
      simp only [Dir.askClosed, List.mem_append, List.mem_singleton, Prod.mk.injEq, reduceCtorEq, and_false, or_false] at hr
      exact ((h.res r).2 hr).mono (fun _ a => a) (fun _ a => a) (fun _ a => a) rfl

/-- Requests change place without being touched; answers may be added for an endpoint that does not
    accept binds. -/
theorem DirCore.shuffle {d d' : Dir} (h : DirCore d) (hf : d'.flows = d.flows) (hh : d'.held = d.held)
    (hcap : d'.cap = d.cap) (hasked : d'.asked = d.asked) (hres : d'.results = d.results)
    (hlinks : d'.links = d.links) (hacc : d'.accepted = d.accepted) (hrej : d'.rejected = d.rejected)
    (hcnt : ∀ x, d'.toks.count x = d.toks.count x)
    (hcar : ∀ c ∈ d'.reqs ++ parkL d'.park ++ d'.bindq, c ∈ d.reqs ++ parkL d.park ++ d.bindq)
    (hans : ∀ x acc, (x, acc) ∈ d'.anss → (x, acc) ∈ d.anss ∨ (acc = false ∧ d.cap = 0)) : DirCore d' := by
  have hm : ∀ r acc, AnsOk d r acc → AnsOk d' r acc := fun r acc ha =>
    ha.mono (fun _ a => hlinks ▸ a) (fun _ a => hacc ▸ a) (fun _ a => hrej ▸ a) hcap
  refine ⟨?_, ?_, ?_, ?_, ?_, ?_, ?_, ?_, ?_⟩
  · intro x; rw [hcnt, hf]; exact h.cnt x
  · intro c hc
    have := h.fld c (hcar c hc)
    rw [hf, hasked]; exact this
  · intro k b hk hp r hr
    rw [hh] at hk; rw [hf] at hr; rw [hlinks]
    exact h.lnk k b hk hp r hr
  · intro r k hl
    rw [hlinks] at hl; rw [hh, hasked]
    exact h.lkf r k hl
  · intro k hk
    rw [hh] at hk; rw [hlinks]; exact h.lka k hk
  · intro x acc hx r hr
    rw [hf] at hr
    rcases hans x acc hx with hx' | ⟨rfl, hc⟩
    · exact hm _ _ (h.ans x acc hx' r hr)
    · unfold AnsOk; simp only [Bool.false_eq_true, if_false]; exact Or.inl (by rw [hcap]; exact hc)
  · intro r
    rw [hres]
    exact ⟨fun hr => hm _ _ ((h.res r).1 hr), fun hr => hm _ _ ((h.res r).2 hr)⟩
  · rw [hacc, hrej, hh]; exact h.dec
  · intro x r hr
    rw [hf] at hr; rw [hasked]; exact h.own x r hr

/-- The answerer's receive loop processes the oldest `Bind` frame (it is not parked). -/
def Dir.recvBind (d : Dir) : Dir :=
  match d.reqs with
  | [] => d
  | c :: rest =>
    if d.cap = 0 then { d with reqs := rest, anss := d.anss ++ [(c.fid, false)] }
    else if d.bindq.length < d.cap then { d with reqs := rest, bindq := d.bindq ++ [c] }
    else { d with reqs := rest, park := some c }

theorem DirCore.recvBind {d : Dir} (h : DirCore d) (hp : d.park = none) : DirCore d.recvBind := by
  unfold Dir.recvBind
  split
  · exact h
  · rename_i c rest hreqs
    split
    · rename_i hc0
      refine h.shuffle rfl rfl rfl rfl rfl rfl rfl rfl ?_ ?_ ?_
      · intro x
        simp only [Dir.toks, hreqs, hp, parkL, List.map_append, List.count_append, List.map_cons, List.map_nil,
          List.count_cons, List.count_nil]
        omega
      · intro c' hc'
        simp only [hreqs, List.mem_append, List.mem_cons] at hc' ⊢
        rcases hc' with (hc' | hc') | hc'
        · exact Or.inl (Or.inl (Or.inr hc'))
        · exact Or.inl (Or.inr hc')
        · exact Or.inr hc'
      · intro x acc hx
        simp only [List.mem_append, List.mem_singleton, Prod.mk.injEq] at hx
        rcases hx with hx | ⟨_, rfl⟩
        · exact Or.inl hx
        · exact Or.inr ⟨rfl, hc0⟩
    · split
      · refine h.shuffle rfl rfl rfl rfl rfl rfl rfl rfl ?_ ?_ ?_
        · intro x
          simp only [Dir.toks, hreqs, hp, parkL, List.map_append, List.count_append, List.map_cons, List.map_nil,
            List.count_cons, List.count_nil]
          omega
        · intro c' hc'
          simp only [hreqs, List.mem_append, List.mem_cons, List.not_mem_nil, or_false] at hc' ⊢
          rcases hc' with (hc' | hc') | (hc' | hc')
          · exact Or.inl (Or.inl (Or.inr hc'))
          · exact Or.inl (Or.inr hc')
          · exact Or.inr hc'
          · exact Or.inl (Or.inl (Or.inl hc'))
        · intro x acc hx; exact Or.inl hx
      · refine h.shuffle rfl rfl rfl rfl rfl rfl rfl rfl ?_ ?_ ?_
        · intro x
          simp only [Dir.toks, hreqs, hp, parkL, List.map_append, List.count_append, List.map_cons, List.map_nil,
            List.count_cons, List.count_nil]
          omega
        · intro c' hc'
          simp only [hreqs, hp, parkL, List.mem_append, List.mem_cons, List.mem_singleton, List.not_mem_nil, or_false] at hc' ⊢
          rcases hc' with (hc' | hc') | hc'
          · exact Or.inl (Or.inr hc')
          · exact Or.inl (Or.inl hc')
          · exact Or.inr hc'
        · intro x acc hx; exact Or.inl hx

/-- A parked hand-over completes once the bind queue has room. -/
def Dir.unpark (d : Dir) : Dir :=
  match d.park with
  | none => d
  | some c => if d.bindq.length < d.cap then { d with bindq := d.bindq ++ [c], park := none } else d

theorem DirCore.unpark {d : Dir} (h : DirCore d) : DirCore d.unpark := by
  unfold Dir.unpark
  split
  · exact h
  · rename_i c hpk
    split
    · refine h.shuffle rfl rfl rfl rfl rfl rfl rfl rfl ?_ ?_ ?_
      · intro x
        simp only [Dir.toks, hpk, parkL, List.map_append, List.count_append, List.map_cons, List.map_nil,
          List.count_cons, List.count_nil]
        omega
      · intro c' hc'
        simp only [hpk, parkL, List.mem_append, List.mem_cons, List.mem_singleton, List.not_mem_nil, or_false] at hc' ⊢
        rcases hc' with hc' | (hc' | hc')
        · exact Or.inl (Or.inl hc')
        · exact Or.inr hc'
        · exact Or.inl (Or.inr hc')
      · intro x acc hx; exact Or.inl hx
    · exact h

end Penguin.BindPair

namespace Penguin.BindPair
open Penguin.Mux

theorem getElem?_append_some {l : List BindIn} {k : Nat} {b : BindIn} (c : BindIn) (h : l[k]? = some b) : (l ++ [c])[k]? = some b := by
  have hk : k < l.length := by
    rcases Nat.lt_or_ge k l.length with hlt | hge
    · exact hlt
    · rw [List.getElem?_eq_none hge] at h; cases h
  rw [List.getElem?_append_left hk]; exact h

/-- `next_bind_request` hands the oldest queued request to the application. -/
def Dir.next (d : Dir) : Dir :=
  match d.bindq with
  | [] => d
  | c :: rest =>
    { d with bindq := rest, held := d.held ++ [c],
             links := match ownerF d.flows c.fid with
               | some r => d.links ++ [(r, d.held.length)]
               | none => d.links }

theorem DirCore.next {d : Dir} (h : DirCore d) : DirCore d.next := by
  unfold Dir.next
  split
  · exact h
  · rename_i c rest hq
    have hcar : c ∈ d.reqs ++ parkL d.park ++ d.bindq := by rw [hq]; simp
    have hcp : c.pending = true := by
      have := (h.fld c hcar).1
      simp [BindIn.pending, this.1, this.2]
    obtain ⟨r, hr⟩ := h.owner_of_mem (Dir.mem_toks_carrier hcar)
    simp only [hr]
    have hlm : ∀ x, x ∈ d.links → x ∈ d.links ++ [(r, d.held.length)] := fun x hx => List.mem_append_left _ hx
    refine ⟨?_, ?_, ?_, ?_, ?_, ?_, ?_, ?_, ?_⟩
    · intro x
      have := h.cnt x
      simp only [Dir.toks, hq, pendHeld_append, hcp, if_true, List.map_append, List.count_append, List.map_cons,
        List.map_nil, List.count_cons, List.count_nil] at this ⊢
      omega
    · intro c' hc'
      apply h.fld c'
      simp only [hq, List.mem_append, List.mem_cons] at hc' ⊢
      rcases hc' with hc' | hc'
      · exact Or.inl hc'
      · exact Or.inr (Or.inr hc')
    · intro k b hk hp r' hr'
      rcases Nat.lt_or_ge k d.held.length with hlt | hge
      · rw [List.getElem?_append_left hlt] at hk
        exact hlm _ (h.lnk k b hk hp r' hr')
      · have hk2 : k = d.held.length := by
          rcases Nat.lt_or_ge d.held.length k with hgt | hle
          · rw [List.getElem?_eq_none (by simp; omega)] at hk; cases hk
          · omega
        subst hk2
        simp only [List.getElem?_append_right (Nat.le_refl _), Nat.sub_self, List.getElem?_cons_zero, Option.some.injEq] at hk
        subst hk
        rw [hr] at hr'; cases hr'
        exact List.mem_append_right _ (by simp)
    · intro r' k hl
      simp only [List.mem_append, List.mem_singleton, Prod.mk.injEq] at hl
      rcases hl with hl | ⟨rfl, rfl⟩
      · obtain ⟨b, hb, ha⟩ := h.lkf r' k hl
        exact ⟨b, getElem?_append_some c hb, ha⟩
      · refine ⟨c, ?_, (h.fld c hcar).2 _ hr⟩
        simp only [List.getElem?_append_right (Nat.le_refl _), Nat.sub_self, List.getElem?_cons_zero]
    · intro k hk
      simp only [List.length_append, List.length_cons, List.length_nil] at hk
      rcases Nat.lt_or_ge k d.held.length with hlt | hge
      · obtain ⟨r', hr'⟩ := h.lka k hlt
        exact ⟨r', hlm _ hr'⟩
      · have : k = d.held.length := by omega
        subst this
        exact ⟨r, List.mem_append_right _ (by simp)⟩
    · intro x acc hx r' hr'
      exact (h.ans x acc hx r' hr').mono hlm (fun _ a => a) (fun _ a => a) rfl
    · intro r'
      exact ⟨fun hh => ((h.res r').1 hh).mono hlm (fun _ a => a) (fun _ a => a) rfl,
             fun hh => ((h.res r').2 hh).mono hlm (fun _ a => a) (fun _ a => a) rfl⟩
    · refine ⟨h.dec.1, h.dec.2.1, h.dec.2.2.1, ?_⟩
      intro k hk
      obtain ⟨b, hb, hnp⟩ := h.dec.2.2.2 k hk
      exact ⟨b, getElem?_append_some c hb, hnp⟩
    · exact h.own

end Penguin.BindPair

namespace Penguin.BindPair
open Penguin.Mux

theorem nodup_snoc {l : List Nat} {k : Nat} (h : l.Nodup) (hk : k ∉ l) : (l ++ [k]).Nodup := by
  rw [List.nodup_append]
  refine ⟨h, by simp, ?_⟩
  intro a ha b hb
  simp only [List.mem_singleton] at hb
  subst hb
  exact fun e => hk (e ▸ ha)

/-- The application decides a held request (`reply`, or dropping it unanswered). `f` marks it. -/
def Dir.decide (d : Dir) (k : Nat) (b : BindIn) (f : BindIn → BindIn) (acc : Bool) : Dir :=
  { d with held := d.held.modify k f, anss := d.anss ++ [(b.fid, acc)],
           accepted := if acc then d.accepted ++ [k] else d.accepted,
           rejected := if acc then d.rejected else d.rejected ++ [k] }

theorem DirCore.decide {d : Dir} (h : DirCore d) (k : Nat) (b : BindIn) (f : BindIn → BindIn) (acc : Bool)
    (hk : d.held[k]? = some b) (hp : b.pending = true) (hf : (f b).pending = false)
    (hsame : ∀ r, recOf r (f b) = recOf r b) : DirCore (d.decide k b f acc) := by
  have hknew : k ∉ d.accepted ++ d.rejected := by
    intro hmem
    obtain ⟨b', hb', hnp⟩ := h.dec.2.2.2 k hmem
    rw [hk] at hb'; cases hb'
    rw [hp] at hnp; cases hnp
  have hka : k ∉ d.accepted := fun hm => hknew (List.mem_append_left _ hm)
  have hkr : k ∉ d.rejected := fun hm => hknew (List.mem_append_right _ hm)
  have hma : ∀ j, j ∈ d.accepted → j ∈ (d.decide k b f acc).accepted := by
    intro j hj; unfold Dir.decide; simp only; split
    · exact List.mem_append_left _ hj
    · exact hj
  have hmr : ∀ j, j ∈ d.rejected → j ∈ (d.decide k b f acc).rejected := by
    intro j hj; unfold Dir.decide; simp only; split
    · exact hj
    · exact List.mem_append_left _ hj
  refine ⟨?_, h.fld, ?_, ?_, ?_, ?_, ?_, ?_, h.own⟩
  · intro x
    have h1 := h.cnt x
    have h2 := count_pendHeld_modify d.held k f b hk hp hf x
    show (Dir.toks _).count x = if (ownerF d.flows x).isSome then 1 else 0
    rw [← h1]
    simp only [Dir.toks, Dir.decide, List.map_append, List.count_append, List.map_cons, List.map_nil, count_one]
    omega
  · intro k' b' hk' hp' r hr
    by_cases hkk : k = k'
    · subst hkk
      simp only [Dir.decide, getElem?_modify_self d.held k f b hk, Option.some.injEq] at hk'
      subst hk'; rw [hf] at hp'; cases hp'
    · simp only [Dir.decide, getElem?_modify_other d.held k k' f hkk] at hk'
      exact h.lnk k' b' hk' hp' r hr
  · intro r k' hl
    obtain ⟨b', hb', ha⟩ := h.lkf r k' hl
    by_cases hkk : k = k'
    · subst hkk
      rw [hk] at hb'; cases hb'
      exact ⟨f b, getElem?_modify_self d.held k f b hk, by rw [hsame]; exact ha⟩
    · exact ⟨b', by simp only [Dir.decide, getElem?_modify_other d.held k k' f hkk]; exact hb', ha⟩
  · intro k' hk'
    simp only [Dir.decide, List.length_modify] at hk'
    exact h.lka k' hk'
  · intro x a hx r hr
    simp only [Dir.decide, List.mem_append, List.mem_singleton, Prod.mk.injEq] at hx
    rcases hx with hx | ⟨rfl, rfl⟩
    · exact (h.ans x a hx r hr).mono (fun _ q => q) hma hmr rfl
    · have hl := h.lnk k b hk hp r hr
      unfold AnsOk
      cases a with
      | true => simp only [if_true]; exact ⟨k, hl, by simp [Dir.decide]⟩
      | false => simp only [Bool.false_eq_true, if_false]; exact Or.inr ⟨k, hl, by simp [Dir.decide]⟩
  · intro r
    exact ⟨fun hh => ((h.res r).1 hh).mono (fun _ q => q) hma hmr rfl,
           fun hh => ((h.res r).2 hh).mono (fun _ q => q) hma hmr rfl⟩
  · have hold : ∀ j ∈ d.accepted ++ d.rejected, ∃ b', (d.held.modify k f)[j]? = some b' ∧ b'.pending = false := by
      intro j hj
      obtain ⟨b', hb', hnp⟩ := h.dec.2.2.2 j hj
      by_cases hkj : k = j
      · subst hkj; exact absurd hj hknew
      · exact ⟨b', by rw [getElem?_modify_other d.held k j f hkj]; exact hb', hnp⟩
    have hnew : ∃ b', (d.held.modify k f)[k]? = some b' ∧ b'.pending = false := ⟨f b, getElem?_modify_self d.held k f b hk, hf⟩
    cases acc with
    | true =>
      simp only [Dir.decide, if_true]
      refine ⟨nodup_snoc h.dec.1 hka, h.dec.2.1, ?_, ?_⟩
      · intro j hj
        simp only [List.mem_append, List.mem_singleton] at hj
        rcases hj with hj | rfl
        · exact h.dec.2.2.1 j hj
        · exact hkr
      · intro j hj
        simp only [List.mem_append, List.mem_singleton] at hj
        rcases hj with (hj | rfl) | hj
        · exact hold j (List.mem_append_left _ hj)
        · exact hnew
        · exact hold j (List.mem_append_right _ hj)
    | false =>
      simp only [Dir.decide, Bool.false_eq_true, if_false]
      refine ⟨h.dec.1, nodup_snoc h.dec.2.1 hkr, ?_, ?_⟩
      · intro j hj hjr
        simp only [List.mem_append, List.mem_singleton] at hjr
        rcases hjr with hjr | rfl
        · exact h.dec.2.2.1 j hj hjr
        · exact hka hj
      · intro j hj
        simp only [List.mem_append, List.mem_singleton] at hj
        rcases hj with hj | (hj | rfl)
        · exact hold j (List.mem_append_left _ hj)
        · exact hold j (List.mem_append_right _ hj)
        · exact hnew

/-- A held request that is no longer awaiting a decision is marked (dropped after its reply). -/
def Dir.touch (d : Dir) (k : Nat) (f : BindIn → BindIn) : Dir := { d with held := d.held.modify k f }

theorem pendHeld_modify_idle (l : List BindIn) (k : Nat) (f : BindIn → BindIn) (b : BindIn)
    (h : l[k]? = some b) (hp : b.pending = false) (hf : (f b).pending = false) :
    pendHeld (l.modify k f) = pendHeld l := by
  induction l generalizing k with
  | nil => simp at h
  | cons c r ih =>
    cases k with
    | zero =>
      simp only [List.getElem?_cons_zero, Option.some.injEq] at h
      subst h
      simp [List.modify_zero_cons, pendHeld, hf, hp]
    | succ k =>
      simp only [List.getElem?_cons_succ] at h
      simp only [List.modify_succ_cons, pendHeld, ih k h]

theorem DirCore.touch {d : Dir} (h : DirCore d) (k : Nat) (b : BindIn) (f : BindIn → BindIn)
    (hk : d.held[k]? = some b) (hp : b.pending = false) (hf : (f b).pending = false)
    (hsame : ∀ r, recOf r (f b) = recOf r b) : DirCore (d.touch k f) := by
  refine ⟨?_, h.fld, ?_, ?_, ?_, ?_, ?_, ?_, h.own⟩
  · intro x
    have h1 := h.cnt x
    simp only [Dir.toks, Dir.touch, pendHeld_modify_idle d.held k f b hk hp hf] at h1 ⊢
    exact h1
  · intro k' b' hk' hp' r hr
    by_cases hkk : k = k'
    · subst hkk
      simp only [Dir.touch, getElem?_modify_self d.held k f b hk, Option.some.injEq] at hk'
      subst hk'; rw [hf] at hp'; cases hp'
    · simp only [Dir.touch, getElem?_modify_other d.held k k' f hkk] at hk'
      exact h.lnk k' b' hk' hp' r hr
  · intro r k' hl
    obtain ⟨b', hb', ha⟩ := h.lkf r k' hl
    by_cases hkk : k = k'
    · subst hkk
      rw [hk] at hb'; cases hb'
      exact ⟨f b, getElem?_modify_self d.held k f b hk, by rw [hsame]; exact ha⟩
    · exact ⟨b', by simp only [Dir.touch, getElem?_modify_other d.held k k' f hkk]; exact hb', ha⟩
  · intro k' hk'
    simp only [Dir.touch, List.length_modify] at hk'
    exact h.lka k' hk'
  · intro x a hx r hr
    exact (h.ans x a hx r hr).mono (fun _ q => q) (fun _ q => q) (fun _ q => q) rfl
  · intro r
    exact ⟨fun hh => ((h.res r).1 hh).mono (fun _ q => q) (fun _ q => q) (fun _ q => q) rfl,
           fun hh => ((h.res r).2 hh).mono (fun _ q => q) (fun _ q => q) (fun _ q => q) rfl⟩
  · refine ⟨h.dec.1, h.dec.2.1, h.dec.2.2.1, ?_⟩
    intro j hj
    obtain ⟨b', hb', hnp⟩ := h.dec.2.2.2 j hj
    by_cases hkj : k = j
    · subst hkj
      exact ⟨f b, getElem?_modify_self d.held k f b hk, hf⟩
    · exact ⟨b', by simp only [Dir.touch, getElem?_modify_other d.held k j f hkj]; exact hb', hnp⟩

end Penguin.BindPair

namespace Penguin.BindPair
open Penguin.Mux

/-- The requester's receive loop processes the oldest answer: the slot is released, the call resolves. -/
def Dir.recvAns (d : Dir) : Dir :=
  match d.anss with
  | [] => d
  | (x, acc) :: rest =>
    match ownerF d.flows x with
    | some r => { d with anss := rest, flows := erase d.flows x,
                         results := d.results ++ [(r, if acc then BindRes.accepted else BindRes.refused)] }
    | none => { d with anss := rest }

theorem DirCore.recvAns {d : Dir} (h : DirCore d) : DirCore d.recvAns := by
  unfold Dir.recvAns
  split
  · exact h
  · rename_i x acc rest hq
    have hmem : (x, acc) ∈ d.anss := by rw [hq]; simp
    obtain ⟨r, hr⟩ := h.owner_of_mem (Dir.mem_toks_ans hmem)
    simp only [hr]
    have hhead := h.ans x acc hmem r hr
    refine ⟨?_, ?_, ?_, h.lkf, h.lka, ?_, ?_, h.dec, ?_⟩
    · intro y
      have h1 := h.cnt y
      by_cases hyx : y = x
      · subst hyx
        simp only [hr, Option.isSome_some, if_true] at h1
        simp only [ownerF_erase_self, Option.isSome_none, Bool.false_eq_true, if_false]
        simp only [Dir.toks, hq, List.map_append, List.count_append, List.map_cons, List.count_cons,
          beq_self_eq_true, if_true] at h1 ⊢
        omega
      · rw [ownerF_erase_ne _ _ _ hyx, ← h1]
        have hne : (x == y) = false := by simpa using fun e => hyx e.symm
        simp only [Dir.toks, hq, List.map_append, List.count_append, List.map_cons, List.count_cons, hne,
          Bool.false_eq_true, if_false, Nat.add_zero]
    · intro c hc
      refine ⟨(h.fld c hc).1, ?_⟩
      intro r' hr'
      exact (h.fld c hc).2 r' (ownerF_erase_some hr').2
    · intro k b hk hp r' hr'
      exact h.lnk k b hk hp r' (ownerF_erase_some hr').2
    · intro y a hy r' hr'
      have : (y, a) ∈ d.anss := by rw [hq]; exact List.mem_cons_of_mem _ hy
      exact (h.ans y a this r' (ownerF_erase_some hr').2).mono (fun _ q => q) (fun _ q => q) (fun _ q => q) rfl
    · intro r'
      constructor
      · intro hh
        simp only [List.mem_append, List.mem_singleton, Prod.mk.injEq] at hh
        rcases hh with hh | ⟨rfl, hacc⟩
        · exact ((h.res r').1 hh).mono (fun _ q => q) (fun _ q => q) (fun _ q => q) rfl
        · cases acc with
          | true => exact hhead.mono (fun _ q => q) (fun _ q => q) (fun _ q => q) rfl
          | false => simp at hacc
      · intro hh
        simp only [List.mem_append, List.mem_singleton, Prod.mk.injEq] at hh
        rcases hh with hh | ⟨rfl, hacc⟩
        · exact ((h.res r').2 hh).mono (fun _ q => q) (fun _ q => q) (fun _ q => q) rfl
        · cases acc with
          | true => simp at hacc
          | false => exact hhead.mono (fun _ q => q) (fun _ q => q) (fun _ q => q) rfl
    · intro y r' hr'
      exact h.own y r' (ownerF_erase_some hr').2

end Penguin.BindPair
