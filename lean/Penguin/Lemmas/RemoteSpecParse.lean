/-
Lemmas about `Penguin.RemoteSpec.parse` as a whole: the shape of a run, the panic sites, the
protocol split, which arm a token list selects.
-/
import Penguin.Lemmas.RemoteSpec

namespace Penguin.RemoteSpec
open Penguin.Constants

/-! ### Constants, spelled out -/

theorem kwSocks_eq : kwSocks = ['s', 'o', 'c', 'k', 's'] := by decide
theorem kwHttp_eq : kwHttp = ['h', 't', 't', 'p'] := by decide
theorem kwTproxy_eq : kwTproxy = ['t', 'p', 'r', 'o', 'x', 'y'] := by decide
theorem kwStdio_eq : kwStdio = ['s', 't', 'd', 'i', 'o'] := by decide
theorem kwTcp_eq : kwTcp = ['t', 'c', 'p'] := by decide
theorem kwUdp_eq : kwUdp = ['u', 'd', 'p'] := by decide
theorem unixPrefix_eq : unixPrefix = ['u', 'n', 'i', 'x', ':'] := by decide
theorem defaultLocal_eq : defaultLocal = "127.0.0.1".toList := by decide
theorem defaultUnspec_eq : defaultUnspec = "0.0.0.0".toList := by decide

/-! ### The shape of a run -/

/-- The arm body followed by the post-checks. -/
def finish (o : Oracle) (proto : Protocol) (texts : List Str) : Except Fail Remote :=
  match evalArm o proto (selectArm texts) with
  | .error e => .error e
  | .ok r => postChecks r

theorem parse_eq (o : Oracle) (s : Str) :
    parse o s =
      match splitProto o s with
      | .error e => .error e
      | .ok (rest, proto) =>
        match tokenize rest with
        | .error e => .error e
        | .ok toks => finish o proto (toks.map (·.text)) := by
  unfold parse parseArm finish
  cases splitProto o s with
  | error e => rfl
  | ok v =>
    obtain ⟨rest, proto⟩ := v
    simp only []
    cases tokenize rest with
    | error e => rfl
    | ok toks => rfl

/-! ### The panic sites -/

def NoPanic {α : Type} (x : Except Fail α) : Prop := ∀ p, x ≠ .error (.panic p)

theorem NoPanic.ok {α : Type} (a : α) : NoPanic (.ok a : Except Fail α) := fun _ h => by cases h

theorem NoPanic.err {α : Type} (e : Error) : NoPanic (.error (.err e) : Except Fail α) := fun _ h => by cases h

theorem NoPanic.bind {α β : Type} {x : Except Fail α} {f : α → Except Fail β} (hx : NoPanic x)
    (hf : ∀ a, NoPanic (f a)) : NoPanic (x >>= f) := by
  intro p h
  cases x with
  | error e =>
    have h' : (Except.error e : Except Fail β) = .error (.panic p) := h
    injection h' with h'
    exact hx p (by rw [h'])
  | ok a => exact hf a p (show f a = _ from h)

theorem portOrBail_noPanic (t : Str) : NoPanic (portOrBail t) := by
  unfold portOrBail; split
  · exact NoPanic.ok _
  · exact NoPanic.err _

theorem domainOrBail_noPanic (o : Oracle) (t : Str) : NoPanic (domainOrBail o t) := by
  unfold domainOrBail; split
  · exact NoPanic.ok _
  · exact NoPanic.err _

theorem remoteSpecial_of_isSpecial {t : Str} (h : isSpecial t = true) : ∃ r, remoteSpecial t = .ok r := by
  unfold remoteSpecial
  simp only [isSpecial, Bool.or_eq_true, decide_eq_true_eq] at h
  by_cases h1 : t = kwSocks
  · exact ⟨.socks, by rw [if_pos h1]⟩
  · by_cases h2 : t = kwHttp
    · exact ⟨.http, by rw [if_neg h1, if_pos h2]⟩
    · have h3 : t = kwTproxy := by rcases h with (h | h) | h <;> first | exact absurd h h1 | exact absurd h h2 | exact h
      exact ⟨.tproxy, by rw [if_neg h1, if_neg h2, if_pos h3]⟩

theorem remoteSpecial_noPanic {t : Str} (h : isSpecial t = true) : NoPanic (remoteSpecial t) := by
  obtain ⟨r, hr⟩ := remoteSpecial_of_isSpecial h
  rw [hr]; exact NoPanic.ok _

/-- What `match tokens[..]` binds is what the arm bodies rely on: the sub-slice handed to
    `parse_remote_special!` is one of the three key words, and the wildcard arm is not taken. -/
def Matched.Good : Matched → Prop
  | .stdioSpecial2 s => s = kwSocks ∨ s = kwHttp
  | .unixSpecial2 _ s => isSpecial s = true
  | .portSpecial2 _ s => isSpecial s = true
  | .special3 _ _ s => isSpecial s = true
  | .wildcard => False
  | _ => True

theorem selectArm_good (ts : List Str) (h1 : ts ≠ []) (h4 : ts.length ≤ 4) : (selectArm ts).Good := by
  match ts, h1, h4 with
  | [t0], _, _ =>
    simp only [selectArm]
    split
    · trivial
    · split
      · trivial
      · split <;> trivial
  | [t0, t1], _, _ =>
    simp only [selectArm]
    split
    · next h => exact h.2
    · split
      · trivial
      · split
        · trivial
        · split
          · next h => exact h.1
          · split
            · next h => exact h
            · split <;> trivial
  | [t0, t1, t2], _, _ =>
    simp only [selectArm]
    split
    · trivial
    · split
      · next h => exact h
      · split <;> trivial
  | [t0, t1, t2, t3], _, _ => trivial
  | _ :: _ :: _ :: _ :: _ :: _, _, h => simp at h

theorem isSpecial_of_socks_or_http {s : Str} (h : s = kwSocks ∨ s = kwHttp) : isSpecial s = true := by
  rcases h with rfl | rfl <;> decide

theorem evalArm_noPanic (o : Oracle) (proto : Protocol) {m : Matched} (h : m.Good) : NoPanic (evalArm o proto m) := by
  cases m <;> simp only [evalArm] <;>
    first
    | exact NoPanic.ok _
    | exact NoPanic.err _
    | exact absurd h id
    | (repeat' first
        | exact NoPanic.ok _
        | apply NoPanic.bind
        | exact portOrBail_noPanic _
        | exact domainOrBail_noPanic _ _
        | exact remoteSpecial_noPanic h
        | exact remoteSpecial_noPanic (isSpecial_of_socks_or_http h)
        | intro _)

theorem postChecks_noPanic (r : Remote) : NoPanic (postChecks r) := by
  unfold postChecks
  split
  · exact NoPanic.err _
  · split
    · exact NoPanic.err _
    · split
      · exact NoPanic.err _
      · exact NoPanic.ok _

theorem parseProtocol_noPanic (o : Oracle) (s : Str) : NoPanic (parseProtocol o s) := by
  unfold parseProtocol
  simp only
  split
  · exact NoPanic.ok _
  · split
    · exact NoPanic.ok _
    · exact NoPanic.err _

theorem splitProto_noPanic (o : Oracle) (s : Str) : NoPanic (splitProto o s) := by
  unfold splitProto
  split
  · split
    · exact NoPanic.ok _
    · have := parseProtocol_noPanic o (by assumption)
      split
      · exact NoPanic.ok _
      · next e he => intro p hp; cases hp; exact this p he
  · exact NoPanic.ok _

/-- Neither `unreachable!()` of `Remote::from_str` is reachable, and the unrolled tokenizer loop does
    not run out of iterations: for every text and every behaviour of the two library functions. -/
theorem parse_noPanic (o : Oracle) (s : Str) : NoPanic (parse o s) := by
  rw [parse_eq]
  split
  · next e he => intro p hp; cases hp; exact splitProto_noPanic o s p he
  · next rest proto _ =>
    split
    · next e he => intro p hp; cases hp; exact tokenize_no_panic rest p he
    · next toks ht =>
      obtain ⟨hne, hl, _, _⟩ := tokenize_ok ht
      have hg := selectArm_good (toks.map (·.text)) (by simpa using hne) (by simpa using hl)
      unfold finish
      split
      · next e he => intro p hp; cases hp; exact evalArm_noPanic o proto hg p he
      · exact postChecks_noPanic _

/-! ### The protocol split -/

theorem splitProto_suffix (o : Oracle) {rest ptxt : Str} (h1 : '/' ∉ ptxt) (h2 : ':' ∉ ptxt) :
    splitProto o (rest ++ '/' :: ptxt) =
      match parseProtocol o ptxt with
      | .ok p => .ok (rest, p)
      | .error e => .error e := by
  unfold splitProto
  rw [rsplitOnce_append h1]
  simp only [h2, if_false]
  cases parseProtocol o ptxt <;> rfl

/-- No protocol is split off when there is no `/`, or when a `:` follows the last `/`. -/
theorem splitProto_none (o : Oracle) {s : Str} (h : ∀ a b, rsplitOnce '/' s = some (a, b) → ':' ∈ b) :
    splitProto o s = .ok (s, .tcp) := by
  unfold splitProto
  split
  · next rest proto hs => simp [h rest proto hs]
  · rfl

theorem parseProtocol_tcp {o : Oracle} {p : Str} (h : o.lower p = kwTcp) : parseProtocol o p = .ok .tcp := by
  simp [parseProtocol, h]

theorem parseProtocol_udp {o : Oracle} {p : Str} (h : o.lower p = kwUdp) : parseProtocol o p = .ok .udp := by
  have : kwUdp ≠ kwTcp := by decide
  simp [parseProtocol, h, this]

theorem parseProtocol_other {o : Oracle} {p : Str} (h1 : o.lower p ≠ kwTcp) (h2 : o.lower p ≠ kwUdp) :
    parseProtocol o p = .error (.err (.protocol (o.lower p))) := by
  simp [parseProtocol, h1, h2]

/-- A text made of possible tokens joined with `:`, followed by `/` and a protocol text. -/
theorem parse_join_suffix (o : Oracle) {toks : List Tok} (hw : ∀ t ∈ toks, t.WF) (hne : toks ≠ [])
    (hl : toks.length ≤ 4) {ptxt : Str} {proto : Protocol} (h1 : '/' ∉ ptxt) (h2 : ':' ∉ ptxt)
    (hp : parseProtocol o ptxt = .ok proto) :
    parse o (joinToks toks ++ '/' :: ptxt) = finish o proto (toks.map (·.text)) := by
  rw [parse_eq, splitProto_suffix o h1 h2, hp]
  simp only [tokenize_join hw hne hl]

/-- The same without a protocol suffix. -/
theorem parse_join_plain (o : Oracle) {toks : List Tok} (hw : ∀ t ∈ toks, t.WF) (hne : toks ≠ [])
    (hl : toks.length ≤ 4) (hs : ∀ a b, rsplitOnce '/' (joinToks toks) = some (a, b) → ':' ∈ b) :
    parse o (joinToks toks) = finish o .tcp (toks.map (·.text)) := by
  rw [parse_eq, splitProto_none o hs]
  simp only [tokenize_join hw hne hl]

theorem joinToks_append_singleton (init : List Tok) (hi : init ≠ []) (last : Tok) :
    joinToks (init ++ [last]) = joinToks init ++ ':' :: last.render := by
  induction init with
  | nil => exact absurd rfl hi
  | cons t rest ih =>
    cases rest with
    | nil => simp [joinToks]
    | cons u us =>
      have := ih (by simp)
      simp only [List.cons_append] at this ⊢
      rw [joinToks_cons_cons, this, joinToks_cons_cons]
      simp

/-- When the last token contains no `/`, a `/` further left is followed by the `:` in front of the
    last token: such a text has no protocol suffix. -/
theorem no_suffix_of_last (init : List Tok) (last : Tok) (hlast : '/' ∉ last.render) :
    ∀ a b, rsplitOnce '/' (joinToks (init ++ [last])) = some (a, b) → ':' ∈ b := by
  intro a b h
  obtain ⟨e, hb⟩ := rsplitOnce_some.mp h
  cases init with
  | nil =>
    simp [joinToks] at e
    exact absurd (e ▸ (by simp : '/' ∈ a ++ '/' :: b)) hlast
  | cons t rest =>
    rw [joinToks_append_singleton _ (by simp)] at e
    rcases List.append_eq_append_iff.mp e with ⟨a', e1, e2⟩ | ⟨c', e1, e2⟩
    · cases a' with
      | nil => simp at e2
      | cons x xs =>
        simp at e2
        exact absurd (e2.2 ▸ (by simp : '/' ∈ xs ++ '/' :: b)) hlast
    · cases c' with
      | nil => simp at e2
      | cons x xs =>
        simp at e2
        rw [e2.2]; simp

end Penguin.RemoteSpec
