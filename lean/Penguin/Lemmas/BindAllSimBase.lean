/-
`BSim` (see `Lemmas/BindAllView.lean`) — building blocks shared by the simulation proofs.
Core Lean only.
-/
import Penguin.Lemmas.BindAllView
import Penguin.Lemmas.MuxBasic

namespace Penguin.BindAll
open Penguin.Mux

theorem map_fid_modify (objs : List Obj) (i : Nat) (f : Obj → Obj) (hf : ∀ o, (f o).fid = o.fid) :
    (objs.modify i f).map (·.fid) = objs.map (·.fid) := by
  induction objs generalizing i with
  | nil => simp
  | cons o r ih =>
    cases i with
    | zero => simp [List.modify_cons, hf]
    | succ n => simp [List.modify_cons, ih n]

/-- An object update that keeps the id does not change the bind view. -/
theorem bview_modObj (e : EP) (l : List WsIn) (i : Nat) (f : Obj → Obj) (hf : ∀ o, (f o).fid = o.fid) :
    bview (e.modObj i f) l = bview e l := by
  simp [bview, EP.modObj, setObj, map_fid_modify _ _ _ hf]

theorem BSim.modObj {l : List WsIn} (e : EP) (i : Nat) (f : Obj → Obj) (hf : ∀ o, (f o).fid = o.fid) :
    BSim l e l (e.modObj i f) [] [] :=
  BSim.same (bview_modObj e l i f hf) rfl

/-- Side condition of `BSim.modObj`. -/
macro "bsim_fid" : tactic =>
  `(tactic| first
    | (intro o; rfl)
    | (intro o; simp only [Obj.disallowWrite, Obj.wake]; split <;> rfl))

/-- A state that differs from `e` in fields the view does not look at. -/
macro "bsim_same" : tactic => `(tactic| exact BSim.same rfl rfl)

theorem not_mem_of_lookup_none {m : List (Nat × Slot)} {k : Nat} (h : lookup m k = none) (s : Slot) : (k, s) ∉ m := by
  induction m with
  | nil => simp
  | cons p r ih =>
    obtain ⟨k', v⟩ := p
    simp only [lookup] at h
    split at h
    · cases h
    · rename_i hne
      intro hm
      rcases List.mem_cons.mp hm with h1 | h1
      · simp only [Prod.mk.injEq] at h1; exact hne h1.1.symm
      · exact ih h h1

theorem erase_sublist (m : List (Nat × Slot)) (k : Nat) : (Mux.erase m k).Sublist m := List.filter_sublist

/-- A message is queued (nothing happens if the outbound queue is closed). -/
theorem BSim.enq {l : List WsIn} (e : EP) (m : Msg) (ok : OkEnq (bview e l) m) : BSim l e l (e.enq m) [] [] := by
  unfold EP.enq
  split
  · exact BSim.refl l e
  · rename_i hc
    exact BSim.one (BStep.enq (bview e l) m (by simpa [bview] using hc) ok) rfl rfl

theorem BSim.enqFrame {l : List WsIn} (e : EP) (f : Frame) (ok : OkEnq (bview e l) (.frame f)) :
    BSim l e l (e.enqFrame f) [] [] := BSim.enq e _ ok

/-- The head of the inbox is taken (and has no effect the view records). -/
theorem BSim.pop {l : List WsIn} (e : EP) (w : WsIn) : BSim (w :: l) e l e [] [] :=
  BSim.shrink { Shrinks.refl (bview e (w :: l)) with inbox := List.suffix_cons w l } rfl

/-- Slots are released. -/
theorem BSim.flows {l : List WsIn} (e : EP) (fl : List (Nat × Slot)) (h : fl.Sublist e.flows) :
    BSim l e l { e with flows := fl } [] [] :=
  BSim.shrink { Shrinks.refl (bview e l) with flows := h } rfl

theorem BSim.erase {l : List WsIn} (e : EP) (fid : Nat) : BSim l e l { e with flows := Mux.erase e.flows fid } [] [] :=
  BSim.flows e _ (erase_sublist _ _)

end Penguin.BindAll
