/-
`BSim` (see `Lemmas/BindAllView.lean`) — building blocks shared by the simulation proofs.
Core Lean only.
-/
import Penguin.Lemmas.BindAllView
import Penguin.Lemmas.MuxBasic

namespace Penguin.BindAll
open Penguin.Mux
open Penguin.PairAll (inMsgs)

theorem map_fid_modify (objs : List Obj) (i : Nat) (f : Obj → Obj) (hf : ∀ o, (f o).fid = o.fid) :
    (objs.modify i f).map (·.fid) = objs.map (·.fid) := by
  induction objs generalizing i with
  | nil => simp
  | cons o r ih =>
    cases i with
    | zero => simp [List.modify_cons, hf]
    | succ n => simp [List.modify_cons, ih n]

/-- An object update that keeps the id does not change the bind view. -/
theorem bview_modObj (e : EP) (l : List WsIn) (i : Nat) (f : Obj → Obj) (hf : ∀ o, (f o).fid = o.fid) :
    bview (e.modObj i f) l = bview e l := by
  simp [bview, EP.modObj, setObj, map_fid_modify _ _ _ hf]

theorem BSim.modObj {l : List WsIn} (e : EP) (i : Nat) (f : Obj → Obj) (hf : ∀ o, (f o).fid = o.fid) :
    BSim l e l (e.modObj i f) [] [] :=
  BSim.same (bview_modObj e l i f hf) rfl

/-- Side condition of `BSim.modObj`. -/
macro "bsim_fid" : tactic =>
  `(tactic| first
    | (intro o; rfl)
    | (intro o; simp only [Obj.disallowWrite, Obj.wake]; split <;> rfl))

/-- A state that differs from `e` in fields the view does not look at. -/
macro "bsim_same" : tactic => `(tactic| exact BSim.same rfl rfl)

theorem not_mem_of_lookup_none {m : List (Nat × Slot)} {k : Nat} (h : lookup m k = none) (s : Slot) : (k, s) ∉ m := by
  induction m with
  | nil => simp
  | cons p r ih =>
    obtain ⟨k', v⟩ := p
    simp only [lookup] at h
    split at h
    · cases h
    · rename_i hne
      intro hm
      rcases List.mem_cons.mp hm with h1 | h1
      · simp only [Prod.mk.injEq] at h1; exact hne h1.1.symm
      · exact ih h h1

theorem erase_sublist (m : List (Nat × Slot)) (k : Nat) : (Mux.erase m k).Sublist m := List.filter_sublist

/-- A message is queued (nothing happens if the outbound queue is closed). -/
theorem BSim.enq {l : List WsIn} (e : EP) (m : Msg) (ok : OkEnq (bview e l) m) : BSim l e l (e.enq m) [] [] := by
  unfold EP.enq
  split
  · exact BSim.refl l e
  · rename_i hc
    exact BSim.one (BStep.enq (bview e l) m (by simpa [bview] using hc) ok) rfl rfl

theorem BSim.enqFrame {l : List WsIn} (e : EP) (f : Frame) (ok : OkEnq (bview e l) (.frame f)) :
    BSim l e l (e.enqFrame f) [] [] := BSim.enq e _ ok

/-- The item `w` may be taken from the inbox silently: it is no answer frame (`Finish y` / `Reset y`) of a flow
    whose slot is a pending bind request. -/
def PopOk (fl : List (Nat × Slot)) (w : WsIn) : Prop :=
  ∀ y r, lookup fl y = some (.bindRequested r) → ∀ m, w = .msg m → ansOf y m = none

/-- An item that is neither a `Finish` nor a `Reset` frame. -/
theorem PopOk.other {fl : List (Nat × Slot)} {w : WsIn} (h : ∀ m, w = .msg m → ∀ y, ansOf y m = none) : PopOk fl w :=
  fun y _ _ m hm => h m hm y

/-- A `Finish fid` / `Reset fid` whose flow has no pending bind request slot. -/
theorem PopOk.finish {fl : List (Nat × Slot)} {fid : Nat} (h : ∀ r, lookup fl fid ≠ some (.bindRequested r)) :
    PopOk fl (.msg (.frame (.finish fid))) := by
  intro y r hl m hm
  cases hm
  simp only [ansOf]
  split
  · rename_i he; subst he; exact absurd hl (h r)
  · rfl

theorem PopOk.reset {fl : List (Nat × Slot)} {fid : Nat} (h : ∀ r, lookup fl fid ≠ some (.bindRequested r)) :
    PopOk fl (.msg (.frame (.reset fid))) := by
  intro y r hl m hm
  cases hm
  simp only [ansOf]
  split
  · rename_i he; subst he; exact absurd hl (h r)
  · rfl

theorem ans_inMsgs_cons {fl : List (Nat × Slot)} {w : WsIn} (hg : PopOk fl w) (l : List WsIn) (y r : Nat)
    (hl : lookup fl y = some (.bindRequested r)) : ans y (inMsgs l) = ans y (inMsgs (w :: l)) := by
  cases w with
  | msg m => simp [inMsgs, ans, hg y r hl m rfl]
  | _ => rfl

/-- The head of the inbox is taken (it does not end the source, and is no answer to a pending bind request). -/
theorem BSim.pop {l : List WsIn} (e : EP) (w : WsIn) (hg : PopOk e.flows w) : BSim (w :: l) e l e [] [] :=
  BSim.shrink { Shrinks.refl (bview e (w :: l)) with
    inbox := List.suffix_cons w l, pops := fun y r hl => ans_inMsgs_cons hg l y r hl } rfl

/-- Slots are released. -/
theorem BSim.flows {l : List WsIn} (e : EP) (fl : List (Nat × Slot)) (h : fl.Sublist e.flows) :
    BSim l e l { e with flows := fl } [] [] :=
  BSim.shrink { Shrinks.refl (bview e l) with flows := h } rfl

theorem BSim.erase {l : List WsIn} (e : EP) (fid : Nat) : BSim l e l { e with flows := Mux.erase e.flows fid } [] [] :=
  BSim.flows e _ (erase_sublist _ _)

end Penguin.BindAll
