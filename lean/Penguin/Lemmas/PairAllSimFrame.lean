/-
`Sim` for the functions that open, close and process flows: `openRound`, `closeFlow`, `processFrame`,
`processIn`.  The inbox is an argument of `Sim`: the item being processed is its head before, and gone after.
Core Lean only.
-/
import Penguin.Lemmas.PairAllSimBase

namespace Penguin.PairAll
open Penguin.Mux

variable {x j : Nat}

theorem canAcc_of_none (e : EP) (h : lookup e.flows x = none) : canAcc x j e = false := by
  simp [canAcc, canAccF, h]

theorem lookup_insert (m : List (Nat × Slot)) (k y : Nat) (v : Slot) :
    lookup (Mux.insert m k v) y = if y = k then some v else lookup m y := by
  by_cases h : y = k
  · subst h; simp [lookup_insert_self]
  · simp [h, lookup_insert_ne _ _ _ _ h]

/-- Ids are consumed from the script. -/
theorem Sim.rngStep {l : List WsIn} (e e' : EP) (rng' : List Nat) (h1 : rng'.count x ≤ e.rng.count x)
    (h2 : e.rng.isEmpty = true → rng'.isEmpty = true)
    (hv : view x j e' l = { view x j e l with cnt := rng'.count x, rngNil := rng'.isEmpty }) :
    Sim x j l e l e' [] [] :=
  Sim.one (AStep.rng (view x j e l) (rng'.count x) rng'.isEmpty h1 h2) hv rfl rfl

theorem Sim.openRound {l : List WsIn} (e : EP) (r : OpenReq) : Sim x j l e l (openRound e r).1 (openRound e r).2 [] := by
  unfold Mux.openRound
  split
  · sim_same
  · split
    · sim_same
    · rename_i fid rng' fb' hd
      obtain ⟨hc1, hc2, hc3⟩ := drawId_count _ _ _ _ _ _ _ hd x
      obtain ⟨_, hfree⟩ := drawId_spec _ _ _ _ _ _ _ hd
      simp only
      split
      · exact Sim.rngStep e _ rng' hc1 hc2 rfl
      · rename_i hoc
        have hoc' : e.outClosed = false := by simpa using hoc
        by_cases hx : fid = x
        · subst hx
          refine Sim.one (AStep.draw (view fid j e l) (rng'.count fid) rng'.isEmpty (.requested r.req)
            (.frame (.connect fid e.opts.rwnd r.port r.host)) hc1 hc2 (hc3 rfl) hfree hoc'
            (Or.inl ⟨r.req, rfl, by simp [isConn]⟩)) ?_ rfl rfl
          simp [view, EP.enqFrame, EP.enq, hoc', lookup_insert_self, canAcc, canAccF, hfree, bindHeld]
        · have g1 : Sim x j l e l { e with rng := rng', fallback := fb' } [] [] := Sim.rngStep e _ rng' hc1 hc2 rfl
          have g2 : Sim x j l { e with rng := rng', fallback := fb' } l
              { e with rng := rng', fallback := fb', flows := Mux.insert e.flows fid (.requested r.req),
                       opens := { r with retriesLeft := r.retriesLeft - 1 } :: e.opens.filter (·.req ≠ r.req) } [] [] :=
            (Sim.flows { e with rng := rng', fallback := fb' } (Mux.insert e.flows fid (.requested r.req))
              (Or.inl (lookup_insert_ne _ _ _ _ (Ne.symm hx)))).congr rfl rfl
          exact (g1.tr g2).tr (Sim.enqFrame _ _ (by simp [isConn, hx]) rfl rfl)

theorem Sim.openRejected {l : List WsIn} (e : EP) (req : Nat) (final : Bool) :
    Sim x j l e l (openRejected e req final).1 (openRejected e req final).2 [] := by
  unfold Mux.openRejected
  repeat' split
  all_goals sim_same

/-- `close_flow_local` on an already removed slot; if object `j` is accepting, the slot is not `j`'s. -/
theorem Sim.closeLocal {l : List WsIn} (e : EP) (s : Slot) (fid : Nat) (inh final : Bool)
    (hk : canAcc x j e = true → s ≠ .established j) :
    Sim x j l e l (closeLocal e s fid inh final).1 (closeLocal e s fid inh final).2 [] := by
  unfold Mux.closeLocal
  cases s with
  | established i =>
    simp only
    cases ho : e.obj? i with
    | none => exact Sim.refl l e
    | some o =>
      simp only
      have g := Sim.modObjG (x := x) (j := j) (l := l) e i (fun o => { o.disallowWrite with senderAlive := false })
        (by sim_side) (by intro o; refine ⟨(by intro h; cases h), ?_, ?_⟩ <;> simp only [Obj.disallowWrite, Obj.wake] <;> (try split) <;> simp_all)
        (by intro hc hij; subst hij; exact absurd rfl (hk hc))
      split
      · exact g.tr (Sim.enqFrame _ _ rfl rfl rfl)
      · exact g
  | requested req => exact Sim.openRejected e req final
  | bindRequested req => sim_same

theorem canAcc_erase (e : EP) (fid : Nat) (h : canAcc x j { e with flows := Mux.erase e.flows fid } = true) :
    fid ≠ x ∧ lookup e.flows x = some (.established j) := by
  unfold canAcc canAccF at h
  by_cases hx : x = fid
  · subst hx; simp [lookup_erase_self] at h
  · simp only [lookup_erase_ne _ _ _ hx] at h
    refine ⟨Ne.symm hx, ?_⟩
    cases hl : lookup e.flows x with
    | none => rw [hl] at h; simp at h
    | some s =>
      rw [hl] at h
      cases s with
      | requested r => simp at h
      | bindRequested r => simp at h
      | established k =>
        simp only [Bool.and_eq_true, beq_iff_eq] at h
        rw [h.1]

theorem Sim.closeFlow {l : List WsIn} (e : EP) (fid : Nat) (inh : Bool) (hsf : SF e) (hj : J x j e) :
    Sim x j l e l (closeFlow e fid inh).1 (closeFlow e fid inh).2 [] := by
  unfold Mux.closeFlow
  split
  · exact Sim.refl l e
  · rename_i s hl
    refine (Sim.erase e fid).tr0 (Sim.closeLocal _ _ _ _ _ ?_)
    intro hc hs
    subst hs
    obtain ⟨hne, _⟩ := canAcc_erase e fid hc
    exact hne (hsf.noForeign hj fid hl)

/-- Only the held bind requests changed, and none with id `x` was added. -/
theorem Sim.bhDrop {l : List WsIn} (e e' : EP) (hv : view x j e' l = { view x j e l with bh := bindHeld x e' })
    (hb : bindHeld x e' = true → bindHeld x e = true) : Sim x j l e l e' [] [] := by
  refine Sim.one (AStep.degrade (view x j e l) (lookup e.flows x) (canAcc x j e)
    (e.objs.countP (fun o => o.fid == x && !o.finishSent)) (bindHeld x e') (rxOpenJ j e.objs) (Or.inl rfl)
    (fun h => ⟨h, rfl⟩) (fun h _ _ => h) (Nat.le_refl _) hb (fun h => h)) ?_ rfl rfl
  rw [hv]; rfl

theorem Sim.offerAccept {l : List WsIn} (e : EP) (i : Nat) : Sim x j l e l (offerAccept e i) [] [] := by
  unfold Mux.offerAccept
  split
  · sim_same
  · refine Sim.bhDrop e _ rfl ?_
    simp only [bindHeld, Bool.or_false]
    intro h; rw [h]; rfl

/-- A bind request of another id is queued or parked. -/
theorem Sim.offerBind {l : List WsIn} (e : EP) (b : BindIn) (hb : b.fid ≠ x) : Sim x j l e l (offerBind e b) [] [] := by
  have hbx : (b.fid == x) = false := by simp [hb]
  unfold Mux.offerBind
  split
  · refine Sim.bhDrop e _ rfl ?_
    simp only [bindHeld, List.any_append, List.any_cons, hbx, List.any_nil, Bool.or_false]
    exact fun h => h
  · refine Sim.bhDrop e _ rfl ?_
    simp only [bindHeld, hbx, Bool.or_false]
    intro h; rw [h]; rfl

/-- An item that is not a `Connect x`, `Acknowledge x`, `Push x` is taken from the source. -/
theorem Sim.pop {l : List WsIn} (e : EP) (w : WsIn)
    (hw : ∀ m, w = .msg m → isConn x m = false ∧ isAck x m = false ∧ isPush x m = false ∧ isFin x m = false ∧
      isBind x m = false) (hend : isEnd w = false) :
    Sim x j (w :: l) e l e [] [] := by
  refine Sim.one (AStep.pop (view x j e (w :: l)) w l rfl hw) ?_ rfl rfl
  simp [view, hend]


/-- A stream object of another flow is created: the view of `x` only sees the object count grow. -/
theorem canAccF_newOther (fl : List (Nat × Slot)) (objs : List Obj) (fid : Nat) (o : Obj)
    (hsf : ∀ i, lookup fl x = some (.established i) → i < objs.length) (hx : fid ≠ x) :
    canAccF x j (Mux.insert fl fid (.established objs.length)) (objs ++ [o]) = canAccF x j fl objs := by
  simp only [canAccF, lookup_insert_ne _ _ _ _ (Ne.symm hx)]
  cases hl : lookup fl x with
  | none => rfl
  | some s =>
    cases s with
    | requested r => rfl
    | bindRequested r => rfl
    | established i =>
      simp only
      have hi : i < objs.length := hsf i hl
      by_cases hij : i = j
      · subst hij
        rw [List.getElem?_append_left hi]
      · have hb : (i == j) = false := beq_false_of_ne hij
        rw [hb]; rfl

theorem SF.lt {e : EP} (hsf : SF e) (y i : Nat) (h : lookup e.flows y = some (.established i)) : i < e.objs.length := by
  obtain ⟨o', ho', _⟩ := hsf y i h
  exact (List.getElem?_eq_some_iff.mp ho').1

theorem rxOpenJ_append_ne (objs : List Obj) (o : Obj) (h : j ≠ objs.length) : rxOpenJ j (objs ++ [o]) = rxOpenJ j objs := by
  unfold rxOpenJ
  by_cases hlt : j < objs.length
  · rw [List.getElem?_append_left hlt]
  · have h1 : objs[j]? = none := List.getElem?_eq_none (by omega)
    have h2 : (objs ++ [o])[j]? = none := List.getElem?_eq_none (by simp; omega)
    rw [h1, h2]

theorem rxOpenJ_append_new (objs : List Obj) (o : Obj) (ho : o.rxOpen = true) :
    rxOpenJ j (objs ++ [o]) = (rxOpenJ j objs || objs.length == j) := by
  by_cases h : j = objs.length
  · subst h; simp [rxOpenJ, ho]
  · rw [rxOpenJ_append_ne objs o h]
    have : (objs.length == j) = false := by simp; omega
    simp [this]

/-- An object carrying another id is not object `j`. -/
theorem J.ne_at {e' : EP} (hj : J x j e') {n fid : Nat} (h : ∃ o, e'.objs[n]? = some o ∧ o.fid = fid) (hx : fid ≠ x) :
    j ≠ n := by
  intro hjn
  obtain ⟨o, ho, hf⟩ := h
  subst hjn
  exact hx (hf ▸ hj o ho)

/-- The new object (index `len`) of another flow is not object `j`. -/
theorem J.ne_len {e : EP} {fl : List (Nat × Slot)} {o : Obj} {fid : Nat}
    (hj : J x j { e with objs := e.objs ++ [o], flows := fl }) (hf : o.fid = fid) (hx : fid ≠ x) : j ≠ e.objs.length := by
  intro h
  have := hj o (by subst h; simp)
  exact hx (hf ▸ this)

theorem Sim.newOther {l : List WsIn} (e : EP) (fid : Nat) (o : Obj) (hsf : SF e) (hx : fid ≠ x) (hf : o.fid = fid)
    (hjl : j ≠ e.objs.length) :
    Sim x j l e l { e with objs := e.objs ++ [o], flows := Mux.insert e.flows fid (.established e.objs.length) } [] [] := by
  refine Sim.one (AStep.grow (view x j e l) (e.objs.length + 1) (Nat.le_succ _)) ?_ rfl rfl
  have hne : (o.fid == x) = false := by simp [hf, hx]
  simp [view, canAcc, canAccF_newOther e.flows e.objs fid o (hsf.lt x) hx, lookup_insert_ne _ _ _ _ (Ne.symm hx),
    List.countP_append, hne, bindHeld, rxOpenJ_append_ne e.objs o hjl]

@[simp] theorem newObj_fid (o : Opts) (fid r : Nat) (h : Bytes) (p : Nat) : (newObj o fid r h p).fid = fid := rfl

theorem canAccF_newSelf (fl : List (Nat × Slot)) (objs : List Obj) (o : Obj) (ha : o.senderAlive = true) (hr : o.rxOpen = true) :
    canAccF x j (Mux.insert fl x (.established objs.length)) (objs ++ [o]) = (objs.length == j) := by
  unfold canAccF
  simp only [lookup_insert_self]
  by_cases h : objs.length = j
  · subst h; simp [ha, hr]
  · simp [h]

theorem countP_modify_eq (objs : List Obj) (i : Nat) (f : Obj → Obj) (p : Obj → Bool) (hp : ∀ o, p (f o) = p o) :
    (objs.modify i f).countP p = objs.countP p := by
  induction objs generalizing i with
  | nil => simp
  | cons o r ih =>
    cases i with
    | zero =>
      have e1 : (o :: r).modify 0 f = f o :: r := by simp
      rw [e1, List.countP_cons, List.countP_cons, hp]
    | succ n =>
      have e1 : (o :: r).modify (n+1) f = o :: r.modify n f := by simp
      rw [e1, List.countP_cons, List.countP_cons, ih n]

theorem finsOf_closeFlowEnds_ne (e : EP) (fid : Nat) (c : EndCause) (hc : c ≠ .peerFinish x) :
    finsOf x j (closeFlowEnds e fid c) = [] := by
  unfold closeFlowEnds
  split
  · rename_i s _
    cases s <;> simp only [slotEnds, finsOf_nil]
    split
    · simp [finsOf, hc]
    · rfl
  · rfl

theorem nw_append_new (objs : List Obj) (o : Obj) (hf : o.fid = x) (hs : o.finishSent = false) :
    (objs ++ [o]).countP (fun o => o.fid == x && !o.finishSent) = objs.countP (fun o => o.fid == x && !o.finishSent) + 1 := by
  simp [List.countP_append, hf, hs]

/-- `process_frame`: the frame is the head of the inbox before, and gone after. -/
theorem Sim.processFrame {l : List WsIn} (e : EP) (f : Frame) (ig : Bool) (hsf : SF e)
    (hj : J x j (processFrame e f ig).1) :
    SimX x j (.msg (.frame f) :: l) e l (processFrame e f ig).1 (processFrame e f ig).2.1 (acceptedInto e f)
      (finsOf x j (processFrameEnds e f)) := by
  have hje : J x j e := hj.back (Grow.processFrame e f ig)
  cases f with
  | connect fid rwnd port host =>
    refine Sim.toX ?_
    simp only [Mux.processFrame, acceptedInto] at hj ⊢
    by_cases hx : fid = x
    · subst hx
      split
      · exact (Sim.one (AStep.connRej (view fid j e (_ :: l)) _ l rfl (by simp [isConn])) rfl rfl rfl :
          Sim fid j (.msg (.frame (.connect fid rwnd port host)) :: l) e l e [] []).tr (Sim.enqFrame _ _ rfl rfl rfl)
      · rename_i hc
        have hfree : lookup e.flows fid = none := by
          cases hl : lookup e.flows fid with
          | none => rfl
          | some s => simp [hl] at hc
        have hnew : ∀ e' : EP,
            view fid j e' l = { view fid j e (.msg (.frame (.connect fid rwnd port host)) :: l) with
              inbox := l, slot := some (.established e.objs.length), len := e.objs.length + 1,
              nobj := e.objs.countP (fun o => o.fid == fid) + 1, canJ := e.objs.length == j,
              nw := e.objs.countP (fun o => o.fid == fid && !o.finishSent) + 1,
              rxJ := rxOpenJ j e.objs || e.objs.length == j,
              outq := if e.outClosed then e.outq else e.outq ++ [.frame (.acknowledge fid e.opts.rwnd)] } →
            Sim fid j (.msg (.frame (.connect fid rwnd port host)) :: l) e l e' [] [] := fun e' hv =>
          Sim.one (AStep.connNew (view fid j e (_ :: l)) _ l e.opts.rwnd rfl (by simp [isConn]) hfree) hv rfl rfl
        have hcan := canAccF_newSelf (x := fid) (j := j) e.flows e.objs (newObj e.opts fid rwnd host port) rfl rfl
        have hnw := nw_append_new (x := fid) e.objs (newObj e.opts fid rwnd host port) rfl rfl
        have hrx := rxOpenJ_append_new (j := j) e.objs (newObj e.opts fid rwnd host port) rfl
        split
        · rename_i hoc
          refine hnew _ ?_
          simp [view, canAcc, hcan, hnw, hrx, hoc, lookup_insert_self, List.countP_append, newObj_fid, bindHeld]
        · rename_i hoc
          simp only [Bool.not_eq_true] at hoc
          have g := hnew (EP.enqFrame { e with objs := e.objs ++ [newObj e.opts fid rwnd host port], flows := Mux.insert e.flows fid (.established e.objs.length) } (.acknowledge fid e.opts.rwnd)) (by
            simp [view, canAcc, hcan, hnw, hrx, EP.enqFrame, EP.enq, hoc, lookup_insert_self, List.countP_append, newObj_fid, bindHeld])
          split
          · exact (g.tr (Sim.modObj _ e.objs.length (fun o => { o with rxOpen := false }) (by sim_side) (by sim_side))).tr
              (Sim.same rfl rfl rfl)
          · exact g.tr (Sim.offerAccept _ _)
    · have gp : Sim x j (.msg (.frame (.connect fid rwnd port host)) :: l) e l e [] [] :=
        Sim.pop e _ (by intro m hm; cases hm; simp [isConn, isAck, isPush, isFin, isBind, hx]) rfl
      split
      · exact gp.tr (Sim.enqFrame _ _ rfl rfl rfl)
      · rename_i hc
        simp only [hc, if_false] at hj
        have hjl : j ≠ e.objs.length := by
          refine J.ne_at hj (n := e.objs.length) (fid := fid) ?_ hx
          split
          · exact ⟨newObj e.opts fid rwnd host port, by simp, rfl⟩
          · split
            · refine ⟨{ newObj e.opts fid rwnd host port with rxOpen := false }, ?_, rfl⟩
              simp [EP.enqFrame, EP.enq, EP.modObj, setObj]
              split <;> simp
            · refine ⟨newObj e.opts fid rwnd host port, ?_, rfl⟩
              simp only [EP.enqFrame, EP.enq, Mux.offerAccept]
              split <;> split <;> simp
        have g := gp.tr (Sim.newOther e fid (newObj e.opts fid rwnd host port) hsf hx rfl hjl)
        split
        · exact g
        · split
          · exact ((g.tr (Sim.enqFrame _ (.acknowledge fid e.opts.rwnd) rfl (by simp [isAck, hx]) rfl)).tr
              (Sim.modObj _ e.objs.length (fun o => { o with rxOpen := false }) (by sim_side) (by sim_side))).tr
              (Sim.same rfl rfl rfl)
          · exact (g.tr (Sim.enqFrame _ (.acknowledge fid e.opts.rwnd) rfl (by simp [isAck, hx]) rfl)).tr (Sim.offerAccept _ _)
  | acknowledge fid n =>
    refine (Sim.toX ?_).rec rfl
    simp only [Mux.processFrame, acceptedInto] at hj ⊢
    by_cases hx : fid = x
    · subst hx
      have gold : (∀ q, lookup e.flows fid ≠ some (.requested q)) →
          Sim fid j (.msg (.frame (.acknowledge fid n)) :: l) e l e [] [] := fun h =>
        Sim.one (AStep.ackOld (view fid j e (_ :: l)) _ l rfl (by simp [isAck]) h) rfl rfl rfl
      split
      · rename_i i hl
        exact (gold (by intro q h; rw [hl] at h; cases h)).tr (Sim.modObj _ _ _ (by sim_side) (by sim_side))
      · rename_i req hl
        have hcan := canAccF_newSelf (x := fid) (j := j) e.flows e.objs (newObj e.opts fid n [] 0) rfl rfl
        have hnw := nw_append_new (x := fid) e.objs (newObj e.opts fid n [] 0) rfl rfl
        have hrx := rxOpenJ_append_new (j := j) e.objs (newObj e.opts fid n [] 0) rfl
        have g : Sim fid j (.msg (.frame (.acknowledge fid n)) :: l) e l
            { e with objs := e.objs ++ [newObj e.opts fid n [] 0], flows := Mux.insert e.flows fid (.established e.objs.length) } [] [] := by
          refine Sim.one (AStep.ackNew (view fid j e (_ :: l)) _ l req rfl (by simp [isAck]) hl) ?_ rfl rfl
          simp [view, canAcc, hcan, hnw, hrx, lookup_insert_self, List.countP_append, newObj_fid, bindHeld]
        split
        · exact g.tr (Sim.same rfl rfl rfl)
        · exact (g.tr (Sim.modObj _ e.objs.length (fun o => { o with rxOpen := false }) (by sim_side) (by sim_side))).tr
            (Sim.same rfl rfl rfl)
      · rename_i req hl
        exact (gold (by intro q h; rw [hl] at h; cases h)).tr (Sim.enqFrame _ _ rfl rfl rfl)
      · rename_i hl
        exact (gold (by intro q h; rw [hl] at h; cases h)).tr (Sim.enqFrame _ _ rfl rfl rfl)
    · have gp : Sim x j (.msg (.frame (.acknowledge fid n)) :: l) e l e [] [] :=
        Sim.pop e _ (by intro m hm; cases hm; simp [isConn, isAck, isPush, isFin, isBind, hx]) rfl
      split
      · exact gp.tr (Sim.modObj _ _ _ (by sim_side) (by sim_side))
      · rename_i req hl
        simp only [hl] at hj
        have hjl : j ≠ e.objs.length := by
          refine J.ne_at hj (n := e.objs.length) (fid := fid) ?_ hx
          split
          · exact ⟨newObj e.opts fid n [] 0, by simp, rfl⟩
          · refine ⟨{ newObj e.opts fid n [] 0 with rxOpen := false }, ?_, rfl⟩
            simp [EP.modObj, setObj]
        have g := gp.tr (Sim.newOther e fid (newObj e.opts fid n [] 0) hsf hx rfl hjl)
        split
        · exact g.tr (Sim.same rfl rfl rfl)
        · exact (g.tr (Sim.modObj _ e.objs.length (fun o => { o with rxOpen := false }) (by sim_side) (by sim_side))).tr
            (Sim.same rfl rfl rfl)
      · exact gp.tr (Sim.enqFrame _ _ rfl rfl rfl)
      · exact gp.tr (Sim.enqFrame _ _ rfl rfl rfl)
  | finish fid =>
    simp only [Mux.processFrame, acceptedInto, processFrameEnds]
    by_cases hx : fid = x
    · subst hx
      have gfin : ∀ (s : Option Slot) (e' : EP),
          ((∃ i, lookup e.flows fid = some (.established i) ∧ s = lookup e.flows fid) ∨
            ((∀ i, lookup e.flows fid ≠ some (.established i)) ∧ s = none)) →
          view fid j e' l = { view fid j e (.msg (.frame (.finish fid)) :: l) with inbox := l, slot := s, canJ := false } →
          SimX fid j (.msg (.frame (.finish fid)) :: l) e l e' [] []
            (if lookup e.flows fid = some (.established j) then [.fin] else []) := fun s e' hs hv =>
        SimX.one (AStep.popFin (view fid j e (_ :: l)) l s rfl hs) hv rfl rfl rfl
      cases hl : lookup e.flows fid with
      | none =>
        refine ((gfin none e (Or.inr ⟨(by intro i h; rw [hl] at h; cases h), rfl⟩) (by simp [view, canAcc, canAccF, hl])).trans
          (Sim.enqFrame e (.reset fid) rfl rfl rfl).toX).lbl rfl rfl ?_
        simp [closeFlowEnds, hl]
      | some sl =>
        cases sl with
        | requested req =>
          simp only
          have hv : view fid j { e with flows := Mux.erase e.flows fid, opens := e.opens.filter (·.req ≠ req) } l =
              { view fid j e (.msg (.frame (.finish fid)) :: l) with inbox := l, slot := none, canJ := false } := by
            simp [view, canAcc, canAccF, lookup_erase_self, bindHeld]
          refine ((gfin none _ (Or.inr ⟨(by intro i h; rw [hl] at h; cases h), rfl⟩) hv).trans
            (Sim.enqFrame _ (.reset fid) rfl rfl rfl).toX).lbl ?_ rfl ?_
          · split <;> rfl
          · simp [closeFlowEnds, hl, slotEnds]
        | bindRequested req =>
          simp only
          have hv : view fid j { e with flows := Mux.erase e.flows fid } l =
              { view fid j e (.msg (.frame (.finish fid)) :: l) with inbox := l, slot := none, canJ := false } := by
            simp [view, canAcc, canAccF, lookup_erase_self, bindHeld]
          refine (gfin none _ (Or.inr ⟨(by intro i h; rw [hl] at h; cases h), rfl⟩) hv).lbl rfl rfl ?_
          simp [closeFlowEnds, hl, slotEnds]
        | established i =>
          simp only
          have hi : i < e.objs.length := hsf.lt fid i hl
          have hv : view fid j (e.modObj i (fun o => { o with senderAlive := false })) l =
              { view fid j e (.msg (.frame (.finish fid)) :: l) with inbox := l, slot := lookup e.flows fid, canJ := false } := by
            have h1 : canAccF fid j e.flows (e.objs.modify i (fun o => { o with senderAlive := false })) = false := by
              simp only [canAccF, hl, List.getElem?_modify]
              by_cases hij : i = j
              · subst hij; cases e.objs[i]? <;> simp
              · simp [hij]
            have h2 : rxOpenJ j (e.objs.modify i (fun o => { o with senderAlive := false })) = rxOpenJ j e.objs := by
              simp only [rxOpenJ, List.getElem?_modify]
              by_cases hij : i = j
              · subst hij; cases e.objs[i]? <;> simp
              · simp [hij]
            simp [view, canAcc, h1, h2, EP.modObj, setObj, countP_modify_eq, bindHeld, hl]
          refine (gfin _ _ (Or.inl ⟨i, hl, rfl⟩) hv).lbl rfl rfl ?_
          simp only [closeFlowEnds, hl, slotEnds, hi, if_true, finsOf]
          by_cases hij : i = j
          · subst hij; simp
          · have : ¬ (Slot.established i = Slot.established j) := by intro h; cases h; exact hij rfl
            simp [hij, this]
    · have hlab : finsOf x j (closeFlowEnds e fid (.peerFinish fid)) = [] :=
        finsOf_closeFlowEnds_ne _ _ _ (by intro h; cases h; exact hx rfl)
      refine (Sim.toX ?_).rec hlab
      have gp : Sim x j (.msg (.frame (.finish fid)) :: l) e l e [] [] :=
        Sim.pop e _ (by intro m hm; cases hm; simp [isConn, isAck, isPush, isFin, isBind, hx]) rfl
      split
      · exact gp.tr (Sim.enqFrame _ _ rfl rfl rfl (by simp [isFin]))
      · exact (gp.tr (Sim.erase e fid)).lbl rfl rfl
      · rename_i req _
        have g1 : Sim x j l e l { e with flows := Mux.erase e.flows fid, opens := e.opens.filter (·.req ≠ req) } [] [] :=
          (Sim.erase e fid).congr rfl rfl
        refine ((gp.tr g1).tr (Sim.enqFrame _ (.reset fid) rfl rfl rfl)).lbl ?_ rfl
        split <;> rfl
      · rename_i i hl
        refine gp.tr (Sim.modObjG _ _ _ (by sim_side)
          (by intro o; exact ⟨(by intro h; cases h), fun h => h, fun h => h⟩) ?_)
        intro _ hij
        subst hij
        exact absurd (hsf.noForeign hje fid hl) hx
  | reset fid =>
    refine (Sim.toX ?_).rec (finsOf_closeFlowEnds_ne _ _ _ (by intro h; cases h))
    simp only [Mux.processFrame, acceptedInto]
    have gp : Sim x j (.msg (.frame (.reset fid)) :: l) e l e [] [] :=
      Sim.pop e _ (by intro m hm; cases hm; simp [isConn, isAck, isPush, isFin, isBind]) rfl
    exact gp.tr0 (Sim.closeFlow e fid true hsf hje)
  | push fid d =>
    refine (Sim.toX ?_).rec (by simp only [processFrameEnds]; split <;> first | rfl | exact finsOf_closeFlowEnds_ne _ _ _ (by intro h; cases h))
    simp only [Mux.processFrame, acceptedInto]
    by_cases hx : fid = x
    · subst hx
      -- rejected without a change of the slot: `j` was not accepting
      have grej : canAcc fid j e = false → Sim fid j (.msg (.frame (.push fid d)) :: l) e l e [] [] := fun hc => by
        refine Sim.one (AStep.pushRej (view fid j e (_ :: l)) d l (lookup e.flows fid) rfl (Or.inl ⟨rfl, hc⟩)) ?_ rfl rfl
        simp [view, hc]
      cases hl : lookup e.flows fid with
      | none => exact (grej (by simp [canAcc, canAccF, hl])).tr (Sim.enqFrame _ _ rfl rfl rfl)
      | some s =>
        cases s with
        | requested r => exact (grej (by simp [canAcc, canAccF, hl])).tr (Sim.enqFrame _ _ rfl rfl rfl)
        | bindRequested r => exact (grej (by simp [canAcc, canAccF, hl])).tr (Sim.enqFrame _ _ rfl rfl rfl)
        | established i =>
          simp only
          cases ho : e.obj? i with
          | none =>
            refine grej ?_
            simp only [canAcc, canAccF, hl]
            by_cases hij : i = j
            · subst hij; simp only [EP.obj?] at ho; simp [ho]
            · simp [hij]
          | some o =>
            simp only
            have ho' : e.objs[i]? = some o := ho
            by_cases h1 : o.senderAlive = true
            · by_cases h2 : o.rxOpen = true
              · by_cases h3 : o.rxq.length < o.cap
                · simp only [h1, h2, h3, Bool.not_true, Bool.false_eq_true, if_false, if_true, Bool.and_self, decide_true]
                  by_cases hij : i = j
                  · subst hij
                    have hc : canAcc fid i e = true := by simp [canAcc, canAccF, hl, ho', h1, h2]
                    have g : Sim fid i (.msg (.frame (.push fid d)) :: l) e l e [] [(i, d)] :=
                      Sim.one (AStep.pushAcc (view fid i e (_ :: l)) d l rfl hc) rfl rfl (Log.dataOf_single_self i d)
                    exact g.tr1 (Sim.modObj _ _ _ (by sim_side) (by sim_side))
                  · have hc : canAcc fid j e = false := by simp [canAcc, canAccF, hl, hij]
                    exact ((grej hc).tr (Sim.modObj _ _ _ (by sim_side) (by sim_side))).lbl rfl
                      (by rw [Log.dataOf_single_ne _ _ _ hij]; rfl)
                · simp only [h1, h2, h3, Bool.not_true, Bool.false_eq_true, if_false, Bool.and_false, decide_false,
                    Bool.and_true]
                  -- the queue is full: the flow is closed
                  have g : Sim fid j (.msg (.frame (.push fid d)) :: l) e l { e with flows := Mux.erase e.flows fid } [] [] := by
                    refine Sim.one (AStep.pushRej (view fid j e (_ :: l)) d l none rfl (Or.inr rfl)) ?_ rfl rfl
                    simp [view, canAcc, canAccF, lookup_erase_self, bindHeld]
                  unfold Mux.closeFlow
                  simp only [hl]
                  exact g.tr0 (Sim.closeLocal _ _ _ _ _ (by intro hc; simp [canAcc, canAccF, lookup_erase_self] at hc))
              · simp only [Bool.not_eq_true] at h2
                simp only [h1, h2, Bool.not_true, Bool.not_false, Bool.false_eq_true, if_false, if_true, Bool.and_false,
                  Bool.false_and]
                refine grej ?_
                simp only [canAcc, canAccF, hl]
                by_cases hij : i = j
                · subst hij; simp [ho', h2]
                · simp [hij]
            · simp only [Bool.not_eq_true] at h1
              simp only [h1, Bool.not_false, if_true, Bool.false_and, Bool.false_eq_true, if_false]
              refine (grej ?_).tr (Sim.enqFrame _ _ rfl rfl rfl)
              simp only [canAcc, canAccF, hl]
              by_cases hij : i = j
              · subst hij; simp [ho', h1]
              · simp [hij]
    · have gp : Sim x j (.msg (.frame (.push fid d)) :: l) e l e [] [] :=
        Sim.pop e _ (by intro m hm; cases hm; simp [isConn, isAck, isPush, isFin, isBind, hx]) rfl
      cases hl : lookup e.flows fid with
      | none => exact gp.tr (Sim.enqFrame _ _ rfl rfl (by simp [isPush]))
      | some s =>
        cases s with
        | requested r => exact gp.tr (Sim.enqFrame _ _ rfl rfl (by simp [isPush]))
        | bindRequested r => exact gp.tr (Sim.enqFrame _ _ rfl rfl (by simp [isPush]))
        | established i =>
          simp only
          have hij : i ≠ j := by
            intro h; subst h
            exact hx (hsf.noForeign hje fid hl)
          cases ho : e.obj? i with
          | none => exact gp
          | some o =>
            simp only
            by_cases h1 : o.senderAlive = true
            · by_cases h2 : o.rxOpen = true
              · by_cases h3 : o.rxq.length < o.cap
                · simp only [h1, h2, h3, Bool.not_true, Bool.false_eq_true, if_false, if_true, Bool.and_self, decide_true]
                  exact (gp.tr (Sim.modObj _ _ _ (by sim_side) (by sim_side))).lbl rfl
                    (by rw [Log.dataOf_single_ne _ _ _ hij]; rfl)
                · simp only [h1, h2, h3, Bool.not_true, Bool.false_eq_true, if_false, Bool.and_false, decide_false,
                    Bool.and_true]
                  exact gp.tr0 (Sim.closeFlow e fid false hsf hje)
              · simp only [Bool.not_eq_true] at h2
                simp only [h1, h2, Bool.not_true, Bool.not_false, Bool.false_eq_true, if_false, if_true, Bool.and_false,
                  Bool.false_and]
                exact gp
            · simp only [Bool.not_eq_true] at h1
              simp only [h1, Bool.not_false, if_true, Bool.false_and, Bool.false_eq_true, if_false]
              exact gp.tr (Sim.enqFrame _ _ rfl rfl (by simp [isPush]))
  | bind fid bt port host =>
    refine (Sim.toX ?_).rec rfl
    simp only [Mux.processFrame, acceptedInto]
    by_cases hx : fid = x
    · subst hx
      have gb : ∀ (b : Bool) (e' : EP), (bindHeld fid e = true → b = true) →
          view fid j e' l = { view fid j e (.msg (.frame (.bind fid bt port host)) :: l) with inbox := l, bh := b } →
          Sim fid j (.msg (.frame (.bind fid bt port host)) :: l) e l e' [] [] := fun b e' hb hv =>
        Sim.one (AStep.popBind (view fid j e (_ :: l)) _ l b rfl (by simp [isBind]) hb) hv rfl rfl
      have gsame := gb (bindHeld fid e) e (fun h => h) rfl
      split
      · exact gsame.tr (Sim.enqFrame _ _ rfl rfl rfl)
      · split
        · exact gsame
        · split
          · exact gsame.tr (Sim.enqFrame _ _ rfl rfl rfl)
          · refine gb true _ (fun _ => rfl) ?_
            unfold Mux.offerBind
            split <;> simp [view, canAcc, bindHeld]
    · have gp : Sim x j (.msg (.frame (.bind fid bt port host)) :: l) e l e [] [] :=
        Sim.pop e _ (by intro m hm; cases hm; simp [isConn, isAck, isPush, isFin, isBind, hx]) rfl
      repeat' split
      all_goals first | exact gp | exact gp.tr (Sim.enqFrame _ _ rfl rfl rfl) | exact gp.tr (Sim.offerBind _ _ hx)
  | datagram fid port host d =>
    refine (Sim.toX ?_).rec rfl
    simp only [Mux.processFrame, acceptedInto]
    have gp : Sim x j (.msg (.frame (.datagram fid port host d)) :: l) e l e [] [] :=
      Sim.pop e _ (by intro m hm; cases hm; simp [isConn, isAck, isPush, isFin, isBind]) rfl
    repeat' split
    all_goals first | exact gp | exact gp.tr (Sim.same rfl rfl rfl)

end Penguin.PairAll
