/-
`Sim` for the functions that open, close and process flows: `openRound`, `closeFlow`, `processFrame`,
`processIn`.  The inbox is an argument of `Sim`: the item being processed is its head before, and gone after.
Core Lean only.
-/
import Penguin.Lemmas.PairAllSimBase

namespace Penguin.PairAll
open Penguin.Mux

variable {x j : Nat}

theorem canAcc_of_none (e : EP) (h : lookup e.flows x = none) : canAcc x j e = false := by
  simp [canAcc, canAccF, h]

theorem lookup_insert (m : List (Nat × Slot)) (k y : Nat) (v : Slot) :
    lookup (Mux.insert m k v) y = if y = k then some v else lookup m y := by
  by_cases h : y = k
  · subst h; simp [lookup_insert_self]
  · simp [h, lookup_insert_ne _ _ _ _ h]

/-- Ids are consumed from the script. -/
theorem Sim.rngStep {l : List WsIn} (e e' : EP) (rng' : List Nat) (h1 : rng'.count x ≤ e.rng.count x)
    (h2 : e.rng.isEmpty = true → rng'.isEmpty = true)
    (hv : view x j e' l = { view x j e l with cnt := rng'.count x, rngNil := rng'.isEmpty }) :
    Sim x j l e l e' [] [] :=
  Sim.one (AStep.rng (view x j e l) (rng'.count x) rng'.isEmpty h1 h2) hv rfl rfl

theorem Sim.openRound {l : List WsIn} (e : EP) (r : OpenReq) : Sim x j l e l (openRound e r).1 (openRound e r).2 [] := by
  unfold Mux.openRound
  split
  · sim_same
  · split
    · sim_same
    · rename_i fid rng' fb' hd
      obtain ⟨hc1, hc2, hc3⟩ := drawId_count _ _ _ _ _ _ _ hd x
      obtain ⟨_, hfree⟩ := drawId_spec _ _ _ _ _ _ _ hd
      simp only
      split
      · exact Sim.rngStep e _ rng' hc1 hc2 rfl
      · rename_i hoc
        have hoc' : e.outClosed = false := by simpa using hoc
        by_cases hx : fid = x
        · subst hx
          refine Sim.one (AStep.draw (view fid j e l) (rng'.count fid) rng'.isEmpty (.requested r.req)
            (.frame (.connect fid e.opts.rwnd r.port r.host)) hc1 hc2 (hc3 rfl) hfree hoc' (by intro i h; cases h)
            rfl (by simp [isPush])) ?_ rfl rfl
          simp [view, EP.enqFrame, EP.enq, hoc', lookup_insert_self, canAcc, canAccF, hfree]
        · have g1 : Sim x j l e l { e with rng := rng', fallback := fb' } [] [] := Sim.rngStep e _ rng' hc1 hc2 rfl
          have g2 : Sim x j l { e with rng := rng', fallback := fb' } l
              { e with rng := rng', fallback := fb', flows := Mux.insert e.flows fid (.requested r.req),
                       opens := { r with retriesLeft := r.retriesLeft - 1 } :: e.opens.filter (·.req ≠ r.req) } [] [] :=
            (Sim.flows { e with rng := rng', fallback := fb' } (Mux.insert e.flows fid (.requested r.req))
              (Or.inl (lookup_insert_ne _ _ _ _ (Ne.symm hx)))).congr rfl rfl
          exact (g1.tr g2).tr (Sim.enqFrame _ _ (by simp [isConn, hx]) rfl rfl)

theorem Sim.openRejected {l : List WsIn} (e : EP) (req : Nat) (final : Bool) :
    Sim x j l e l (openRejected e req final).1 (openRejected e req final).2 [] := by
  unfold Mux.openRejected
  repeat' split
  all_goals sim_same

theorem Sim.closeLocal {l : List WsIn} (e : EP) (s : Slot) (fid : Nat) (inh final : Bool) :
    Sim x j l e l (closeLocal e s fid inh final).1 (closeLocal e s fid inh final).2 [] := by
  unfold Mux.closeLocal
  cases s with
  | established i =>
    simp only
    cases ho : e.obj? i with
    | none => exact Sim.refl l e
    | some o =>
      simp only
      have g := Sim.modObj (x := x) (j := j) (l := l) e i (fun o => { o.disallowWrite with senderAlive := false })
        (by sim_side) (by sim_side)
      split
      · exact g.tr (Sim.enqFrame _ _ rfl rfl rfl)
      · exact g
  | requested req => exact Sim.openRejected e req final
  | bindRequested req => sim_same

theorem Sim.closeFlow {l : List WsIn} (e : EP) (fid : Nat) (inh : Bool) :
    Sim x j l e l (closeFlow e fid inh).1 (closeFlow e fid inh).2 [] := by
  unfold Mux.closeFlow
  split
  · exact Sim.refl l e
  · exact (Sim.erase e fid).tr0 (Sim.closeLocal _ _ _ _ _)

theorem Sim.offerAccept {l : List WsIn} (e : EP) (i : Nat) : Sim x j l e l (offerAccept e i) [] [] := by
  unfold Mux.offerAccept; split <;> sim_same

theorem Sim.offerBind {l : List WsIn} (e : EP) (b : BindIn) : Sim x j l e l (offerBind e b) [] [] := by
  unfold Mux.offerBind; split <;> sim_same

/-- An item that is not a `Connect x`, `Acknowledge x`, `Push x` is taken from the source. -/
theorem Sim.pop {l : List WsIn} (e : EP) (w : WsIn)
    (hw : ∀ m, w = .msg m → isConn x m = false ∧ isAck x m = false ∧ isPush x m = false) (hend : isEnd w = false) :
    Sim x j (w :: l) e l e [] [] := by
  refine Sim.one (AStep.pop (view x j e (w :: l)) w l rfl hw) ?_ rfl rfl
  simp [view, hend]


/-- A stream object of another flow is created: the view of `x` only sees the object count grow. -/
theorem canAccF_newOther (fl : List (Nat × Slot)) (objs : List Obj) (fid : Nat) (o : Obj)
    (hsf : ∀ i, lookup fl x = some (.established i) → i < objs.length) (hx : fid ≠ x) :
    canAccF x j (Mux.insert fl fid (.established objs.length)) (objs ++ [o]) = canAccF x j fl objs := by
  simp only [canAccF, lookup_insert_ne _ _ _ _ (Ne.symm hx)]
  cases hl : lookup fl x with
  | none => rfl
  | some s =>
    cases s with
    | requested r => rfl
    | bindRequested r => rfl
    | established i =>
      simp only
      have hi : i < objs.length := hsf i hl
      by_cases hij : i = j
      · subst hij
        rw [List.getElem?_append_left hi]
      · have hb : (i == j) = false := beq_false_of_ne hij
        rw [hb]; rfl

theorem SF.lt {e : EP} (hsf : SF e) (y i : Nat) (h : lookup e.flows y = some (.established i)) : i < e.objs.length := by
  obtain ⟨o', ho', _⟩ := hsf y i h
  exact (List.getElem?_eq_some_iff.mp ho').1

theorem Sim.newOther {l : List WsIn} (e : EP) (fid : Nat) (o : Obj) (hsf : SF e) (hx : fid ≠ x) (hf : o.fid = fid) :
    Sim x j l e l { e with objs := e.objs ++ [o], flows := Mux.insert e.flows fid (.established e.objs.length) } [] [] := by
  refine Sim.one (AStep.grow (view x j e l) (e.objs.length + 1) (Nat.le_succ _)) ?_ rfl rfl
  have hne : (o.fid == x) = false := by simp [hf, hx]
  simp [view, canAcc, canAccF_newOther e.flows e.objs fid o (hsf.lt x) hx, lookup_insert_ne _ _ _ _ (Ne.symm hx), List.countP_append, hne]

@[simp] theorem newObj_fid (o : Opts) (fid r : Nat) (h : Bytes) (p : Nat) : (newObj o fid r h p).fid = fid := rfl

theorem canAccF_newSelf (fl : List (Nat × Slot)) (objs : List Obj) (o : Obj) (ha : o.senderAlive = true) (hr : o.rxOpen = true) :
    canAccF x j (Mux.insert fl x (.established objs.length)) (objs ++ [o]) = (objs.length == j) := by
  unfold canAccF
  simp only [lookup_insert_self]
  by_cases h : objs.length = j
  · subst h; simp [ha, hr]
  · simp [h]

/-- `process_frame`: the frame is the head of the inbox before, and gone after. -/
theorem Sim.processFrame {l : List WsIn} (e : EP) (f : Frame) (ig : Bool) (hsf : SF e)
    (hj : J x j (processFrame e f ig).1) :
    Sim x j (.msg (.frame f) :: l) e l (processFrame e f ig).1 (processFrame e f ig).2.1 (acceptedInto e f) := by
  have hje : J x j e := hj.back (Grow.processFrame e f ig)
  cases f with
  | connect fid rwnd port host =>
    simp only [Mux.processFrame, acceptedInto]
    by_cases hx : fid = x
    · subst hx
      split
      · exact (Sim.one (AStep.connRej (view fid j e (_ :: l)) _ l rfl (by simp [isConn])) rfl rfl rfl :
          Sim fid j (.msg (.frame (.connect fid rwnd port host)) :: l) e l e [] []).tr (Sim.enqFrame _ _ rfl rfl rfl)
      · rename_i hc
        have hfree : lookup e.flows fid = none := by
          cases hl : lookup e.flows fid with
          | none => rfl
          | some s => simp [hl] at hc
        have hnew : ∀ e' : EP,
            view fid j e' l = { view fid j e (.msg (.frame (.connect fid rwnd port host)) :: l) with
              inbox := l, slot := some (.established e.objs.length), len := e.objs.length + 1,
              nobj := e.objs.countP (fun o => o.fid == fid) + 1, canJ := e.objs.length == j,
              outq := if e.outClosed then e.outq else e.outq ++ [.frame (.acknowledge fid e.opts.rwnd)] } →
            Sim fid j (.msg (.frame (.connect fid rwnd port host)) :: l) e l e' [] [] := fun e' hv =>
          Sim.one (AStep.connNew (view fid j e (_ :: l)) _ l e.opts.rwnd rfl (by simp [isConn]) hfree) hv rfl rfl
        have hcan := canAccF_newSelf (x := fid) (j := j) e.flows e.objs (newObj e.opts fid rwnd host port) rfl rfl
        split
        · rename_i hoc
          refine hnew _ ?_
          simp [view, canAcc, hcan, hoc, lookup_insert_self, List.countP_append, newObj_fid]
        · rename_i hoc
          simp only [Bool.not_eq_true] at hoc
          have g := hnew (EP.enqFrame { e with objs := e.objs ++ [newObj e.opts fid rwnd host port], flows := Mux.insert e.flows fid (.established e.objs.length) } (.acknowledge fid e.opts.rwnd)) (by
            simp [view, canAcc, hcan, EP.enqFrame, EP.enq, hoc, lookup_insert_self, List.countP_append, newObj_fid])
          split
          · exact (g.tr (Sim.modObj _ e.objs.length (fun o => { o with rxOpen := false }) (by sim_side) (by sim_side))).tr
              (Sim.same rfl rfl rfl)
          · exact g.tr (Sim.offerAccept _ _)
    · have gp : Sim x j (.msg (.frame (.connect fid rwnd port host)) :: l) e l e [] [] :=
        Sim.pop e _ (by intro m hm; cases hm; simp [isConn, isAck, isPush, hx]) rfl
      split
      · exact gp.tr (Sim.enqFrame _ _ rfl rfl rfl)
      · have g := gp.tr (Sim.newOther e fid (newObj e.opts fid rwnd host port) hsf hx rfl)
        split
        · exact g
        · split
          · exact ((g.tr (Sim.enqFrame _ (.acknowledge fid e.opts.rwnd) rfl (by simp [isAck, hx]) rfl)).tr
              (Sim.modObj _ e.objs.length (fun o => { o with rxOpen := false }) (by sim_side) (by sim_side))).tr
              (Sim.same rfl rfl rfl)
          · exact (g.tr (Sim.enqFrame _ (.acknowledge fid e.opts.rwnd) rfl (by simp [isAck, hx]) rfl)).tr (Sim.offerAccept _ _)
  | acknowledge fid n =>
    simp only [Mux.processFrame, acceptedInto]
    by_cases hx : fid = x
    · subst hx
      have gold : (∀ q, lookup e.flows fid ≠ some (.requested q)) →
          Sim fid j (.msg (.frame (.acknowledge fid n)) :: l) e l e [] [] := fun h =>
        Sim.one (AStep.ackOld (view fid j e (_ :: l)) _ l rfl (by simp [isAck]) h) rfl rfl rfl
      split
      · rename_i i hl
        exact (gold (by intro q h; rw [hl] at h; cases h)).tr (Sim.modObj _ _ _ (by sim_side) (by sim_side))
      · rename_i req hl
        have hcan := canAccF_newSelf (x := fid) (j := j) e.flows e.objs (newObj e.opts fid n [] 0) rfl rfl
        have g : Sim fid j (.msg (.frame (.acknowledge fid n)) :: l) e l
            { e with objs := e.objs ++ [newObj e.opts fid n [] 0], flows := Mux.insert e.flows fid (.established e.objs.length) } [] [] := by
          refine Sim.one (AStep.ackNew (view fid j e (_ :: l)) _ l req rfl (by simp [isAck]) hl) ?_ rfl rfl
          simp [view, canAcc, hcan, lookup_insert_self, List.countP_append, newObj_fid]
        split
        · exact g.tr (Sim.same rfl rfl rfl)
        · exact (g.tr (Sim.modObj _ e.objs.length (fun o => { o with rxOpen := false }) (by sim_side) (by sim_side))).tr
            (Sim.same rfl rfl rfl)
      · rename_i req hl
        exact (gold (by intro q h; rw [hl] at h; cases h)).tr (Sim.enqFrame _ _ rfl rfl rfl)
      · rename_i hl
        exact (gold (by intro q h; rw [hl] at h; cases h)).tr (Sim.enqFrame _ _ rfl rfl rfl)
    · have gp : Sim x j (.msg (.frame (.acknowledge fid n)) :: l) e l e [] [] :=
        Sim.pop e _ (by intro m hm; cases hm; simp [isConn, isAck, isPush, hx]) rfl
      split
      · exact gp.tr (Sim.modObj _ _ _ (by sim_side) (by sim_side))
      · have g := gp.tr (Sim.newOther e fid (newObj e.opts fid n [] 0) hsf hx rfl)
        split
        · exact g.tr (Sim.same rfl rfl rfl)
        · exact (g.tr (Sim.modObj _ e.objs.length (fun o => { o with rxOpen := false }) (by sim_side) (by sim_side))).tr
            (Sim.same rfl rfl rfl)
      · exact gp.tr (Sim.enqFrame _ _ rfl rfl rfl)
      · exact gp.tr (Sim.enqFrame _ _ rfl rfl rfl)
  | finish fid =>
    simp only [Mux.processFrame, acceptedInto]
    have gp : Sim x j (.msg (.frame (.finish fid)) :: l) e l e [] [] :=
      Sim.pop e _ (by intro m hm; cases hm; simp [isConn, isAck, isPush]) rfl
    split
    · exact gp.tr (Sim.enqFrame _ _ rfl rfl rfl)
    · exact (gp.tr (Sim.erase e fid)).lbl rfl rfl
    · rename_i req _
      have g1 : Sim x j l e l { e with flows := Mux.erase e.flows fid, opens := e.opens.filter (·.req ≠ req) } [] [] :=
        (Sim.erase e fid).congr rfl rfl
      refine ((gp.tr g1).tr (Sim.enqFrame _ (.reset fid) rfl rfl rfl)).lbl ?_ rfl
      split <;> rfl
    · exact gp.tr (Sim.modObj _ _ _ (by sim_side) (by sim_side))
  | reset fid =>
    simp only [Mux.processFrame, acceptedInto]
    have gp : Sim x j (.msg (.frame (.reset fid)) :: l) e l e [] [] :=
      Sim.pop e _ (by intro m hm; cases hm; simp [isConn, isAck, isPush]) rfl
    exact gp.tr0 (Sim.closeFlow e fid true)
  | push fid d =>
    simp only [Mux.processFrame, acceptedInto]
    by_cases hx : fid = x
    · subst hx
      -- rejected without a change of the slot: `j` was not accepting
      have grej : canAcc fid j e = false → Sim fid j (.msg (.frame (.push fid d)) :: l) e l e [] [] := fun hc => by
        refine Sim.one (AStep.pushRej (view fid j e (_ :: l)) d l (lookup e.flows fid) rfl (Or.inl ⟨rfl, hc⟩)) ?_ rfl rfl
        simp [view, hc]
      cases hl : lookup e.flows fid with
      | none => exact (grej (by simp [canAcc, canAccF, hl])).tr (Sim.enqFrame _ _ rfl rfl rfl)
      | some s =>
        cases s with
        | requested r => exact (grej (by simp [canAcc, canAccF, hl])).tr (Sim.enqFrame _ _ rfl rfl rfl)
        | bindRequested r => exact (grej (by simp [canAcc, canAccF, hl])).tr (Sim.enqFrame _ _ rfl rfl rfl)
        | established i =>
          simp only
          cases ho : e.obj? i with
          | none =>
            refine grej ?_
            simp only [canAcc, canAccF, hl]
            by_cases hij : i = j
            · subst hij; simp only [EP.obj?] at ho; simp [ho]
            · simp [hij]
          | some o =>
            simp only
            have ho' : e.objs[i]? = some o := ho
            by_cases h1 : o.senderAlive = true
            · by_cases h2 : o.rxOpen = true
              · by_cases h3 : o.rxq.length < o.cap
                · simp only [h1, h2, h3, Bool.not_true, Bool.false_eq_true, if_false, if_true, Bool.and_self, decide_true]
                  by_cases hij : i = j
                  · subst hij
                    have hc : canAcc fid i e = true := by simp [canAcc, canAccF, hl, ho', h1, h2]
                    have g : Sim fid i (.msg (.frame (.push fid d)) :: l) e l e [] [(i, d)] :=
                      Sim.one (AStep.pushAcc (view fid i e (_ :: l)) d l rfl hc) rfl rfl (Log.dataOf_single_self i d)
                    exact g.tr1 (Sim.modObj _ _ _ (by sim_side) (by sim_side))
                  · have hc : canAcc fid j e = false := by simp [canAcc, canAccF, hl, hij]
                    exact ((grej hc).tr (Sim.modObj _ _ _ (by sim_side) (by sim_side))).lbl rfl
                      (by rw [Log.dataOf_single_ne _ _ _ hij]; rfl)
                · simp only [h1, h2, h3, Bool.not_true, Bool.false_eq_true, if_false, Bool.and_false, decide_false,
                    Bool.and_true]
                  -- the queue is full: the flow is closed
                  have g : Sim fid j (.msg (.frame (.push fid d)) :: l) e l { e with flows := Mux.erase e.flows fid } [] [] := by
                    refine Sim.one (AStep.pushRej (view fid j e (_ :: l)) d l none rfl (Or.inr rfl)) ?_ rfl rfl
                    simp [view, canAcc, canAccF, lookup_erase_self]
                  unfold Mux.closeFlow
                  simp only [hl]
                  exact g.tr0 (Sim.closeLocal _ _ _ _ _)
              · simp only [Bool.not_eq_true] at h2
                simp only [h1, h2, Bool.not_true, Bool.not_false, Bool.false_eq_true, if_false, if_true, Bool.and_false,
                  Bool.false_and]
                refine grej ?_
                simp only [canAcc, canAccF, hl]
                by_cases hij : i = j
                · subst hij; simp [ho', h2]
                · simp [hij]
            · simp only [Bool.not_eq_true] at h1
              simp only [h1, Bool.not_false, if_true, Bool.false_and, Bool.false_eq_true, if_false]
              refine (grej ?_).tr (Sim.enqFrame _ _ rfl rfl rfl)
              simp only [canAcc, canAccF, hl]
              by_cases hij : i = j
              · subst hij; simp [ho', h1]
              · simp [hij]
    · have gp : Sim x j (.msg (.frame (.push fid d)) :: l) e l e [] [] :=
        Sim.pop e _ (by intro m hm; cases hm; simp [isConn, isAck, isPush, hx]) rfl
      cases hl : lookup e.flows fid with
      | none => exact gp.tr (Sim.enqFrame _ _ rfl rfl (by simp [isPush]))
      | some s =>
        cases s with
        | requested r => exact gp.tr (Sim.enqFrame _ _ rfl rfl (by simp [isPush]))
        | bindRequested r => exact gp.tr (Sim.enqFrame _ _ rfl rfl (by simp [isPush]))
        | established i =>
          simp only
          have hij : i ≠ j := by
            intro h; subst h
            exact hx (hsf.noForeign hje fid hl)
          cases ho : e.obj? i with
          | none => exact gp
          | some o =>
            simp only
            by_cases h1 : o.senderAlive = true
            · by_cases h2 : o.rxOpen = true
              · by_cases h3 : o.rxq.length < o.cap
                · simp only [h1, h2, h3, Bool.not_true, Bool.false_eq_true, if_false, if_true, Bool.and_self, decide_true]
                  exact (gp.tr (Sim.modObj _ _ _ (by sim_side) (by sim_side))).lbl rfl
                    (by rw [Log.dataOf_single_ne _ _ _ hij]; rfl)
                · simp only [h1, h2, h3, Bool.not_true, Bool.false_eq_true, if_false, Bool.and_false, decide_false,
                    Bool.and_true]
                  exact gp.tr0 (Sim.closeFlow e fid false)
              · simp only [Bool.not_eq_true] at h2
                simp only [h1, h2, Bool.not_true, Bool.not_false, Bool.false_eq_true, if_false, if_true, Bool.and_false,
                  Bool.false_and]
                exact gp
            · simp only [Bool.not_eq_true] at h1
              simp only [h1, Bool.not_false, if_true, Bool.false_and, Bool.false_eq_true, if_false]
              exact gp.tr (Sim.enqFrame _ _ rfl rfl (by simp [isPush]))
  | bind fid bt port host =>
    simp only [Mux.processFrame, acceptedInto]
    have gp : Sim x j (.msg (.frame (.bind fid bt port host)) :: l) e l e [] [] :=
      Sim.pop e _ (by intro m hm; cases hm; simp [isConn, isAck, isPush]) rfl
    repeat' split
    all_goals first | exact gp | exact gp.tr (Sim.enqFrame _ _ rfl rfl rfl) | exact gp.tr (Sim.offerBind _ _)
  | datagram fid port host d =>
    simp only [Mux.processFrame, acceptedInto]
    have gp : Sim x j (.msg (.frame (.datagram fid port host d)) :: l) e l e [] [] :=
      Sim.pop e _ (by intro m hm; cases hm; simp [isConn, isAck, isPush]) rfl
    repeat' split
    all_goals first | exact gp | exact gp.tr (Sim.same rfl rfl rfl)

end Penguin.PairAll
