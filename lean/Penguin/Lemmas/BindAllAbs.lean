/-
The pair of BIND VIEWS (`Lemmas/BindAllView.lean`) of two endpoints, joined by the two wires, with the two
observers' records, and its small steps: one `BStep` of either side (what it sends goes onto its wire, what
the observer records is appended to its record), a delivery, a lost wire (cut, or a delivered Close).
Everything here is about plain lists and records; the endpoint model does not occur.
Core Lean only.
-/
import Penguin.Lemmas.BindAllView

namespace Penguin.BindAll
open Penguin.Mux
open Penguin.PairAll (inMsgs inMsgs_append)

/-- Two bind views, the wires between them, the observers' records. -/
structure BC where
  a : BV
  b : BV
  ab : List Msg
  ba : List Msg
  abOpen : Bool
  baOpen : Bool
  ga : List BEv
  gb : List BEv

def BC.swap (c : BC) : BC :=
  { a := c.b, b := c.a, ab := c.ba, ba := c.ab, abOpen := c.baOpen, baOpen := c.abOpen, ga := c.gb, gb := c.ga }

@[simp] theorem BC.swap_swap (c : BC) : c.swap.swap = c := rfl

/-- A small step in which the LEFT view acts or receives. -/
inductive CStepL : BC → BC → Prop
  | act (c : BC) (v : BV) (ws : List Msg) (gs : List BEv) (h : BStep c.a v ws gs) :
      CStepL c { c with a := v, ab := if c.abOpen then c.ab ++ ws else c.ab, ga := c.ga ++ gs }
  /-- the oldest message in transit is delivered (and ignored by a source that has ended) -/
  | dlv (c : BC) (m : Msg) (rest : List Msg) (deaf : Bool) (h : c.ba = m :: rest) (hd : deaf = deafV c.a) :
      CStepL c { c with ba := rest, a := { c.a with inbox := if deaf then c.a.inbox else c.a.inbox ++ [.msg m] } }
  /-- the wire to the left side is lost (a cut, or a Close was delivered): items that are not frames may
      enter the inbox -/
  | lose (c : BC) (extra : List WsIn) (deaf : Bool) (hx : inMsgs extra = [] ∨ inMsgs extra = [.close]) :
      CStepL c { c with ba := [], baOpen := false,
                        a := { c.a with inbox := if deaf then c.a.inbox else c.a.inbox ++ extra } }

/-- The messages on their way from the left to the right endpoint, oldest first. -/
def BC.path (c : BC) : List Msg := inMsgs c.b.inbox ++ c.ab ++ c.a.outq

/-! ### Counting what concerns flow id `x` -/

def isConnX (x : Nat) : Msg → Bool
  | .frame (.connect f _ _ _) => f == x
  | _ => false
def isBindX (x : Nat) : Msg → Bool
  | .frame (.bind f _ _ _) => f == x
  | _ => false
def isFinX (x : Nat) : Msg → Bool
  | .frame (.finish f) => f == x
  | _ => false
def isAPX (x : Nat) : Msg → Bool
  | .frame (.acknowledge f _) => f == x
  | .frame (.push f _) => f == x
  | _ => false
def isRstX (x : Nat) : Msg → Bool
  | .frame (.reset f) => f == x
  | _ => false

def isBR (x : Nat) : Nat × Slot → Bool
  | (k, .bindRequested _) => k == x
  | _ => false
def isRQ (x : Nat) : Nat × Slot → Bool
  | (k, .requested _) => k == x
  | _ => false
def isES (x : Nat) : Nat × Slot → Bool
  | (k, .established _) => k == x
  | _ => false

def isAsked (x : Nat) : BEv → Bool
  | .asked _ f _ _ _ => f == x
  | _ => false
def isShown (x : Nat) : BEv → Bool
  | .shown _ f _ _ _ => f == x
  | _ => false

def parkX (x : Nat) : Option BindIn → Nat
  | some b => if b.fid == x then 1 else 0
  | none => 0

/-- Requests of flow `x` waiting at an endpoint: in the bind queue or parked. -/
def enX (x : Nat) (v : BV) : Nat := v.bindq.countP (·.fid == x) + parkX x v.park

/-- The numeric summary of the pair with respect to `x`. -/
structure Sm where
  ca : Nat
  cb : Nat
  bra : Nat
  brb : Nat
  rqa : Nat
  rqb : Nat
  esa : Nat
  esb : Nat
  fa : Nat
  fb : Nat
  asA : Nat
  asB : Nat
  shA : Nat
  shB : Nat
  enA : Nat
  enB : Nat
  hA : Nat
  hB : Nat
  cP : Nat
  bP : Nat
  fP : Nat
  apP : Nat
  cQ : Nat
  bQ : Nat
  fQ : Nat
  apQ : Nat

def Sm.swap (s : Sm) : Sm :=
  { ca := s.cb, cb := s.ca, bra := s.brb, brb := s.bra, rqa := s.rqb, rqb := s.rqa, esa := s.esb, esb := s.esa,
    fa := s.fb, fb := s.fa, asA := s.asB, asB := s.asA, shA := s.shB, shB := s.shA, enA := s.enB, enB := s.enA,
    hA := s.hB, hB := s.hA, cP := s.cQ, bP := s.bQ, fP := s.fQ, apP := s.apQ, cQ := s.cP, bQ := s.bP, fQ := s.fP,
    apQ := s.apP }

def sm (x : Nat) (c : BC) : Sm :=
  { ca := c.a.rng.count x, cb := c.b.rng.count x,
    bra := c.a.flows.countP (isBR x), brb := c.b.flows.countP (isBR x),
    rqa := c.a.flows.countP (isRQ x), rqb := c.b.flows.countP (isRQ x),
    esa := c.a.flows.countP (isES x), esb := c.b.flows.countP (isES x),
    fa := c.a.fids.count x, fb := c.b.fids.count x,
    asA := c.ga.countP (isAsked x), asB := c.gb.countP (isAsked x),
    shA := c.ga.countP (isShown x), shB := c.gb.countP (isShown x),
    enA := enX x c.a, enB := enX x c.b,
    hA := c.a.held.countP (·.fid == x), hB := c.b.held.countP (·.fid == x),
    cP := c.path.countP (isConnX x), bP := c.path.countP (isBindX x), fP := c.path.countP (isFinX x),
    apP := c.path.countP (isAPX x),
    cQ := c.swap.path.countP (isConnX x), bQ := c.swap.path.countP (isBindX x), fQ := c.swap.path.countP (isFinX x),
    apQ := c.swap.path.countP (isAPX x) }

theorem sm_swap (x : Nat) (c : BC) : sm x c.swap = (sm x c).swap := rfl

/-! ### The id discipline, on the summary -/

/-- The part of the invariant that speaks of the LEFT side as the one asking with `x`. -/
structure HalfN (s : Sm) : Prop where
  nobind : s.asA = 0 → s.bP = 0 ∧ s.enB = 0 ∧ s.shB = 0 ∧ s.bra = 0
  binda : 1 ≤ s.asA → s.asA = 1 ∧ s.ca = 0 ∧ s.cb = 0 ∧ s.rqa = 0 ∧ s.esa = 0 ∧ s.brb = 0 ∧ s.rqb = 0 ∧ s.esb = 0 ∧
    s.fa = 0 ∧ s.fb = 0 ∧ s.cP = 0 ∧ s.cQ = 0 ∧ s.fP = 0 ∧ s.apP = 0 ∧ s.apQ = 0 ∧ s.bP + s.enB + s.shB ≤ 1 ∧
    s.asB = 0 ∧ s.hA = 0 ∧ s.shA = 0 ∧ s.enA = 0 ∧ s.bQ = 0
  held : s.hB ≤ s.shB

structure Num (s : Sm) : Prop where
  sum : s.ca + s.cb ≤ 1
  fresh : 1 ≤ s.ca + s.cb →
    s.bra = 0 ∧ s.brb = 0 ∧ s.rqa = 0 ∧ s.rqb = 0 ∧ s.esa = 0 ∧ s.esb = 0 ∧ s.fa = 0 ∧ s.fb = 0 ∧ s.asA = 0 ∧ s.asB = 0 ∧
    s.shA = 0 ∧ s.shB = 0 ∧ s.enA = 0 ∧ s.enB = 0 ∧ s.hA = 0 ∧ s.hB = 0 ∧ s.cP = 0 ∧ s.bP = 0 ∧ s.fP = 0 ∧ s.apP = 0 ∧
    s.cQ = 0 ∧ s.bQ = 0 ∧ s.fQ = 0 ∧ s.apQ = 0
  l : HalfN s
  r : HalfN s.swap

theorem Num.swap {s : Sm} (h : Num s) : Num s.swap := by
  obtain ⟨h1, h2, h3, h4⟩ := h
  refine ⟨by simpa [Sm.swap, Nat.add_comm] using h1, ?_, h4, h3⟩
  intro hc
  have := h2 (by simpa [Sm.swap, Nat.add_comm] using hc)
  simp only [Sm.swap]; omega

/-- What a step of the left side leaves alone. -/
structure RightSame (s s' : Sm) : Prop where
  cb : s'.cb = s.cb
  brb : s'.brb = s.brb
  rqb : s'.rqb = s.rqb
  esb : s'.esb = s.esb
  fb : s'.fb = s.fb
  asB : s'.asB = s.asB
  shB : s'.shB = s.shB
  enB : s'.enB = s.enB
  hB : s'.hB = s.hB

theorem Num.shrink {s s' : Sm} (h : Num s) (rs : RightSame s s') (h1 : s'.ca ≤ s.ca) (h2 : s'.bra ≤ s.bra) (h3 : s'.rqa ≤ s.rqa) (h4 : s'.esa ≤ s.esa)
      (h5 : s'.fa = s.fa) (h6 : s'.asA = s.asA) (h7 : s'.shA = s.shA) (h8 : s'.enA ≤ s.enA) (h9 : s'.hA = s.hA)
      (p1 : s'.cP ≤ s.cP) (p2 : s'.bP ≤ s.bP) (p3 : s'.fP ≤ s.fP) (p4 : s'.apP ≤ s.apP)
      (q1 : s'.cQ ≤ s.cQ) (q2 : s'.bQ ≤ s.bQ) (q3 : s'.fQ ≤ s.fQ) (q4 : s'.apQ ≤ s.apQ) : Num s' := by
  obtain ⟨hsum, hfresh, ⟨l1, l2, l3⟩, ⟨r1, r2, r3⟩⟩ := h
  obtain ⟨e1, e2, e3, e4, e5, e6, e7, e8, e9⟩ := rs
  simp only [Sm.swap] at r1 r2 r3
  refine ⟨?_, ?_, ⟨?_, ?_, ?_⟩, ⟨?_, ?_, ?_⟩⟩ <;> (try simp only [Sm.swap]) <;> omega

theorem Num.enqS {s s' : Sm} (h : Num s) (rs : RightSame s s') (h0 : 1 ≤ s.fa ∨ (1 ≤ s.hA ∧ s'.apP = s.apP))
      (h1 : s'.ca = s.ca) (h2 : s'.bra = s.bra) (h3 : s'.rqa = s.rqa) (h4 : s'.esa = s.esa)
      (h5 : s'.fa = s.fa) (h6 : s'.asA = s.asA) (h7 : s'.shA = s.shA) (h8 : s'.enA = s.enA) (h9 : s'.hA = s.hA)
      (p1 : s'.cP = s.cP) (p2 : s'.bP = s.bP) (p3 : s'.fP ≤ s.fP + 1) (p4 : s'.apP ≤ s.apP + 1)
      (q1 : s'.cQ = s.cQ) (q2 : s'.bQ = s.bQ) (q3 : s'.fQ = s.fQ) (q4 : s'.apQ = s.apQ) : Num s' := by
  obtain ⟨hsum, hfresh, ⟨l1, l2, l3⟩, ⟨r1, r2, r3⟩⟩ := h
  obtain ⟨e1, e2, e3, e4, e5, e6, e7, e8, e9⟩ := rs
  simp only [Sm.swap] at r1 r2 r3
  refine ⟨?_, ?_, ⟨?_, ?_, ?_⟩, ⟨?_, ?_, ?_⟩⟩ <;> (try simp only [Sm.swap]) <;> omega

theorem Num.drawOpen {s s' : Sm} (h : Num s) (rs : RightSame s s') (h1 : s'.ca < s.ca) (h2 : s'.bra = s.bra) (h3 : s'.rqa = s.rqa + 1) (h4 : s'.esa = s.esa)
      (h5 : s'.fa = s.fa) (h6 : s'.asA = s.asA) (h7 : s'.shA = s.shA) (h8 : s'.enA = s.enA) (h9 : s'.hA = s.hA)
      (p1 : s'.cP = s.cP + 1) (p2 : s'.bP = s.bP) (p3 : s'.fP = s.fP) (p4 : s'.apP = s.apP)
      (q1 : s'.cQ = s.cQ) (q2 : s'.bQ = s.bQ) (q3 : s'.fQ = s.fQ) (q4 : s'.apQ = s.apQ) : Num s' := by
  obtain ⟨hsum, hfresh, ⟨l1, l2, l3⟩, ⟨r1, r2, r3⟩⟩ := h
  obtain ⟨e1, e2, e3, e4, e5, e6, e7, e8, e9⟩ := rs
  simp only [Sm.swap] at r1 r2 r3
  refine ⟨?_, ?_, ⟨?_, ?_, ?_⟩, ⟨?_, ?_, ?_⟩⟩ <;> (try simp only [Sm.swap]) <;> omega

theorem Num.drawBind {s s' : Sm} (h : Num s) (rs : RightSame s s') (h1 : s'.ca < s.ca) (h2 : s'.bra = s.bra + 1) (h3 : s'.rqa = s.rqa) (h4 : s'.esa = s.esa)
      (h5 : s'.fa = s.fa) (h6 : s'.asA = s.asA + 1) (h7 : s'.shA = s.shA) (h8 : s'.enA = s.enA) (h9 : s'.hA = s.hA)
      (p1 : s'.cP = s.cP) (p2 : s'.bP = s.bP + 1) (p3 : s'.fP = s.fP) (p4 : s'.apP = s.apP)
      (q1 : s'.cQ = s.cQ) (q2 : s'.bQ = s.bQ) (q3 : s'.fQ = s.fQ) (q4 : s'.apQ = s.apQ) : Num s' := by
  obtain ⟨hsum, hfresh, ⟨l1, l2, l3⟩, ⟨r1, r2, r3⟩⟩ := h
  obtain ⟨e1, e2, e3, e4, e5, e6, e7, e8, e9⟩ := rs
  simp only [Sm.swap] at r1 r2 r3
  refine ⟨?_, ?_, ⟨?_, ?_, ?_⟩, ⟨?_, ?_, ?_⟩⟩ <;> (try simp only [Sm.swap]) <;> omega

theorem Num.connNew {s s' : Sm} (h : Num s) (rs : RightSame s s') (h1 : s'.ca = s.ca) (h2 : s'.bra = s.bra) (h3 : s'.rqa = s.rqa) (h4 : s'.esa = s.esa + 1)
      (h5 : s'.fa = s.fa + 1) (h6 : s'.asA = s.asA) (h7 : s'.shA = s.shA) (h8 : s'.enA = s.enA) (h9 : s'.hA = s.hA)
      (p1 : s'.cP = s.cP) (p2 : s'.bP = s.bP) (p3 : s'.fP = s.fP) (p4 : s'.apP = s.apP)
      (q1 : s'.cQ + 1 = s.cQ) (q2 : s'.bQ = s.bQ) (q3 : s'.fQ = s.fQ) (q4 : s'.apQ = s.apQ) : Num s' := by
  obtain ⟨hsum, hfresh, ⟨l1, l2, l3⟩, ⟨r1, r2, r3⟩⟩ := h
  obtain ⟨e1, e2, e3, e4, e5, e6, e7, e8, e9⟩ := rs
  simp only [Sm.swap] at r1 r2 r3
  refine ⟨?_, ?_, ⟨?_, ?_, ?_⟩, ⟨?_, ?_, ?_⟩⟩ <;> (try simp only [Sm.swap]) <;> omega

theorem Num.ackNew {s s' : Sm} (h : Num s) (rs : RightSame s s') (h0 : 1 ≤ s.rqa) (h1 : s'.ca = s.ca) (h2 : s'.bra = 0) (h3 : s'.rqa = 0) (h4 : s'.esa = 1)
      (h5 : s'.fa = s.fa + 1) (h6 : s'.asA = s.asA) (h7 : s'.shA = s.shA) (h8 : s'.enA = s.enA) (h9 : s'.hA = s.hA)
      (p1 : s'.cP = s.cP) (p2 : s'.bP = s.bP) (p3 : s'.fP = s.fP) (p4 : s'.apP = s.apP)
      (q1 : s'.cQ = s.cQ) (q2 : s'.bQ = s.bQ) (q3 : s'.fQ = s.fQ) (q4 : s'.apQ + 1 = s.apQ) : Num s' := by
  obtain ⟨hsum, hfresh, ⟨l1, l2, l3⟩, ⟨r1, r2, r3⟩⟩ := h
  obtain ⟨e1, e2, e3, e4, e5, e6, e7, e8, e9⟩ := rs
  simp only [Sm.swap] at r1 r2 r3
  refine ⟨?_, ?_, ⟨?_, ?_, ?_⟩, ⟨?_, ?_, ?_⟩⟩ <;> (try simp only [Sm.swap]) <;> omega

theorem Num.offer {s s' : Sm} (h : Num s) (rs : RightSame s s') (h1 : s'.ca = s.ca) (h2 : s'.bra = s.bra) (h3 : s'.rqa = s.rqa) (h4 : s'.esa = s.esa)
      (h5 : s'.fa = s.fa) (h6 : s'.asA = s.asA) (h7 : s'.shA = s.shA) (h8 : s'.enA ≤ s.enA + 1) (h9 : s'.hA = s.hA)
      (p1 : s'.cP = s.cP) (p2 : s'.bP = s.bP) (p3 : s'.fP = s.fP) (p4 : s'.apP = s.apP)
      (q1 : s'.cQ = s.cQ) (q2 : s'.bQ + 1 = s.bQ) (q3 : s'.fQ = s.fQ) (q4 : s'.apQ = s.apQ) : Num s' := by
  obtain ⟨hsum, hfresh, ⟨l1, l2, l3⟩, ⟨r1, r2, r3⟩⟩ := h
  obtain ⟨e1, e2, e3, e4, e5, e6, e7, e8, e9⟩ := rs
  simp only [Sm.swap] at r1 r2 r3
  refine ⟨?_, ?_, ⟨?_, ?_, ?_⟩, ⟨?_, ?_, ?_⟩⟩ <;> (try simp only [Sm.swap]) <;> omega

theorem Num.next {s s' : Sm} (h : Num s) (rs : RightSame s s') (h1 : s'.ca = s.ca) (h2 : s'.bra = s.bra) (h3 : s'.rqa = s.rqa) (h4 : s'.esa = s.esa)
      (h5 : s'.fa = s.fa) (h6 : s'.asA = s.asA) (h7 : s'.shA = s.shA + 1) (h8 : s'.enA + 1 = s.enA) (h9 : s'.hA = s.hA + 1)
      (p1 : s'.cP = s.cP) (p2 : s'.bP = s.bP) (p3 : s'.fP = s.fP) (p4 : s'.apP = s.apP)
      (q1 : s'.cQ = s.cQ) (q2 : s'.bQ = s.bQ) (q3 : s'.fQ = s.fQ) (q4 : s'.apQ = s.apQ) : Num s' := by
  obtain ⟨hsum, hfresh, ⟨l1, l2, l3⟩, ⟨r1, r2, r3⟩⟩ := h
  obtain ⟨e1, e2, e3, e4, e5, e6, e7, e8, e9⟩ := rs
  simp only [Sm.swap] at r1 r2 r3
  refine ⟨?_, ?_, ⟨?_, ?_, ?_⟩, ⟨?_, ?_, ?_⟩⟩ <;> (try simp only [Sm.swap]) <;> omega

end Penguin.BindAll
