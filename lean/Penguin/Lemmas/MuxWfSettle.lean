/-
`Lemmas/MuxWfFrames.lean` continued to the level the correspondence harness drives one endpoint at:
one stimulus = one application call or one delivery, then the task (receive loop, notifications,
send loop, wind-down when the connection ends) and the open futures run to quiescence
(`Mux.applyOp`).  Every message handed to the sink by any stimulus — including the messages flushed
during the wind-down after the `Multiplexor` was dropped — is well-formed, and the endpoint
invariant is kept.
-/
import Penguin.Lemmas.MuxWfFrames
import Penguin.Lemmas.PairSettle

namespace Penguin.Mux
open Penguin.Pair (wiresOf wiresOf_append wiresOf_map_wire closeLocal_no_wires closeFlow_no_wires
  runDone_no_wires openRound_no_wires runRetries_no_wires)

/-- The messages among the events (those handed to the sink) are well-formed. -/
def EvsWf (evs : List Ev) : Prop := ∀ m ∈ wiresOf evs, m.wf

theorem EvsWf.nil : EvsWf [] := by intro m hm; cases hm

theorem EvsWf.of_none {evs : List Ev} (h : wiresOf evs = []) : EvsWf evs := by
  intro m hm; rw [h] at hm; cases hm

theorem EvsWf.append {a b : List Ev} (ha : EvsWf a) (hb : EvsWf b) : EvsWf (a ++ b) := by
  intro m hm
  rw [wiresOf_append] at hm
  rcases List.mem_append.mp hm with hm | hm
  · exact ha m hm
  · exact hb m hm

/-- The send loop hands over (a prefix of) the queue: well-formed messages. -/
theorem Good.sendSome {e : EP} (h : Good e) : Good (Mux.sendSome e).1 ∧ EvsWf (Mux.sendSome e).2 := by
  unfold Mux.sendSome
  split
  · refine ⟨{ h with out := by intro m hm; cases hm }, ?_⟩
    intro m hm; rw [wiresOf_map_wire] at hm; exact h.out m hm
  · rename_i n _
    refine ⟨{ h with out := fun m hm => h.out m (List.mem_of_mem_drop hm) }, ?_⟩
    intro m hm; rw [wiresOf_map_wire] at hm; exact h.out m (List.mem_of_mem_take hm)

theorem Good.disallowAll {e : EP} (h : Good e) (l : List (Nat × Slot)) : Good (Mux.disallowAll e l) := by
  induction l generalizing e with
  | nil => exact h
  | cons p rest ih =>
    obtain ⟨k, s⟩ := p
    cases s with
    | established i => exact ih (h.modObj i (fun o ho => ho.disallowWrite))
    | requested r => exact ih h
    | bindRequested r => exact ih h

theorem Good.windDownPrep {e : EP} (h : Good e) : Good (Mux.windDownPrep e) := by
  have h1 := h.disallowAll e.flows
  exact { h1 with park := (by intro b hb; cases hb), out := (by intro m hm; cases hm) }

theorem Good.dropPrep {e : EP} (h : Good e) : Good (Mux.dropPrep e) := by
  have h1 := h.disallowAll e.flows
  exact { h1 with park := (by intro b hb; cases hb) }

theorem Good.drainFlows {e : EP} (h : Good e) (l : List (Nat × Slot)) (hl : ∀ p ∈ l, p.1 < 4294967296) :
    Good (Mux.drainFlows e l).1 ∧ EvsWf (Mux.drainFlows e l).2 := by
  induction l generalizing e with
  | nil => exact ⟨h, EvsWf.nil⟩
  | cons p rest ih =>
    obtain ⟨fid, s⟩ := p
    have h1 := h.closeLocal s fid (hl (fid, s) (by simp)) true true
    have h2 := ih h1 (fun p hp => hl p (List.mem_cons_of_mem _ hp))
    simp only [Mux.drainFlows]
    exact ⟨h2.1, (EvsWf.of_none (closeLocal_no_wires e s fid true true)).append h2.2⟩

theorem wiresOf_map_openDone (l : List OpenReq) (r : OpenRes) :
    wiresOf (l.map (fun x => Ev.openDone x.req r)) = [] := by
  induction l with
  | nil => rfl
  | cons x xs ih => simpa [wiresOf] using ih

theorem Good.windDownFinish {e : EP} (h : Good e) (res : ExitRes) :
    Good (Mux.windDownFinish e res).1 ∧ EvsWf (Mux.windDownFinish e res).2 := by
  have h0 : Good { e with flows := [] } := { h with flows := by intro p hp; cases hp }
  have h1 := h0.drainFlows e.flows h.flows
  unfold Mux.windDownFinish
  simp only
  constructor
  · exact { h1.1 with park := (by intro b hb; cases hb), opens := fun r hr => h1.1.opens r (List.mem_filter.mp hr).1 }
  · refine (h1.2.append (EvsWf.of_none (wiresOf_map_openDone _ _))).append (EvsWf.of_none rfl)

theorem Good.processIn_evs (e : EP) (w : WsIn) (ig : Bool) : EvsWf (Mux.processIn e w ig).2.1 := by
  unfold Mux.processIn
  split
  · exact EvsWf.of_none (processFrame_no_wires _ _ _)
  all_goals exact EvsWf.nil

theorem Good.windDownInbox {e : EP} (h : Good e) (l : List WsIn) (hl : ∀ w ∈ l, w.wf) :
    Good (Mux.windDownInbox e l).1 ∧ EvsWf (Mux.windDownInbox e l).2.1 := by
  induction l generalizing e with
  | nil => exact ⟨h, EvsWf.nil⟩
  | cons w rest ih =>
    have hw := hl w (by simp)
    have hr : ∀ w ∈ rest, w.wf := fun x hx => hl x (List.mem_cons_of_mem _ hx)
    have step : Good (Mux.windDownInbox { (Mux.processIn e w true).1 with park := none } rest).1 ∧
        EvsWf ((Mux.processIn e w true).2.1 ++ (Mux.windDownInbox { (Mux.processIn e w true).1 with park := none } rest).2.1) := by
      have h1 := h.processIn w hw true
      have h2 := ih (e := { (Mux.processIn e w true).1 with park := none }) { h1 with park := by intro b hb; cases hb } hr
      exact ⟨h2.1, (Good.processIn_evs e w true).append h2.2⟩
    cases w with
    | err => exact ⟨h, EvsWf.nil⟩
    | eof => exact ⟨h, EvsWf.nil⟩
    | msg m => simpa only [Mux.windDownInbox] using step
    | bad err => simpa only [Mux.windDownInbox] using step

theorem Good.windDownTail {e : EP} (h : Good e) (flushed : List Ev) (hf : EvsWf flushed) (srcEnded : Bool)
    (res : ExitRes) :
    Good (Mux.windDownTail e flushed srcEnded res).1 ∧ EvsWf (Mux.windDownTail e flushed srcEnded res).2 := by
  have h1 := h.windDownInbox e.inbox h.inbox
  have h2 : Good { (Mux.windDownInbox e e.inbox).1 with inbox := [] } := { h1.1 with inbox := by intro w hw; cases hw }
  have h3 := h2.windDownFinish res
  have hc : EvsWf (flushed ++ [Ev.wireClose]) := hf.append (EvsWf.of_none rfl)
  unfold Mux.windDownTail
  simp only
  split
  · exact ⟨h3.1, (hc.append h1.2).append h3.2⟩
  · exact ⟨{ h2 with }, hc.append h1.2⟩

theorem Good.windDown {e : EP} (h : Good e) (drain : Bool) (res : ExitRes) :
    Good (Mux.windDown e drain res).1 ∧ EvsWf (Mux.windDown e drain res).2 := by
  unfold Mux.windDown
  split
  · have h1 := h.dropPrep.sendSome
    simp only
    split
    · exact h1.1.windDownTail _ h1.2 _ _
    · exact ⟨{ h1.1 with }, h1.2⟩
  · exact h.windDownPrep.windDownTail [] EvsWf.nil _ _

theorem Good.drainStep {e : EP} (h : Good e) (res : ExitRes) :
    Good (Mux.drainStep e res).1 ∧ EvsWf (Mux.drainStep e res).2 := by
  have h1 := h.sendSome
  unfold Mux.drainStep
  split
  · exact Good.windDownTail (e := { (Mux.sendSome e).1 with draining := none }) { h1.1 with } _ h1.2 _ _
  · exact h1

theorem Good.closingStep {e : EP} (h : Good e) (res : ExitRes) :
    Good (Mux.closingStep e res).1 ∧ EvsWf (Mux.closingStep e res).2 := by
  have h1 := h.windDownInbox e.inbox h.inbox
  have h2 : Good { (Mux.windDownInbox e e.inbox).1 with inbox := [] } := { h1.1 with inbox := by intro w hw; cases hw }
  unfold Mux.closingStep
  split
  · exact ⟨(h2.windDownFinish res).1, h1.2.append (h2.windDownFinish res).2⟩
  · exact ⟨h2, h1.2⟩

theorem Good.recvOne {e : EP} (h : Good e) (w : WsIn) (rest : List WsIn) (hi : e.inbox = w :: rest) :
    Good (Mux.recvOne e w rest).1 ∧ EvsWf (Mux.recvOne e w rest).2.1 := by
  have hw : w.wf := h.inbox w (by rw [hi]; simp)
  have hr : ∀ x ∈ rest, x.wf := fun x hx => h.inbox x (by rw [hi]; exact List.mem_cons_of_mem _ hx)
  unfold Mux.recvOne
  refine ⟨Good.processIn ?_ w hw false, Good.processIn_evs _ w false⟩
  split
  · exact { h with inbox := hr }
  · exact { h with inbox := hr }

theorem Good.settleLoop {e : EP} (h : Good e) (fuel : Nat) (acc : List Ev) (ha : EvsWf acc) :
    Good (Mux.settleLoop fuel e acc).1 ∧ EvsWf (Mux.settleLoop fuel e acc).2 := by
  induction fuel generalizing e acc with
  | zero => exact ⟨h, ha⟩
  | succ n ih =>
    unfold Mux.settleLoop
    split
    · exact ⟨h, ha⟩
    · split
      · exact ⟨(h.drainStep _).1, ha.append (h.drainStep _).2⟩
      · split
        · exact ⟨(h.closingStep _).1, ha.append (h.closingStep _).2⟩
        · have hu := h.unpark
          split
          · rename_i w rest hp hi
            have h1 := hu.recvOne w rest hi
            split
            · exact ⟨(h1.1.windDown false _).1, (ha.append h1.2).append (h1.1.windDown false _).2⟩
            · exact ih h1.1 _ (ha.append h1.2)
          · split
            · rename_i rest hq
              have h2 : Good { Mux.unpark e with droppedq := rest } := { hu with }
              exact ⟨(h2.windDown true .ok).1, ha.append (h2.windDown true .ok).2⟩
            · rename_i fid rest _ hq
              have h2 : Good { Mux.unpark e with droppedq := rest } := { hu with }
              exact ih (h2.closeFlow fid false) _ (ha.append (EvsWf.of_none (closeFlow_no_wires _ fid false)))
            · exact ⟨hu, ha⟩

theorem Good.holdSend {e : EP} (h : Good e) (b : Bool) :
    Good (if b then (e, ([] : List Ev)) else Mux.sendSome e).1 ∧ EvsWf (if b then (e, ([] : List Ev)) else Mux.sendSome e).2 := by
  cases b
  · exact h.sendSome
  · exact ⟨h, EvsWf.nil⟩

theorem Good.settle {e : EP} (h : Good e) : Good (settle e).1 ∧ EvsWf (settle e).2 := by
  unfold Mux.settle
  have h1 := h.settleLoop (2 * e.inbox.length + e.droppedq.length + 2) [] EvsWf.nil
  generalize Mux.settleLoop (2 * e.inbox.length + e.droppedq.length + 2) e [] = r at h1 ⊢
  obtain ⟨e1, evs1⟩ := r
  simp only at h1 ⊢
  have h2 := h1.1.holdSend (e1.dead || e1.draining.isSome)
  generalize (if (e1.dead || e1.draining.isSome) = true then (e1, ([] : List Ev)) else Mux.sendSome e1) = s1 at h2 ⊢
  obtain ⟨e2, w1⟩ := s1
  simp only at h2 ⊢
  have h3 := Good.runDone (e := { e2 with doneq := [] }) { h2.1 with } (e2.doneq.foldr insertDone [])
  have w3 := runDone_no_wires { e2 with doneq := [] } (e2.doneq.foldr insertDone [])
  generalize Mux.runDone { e2 with doneq := [] } (e2.doneq.foldr insertDone []) = d at h3 w3 ⊢
  obtain ⟨e3, evs3⟩ := d
  simp only at h3 w3 ⊢
  have h4 := Good.runRetries (e := { e3 with retryq := [] }) { h3 with } (sortNat e3.retryq)
  have w4 := runRetries_no_wires { e3 with retryq := [] } (sortNat e3.retryq)
  generalize Mux.runRetries { e3 with retryq := [] } (sortNat e3.retryq) = t at h4 w4 ⊢
  obtain ⟨e4, evs4⟩ := t
  simp only at h4 w4 ⊢
  have h5 := h4.holdSend (e4.dead || e4.draining.isSome)
  exact ⟨h5.1, ((h1.2.append h2.2).append ((EvsWf.of_none w3).append (EvsWf.of_none w4))).append h5.2⟩

/-- The ranges the Rust types give a stimulus: ports are `u16`, a `Datagram`'s flow id is a `u32`,
    and what the transport delivers has been decoded (`C09.decode_fields`: a decoded frame is in range). -/
def Op.inRange : Op → Prop
  | .open _ _ port => port < 65536
  | .sendDgram d => d.fid < 4294967296 ∧ d.port < 65536
  | .bindReq _ _ _ port => port < 65536
  | .deliver w => w.wf
  | _ => True

instance (op : Op) : Decidable op.inRange := by
  cases op <;> unfold Op.inRange <;> infer_instance

theorem inbox_append {l : List WsIn} (h : ∀ w ∈ l, w.wf) {l' : List WsIn} (h' : ∀ w ∈ l', w.wf) :
    ∀ w ∈ l ++ l', w.wf := by
  intro w hw
  rcases List.mem_append.mp hw with hw | hw
  · exact h w hw
  · exact h' w hw

theorem Good.opStep {e : EP} (h : Good e) (op : Op) (hop : op.inRange) :
    Good (opStep e op).1 ∧ EvsWf (opStep e op).2.2 := by
  cases op with
  | «open» req host port =>
    simp only [Mux.opStep]
    split
    · exact ⟨h, EvsWf.nil⟩
    · exact ⟨h.appOpen req host port hop, EvsWf.of_none (openRound_no_wires _ _)⟩
  | accept => exact ⟨h.appAccept, EvsWf.nil⟩
  | write hd d => exact ⟨h.appWrite hd d, EvsWf.nil⟩
  | read hd n => exact ⟨h.appRead hd n, EvsWf.nil⟩
  | shutdown hd => exact ⟨h.appShutdown hd, EvsWf.nil⟩
  | dropStream hd => exact ⟨h.appDropStream hd, EvsWf.nil⟩
  | sendDgram d => exact ⟨h.appSendDgram d hop.1 hop.2, EvsWf.nil⟩
  | recvDgram => exact ⟨h.appRecvDgram, EvsWf.nil⟩
  | bindReq req bt host port =>
    refine ⟨h.appBindReq req bt host port hop, ?_⟩
    simp only [Mux.opStep, Mux.appBindReq]
    repeat' split
    all_goals exact EvsWf.of_none rfl
  | bindNext => exact ⟨h.appBindNext, EvsWf.nil⟩
  | bindReply k a => exact ⟨h.appBindReply k a, EvsWf.nil⟩
  | bindDrop k => exact ⟨h.appBindDrop k, EvsWf.nil⟩
  | dropMux => exact ⟨h.appDropMux, EvsWf.nil⟩
  | sinkRoom n => exact ⟨{ h with }, EvsWf.nil⟩
  | cancelOpen req => exact ⟨{ h with opens := opens_filter h.opens _ }, EvsWf.nil⟩
  | deliver w =>
    simp only [Mux.opStep]
    split
    · exact ⟨h, EvsWf.nil⟩
    · split
      · refine ⟨{ h with inbox := inbox_append h.inbox ?_ }, EvsWf.nil⟩
        intro x hx
        simp only [List.mem_cons, List.not_mem_nil, or_false] at hx
        rcases hx with rfl | rfl <;> trivial
      · refine ⟨{ h with inbox := inbox_append h.inbox ?_ }, EvsWf.nil⟩
        intro x hx
        simp only [List.mem_singleton] at hx
        subst hx; exact hop

/-- One stimulus of the correspondence harness (the call or delivery, then the task and the open
    futures run to quiescence, wind-down included): the endpoint invariant is kept, the queue holds
    well-formed messages, and every message handed to the sink is well-formed. -/
theorem Good.applyOp {e : EP} (h : Good e) (op : Op) (hop : op.inRange) :
    Good (applyOp e op).1 ∧ EvsWf (applyOp e op).2.2 := by
  have h1 := h.opStep op hop
  have h2 := h1.1.settle
  unfold Mux.applyOp
  exact ⟨h2.1, h1.2.append h2.2⟩

/-- Every history of stimuli in range keeps the endpoint invariant and a well-formed queue. -/
theorem Good.runOps {e : EP} (h : Good e) (ops : List Op) (hops : ∀ op ∈ ops, op.inRange) : Good (runOps e ops) := by
  induction ops generalizing e with
  | nil => exact h
  | cons op rest ih =>
    simp only [Mux.runOps, List.foldl_cons]
    exact ih (h.applyOp op (hops op (by simp))).1 (fun x hx => hops x (List.mem_cons_of_mem _ hx))

end Penguin.Mux
