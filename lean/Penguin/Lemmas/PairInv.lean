/-
The invariant of the pair model (`Penguin.Pair`): every flow id is, at every moment, in one of five
phases — fresh (still in a script), requested (Connect in flight), half-open (Acknowledge in
flight; the accepting side may already write), linked (both sides established: each direction is in
the relation `DirRel` with a reachable state of the link model `Penguin.Link`), or dead (torn down
on at least one side; nothing is claimed any more, and it can never come back because ids are never
drawn twice).  Definitions and the generic "a step that concerns flow `y` leaves every other flow's
phase alone" lemma; the per-action proofs are in `Lemmas/PairStep.lean`.

That is the stream part (`InvCore`).  Bind requests travel on the same connection; the second part
of the invariant (`Binds`) says that the flow id of every bind request that is in transit or that an
endpoint remembers belongs to no stream, now or later (`BoundAt`): it is in the phase dead, and the
bind calls and `Bind` frames never meet a stream slot or a stream object (`Lemmas/PairBindEff.lean`,
`Lemmas/PairBind.lean`).  `Inv` = `InvCore` + `Binds`; `Lemmas/PairMain.lean` proves it for every run.
-/
import Penguin.Model.Pair
import Penguin.Model.Link
import Penguin.Lemmas.PairEff
import Penguin.Lemmas.Link

namespace Penguin.Pair
open Penguin.Mux

/-! ### Messages of one flow on a path -/

def isFl (x : Nat) (m : Msg) : Bool := m.flow? == some x

/-- The messages of flow `x` in a FIFO, in order. -/
def fl (x : Nat) (l : List Msg) : List Msg := l.filter (isFl x)

def toItem : Msg → Option Link.Item
  | .frame (.push _ d) => some (.push d)
  | .frame (.finish _) => some .fin
  | .frame (.reset _) => some .rst
  | _ => none

def ackOf : Msg → Option Nat
  | .frame (.acknowledge _ n) => some n
  | _ => none

def noConnect (l : List Msg) : Prop := ∀ m ∈ l, m.isConnect = false

/-- Everything `a` has sent and `b` has not yet processed, oldest first. -/
def pathAB (p : PS) : List Msg := p.ab ++ p.a.outq
def pathBA (p : PS) : List Msg := p.ba ++ p.b.outq

@[simp] theorem fl_append (x : Nat) (a b : List Msg) : fl x (a ++ b) = fl x a ++ fl x b := by
  simp [fl]

@[simp] theorem fl_nil (x : Nat) : fl x [] = [] := rfl

theorem fl_cons (x : Nat) (m : Msg) (l : List Msg) :
    fl x (m :: l) = if isFl x m then m :: fl x l else fl x l := by
  simp [fl, List.filter_cons]

/-- Messages of other flows (or of none) do not show. -/
theorem fl_other (x : Nat) (em : List Msg) (h : ∀ m ∈ em, ∀ y, Msg.flow? m = some y → y ≠ x) : fl x em = [] := by
  induction em with
  | nil => rfl
  | cons m rest ih =>
    rw [fl_cons]
    have hm : isFl x m = false := by
      unfold isFl
      cases hf : m.flow? with
      | none => simp
      | some y => have := h m (by simp) y hf; simp [this]
    rw [hm]
    exact ih (fun m' hm' => h m' (List.mem_cons_of_mem _ hm'))

/-! ### The view of one flow at one endpoint -/

structure EV where
  slot : Option Slot
  objs : Nat → Option Obj          -- the stream objects carrying this flow id
  dq : Prop                        -- a dropped-handle notification for the id is queued
  inRng : Prop                     -- the id is still in the script
  opts : Opts
  wlog : Nat → Bytes
  rlog : Nat → Bytes
  eof : Nat → Bool

def objView (x : Nat) (e : EP) (k : Nat) : Option Obj :=
  match e.objs[k]? with
  | some o => if o.fid = x then some o else none
  | none => none

def ev (x : Nat) (e : EP) (g : Ghost) : EV :=
  { slot := lookup e.flows x
    objs := objView x e
    dq := x ∈ e.droppedq
    inRng := x ∈ e.rng
    opts := e.opts
    wlog := fun k => if (objView x e k).isSome then g.wlog k else []
    rlog := fun k => if (objView x e k).isSome then g.rlog k else []
    eof := fun k => if (objView x e k).isSome then g.eof k else false }

/-! ### One direction of a linked flow, related to the link model -/

structure DirRel (oS oR : Obj) (fwd bwd : List Msg) (w r : Bytes) (eof : Bool) (l : Link.St) : Prop where
  inv : Link.Inv l
  hW : l.W = oR.cap
  hWb : oR.cap < 4294967296
  hth : l.th = oR.threshold
  hcredit : l.credit = oS.credit
  hfin : l.sFin = oS.finishSent
  hwire : l.wire = fwd.filterMap toItem
  halive : l.rAlive = oR.senderAlive
  hrxq : l.rxq = oR.rxq
  hbuf : l.buf = oR.buf
  hsince : l.since = oR.recvdSince
  hacks : l.acks = bwd.filterMap ackOf
  hacc : l.accepted = w
  hdel : l.delivered = r
  heof : l.eofSeen = eof
  hrx : oR.rxOpen = false → oR.senderAlive = false

/-- The receiving half of a stream object is still observed by its application: it is open, or a
    read has already returned end-of-stream (after which the object is frozen). It is not after the
    handle was dropped (or for a stream nobody waits for). -/
def ReaderOk (o : Obj) (eof : Bool) : Prop := o.rxOpen = true ∨ eof = true

/-- Everything up to and including the first end marker (what follows — the `Reset` replies of an
    endpoint that no longer knows the flow — is noise). -/
def cutEnd : List Link.Item → List Link.Item
  | [] => []
  | .push d :: rest => .push d :: cutEnd rest
  | x :: _ => [x]

def noReset (l : List Msg) : Prop := ∀ m ∈ l, ∀ y, m ≠ .frame (.reset y)

/-- One direction whose sending endpoint has released the flow (its object is closed for writing):
    the receiver's side is still a state of the link model, with the sender finished. The sender's
    credit and the acknowledgements no longer matter. -/
structure DirRelA (oR : Obj) (fwd : List Msg) (w r : Bytes) (eof : Bool) (l : Link.St) : Prop where
  inv : Link.Inv l
  hW : l.W = oR.cap
  hWb : oR.cap < 4294967296
  hth : l.th = oR.threshold
  hfin : l.sFin = true
  hwire : l.wire = if oR.senderAlive then cutEnd (fwd.filterMap toItem) else []
  halive : l.rAlive = oR.senderAlive
  hrxq : l.rxq = oR.rxq
  hbuf : l.buf = oR.buf
  hsince : l.since = oR.recvdSince
  hacc : l.accepted = w
  hdel : l.delivered = r
  heof : l.eofSeen = eof
  hrx : oR.rxOpen = false → oR.senderAlive = false

/-- No `Push` follows an end marker. -/
def noPushAfterEnd : List Link.Item → Bool
  | [] => true
  | .push _ :: rest => noPushAfterEnd rest
  | _ :: rest => (Link.pushes rest).isEmpty

/-- What holds for the path `S → R` of a live flow whether or not `R`'s application still observes
    it: data never follows an end marker; an end marker is on the way only if the sender's write side
    is closed; once the receiving slot has seen the end, no data is in flight. -/
structure Wire (oS oR : Obj) (sR : Option Slot) (fwd : List Msg) : Prop where
  shape : noPushAfterEnd (fwd.filterMap toItem) = true
  ended : Link.hasEnd (fwd.filterMap toItem) = true → oS.finishSent = true
  quiet : sR ≠ none → oR.senderAlive = false → Link.pushes (fwd.filterMap toItem) = [] ∧ oS.finishSent = true

/-- The slot of a live flow at one endpoint: established with the flow's object, or released — then
    the object is closed in both directions. -/
def SlotOk (s : Option Slot) (i : Nat) (o : Obj) : Prop :=
  s = some (.established i) ∨ (s = none ∧ o.finishSent = true ∧ o.senderAlive = false)

/-- What is claimed for the direction `S → R` of a live flow, as long as `R`'s application still
    observes its receiving half: the full relation while `S` holds the flow, the frozen-sender
    relation after `S` released it. -/
def Claim (sS : Option Slot) (oS oR : Obj) (fwd bwd : List Msg) (w r : Bytes) (eof : Bool) : Prop :=
  ReaderOk oR eof →
    (sS ≠ none → ∃ l, DirRel oS oR fwd bwd w r eof l) ∧ (sS = none → ∃ l, DirRelA oR fwd w r eof l)

/-! ### Phases -/

def NoObj (v : EV) : Prop := ∀ k, v.objs k = none
def OnlyObj (v : EV) (i : Nat) : Prop := ∀ k, k ≠ i → v.objs k = none

structure Fresh (x : Nat) (va vb : EV) (fab fba : List Msg) : Prop where
  inRng : va.inRng ∨ vb.inRng
  sa : va.slot = none
  sb : vb.slot = none
  fab : fab = []
  fba : fba = []
  oa : NoObj va
  ob : NoObj vb
  da : ¬ va.dq
  db : ¬ vb.dq

/-- `a` has sent `Connect`; `b` has not seen it yet. -/
structure Requested (x : Nat) (va vb : EV) (fab fba : List Msg) : Prop where
  ra : ¬ va.inRng
  rb : ¬ vb.inRng
  x0 : x ≠ 0
  sa : ∃ req, va.slot = some (.requested req)
  sb : vb.slot = none
  fab : ∃ port host, fab = [.frame (.connect x va.opts.rwnd port host)]
  fba : fba = []
  oa : NoObj va
  ob : NoObj vb
  da : ¬ va.dq
  db : ¬ vb.dq

/-- `b` has accepted the stream and sent `Acknowledge`; `a` has not seen it yet. `b` may already
    write: its direction is related to the link model with the object `a` is going to create. -/
structure HalfOpen (x : Nat) (va vb : EV) (fab fba : List Msg) : Prop where
  ra : ¬ va.inRng
  rb : ¬ vb.inRng
  sa : ∃ req, va.slot = some (.requested req)
  oa : NoObj va
  da : ¬ va.dq
  fab : fab = []
  body : ∃ j oP rest l,
    vb.slot = some (.established j) ∧ vb.objs j = some oP ∧ OnlyObj vb j ∧
    fba = .frame (.acknowledge x vb.opts.rwnd) :: rest ∧
    (∀ m ∈ rest, m.isConnect = false ∧ ackOf m = none) ∧
    oP.cap = vb.opts.rwnd ∧ oP.threshold = thresholdFor vb.opts va.opts.rwnd ∧
    oP.rxq = [] ∧ oP.buf = [] ∧ oP.recvdSince = 0 ∧ oP.senderAlive = true ∧
    DirRel oP (newObj va.opts x vb.opts.rwnd [] 0) rest [] (vb.wlog j) [] false l ∧
    vb.rlog j = [] ∧ vb.eof j = false ∧ (¬ vb.dq → oP.rxOpen = true) ∧ noReset rest ∧
    noPushAfterEnd (rest.filterMap toItem) = true ∧ (Link.hasEnd (rest.filterMap toItem) = true → oP.finishSent = true) ∧
    (vb.dq → oP.rxOpen = false)

/-- The flow has been established on both endpoints (it may since have been released on one or
    both): each endpoint has exactly one object for it; per direction the claim above holds. While an
    endpoint holds the flow it has sent no `Reset` for it. -/
structure Linked (x : Nat) (va vb : EV) (fab fba : List Msg) : Prop where
  ra : ¬ va.inRng
  rb : ¬ vb.inRng
  nab : noConnect fab
  nba : noConnect fba
  body : ∃ i j oA oB,
    va.objs i = some oA ∧ vb.objs j = some oB ∧ OnlyObj va i ∧ OnlyObj vb j ∧
    oA.cap = va.opts.rwnd ∧ oB.cap = vb.opts.rwnd ∧
    SlotOk va.slot i oA ∧ SlotOk vb.slot j oB ∧
    (va.slot ≠ none → noReset fab) ∧ (vb.slot ≠ none → noReset fba) ∧
    Wire oA oB vb.slot fab ∧ Wire oB oA va.slot fba ∧
    (va.dq → oA.rxOpen = false) ∧ (vb.dq → oB.rxOpen = false) ∧
    Claim va.slot oA oB fab fba (va.wlog i) (vb.rlog j) (vb.eof j) ∧
    Claim vb.slot oB oA fba fab (vb.wlog j) (va.rlog i) (va.eof i)

/-- Nothing is claimed: the flow is released on at least one endpoint (without ever having been
    linked, or after an irregular event), or a `Reset` for it is in flight. It never becomes live again. -/
structure Dead (x : Nat) (va vb : EV) (fab fba : List Msg) : Prop where
  ra : ¬ va.inRng
  rb : ¬ vb.inRng
  nab : noConnect fab
  nba : noConnect fba
  gone : va.slot = none ∨ vb.slot = none ∨ ¬ noReset fab ∨ ¬ noReset fba

/-- The phase of flow `x`, on views. -/
def PhV (x : Nat) (va vb : EV) (fab fba : List Msg) : Prop :=
  Fresh x va vb fab fba ∨ Requested x va vb fab fba ∨ Requested x vb va fba fab ∨
  HalfOpen x va vb fab fba ∨ HalfOpen x vb va fba fab ∨ Linked x va vb fab fba ∨ Dead x va vb fab fba

def Phase (x : Nat) (p : PS) : Prop :=
  PhV x (ev x p.a p.ga) (ev x p.b p.gb) (fl x (pathAB p)) (fl x (pathBA p))

/-! ### Connection-level facts -/

/-- The endpoint is in its running phase with sane options. -/
structure Running (e : EP) : Prop where
  outClosed : e.outClosed = false
  muxAlive : e.muxAlive = true
  dead : e.dead = false
  rwndPos : 0 < e.opts.rwnd
  rwndU32 : e.opts.rwnd < 4294967296

/-- Ghost logs exist only for objects that exist. -/
def GhostFresh (e : EP) (g : Ghost) : Prop :=
  ∀ k, e.objs.length ≤ k → g.wlog k = [] ∧ g.rlog k = [] ∧ g.eof k = false

/-- The part of the invariant that speaks about streams: connection-level facts, and a phase for
    every flow id. -/
structure InvCore (p : PS) : Prop where
  runA : Running p.a
  runB : Running p.b
  sfA : SlotFid p.a
  sfB : SlotFid p.b
  nodup : (p.a.rng ++ p.b.rng).Nodup
  nonzero : ∀ k ∈ p.a.rng ++ p.b.rng, k ≠ 0
  ghA : GhostFresh p.a p.ga
  ghB : GhostFresh p.b p.gb
  phase : ∀ x, Phase x p
  live : ∀ x ∈ p.linked, Linked x (ev x p.a p.ga) (ev x p.b p.gb) (fl x (pathAB p)) (fl x (pathBA p))

/-! ### Bind requests: their flow ids stay apart from every stream -/

/-- A `Bind` frame. -/
def isBindMsg : Msg → Bool
  | .frame (.bind ..) => true
  | _ => false

/-- A `Bind` frame is among the messages. -/
def hasBind (l : List Msg) : Prop := ∃ m ∈ l, isBindMsg m = true

/-- The flow ids of the bind requests of the peer an endpoint has received and not forgotten: the
    one its receive loop is parked with, those in its bind queue, those handed to the application. -/
def bindIds (e : EP) : List Nat :=
  e.bindq.map (·.fid) ++ e.held.map (·.fid) ++ (match e.park with | some (.bind b) => [b.fid] | _ => [])

/-- Flow id `x` is (or was) the id of a bind request: a `Bind` frame carrying it is in transit, or
    one endpoint has received such a frame. -/
def Marked (x : Nat) (p : PS) : Prop :=
  hasBind (fl x (pathAB p)) ∨ hasBind (fl x (pathBA p)) ∨ x ∈ bindIds p.a ∨ x ∈ bindIds p.b

/-- Flow id `x` belongs to no stream, now or later: it has left both scripts, no `Connect` carries it,
    no stream object carries it on either endpoint, neither endpoint has a stream slot for it (at most
    the requester's `BindRequested` slot), and at least one endpoint has no slot at all. -/
structure BoundAt (x : Nat) (p : PS) : Prop where
  ra : ¬ x ∈ p.a.rng
  rb : ¬ x ∈ p.b.rng
  nab : noConnect (fl x (pathAB p))
  nba : noConnect (fl x (pathBA p))
  oa : ∀ (k : Nat) (o : Obj), p.a.objs[k]? = some o → o.fid ≠ x
  ob : ∀ (k : Nat) (o : Obj), p.b.objs[k]? = some o → o.fid ≠ x
  sa : lookup p.a.flows x = none ∨ ∃ r, lookup p.a.flows x = some (.bindRequested r)
  sb : lookup p.b.flows x = none ∨ ∃ r, lookup p.b.flows x = some (.bindRequested r)
  gone : lookup p.a.flows x = none ∨ lookup p.b.flows x = none

/-- Every flow id of a bind request belongs to no stream. -/
def Binds (p : PS) : Prop := ∀ x, Marked x p → BoundAt x p

/-- The invariant of the pair: the stream part, and the separation of bind requests from streams. -/
structure Inv (p : PS) : Prop extends InvCore p where
  binds : Binds p

/-! ### Symmetry -/

theorem Fresh.swap {x : Nat} {va vb : EV} {fab fba : List Msg} (h : Fresh x va vb fab fba) : Fresh x vb va fba fab :=
  ⟨h.inRng.symm, h.sb, h.sa, h.fba, h.fab, h.ob, h.oa, h.db, h.da⟩

theorem Dead.swap {x : Nat} {va vb : EV} {fab fba : List Msg} (h : Dead x va vb fab fba) : Dead x vb va fba fab :=
  ⟨h.rb, h.ra, h.nba, h.nab, by
    rcases h.gone with g | g | g | g
    · exact Or.inr (Or.inl g)
    · exact Or.inl g
    · exact Or.inr (Or.inr (Or.inr g))
    · exact Or.inr (Or.inr (Or.inl g))⟩

theorem Linked.swap {x : Nat} {va vb : EV} {fab fba : List Msg} (h : Linked x va vb fab fba) : Linked x vb va fba fab := by
  obtain ⟨i, j, oA, oB, h3, h4, h5, h6, c1, c2, s1, s2, n1, n2, w1, w2, d1, d2, k1, k2⟩ := h.body
  exact ⟨h.rb, h.ra, h.nba, h.nab, ⟨j, i, oB, oA, h4, h3, h6, h5, c2, c1, s2, s1, n2, n1, w2, w1, d2, d1, k2, k1⟩⟩

theorem PhV.swap {x : Nat} {va vb : EV} {fab fba : List Msg} (h : PhV x va vb fab fba) : PhV x vb va fba fab := by
  rcases h with h | h | h | h | h | h | h
  · exact Or.inl h.swap
  · exact Or.inr (Or.inr (Or.inl h))
  · exact Or.inr (Or.inl h)
  · exact Or.inr (Or.inr (Or.inr (Or.inr (Or.inl h))))
  · exact Or.inr (Or.inr (Or.inr (Or.inl h)))
  · exact Or.inr (Or.inr (Or.inr (Or.inr (Or.inr (Or.inl h.swap)))))
  · exact Or.inr (Or.inr (Or.inr (Or.inr (Or.inr (Or.inr h.swap)))))

theorem Phase.swap {x : Nat} {p : PS} (h : Phase x p) : Phase x p.swap := PhV.swap h

theorem InvCore.swap {p : PS} (h : InvCore p) : InvCore p.swap := by
  refine ⟨h.runB, h.runA, h.sfB, h.sfA, ?_, ?_, h.ghB, h.ghA, fun x => (h.phase x).swap, fun x hx => (h.live x hx).swap⟩
  · have := h.nodup
    simp only [PS.swap]
    rw [List.nodup_append] at this ⊢
    obtain ⟨h1, h2, h3⟩ := this
    exact ⟨h2, h1, fun a ha b hb hab => h3 b hb a ha hab.symm⟩
  · intro k hk
    apply h.nonzero k
    simp only [PS.swap, List.mem_append] at hk ⊢
    exact hk.symm

theorem swap_swap (p : PS) : p.swap.swap = p := rfl

theorem Marked.swap {x : Nat} {p : PS} (h : Marked x p.swap) : Marked x p := by
  rcases h with h | h | h | h
  · exact Or.inr (Or.inl h)
  · exact Or.inl h
  · exact Or.inr (Or.inr (Or.inr h))
  · exact Or.inr (Or.inr (Or.inl h))

theorem BoundAt.swap {x : Nat} {p : PS} (h : BoundAt x p) : BoundAt x p.swap :=
  ⟨h.rb, h.ra, h.nba, h.nab, h.ob, h.oa, h.sb, h.sa, h.gone.symm⟩

theorem Inv.swap {p : PS} (h : Inv p) : Inv p.swap :=
  ⟨h.toInvCore.swap, fun x hx => (h.binds x hx.swap).swap⟩

/-! ### The view of a flow the step does not concern -/

theorem objView_eq_of_eff {Y : Nat → Prop} {e e' : EP} (s : Eff Y e e') (x : Nat) (hx : ¬ Y x) :
    objView x e' = objView x e := by
  funext k
  unfold objView
  cases h' : e'.objs[k]? with
  | none =>
    cases h : e.objs[k]? with
    | none => rfl
    | some o =>
      obtain ⟨o2, h2, _⟩ := s.fid k o h
      rw [h'] at h2; cases h2
  | some o' =>
    cases h : e.objs[k]? with
    | none =>
      have hk : e.objs.length ≤ k := by
        rcases Nat.lt_or_ge k e.objs.length with h1 | h1
        · have : e.objs[k]? = some e.objs[k] := by simp [h1]
          rw [h] at this; cases this
        · exact h1
      have := s.fresh k o' hk h'
      simp only
      have hne : o'.fid ≠ x := fun hh => hx (hh ▸ this)
      simp [hne]
    | some o =>
      obtain ⟨o2, h2, f2⟩ := s.fid k o h
      rw [h'] at h2; cases h2
      simp only
      by_cases hf : o.fid = x
      · have : ¬ Y o.fid := by rw [hf]; exact hx
        have := s.keep k o h this
        rw [h'] at this; cases this
        rfl
      · have : ¬ o'.fid = x := by rw [f2]; exact hf
        simp [hf, this]

/-- Ghost logs agree wherever flow `x` has an object. -/
def GhostAgree (x : Nat) (e : EP) (g g' : Ghost) : Prop :=
  ∀ k, (objView x e k).isSome → g'.wlog k = g.wlog k ∧ g'.rlog k = g.rlog k ∧ g'.eof k = g.eof k

theorem ev_eq_of_eff {Y : Nat → Prop} {e e' : EP} {g g' : Ghost} (s : Eff Y e e') (x : Nat) (hx : ¬ Y x)
    (hg : GhostAgree x e g g') : ev x e' g' = ev x e g := by
  have ho := objView_eq_of_eff s x hx
  unfold ev
  rw [ho, s.flows x hx, s.opts]
  have h1 : (x ∈ e'.droppedq) = (x ∈ e.droppedq) := propext (s.dq x hx)
  have h2 : (x ∈ e'.rng) = (x ∈ e.rng) := propext (s.rng x hx)
  rw [h1, h2]
  congr 1
  · funext k
    by_cases hk : (objView x e k).isSome
    · simp [hk, (hg k hk).1]
    · simp [hk]
  · funext k
    by_cases hk : (objView x e k).isSome
    · simp [hk, (hg k hk).2.1]
    · simp [hk]
  · funext k
    by_cases hk : (objView x e k).isSome
    · simp [hk, (hg k hk).2.2]
    · simp [hk]

theorem GhostAgree.refl (x : Nat) (e : EP) (g : Ghost) : GhostAgree x e g g := fun _ _ => ⟨rfl, rfl, rfl⟩

/-- The phase of `x` only depends on the two views and the two filtered paths. -/
theorem Phase.congr {x : Nat} {p p' : PS} (ha : ev x p'.a p'.ga = ev x p.a p.ga) (hb : ev x p'.b p'.gb = ev x p.b p.gb)
    (hab : fl x (pathAB p') = fl x (pathAB p)) (hba : fl x (pathBA p') = fl x (pathBA p)) (h : Phase x p) :
    Phase x p' := by
  unfold Phase at *
  rw [ha, hb, hab, hba]; exact h

theorem Linked.congr {x : Nat} {p p' : PS} (ha : ev x p'.a p'.ga = ev x p.a p.ga) (hb : ev x p'.b p'.gb = ev x p.b p.gb)
    (hab : fl x (pathAB p') = fl x (pathAB p)) (hba : fl x (pathBA p') = fl x (pathBA p))
    (h : Linked x (ev x p.a p.ga) (ev x p.b p.gb) (fl x (pathAB p)) (fl x (pathBA p))) :
    Linked x (ev x p'.a p'.ga) (ev x p'.b p'.gb) (fl x (pathAB p')) (fl x (pathBA p')) := by
  rw [ha, hb, hab, hba]; exact h

/-- The phase of a flow, together with: a flow recorded as linked is in the live phase. -/
def PhaseL (x : Nat) (p : PS) : Prop :=
  Phase x p ∧ (x ∈ p.linked → Linked x (ev x p.a p.ga) (ev x p.b p.gb) (fl x (pathAB p)) (fl x (pathBA p)))

theorem InvCore.phaseL {p : PS} (h : InvCore p) (x : Nat) : PhaseL x p := ⟨h.phase x, h.live x⟩

end Penguin.Pair
