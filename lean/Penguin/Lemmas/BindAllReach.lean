/-
The invariant of the pair of bind views holds in every reachable state of `Model/PairAll.lean` (with the
observers' records of `Lemmas/BindAllMain.lean`), under the id discipline `PairAll.Cfg`.
Core Lean only.
-/
import Penguin.Lemmas.BindAllMain

namespace Penguin.BindAll
open Penguin.Mux Penguin.PairAll
open Penguin.PairAll (inMsgs inMsgs_append wireMsgs)

/-- The pair of bind views of a state of the pair model with records. -/
def absB (q : PB) : BC :=
  { a := bview q.p.a q.p.a.inbox, b := bview q.p.b q.p.b.inbox, ab := q.p.ab, ba := q.p.ba, abOpen := q.p.abOpen,
    baOpen := q.p.baOpen, ga := q.ha, gb := q.hb }

def PB.swap (q : PB) : PB := { p := q.p.swap, ha := q.hb, hb := q.ha }

theorem absB_swap (q : PB) : absB q.swap = (absB q).swap := rfl

/-- A predicate on pairs of bind views that is preserved by the small steps of either side. -/
structure Closed (I : BC → Prop) : Prop where
  swap : ∀ {c : BC}, I c → I c.swap
  starL : ∀ {c : BC} {v : BV} {ws : List Msg} {gs : List BEv}, I c → BStar c.a v ws gs → v.rng ≠ [] → I (c.actL v ws gs)
  stepL : ∀ {c c' : BC}, I c → CStepL c c' → c'.a.rng ≠ [] → I c'

theorem closed_inv : Closed Inv := ⟨Inv.swap, Inv.starL, fun h st hn => h.stepL st hn⟩

structure PInv (I : BC → Prop) (q : PB) : Prop where
  inv : I (absB q)
  neA : q.p.a.rng ≠ []
  neB : q.p.b.rng ≠ []

variable {I : BC → Prop}

theorem PInv.swap (hI : Closed I) {q : PB} (h : PInv I q) : PInv I q.swap :=
  ⟨by rw [absB_swap]; exact hI.swap h.inv, h.neB, h.neA⟩

theorem ne_nil_of_isEmpty {l : List Nat} (h : l.isEmpty = false) : l ≠ [] := by
  intro h0; rw [h0] at h; cases h

/-- After the left inbox was extended by a delivery or a cut (`c1`), the task runs. -/
theorem inv_settleL (hI : Closed I) {q : PB} {c1 : BC} {w : WsIn} (h1 : I c1)
    (ha : c1.a = bview (opStep q.p.a (.deliver w)).1 (opStep q.p.a (.deliver w)).1.inbox)
    (hne : (applyOp q.p.a (.deliver w)).1.rng ≠ []) :
    I (c1.actL (bview (applyOp q.p.a (.deliver w)).1 (applyOp q.p.a (.deliver w)).1.inbox)
      (wireMsgs (applyOp q.p.a (.deliver w)).2.2)
      (callEvs q.p.a (.deliver w) (applyOp q.p.a (.deliver w)).2.1 ++ doneEvs (applyOp q.p.a (.deliver w)).2.2)) :=
  hI.starL h1 (ha ▸ bstar_deliver q.p.a w) hne

/-- A stimulus of the LEFT endpoint. -/
theorem PInv.stepA (hI : Closed I) {q : PB} (h : PInv I q) {st : Stim} {p' : PS} (hs : stepL q.p st = some p') :
    PInv I { p := p', ha := bgStep q.p.a q.ha (stimOp q.p st), hb := q.hb } := by
  simp only [stepL] at hs
  split at hs
  · rename_i q' hq
    split at hs
    · cases hs
    · rename_i hemp
      have hq' := Option.some.inj hs; subst hq'
      have hne : q'.a.rng ≠ [] := ne_nil_of_isEmpty (by simpa using hemp)
      refine ⟨?_, hne, ?_⟩
      · cases st with
        | call op =>
          simp only [stimL] at hq
          split at hq
          · rename_i hc
            have := Option.some.inj hq; subst this
            exact hI.starL (c := absB q) h.inv (bstar_call q.p.a op hc) hne
          · cases hq
        | deliver =>
          simp only [stimL] at hq
          split at hq
          · cases hq
          · rename_i m rest hba
            split at hq
            · rename_i hm
              subst hm
              have := Option.some.inj hq; subst this
              have g1 := hI.stepL h.inv (CStepL.lose (absB q) [.msg .close, .eof] (deafE q.p.a) (Or.inr rfl)) h.neA
              have g2 := inv_settleL hI (q := q) (w := .msg .close) g1 (bview_deliver_close q.p.a).symm hne
              simp only [stimOp, hba]
              exact g2
            · rename_i hm
              have := Option.some.inj hq; subst this
              have g1 := hI.stepL h.inv (CStepL.dlv (absB q) m rest (deafE q.p.a) hba (deafE_eq q.p.a)) h.neA
              have g2 := inv_settleL hI (q := q) (w := .msg m) g1 (bview_deliver_msg q.p.a m hm).symm hne
              simp only [stimOp, hba]
              exact g2
        | cut eof =>
          have hq2 : some ({ actL q.p (.deliver (if eof = true then WsIn.eof else WsIn.err)) with ba := [], baOpen := false } : PS) = some q' := hq
          have := Option.some.inj hq2; subst this
          have hw : (if eof = true then WsIn.eof else WsIn.err) = .eof ∨ (if eof = true then WsIn.eof else WsIn.err) = .err := by
            cases eof <;> simp
          have g1 := hI.stepL h.inv (CStepL.lose (absB q) [if eof = true then WsIn.eof else WsIn.err] (deafE q.p.a)
            (Or.inl (by cases eof <;> rfl))) h.neA
          have g2 := inv_settleL hI (q := q) g1 (bview_deliver_end q.p.a _ hw).symm hne
          exact g2
      · cases st with
        | call op =>
          simp only [stimL] at hq
          split at hq
          · have := Option.some.inj hq; subst this; exact h.neB
          · cases hq
        | deliver =>
          simp only [stimL] at hq
          split at hq
          · cases hq
          · split at hq <;> (have := Option.some.inj hq; subst this; exact h.neB)
        | cut eof =>
          have hq2 : some ({ actL q.p (.deliver (if eof = true then WsIn.eof else WsIn.err)) with ba := [], baOpen := false } : PS) = some q' := hq
          have := Option.some.inj hq2; subst this; exact h.neB
  · cases hs

/-- One stimulus of the pair. -/
theorem PInv.step (hI : Closed I) {q : PB} (h : PInv I q) (s : Side) (st : Stim) : PInv I (stepB q s st) := by
  cases s with
  | A =>
    simp only [stepB]
    cases hs : stepL q.p st with
    | none => exact h
    | some p' => exact h.stepA hI hs
  | B =>
    simp only [stepB]
    cases hs : stepL q.p.swap st with
    | none => exact h
    | some p' => exact ((h.swap hI).stepA hI (q := q.swap) hs).swap hI

theorem PInv.run (hI : Closed I) {q : PB} (h : PInv I q) (l : List (Side × Stim)) : PInv I (runB q l) := by
  induction l generalizing q with
  | nil => exact h
  | cons a l ih => obtain ⟨s, st⟩ := a; exact ih (h.step hI s st)

/-! ### The initial state -/

theorem count_le_one_of_nodup {l : List Nat} (h : l.Nodup) (x : Nat) : l.count x ≤ 1 :=
  List.nodup_iff_count.mp h x

theorem PInv.init (oa ob : Opts) {ra rb : List Nat} (cfg : Cfg ra rb) : PInv Inv { p := PairAll.init oa ob ra rb } := by
  refine ⟨⟨?_, ?_, ?_, ?_, ?_, ⟨?_, ?_, ?_⟩, ⟨?_, ?_, ?_⟩⟩, cfg.neA, cfg.neB⟩
  · intro x
    have hc : (ra ++ rb).count x ≤ 1 := count_le_one_of_nodup cfg.nodup x
    rw [List.count_append] at hc
    refine ⟨?_, ?_, ⟨?_, ?_, ?_⟩, ⟨?_, ?_, ?_⟩⟩ <;>
      simp [sm, Sm.swap, absB, PairAll.init, bview, BC.path, BC.swap, enX, parkX, bindPark, inMsgs] <;> omega
  · intro k b hk; simp [absB, PairAll.init, bview] at hk
  · intro k b hk; simp [absB, PairAll.init, bview] at hk
  · intro y r hm; simp [absB, PairAll.init, bview] at hm
  · intro y r hm; simp [absB, PairAll.init, bview] at hm
  · intro x bt host port hit
    simp [ItemAt, absB, PairAll.init, bview, BC.path, bindPark, inMsgs] at hit
  · intro x hf; simp [absB, PairAll.init, bview, BC.path, BC.swap, inMsgs] at hf
  · intro req hd; simp [absB] at hd
  · intro x bt host port hit
    simp [ItemAt, absB, PairAll.init, bview, BC.path, BC.swap, bindPark, inMsgs] at hit
  · intro x hf; simp [absB, PairAll.init, bview, BC.path, BC.swap, inMsgs] at hf
  · intro req hd; simp [absB, BC.swap] at hd

/-- In every reachable state of the pair (with records), the invariant of the pair of bind views holds. -/
theorem reach_inv (oa ob : Opts) {ra rb : List Nat} (cfg : Cfg ra rb) (l : List (Side × Stim)) :
    Inv (absB (runB { p := PairAll.init oa ob ra rb } l)) :=
  ((PInv.init oa ob cfg).run closed_inv l).inv

end Penguin.BindAll
